SPECIFICATION Spec
CONSTANTS
  MaxLevel = 2
  LConfigs <- AllLConfigs
INVARIANT TypeOK
INVARIANT LenLaw
INVARIANT LastErrOwnsIterate
INVARIANT ErrsMonotone
INVARIANT ExitLaw
INVARIANT MinSweeps
INVARIANT ZeroBudget
INVARIANT Budget
INVARIANT CbCalls
INVARIANT StagLaw
PROPERTY Terminates
PROPERTY NotMissed
CHECK_DEADLOCK FALSE
