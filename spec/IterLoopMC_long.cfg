SPECIFICATION Spec
CONSTANTS
  MaxLevel = 2
  LConfigs <- LongLConfigs
INVARIANT TypeOK
INVARIANT LenLaw
INVARIANT LastErrOwnsIterate
INVARIANT ErrsMonotone
INVARIANT ExitLaw
INVARIANT MinSweeps
INVARIANT Budget
INVARIANT CbCalls
INVARIANT StagLaw
PROPERTY Terminates
PROPERTY NotMissed
CHECK_DEADLOCK FALSE
