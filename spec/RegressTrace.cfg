SPECIFICATION TraceSpec
CONSTANTS
  Draws = 1000
  PlsDraws = 1000
  FullCross = TRUE
POSTCONDITION TraceAccepted
CHECK_DEADLOCK FALSE
