SPECIFICATION Spec
CONSTANTS
  Deviation = "none"
  MaxFail = 2
  MaxLevel = 1
  P2Configs <- P2CrashLine
INVARIANT LastErrOwnsIterate
INVARIANT ErrsMonotone
INVARIANT LenLaw
INVARIANT AccLaw
INVARIANT InnerLaw
INVARIANT ExitLaw
INVARIANT NoCrash
PROPERTY Terminates
