SPECIFICATION Spec
CONSTANTS
  Tier = "quick"
  MaxOrder = 4
  MaxDim = 3
  MaxSize = 36
  MaxOut = 81
INVARIANT SpecOK
