SPECIFICATION Spec
CONSTANTS
  MaxOrder = 4
  MaxDim = 4
  MaxReq = 70
  MaxTRReq = 4
INVARIANT SpecOK
INVARIANT TRSpecOK
