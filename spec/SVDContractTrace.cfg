SPECIFICATION TraceSpec
CONSTANTS
  MaxDim = 4
POSTCONDITION TraceAccepted
CHECK_DEADLOCK FALSE
