------------------------------- MODULE P2ALS -------------------------------
(* Extension beyond the listed properties (DESIGN.md section 8): the CONTROL skeleton of PARAFAC2-ALS                 *)
(* (tensorly/decomposition/_parafac2.py: parafac2, nn_modes = None), implementation-shaped, with the INNER CP-ALS       *)
(* run of every outer iteration modelled by the state functions of CPALS.tla (INSTANCE): the log of                    *)
(* parafac2(..., verbose=True) is a trace of this specification, and the lines the inner parafac prints are a trace of   *)
(* CPALS nested inside it.                                                                                             *)
(*                                                                                                                     *)
(*   outer iteration k:  "Starting iteration k"                                                                        *)
(*                       [factors_last saved iff linesearch and k even and k > 5]                                      *)
(*                       projections; inner parafac(n_iter_max = n_iter_parafac, tol = 1e-100, no return_errors,        *)
(*                                                  no callback, no line search) -- prints its own error lines          *)
(*                       line step (accepted / failed / acceleration reduced)   -- only on line iterations              *)
(*                       error recorded:  appended on ordinary iterations (iff tol is truthy),                          *)
(*                                        OVERWRITES the last entry on line iterations                                  *)
(*                       "PARAFAC2 reconstruction error=e[, variation=v.]"  "converged in k iterations."               *)
(*                                                                                                                     *)
(* AS FOUND: a line iteration writes rec_errors[-1]; with tol falsy nothing was ever recorded and the routine dies       *)
(* with IndexError at iteration 6 (Crash; NoCrash is violated by the witness configuration).                            *)
EXTENDS Naturals, Integers, Sequences, TLC

CONSTANTS MaxFail, MaxLevel, P2Configs,
          Deviation     \* "none" | "F06e" (as found before the repair: a rejected jump leaves the PREVIOUS iteration's error in the list)
\* a configuration: [cap, ls, tol (truthy), errors (return_errors), ninner (n_iter_parafac),
\*                   maxfail, accpow (max_fail and initial acc_pow of the line-search object: 4 and 2 by default)]

VARIABLE p      \* [c, it, pc, inner, accPow, accFail, lvl, errs, exit]
pvars == <<p>>

\* the inner solver: CP-ALS on three modes, tol truthy, no list returned, no callback, no line search
CP == INSTANCE CPALS WITH s <- p, Guarded <- FALSE, Configs <- {}
InnerCfg(c) == [cap |-> c.ninner, ls |-> FALSE, tol |-> TRUE, errors |-> FALSE, cb |-> FALSE, cbstops |-> FALSE, modes |-> <<0, 1, 2>>]

LineDue(c, k) == c.ls /\ k % 2 = 0 /\ k > 5
LastOf(q) == q[Len(q)]

InitP(c, l) == [c |-> c, it |-> -1, pc |-> "top", inner |-> CP!InitS(InnerCfg(c), l), accPow |-> c.accpow, accFail |-> 0,
                lvl |-> l, errs |-> <<>>, exit |-> "none"]

\* ---- state functions -------------------------------------------------------------------------------------------------
StartOK(x) == x.pc = "top" /\ x.it + 1 < x.c.cap
StartF(x) == [x EXCEPT !.it = x.it + 1, !.pc = "inner", !.inner = CP!InitS(InnerCfg(x.c), x.lvl)]

\* the inner run is over when its own model says so (cap or convergence)
InnerDone(x) == x.pc = "inner" /\ x.inner.pc = "done"
\* leaving the inner block: the iterate's error is what the inner run ended with
LeaveInnerOK(x) == InnerDone(x)
LeaveInnerF(x, new) == [x EXCEPT !.lvl = new, !.pc = IF LineDue(x.c, x.it) THEN "line" ELSE "rec"]

LineOK(x) == x.pc = "line" /\ x.c.tol              \* there is a recorded error to overwrite
LineF(x, accepted, cand) ==
    LET y == IF accepted THEN [x EXCEPT !.lvl = cand, !.accFail = 0]
             ELSE IF x.accFail + 1 = x.c.maxfail THEN [x EXCEPT !.accFail = 0, !.accPow = x.accPow + 1]   \* "Reducing acceleration."
             ELSE [x EXCEPT !.accFail = x.accFail + 1]
    IN  [y EXCEPT !.errs = IF accepted \/ Deviation # "F06e" THEN [y.errs EXCEPT ![Len(y.errs)] = y.lvl] ELSE y.errs,
                  !.pc = "tol"]                                                        \* overwrites the last entry
Reduces(x) == x.accFail + 1 = x.c.maxfail

CrashOK(x) == x.pc = "line" /\ ~x.c.tol
CrashF(x) == [x EXCEPT !.exit = "crash", !.pc = "done"]

RecOK(x) == x.pc = "rec"
RecF(x) == [x EXCEPT !.errs = IF x.c.tol THEN Append(x.errs, x.lvl) ELSE x.errs, !.pc = "tol"]

TolOK(x, conv) == x.pc = "tol" /\ (conv => (x.c.tol /\ x.it >= 1 /\ Len(x.errs) >= 2))
TolF(x, conv) == IF conv THEN [x EXCEPT !.exit = "converged", !.pc = "done"] ELSE [x EXCEPT !.pc = "top"]

CapOK(x) == x.pc = "top" /\ x.it + 1 >= x.c.cap
CapF(x) == [x EXCEPT !.exit = "cap", !.pc = "done"]

----------------------------------------------------------------------------
(* Design model.  Levels: the inner run never raises the error (its own steps are CPALS steps with the CPALS data      *)
(* laws), the jump is accepted iff the extrapolated point beats the error of the CURRENT iterate (after fix F-06e;      *)
(* the documented meaning of line_step's rec_error), convergence = no change between the last two records.             *)
Init == \E c \in P2Configs, l \in 0..MaxLevel : p = InitP(c, l)

Start == StartOK(p) /\ p' = StartF(p)

\* inner steps: the CPALS actions on the nested record
InnerStep ==
    /\ p.pc = "inner" /\ p.inner.pc # "done"
    /\ \/ CP!StartOK(p.inner) /\ p' = [p EXCEPT !.inner = CP!StartF(p.inner)]
       \/ \E m \in 0..2, new \in 0..MaxLevel :
             CP!ModeOK(p.inner, m) /\ new <= p.inner.lvl /\ p' = [p EXCEPT !.inner = CP!ModeF(p.inner, new)]
       \/ CP!RecOK(p.inner) /\ p' = [p EXCEPT !.inner = CP!RecF(p.inner, p.inner.lvl)]
       \/ CP!CbOK(p.inner, FALSE) /\ p' = [p EXCEPT !.inner = CP!CbF(p.inner, FALSE)]
       \/ \E conv \in BOOLEAN :
             /\ CP!TolOK(p.inner, conv)
             /\ (p.inner.it >= 1) => (conv = (p.inner.errs[Len(p.inner.errs) - 1] = LastOf(p.inner.errs)))
             /\ p' = [p EXCEPT !.inner = CP!TolF(p.inner, conv)]
       \/ CP!CapOK(p.inner) /\ p' = [p EXCEPT !.inner = CP!CapF(p.inner)]

LeaveInner == LeaveInnerOK(p) /\ p' = LeaveInnerF(p, p.inner.lvl)
Line == LineOK(p) /\ \E cand \in 0..MaxLevel : p' = LineF(p, cand < p.lvl, cand)
Crash == CrashOK(p) /\ p' = CrashF(p)
Rec == RecOK(p) /\ p' = RecF(p)
Tol == \E conv \in BOOLEAN :
          /\ TolOK(p, conv)
          /\ (p.c.tol /\ p.it >= 1 /\ Len(p.errs) >= 2) => (conv = (p.errs[Len(p.errs) - 1] = LastOf(p.errs)))
          /\ p' = TolF(p, conv)
CapExit == CapOK(p) /\ p' = CapF(p)

Next == Start \/ InnerStep \/ LeaveInner \/ Line \/ Crash \/ Rec \/ Tol \/ CapExit
Spec == Init /\ [][Next]_pvars /\ WF_pvars(Next)

----------------------------------------------------------------------------
NumLine(k) == IF k < 6 THEN 0 ELSE ((k - 6) \div 2) + 1            \* line iterations among 0..k
\* the last reported error is the error of the current iterate whenever an iteration is complete
LastErrOwnsIterate == (p.c.tol /\ p.pc \in {"top", "tol"} /\ p.it >= 0 /\ p.exit # "crash") => (p.errs # <<>> /\ LastOf(p.errs) = p.lvl)
\* reported errors never increase
ErrsMonotone == \A k \in 1..(Len(p.errs) - 1) : p.errs[k + 1] <= p.errs[k]
\* one entry per completed ordinary iteration; line iterations overwrite
LenLaw == /\ ~p.c.tol => p.errs = <<>>
          /\ (p.c.tol /\ p.pc \in {"top", "tol"}) =>
                Len(p.errs) = (p.it + 1) - (IF p.c.ls THEN NumLine(p.it) ELSE 0)
AccLaw == p.accFail < p.c.maxfail /\ p.accPow >= p.c.accpow /\ (~p.c.ls => (p.accPow = p.c.accpow /\ p.accFail = 0))
\* the inner run always gets the full budget or stops on its own rule; it never outlives its block
InnerLaw == /\ (p.pc # "inner") => TRUE
            /\ (p.pc = "inner") => (p.inner.it < p.c.ninner /\ p.inner.exit \in {"none", "cap", "converged"})
ExitLaw == /\ (p.exit = "cap") => p.it + 1 >= p.c.cap
           /\ (p.exit = "converged") => (p.c.tol /\ p.it >= 1 /\ Len(p.errs) >= 2 /\ p.errs[Len(p.errs) - 1] = LastOf(p.errs))
NoCrash == p.exit # "crash"
Terminates == <>(p.pc = "done")
=============================================================================
