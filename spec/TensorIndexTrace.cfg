SPECIFICATION TraceSpec
CONSTANTS
  MaxOrder = 5
  MaxDim = 4
  WithEmpty = TRUE
  HighOrders = {9, 10, 11}
  MaxSize = 128
POSTCONDITION TraceAccepted
CHECK_DEADLOCK FALSE
