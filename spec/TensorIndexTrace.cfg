SPECIFICATION TraceSpec
CONSTANTS
  MaxOrder = 5
  MaxDim = 4
  MaxSize = 128
POSTCONDITION TraceAccepted
CHECK_DEADLOCK FALSE
