----------------------------- MODULE CPALSTrace -----------------------------
(* Trace validation for the CP-ALS control skeleton: the verbose=2 log of a real parafac run, line by line, must   *)
(* be a behaviour of CPALS (Guarded = FALSE: the code as found).  One event per printed line, plus "Call" (the     *)
(* configuration and what the call returned) and "Return" / "Raise".  Steps that print nothing (Rec, a callback     *)
(* that does not stop, a stopping rule that is off or not satisfied, the budget running out) are composed in front  *)
(* of the next printed event by the state functions of CPALS.                                                      *)
(* Errors are quantised relative errors (integers, scale 1e8); every law on them is stated with the slack Q.         *)
EXTENDS CPALSMC, Json, IOUtils

Events == ndJsonDeserialize(IOEnv.TRACE_FILE)

VARIABLES i, failed, printed, call
tvars == <<s, i, failed, printed, call>>

Q == 2              \* quantisation slack (units of 1e-8 relative error)
JumpTol == 20       \* |J^p - iteration| <= 2e-5 (J is printed with full precision; p <= 13; scale 1e6)
IsFin(v) == -2000000000 <= v /\ v <= 2000000000
NoCall == [cfg |-> [cap |-> 0, ls |-> FALSE, tol |-> FALSE, errors |-> FALSE, cb |-> FALSE, cbstops |-> FALSE, modes |-> <<>>],
           errs |-> <<>>, below |-> <<>>, n_errs |-> -1]

\* the error recorded for iteration k (0-based), as the call returned it (0 when the list is not available)
ErrAt(k) == IF k + 1 <= Len(call.errs) THEN call.errs[k + 1] ELSE 0

\* silent steps -----------------------------------------------------------------------------------------------
A1(x) == IF RecOK(x) THEN RecF(x, ErrAt(x.it)) ELSE x
A2(x) == IF x.pc = "cb" /\ CbOK(x, FALSE) THEN CbF(x, FALSE) ELSE x
A3(x) == IF x.pc = "tol" THEN TolF(x, FALSE) ELSE x
ToCb(x)  == A1(x)
ToTol(x) == A2(A1(x))
ToTop(x) == A3(A2(A1(x)))
\* going silently through the stopping rule is legal only if it had nothing to print, or printed it and did not fire
SilentTolOK(x, p) ==
    LET y == ToTol(x) IN
    (y.pc = "tol" /\ y.c.tol) =>
        /\ p
        /\ (y.it >= 1 => (y.it <= Len(call.below) /\ ~call.below[y.it]))

Verdict(e) ==
    IF e.ev = "Start" THEN
        IF ~SilentTolOK(s, printed) THEN (IF ~printed THEN "MissingErrorLine" ELSE "MissedConvergence")
        ELSE LET y == ToTop(s) IN
             IF ~StartOK(y) THEN "StartNotEnabled"
             ELSE IF e.k # y.it + 2 THEN "IterationNumber"
             ELSE "ok"
    ELSE IF e.ev = "Mode" THEN
        IF ~ModeOK(s, e.m) THEN "ModeNotEnabled" ELSE "ok"
    ELSE IF e.ev \in {"LsAcc", "LsFail"} THEN
        IF ~LineOK(s) THEN "LineSearchNotDue"
        ELSE IF ~(s.accPow - 1 <= Len(e.jump_pows)) THEN "Malformed"
        ELSE IF ~IsFin(e.jump_pows[s.accPow - 1]) THEN "JumpLaw"
        ELSE IF ~(e.jump_pows[s.accPow - 1] - s.it * 1000000 \in -JumpTol..JumpTol) THEN "JumpLaw"
        \* accepted => the recorded error of this iteration is below the last recorded one
        ELSE IF e.ev = "LsAcc" /\ Len(call.errs) >= s.it + 1 /\ ~(ErrAt(s.it) <= ErrAt(s.it - 1) + Q) THEN "AcceptedJumpNotBelowLastError"
        ELSE "ok"
    ELSE IF e.ev = "Reduce" THEN
        IF ~ReduceOK(s) THEN "ReduceNotEnabled" ELSE "ok"
    ELSE IF e.ev = "CbExit" THEN
        IF ~(ToCb(s).pc = "cb" /\ CbOK(ToCb(s), TRUE)) THEN "CallbackExitNotEnabled" ELSE "ok"
    ELSE IF e.ev \in {"Err0", "ErrK"} THEN
        LET y == ToTol(s) IN
        IF ~(y.pc = "tol" /\ y.c.tol /\ ~printed) THEN "ErrorLineNotEnabled"
        ELSE IF e.ev = "Err0" /\ y.it # 0 THEN "ErrorLineKind"
        ELSE IF e.ev = "ErrK" /\ ~(y.it >= 1 /\ e.k = y.it) THEN "ErrorLineKind"
        ELSE IF ~IsFin(e.e) THEN "ErrorNotFinite"
        ELSE IF ~(e.e - ErrAt(y.it) \in -Q..Q) THEN "PrintedErrorIsNotTheRecordedOne"
        ELSE IF e.ev = "ErrK" /\ ~(IsFin(e.d) /\ e.d - (ErrAt(y.it - 1) - ErrAt(y.it)) \in -(2 * Q)..(2 * Q)) THEN "PrintedDecrease"
        ELSE "ok"
    ELSE IF e.ev = "Conv" THEN
        IF ~(s.pc = "tol" /\ printed /\ TolOK(s, TRUE)) THEN "ConvergenceNotEnabled"
        ELSE IF e.k # s.it THEN "IterationNumber"
        ELSE IF ~(s.it <= Len(call.below) /\ call.below[s.it]) THEN "ConvergedWithoutMeetingTheRule"
        ELSE "ok"
    ELSE IF e.ev = "Return" THEN
        IF s.pc = "done" THEN
            (IF s.exit = "crash" THEN "ReturnedAfterCrashPoint"
             ELSE IF RecordOn(s.c) /\ call.n_errs >= 0 /\ call.n_errs # Len(s.errs) THEN "ErrorListLength" ELSE "ok")
        ELSE IF ~SilentTolOK(s, printed) THEN (IF ~printed THEN "MissingErrorLine" ELSE "MissedConvergence")
        ELSE LET y == ToTop(s) IN
             IF ~CapOK(y) THEN "ReturnedBeforeBudgetOrStop"
             ELSE IF RecordOn(y.c) /\ call.n_errs >= 0 /\ call.n_errs # Len(y.errs) THEN "ErrorListLength"
             ELSE "ok"
    ELSE IF e.ev = "Raise" THEN
        IF CrashOK(s) \/ CrashOK(ToCb(s)) THEN "ok" ELSE "UnexpectedException"
    ELSE "Malformed"

StepTo(e) ==
    CASE e.ev = "Start" -> StartF(ToTop(s))
      [] e.ev = "Mode" -> ModeF(s, s.lvl)
      [] e.ev = "LsAcc" -> LineF(s, TRUE, ErrAt(s.it))
      [] e.ev = "LsFail" -> LineF(s, FALSE, 0)
      [] e.ev = "Reduce" -> ReduceF(s)
      [] e.ev = "CbExit" -> CbF(ToCb(s), TRUE)
      [] e.ev \in {"Err0", "ErrK"} -> ToTol(s)
      [] e.ev = "Conv" -> TolF(s, TRUE)
      [] e.ev = "Return" -> IF s.pc = "done" THEN s ELSE CapF(ToTop(s))
      [] e.ev = "Raise" -> IF CrashOK(s) THEN CrashF(s) ELSE CrashF(ToCb(s))

ValidCfg(c) == /\ c.cap \in 0..200 /\ c.ls \in BOOLEAN /\ c.tol \in BOOLEAN /\ c.errors \in BOOLEAN
               /\ c.cb \in BOOLEAN /\ c.cbstops \in BOOLEAN /\ (c.cbstops => c.cb)
               /\ \A k \in 1..Len(c.modes) : c.modes[k] \in 0..8

TraceInit == /\ s = InitS(NoCall.cfg, 0) /\ i = 1 /\ failed = FALSE /\ printed = FALSE /\ call = NoCall

TraceNext ==
    /\ i <= Len(Events)
    /\ i' = i + 1
    /\ LET e == Events[i] IN
         IF e.ev = "Call" THEN
             IF ValidCfg(e.cfg)
               THEN /\ s' = InitS(e.cfg, 0) /\ call' = e /\ failed' = FALSE /\ printed' = FALSE
               ELSE /\ PrintT(<<"REJECT", e.id, "InDomain">>)
                    /\ failed' = TRUE /\ UNCHANGED <<s, printed, call>>
         ELSE IF failed THEN UNCHANGED <<s, failed, printed, call>>
         ELSE LET v == Verdict(e) IN
             IF v = "ok"
               THEN /\ s' = StepTo(e) /\ failed' = FALSE /\ call' = call
                    /\ printed' = IF e.ev \in {"Err0", "ErrK"} THEN TRUE ELSE IF e.ev = "Start" THEN FALSE ELSE printed
               ELSE /\ PrintT(<<"REJECT", e.id, v>>)
                    /\ failed' = TRUE /\ UNCHANGED <<s, printed, call>>

TraceSpec == TraceInit /\ [][TraceNext]_tvars
\* the laws of the design model hold along every recorded run as well
TraceLenLaw == failed \/ LenLaw
TraceAccLaw == failed \/ AccLaw
TraceSavedLaw == failed \/ SavedLaw
TraceAccepted == TLCGet("stats").diameter - 1 = Len(Events)
=============================================================================
