SPECIFICATION TSpec
CONSTANTS
  MaxOrder = 4
  MaxDim = 3
  MaxRank = 3
  MaxSize = 36
  MaxCore = 18
  MaxP2J = 4
  MaxDim4 = 3
  MaxRank4 = 3
  MaxBadSize = 36
  TMaxOrder = 3
  TMaxDim = 3
  TMaxRank = 3
  TMaxCore = 8
  TModeDotSize = 8
  Thin = 6
INVARIANT TSpecOK
