SPECIFICATION Spec
CONSTANTS
  Threads = {"t0", "t1"}
  Main = "t0"
  Names <- MCNames
  Default = "numpy"
  PrevScope = "global"
  WithDispatchModes = FALSE
  MaxOps = 3
CONSTRAINT Bound
INVARIANT TypeOK
