------------------------------- MODULE Regress -------------------------------
(* C19: tensor regressors predict with exactly the weights they expose.                          *)
(*                                                                                                *)
(* Documented semantics (written from the docstrings / the model definition):                     *)
(*   a fitted CP / Tucker regressor exposes a weight tensor W of shape (I_1..I_p, O_1..O_q) and    *)
(*        predict(X)[i, o] = SUM_{j in I_1 x .. x I_p}  X[i, j] * W[j, o];                         *)
(*   W is the dense tensor represented by the exposed factors                                      *)
(*        CP      W[i_1..i_N] = SUM_r w_r PROD_k F_k[i_k, r]                                      *)
(*        Tucker  W[i_1..i_N] = SUM_j G[j] PROD_k F_k[i_k, j_k]                                    *)
(*   and vec_W_ is its row-major vectorisation;                                                    *)
(*   CP_PLSR: transform(X_train) returns the fitted scores X_factors[0]; loadings (X modes >= 1,   *)
(*   Y mode 1) have unit norm; the model is invariant to a constant tensor added to every X sample *)
(*   / a constant added to Y (mean centring) and equivariant under a permutation of the samples.   *)
(*                                                                                                *)
(* Numbers: samples are small integers (exact); weights / factors / predictions are floats logged  *)
(* at scale 10^6.  Predict is evaluated in exact integer arithmetic on the quantised weights, so   *)
(* the admissible deviation is the accumulated rounding of the weights, computed here from the     *)
(* samples themselves (PredTol).                                                                   *)
EXTENDS Tens, TLC

CONSTANTS Draws,         \* data draws per regression configuration
          PlsDraws,      \* data draws per PLS configuration
          FullCross      \* TRUE: sample counts x regularisations fully crossed (thorough); FALSE: paired (quick)

VARIABLE cfg
\* exact factorised-tensor semantics of C03, used for the theorems about the quantised contraction
Fz == INSTANCE Factorized WITH MaxOrder <- 4, MaxDim <- 3, MaxRank <- 3, MaxSize <- 27, MaxCore <- 8,
                               MaxP2J <- 3, MaxDim4 <- 2, MaxRank4 <- 2, MaxBadSize <- 12, cfg <- cfg

S == 1000000             \* quantisation scale of weights, factors, predictions
AbsI(x) == IF x < 0 THEN -x ELSE x
SgnI(x) == IF x < 0 THEN -1 ELSE IF x > 0 THEN 1 ELSE 0
RECURSIVE Pow(_, _)
Pow(b, n) == IF n = 0 THEN 1 ELSE b * Pow(b, n - 1)
FSum(n, f(_))  == LET A[k \in 0..n] == IF k = 0 THEN 0 ELSE A[k - 1] + f(k) IN A[n]
\* (not "IF f(k) > M[k-1] THEN f(k) ELSE M[k-1]": two recursive references make TLC's evaluation exponential)
FMax(n, f(_))  == LET V == {f(k) : k \in 1..n} \cup {0} IN CHOOSE x \in V : \A y \in V : y <= x
IsIntSeq(s, n) == DOMAIN s = 1..n /\ \A k \in 1..n : s[k] \in Int
IsTens(T) == /\ DOMAIN T.shape = 1..Len(T.shape) /\ \A k \in 1..Len(T.shape) : T.shape[k] \in 1..100000
             /\ IsIntSeq(T.data, Size(T.shape))
\* (a * b) / 10^6 for |a|, |b| <= 4 * 10^7 without leaving 32 bits; truncation error < 3 units
MulQ6(a, b) ==
    LET x == AbsI(a)  y == AbsI(b)
        x1 == x \div 1000  x0 == x % 1000  y1 == y \div 1000  y0 == y % 1000
    IN  SgnI(a) * SgnI(b) * (x1 * y1 + (x1 * y0 + x0 * y1) \div 1000 + (x0 * y0) \div 1000000)
MulLimit == 40000000

-----------------------------------------------------------------------------
(* Prediction = contraction of every sample with the weight tensor over the sample modes.         *)
FeatShape(X) == SubSeq(X.shape, 2, Len(X.shape))
OutDims(X, W) == SubSeq(W.shape, Len(X.shape), Len(W.shape))
PredictShape(X, W) == <<X.shape[1]>> \o OutDims(X, W)
Conformable(X, W) == /\ Len(X.shape) >= 2 /\ Len(W.shape) >= Len(X.shape) - 1
                     /\ SubSeq(W.shape, 1, Len(X.shape) - 1) = FeatShape(X)
Predict(X, W) ==
    LET F == FeatShape(X)  p == Len(F)  q == Len(W.shape) - p IN
    Build(PredictShape(X, W), LAMBDA idx :
        FSum(Size(F), LAMBDA n :
            LET j == Unlin(F, n - 1) IN
            At(X, [k \in 1..(p + 1) |-> IF k = 1 THEN idx[1] ELSE j[k - 1]])
          * At(W, [k \in 1..(p + q) |-> IF k <= p THEN j[k] ELSE idx[k - p + 1]])))
\* the same as a matrix product of the row-major flattenings  (n x F) (F x O)
PredictMatmul(X, W) ==
    LET Fs == Size(FeatShape(X))  Os == Size(OutDims(X, W)) IN
    [shape |-> PredictShape(X, W),
     data  |-> [m \in 1..(X.shape[1] * Os) |->
                  FSum(Fs, LAMBDA f : X.data[((m - 1) \div Os) * Fs + f] * W.data[(f - 1) * Os + ((m - 1) % Os) + 1])]]
\* worst-case deviation (units of 1/S) of sample i's prediction when every weight carries half a unit of
\* rounding error, plus the rounding of the logged prediction and float64 noise
AbsRowSum(X, i) == LET Fs == Size(FeatShape(X)) IN FSum(Fs, LAMBDA f : AbsI(X.data[(i - 1) * Fs + f]))
PredTol(X, i) == (AbsRowSum(X, i) + 1) \div 2 + 2
\* all partial sums stay inside 32 bits
PredictRepresentable(X, W) ==
    LET mw == FMax(Len(W.data), LAMBDA n : AbsI(W.data[n])) IN
    \A i \in 1..X.shape[1] : AbsRowSum(X, i) * (mw \div 1000 + 1) < 2000000

-----------------------------------------------------------------------------
(* Dense tensor of quantised CP / Tucker factors (records as in Factorized: fs, w / core).        *)
\* product of quantised numbers, scale S:  S * PROD (a_k / S)
RECURSIVE ChainQ(_, _)
ChainQ(as, k) == IF k = 0 THEN S ELSE MulQ6(ChainQ(as, k - 1), as[k])
E2(T, i, j) == T.data[i * T.shape[2] + j + 1]                 \* 0-based matrix entry
QCPShape(in) == [k \in 1..Len(in.fs) |-> in.fs[k].shape[1]]
QCPDense(in) ==
    LET N == Len(in.fs)  R == in.fs[1].shape[2] IN
    Build(QCPShape(in), LAMBDA idx :
        FSum(R, LAMBDA r : ChainQ([k \in 1..(N + 1) |-> IF k = 1 THEN in.w[r] ELSE E2(in.fs[k - 1], idx[k - 1], r - 1)], N + 1)))
QTuckerDense(in) ==
    LET N == Len(in.fs) IN
    Build(QCPShape(in), LAMBDA idx :
        FSum(Len(in.core.data), LAMBDA n :
            LET j == Unlin(in.core.shape, n - 1) IN
            ChainQ([k \in 1..(N + 1) |-> IF k = 1 THEN in.core.data[n] ELSE E2(in.fs[k - 1], idx[k - 1], j[k - 1])], N + 1)))
\* magnitude bound (an integer >= every |true value|) and the tolerance derived from it:
\* a chain of K quantised multiplicands each off by <= 1/2 unit, truncation < 3 per product:
\*      e_K <= SUM_j (mx^(j-1)/2 + 3) mx^(K-j)  <=  4 K mx^(K-1)
MaxMag(in, first) ==
    LET a == FMax(Len(first), LAMBDA n : AbsI(first[n]))
        b == FMax(Len(in.fs), LAMBDA k : FMax(Len(in.fs[k].data), LAMBDA n : AbsI(in.fs[k].data[n])))
    IN  (IF a > b THEN a ELSE b) \div S + 1
DenseTol(K, mx, terms) == terms * 4 * K * Pow(mx, K - 1) + 1
\* every intermediate product fits MulQ6's operand range
ChainRepresentable(K, mx) == mx <= 6 /\ Pow(mx, K) * (S \div 1000) <= MulLimit \div 1000      \* (mx <= 6 first: Pow itself must not overflow)
FactorsOK(in, shape, kind) ==
    /\ DOMAIN in.fs = 1..Len(shape)
    /\ \A k \in 1..Len(shape) : IsTens(in.fs[k]) /\ Len(in.fs[k].shape) = 2 /\ in.fs[k].shape[1] = shape[k]
    /\ IF kind = "cp"
       THEN /\ \A k \in 1..Len(shape) : in.fs[k].shape[2] = in.fs[1].shape[2]
            /\ IsIntSeq(in.w, in.fs[1].shape[2])
       ELSE /\ IsTens(in.core) /\ Len(in.core.shape) = Len(shape)
            /\ \A k \in 1..Len(shape) : in.fs[k].shape[2] = in.core.shape[k]

-----------------------------------------------------------------------------
(* Domain.  Shapes of one sample (order 1-3, i.e. input X of order 2-4), of the target, ranks,     *)
(* regularisation (tenths), sample counts.                                                         *)
SampleShapes == {<<3>>, <<4>>, <<3, 2>>, <<2, 3>>, <<2, 2, 2>>, <<3, 2, 2>>, <<2, 2, 2, 2>>}     \* X of order 2..5
TargetShapes == {<<>>, <<2>>, <<2, 3>>}
NSamples == {6, 9, 12}
Regs == {1, 10, 100}                         \* reg_W in tenths: 0.1, 1, 10
MaxX == 3
TuckerRanks(xs, id) == [k \in 1..Len(xs) |-> CASE id = 1 -> 1 [] id = 2 -> 2 [] id = 3 -> IF k % 2 = 1 THEN 2 ELSE 1]
\* constructor options as configuration: both exits of the fitting loops (convergence test / iteration cap)
\*   CPRegressor, TuckerRegressor:  tight (tol 1e-9, 40 sweeps)   loose (tol 1e-2, 40)   cap (tol 1e-9, 2 sweeps)
\*   CP_PLSR:  default (tol 1e-9, 200)   tol2 (1e-2, 200)   tol1 (1e-1, 200)   cap (1e-9, 2 inner iterations)
RegOpts == {"tight", "loose", "cap"}
PlsOpts == {"default", "tol2", "tol1", "cap"}
MaxIter(opt) == CASE opt = "cap" -> 2 [] opt \in {"tight", "loose"} -> 40 [] OTHER -> 200
\* the forms in which new data is handed to predict / transform (values are the same small integers)
\* "negzero" / "subnormal": every 0 of the integer samples replaced by -0.0 / by 5e-324 (values equal to 0 for every clause)
RegDataForms == {"float32", "int64", "int32", "uint8", "fortran", "strided", "negzero", "subnormal"}     \* besides float64, C order
PlsDataForms == {"fortran", "strided"}          \* CP_PLSR centres the data in place: floating-point arrays only
\* UNITS: X is handed over multiplied by 2^ux and the targets by 2^uy (powers of two: exact).  The events log every
\* quantity in the configuration's own units (scores / 2^ux, predictions / 2^uy, weights * 2^ux / 2^uy -- exact
\* rescalings by the harness), so every clause below is unit-free: a model that only works for O(1) data fails them.
UnitPairs == {<<0, 0>>, <<-20, -20>>, <<-40, -30>>, <<80, 50>>, <<30, -40>>}
UnitRanks == IF FullCross THEN 1..3 ELSE {1, 3}          \* ranks / component counts of the non-base-unit configurations
\* dtypes AT FIT TIME: "x32" X float32 with float64 targets, "xint" X int64, "reg32"/"reg64" reg_W a NumPy scalar
\* ... and MEMORY LAYOUT of the training data: "xF" Fortran-ordered X, "xmoved" X a transposed view (sample axis moved
\* to the front of data stored samples-last), "xstrided" a non-contiguous view, "xro" read-only arrays, "yF" targets
\* Fortran-ordered / strided.  Layout is not part of the value: every clause is unchanged.
FitForms == {"f64", "x32", "xint", "reg32", "reg64", "xF", "xmoved", "xstrided", "xro", "yF"}
PlsLayouts == {"C", "F", "moved", "strided", "ro"}          \* of both X and Y handed to CP_PLSR.fit
\* exact zeros / exact ties in the DATA of CP_PLSR: "contrast": the last mode has size 2 and X[..., 1] = -X[..., 0]
\* exactly (a loading (c, -c) whose sum is exactly 0); "zerofeat": one feature is identically 0 (a zero loading entry)
\* "selfy": the targets ARE the samples (fit(X, X), the very same array object; X of order 2)
PlsData == {"generic", "contrast", "zerofeat", "selfy"}
\* CALL FORM of the constructor and of fit / predict / transform: "std" as elsewhere (first argument positional, options by
\* keyword), "pos" every argument positional in the published order, "kw" every argument by its published name.
\* The harness holds the published names / order in a frozen table.  Rotated over the configurations:
CallForms == <<"std", "pos", "kw">>
RegCallOf(c) == CallForms[((c.n + c.rank + Len(c.xs) + Len(c.ys) + c.reg) % 3) + 1]
PlsCallOf(c) == CallForms[((c.n + c.ny + c.nc + Len(c.xs)) % 3) + 1]
WithCall(c) == IF c.kind = "reg" THEN ("call" :> RegCallOf(c)) @@ c ELSE IF c.kind = "pls" THEN ("call" :> PlsCallOf(c)) @@ c ELSE c
ContrastOK(xs) == Len(xs) >= 2 /\ xs[Len(xs)] = 2
\* SIZE regime of CP_PLSR: one shape with more than 50 000 features per sample (few samples, unstructured data)
BigShapes == {<<40, 40, 32>>}
NRegPairs == IF FullCross THEN NSamples \X Regs ELSE {<<6, 1>>, <<9, 10>>, <<12, 100>>}
PlsN(ny, nc) == IF FullCross THEN NSamples ELSE {<<6, 9, 12>>[((ny + nc) % 3) + 1]}
ValidReg(c) ==
    /\ c.model \in {"cp", "tucker"} /\ c.n \in NSamples \cup {1} /\ c.call = RegCallOf(c) /\ c.xs \in SampleShapes /\ c.reg \in Regs /\ c.k \in 1..Draws
    /\ c.opt \in RegOpts /\ <<c.ux, c.uy>> \in UnitPairs /\ c.ff \in FitForms
    /\ IF c.model = "cp" THEN c.ys \in TargetShapes /\ c.rank \in 1..3 /\ c.ranks = <<>>
       ELSE c.ys = <<>> /\ c.rank \in 1..3 /\ c.ranks = TuckerRanks(c.xs, c.rank)
WeightShape(c) == c.xs \o c.ys
ValidPls(c) == /\ c.n \in NSamples \cup {2} /\ c.call = PlsCallOf(c) /\ c.xs \in SampleShapes \cup BigShapes /\ c.ny \in 0..3 /\ c.nc \in 1..3 /\ c.k \in 1..PlsDraws
               /\ c.opt \in PlsOpts /\ <<c.ux, c.uy>> \in UnitPairs /\ c.lay \in PlsLayouts /\ c.dat \in PlsData
               /\ (c.dat = "contrast" => ContrastOK(c.xs)) /\ (c.dat = "selfy" => Len(c.xs) = 1 /\ c.ny = c.xs[1])
YCols(c) == IF c.ny = 0 THEN 1 ELSE c.ny      \* ny = 0: Y given as a vector

-----------------------------------------------------------------------------
(* Theorems about the specification, on small exact data (state kind "thm").                      *)
OneHot(F, n) == [shape |-> <<1>> \o F, data |-> [m \in 1..Size(F) |-> IF m = n THEN 1 ELSE 0]]
AddT(X, Y) == [shape |-> X.shape, data |-> [m \in 1..Len(X.data) |-> X.data[m] + Y.data[m]]]
PermRows(X, p) ==     \* sample i of the result is sample p[i] of X
    LET Fs == Size(FeatShape(X)) IN
    [shape |-> X.shape, data |-> [m \in 1..Len(X.data) |-> X.data[(p[((m - 1) \div Fs) + 1] - 1) * Fs + ((m - 1) % Fs) + 1]]]
ScaleT(T, a) == [shape |-> T.shape, data |-> [m \in 1..Len(T.data) |-> a * T.data[m]]]
PredictOK(X, X2, W, p) ==
    /\ Conformable(X, W)
    /\ Predict(X, W) = PredictMatmul(X, W)                                  \* index form = flattened matrix product
    /\ Predict(AddT(X, X2), W) = AddT(Predict(X, W), Predict(X2, W))         \* linear in the samples
    /\ Predict(PermRows(X, p), W) = PermRows(Predict(X, W), p)               \* equivariant under sample permutation
    /\ \A n \in 1..Size(FeatShape(X)) :                                      \* a one-hot sample reads out W[n, :]
          Predict(OneHot(FeatShape(X), n), W).data
            = [o \in 1..Size(OutDims(X, W)) |-> W.data[(n - 1) * Size(OutDims(X, W)) + o]]
    /\ \A i \in 1..X.shape[1] : PredTol(X, i) >= 2
\* on factors that are exact multiples of S the quantised contraction is the exact one of Factorized.tla
DenseOK(kind, in) ==
    LET qin == IF kind = "cp" THEN [fs |-> [k \in 1..Len(in.fs) |-> ScaleT(in.fs[k], S)], w |-> [r \in 1..Len(in.w) |-> S * in.w[r]]]
               ELSE [fs |-> [k \in 1..Len(in.fs) |-> ScaleT(in.fs[k], S)], core |-> ScaleT(in.core, S)] IN
    IF kind = "cp" THEN QCPDense(qin) = ScaleT(Fz!CPDense([hasw |-> TRUE, w |-> in.w, fs |-> in.fs]), S)
    ELSE QTuckerDense(qin) = ScaleT(Fz!TuckerDense(in), S) /\ Fz!TuckerDense(in) = Fz!TuckerSeq(in)

\* deterministic small integer data for the theorem states
Val(a, n) == ((a * n * n + 3 * n + a) % 5) - 2
Fill(shape, a) == [shape |-> shape, data |-> [n \in 1..Size(shape) |-> Val(a, n)]]
ThmOK(c) ==
    IF c.what = "predict"
    THEN PredictOK(Fill(<<3>> \o c.xs, c.a), Fill(<<3>> \o c.xs, c.a + 1), Fill(c.xs \o c.ys, c.a + 2), c.p)
    ELSE IF c.what = "cp"
    THEN DenseOK("cp", [fs |-> [k \in 1..Len(c.xs) |-> Fill(<<c.xs[k], c.r>>, c.a + k)], w |-> [r \in 1..c.r |-> Val(c.a, r + 7)]])
    ELSE DenseOK("tucker", [fs |-> [k \in 1..Len(c.xs) |-> Fill(<<c.xs[k], TuckerRanks(c.xs, c.r)[k]>>, c.a + k)],
                            core |-> Fill(TuckerRanks(c.xs, c.r), c.a + 5)])

-----------------------------------------------------------------------------
(* Design run: the domain enumerated as states.                                                   *)
NoCfg == [kind |-> "none"]
Seeds == {[kind |-> "seed", fam |-> f, xs |-> xs] : f \in {"cp", "tucker", "pls", "thm"}, xs \in SampleShapes}
         \cup {[kind |-> "seed", fam |-> "plsbig", xs |-> xs] : xs \in BigShapes}
CfgsOf(sd) ==
    CASE sd.fam = "cp" ->
            {[kind |-> "reg", model |-> "cp", n |-> nr[1], xs |-> sd.xs, ys |-> ys, rank |-> r, ranks |-> <<>>, reg |-> nr[2], opt |-> o,
              ux |-> u[1], uy |-> u[2], ff |-> "f64", k |-> k] :
                nr \in NRegPairs, ys \in TargetShapes, r \in 1..3, o \in RegOpts, k \in 1..Draws, u \in {<<0, 0>>}}
            \cup {[kind |-> "reg", model |-> "cp", n |-> 9, xs |-> sd.xs, ys |-> ys, rank |-> r, ranks |-> <<>>, reg |-> 10, opt |-> "tight",
                    ux |-> u[1], uy |-> u[2], ff |-> "f64", k |-> 1] : ys \in TargetShapes, r \in UnitRanks, u \in UnitPairs \ {<<0, 0>>}}
            \cup {[kind |-> "reg", model |-> "cp", n |-> 9, xs |-> sd.xs, ys |-> ys, rank |-> r, ranks |-> <<>>, reg |-> 10, opt |-> "tight",
                    ux |-> 0, uy |-> 0, ff |-> f, k |-> 1] : ys \in TargetShapes, r \in UnitRanks, f \in FitForms \ {"f64"}}
            \cup {[kind |-> "reg", model |-> "cp", n |-> 1, xs |-> sd.xs, ys |-> ys, rank |-> r, ranks |-> <<>>, reg |-> 10, opt |-> "tight",
                    ux |-> 0, uy |-> 0, ff |-> "f64", k |-> 1] : ys \in TargetShapes, r \in UnitRanks}          \* a single sample
      [] sd.fam = "tucker" ->
            {[kind |-> "reg", model |-> "tucker", n |-> nr[1], xs |-> sd.xs, ys |-> <<>>, rank |-> r, ranks |-> TuckerRanks(sd.xs, r), reg |-> nr[2], opt |-> o,
              ux |-> u[1], uy |-> u[2], ff |-> "f64", k |-> k] :
                nr \in NRegPairs, r \in 1..3, o \in RegOpts, k \in 1..Draws, u \in {<<0, 0>>}}
            \cup {[kind |-> "reg", model |-> "tucker", n |-> 9, xs |-> sd.xs, ys |-> <<>>, rank |-> r, ranks |-> TuckerRanks(sd.xs, r), reg |-> 10, opt |-> "tight",
                    ux |-> u[1], uy |-> u[2], ff |-> "f64", k |-> 1] : r \in UnitRanks, u \in UnitPairs \ {<<0, 0>>}}
            \cup {[kind |-> "reg", model |-> "tucker", n |-> 9, xs |-> sd.xs, ys |-> <<>>, rank |-> r, ranks |-> TuckerRanks(sd.xs, r), reg |-> 10, opt |-> "tight",
                    ux |-> 0, uy |-> 0, ff |-> f, k |-> 1] : r \in UnitRanks, f \in FitForms \ {"f64"}}
            \cup {[kind |-> "reg", model |-> "tucker", n |-> 1, xs |-> sd.xs, ys |-> <<>>, rank |-> r, ranks |-> TuckerRanks(sd.xs, r), reg |-> 10, opt |-> "tight",
                    ux |-> 0, uy |-> 0, ff |-> "f64", k |-> 1] : r \in UnitRanks}
      [] sd.fam = "plsbig" ->
            {[kind |-> "pls", n |-> 6, xs |-> sd.xs, ny |-> 2, nc |-> nc, opt |-> "default", ux |-> 0, uy |-> 0, lay |-> "C", dat |-> "generic", k |-> 1] : nc \in {1, 2}}
      [] sd.fam = "pls" ->
            UNION {{[kind |-> "pls", n |-> n, xs |-> sd.xs, ny |-> ny, nc |-> nc, opt |-> o, ux |-> 0, uy |-> 0, lay |-> "C", dat |-> "generic", k |-> k] :
                        n \in PlsN(ny, nc), o \in PlsOpts, k \in 1..PlsDraws} : ny \in 0..3, nc \in 1..3}
            \cup {[kind |-> "pls", n |-> 9, xs |-> sd.xs, ny |-> ny, nc |-> nc, opt |-> "default", ux |-> 0, uy |-> 0, lay |-> l, dat |-> "generic", k |-> 1] :
                        ny \in (IF FullCross THEN 0..3 ELSE {0, 2}), nc \in (IF FullCross THEN 2..3 ELSE {3}), l \in PlsLayouts \ {"C"}}
            \cup {[kind |-> "pls", n |-> 2, xs |-> sd.xs, ny |-> ny, nc |-> nc, opt |-> "default", ux |-> 0, uy |-> 0, lay |-> "C", dat |-> "generic", k |-> 1] :
                        ny \in {0, 2}, nc \in {1}}      \* two samples: the centred data have rank 1, one component is all there is
            \cup {[kind |-> "pls", n |-> 9, xs |-> sd.xs, ny |-> sd.xs[1], nc |-> nc, opt |-> "default", ux |-> 0, uy |-> 0, lay |-> "C", dat |-> "selfy", k |-> 1] :
                        nc \in (IF Len(sd.xs) = 1 /\ sd.xs[1] <= 3 THEN 1..3 ELSE {})}
            \cup {[kind |-> "pls", n |-> 9, xs |-> sd.xs, ny |-> ny, nc |-> nc, opt |-> "default", ux |-> 0, uy |-> 0, lay |-> "C", dat |-> d, k |-> 1] :
                        ny \in {0, 2}, nc \in 1..2, d \in {x \in {"contrast", "zerofeat"} : x = "contrast" => ContrastOK(sd.xs)}}
            \cup {[kind |-> "pls", n |-> 9, xs |-> sd.xs, ny |-> ny, nc |-> nc, opt |-> "default", ux |-> u[1], uy |-> u[2], lay |-> "C", dat |-> "generic", k |-> 1] :
                        ny \in (IF FullCross THEN 0..3 ELSE {0, 2}), nc \in UnitRanks, u \in UnitPairs \ {<<0, 0>>}}
      [] sd.fam = "thm" ->
            {[kind |-> "thm", what |-> "predict", xs |-> sd.xs, ys |-> ys, a |-> a, p |-> p] :
                ys \in TargetShapes, a \in 1..3, p \in Permutations(1..3)}
            \cup {[kind |-> "thm", what |-> w, xs |-> sd.xs, r |-> r, a |-> a] : w \in {"cp", "tucker"}, r \in 1..3, a \in 1..3}
Init == cfg \in Seeds
Next == cfg.kind = "seed" /\ cfg' \in {WithCall(c) : c \in CfgsOf(cfg)}
Spec == Init /\ [][Next]_cfg
SpecOK ==
    CASE cfg.kind = "reg" -> ValidReg(cfg)
      [] cfg.kind = "pls" -> ValidPls(cfg)
      [] cfg.kind = "thm" -> ThmOK(cfg)
      [] OTHER -> TRUE
=============================================================================
