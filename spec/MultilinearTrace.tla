-------------------------- MODULE MultilinearTrace --------------------------
(* C02 trace validation.  One event = one configuration of Multilinear's domain executed by the   *)
(* real tensorly.tenalg function under one tenalg backend ("core" / "einsum") on integer or       *)
(* Gaussian-integer operands drawn by the harness.  TLC recomputes the documented result from     *)
(* the logged operands with the index formulas of Multilinear.tla and accepts or rejects.         *)
(* The expected value does not depend on the backend, so acceptance of the events of both         *)
(* backends implies that the two backends agree.                                                  *)
EXTENDS Multilinear, Json, IOUtils

Events == ndJsonDeserialize(IOEnv.TRACE_FILE)

VARIABLE i

\* a logged tensor {shape, re, im} as a Gaussian-integer tensor
ToT(x) == [shape |-> x.shape, data |-> [n \in 1..Len(x.re) |-> <<x.re[n], x.im[n]>>]]
\* (every numeric field of an event is ALWAYS an integer and every tensor field ALWAYS a record
\* {shape, re, im} -- an absent operand is logged with shape <<0>> and no entries -- because TLC
\* cannot compare a number or a record with a string)
IsIntSeq(s, lo, hi) == DOMAIN s = 1..Len(s) /\ \A k \in 1..Len(s) : s[k] >= lo /\ s[k] <= hi
\* a logged operand: prescribed shape, one entry per position, values in the drawing range
OperandOK(x, shape) ==
    /\ x.shape = shape
    /\ Len(x.re) = Size(shape) /\ Len(x.im) = Size(shape)
    /\ IsIntSeq(x.re, -3, 3) /\ IsIntSeq(x.im, -3, 3)
InputsOK(c, in) ==
    LET sh == InShapes(c) IN
    /\ Len(in.ts) = Len(sh)
    /\ \A k \in 1..Len(sh) : OperandOK(in.ts[k], sh[k])
    /\ (HasW(c) => OperandOK(in.w, WShape(c)) /\ (c.op = "mttkrp" => \A k \in 1..Len(in.w.im) : in.w.im[k] = 0))
    /\ (HasMask(c) => OperandOK(in.mask, MaskShape(c)))
    /\ (c.op = "moment" => \A k \in 1..Len(in.ts[1].im) : in.ts[1].im[k] = 0)
    \* aliasing form: operands with the same key are one object, hence carry the same values
    /\ (c.alias => \A k \in 2..Len(sh) : \A j \in 1..(k - 1) : AliasKey(c, j) = AliasKey(c, k) => in.ts[k] = in.ts[j])

OutOK(o, shape) == /\ o.shape = shape
                   /\ Len(o.re) = Size(shape) /\ Len(o.im) = Size(shape)
                   /\ IsIntSeq(o.re, -2000000000, 2000000000) /\ IsIntSeq(o.im, -2000000000, 2000000000)

\* sampled_khatri_rao returns (rows of the product, the per-matrix indices, the row numbers)
IndicesOK(c, e, o) ==
    LET rows == SkipAt(c.rows, c.skip) IN
    /\ Len(o.idx) = Len(rows)
    /\ \A k \in 1..Len(rows) : Len(o.idx[k]) = c.ns /\ IsIntSeq(o.idx[k], 0, rows[k] - 1)
    /\ (c.given => o.idx = e.in.idx)

\* verdict on the result `o` of ONE call of event e (configuration and inputs already validated)
CallVerdict(e, o) ==
    LET c == e.cfg IN
    IF (o.kind = "raised") # Raises(c) THEN "Outcome"
    ELSE IF Raises(c) THEN "ok"
    ELSE IF ~o.exact THEN "Exact"
    ELSE LET ts   == [k \in 1..Len(e.in.ts) |-> ToT(e.in.ts[k])]
             w    == IF HasW(c) THEN ToT(e.in.w) ELSE Ones(<<IF "R" \in DOMAIN c THEN c.R ELSE 1>>)
             mask == IF HasMask(c) THEN ToT(e.in.mask) ELSE Ones(IF c.op = "khatri_rao" THEN MaskShape(c) ELSE <<>>)
         IN
         IF c.op = "sampled_kr" THEN
              IF ~IndicesOK(c, e, o) THEN "Indices"
              ELSE LET exp == SampledKR(ts, o.idx, c.skip, c.ns) IN
                   IF ~OutOK(o, exp.shape) THEN "Shape"
                   ELSE IF ~Same(ToT(o), exp) THEN "Value"
                   \* reported row number = row-major rank of the drawn indices in the full product
                   ELSE IF o.rows # (IF c.rsr THEN SampledRows(ts, o.idx, c.skip, c.ns) ELSE <<>>) THEN "Rows"
                   ELSE "ok"
         ELSE IF c.op = "tensordot" THEN
              \* output mode order: either documented reading (see Multilinear.Tensordot)
              LET expA == Expected(c, ts, w, mask)
                  t    == TD(c)
                  expB == Tensordot(ts[1], ts[2], t.m1, t.m2, t.b1, t.b2, TRUE) IN
              IF ~(OutOK(o, expA.shape) \/ OutOK(o, expB.shape)) THEN "Shape"
              ELSE IF ~(Same(ToT(o), expA) \/ Same(ToT(o), expB)) THEN "Value"
              ELSE "ok"
         ELSE LET exp == Expected(c, ts, w, mask) IN
              IF ~OutOK(o, exp.shape) THEN "Shape"
              ELSE IF Same(ToT(o), exp) THEN "ok"
              \* "If one matrix only is given, that matrix is directly returned" (khatri_rao docstring):
              \* for a ONE-element list both readings are accepted (see the report / DESIGN F-02a)
              ELSE IF c.op = "khatri_rao" /\ Len(c.rows) = 1 /\ Same(ToT(o), ts[1]) THEN "ok"
              ELSE "Value"

\* The operation is called cfg.rep times on the same argument objects; EVERY call must return the
\* documented value.  The first call is checked against the formula; a later call of a deterministic
\* operation is accepted iff it is identical to the first (hence satisfies the same clauses), and is
\* checked on its own otherwise (sampled_kr draws fresh indices on every call).
SameOut(a, b) == /\ a.kind = b.kind /\ a.exact = b.exact /\ a.shape = b.shape /\ a.re = b.re /\ a.im = b.im
Verdict(e) ==
    IF ~ValidCfg(e.cfg) THEN "InDomain"
    ELSE LET c == e.cfg IN
    IF ~InputsOK(c, e.in) THEN "Inputs"
    ELSE IF Len(e.outs) # c.rep THEN "Calls"
    ELSE LET v1 == CallVerdict(e, e.outs[1]) IN
         IF v1 # "ok" THEN v1
         ELSE LET later == {r \in 2..c.rep : IF c.op = "sampled_kr" THEN CallVerdict(e, e.outs[r]) # "ok"
                                                                     ELSE ~SameOut(e.outs[r], e.outs[1])} IN
              IF later = {} THEN "ok"
              ELSE IF c.op = "sampled_kr" THEN CallVerdict(e, e.outs[CHOOSE r \in later : \A q \in later : r <= q])
              ELSE "Repeat"

TraceInit == i = 1 /\ cfg = NoCfg
TraceNext == /\ i <= Len(Events)
             /\ i' = i + 1 /\ UNCHANGED cfg
             /\ LET v == Verdict(Events[i]) IN
                  IF v = "ok" THEN TRUE ELSE PrintT(<<"REJECT", Events[i].id, v>>)
TraceSpec == TraceInit /\ [][TraceNext]_<<i, cfg>>
TraceAccepted == TLCGet("stats").diameter - 1 = Len(Events)
=============================================================================
