----------------------------- MODULE RngStreams -----------------------------
(* Ownership of random streams by seeded library calls (property C16).                            *)
(*                                                                                              *)
(* A pseudo-random stream is identified by the seed it was created from and by what has been    *)
(* drawn from it since: [seed, pos] where pos is the sequence of consumers (symbolic -- how many *)
(* numbers a consumer draws is irrelevant, only WHO drew from WHICH stream in WHICH order).     *)
(* There is one process-wide stream (`global`, the numpy.random functions) and generator objects  *)
(* (np.random.RandomState instances owned by the caller).                                       *)
(*                                                                                              *)
(* A library entry point e is called with random_state =                                        *)
(*     None        -> it draws from the global stream                       CallNone(e)         *)
(*     an integer s-> it creates a FRESH stream (s, <<>>) and draws from it CallInt(e, s)       *)
(*     a generator -> it draws from that generator, advancing it            CallGen(e, g)       *)
(* and its result is a function of (e, how it was seeded, the stream it drew from) and of        *)
(* nothing else.  Entries without random choices (Random[e] = FALSE) return a constant and draw  *)
(* from nothing.  The environment interleaves arbitrary use of the global stream: Perturb        *)
(* (somebody draws from it), Reseed(s) (numpy.random.seed(s)).                                   *)
(*                                                                                              *)
(* Variant = "spec" is the documented behaviour.  The other variants are the two defect shapes   *)
(* found in tensorly and exist only to show that the properties below are not vacuous:           *)
(*   "ignore_seed": a seeded call draws from the global stream instead (F-16a)                   *)
(*   "leak"       : a seeded call draws from its own stream but one sub-step draws from the      *)
(*                  global stream (F-16b: seed not forwarded to randomized_svd)                  *)
EXTENDS Naturals, Sequences, FiniteSets, TLC

CONSTANTS Seeds,      \* set of positive integers usable as seeds
          Gens,       \* set of generator ids
          GenSeed,    \* [Gens -> Seeds] seed each generator was created with (equal seeds = twins)
          Entries,    \* set of entry-point classes
          Random,     \* [Entries -> BOOLEAN] does the entry make random choices
          Seedable,   \* subset of Entries: accepts a random_state
          MaxOps,     \* bound on the number of operations
          Variant     \* "spec" | "ignore_seed" | "leak"

VARIABLES S,      \* [global : stream, gens : [Gens -> stream]]
          calls,  \* history: set of records of every call made so far
          glog,   \* history: [Gens -> Seq([e, res])] what was called on each generator, in order
          nops    \* number of operations so far

vars == <<S, calls, glog, nops>>

----------------------------------------------------------------------------
(* State functions -- shared by the actions below and by RngStreamsTrace.                        *)

Fresh(s)     == [seed |-> s, pos |-> <<>>]
Adv(st, tag) == [seed |-> st.seed, pos |-> Append(st.pos, tag)]      \* tag = <<who, how>>
NoStream     == [seed |-> 0, pos |-> <<>>]        \* also the (unknown, OS-entropy) initial global stream
PTag         == <<"env", "perturb">>

InitS == [global |-> NoStream, gens |-> [g \in Gens |-> Fresh(GenSeed[g])]]

StepPerturb(s)    == [s EXCEPT !.global = Adv(@, PTag)]
StepReseed(s, sd) == [s EXCEPT !.global = Fresh(sd)]

\* how a call is seeded
ArgNone   == [k |-> "none", s |-> 0, g |-> "none"]
ArgInt(s) == [k |-> "int",  s |-> s, g |-> "none"]
ArgGen(g) == [k |-> "gen",  s |-> 0, g |-> g]

\* the stream the documentation says the call draws from
SpecSource(s, a) == CASE a.k = "none" -> s.global
                      [] a.k = "int"  -> Fresh(a.s)
                      [] a.k = "gen"  -> s.gens[a.g]
\* the stream it does draw from under the modelled variant
Source(s, a) == IF Variant = "ignore_seed" /\ a.k # "none" THEN s.global ELSE SpecSource(s, a)
Leaks(a)     == Variant = "leak" /\ a.k # "none"

\* the returned value: a function of the entry, of how it was seeded and of the stream(s) drawn from
Result(s, e, a) ==
    IF ~Random[e] THEN [e |-> e, k |-> "det", src |-> NoStream, extra |-> NoStream]
    ELSE [e |-> e, k |-> a.k, src |-> Source(s, a), extra |-> IF Leaks(a) THEN s.global ELSE NoStream]

\* the streams after the call
After(s, e, a) ==
    IF ~Random[e] THEN s
    ELSE LET s1 == IF a.k = "none" \/ Variant = "ignore_seed"
                     THEN [s EXCEPT !.global = Adv(@, <<e, a.k>>)]
                   ELSE IF a.k = "gen" THEN [s EXCEPT !.gens[a.g] = Adv(@, <<e, "gen">>)]
                   ELSE s                          \* integer seed: the fresh stream is dropped
         IN IF Leaks(a) THEN [s1 EXCEPT !.global = Adv(@, <<e, "leak">>)] ELSE s1

\* what identifies "the same seeding" of two calls
Key(s, a) == SpecSource(s, a)

CallRec(s, e, a) == [e |-> e, k |-> a.k, key |-> Key(s, a), res |-> Result(s, e, a),
                     gpre |-> s.global, gpost |-> After(s, e, a).global]
NextGlog(gl, s, e, a) == IF a.k = "gen" THEN [gl EXCEPT ![a.g] = Append(@, [e |-> e, res |-> Result(s, e, a)])] ELSE gl

----------------------------------------------------------------------------
Init == /\ S = InitS
        /\ calls = {}
        /\ glog = [g \in Gens |-> <<>>]
        /\ nops = 0

Perturb   == /\ nops < MaxOps /\ S' = StepPerturb(S)   /\ nops' = nops + 1 /\ UNCHANGED <<calls, glog>>
Reseed(s) == /\ nops < MaxOps /\ S' = StepReseed(S, s) /\ nops' = nops + 1 /\ UNCHANGED <<calls, glog>>

Call(e, a) == /\ nops < MaxOps
              /\ S' = After(S, e, a)
              /\ calls' = calls \cup {CallRec(S, e, a)}
              /\ glog' = NextGlog(glog, S, e, a)
              /\ nops' = nops + 1

CallNone(e)   == e \in Entries /\ Call(e, ArgNone)
CallInt(e, s) == e \in Seedable /\ Call(e, ArgInt(s))
CallGen(e, g) == e \in Seedable /\ Call(e, ArgGen(g))

Next == \/ Perturb
        \/ \E s \in Seeds : Reseed(s)
        \/ \E e \in Entries : CallNone(e)
        \/ \E e \in Seedable, s \in Seeds : CallInt(e, s)
        \/ \E e \in Seedable, g \in Gens : CallGen(e, g)

Spec == Init /\ [][Next]_vars

----------------------------------------------------------------------------
(* Properties: the clauses of C16.                                                               *)

TypeOK == /\ S.global.seed \in Seeds \cup {0}
          /\ \A g \in Gens : S.gens[g].seed = GenSeed[g]
          /\ nops \in 0..MaxOps
          /\ Cardinality(calls) <= nops

\* the same entry called twice with the same integer seed returns the same result, whatever the
\* global stream was or did in between (gpre of the two calls is unconstrained)
SameSeedSameResult ==
    \A c1, c2 \in calls :
        (c1.k = "int" /\ c2.k = "int" /\ c1.e = c2.e /\ c1.key = c2.key) => c1.res = c2.res

\* a call given an integer seed leaves the global stream untouched
IntSeedLeavesGlobal ==
    [][(\E e \in Seedable, s \in Seeds : CallInt(e, s)) => S'.global = S.global]_vars

\* ... and every generator
IntSeedLeavesGenerators ==
    [][(\E e \in Seedable, s \in Seeds : CallInt(e, s)) => S'.gens = S.gens]_vars

\* generators created from the same seed and used for the same sequence of calls return the same
\* sequence of results, and end in identical states -- whatever happened to the global stream
SameCalls(g, h, n) == \A j \in 1..n : glog[g][j].e = glog[h][j].e
TwinGeneratorsAgree ==
    \A g, h \in Gens :
        GenSeed[g] = GenSeed[h] =>
            /\ \A n \in 0..Len(glog[g]) :
                   (n <= Len(glog[h]) /\ SameCalls(g, h, n)) => \A j \in 1..n : glog[g][j].res = glog[h][j].res
            /\ (Len(glog[g]) = Len(glog[h]) /\ SameCalls(g, h, Len(glog[g]))) => S.gens[g] = S.gens[h]

\* a generator-seeded call draws from that generator only
GenCallOwnStreamOnly ==
    [][\A g \in Gens : (\E e \in Seedable : CallGen(e, g)) =>
           /\ S'.global = S.global
           /\ \A h \in Gens \ {g} : S'.gens[h] = S.gens[h]]_vars

\* entries without random choices return identical results on repeated calls
DeterministicNoSeed ==
    \A c1, c2 \in calls : (~Random[c1.e] /\ c1.e = c2.e) => c1.res = c2.res

\* (model sanity) an unseeded call is a function of the global stream: re-seeding the global stream
\* and repeating the same consumption reproduces result and end state
ReseedReproducible ==
    \A c1, c2 \in calls :
        (c1.k = "none" /\ c2.k = "none" /\ c1.e = c2.e /\ c1.key = c2.key) => (c1.res = c2.res /\ c1.gpost = c2.gpost)

\* witnesses (used negated in RngStreamsMC_witness.cfg: TLC must find them, so the implications above
\* are exercised with a true antecedent)
WitnessIntTwiceAcrossGlobal ==
    \E c1, c2 \in calls : c1.k = "int" /\ c2.k = "int" /\ c1.e = c2.e /\ c1.key = c2.key /\ c1.gpre # c2.gpre /\ Random[c1.e]
WitnessTwinsUsed ==
    \E g, h \in Gens : g # h /\ GenSeed[g] = GenSeed[h] /\ Len(glog[g]) >= 2 /\ Len(glog[g]) = Len(glog[h]) /\ SameCalls(g, h, Len(glog[g]))
NoWitnessInt   == ~WitnessIntTwiceAcrossGlobal
NoWitnessTwins == ~WitnessTwinsUsed
=============================================================================
