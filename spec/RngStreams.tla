----------------------------- MODULE RngStreams -----------------------------
(* Ownership of random streams by seeded library calls (property C16).                            *)
(*                                                                                              *)
(* A pseudo-random stream is identified by the seed it was created from and by what has been    *)
(* drawn from it since: [seed, pos] where pos is the sequence of consumers (symbolic -- how many *)
(* numbers a consumer draws is irrelevant, only WHO drew from WHICH stream in WHICH order).     *)
(* There is one process-wide stream (`global`, the numpy.random functions) and generator objects  *)
(* (np.random.RandomState instances owned by the caller).                                       *)
(*                                                                                              *)
(* A library entry point e is called with random_state =                                        *)
(*     None        -> it draws from the global stream                       CallNone(e)         *)
(*     an integer s-> it creates a FRESH stream (s, <<>>) and draws from it CallInt(e, s)       *)
(*     a generator -> it draws from that generator, advancing it            CallGen(e, g)       *)
(* and its result is a function of (e, how it was seeded, the stream it drew from) and of        *)
(* nothing else.  Entries without random choices (Random[e] = FALSE) return a constant and draw  *)
(* from nothing.  The environment interleaves arbitrary use of the global stream: Perturb        *)
(* (somebody draws from it), Reseed(s) (numpy.random.seed(s)).                                   *)
(*                                                                                              *)
(* Variant = "spec" is the documented behaviour.  The other variants are the two defect shapes   *)
(* found in tensorly and exist only to show that the properties below are not vacuous:           *)
(*   "ignore_seed": a seeded call draws from the global stream instead (F-16a)                   *)
(*   "leak"       : a seeded call draws from its own stream but one sub-step draws from the      *)
(*                  global stream (F-16b: seed not forwarded to randomized_svd)                  *)
(*                                                                                              *)
(* Configuration surviving between calls.  Which tensor-algebra implementation is selected       *)
(* (tensorly.tenalg: "core" | "einsum") is process state like the random streams.  A result is    *)
(* a function of the entry, of how it was seeded, of the stream drawn from AND of the selected    *)
(* implementation (the two implementations may round differently, so equality ACROSS them is not  *)
(* demanded); SwitchBackend(b) changes the selection and nothing else.  Hence: a call repeated    *)
(* after the selection was switched away and back must return what it returned before -- for      *)
(* seeded calls and for the routines without random choices (tensor algebra itself) alike.        *)
(*                                                                                              *)
(* Refinement "object holding a seed".  Estimator objects (regressors, decomposition classes)    *)
(* take random_state in their constructor and are then used for several fits.  The documented    *)
(* meaning of an INTEGER random_state is a value, not a stream: every fit of the object -- and   *)
(* of a clone built from its get_params() -- is CallInt(e, ObjSeed[o]) again: a fresh stream per *)
(* fit, hence the same result every time (FitObj, CloneFit).  S.objs[o] is the stream the object *)
(* WOULD hold if it materialised its seed into a generator at construction; under "spec" it is   *)
(* never consulted.  Variant "obj_holds_stream" is that defect shape (seeded change C16-r2-2):   *)
(* fits draw from, and advance, the object's stream; a clone shares it.                          *)
EXTENDS Naturals, Sequences, FiniteSets, TLC

CONSTANTS Seeds,      \* set of positive integers usable as seeds
          Gens,       \* set of generator ids
          GenSeed,    \* [Gens -> Seeds] seed each generator was created with (equal seeds = twins)
          Entries,    \* set of entry-point classes
          Random,     \* [Entries -> BOOLEAN] does the entry make random choices
          Seedable,   \* subset of Entries: accepts a random_state
          Backends,   \* set of selectable tensor-algebra implementations
          InitBackend,\* the one selected at the start
          Objs,       \* set of estimator objects, each constructed with an INTEGER random_state
          ObjSeed,    \* [Objs -> Seeds] that integer
          ObjEntries, \* subset of Seedable: entry points that are classes (construct once, fit many times)
          MaxOps,     \* bound on the number of operations
          Variant     \* "spec" | "ignore_seed" | "leak" | "obj_holds_stream"

VARIABLES S,      \* [global : stream, gens : [Gens -> stream], objs : [Objs -> stream], tenalg : Backends]
          calls,  \* history: set of records of every call made so far
          glog,   \* history: [Gens -> Seq([e, res])] what was called on each generator, in order
          nops    \* number of operations so far

vars == <<S, calls, glog, nops>>

----------------------------------------------------------------------------
(* State functions -- shared by the actions below and by RngStreamsTrace.                        *)

Fresh(s)     == [seed |-> s, pos |-> <<>>]
Adv(st, tag) == [seed |-> st.seed, pos |-> Append(st.pos, tag)]      \* tag = <<who, how>>
NoStream     == [seed |-> 0, pos |-> <<>>]        \* also the (unknown, OS-entropy) initial global stream
PTag         == <<"env", "perturb">>

InitS == [global |-> NoStream, gens |-> [g \in Gens |-> Fresh(GenSeed[g])],
          objs |-> [o \in Objs |-> Fresh(ObjSeed[o])], tenalg |-> InitBackend]

StepPerturb(s)    == [s EXCEPT !.global = Adv(@, PTag)]
StepReseed(s, sd) == [s EXCEPT !.global = Fresh(sd)]
StepSwitch(s, b)  == [s EXCEPT !.tenalg = b]

\* how a call is seeded
ArgNone   == [k |-> "none", s |-> 0, g |-> "none", o |-> "none"]
ArgInt(s) == [k |-> "int",  s |-> s, g |-> "none", o |-> "none"]
ArgGen(g) == [k |-> "gen",  s |-> 0, g |-> g,      o |-> "none"]
ArgObj(o) == [k |-> "int",  s |-> ObjSeed[o], g |-> "none", o |-> o]   \* a fit of object o IS a call with its integer seed

\* the stream the documentation says the call draws from
SpecSource(s, a) == CASE a.k = "none" -> s.global
                      [] a.k = "int"  -> Fresh(a.s)
                      [] a.k = "gen"  -> s.gens[a.g]
\* the stream it does draw from under the modelled variant
ObjStream(a) == Variant = "obj_holds_stream" /\ a.o # "none"
Source(s, a) == IF Variant = "ignore_seed" /\ a.k # "none" THEN s.global
                ELSE IF ObjStream(a) THEN s.objs[a.o]
                ELSE SpecSource(s, a)
Leaks(a)     == Variant = "leak" /\ a.k # "none"

\* the returned value: a function of the entry, of how it was seeded and of the stream(s) drawn from
Result(s, e, a) ==
    IF ~Random[e] THEN [e |-> e, k |-> "det", src |-> NoStream, extra |-> NoStream, cfg |-> s.tenalg]
    ELSE [e |-> e, k |-> a.k, src |-> Source(s, a), extra |-> IF Leaks(a) THEN s.global ELSE NoStream, cfg |-> s.tenalg]

\* the streams after the call
After(s, e, a) ==
    IF ~Random[e] THEN s
    ELSE LET s1 == IF a.k = "none" \/ Variant = "ignore_seed"
                     THEN [s EXCEPT !.global = Adv(@, <<e, a.k>>)]
                   ELSE IF a.k = "gen" THEN [s EXCEPT !.gens[a.g] = Adv(@, <<e, "gen">>)]
                   ELSE IF ObjStream(a) THEN [s EXCEPT !.objs[a.o] = Adv(@, <<e, "obj">>)]
                   ELSE s                          \* integer seed: the fresh stream is dropped
         IN IF Leaks(a) THEN [s1 EXCEPT !.global = Adv(@, <<e, "leak">>)] ELSE s1

\* what identifies "the same seeding" of two calls
Key(s, a) == SpecSource(s, a)

CallRec(s, e, a) == [e |-> e, k |-> a.k, o |-> a.o, cfg |-> s.tenalg, key |-> Key(s, a), res |-> Result(s, e, a),
                     gpre |-> s.global, gpost |-> After(s, e, a).global]
NextGlog(gl, s, e, a) == IF a.k = "gen" THEN [gl EXCEPT ![a.g] = Append(@, [e |-> e, res |-> Result(s, e, a)])] ELSE gl

----------------------------------------------------------------------------
Init == /\ S = InitS
        /\ calls = {}
        /\ glog = [g \in Gens |-> <<>>]
        /\ nops = 0

Perturb   == /\ nops < MaxOps /\ S' = StepPerturb(S)   /\ nops' = nops + 1 /\ UNCHANGED <<calls, glog>>
Reseed(s) == /\ nops < MaxOps /\ S' = StepReseed(S, s) /\ nops' = nops + 1 /\ UNCHANGED <<calls, glog>>
SwitchBackend(b) == /\ nops < MaxOps /\ b # S.tenalg /\ S' = StepSwitch(S, b) /\ nops' = nops + 1 /\ UNCHANGED <<calls, glog>>

Call(e, a) == /\ nops < MaxOps
              /\ S' = After(S, e, a)
              /\ calls' = calls \cup {CallRec(S, e, a)}
              /\ glog' = NextGlog(glog, S, e, a)
              /\ nops' = nops + 1

CallNone(e)   == e \in Entries /\ Call(e, ArgNone)
CallInt(e, s) == e \in Seedable /\ Call(e, ArgInt(s))
CallGen(e, g) == e \in Seedable /\ Call(e, ArgGen(g))
FitObj(e, o)   == e \in ObjEntries /\ Call(e, ArgObj(o))      \* fit the SAME object again
CloneFit(e, o) == e \in ObjEntries /\ o \in Objs /\ Call(e, ArgObj(o))   \* fit type(o)(**o.get_params())

Next == \/ Perturb
        \/ \E s \in Seeds : Reseed(s)
        \/ \E b \in Backends : SwitchBackend(b)
        \/ \E e \in Entries : CallNone(e)
        \/ \E e \in Seedable, s \in Seeds : CallInt(e, s)
        \/ \E e \in Seedable, g \in Gens : CallGen(e, g)
        \/ \E e \in ObjEntries, o \in Objs : FitObj(e, o) \/ CloneFit(e, o)

Spec == Init /\ [][Next]_vars

----------------------------------------------------------------------------
(* Properties: the clauses of C16.                                                               *)

TypeOK == /\ S.global.seed \in Seeds \cup {0}
          /\ \A g \in Gens : S.gens[g].seed = GenSeed[g]
          /\ nops \in 0..MaxOps
          /\ S.tenalg \in Backends
          /\ Cardinality(calls) <= nops

\* the same entry called twice with the same integer seed returns the same result, whatever the
\* global stream was or did in between (gpre of the two calls is unconstrained)
SameSeedSameResult ==
    \A c1, c2 \in calls :
        (c1.k = "int" /\ c2.k = "int" /\ c1.e = c2.e /\ c1.key = c2.key /\ c1.cfg = c2.cfg) => c1.res = c2.res

\* a call given an integer seed leaves the global stream untouched
IntSeedLeavesGlobal ==
    [][(\E e \in Seedable, s \in Seeds : CallInt(e, s)) => S'.global = S.global]_vars

\* the same for a fit of an object constructed with an integer seed, or of its clone
ObjSeedLeavesGlobal ==
    [][(\E e \in ObjEntries, o \in Objs : FitObj(e, o) \/ CloneFit(e, o)) => (S'.global = S.global /\ S'.gens = S.gens)]_vars

\* under the specified semantics an object holds its integer seed, never a consumed stream
ObjectHoldsSeed == \A o \in Objs : S.objs[o] = Fresh(ObjSeed[o])

\* ... and every generator
IntSeedLeavesGenerators ==
    [][(\E e \in Seedable, s \in Seeds : CallInt(e, s)) => S'.gens = S.gens]_vars

\* generators created from the same seed and used for the same sequence of calls return the same
\* sequence of results, and end in identical states -- whatever happened to the global stream
SameCalls(g, h, n) == \A j \in 1..n : glog[g][j].e = glog[h][j].e
TwinGeneratorsAgree ==
    \A g, h \in Gens :
        GenSeed[g] = GenSeed[h] =>
            /\ \A n \in 0..Len(glog[g]) :
                   (n <= Len(glog[h]) /\ SameCalls(g, h, n)) =>
                       \A j \in 1..n : glog[g][j].res.cfg = glog[h][j].res.cfg => glog[g][j].res = glog[h][j].res
            /\ (Len(glog[g]) = Len(glog[h]) /\ SameCalls(g, h, Len(glog[g]))) => S.gens[g] = S.gens[h]

\* a generator-seeded call draws from that generator only
GenCallOwnStreamOnly ==
    [][\A g \in Gens : (\E e \in Seedable : CallGen(e, g)) =>
           /\ S'.global = S.global
           /\ \A h \in Gens \ {g} : S'.gens[h] = S.gens[h]]_vars

\* entries without random choices return identical results on repeated calls
DeterministicNoSeed ==
    \A c1, c2 \in calls : (~Random[c1.e] /\ c1.e = c2.e /\ c1.cfg = c2.cfg) => c1.res = c2.res

\* (model sanity) an unseeded call is a function of the global stream: re-seeding the global stream
\* and repeating the same consumption reproduces result and end state
ReseedReproducible ==
    \A c1, c2 \in calls :
        (c1.k = "none" /\ c2.k = "none" /\ c1.e = c2.e /\ c1.key = c2.key /\ c1.cfg = c2.cfg) => (c1.res = c2.res /\ c1.gpost = c2.gpost)

\* switching the tensor-algebra implementation touches no stream
SwitchLeavesStreams ==
    [][(\E b \in Backends : SwitchBackend(b)) => (S'.global = S.global /\ S'.gens = S.gens /\ S'.objs = S.objs)]_vars

\* witness: a routine without random choices called under one implementation, then after switching away AND BACK
WitnessSwitchedAndBack ==
    \E c1, c2 \in calls : ~Random[c1.e] /\ c1.e = c2.e /\ c1.cfg # c2.cfg /\ S.tenalg = c1.cfg /\ nops >= 4
NoWitnessSwitch == ~WitnessSwitchedAndBack

\* witnesses (used negated in RngStreamsMC_witness.cfg: TLC must find them, so the implications above
\* are exercised with a true antecedent)
WitnessIntTwiceAcrossGlobal ==
    \E c1, c2 \in calls : c1.k = "int" /\ c2.k = "int" /\ c1.e = c2.e /\ c1.key = c2.key /\ c1.gpre # c2.gpre /\ Random[c1.e]
                        /\ c1.o = "none" /\ c2.o = "none"
WitnessTwinsUsed ==
    \E g, h \in Gens : g # h /\ GenSeed[g] = GenSeed[h] /\ Len(glog[g]) >= 2 /\ Len(glog[g]) = Len(glog[h]) /\ SameCalls(g, h, Len(glog[g]))
WitnessObjRefit ==     \* the same object fitted at two different global states, and an ordinary call with the same seed
    \E c1, c2, c3 \in calls : /\ c1.o # "none" /\ c2.o = c1.o /\ c1.e = c2.e /\ c1.gpre # c2.gpre
                              /\ c3.o = "none" /\ c3.k = "int" /\ c3.e = c1.e /\ c3.key = c1.key
NoWitnessObj   == ~WitnessObjRefit
NoWitnessInt   == ~WitnessIntTwiceAcrossGlobal
NoWitnessTwins == ~WitnessTwinsUsed
=============================================================================
