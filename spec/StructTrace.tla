----------------------------- MODULE StructTrace -----------------------------
(* C08, SVD-based decompositions and rank validators: the returned factor shapes must match the      *)
(* input's mode sizes and the requested (validated) ranks, with the boundary conditions of the        *)
(* format; all TT-SVD cores but the last are left-orthogonal.                                         *)
EXTENDS Struct, Json, IOUtils

Events == ndJsonDeserialize(IOEnv.TRACE_FILE)
VARIABLE i

OrthTol == 100            \* 1e-6 on max|U^T U - I| (quantised 1e8)
IsFin(v) == -2000000000 <= v /\ v <= 2000000000
SeqToSet(q) == {q[j] : j \in 1..Len(q)}

BadTTBoundary(e) == e.kind = "list" /\ (e.req[1] # 1 \/ e.req[Len(e.req)] # 1)
BadTRBoundary(e) == e.kind = "list" /\ e.req[1] # e.req[Len(e.req)]
BadLength(e) == e.kind = "list" /\ Len(e.req) # Len(e.shape) + 1

VTT(e) ==
    IF BadLength(e) \/ BadTTBoundary(e) THEN (IF e.out = "raised" THEN "ok" ELSE "InvalidRankNotRejected")
    ELSE IF e.out # "ok" THEN "ValidRequestRaised"
    ELSE IF ~ChainOK(e.shape, e.fshapes) THEN "ChainRanksOrModeSizes"
    ELSE IF ~TTBoundaryOK(e.fshapes) THEN "BoundaryRankNotOne"
    ELSE IF e.ranks # RanksOf(e.fshapes) THEN "ReportedRankMismatch"
    ELSE IF e.kind \in {"int", "list"} /\ e.ranks # TTSVDRanks(e.shape, TTReq(e.kind, e.req, Len(e.shape)))
         THEN "RanksNotRequestedClipped"
    ELSE IF \E k \in 1..(Len(e.orth) - 1) : ~(IsFin(e.orth[k]) /\ e.orth[k] <= OrthTol) THEN "CoreNotLeftOrthogonal"
    ELSE "ok"

TRReq(e) == IF e.kind = "int" THEN [k \in 1..(Len(e.shape) + 1) |-> e.req[1]] ELSE e.req
VTR(e) ==
    IF BadLength(e) \/ BadTRBoundary(e) THEN (IF e.out = "raised" THEN "ok" ELSE "InvalidRankNotRejected")
    ELSE IF ~TRFeasible(e.shape, e.mode, TRReq(e)) THEN (IF e.out = "raised" THEN "ok" ELSE "InfeasibleFirstCoreNotRejected")
    ELSE IF e.out # "ok" THEN "ValidRequestRaised"
    ELSE IF ~ChainOK(e.shape, e.fshapes) THEN "ChainRanksOrModeSizes"
    ELSE IF ~TRBoundaryOK(e.fshapes) THEN "RingNotClosed"
    ELSE IF e.ranks # RanksOf(e.fshapes) THEN "ReportedRankMismatch"
    ELSE IF e.ranks # TRSVDRanks(e.shape, e.mode, TRReq(e)) THEN "RanksNotRequestedClipped"
    ELSE "ok"

\* partial Tucker over the modes e.modes (0-based, any order): one factor per listed mode, in that order; rank None keeps the
\* size of THOSE modes; the core has the tensor's shape with the listed modes replaced by the factor ranks
VPTucker(e) ==
    LET K == Len(e.modes)
        Rq(j) == IF e.kind = "none" THEN e.shape[e.modes[j] + 1] ELSE IF e.kind = "int" THEN e.req[1] ELSE e.req[j]
        Pos(m) == CHOOSE j \in 1..K : e.modes[j] = m - 1 IN
    IF e.out # "ok" THEN "ValidRequestRaised"
    ELSE IF ~(/\ Len(e.fshapes) = K
              /\ \A j \in 1..K : Len(e.fshapes[j]) = 2 /\ e.fshapes[j][1] = e.shape[e.modes[j] + 1] /\ e.fshapes[j][2] >= 1) THEN "FactorShapes"
    ELSE IF \E j \in 1..K : ~(MinI(Rq(j), e.shape[e.modes[j] + 1]) <= e.fshapes[j][2] /\ e.fshapes[j][2] <= Rq(j)) THEN "RanksNotRequested"
    ELSE IF e.core_shape # [m \in 1..Len(e.shape) |-> IF (m - 1) \in SeqToSet(e.modes) THEN e.fshapes[Pos(m)][2] ELSE e.shape[m]] THEN "CoreShape"
    ELSE IF ~(IsFin(e.orth[1]) /\ e.orth[1] <= OrthTol) THEN "TuckerFactorsNotOrthonormal"
    ELSE "ok"

VTucker(e) ==
    IF e.out # "ok" THEN "ValidRequestRaised"
    ELSE IF ~(/\ Len(e.fshapes) = Len(e.shape)
              /\ \A m \in 1..Len(e.shape) : Len(e.fshapes[m]) = 2 /\ e.fshapes[m][1] = e.shape[m] /\ e.fshapes[m][2] >= 1
              /\ e.core_shape = [m \in 1..Len(e.shape) |-> e.fshapes[m][2]]) THEN "FactorShapes"
    ELSE IF e.kind \in {"int", "list", "none"} /\
            \E m \in 1..Len(e.shape) :
                LET rq == IF e.kind = "none" THEN e.shape[m] ELSE IF e.kind = "int" THEN e.req[1] ELSE e.req[m] IN
                ~(MinI(rq, e.shape[m]) <= e.fshapes[m][2] /\ e.fshapes[m][2] <= rq) THEN "RanksNotRequested"
    ELSE IF ~(IsFin(e.orth[1]) /\ e.orth[1] <= OrthTol) THEN "TuckerFactorsNotOrthonormal"
    ELSE "ok"

\* validators called directly: boundary conditions, positivity, length
VValidate(e) ==
    IF e.out # "ok" THEN "ValidRequestRaised"
    ELSE IF e.fam = "validate_tt" /\ ~(Len(e.ranks) = Len(e.shape) + 1 /\ e.ranks[1] = 1 /\ e.ranks[Len(e.ranks)] = 1) THEN "BoundaryRankNotOne"
    ELSE IF e.fam = "validate_tr" /\ ~(Len(e.ranks) = Len(e.shape) + 1 /\ e.ranks[1] = e.ranks[Len(e.ranks)]) THEN "RingNotClosed"
    ELSE IF e.fam = "validate_tucker" /\ Len(e.ranks) # Len(e.shape) THEN "RankLength"
    ELSE IF e.fam = "validate_cp" /\ Len(e.ranks) # 1 THEN "RankLength"
    \* (a validator may round a fractional request down to 0 -- validate_cp_rank / validate_tr_rank with
    \*  rounding='floor' do; the property does not speak about that, so it is not a clause)
    ELSE IF e.kind = "int" /\ e.fam \in {"validate_tt", "validate_tr"} /\
            \E k \in 2..(Len(e.ranks) - 1) : e.ranks[k] # e.req[1] THEN "IntRequestNotHonoured"
    ELSE IF e.kind = "list" /\ e.ranks # e.req THEN "ListRequestNotHonoured"
    ELSE IF e.kind = "same" /\ e.fam = "validate_tt" /\ e.n_param_dev > e.n_param_slack THEN "ParameterCountFarFromTarget"
    ELSE "ok"

Verdict(e) ==
    IF ~(Len(e.shape) \in 2..5 /\ \A k \in 1..Len(e.shape) : e.shape[k] \in 1..8) THEN "InDomain"
    ELSE CASE e.fam = "tt" -> VTT(e)
           [] e.fam = "tr" -> VTR(e)
           [] e.fam = "ptucker" -> VPTucker(e)
           [] e.fam = "tucker" -> VTucker(e)
           [] e.fam \in {"validate_tt", "validate_tr", "validate_tucker", "validate_cp"} -> VValidate(e)
           [] OTHER -> "Malformed"

TraceInit == i = 1 /\ cfg = NoCfg
TraceNext == /\ i <= Len(Events)
             /\ i' = i + 1 /\ UNCHANGED cfg
             /\ LET v == Verdict(Events[i]) IN
                  IF v = "ok" THEN TRUE ELSE PrintT(<<"REJECT", Events[i].id, v>>)
TraceSpec == TraceInit /\ [][TraceNext]_<<i, cfg>>
TraceAccepted == TLCGet("stats").diameter - 1 = Len(Events)
=============================================================================
