SPECIFICATION Spec
CONSTANTS
  Threads = {"t0", "t1"}
  Main = "t0"
  Mgrs <- MCMgrs
  Names <- MCNames2
  Default <- MCDefault
  BadNames <- MCBad1
  MaxDepth = 2
  MaxOps = 4
  WithModes = FALSE
  Atomic = TRUE
  ExitFlavour = "entered"
CONSTRAINT Bounded
INVARIANT TypeOK
VIEW GraphView
