SPECIFICATION Spec
INVARIANT SpecOK
