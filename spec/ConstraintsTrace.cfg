SPECIFICATION TraceSpec
CONSTANTS
  Orders = {3, 4}
  WideOrders = {3, 4}
  SecondKeyOrders = "ends"
  SoftOrders = {3, 4}
POSTCONDITION TraceAccepted
CHECK_DEADLOCK FALSE
