SPECIFICATION TraceSpec
CONSTANTS
  Orders = {3, 4}
  SoftOrders = {3, 4}
POSTCONDITION TraceAccepted
CHECK_DEADLOCK FALSE
