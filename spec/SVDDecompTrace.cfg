SPECIFICATION TraceSpec
CONSTANTS
  ShapeSet = {}
  MaxTTRank = 5
  MaxTRRank = 3
POSTCONDITION TraceAccepted
CHECK_DEADLOCK FALSE
