------------------------------- MODULE Dtype -------------------------------
(* C18 -- results stay in the numeric context (dtype) of the input.                               *)
(*                                                                                                *)
(* 1. NumPy's promotion order restricted to {bool, int, float32, float64, complex64, complex128}  *)
(*    ("int" = the default 64-bit integer), given twice and independently: as the covering        *)
(*    relation of the partial order (Join = least upper bound) and as the promotion table          *)
(*    transcribed from the NumPy documentation.  TLC checks that the two agree and that Join is a  *)
(*    semilattice operation (idempotent, commutative, associative, monotone).                      *)
(* 2. The obligation on every *array* reachable from a return value: its dtype is the dtype of     *)
(*    the data it was computed from, with the documented exceptions in ObligationTable.            *)
(* 3. A failing slot is named by the leak class read off the lattice                               *)
(*    (out = Join(in, float64) => "WidenedToDouble": an allocation without the input's context).   *)
EXTENDS Naturals, Sequences, FiniteSets, TLC

Types == {"bool", "int", "float32", "float64", "complex64", "complex128"}
FloatTypes == {"float32", "float64", "complex64", "complex128"}      \* admissible input contexts

\* ---- (a) the order: a covers b's ... pairs <<lower, upper>> of the Hasse diagram
Covers == { <<"bool", "int">>, <<"bool", "float32">>, <<"int", "float64">>, <<"float32", "float64">>,
            <<"float32", "complex64">>, <<"float64", "complex128">>, <<"complex64", "complex128">> }

RECURSIVE Up(_, _)
\* everything reachable upwards from the set S in at most n cover steps
Up(S, n) == IF n = 0 THEN S ELSE Up(S \cup {c[2] : c \in {d \in Covers : d[1] \in S}}, n - 1)
Above(a) == Up({a}, Cardinality(Types))
Leq(a, b) == b \in Above(a)

UpperBounds(a, b) == Above(a) \cap Above(b)
Join(a, b) == CHOOSE u \in UpperBounds(a, b) : \A v \in UpperBounds(a, b) : Leq(u, v)

\* ---- (b) numpy.promote_types on the six types, row by row from the documentation
PromoteTable ==
    [a \in Types |-> [b \in Types |->
        CASE a = b -> a
          [] a = "bool" -> b
          [] b = "bool" -> a
          [] {a, b} = {"int", "float32"} -> "float64"        \* int64 does not fit float32's mantissa
          [] {a, b} = {"int", "float64"} -> "float64"
          [] {a, b} = {"int", "complex64"} -> "complex128"
          [] {a, b} = {"int", "complex128"} -> "complex128"
          [] {a, b} = {"float32", "float64"} -> "float64"
          [] {a, b} = {"float32", "complex64"} -> "complex64"
          [] {a, b} = {"float32", "complex128"} -> "complex128"
          [] {a, b} = {"float64", "complex64"} -> "complex128"
          [] {a, b} = {"float64", "complex128"} -> "complex128"
          [] {a, b} = {"complex64", "complex128"} -> "complex128"]]

IsComplex(t) == t \in {"complex64", "complex128"}
RealOf(t) == CASE t = "complex64" -> "float32" [] t = "complex128" -> "float64" [] OTHER -> t

\* ---- theorems about the lattice (checked in every state of the design run, see LatticeOK)
LatticeOK(a, b, c) ==
    /\ UpperBounds(a, b) # {}
    /\ \E u \in UpperBounds(a, b) : \A v \in UpperBounds(a, b) : Leq(u, v)            \* a least upper bound exists
    /\ (Leq(a, b) /\ Leq(b, a) => a = b)                                               \* antisymmetry
    /\ (Leq(a, b) /\ Leq(b, c) => Leq(a, c))                                           \* transitivity
    /\ Join(a, a) = a                                                                   \* idempotent
    /\ Join(a, b) = Join(b, a)                                                          \* commutative
    /\ Join(Join(a, b), c) = Join(a, Join(b, c))                                        \* associative
    /\ (Leq(a, b) => Leq(Join(a, c), Join(b, c)))                                       \* monotone
    /\ (Leq(a, b) <=> Join(a, b) = b)                                                   \* order <-> join
    /\ Join(a, b) = PromoteTable[a][b]                                                  \* = numpy.promote_types
    /\ Leq(RealOf(a), a) /\ ~IsComplex(RealOf(a))

\* ---- obligations -------------------------------------------------------------------------------
\* kinds:  same    : dtype(out) = dtype(in)
\*         real    : a real-valued quantity (singular values, norms): dtype(in) or its real counterpart
\*         float64 : documented as always double precision
\*         int     : index / count output
\*         free    : no obligation
Kinds == {"same", "real", "float64", "int", "free"}

Accepts(kind, in, out) ==
    CASE kind = "same"    -> out = in
      [] kind = "real"    -> out \in {in, RealOf(in)}
      [] kind = "float64" -> out = "float64"
      [] kind = "int"     -> out = "int"
      [] kind = "free"    -> TRUE

\* the leak class of a rejected (kind, in, out); "ok" iff accepted
LeakClass(kind, in, out) ==
    IF Accepts(kind, in, out) THEN "ok"
    ELSE IF out \notin Types THEN "UnknownDtype"
    ELSE IF kind = "float64" THEN "NotDoublePrecision"
    ELSE IF kind = "int" THEN "NotInteger"
    ELSE IF out \in {"bool", "int"} THEN "NotFloating"
    ELSE IF IsComplex(in) /\ ~IsComplex(out) THEN "DroppedImaginary"
    ELSE IF out = Join(in, "float64") THEN "WidenedToDouble"          \* work array allocated without context
    ELSE IF IsComplex(out) /\ ~IsComplex(in) THEN "PromotedToComplex"
    ELSE IF Leq(out, in) THEN "NarrowedToSingle"
    ELSE "Incomparable"

LeakOK(kind, in, out) ==
    /\ (LeakClass(kind, in, out) = "ok") <=> Accepts(kind, in, out)
    /\ (kind \in {"same", "real"} /\ LeakClass(kind, in, out) = "WidenedToDouble" => Leq(in, out) /\ out # in)
    /\ (LeakClass(kind, in, out) = "NarrowedToSingle" => Leq(out, in) /\ out # in)
    /\ (kind = "real" /\ ~IsComplex(in) => (Accepts("real", in, out) <=> Accepts("same", in, out)))
    /\ (Accepts("same", in, out) => Accepts("real", in, out))

\* Documented exceptions to "same" (everything not listed is "same"); rows: entry, path prefix of the
\* output slot, kind.  Transcribed from the docstrings / the property text:
\*   leverage_score_dist: "leverage score distribution" computed and returned in double precision
\*   permutations / sampled row indices are index outputs
\*   singular values (and column norms collected as CP weights by cp_normalize) are real numbers:
\*     for complex input NumPy/LAPACK return them in the real counterpart type
ObligationTable == {
    [entry |-> "metrics.leverage_score_dist",        p |-> <<>>,          kind |-> "float64"],
    [entry |-> "metrics.congruence_coefficient",     p |-> <<"1">>,       kind |-> "int"],
    [entry |-> "cp_tensor.cp_permute_factors",       p |-> <<"1">>,       kind |-> "int"],
    [entry |-> "decomposition.sample_khatri_rao",    p |-> <<"1">>,       kind |-> "int"],
    [entry |-> "decomposition.sample_khatri_rao",    p |-> <<"2">>,       kind |-> "int"],
    [entry |-> "tenalg.svd_interface",               p |-> <<"1">>,       kind |-> "real"],
    [entry |-> "tenalg.truncated_svd",               p |-> <<"1">>,       kind |-> "real"],
    [entry |-> "tenalg.symeig_svd",                  p |-> <<"1">>,       kind |-> "real"],
    [entry |-> "tenalg.randomized_svd",              p |-> <<"1">>,       kind |-> "real"],
    [entry |-> "tenalg.make_svd_non_negative",       p |-> <<"1">>,       kind |-> "real"],
    [entry |-> "cp_tensor.cp_normalize",             p |-> <<"weights">>, kind |-> "real"],
    [entry |-> "cp_tensor.CPTensor.normalize",       p |-> <<"weights">>, kind |-> "real"] }

IsPrefixOf(p, q) == Len(p) <= Len(q) /\ SubSeq(q, 1, Len(p)) = p
RowsOf(entry) == {r \in ObligationTable : r.entry = entry}
Oblig(entry, path) ==
    LET m == {r \in RowsOf(entry) : IsPrefixOf(r.p, path)} IN
    IF m = {} THEN "same" ELSE (CHOOSE r \in m : \A s \in m : Len(s.p) <= Len(r.p)).kind

ASSUME \A r \in ObligationTable : r.kind \in Kinds \ {"same"}
ASSUME \A r, s \in ObligationTable : (r.entry = s.entry /\ r.p = s.p) => r = s

\* ---- design run: the domain (type triples x kinds) enumerated as states, theorems as invariant
VARIABLE cfg
NoCfg == [op |-> "none"]
Init == cfg \in [a : Types, b : Types, c : Types, kind : Kinds]
Next == FALSE /\ cfg' = cfg
Spec == Init /\ [][Next]_cfg
SpecOK == /\ LatticeOK(cfg.a, cfg.b, cfg.c)
          /\ (cfg.a \in FloatTypes => LeakOK(cfg.kind, cfg.a, cfg.b))
=============================================================================
