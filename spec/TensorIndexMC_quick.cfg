SPECIFICATION Spec
CONSTANTS
  MaxOrder = 4
  MaxDim = 3
  WithEmpty = TRUE
  HighOrders = {9}
  MaxSize = 36
INVARIANT SpecOK
