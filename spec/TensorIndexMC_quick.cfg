SPECIFICATION Spec
CONSTANTS
  MaxOrder = 4
  MaxDim = 3
  MaxSize = 36
INVARIANT SpecOK
