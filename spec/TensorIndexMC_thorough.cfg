SPECIFICATION Spec
CONSTANTS
  MaxOrder = 5
  MaxDim = 4
  MaxSize = 96
INVARIANT SpecOK
