SPECIFICATION Spec
CONSTANTS
  MaxOrder = 5
  MaxDim = 4
  WithEmpty = TRUE
  HighOrders = {9, 10}
  MaxSize = 96
INVARIANT SpecOK
