SPECIFICATION Spec
CONSTANTS
  MaxOrder = 5
  MaxDim = 4
  HighOrders = {9, 10, 11}
  MaxSize = 96
INVARIANT SpecOK
