---------------------------- MODULE Constraints ----------------------------
(* C11: the constraint *specification* of constrained CP (AO-ADMM), as documented in the        *)
(* docstrings of constrained_parafac / validate_constraints / proximal_operator -- written      *)
(* without looking at how registrer_constraint fills its tables.                                *)
(*                                                                                              *)
(*   Each of the twelve constraint keywords ("kinds") is absent or given in one of three forms  *)
(*     scalar  p            the kind applies to every mode with parameter p                     *)
(*     list    [p0,..]      entry i applies to mode i; a falsy entry (None) = no constraint     *)
(*     dict    {m: p}       the kind applies to the listed modes m with parameter p             *)
(*   The result is, per mode, AT MOST ONE (kind, parameter).  A specification that puts two     *)
(*   kinds on the same mode is rejected with an error.                                          *)
(*                                                                                              *)
(* A specification is  [n |-> order, items |-> <<item, ...>>],  one item per given keyword,     *)
(*   item = [kind, form, modes |-> sequence of distinct 0-based modes (<<>> for scalar),        *)
(*           pars |-> parameters aligned with modes (one entry for scalar)]                     *)
(*   A list is positional, so its modes are in increasing order.  A dict is an ORDERED          *)
(*   collection of (mode, parameter) pairs in Python: modes is the key order the user wrote,    *)
(*   ANY order, and the meaning must not depend on it (theorem KeyOrderIrrelevant below).       *)
(* Parameters are small positive integers p; the harness passes True for the boolean kinds,     *)
(* int(p) for the sparsity counts, float(p) for the radii and p/10 for the penalties.           *)
(*                                                                                              *)
(* Second half: feasibility predicates of the eight HARD kinds over quantised measurements of   *)
(* a returned factor matrix (the harness measures, this module judges).                         *)
EXTENDS Tens, TLC

CONSTANTS Orders,       \* tensor orders enumerated by the design run, e.g. {3, 4}
          SoftOrders,   \* orders for which the four penalty kinds are enumerated as well
          WideOrders,   \* orders for which two-keyword specifications range over ALL pairs of kinds
                        \* (elsewhere over the pairs of CoreKinds; single keywords: always every kind)
          SecondKeyOrders \* "asc" / "ends": dict key orders enumerated for the SECOND keyword of a pair

KindSeq == <<"non_negative", "l1_reg", "l2_reg", "l2_square_reg", "unimodality", "normalize",
             "simplex", "normalized_sparsity", "soft_sparsity", "smoothness", "monotonicity",
             "hard_sparsity">>
AllKinds     == SeqRange(KindSeq)
BoolKinds    == {"non_negative", "unimodality", "normalize", "monotonicity"}   \* parameter: True
CountKinds   == {"hard_sparsity", "normalized_sparsity"}                       \* parameter: k (int)
RadiusKinds  == {"simplex", "soft_sparsity"}                                   \* parameter: r (float)
PenaltyKinds == {"l1_reg", "l2_reg", "l2_square_reg", "smoothness"}            \* parameter: p/10
HardKinds    == BoolKinds \cup CountKinds \cup RadiusKinds
Forms        == {"scalar", "list", "dict"}
KindIdx(k)   == CHOOSE i \in 1..Len(KindSeq) : KindSeq[i] = k

Modes(n) == 0..(n - 1)

\* ------------------------------------------------------------------ the documented mapping
(* Dict KEYS may be negative.  The documentation only says "dictionary"; the implementation has     *)
(* always indexed its per-mode tables with the keys, so key k < 0 addresses mode n + k (Python's     *)
(* index convention, -1 = last mode) and users rely on it.  The specification adopts that reading    *)
(* in full: a negative key DENOTES mode n + k -- for the assignment AND for the double-constraint    *)
(* rule (two keywords reaching the same mode, under whatever spelling, are rejected).                *)
NormMode(n, k)   == IF k < 0 THEN n + k ELSE k
(* FALSY VALUES.  A keyword may be GIVEN and still request nothing: configuration code forwards      *)
(* `monotonicity=False`, `l1_reg=0.0`, `hard_sparsity=0`, a list entry 0 / False, a dict value       *)
(* None / False for "this mode: off".  The documentation says so for lists ("falsy entries") and the  *)
(* scalar test is a truth test; the specification takes the one reading for every form: a parameter  *)
(* written 0 here (rendered False, 0, 0.0, numpy.False_ or None by the binding, item field `falsy`)   *)
(* requests NOTHING on its mode -- neither a constraint nor a double constraint.                     *)
ItemModes(n, it) == IF it.form = "scalar" THEN (IF it.pars[1] = 0 THEN {} ELSE Modes(n))
                    ELSE {NormMode(n, it.modes[j]) : j \in {j \in 1..Len(it.modes) : it.pars[j] # 0}}
ItemPar(n, it, m) == IF it.form = "scalar" THEN it.pars[1]
                     ELSE it.pars[CHOOSE j \in 1..Len(it.modes) : NormMode(n, it.modes[j]) = m]
FalsySpellings == {"None", "False", "0", "0.0", "npFalse"}

\* every (mode, kind, parameter) the user asked for
Requests(n, items) ==
    UNION {{[mode |-> m, kind |-> items[j].kind, par |-> ItemPar(n, items[j], m)] : m \in ItemModes(n, items[j])}
           : j \in 1..Len(items)}
ReqAt(n, items, m)     == {r \in Requests(n, items) : r.mode = m}
Requested(n, items)    == {r.mode : r \in Requests(n, items)}
Rejected(n, items)     == \E m \in Modes(n) : Cardinality(ReqAt(n, items, m)) > 1

NoPar  == -1                                    \* "no parameter" (Python None) in events
NoneKP == [kind |-> "none", par |-> NoPar]
KP(r)  == [kind |-> r.kind, par |-> r.par]

\* per-mode result of an accepted specification
Assign(n, items) ==
    [m \in Modes(n) |-> IF ReqAt(n, items, m) = {} THEN NoneKP
                        ELSE KP(CHOOSE r \in ReqAt(n, items, m) : TRUE)]

\* ---- an operational reading of the same documentation: register the keywords one after the
\*      other (in ANY order); landing on an occupied mode is the error
RECURSIVE Register(_, _, _)
Register(n, items, st) ==
    IF items = <<>> \/ st.rej THEN st
    ELSE LET it  == Head(items)
             occ == \E m \in ItemModes(n, it) : st.tab[m] # NoneKP
             tab == [m \in Modes(n) |-> IF m \in ItemModes(n, it)
                                        THEN [kind |-> it.kind, par |-> ItemPar(n, it, m)] ELSE st.tab[m]]
         IN  IF occ THEN [rej |-> TRUE, tab |-> st.tab]
             ELSE Register(n, Tail(items), [rej |-> FALSE, tab |-> tab])
Sequential(n, items) == Register(n, items, [rej |-> FALSE, tab |-> [m \in Modes(n) |-> NoneKP]])

Reorder(items, p) == [j \in 1..Len(items) |-> items[p[j]]]
\* the same dict written with its (mode, parameter) pairs in another order (p: a permutation)
Rekey(it, p) == [kind |-> it.kind, form |-> it.form, falsy |-> it.falsy, modes |-> [j \in 1..Len(it.modes) |-> it.modes[p[j]]],
                 pars |-> [j \in 1..Len(it.pars) |-> it.pars[p[j]]]]
\* canonical spelling: a dict over the REQUESTED modes only (falsy entries dropped), ascending,
\* non-negative keys -- the theorem "Requests(AsDict(..)) = Requests(..)" in MapOK therefore says that
\* form, key spelling, key order and falsy entries are all notation
AsDict(n, it) == LET ms == SortedSeq(ItemModes(n, it))
                      IN  [kind |-> it.kind, form |-> "dict", falsy |-> "None", modes |-> ms,
                           pars |-> [j \in 1..Len(ms) |-> ItemPar(n, it, ms[j])]]

\* ---- theorems about the mapping (TLC, every enumerated specification)
MapOK(n, items) ==
    LET rej == Rejected(n, items)
        A   == Assign(n, items) IN
    \* Reject iff two different keywords share a mode
    /\ rej <=> \E i, j \in 1..Len(items) : i < j /\ ItemModes(n, items[i]) \cap ItemModes(n, items[j]) # {}
    \* accepted => the mapping is a function: one (kind, par) on requested modes, nothing elsewhere
    /\ ~rej => /\ \A m \in Modes(n) : Cardinality(ReqAt(n, items, m)) <= 1
               /\ \A r \in Requests(n, items) : A[r.mode] = KP(r)
               /\ \A m \in Modes(n) : (A[m] = NoneKP) <=> (m \notin Requested(n, items))
               /\ \A m \in Modes(n) : A[m] # NoneKP => A[m].kind \in AllKinds /\ A[m].par >= 1
    \* the order in which keywords are processed is irrelevant (keyword arguments have no order)
    /\ \A p \in Permutations(1..Len(items)) :
          LET s == Sequential(n, Reorder(items, p)) IN
          /\ s.rej = rej
          /\ ~rej => s.tab = A
    \* the three forms are notations for the same requests
    /\ Requests(n, [j \in 1..Len(items) |-> AsDict(n, items[j])]) = Requests(n, items)
    \* KeyOrderIrrelevant: the order in which a dict lists its keys carries no meaning
    /\ \A j \in 1..Len(items) : items[j].form = "dict" =>
          \A p \in Permutations(1..Len(items[j].modes)) :
             LET re == [i \in 1..Len(items) |-> IF i = j THEN Rekey(items[i], p) ELSE items[i]] IN
             /\ Requests(n, re) = Requests(n, items)
             /\ Rejected(n, re) = rej
             /\ ~rej => Assign(n, re) = A

\* ------------------------------------------------------------------ the enumerated domain
KindsFor(n) == IF n \in SoftOrders THEN AllKinds ELSE HardKinds
CoreKinds   == {"non_negative", "simplex", "monotonicity", "hard_sparsity"}   \* a boolean, a radius, an order, a count kind
PairKinds(n) == IF n \in WideOrders THEN KindsFor(n) ELSE CoreKinds
DomPar(k, m) == IF k \in BoolKinds THEN 1
                ELSE IF k \in CountKinds THEN m + 2
                ELSE m + 1                       \* radii 1,2,3,4 ; penalties 0.1 .. 0.4
\* key orders of a dict over the mode set S: every permutation ("all"); ascending and descending
\* ("ends"); ascending only ("asc")
Reversed(q) == [j \in 1..Len(q) |-> q[Len(q) + 1 - j]]
KeyOrders(S, which) ==
    LET asc == SortedSeq(S) IN
    IF which = "all" THEN {[j \in 1..Len(asc) |-> asc[p[j]]] : p \in Permutations(1..Len(asc))}
    ELSE IF which = "ends" THEN {asc, Reversed(asc)}
    ELSE {asc}
WithPars(n, k, f, ms) == [kind |-> k, form |-> f, falsy |-> "None", modes |-> ms, pars |-> [j \in 1..Len(ms) |-> DomPar(k, NormMode(n, ms[j]))]]
\* spellings of the keys: the last mode written -1; every key written negative
NegLast(n, ms) == [j \in 1..Len(ms) |-> IF ms[j] = n - 1 THEN -1 ELSE ms[j]]
AllNeg(n, ms)  == [j \in 1..Len(ms) |-> ms[j] - n]
Spellings(n, ms, which) ==
    IF which = "all" THEN {ms, NegLast(n, ms), AllNeg(n, ms)}
    ELSE IF which = "plain" THEN {ms}
    ELSE IF which = "first" THEN {ms, NegLast(n, ms)}
    ELSE IF which = "ends" /\ ms = SortedSeq(SeqRange(ms)) THEN {ms, NegLast(n, ms)}
    ELSE {ms}
\* per-mode parameters are DISTINCT (DomPar depends on the mode) for counts, radii and penalties
ItemsOf(n, k, which) ==
         {[kind |-> k, form |-> "scalar", falsy |-> "None", modes |-> <<>>, pars |-> <<DomPar(k, 1)>>]}
    \cup {WithPars(n, k, "list", SortedSeq(S)) : S \in SUBSET Modes(n)}
    \cup UNION {UNION {{WithPars(n, k, "dict", sp) : sp \in Spellings(n, ms, which)} : ms \in KeyOrders(S, which)} : S \in SUBSET Modes(n)}
\* a keyword that is GIVEN but requests nothing: falsy scalar; dict / list whose listed values are falsy
OffKinds(n) == {"non_negative", "hard_sparsity"} \cap KindsFor(n)   \* the first and the last keyword in the registration order
ZeroItem(k, f, ms) == [kind |-> k, form |-> f, falsy |-> "False", modes |-> ms, pars |-> [j \in 1..Len(ms) |-> 0]]
OffItems(n, k) ==
         {[kind |-> k, form |-> "scalar", falsy |-> "False", modes |-> <<>>, pars |-> <<0>>]}
    \cup {ZeroItem(k, "dict", <<m>>) : m \in {0, n - 1}} \cup {ZeroItem(k, "dict", SortedSeq(Modes(n)))}
    \cup {ZeroItem(k, "list", SortedSeq(Modes(n)))}
\* a per-mode keyword that ALSO lists one mode it does not constrain, with a falsy value
Mixed(n, it) ==
    LET z  == CHOOSE m \in Modes(n) \ ItemModes(n, it) : \A k \in Modes(n) \ ItemModes(n, it) : m <= k
        ms == SortedSeq(SeqRange(it.modes) \cup {z})
    IN  [kind |-> it.kind, form |-> it.form, falsy |-> "False", modes |-> ms,
         pars |-> [j \in 1..Len(ms) |-> IF ms[j] = z THEN 0 ELSE ItemPar(n, it, ms[j])]]
ByKind(a, b) == IF KindIdx(a.kind) < KindIdx(b.kind) THEN <<a, b>> ELSE <<b, a>>
\* the first keyword of a pair: ascending keys (every key order is enumerated for single keywords)
PairFirstOK(n, it) == it \in ItemsOf(n, it.kind, "first")     \* ascending keys, last mode also written -1

\* structural validity (what the trace specification checks on an event; no big set is built)
StrictlyIncreasing(s) == \A j \in 1..(Len(s) - 1) : s[j] < s[j + 1]
ValidItem(n, it) ==
    /\ it.kind \in AllKinds /\ it.form \in Forms
    /\ \A j \in 1..Len(it.modes) : it.modes[j] \in (IF it.form = "dict" THEN (-n)..(n - 1) ELSE Modes(n))
    /\ Cardinality({NormMode(n, it.modes[j]) : j \in 1..Len(it.modes)}) = Len(it.modes)   \* distinct MODES (not just keys)
    /\ it.form # "dict" => StrictlyIncreasing(it.modes)                \* a dict may list its keys in any order
    /\ IF it.form = "scalar" THEN it.modes = <<>> /\ Len(it.pars) = 1 ELSE Len(it.pars) = Len(it.modes)
    /\ \A j \in 1..Len(it.pars) : it.pars[j] \in 0..9 /\ (it.kind \in BoolKinds => it.pars[j] \in {0, 1})
    /\ it.falsy \in FalsySpellings
    /\ (it.form = "scalar" /\ it.pars[1] = 0) => it.falsy # "None"      \* a scalar None is "not given" at all
ValidSpec(n, items) ==
    /\ n \in 2..5 /\ Len(items) <= 3
    /\ Cardinality({j \in 1..Len(items) : ItemModes(n, items[j]) # {}}) <= 2      \* at most two keywords that request something
    /\ \A j \in 1..Len(items) : ValidItem(n, items[j])
    /\ \A i, j \in 1..Len(items) : i < j => KindIdx(items[i].kind) < KindIdx(items[j].kind)

\* ------------------------------------------------------------------ decomposition runs (binding 2)
RunShapes(n) == IF n = 3 THEN {<<3, 4, 2>>, <<4, 3, 3>>, <<3, 1, 4>>}              \* incl. a size-1 mode
                ELSE IF n = 4 THEN {<<3, 2, 3, 2>>, <<2, 3, 2, 4>>, <<2, 3, 1, 3>>} ELSE {}
RunRanks  == {1, 2, 3, 5}     \* below / equal to / above single mode sizes; 5 is above EVERY mode size
RunInits  == {"svd", "random", "user", "exact", "feasible"}
\* "feasible": a caller's CP tensor with NON-UNIT weights (positive or of mixed sign) whose factors
\*          satisfy the constraint requested on their mode
\* "user":  an entrywise non-negative CP tensor supplied by the caller
\* "exact": the data ARE a CP tensor and the caller's start reproduces them (to rounding, or to 1e-4
\*          when tol_outer is loose) through an equivalent but infeasible parametrisation: a component
\*          sign-flipped in two modes, scale moved between modes, a negative weight
BuiltinInit(r) == r.init \in {"svd", "random"}
RunTols   == {"default", "loose"}
\* members of a sequence through the class wrapper: each estimator constructed right before its fit,
\* or ALL estimators constructed first and fitted afterwards (nothing may be shared between instances)
RunBuilt  == {"at_call", "before_sequence", "reused_estimator"}
\* "reused_estimator": ONE ConstrainedCP object for the whole sequence; before each fit the caller assigns that
\* member's options to its attributes (also after a member whose request was rejected with an error)
\* HOW the call is written -- the meaning must not depend on it:
CallForms == {"keyword", "positional"}      \* every argument by its published name / in the published order
RunCvg    == {"abs_rec_error", "rec_error"}          \* tol_outer left at 1e-8 / set to 1e-2
RunOuter  == {0, 1, 2, 5}   \* 0: the initial factors are returned (built-in inits go through the prox first)
RunInner  == {1, 10}         \* never 0: admm(n_iter_max=0) raises UnboundLocalError before returning
RunData   == {"signed", "sparse", "allneg", "denorm"}     \* denorm: signed, with -0.0 and 5e-324 entries mixed in
(* fixed_modes ("A list of modes for which the initial value is not modified.  The last mode cannot *)
(* be fixed"): every subset of the modes 0..n-2, so at least the last mode stays free.  A fixed     *)
(* mode's factor is the initial value by that documentation (C14's obligation), so a constraint     *)
(* requested on a fixed mode imposes NOTHING on the returned factor; every free requested mode      *)
(* keeps the obligation Assign gives it, whatever is fixed around it.                               *)
RunFixed(n) == {SortedSeq(S) : S \in SUBSET (0..(n - 2))}
RunVia    == {"function", "class", "class_fit"}   \* constrained_parafac(...) / ConstrainedCP(...).fit_transform / .fit(...).decomposition_
ValidFixed(n, f) == /\ \A j \in 1..Len(f) : f[j] \in 0..(n - 2)
                    /\ \A j \in 1..(Len(f) - 1) : f[j] < f[j + 1]
(* VALUE regimes: the data are multiplied by 2^scale (exact) and stored as dtype.  The hard        *)
(* constraints are scale-free (signs, order, counts, unit norm, unit max) or have absolute radii    *)
(* (simplex, l1 ball), so the feasibility predicates do not change with the units of the data.      *)
(* float32 only with scales that keep every Gram product inside the float32 range.                  *)
RunScales == {0, -70, -30, 40, -1060, 500}
\* 2^-1060: EVERY entry subnormal (<= ~1e-316).  2^500: the largest regime whose SQUARES (2^1000 < 2^1024)
\* stay inside float64 -- the property does not promise more range than the arithmetic has (a norm of
\* entries beyond ~1e154 is inf in NumPy itself), so nothing larger is in the domain.
RunDtypes == {"float64", "float32"}
ValidValues(r) == /\ r.scale \in RunScales /\ r.dtype \in RunDtypes
                  /\ (r.dtype = "float32" => r.scale \in {0, -30})
\* float32 data of scale 2^-30: products of a few such numbers leave the float32 range, a factor can
\* underflow to exactly 0 and the unit-norm / unit-max kinds then have no representative (0/0).  In
\* this regime only, a non-finite returned factor is a numerical break-down without obligation.
UnderflowRegime(r) == \/ r.dtype = "float32" /\ r.scale < 0
                      \/ r.scale <= -1000 \/ r.scale >= 500       \* float64 at the ends of its range: same rule
\* parameter shifts for SEQUENCES of decompositions run back to back in one process: the same
\* keywords, forms and modes with the numeric parameters p, p+2, p+4 in some order -- every member
\* is judged by ITS OWN specification (nothing may survive from an earlier call)
SeqShifts == {0, 2, 4}
ValidRun(n, r) == /\ r.shape \in RunShapes(n) /\ r.rank \in RunRanks /\ r.init \in RunInits
                  /\ ValidFixed(n, r.fixed) /\ r.via \in RunVia /\ ValidValues(r) /\ r.tol \in RunTols
                  /\ r.built \in RunBuilt /\ (r.built # "at_call" => r.via \in {"class", "class_fit"})
                  /\ r.form \in CallForms /\ r.cvg \in RunCvg
                  /\ r.errors \in BOOLEAN        \* return_errors (the function then returns a pair)
                  /\ r.alias \in BOOLEAN         \* a caller's start whose equal-sized modes share ONE array object
                  /\ r.outer \in RunOuter /\ r.inner \in RunInner /\ r.data \in RunData
(* Which modes carry the obligation.  initialize_constrained_parafac documents that the built-in    *)
(* initialisations are passed through the proximal operator "so that they satisfy the imposed       *)
(* constraints (does not apply to cptensor initialization)"; fixed_modes keeps "the initial value". *)
(* Hence: a free mode is always obliged (ADMM returns the prox output; with a zero outer budget it   *)
(* is the projected built-in start); a FIXED mode is obliged exactly when the start is built-in; a  *)
(* fixed mode of a caller's start is returned as supplied (C14) and carries no obligation.  With an *)
(* outer budget >= 1 every FREE requested mode is obliged WHATEVER the start -- also one that fits  *)
(* the data exactly: "fits" is not "satisfies the constraints".                                     *)
ObligedModes(n, items, r) ==
    {m \in Requested(n, items) : /\ Assign(n, items)[m].kind \in HardKinds
                                 /\ \/ BuiltinInit(r)
                                    \/ m \notin SeqRange(r.fixed) /\ r.outer >= 1}
(* A factor of the caller's start that is RETURNED AS SUPPLIED -- a fixed mode, or with a zero outer  *)
(* budget every mode but the last, into which the documentation pulls the start's weights -- has no  *)
(* projection behind it, but "as supplied" means: if the supplied factor satisfied the constraint    *)
(* requested on its mode, so does the returned one (equality of the values is C14's business).       *)
KeptModes(n, items, r) ==
    {m \in Requested(n, items) : /\ Assign(n, items)[m].kind \in HardKinds /\ ~BuiltinInit(r)
                                 /\ m # n - 1 /\ (m \in SeqRange(r.fixed) \/ r.outer = 0)}
\* operator events: proximal_operator(v, <spec>, n_const = n, order = mode) on a rows x cols matrix
ValidProx(n, r) == /\ r.rows \in 2..4 /\ r.cols \in 1..3 /\ r.mode \in Modes(n) /\ r.data \in RunData /\ ValidValues(r) /\ r.form \in CallForms
\* exceptions that are numerical break-downs of the linear algebra, not a statement about constraints
NumericFailure == {"LinAlgError"}

\* ------------------------------------------------------------------ feasibility predicates
(* Measurements of a returned factor F (rows x rank), by the harness, quantised q(x) = rint(x*Scale): *)
(*   F.rows, F.nnz (exact count of non-zero entries), F.fro = q(||F||_F), F.maxabs = q(max|F|),       *)
(*   F.cols[c] = [minsign |-> sign(min) in {-1,0,1} (exact), sum, l1, l2, maxabs (quantised),        *)
(*                nnz (exact), diffs |-> <<q((x[i+1]-x[i]) / s)>>]  with  s = max|F| (1 if F = 0)     *)
(*   F.finite  = no NaN / infinity in F (otherwise every number is logged as 0)                      *)
(* A quantised magnitude beyond 2*10^9 (|x| >= 200) is SATURATED to +-2*10^9: every comparison below  *)
(* that involves it (against r <= 9 or against 1) then has the same truth value as for the real       *)
(* number.  First differences are taken relative to s, so they are always in range and the monotone   *)
(* / unimodal tolerance is 1e-6 relative to the largest entry, whatever the units of the data.        *)
(* (TLC cannot test "x \in Int" on a string, so non-finite factors are flagged, not encoded.)         *)
Scale == 10000000           \* 10^7
Tol   == 10                 \* 10^-6: float64 arithmetic on O(1..10) numbers
(* float32 results: one rounding is 6e-8 relative, a column sum / norm of up to 4 entries of size <= 9 *)
(* (the largest radius) accumulates a few 1e-6 absolute -- observed 1.4e-6 on an l1 radius of 8 --     *)
(* so float32 runs are judged with 1e-4, still far below any real infeasibility (>= 1e-2 in every      *)
(* seeded or found defect).                                                                            *)
Tol32 == 1000
TolOf(dtype) == IF dtype = "float32" THEN Tol32 ELSE Tol

AbsI(x) == IF x < 0 THEN -x ELSE x
Cols(F) == {F.cols[c] : c \in 1..Len(F.cols)}

MeasOK(kind, F) == F.finite

NonDecreasing(d, tol) == \A j \in 1..Len(d) : d[j] >= -tol
NonIncreasing(d, tol) == \A j \in 1..Len(d) : d[j] <= tol
\* sign pattern of the first differences is  +* -*  : up to some peak position, down afterwards
UnimodalDiffsT(d, tol) == \E p \in 0..Len(d) : /\ \A j \in 1..p : d[j] >= -tol
                                               /\ \A j \in (p + 1)..Len(d) : d[j] <= tol
UnimodalDiffs(d) == UnimodalDiffsT(d, Tol)

(* Where the documentation leaves the scope open, BOTH documented readings are accepted:          *)
(*  - hard / normalised sparsity and max-normalisation are described for "the factor" / "the     *)
(*    input array" (whole matrix), the property speaks column-wise;                               *)
(*  - monotonicity: constrained_parafac says "monotonically decreasing", monotonicity_prox        *)
(*    documents increasing as its default: a factor is feasible if all its columns are            *)
(*    non-decreasing or all are non-increasing.                                                   *)
FeasibleT(kind, par, F, tol) ==
    CASE kind = "non_negative"  -> \A c \in Cols(F) : c.minsign >= 0
      [] kind = "simplex"       -> \A c \in Cols(F) : c.minsign >= 0 /\ AbsI(c.sum - par * Scale) <= tol
      [] kind = "monotonicity"  -> \/ \A c \in Cols(F) : NonDecreasing(c.diffs, tol)
                                   \/ \A c \in Cols(F) : NonIncreasing(c.diffs, tol)
      [] kind = "unimodality"   -> \A c \in Cols(F) : UnimodalDiffsT(c.diffs, tol)
      [] kind = "hard_sparsity" -> \/ F.nnz <= par
                                   \/ \A c \in Cols(F) : c.nnz <= par
      [] kind = "normalized_sparsity" ->
                                   \/ F.nnz <= par /\ AbsI(F.fro - Scale) <= tol
                                   \/ \A c \in Cols(F) : c.nnz <= par /\ AbsI(c.l2 - Scale) <= tol
      [] kind = "normalize"     -> \/ AbsI(F.maxabs - Scale) <= tol
                                   \/ \A c \in Cols(F) : AbsI(c.maxabs - Scale) <= tol
      [] kind = "soft_sparsity" -> \A c \in Cols(F) : c.l1 <= par * Scale + tol
      [] OTHER -> TRUE          \* penalties: no hard obligation
Feasible(kind, par, F) == FeasibleT(kind, par, F, Tol)

ClauseOf(kind) ==
    CASE kind = "non_negative" -> "NonNegative"  [] kind = "simplex" -> "Simplex"
      [] kind = "monotonicity" -> "Monotone"     [] kind = "unimodality" -> "Unimodal"
      [] kind = "hard_sparsity" -> "HardSparsity" [] kind = "normalized_sparsity" -> "NormalizedSparsity"
      [] kind = "normalize" -> "MaxNormalized"   [] kind = "soft_sparsity" -> "L1Ball"
      [] OTHER -> "NoObligation"

\* ---- exact measurements of small integer columns: the predicates against the textbook definitions
RECURSIVE SumAbs(_)
SumAbs(s) == IF s = <<>> THEN 0 ELSE AbsI(Head(s)) + SumAbs(Tail(s))
RECURSIVE SumSq(_)
SumSq(s) == IF s = <<>> THEN 0 ELSE Head(s) * Head(s) + SumSq(Tail(s))
MaxAbsOf(s) == CHOOSE v \in {AbsI(s[j]) : j \in 1..Len(s)} : \A j \in 1..Len(s) : AbsI(s[j]) <= v
MinOf(s)    == CHOOSE v \in SeqRange(s) : \A j \in 1..Len(s) : v <= s[j]
NnzOf(s)    == Cardinality({j \in 1..Len(s) : s[j] # 0})
IsSquare(v) == \E r \in 0..20 : r * r = v
\* sqrt(v) * Scale when v is a perfect square; otherwise a value strictly between the neighbouring
\* integers (good enough: the predicates only ask whether a norm equals 1)
FloorRoot(v) == CHOOSE r \in 0..20 : r * r <= v /\ (r + 1) * (r + 1) > v
Root(v)     == IF IsSquare(v) THEN Scale * FloorRoot(v) ELSE Scale * FloorRoot(v) + Scale \div 2
MeasureCol(x, s) == [minsign |-> IF MinOf(x) < 0 THEN -1 ELSE IF MinOf(x) = 0 THEN 0 ELSE 1,
                  sum |-> Scale * SumSeq(x), l1 |-> Scale * SumAbs(x), l2 |-> Root(SumSq(x)),
                  maxabs |-> Scale * MaxAbsOf(x), nnz |-> NnzOf(x),
                  diffs |-> [j \in 1..(Len(x) - 1) |-> (Scale * (x[j + 1] - x[j])) \div s]]
MeasureFactor(xs) ==     \* xs: sequence of columns (each a sequence of integers of equal length)
    LET flat == [j \in 1..(Len(xs) * Len(xs[1])) |-> xs[((j - 1) \div Len(xs[1])) + 1][((j - 1) % Len(xs[1])) + 1]]
        s    == IF MaxAbsOf(flat) > 1 THEN MaxAbsOf(flat) ELSE 1     \* 1 or 2 here: divides Scale
    IN  [rows |-> Len(xs[1]), finite |-> TRUE, nnz |-> NnzOf(flat), fro |-> Root(SumSq(flat)), maxabs |-> Scale * MaxAbsOf(flat),
         cols |-> [c \in 1..Len(xs) |-> MeasureCol(xs[c], s)]]

UnimodalValues(x) == \E p \in 1..Len(x) : /\ \A j \in 1..(p - 1) : x[j] <= x[j + 1]
                                          /\ \A j \in p..(Len(x) - 1) : x[j] >= x[j + 1]
PredOK(x, y) ==
    LET F == MeasureFactor(<<x, y>>)
        G == MeasureFactor(<<x>>) IN
    /\ Feasible("unimodality", 1, G) <=> UnimodalValues(x)
    /\ Feasible("monotonicity", 1, G) <=> (\A j \in 1..(Len(x) - 1) : x[j] <= x[j + 1]) \/ (\A j \in 1..(Len(x) - 1) : x[j] >= x[j + 1])
    /\ Feasible("monotonicity", 1, F) => Feasible("unimodality", 1, F)
    /\ Feasible("non_negative", 1, F) <=> \A j \in 1..Len(x) : x[j] >= 0 /\ y[j] >= 0
    /\ \A r \in 1..3 :
         /\ Feasible("simplex", r, F) <=> /\ Feasible("non_negative", 1, F)
                                          /\ SumSeq(x) = r /\ SumSeq(y) = r
         /\ Feasible("simplex", r, F) => Feasible("soft_sparsity", r, F)
         /\ Feasible("soft_sparsity", r, F) <=> SumAbs(x) <= r /\ SumAbs(y) <= r
         \* whole-factor reading of hard sparsity implies the column-wise one
         /\ F.nnz <= r => \A c \in Cols(F) : c.nnz <= r
         /\ Feasible("hard_sparsity", r, F) <=> NnzOf(x) <= r /\ NnzOf(y) <= r
         /\ Feasible("normalized_sparsity", r, F) => Feasible("hard_sparsity", r, F)
         /\ Feasible("normalized_sparsity", r, G) <=> NnzOf(x) <= r /\ SumSq(x) = 1
    /\ Feasible("normalize", 1, G) <=> MaxAbsOf(x) = 1

\* the order predicates on longer single columns (3 first differences: a valley can hide in the middle)
Pred4OK(x) ==
    LET G == MeasureFactor(<<x>>) IN
    /\ Feasible("unimodality", 1, G) <=> UnimodalValues(x)
    /\ Feasible("monotonicity", 1, G) <=> (\A j \in 1..(Len(x) - 1) : x[j] <= x[j + 1]) \/ (\A j \in 1..(Len(x) - 1) : x[j] >= x[j + 1])

\* witnesses (both truth values of every predicate are reachable; evaluated once at start-up)
W(cols) == MeasureFactor(cols)
ASSUME /\ Feasible("non_negative", 1, W(<<<<0, 2, 1>>>>))      /\ ~Feasible("non_negative", 1, W(<<<<0, -1, 1>>>>))
       /\ Feasible("simplex", 2, W(<<<<0, 2, 0>>, <<1, 0, 1>>>>)) /\ ~Feasible("simplex", 2, W(<<<<0, 2, 0>>, <<1, 0, 0>>>>))
       /\ ~Feasible("simplex", 1, W(<<<<2, -1, 0>>>>))
       /\ Feasible("monotonicity", 1, W(<<<<-1, 0, 0>>, <<0, 1, 2>>>>)) /\ Feasible("monotonicity", 1, W(<<<<2, 0, 0>>, <<1, 1, -2>>>>))
       /\ ~Feasible("monotonicity", 1, W(<<<<-1, 0, 0>>, <<2, 1, 1>>>>)) /\ ~Feasible("monotonicity", 1, W(<<<<0, 1, 0>>>>))
       /\ Feasible("unimodality", 1, W(<<<<0, 2, 2, 1>>, <<3, 2, 1, 0>>>>)) /\ ~Feasible("unimodality", 1, W(<<<<1, 0, 1>>>>)) /\ ~Feasible("unimodality", 1, W(<<<<0, 2, 1, 2>>>>))
       /\ Feasible("hard_sparsity", 2, W(<<<<0, 2, 0>>, <<1, 0, 0>>>>)) /\ Feasible("hard_sparsity", 2, W(<<<<0, 2, 1>>, <<1, 0, 1>>>>))
       /\ ~Feasible("hard_sparsity", 2, W(<<<<1, 2, 1>>, <<1, 0, 0>>>>))
       /\ Feasible("normalized_sparsity", 2, W(<<<<0, 1, 0>>, <<0, 0, 0>>>>)) /\ Feasible("normalized_sparsity", 1, W(<<<<0, 1, 0>>, <<-1, 0, 0>>>>))
       /\ ~Feasible("normalized_sparsity", 1, W(<<<<0, 2, 0>>, <<0, 0, 0>>>>)) /\ ~Feasible("normalized_sparsity", 1, W(<<<<1, 1, 0>>, <<1, 0, 0>>>>))
       /\ Feasible("normalize", 1, W(<<<<0, -1, 0>>, <<0, 0, 0>>>>)) /\ Feasible("normalize", 1, W(<<<<0, -1, 0>>, <<1, 0, 0>>>>))
       /\ ~Feasible("normalize", 1, W(<<<<0, 2, 0>>, <<1, 0, 0>>>>))
       /\ Feasible("soft_sparsity", 2, W(<<<<1, -1, 0>>, <<0, 0, 0>>>>)) /\ ~Feasible("soft_sparsity", 2, W(<<<<1, -1, 1>>, <<0, 0, 0>>>>))

\* ------------------------------------------------------------------ design run
(* One root state per (order, first keyword in every form / no keyword): its successors are the   *)
(* specifications with that first keyword alone and with every second keyword of a later kind      *)
(* A single keyword is enumerated with EVERY dict key order; in a pair the first keyword has its   *)
(* keys ascending or descending and the second as SecondKeyOrders says.                            *)
(* (PairKinds: all kinds for WideOrders, the four CoreKinds otherwise -- the mapping never looks   *)
(* at WHICH kind a keyword is, so this only thins the quick tier; thorough is wide everywhere).    *)
(* One root per first column of a two-column integer factor for the predicate theorems.           *)
(* One "rundomain" state per order hands the decomposition-run domain to the harness.             *)
VARIABLE cfg
NoCfg == [op |-> "none"]
ColVals == -1..2
Columns == [1..3 -> ColVals]

\* `rej` hands the specification's own accept/reject decision to the harness (which runs the
\* decomposition experiments on accepted specifications only); the trace spec recomputes it.
SpecState(n, items) == [op |-> "spec", n |-> n, items |-> items, rej |-> Rejected(n, items)]

Init == \/ cfg \in {[op |-> "root", n |-> n, first |-> <<it>>] : <<n, it>> \in UNION {{<<n, it>> : it \in UNION {ItemsOf(n, k, "all") : k \in KindsFor(n)}} : n \in Orders}}
        \/ cfg \in {[op |-> "root", n |-> n, first |-> <<>>] : n \in Orders}
        \/ cfg \in {[op |-> "offroot", n |-> n, first |-> it] : <<n, it>> \in UNION {{<<n, it>> : it \in UNION {ItemsOf(n, k, "plain") : k \in KindsFor(n)}} : n \in Orders}}
        \/ cfg \in {[op |-> "colroot", x |-> x] : x \in Columns}
        \/ cfg \in {[op |-> "col4", x |-> x] : x \in [1..4 -> ColVals]}
        \/ cfg \in {[op |-> "rundomain", n |-> n, shapes |-> RunShapes(n), ranks |-> RunRanks, inits |-> RunInits, fixed |-> RunFixed(n), via |-> RunVia, scales |-> RunScales, dtypes |-> RunDtypes, shifts |-> SeqShifts, tols |-> RunTols, falsy |-> FalsySpellings, built |-> RunBuilt, forms |-> CallForms, cvg |-> RunCvg,
                     outer |-> RunOuter, inner |-> RunInner, data |-> RunData] : n \in Orders}
Next == \/ /\ cfg.op = "root"
           /\ \/ cfg' = SpecState(cfg.n, cfg.first)
              \/ /\ cfg.first # <<>> /\ cfg.first[1].kind \in PairKinds(cfg.n) /\ PairFirstOK(cfg.n, cfg.first[1])
                 /\ cfg' \in {SpecState(cfg.n, cfg.first \o <<it>>) :
                                it \in UNION {ItemsOf(cfg.n, k, SecondKeyOrders) : k \in {k \in PairKinds(cfg.n) : KindIdx(k) > KindIdx(cfg.first[1].kind)}}}
        \* falsy-but-given: every plain single keyword with an "off" companion keyword, and with a falsy entry of its own
        \/ /\ cfg.op = "offroot"
           /\ \/ cfg' \in {SpecState(cfg.n, ByKind(cfg.first, off)) :
                             off \in UNION {OffItems(cfg.n, k) : k \in OffKinds(cfg.n) \ {cfg.first.kind}}}
              \/ /\ cfg.first.form # "scalar" /\ ItemModes(cfg.n, cfg.first) # Modes(cfg.n)
                 /\ cfg' = SpecState(cfg.n, <<Mixed(cfg.n, cfg.first)>>)
        \/ /\ cfg.op = "colroot"
           /\ cfg' \in {[op |-> "cols", x |-> cfg.x, y |-> y] : y \in Columns}
Spec == Init /\ [][Next]_cfg

SpecOK == /\ cfg.op = "spec" => ValidSpec(cfg.n, cfg.items) /\ MapOK(cfg.n, cfg.items)
          /\ cfg.op = "cols" => PredOK(cfg.x, cfg.y)
          /\ cfg.op = "col4" => Pred4OK(cfg.x)
=============================================================================
