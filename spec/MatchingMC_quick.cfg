SPECIFICATION Spec
CONSTANTS
  FullPermR = 4
  MaxR = 5
  GenDraws = 2
  MetricDraws = 2
  LevMaxCols = 3
  LevDraws = 2
INVARIANT SpecOK
