----------------------------- MODULE Ownership -----------------------------
(* C15 -- library calls never modify caller-owned inputs.                                         *)
(*                                                                                                *)
(* A caller holds a graph of argument objects (arrays, the lists / tuples / wrapper objects       *)
(* holding them, option lists).  A *slot* is a path into that graph, e.g.                         *)
(*     <<"args","0">>   <<"kwargs","init","factors","1">>   <<"kwargs","fixed_modes">>             *)
(* and snap[slot] is a digest of what the caller can observe there (arrays: dtype, shape, bytes;  *)
(* containers: type, length and their scalar elements by value -- element arrays/containers are   *)
(* slots of their own).  Only equality of digests is used.                                        *)
(*                                                                                                *)
(* Call(entry, opt) hands the graph to the library; Return / Raise hand it back.  The contract:   *)
(* every slot that is not documented as updated in place by (entry, opt) carries the same digest   *)
(* afterwards -- both when the graph is walked again from the caller's roots (post) and when the    *)
(* very objects the caller passed are digested again (held).  The argument objects persist over   *)
(* the calls of one trace, so a mutation is also visible to every later call.                      *)
(* Role C: the content is the exemption table and the binding; the safety theorem is small.        *)
EXTENDS Naturals, Sequences, FiniteSets, TLC

IsPrefixOf(p, q) == Len(p) <= Len(q) /\ SubSeq(q, 1, Len(p)) = p

(* ---- the documented in-place parameters (transcribed from the docstrings / the property text) -- *)
(* Each row exempts the sub-graph under the listed paths for calls of `entry` made with option     *)
(* `opt` ("" = any); a parameter is listed under its positional slot and under its published name.  *)
(* `opt` ("" = any).                                                                                *)
(*  cp_mode_dot / CPTensor.mode_dot / tucker_mode_dot, copy=False : the factor list, the arrays     *)
(*      in it and the cached shape of the wrapper are updated in place ("copy=False mode products") *)
(*  hals_nnls : "V: r-by-n initialization matrix (mutable)"                                         *)
(*  index_update : "Updates the value of tensors in the specified indices" (tensor[idx] = values)  *)
(*  CPTensor.normalize : "the tensor modifies itself and returns itself"                            *)
ExemptTable == {
    [entry |-> "cp_tensor.cp_mode_dot", opt |-> "copy=False",
     under |-> {<<"args","0","factors">>, <<"args","0","1">>, <<"args","0","shape">>,
                <<"kwargs","cp_tensor","factors">>, <<"kwargs","cp_tensor","1">>, <<"kwargs","cp_tensor","shape">>}],
    [entry |-> "cp_tensor.CPTensor.mode_dot", opt |-> "copy=False",
     under |-> {<<"args","0","factors">>, <<"args","0","shape">>, <<"kwargs","self","factors">>, <<"kwargs","self","shape">>}],
    [entry |-> "tucker_tensor.tucker_mode_dot", opt |-> "copy=False",
     under |-> {<<"args","0","factors">>, <<"args","0","1">>, <<"kwargs","tucker_tensor","factors">>, <<"kwargs","tucker_tensor","1">>}],
    [entry |-> "solvers.hals_nnls", opt |-> "",
     under |-> {<<"kwargs","V">>, <<"args","2">>}],
    [entry |-> "backend.index_update", opt |-> "",
     under |-> {<<"args","0">>, <<"kwargs","tensor">>}],
    [entry |-> "cp_tensor.CPTensor.normalize", opt |-> "",
     under |-> {<<"args","0","weights">>, <<"args","0","factors">>}] }

Exempt(entry, opt) ==
    UNION {r.under : r \in {x \in ExemptTable : x.entry = entry /\ (x.opt = "" \/ x.opt = opt)}}

Obliged(c, p) == ~\E x \in Exempt(c.entry, c.opt) : IsPrefixOf(x, p)

\* well-formedness of the table (checked by TLC at start-up)
ASSUME \A r \in ExemptTable : \A p \in r.under : Len(p) >= 2 /\ p[1] \in {"args", "kwargs"}
ASSUME \A r, s \in ExemptTable : (r.entry = s.entry /\ r.opt = s.opt) => r = s

(* ---- domain dimension: the forms in which a caller may spell mode numbers and per-mode options ---- *)
(* ("option lists such as fixed modes or per-mode coefficients" are caller-owned inputs).  Every        *)
(* operation that accepts a mode / a collection of modes / an option keyed by mode is exercised with     *)
(* these forms; the trace spec rejects an undeclared form and, on a full run, a form never exercised.    *)
ArgForms == { "mode:int", "mode:neg", "mode:npint",                       \* one mode: 1, -2, numpy.int64(1)
              "modes:list", "modes:tuple", "modes:neg_list", "modes:neg_tuple",
              "modes:np_list", "modes:ndarray", "modes:set",              \* collections of modes
              "dict:pos_keys", "dict:neg_keys", "dict:npint_keys",        \* options keyed by mode number
              "call:positional", "call:keyword",          \* every argument in the published order / by its published name
              "alias:same_object", "alias:view",          \* two array arguments are one object / overlapping views
              "prev:failed_call", "prev:failed_estimator",\* the same objects were first used in a call that failed half-way
              "size:rank1", "size:rank_eq_dim", "size:rank_gt_dim", "size:single_sample", "size:single_column",
              "flags:combined", "spelling:equivalent",    \* two return options together; spellings documented as equivalent
              "entry:method", "entry:alias" }             \* second public entry points sharing a helper

(* ---- the contract as state functions (used by the model below and by OwnershipTrace) ----------- *)
\* slots whose digest differs although the call was obliged to preserve them
\* (the memory a view argument is a window on -- path component "base" -- belongs to the view object
\*  the caller passed: it is judged by the held object only)
IsBase(p) == p[Len(p)] = "base"
Changed(sn, c, post, held) ==
    {p \in DOMAIN sn : Obliged(c, p) /\ (held[p] # sn[p] \/ (~IsBase(p) /\ post[p] # sn[p]))}

\* which half of the contract fails at p: the object the caller passed has other content, or the
\* caller's graph now reaches something else at p (an ancestor container was assigned into)
Mechanism(sn, post, held, p) == IF held[p] # sn[p] THEN "ObjectMutated" ELSE "ElementRebound"

(* ---- a small model: TLC explores every schedule of calls / exits over a tiny slot universe ----- *)
CONSTANTS Slots,        \* set of paths
          Digests,      \* small set of digest values
          Calls,        \* set of [entry, opt] records
          Lib           \* "contract": the library honours the contract; "asfound": it may write anywhere

VARIABLES snap, pc, cur, orig, everExempt
vars == <<snap, pc, cur, orig, everExempt>>

NoCall == [entry |-> "none", opt |-> ""]

Init == /\ snap \in [Slots -> Digests]
        /\ orig = snap
        /\ pc = "idle" /\ cur = NoCall /\ everExempt = {}

Call(c) == /\ pc = "idle"
           /\ pc' = "in" /\ cur' = c
           /\ everExempt' = everExempt \cup {p \in Slots : ~Obliged(c, p)}
           /\ UNCHANGED <<snap, orig>>

\* Return and Raise are the same obligation: an exit by exception is no licence to leave debris
Exit(how, post) ==
    /\ pc = "in"
    /\ (Lib = "contract" => Changed(snap, cur, post, post) = {})
    /\ snap' = post /\ pc' = "idle" /\ cur' = NoCall
    /\ UNCHANGED <<orig, everExempt>>

Next == \/ \E c \in Calls : Call(c)
        \/ \E how \in {"Return", "Raise"} : \E post \in [Slots -> Digests] : Exit(how, post)

Spec == Init /\ [][Next]_vars

TypeOK == /\ snap \in [Slots -> Digests] /\ orig \in [Slots -> Digests]
          /\ pc \in {"idle", "in"} /\ everExempt \subseteq Slots

\* a slot that no call of the history was allowed to touch still carries its original digest:
\* mutated `init` / `fixed_modes` can never leak into a later call
NeverExemptNeverChanges == \A p \in Slots \ everExempt : snap[p] = orig[p]

\* each single exit preserves the obliged slots
ExitPreserves == [][pc = "in" /\ pc' = "idle" => \A p \in Slots : Obliged(cur, p) => snap'[p] = snap[p]]_vars

\* exempt slots really may change (the table is not vacuous in the model)
ExemptMayChange == \E p \in Slots : snap[p] # orig[p]
=============================================================================
