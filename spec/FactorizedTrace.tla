--------------------------- MODULE FactorizedTrace ---------------------------
(* C03 trace validation.  One event = one configuration of Factorized's domain, filled with      *)
(* integers in -2..2 by the harness and pushed through the real tensorly functions, as a tuple   *)
(* and as a wrapper object, under both tenalg backends (four "runs").  TLC recomputes the dense  *)
(* tensor the factors represent from the definitions in Factorized.tla and accepts or rejects   *)
(* every view each run returned; for the invalid family it decides from the *logged array shapes *)
(* and projection entries* whether the property obliges a rejection.                            *)
EXTENDS Factorized, Json, IOUtils

Events == ndJsonDeserialize(IOEnv.TRACE_FILE)

VARIABLE i

\* tensorly returns norm = sqrt(sum); the harness logs rint(norm^2 * NormScale) (field q3) and
\* rint(norm^2) (field q0).  All entries are integers, norm^2 is an integer N2 computed exactly by
\* float64 up to a relative error of a few ulp (<< 0.5 / (NormScale * N2) for N2 <= NormCap).
\* fin3 / fin0 say that the value was finite and fitted 31 bits (TLC cannot type-test a string).
NormScale == 1000
NormCap   == 2000000
ValueBound == 4           \* |entry| of every input array (integers in -2..2; numerators of half-integers in -4..4)

RunFields == {"rejected", "raised", "convert", "exact", "dtype", "dense2", "unfn", "dense", "unf", "vec", "shape", "rank", "norm"}
IsLoggedT(T) == /\ {"shape", "data"} \subseteq DOMAIN T
TensOKs(ts) == \A k \in 1..Len(ts) : IsLoggedT(ts[k]) /\ IsTAny(ts[k])
Bounded(T) == \A n \in 1..Len(T.data) : T.data[n] \in (-ValueBound)..ValueBound

WellFormed(e) ==
    /\ {"id", "cfg", "in", "runs"} \subseteq DOMAIN e
    /\ {"op", "fshapes", "wlen", "coreshape", "pshapes", "hasw", "pden", "bad", "skip", "tr", "modes", "mix", "dens", "cden", "imk", "outdtype", "late", "mag", "bfshapes", "wshape", "tmag", "zero", "alldtype", "pnear", "callform", "alias", "vals"} \subseteq DOMAIN e.cfg
    /\ e.cfg.callform \in {"plain", "pos", "kw"} /\ e.cfg.alias \in BOOLEAN /\ e.cfg.vals \in {"plain", "negzero", "subnormal"}
    /\ "aliased" \in DOMAIN e.in /\ \A k \in 1..Len(e.in.aliased) : e.in.aliased[k] \in 1..Len(e.in.fs)
    /\ e.cfg.pnear \in {-1, 0, 1}
    /\ e.cfg.tmag \in -600..600
    /\ e.cfg.late \in BOOLEAN /\ e.cfg.mag \in -600..600
    /\ (e.cfg.late => "base" \in DOMAIN e.in /\ "fs" \in DOMAIN e.in.base /\ TensOKs(e.in.base.fs))
    /\ e.cfg.op \in Kinds
    /\ e.cfg.tr \in BOOLEAN /\ e.cfg.skip \in -1..8 /\ \A j \in 1..Len(e.cfg.modes) : e.cfg.modes[j] \in 0..8
    /\ (HasOpt(e.cfg) => e.cfg.op = "tucker" /\ e.cfg.bad \in {"none", "fcols"})       \* view options exist for Tucker only
    /\ e.cfg.imk \in 0..Len(e.in.fs)
    /\ (e.cfg.imk > 0 => /\ "im" \in DOMAIN e.in /\ IsLoggedT(e.in.im) /\ IsTAny(e.in.im) /\ Bounded(e.in.im)
                         /\ e.in.im.shape = e.in.fs[e.cfg.imk].shape)
    /\ (e.cfg.mix # "none" => e.cfg.bad = "none")
    /\ "fs" \in DOMAIN e.in /\ TensOKs(e.in.fs) /\ \A k \in 1..Len(e.in.fs) : Bounded(e.in.fs[k])
    /\ (e.cfg.op \in {"cp", "p2"} =>
            /\ {"hasw", "w", "wshape"} \subseteq DOMAIN e.in /\ e.in.hasw \in BOOLEAN
            /\ \A k \in 1..Len(e.in.wshape) : e.in.wshape[k] \in Nat
            /\ \A r \in 1..Len(e.in.w) : e.in.w[r] \in (-ValueBound)..ValueBound)
    /\ (e.cfg.op = "cp" => "mask" \in DOMAIN e.in /\ IsLoggedT(e.in.mask) /\ IsTAny(e.in.mask) /\ Bounded(e.in.mask))
    /\ (e.cfg.op = "tucker" => "core" \in DOMAIN e.in /\ IsLoggedT(e.in.core) /\ IsTAny(e.in.core) /\ Bounded(e.in.core))
    /\ (e.cfg.op = "p2" => /\ "ps" \in DOMAIN e.in /\ TensOKs(e.in.ps) /\ \A k \in 1..Len(e.in.ps) : Bounded(e.in.ps[k])
                            /\ "pden" \in DOMAIN e.in /\ e.in.pden \in {1, 2})
    /\ DOMAIN e.runs # {}
    /\ \A k \in DOMAIN e.runs :
          /\ RunFields \subseteq DOMAIN e.runs[k]
          /\ e.runs[k].rejected \in BOOLEAN /\ e.runs[k].raised \in BOOLEAN /\ e.runs[k].exact \in BOOLEAN /\ e.runs[k].convert \in BOOLEAN
          /\ {"has", "fin0", "fin3", "fin6", "q3", "q0", "q6", "iszero"} \subseteq DOMAIN e.runs[k].norm
          /\ "xnorms" \in DOMAIN e.runs[k]
          /\ \A x \in 1..Len(e.runs[k].xnorms) : {"has", "fin0", "fin3", "fin6", "q3", "q0", "q6", "iszero"} \subseteq DOMAIN e.runs[k].xnorms[x]
          /\ (e.cfg.op = "cp" => "masked" \in DOMAIN e.runs[k])
          /\ (e.cfg.op = "ttm" => "matrix" \in DOMAIN e.runs[k])
          /\ (e.cfg.op = "p2" => {"slices", "slice1", "slices_nv", "slice1_nv", "slice1n", "projected"} \subseteq DOMAIN e.runs[k])

\* the harness filled exactly the arrays the exported configuration asked for
InDomain(e) ==
    LET c == e.cfg  in == e.in IN
    /\ [k \in 1..Len(in.fs) |-> in.fs[k].shape] = c.fshapes
    /\ (c.op \in {"cp", "p2"} => in.hasw = c.hasw /\ Len(in.w) = c.wlen /\ in.wshape = c.wshape)
    \* aliased factors are one array: equal contents
    /\ (Len(in.aliased) = 2 => in.fs[in.aliased[1]].shape = in.fs[in.aliased[2]].shape /\ in.fs[in.aliased[1]].data = in.fs[in.aliased[2]].data)
    \* an exactly-zero tensor: some whole part is zero
    /\ (c.zero # "none" =>
            \/ \E k \in 1..Len(in.fs) : \A n \in 1..Len(in.fs[k].data) : in.fs[k].data[n] = 0
            \/ (c.op = "tucker" /\ \A n \in 1..Len(in.core.data) : in.core.data[n] = 0)
            \/ (c.op \in {"cp", "p2"} /\ in.hasw /\ \A r \in 1..Len(in.w) : in.w[r] = 0))
    /\ (c.op = "tucker" => in.core.shape = c.coreshape)
    /\ (c.op = "p2" => [k \in 1..Len(in.ps) |-> in.ps[k].shape] = c.pshapes /\ in.pden = c.pden)
    /\ (c.op = "cp" /\ Valid("cp", in) => in.mask.shape = CPShape(in))
    /\ (c.late => [k \in 1..Len(in.base.fs) |-> in.base.fs[k].shape] = c.bfshapes)     \* the object was built from the exported base

SameT(a, T) == a.shape = T.shape /\ a.data = T.data

Verdict(e) ==
    IF ~WellFormed(e) THEN <<"WellFormed", "-">>
    ELSE IF ~InDomain(e) THEN <<"InDomain", "-">>
    ELSE
    LET kd == e.cfg.op  in == e.in  R == e.runs  keys == DOMAIN e.runs  c == e.cfg
        opt == HasOpt(e.cfg) IN
    IF opt /\ c.bad # "none"
    THEN \* an invalid (core, factors) pair converted UNDER OPTIONS: refused by every conversion, on both backends, iff a
         \* factor that is actually applied does not fit the core
         (IF ~TuckerOptMismatch(in, c.skip, c.tr, c.modes) THEN <<"ok", "-">>
          ELSE LET failing == {k \in keys : ~R[k].rejected} IN
               IF failing # {} THEN <<"InvalidConverted", CHOOSE k \in failing : TRUE>> ELSE <<"ok", "-">>)
    ELSE IF ~opt /\ MustReject(kd, in)
    THEN \* every entry point must refuse: the validator / wrapper constructor runs (reported first) and the
         \* `convert` runs (all conversion functions of the format called on the raw tuple; rejected = all raised)
         LET failing == {k \in keys : ~R[k].rejected}
             prim    == {k \in failing : ~R[k].convert} IN
         IF prim # {} THEN <<"InvalidAccepted", CHOOSE k \in prim : TRUE>>
         ELSE IF failing # {} THEN <<"InvalidConverted", CHOOSE k \in failing : TRUE>>
         ELSE <<"ok", "-">>
    ELSE IF opt /\ ~ValidTuckerOpt(in, c.skip, c.tr, c.modes) THEN <<"InDomain", "-">>
    ELSE IF ~opt /\ ~Valid(kd, in) THEN <<"ok", "-">>     \* malformed in a way the property does not name: no obligation
    ELSE
    \* ONE dense tensor per event -- under Tucker view options the option-dependent one; every logged view
    \* (dense, each unfolding, vec) must be the corresponding view of it.  tucker_to_unfolded / _vec have no
    \* `modes` argument, and shape / rank / norm are reported for the plain factorised tensor only.
    \* Mixed storage types: the logged arrays are integer numerators (results multiplied by PROD dens * cden by the
    \* harness); a complex part a + ib contributes Dense(a) + i Dense(b) (MixAdditive / MixHomogeneous in Factorized).
    LET D  == IF opt THEN TuckerDenseOpt(in, c.skip, c.tr, c.modes) ELSE Dense(kd, in)
        cplx == c.imk > 0
        inI  == [in EXCEPT !.fs[c.imk] = in.im]          \* only used when cplx
        DI   == IF opt THEN TuckerDenseOpt(inI, c.skip, c.tr, c.modes) ELSE Dense(kd, inI)
        \* transpose_factors is the CONJUGATE transpose: the imaginary part of a transposed complex factor changes sign;
        \* a factor that is left out contributes nothing
        isgn  == IF opt /\ c.tr THEN -1 ELSE 1
        izero == opt /\ c.skip = c.imk - 1
        needviews == c.modes = <<>>
        \* after parts were replaced the cached .shape / .rank attributes are stale by design: only the conversions are obliged
        needmeta  == ~opt /\ ~c.late
        neednorm  == ~opt /\ c.mix \in {"none", "f32_all"} /\ ~c.late
        N  == Len(D.shape)
        n2 == Norm2(D)
        \* single precision: squaring the reported norm is exact to a few ulp(float32) ~ 5e-7 relative
        F32Tol == IF c.mix = "f32_all" THEN 1 + (n2 \div 500) ELSE 0
        \* logged tensor x against the exact tensor (real part Tre, imaginary part Tim)
        CV(x, Tre, Tim) == /\ IsLoggedT(x) /\ SameT(x, Tre)
                           /\ (cplx => /\ "im" \in DOMAIN x /\ Len(x.im) = Len(Tim.data)
                                       /\ \A n \in 1..Len(x.im) : x.im[n] = (IF izero THEN 0 ELSE isgn * Tim.data[n]))
        \* (the harness spells the mode / slice index as a Python int or a NumPy integer; in `unfn` / `slice1n` it is
        \*  counted from the back, mode - order / i - I: the same mode, the same slice)
        UnfSeqOK(u) == /\ Len(u) = N
                       /\ \A m \in 0..(N - 1) : CV(u[m + 1], Unfold(D, m), Unfold(DI, m))
        UnfOK(r) == UnfSeqOK(r.unf)
        AbsD(x) == IF x < 0 THEN -x ELSE x
        \* (under a total-magnitude scaling 2^e the harness multiplies the reported norm by 2^-e, exactly, before squaring)
        \* q6 = rint(norm^2 * 10^6): for N2 <= FineCap the comparison resolves 5e-7 / N2 relative (float64 error ~1e-15)
        FineCap == 1900
        OneNormOK(nr) ==
                     \/ ~nr.has
                     \/ /\ (n2 = 0 => nr.iszero)                           \* an exactly-zero tensor has norm exactly 0
                        /\ IF n2 <= FineCap /\ c.mix # "f32_all" THEN nr.fin6 /\ nr.q6 = 1000000 * n2
                           ELSE IF n2 <= NormCap THEN nr.fin3 /\ AbsD(nr.q3 - NormScale * n2) <= NormScale * F32Tol
                           ELSE nr.fin0 /\ AbsD(nr.q0 - n2) <= F32Tol
        \* the norm view, and every other public norm-named method the wrapper exposes (xnorms)
        NormOK(r) == ~neednorm \/ (OneNormOK(r.norm) /\ \A x \in 1..Len(r.xnorms) : OneNormOK(r.xnorms[x]))
        SlicesOK(sl) == /\ Len(sl) = Len(in.ps)
                        /\ \A s \in 1..Len(sl) : CV(sl[s], P2Slice(in, s), P2Slice(inI, s))
        Clause(r) ==
            IF r.rejected THEN "ValidRejected"
            ELSE IF r.raised THEN "Raised"
            ELSE IF ~r.exact THEN "Exact"
            ELSE IF ~IsLoggedT(r.dense) \/ r.dense.shape # D.shape THEN "DenseShape"
            ELSE IF ~CV(r.dense, D, DI) THEN "Dense"
            \* the promoted type of the parts that enter the contraction (a left-out complex factor does not)
            ELSE IF c.mix # "none" /\ r.dtype # (IF cplx /\ izero THEN "float64" ELSE c.outdtype) THEN "Dtype"
            ELSE IF needviews /\ ~UnfOK(r) THEN "Unfolded"
            ELSE IF needviews /\ ~CV(r.vec, Vec(D), Vec(DI)) THEN "Vec"
            ELSE IF kd = "ttm" /\ ~CV(r.matrix, TTMMatrix(in), TTMMatrix(inI)) THEN "Matrix"
            ELSE IF kd = "p2" /\ ~SlicesOK(r.slices) THEN "Slices"
            ELSE IF kd = "p2" /\ ~SlicesOK(r.slice1) THEN "Slice"
            ELSE IF kd = "p2" /\ (~SlicesOK(r.slices_nv) \/ ~SlicesOK(r.slice1_nv)) THEN "SliceNoValidate"
            \* apply_parafac2_projections: the evolving factors B_i = P_i B (checked where the parts are plain integers)
            ELSE IF kd = "p2" /\ c.mix \in {"none", "f32_all"} /\ c.mag = 0 /\ c.tmag = 0 /\ c.pnear = 0
                    /\ ~(/\ Len(r.projected) = Len(in.ps)
                         /\ \A s \in 1..Len(in.ps) : /\ IsLoggedT(r.projected[s]) /\ r.projected[s].shape = <<in.ps[s].shape[1], P2Rank(in)>>
                                                      /\ \A j \in 0..(in.ps[s].shape[1] - 1) : \A q \in 0..(P2Rank(in) - 1) :
                                                            r.projected[s].data[j * P2Rank(in) + q + 1] = P2Bi(in, s, j, q)) THEN "Projected"
            \* the dense conversion repeated AFTER all other views (on the same object in the *_seq runs): the
            \* stored factors must not have been changed by the conversions in between
            ELSE IF ~CV(r.dense2, D, DI) THEN "DenseAgain"
            ELSE IF needmeta /\ r.shape # ShapeOf(kd, in) THEN "Shape"
            ELSE IF needmeta /\ r.rank # RankOf(kd, in) THEN "Rank"
            ELSE IF ~NormOK(r) THEN "Norm"
            \* (index spellings and the mask last, so that a failure there never hides another clause)
            ELSE IF kd = "cp" /\ ~CV(r.masked, Hadamard(D, in.mask), Hadamard(DI, in.mask)) THEN "Masked"
            ELSE IF kd = "p2" /\ ~SlicesOK(r.slice1n) THEN "SliceNeg"
            ELSE IF needviews /\ ~UnfSeqOK(r.unfn) THEN "UnfoldedNeg"
            ELSE "ok"
        \* The runs of one event usually return identical views: the first run is compared with the
        \* specification, a run whose logged views are identical to an accepted run's is accepted
        \* without recomputation (its own norm is still checked); any other run is examined in full.
        k0 == CHOOSE k \in keys : TRUE
        c0 == Clause(R[k0])
        SameViews(r, s) ==
            /\ r.rejected = s.rejected /\ r.raised = s.raised /\ r.exact = s.exact
            /\ r.dense = s.dense /\ r.unf = s.unf /\ r.vec = s.vec /\ r.shape = s.shape /\ r.rank = s.rank
            /\ r.dtype = s.dtype /\ r.dense2 = s.dense2 /\ r.unfn = s.unfn
            /\ (kd = "cp" => r.masked = s.masked) /\ (kd = "ttm" => r.matrix = s.matrix)
            /\ (kd = "p2" => r.slices = s.slices /\ r.slice1 = s.slice1 /\ r.slices_nv = s.slices_nv /\ r.slice1_nv = s.slice1_nv /\ r.slice1n = s.slice1n /\ r.projected = s.projected)
        ClauseOf(k) == IF k = k0 THEN c0
                       ELSE IF c0 = "ok" /\ SameViews(R[k], R[k0]) THEN (IF NormOK(R[k]) THEN "ok" ELSE "Norm")
                       ELSE Clause(R[k])
        bad == {k \in keys : ClauseOf(k) # "ok"}
        \* one run is reported per event: prefer one failing a main clause over one failing only an index-spelling / mask clause
        bad1 == {k \in bad : ClauseOf(k) \notin {"Masked", "SliceNeg", "UnfoldedNeg"}}
    IN  IF bad = {} THEN <<"ok", "-">>
        ELSE LET k == CHOOSE x \in (IF bad1 # {} THEN bad1 ELSE bad) : TRUE IN <<ClauseOf(k), k>>

TraceInit == i = 1 /\ cfg = NoCfg
TraceNext == /\ i <= Len(Events)
             /\ i' = i + 1 /\ UNCHANGED cfg
             /\ LET v == Verdict(Events[i]) IN
                  IF v[1] = "ok" THEN TRUE ELSE PrintT(<<"REJECT", Events[i].id, v[1], v[2]>>)
TraceSpec == TraceInit /\ [][TraceNext]_<<i, cfg>>
TraceAccepted == TLCGet("stats").diameter - 1 = Len(Events)
=============================================================================
