SPECIFICATION Spec
CONSTANTS
  Deviation = "none"
  MaxFail = 2
  MaxLevel = 2
  P2Configs <- P2All
INVARIANT LastErrOwnsIterate
INVARIANT ErrsMonotone
INVARIANT LenLaw
INVARIANT AccLaw
INVARIANT InnerLaw
INVARIANT ExitLaw
INVARIANT NoCrash
PROPERTY Terminates
