SPECIFICATION TraceSpec
CONSTANTS
  Deviations = {}
  MaxCap = 12
  Order = 3
  Prop = "C07"
POSTCONDITION TraceAccepted
CHECK_DEADLOCK FALSE
