------------------------------- MODULE CPALSMC -------------------------------
EXTENDS CPALS
B == BOOLEAN
\* every option combination (callbacks that stop only if a callback is installed); two mode lists (one with a fixed mode)
MCConfigs(cap) == {[cap |-> cap, ls |-> l, tol |-> t, errors |-> e, cb |-> c, cbstops |-> st, modes |-> m] :
                     l \in B, t \in B, e \in B, c \in B, st \in B, m \in {<<0, 1, 2>>, <<1, 2>>}}
AllConfigs == {c \in MCConfigs(8) \cup MCConfigs(3) \cup MCConfigs(0) \cup MCConfigs(1) : c.cbstops => c.cb}
TolLsConfigs == {c \in MCConfigs(8) : c.ls /\ c.tol /\ ~c.cb /\ ~c.cbstops /\ c.modes = <<1, 2>>}
LongConfigs == {c \in MCConfigs(14) : ~c.cbstops /\ c.ls /\ c.modes = <<1, 2>>}
\* witnesses for the two as-found crashes
CrashLine == {[cap |-> 9, ls |-> TRUE, tol |-> FALSE, errors |-> FALSE, cb |-> FALSE, cbstops |-> FALSE, modes |-> <<0, 1, 2>>]}
CrashCb == {[cap |-> 3, ls |-> FALSE, tol |-> FALSE, errors |-> FALSE, cb |-> TRUE, cbstops |-> FALSE, modes |-> <<0, 1, 2>>]}
=============================================================================
