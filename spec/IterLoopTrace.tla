---------------------------- MODULE IterLoopTrace ----------------------------
(* Trace validation for IterLoop: the verbose log of a real tucker / non_negative_tucker / non_negative_tucker_hals /      *)
(* tensor_ring_als / tensor_ring_als_sampled run, line by line, must be a behaviour of IterLoop.  One event per printed      *)
(* line, plus "Call" (configuration, the recorded errors, per iteration whether the stopping rule held -- a floating-point  *)
(* comparison the harness evaluates --) and "Return" / "Raise".  Whole SWEEPS can be silent here (the first two sweeps of    *)
(* the Tucker family print nothing): Adv composes them, checking on the way that no line and no convergence exit was due.   *)
(* Errors are quantised (scale 1e8); laws on them carry the slack Q.                                                         *)
EXTENDS IterLoopMC, Json, IOUtils

Events == ndJsonDeserialize(IOEnv.TRACE_FILE)

VARIABLES i, failed, call
tvars == <<s, i, failed, call>>

Q == 2
IsFin(v) == -2000000000 <= v /\ v <= 2000000000
NoCall == [cfg |-> [alg |-> "tucker", cap |-> 0, tol |-> FALSE, cb |-> FALSE, cbstops |-> FALSE, signed |-> FALSE, maxstag |-> 0],
           errs |-> <<>>, below |-> <<>>, n_errs |-> -1, n_cb |-> 0, cb_true_at |-> -1, improved |-> <<>>]

ErrAt(k) == IF k >= 0 /\ k + 1 <= Len(call.errs) THEN call.errs[k + 1] ELSE 0
BelowAt(k) == k >= 1 /\ k <= Len(call.below) /\ call.below[k]
\* (randomised_parafac) whether the error of sweep k improved on the running minimum: a floating-point comparison, from the harness
ImprovedAt(k) == k + 1 <= Len(call.improved) /\ call.improved[k + 1]
RuleHeld(x) == BelowAt(x.it) \/ Stagnated(x)
ErrFam == TuckerFamily \cup {Rand}

\* the rest of a sweep whose line (if any) is out: callback that does not stop, stopping rule that does not fire
Pass(x) ==
    LET a == IF x.pc = "print" THEN PrintF(x) ELSE x
        b == IF a.pc = "cb" THEN CbF(a, FALSE) ELSE a
        c == IF b.pc = "tol" THEN TolF(b, FALSE) ELSE b
    IN  [st |-> c,
         bad |-> IF x.pc = "print" /\ PrintDue(x) THEN "MissingLine"
                 ELSE IF a.pc = "cb" /\ a.it = call.cb_true_at THEN "CallbackStopIgnored"      \* it returned True after this sweep
                 ELSE IF b.pc = "tol" /\ RuleOn(b) /\ Len(b.errs) >= 2 /\ RuleHeld(b) THEN "MissedConvergence"
                 ELSE "ok"]
\* the sweep up to its callback, if the callback comes first (randomised_parafac) ...
SweepHead(x) == SweepF(StartF(x), 0)
StopDue(z) == z.pc = "cb" /\ CbFirst(z.c.alg) /\ z.it = call.cb_true_at
\* ... and on to the point where its line is due
SweepTail(z) == RecFI(IF z.pc = "cb" THEN CbF(z, FALSE) ELSE z, ErrAt(z.it), ImprovedAt(z.it))
\* up to the next sweep that owes a line, or to the top of the loop with the budget used up
RECURSIVE Adv(_, _)
Adv(x, n) ==
    LET p == Pass(x) IN
    IF p.bad # "ok" \/ n = 0 \/ ~StartOK(p.st) THEN p
    ELSE LET h == SweepHead(p.st) IN
         IF StopDue(h) THEN [st |-> h, bad |-> "ok"]           \* the callback returns True here: the run must end
         ELSE LET z == SweepTail(h) IN
              IF PrintDue(z) THEN [st |-> z, bad |-> "ok"] ELSE Adv(z, n - 1)

LineVerdict(e, fam) ==
    IF s.pc = "done" THEN "LineAfterExit"
    ELSE LET a == Adv(s, s.c.cap + 1) IN
         IF a.bad # "ok" THEN a.bad
         ELSE LET y == a.st IN
              IF StopDue(y) THEN "CallbackStopIgnored"
              ELSE IF ~(y.pc = "print" /\ PrintDue(y)) THEN "LineNotEnabled"
              ELSE IF ~(y.c.alg \in fam) THEN "LineKind"
              ELSE IF fam = CPFamily /\ e.ev = "Err0" /\ y.it # 0 THEN "ErrorLineKind"
              ELSE IF fam = CPFamily /\ e.ev = "ErrK" /\ ~(y.it >= 1 /\ e.k = y.it) THEN "ErrorLineKind"
              ELSE IF fam = RingFamily /\ e.k # y.it + 1 THEN "IterationNumber"
              ELSE IF fam = RingFamily /\ e.has_e # RecordOn(y.c) THEN "ErrorFieldPresence"
              ELSE IF fam = RingFamily /\ e.has_d # (RecordOn(y.c) /\ y.it >= 1) THEN "DecreaseFieldPresence"
              ELSE IF fam = RingFamily /\ ~e.has_e THEN "ok"
              ELSE IF ~IsFin(e.e) THEN "ErrorNotFinite"
              ELSE IF ~(e.e - ErrAt(y.it) \in -Q..Q) THEN "PrintedErrorIsNotTheRecordedOne"
              ELSE IF (fam = ErrFam \/ (fam = RingFamily /\ e.has_d) \/ (fam = CPFamily /\ e.ev = "ErrK")) /\ ~(IsFin(e.d) /\ e.d - (ErrAt(y.it - 1) - ErrAt(y.it)) \in -(2 * Q)..(2 * Q))
                   THEN "PrintedDecrease"
              ELSE "ok"

AfterCb(x) == IF x.pc = "cb" /\ x.it # call.cb_true_at THEN CbF(x, FALSE) ELSE x

LenOK(x) == (RecordOn(x.c) /\ call.n_errs >= 0) => call.n_errs = Len(x.errs)
CbCountOK(x) == call.n_cb = x.ncb

Verdict(e) ==
    IF e.ev = "Err" THEN LineVerdict(e, ErrFam)
    ELSE IF e.ev = "Iter" THEN LineVerdict(e, RingFamily)
    ELSE IF e.ev \in {"Err0", "ErrK"} THEN LineVerdict(e, CPFamily)
    ELSE IF e.ev = "CbExit" THEN
        LET a == IF CbFirst(s.c.alg) /\ s.pc # "done" THEN Adv(s, s.c.cap + 1) ELSE [st |-> s, bad |-> "ok"] IN
        IF a.bad # "ok" THEN a.bad
        ELSE IF ~(a.st.pc = "cb" /\ CbOK(a.st, TRUE)) THEN "CallbackExitNotEnabled"
        ELSE IF a.st.it # call.cb_true_at THEN "CallbackExitWithoutTrue"
        ELSE "ok"
    ELSE IF e.ev = "Conv" THEN
        LET x == AfterCb(s) IN
        IF ~(x.pc = "tol" /\ TolOK(x, TRUE)) THEN "ConvergenceNotEnabled"
        ELSE IF ~(e.fam = (IF x.c.alg \in ErrFam THEN "tucker" ELSE IF x.c.alg \in RingFamily THEN "ring" ELSE "cp")) THEN "LineKind"
        ELSE IF e.k # x.it THEN "IterationNumber"
        ELSE IF ~RuleHeld(x) THEN "ConvergedWithoutMeetingTheRule"
        ELSE "ok"
    ELSE IF e.ev = "Return" THEN
        IF s.pc = "done" THEN (IF ~LenOK(s) THEN "ErrorListLength" ELSE IF ~CbCountOK(s) THEN "CallbackCalls" ELSE "ok")
        \* the silent exit of constrained_parafac: unobservable, accepted wherever the model enables it
        ELSE IF FeasOK(s) THEN (IF ~LenOK(s) THEN "ErrorListLength" ELSE "ok")
        ELSE LET a == Adv(s, s.c.cap + 1) IN
             IF a.bad # "ok" THEN a.bad
             ELSE IF StopDue(a.st) THEN "CallbackStopIgnored"
             ELSE IF a.st.pc = "print" THEN "MissingLine"
             ELSE IF ~CapOK(a.st) THEN "ReturnedBeforeBudgetOrStop"
             ELSE IF ~LenOK(a.st) THEN "ErrorListLength"
             ELSE IF ~CbCountOK(a.st) THEN "CallbackCalls"
             ELSE "ok"
    ELSE IF e.ev = "Raise" THEN "UnexpectedException"
    ELSE "Malformed"

StepTo(e) ==
    CASE e.ev \in {"Err", "Iter", "Err0", "ErrK"} -> PrintF(Adv(s, s.c.cap + 1).st)
      [] e.ev = "CbExit" -> CbF(IF CbFirst(s.c.alg) THEN Adv(s, s.c.cap + 1).st ELSE s, TRUE)
      [] e.ev = "Conv" -> TolF(AfterCb(s), TRUE)
      [] e.ev = "Return" -> IF s.pc = "done" THEN s ELSE IF FeasOK(s) THEN FeasF(s) ELSE CapF(Adv(s, s.c.cap + 1).st)

ValidCfg(c) == /\ c.alg \in Algs /\ c.cap \in 0..400 /\ c.tol \in BOOLEAN /\ c.cb \in BOOLEAN /\ c.cbstops \in BOOLEAN
               /\ c.signed \in BOOLEAN /\ c.maxstag \in 0..100 /\ FamilyOK(c)

TraceInit == /\ s = InitS(NoCall.cfg, 0) /\ i = 1 /\ failed = FALSE /\ call = NoCall

TraceNext ==
    /\ i <= Len(Events)
    /\ i' = i + 1
    /\ LET e == Events[i] IN
         IF e.ev = "Call" THEN
             IF ValidCfg(e.cfg)
               THEN /\ s' = InitS(e.cfg, 0) /\ call' = e /\ failed' = FALSE
               ELSE /\ PrintT(<<"REJECT", e.id, "InDomain">>)
                    /\ failed' = TRUE /\ UNCHANGED <<s, call>>
         ELSE IF failed THEN UNCHANGED <<s, failed, call>>
         ELSE LET v == Verdict(e) IN
             IF v = "ok"
               THEN /\ s' = StepTo(e) /\ failed' = FALSE /\ call' = call
               ELSE /\ PrintT(<<"REJECT", e.id, v>>)
                    /\ failed' = TRUE /\ UNCHANGED <<s, call>>

TraceSpec == TraceInit /\ [][TraceNext]_tvars
\* the laws of the design model that do not speak about levels hold along every recorded run as well
TraceLenLaw == failed \/ LenLaw
TraceBudget == failed \/ Budget
TraceMinSweeps == failed \/ MinSweeps
TraceZeroBudget == failed \/ ZeroBudget
TraceCbCalls == failed \/ CbCalls
TraceStagLaw == failed \/ (s.c.alg = Rand /\ RecordOn(s.c)) => s.stag <= Len(s.errs)
TraceAccepted == TLCGet("stats").diameter - 1 = Len(Events)
=============================================================================
