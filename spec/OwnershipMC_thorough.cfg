SPECIFICATION Spec
CONSTANTS
  Slots <- MCSlotsThorough
  Digests = {1, 2}
  Calls <- MCCalls
  Lib = "contract"
INVARIANT TypeOK
INVARIANT NeverExemptNeverChanges
PROPERTY ExitPreserves
