SPECIFICATION Spec
CONSTANTS
  MaxFail = 1
  MaxLevel = 7
  Guarded = TRUE
  Configs <- TolLsConfigs
INVARIANT TypeOK
INVARIANT ErrsMonotone
INVARIANT LenLaw
INVARIANT AccLaw
INVARIANT SavedLaw
INVARIANT ExitLaw
INVARIANT NoCrash
PROPERTY Terminates
