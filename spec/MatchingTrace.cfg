SPECIFICATION TraceSpec
CONSTANTS
  FullPermR = 6
  MaxR = 6
  GenDraws = 1000
  MetricDraws = 1000
  LevMaxCols = 4
  LevDraws = 1000
POSTCONDITION TraceAccepted
CHECK_DEADLOCK FALSE
