------------------------------- MODULE Struct -------------------------------
(* Rank validation and output structure of the SVD-based decompositions (part of C08):              *)
(* requested (validated) ranks as integer functions of the input shape, the boundary conditions of  *)
(* each format, and the running clip of TT-SVD on a generic (full-rank) tensor.                     *)
EXTENDS Tens, TLC

CONSTANTS MaxOrder, MaxDim, MaxReq, MaxTRReq

MinI(a, b) == IF a <= b THEN a ELSE b
Min3(a, b, c) == MinI(a, MinI(b, c))

\* request vector of a TT decomposition: an int means the same rank for every internal bond
TTReq(kind, req, N) == IF kind = "int" THEN [k \in 1..(N + 1) |-> IF k = 1 \/ k = N + 1 THEN 1 ELSE req[1]] ELSE req

\* TT-SVD on a generic tensor: bond k is the smaller of the unfolding's two dimensions and the request
TTSVDRanks(shape, reqv) ==
    LET N == Len(shape)
        R[k \in 0..N] ==
            IF k = 0 THEN 1
            ELSE IF k = N THEN 1
            ELSE Min3(R[k - 1] * shape[k], ProdSeq(SubSeq(shape, k + 1, N)), reqv[k + 1])
    IN  [k \in 1..(N + 1) |-> R[k - 1]]

\* exact TT ranks of a generic tensor (no request): min of the two sides of each sequential unfolding
FullTTRanks(shape) ==
    LET N == Len(shape) IN
    [k \in 1..(N + 1) |-> IF k = 1 \/ k = N + 1 THEN 1
                          ELSE MinI(ProdSeq(SubSeq(shape, 1, k - 1)), ProdSeq(SubSeq(shape, k, N)))]

NParamTT(shape, r) == SumSeq([k \in 1..Len(shape) |-> r[k] * shape[k] * r[k + 1]])

\* ---- TR-SVD (tensor_ring) on a generic tensor, first matricisation along `mode` (0-based), request reqv (N+1 bonds,
\* reqv[1] = reqv[N+1]).  The routine works on the modes rotated so that `mode` comes first; the first core takes the
\* bonds r0 x r1 from ONE truncated SVD (feasible iff r0*r1 fits the first unfolding -- otherwise the documented
\* ValueError); every later bond is the request clipped by both sides of the running unfolding.
Rot(q, m) == [k \in 1..Len(q) |-> q[((k - 1 + m) % Len(q)) + 1]]                  \* q[m:] + q[:m]
TRRotReq(reqv, m) == LET N == Len(reqv) - 1 IN [k \in 1..(N + 1) |-> reqv[((k - 1 + m) % N) + 1]]   \* rank[m:-1] + rank[:m+1]
TRFeasible(shape, m, reqv) ==
    LET sh == Rot(shape, m)  rq == TRRotReq(reqv, m) IN
    rq[1] * rq[2] <= MinI(sh[1], ProdSeq(SubSeq(sh, 2, Len(sh))))
TRSVDRanks(shape, m, reqv) ==
    LET N  == Len(shape)
        sh == Rot(shape, m)
        rq == TRRotReq(reqv, m)
        R[k \in 1..N] ==                      \* bond in front of rotated core k
            IF k = 1 THEN rq[1]
            ELSE IF k = 2 THEN rq[2]
            ELSE Min3(R[k - 1] * sh[k - 1], ProdSeq(SubSeq(sh, k, N)) * rq[1], rq[k])
        rot == [k \in 1..N |-> R[k]]
    IN  [b \in 1..(N + 1) |-> rot[((b - 1 - m + N) % N) + 1]]         \* rotate back; the ring closes: bond N+1 = bond 1

\* ---- structure predicates on logged factor shapes (fshapes[k] = <<r_k, s_k, r_{k+1}>>)
ChainOK(shape, fs) ==
    /\ Len(fs) = Len(shape)
    /\ \A k \in 1..Len(fs) : Len(fs[k]) = 3 /\ fs[k][2] = shape[k] /\ fs[k][1] >= 1 /\ fs[k][3] >= 1
    /\ \A k \in 1..(Len(fs) - 1) : fs[k][3] = fs[k + 1][1]
TTBoundaryOK(fs) == fs[1][1] = 1 /\ fs[Len(fs)][3] = 1
TRBoundaryOK(fs) == fs[1][1] = fs[Len(fs)][3]
RanksOf(fs) == [k \in 1..(Len(fs) + 1) |-> IF k <= Len(fs) THEN fs[k][1] ELSE fs[Len(fs)][3]]

----------------------------------------------------------------------------
(* Theorems about the specification, checked by TLC over all shapes / int requests in the bounds.   *)
Shapes == UNION {[1..n -> 1..MaxDim] : n \in 2..MaxOrder}

VARIABLE cfg
NoCfg == [kind |-> "none"]
Init == cfg \in {[kind |-> "shape", shape |-> s] : s \in Shapes}
Next == cfg.kind = "shape" /\ cfg' \in {[kind |-> "int", shape |-> cfg.shape, req |-> <<r>>] : r \in 1..MaxReq}
                                    \cup {[kind |-> "tr", shape |-> cfg.shape, mode |-> m, req |-> rq \o <<rq[1]>>] :
                                             m \in 0..(Len(cfg.shape) - 1), rq \in [1..Len(cfg.shape) -> 1..MaxTRReq]}
Spec == Init /\ [][Next]_cfg

\* TR-SVD theorems: on every feasible request the computed bonds close the ring, chain, never exceed the request,
\* keep the two bonds of the first core as requested, and every core's bond is bounded by what its unfolding can carry
TRSpecOK ==
    (cfg.kind = "tr" /\ Len(cfg.shape) >= 3 /\ TRFeasible(cfg.shape, cfg.mode, cfg.req)) =>
        LET N == Len(cfg.shape)
            r == TRSVDRanks(cfg.shape, cfg.mode, cfg.req)
            fs == [k \in 1..N |-> <<r[k], cfg.shape[k], r[k + 1]>>] IN
        /\ ChainOK(cfg.shape, fs) /\ TRBoundaryOK(fs) /\ RanksOf(fs) = r
        /\ \A b \in 1..(N + 1) : r[b] >= 1 /\ r[b] <= cfg.req[b]
        /\ r[cfg.mode + 1] = cfg.req[cfg.mode + 1] /\ r[cfg.mode + 2] = cfg.req[cfg.mode + 2]
        \* a core after the first cannot create rank (in sweep order, up to the last core, which closes the ring)
        /\ \A j \in 2..(N - 1) : LET b == ((cfg.mode + j - 1) % N) + 1 IN r[(b % N) + 1] <= r[b] * cfg.shape[b]

SpecOK ==
    cfg.kind = "int" =>
        LET N == Len(cfg.shape)
            rq == TTReq("int", cfg.req, N)
            r  == TTSVDRanks(cfg.shape, rq)
            fs == [k \in 1..N |-> <<r[k], cfg.shape[k], r[k + 1]>>] IN
        /\ \A k \in 1..(N + 1) : r[k] <= rq[k] /\ r[k] >= 1 /\ r[k] <= FullTTRanks(cfg.shape)[k]
        /\ ChainOK(cfg.shape, fs) /\ TTBoundaryOK(fs) /\ RanksOf(fs) = r
        /\ (cfg.req[1] >= MaxDim * MaxDim * MaxDim => r = FullTTRanks(cfg.shape))     \* large requests: exact ranks
        /\ (cfg.req[1] < MaxReq =>                                            \* monotone in the request
               \A k \in 1..(N + 1) : r[k] <= TTSVDRanks(cfg.shape, TTReq("int", <<cfg.req[1] + 1>>, N))[k])
        /\ NParamTT(cfg.shape, r) >= SumSeq(cfg.shape) - (IF N > 0 THEN 0 ELSE 0)   \* at least one number per fibre
=============================================================================
