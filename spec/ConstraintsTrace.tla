-------------------------- MODULE ConstraintsTrace --------------------------
(* C11 trace validation.  Two kinds of independent events, both carrying the user's constraint    *)
(* specification (n, items) exactly as enumerated by Constraints.tla:                             *)
(*  op = "map": vc[m+1] = outcome of the real validate_constraints(..., n_const=n, order=m)       *)
(*              (raised / kind / par), cp = outcome of constrained_parafac (1 outer, 1 inner      *)
(*              iteration) on a tiny signed tensor.                                               *)
(*  op = "run": constrained_parafac (function or ConstrainedCP wrapper, e.run.via) on generated    *)
(*              data with the run parameters e.run, including fixed_modes = e.run.fixed; the       *)
(*              harness logs measurements of every returned factor (see Constraints.tla).         *)
(*  op = "prox": one call proximal_operator(v, <spec>, n_const=n, order=mode) on a matrix scaled by  *)
(*              2^scale in float64 / float32; the output is measured like a factor.                *)
(* Runs may be members of a SEQUENCE executed back to back in one process (same keywords and       *)
(* modes, different parameters): every event is still judged by its own specification only.        *)
(* The per-mode (kind, parameter) that must hold is computed HERE, by Assign, from the user's     *)
(* specification -- never taken from the implementation's tables.                                 *)
EXTENDS Constraints, Json, IOUtils

Events == ndJsonDeserialize(IOEnv.TRACE_FILE)

VARIABLE i

LeastOf(S) == CHOOSE m \in S : \A k \in S : m <= k

\* ---- shape checks so that the verdict is total
VcShapeOK(e) == /\ Len(e.vc) = e.n
                /\ \A j \in 1..e.n : e.vc[j].raised \in BOOLEAN
FactorShapeOK(e) ==
    /\ Len(e.factors) = e.n
    /\ \A m \in 1..e.n :
         LET F == e.factors[m] IN
         /\ F.rows = e.run.shape[m] /\ Len(F.cols) = e.run.rank
         /\ F.finite \in BOOLEAN
         /\ \A c \in 1..Len(F.cols) : Len(F.cols[c].diffs) = F.rows - 1

\* measurements of the caller's start (same record as a factor); <<>> for built-in starts
StartShapeOK(e) ==
    IF BuiltinInit(e.run) THEN TRUE
    ELSE /\ Len(e.start) = e.n
         /\ \A m \in 1..e.n :
              LET F == e.start[m] IN
              /\ F.rows = e.run.shape[m] /\ Len(F.cols) = e.run.rank /\ F.finite \in BOOLEAN
              /\ \A c \in 1..Len(F.cols) : Len(F.cols[c].diffs) = F.rows - 1

MapVerdict(e) ==
    LET n == e.n
        items == e.items IN
    IF ~(n \in Orders /\ ValidSpec(n, items) /\ e.form \in CallForms) THEN <<"InDomain", -1>>
    ELSE IF ~VcShapeOK(e) THEN <<"Malformed", -1>>
    ELSE IF Rejected(n, items) THEN
         \* two constraints on one mode: an error, from the validator and from the decomposition
         IF \E j \in 1..n : ~e.vc[j].raised THEN <<"MustReject", LeastOf({j \in 1..n : ~e.vc[j].raised}) - 1>>
         ELSE IF ~e.cp.raised \/ e.cp.exc \in NumericFailure THEN <<"DecompMustReject", -1>>
         ELSE <<"ok", -1>>
    ELSE LET A   == Assign(n, items)
             req == Requested(n, items)
             badk == {m \in req : e.vc[m + 1].kind # A[m].kind}
             badp == {m \in req : e.vc[m + 1].par # A[m].par} IN
         IF \E j \in 1..n : e.vc[j].raised THEN <<"ValidateRaised", LeastOf({j \in 1..n : e.vc[j].raised}) - 1>>
         \* obligations only on the modes the user asked for (over-constraining is not forbidden)
         ELSE IF badk # {} THEN <<"AssignedKind", LeastOf(badk)>>
         ELSE IF badp # {} THEN <<"AssignedPar", LeastOf(badp)>>
         ELSE IF e.cp.raised /\ e.cp.exc \notin NumericFailure THEN <<"DecompRaised", -1>>
         ELSE <<"ok", -1>>

(* A returned factor that is (numerically) the ZERO matrix -- a penalised mode shrunk away by its l1 / l2   *)
(* prox -- makes the normal equations of every other mode singular (the Hadamard product of the Grams is  *)
(* 0).  float64 then raises LinAlgError (NumericFailure, nothing returned); float32 solves the same      *)
(* singular system silently into inf / NaN.  It is one and the same numerical break-down: a non-finite    *)
(* factor next to a collapsed one carries no obligation (finite factors still do).                        *)
CollapsedModel(e) == \E m \in 1..Len(e.factors) : e.factors[m].finite /\ e.factors[m].fro = 0

RunVerdict(e) ==
    LET n == e.n
        items == e.items IN
    IF ~(n \in Orders /\ ValidSpec(n, items) /\ ValidRun(n, e.run)) THEN <<"InDomain", -1>>
    ELSE IF Rejected(n, items) THEN (IF e.raised /\ e.exc \notin NumericFailure THEN <<"ok", -1>> ELSE <<"DecompMustReject", -1>>)
    ELSE IF e.raised THEN
         \* the property speaks about returned factors; a numerical break-down returns nothing
         (IF e.exc \in NumericFailure THEN <<"ok", -1>> ELSE <<"DecompRaised", -1>>)
    ELSE IF ~FactorShapeOK(e) THEN <<"Shape", -1>>
    ELSE IF ~StartShapeOK(e) THEN <<"StartShape", -1>>
    ELSE LET A    == Assign(n, items)
             obl  == ObligedModes(n, items, e.run)
             nomeas == {m \in obl : ~MeasOK(A[m].kind, e.factors[m + 1])}
             bad  == {m \in obl \ nomeas : ~FeasibleT(A[m].kind, A[m].par, e.factors[m + 1], TolOf(e.run.dtype))}
             \* returned as supplied: a supplied factor that was feasible (judged here, on e.start) stays feasible
             kept == {m \in KeptModes(n, items, e.run) : /\ MeasOK(A[m].kind, e.start[m + 1])
                                                        /\ FeasibleT(A[m].kind, A[m].par, e.start[m + 1], TolOf(e.run.dtype))}
             lost == {m \in kept : ~(/\ MeasOK(A[m].kind, e.factors[m + 1])
                                     /\ FeasibleT(A[m].kind, A[m].par, e.factors[m + 1], TolOf(e.run.dtype)))} IN
         IF nomeas # {} /\ ~UnderflowRegime(e.run) /\ ~CollapsedModel(e) THEN <<"Finite", LeastOf(nomeas)>>
         ELSE IF bad # {} THEN <<ClauseOf(A[LeastOf(bad)].kind), LeastOf(bad)>>
         ELSE IF lost # {} THEN <<"SuppliedFeasibleLost", LeastOf(lost)>>
         ELSE <<"ok", -1>>

\* one call of the real proximal_operator with the user's specification for mode e.run.mode
ProxVerdict(e) ==
    LET n == e.n
        items == e.items IN
    IF ~(n \in Orders /\ ValidSpec(n, items) /\ ValidProx(n, e.run)) THEN <<"InDomain", -1>>
    ELSE IF Rejected(n, items) THEN (IF e.raised THEN <<"ok", -1>> ELSE <<"MustReject", e.run.mode>>)
    ELSE IF e.raised THEN <<"ProxRaised", e.run.mode>>
    ELSE LET F == e.factor
             kp == Assign(n, items)[e.run.mode] IN
         IF ~(/\ F.rows = e.run.rows /\ Len(F.cols) = e.run.cols /\ F.finite \in BOOLEAN
              /\ \A c \in 1..Len(F.cols) : Len(F.cols[c].diffs) = F.rows - 1) THEN <<"Shape", e.run.mode>>
         ELSE IF kp.kind \notin HardKinds THEN <<"ok", -1>>
         ELSE IF ~MeasOK(kp.kind, F) THEN <<"Finite", e.run.mode>>
         ELSE IF ~FeasibleT(kp.kind, kp.par, F, TolOf(e.run.dtype)) THEN <<ClauseOf(kp.kind), e.run.mode>>
         ELSE <<"ok", -1>>

Verdict(e) == IF e.op = "map" THEN MapVerdict(e)
              ELSE IF e.op = "run" THEN RunVerdict(e)
              ELSE IF e.op = "prox" THEN ProxVerdict(e)
              ELSE <<"UnknownOp", -1>>

TraceInit == i = 1 /\ cfg = NoCfg
TraceNext == /\ i <= Len(Events)
             /\ i' = i + 1 /\ UNCHANGED cfg
             /\ LET v == Verdict(Events[i]) IN
                  IF v[1] = "ok" THEN TRUE ELSE PrintT(<<"REJECT", Events[i].id, v[1], v[2]>>)
TraceSpec == TraceInit /\ [][TraceNext]_<<i, cfg>>
TraceAccepted == TLCGet("stats").diameter - 1 = Len(Events)
=============================================================================
