SPECIFICATION Spec
INVARIANT SpecOK
