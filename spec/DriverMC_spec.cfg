SPECIFICATION Spec
CONSTANTS
  Deviations = {}
  MaxCap = 12
  Order = 3
INVARIANT TypeOK
INVARIANT LastErrOwnsReturned
INVARIANT OwnersIncreasing
INVARIANT CallbackFresh
INVARIANT CanonAtReturn
INVARIANT FixedUntouched
INVARIANT ZeroBudgetReturnsInit
INVARIANT AllFixedReturnsInit
INVARIANT ErrsLenLaw
INVARIANT LenSetSound
INVARIANT LenSetTight
