SPECIFICATION Spec
CONSTANTS
  Threads = {"t0", "t1", "t2"}
  Main = "t0"
  Mgrs <- MCMgrs
  Names <- MCNames2
  Default <- MCDefault
  BadNames <- MCBad1
  MaxDepth = 2
  MaxOps = 4
  WithModes = FALSE
  Atomic = FALSE
  ExitFlavour = "entered"
CONSTRAINT Bounded
INVARIANT TypeOK
INVARIANT GetIsLastSelected
INVARIANT SharedIsSomeSelection
PROPERTY LocalNoInterference
PROPERTY OwnSlotOnly
PROPERTY ExitRestores
PROPERTY RejectedNoChange
PROPERTY ManagersIndependent
