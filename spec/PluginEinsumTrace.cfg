SPECIFICATION TraceSpec
CONSTANTS
  Threads = {"t0", "t1", "t2"}
  Main = "t0"
  Names <- MCNames
  Default = "numpy"
  PrevScope = "global"
  MaxOps = 1000000
INVARIANT TypeOK
INVARIANT OptTakesEffect
PROPERTY SelectKeepsPlugins
PROPERTY PluginsKeepSelection
POSTCONDITION TraceAccepted
CHECK_DEADLOCK FALSE
