--------------------------- MODULE BackendStackMC ---------------------------
EXTENDS BackendStack
MCMgrs     == {"be", "ta"}
MCNames3   == [be |-> {"numpy", "jax", "cupy"}, ta |-> {"core", "einsum"}]
MCNames2   == [be |-> {"numpy", "jax"}, ta |-> {"core", "einsum"}]
MCDefault  == [be |-> "numpy", ta |-> "core"]
MCBad      == [be |-> {"nope", "pytorch", "einsum", "core"}, ta |-> {"nope", "numpy", "jax"}]
MCBad1     == [be |-> {"nope"}, ta |-> {"nope"}]
GraphView == <<S, pc>>
=============================================================================
