--------------------------- MODULE BackendStackMC ---------------------------
EXTENDS BackendStack
MCMgrs     == {"be", "ta"}
MCNames3   == [be |-> {"numpy", "jax", "cupy"}, ta |-> {"core", "einsum"}]
MCNames2   == [be |-> {"numpy", "jax"}, ta |-> {"core", "einsum"}]
MCDefault  == [be |-> "numpy", ta |-> "core"]
MCBad      == [be |-> {"nope", "pytorch", "einsum", "core"}, ta |-> {"nope", "numpy", "jax"}]
MCBad1     == [be |-> {"nope"}, ta |-> {"nope"}]
\* a backend may also be selected by INSTANCE (documented: `backend : tensorly.Backend or str`): "<name>_alt" stands for a second,
\* unregistered instance of the same backend class -- it reports the same name and runs the same functions, but it is another object
MCNames3alt == [be |-> {"numpy", "jax", "cupy", "numpy_alt", "jax_alt"}, ta |-> {"core", "einsum", "einsum_alt"}]
AltBase == [numpy_alt |-> "numpy", jax_alt |-> "jax", einsum_alt |-> "einsum"]
NameOf(b) == IF b \in DOMAIN AltBase THEN AltBase[b] ELSE b
GraphView == <<S, pc>>
=============================================================================
