------------------------- MODULE PluginEinsumInd -------------------------
(* Inductive proof (Apalache) for the REPAIRED scope of PluginEinsum.tla (one saved einsum per backend):            *)
(* IndInv is inductive, holds initially and implies the three documented promises -- for behaviours of ANY length,   *)
(* whereas TLC explores them up to MaxOps operations.  Same actions as PluginEinsum.tla with PrevScope = "per_backend" *)
(* (typed copy: Apalache needs type annotations and no CONSTANT-dependent function domains).                         *)
EXTENDS Integers

Threads == {"t0", "t1", "t2"}
Names == {"numpy", "jax", "cupy"}
Default == "numpy"
Main == "t0"
None == "none"
Cached == "cached"

VARIABLES
  \* @type: Str;
  glob,
  \* @type: Str -> Str;
  loc,
  \* @type: Str -> Str;
  ein,
  \* @type: Str -> Str;
  prev,
  \* @type: { op: Str, b: Str };
  last

Get(t) == IF loc[t] /= None THEN loc[t] ELSE glob

Init ==
  /\ glob = Default
  /\ loc = [t \in Threads |-> IF t = Main THEN Default ELSE None]
  /\ ein = [b \in Names |-> b]
  /\ prev = [b \in Names |-> None]
  /\ last = [op |-> None, b |-> None]

Select(t, b, local) ==
  /\ glob' = IF local THEN glob ELSE b
  /\ loc' = [loc EXCEPT ![t] = b]
  /\ UNCHANGED <<ein, prev>>
  /\ last' = [op |-> "Select", b |-> b]

UseOpt(t) ==
  LET b == Get(t) IN
  /\ prev' = [prev EXCEPT ![b] = IF prev[b] = None THEN ein[b] ELSE prev[b]]
  /\ ein' = [ein EXCEPT ![b] = Cached]
  /\ UNCHANGED <<glob, loc>>
  /\ last' = [op |-> "Opt", b |-> b]

UseDefault(t) ==
  LET b == Get(t) IN
  /\ ein' = IF prev[b] /= None THEN [ein EXCEPT ![b] = prev[b]] ELSE ein
  /\ prev' = [prev EXCEPT ![b] = None]
  /\ UNCHANGED <<glob, loc>>
  /\ last' = [op |-> "Default", b |-> b]

Next ==
  \E t \in Threads :
    \/ \E b \in Names : \E local \in BOOLEAN : Select(t, b, local)
    \/ UseOpt(t)
    \/ UseDefault(t)

\* ---- the inductive invariant
TypeOK ==
  /\ glob \in Names
  /\ loc \in [Threads -> Names \union {None}]
  /\ ein \in [Names -> Names \union {Cached}]
  /\ prev \in [Names -> Names \union {Cached, None}]
  /\ last \in [op : {None, "Select", "Opt", "Default"}, b : Names \union {None}]

IndInv ==
  /\ TypeOK
  /\ \A b \in Names :
       /\ ein[b] \in {b, Cached}
       /\ prev[b] \in {None, b}
       /\ (prev[b] = None) <=> (ein[b] = b)
  /\ (last.op = "Default" => (last.b \in Names /\ ein[last.b] = last.b))
  /\ (last.op = "Opt" => (last.b \in Names /\ ein[last.b] = Cached))

\* ---- the documented promises (PluginEinsum.tla)
RevertIsOriginal == last.op = "Default" => ein[last.b] = last.b
NoForeignEinsum == \A b \in Names : ein[b] \in {b, Cached}
SavedIsAnOriginal == \A b \in Names : prev[b] /= Cached
Promises == RevertIsOriginal /\ NoForeignEinsum /\ SavedIsAnOriginal
=============================================================================
