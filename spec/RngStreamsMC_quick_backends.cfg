SPECIFICATION Spec
CONSTANTS
  Seeds <- MCSeeds
  Gens <- MCGens
  GenSeed <- MCTwins
  Entries <- MCEntries
  Random <- MCRandom
  Seedable <- MCSeedRand
  Backends <- MCBackends
  InitBackend = "core"
  Objs <- MCNoObjs
  ObjSeed <- MCObjSeed
  ObjEntries <- MCSeedRand
  MaxOps = 5
  Variant = "spec"
INVARIANT TypeOK
INVARIANT SameSeedSameResult
INVARIANT TwinGeneratorsAgree
INVARIANT DeterministicNoSeed
INVARIANT ReseedReproducible
PROPERTY IntSeedLeavesGlobal
PROPERTY SwitchLeavesStreams
PROPERTY ObjSeedLeavesGlobal
PROPERTY IntSeedLeavesGenerators
PROPERTY GenCallOwnStreamOnly
