----------------------------- MODULE IterLoopMC -----------------------------
EXTENDS IterLoop
AllLConfigs == {c \in [alg : Algs, cap : 0..4, tol : BOOLEAN, cb : BOOLEAN, cbstops : BOOLEAN] :
                   /\ (c.cbstops => c.cb)
                   /\ (c.alg \in TuckerFamily => ~c.cb)}
LongLConfigs == {c \in [alg : Algs, cap : {7}, tol : {TRUE}, cb : BOOLEAN, cbstops : BOOLEAN] :
                   /\ (c.cbstops => c.cb) /\ (c.alg \in TuckerFamily => ~c.cb)}
NoLConfigs == {[alg |-> "tucker", cap |-> 0, tol |-> FALSE, cb |-> FALSE, cbstops |-> FALSE]}
=============================================================================
