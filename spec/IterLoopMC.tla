----------------------------- MODULE IterLoopMC -----------------------------
EXTENDS IterLoop
AllLConfigs == {c \in [alg : Algs, cap : 0..4, tol : BOOLEAN, cb : BOOLEAN, cbstops : BOOLEAN, signed : BOOLEAN] : FamilyOK(c)}
LongLConfigs == {c \in [alg : Algs, cap : {7}, tol : {TRUE}, cb : BOOLEAN, cbstops : BOOLEAN, signed : BOOLEAN] : FamilyOK(c)}
NoLConfigs == {[alg |-> "tucker", cap |-> 0, tol |-> FALSE, cb |-> FALSE, cbstops |-> FALSE, signed |-> FALSE]}
=============================================================================
