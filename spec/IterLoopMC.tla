----------------------------- MODULE IterLoopMC -----------------------------
EXTENDS IterLoop
AllLConfigs == {c \in [alg : Algs, cap : 0..4, tol : BOOLEAN, cb : BOOLEAN, cbstops : BOOLEAN, signed : BOOLEAN, maxstag : 0..1] : FamilyOK(c)}
LongLConfigs == {c \in [alg : Algs, cap : {7}, tol : BOOLEAN, cb : BOOLEAN, cbstops : BOOLEAN, signed : BOOLEAN, maxstag : 0..2] :
                    FamilyOK(c) /\ (c.tol \/ c.alg = Rand)}
NoLConfigs == {[alg |-> "tucker", cap |-> 0, tol |-> FALSE, cb |-> FALSE, cbstops |-> FALSE, signed |-> FALSE, maxstag |-> 0]}
=============================================================================
