SPECIFICATION TraceSpec
CONSTANTS
  Wide = TRUE
  BoxMax = 0
POSTCONDITION TraceAccepted
CHECK_DEADLOCK FALSE
