SPECIFICATION TraceSpec
CONSTANTS
  Seeds <- MCSeeds
  Gens <- MCGens
  GenSeed <- MCTwins
  Entries <- MCEntries
  Random <- MCRandom
  Seedable <- MCSeedRand
  MaxOps = 1000000
  Variant = "spec"
INVARIANT BindFunctional
INVARIANT MemoFunctional
POSTCONDITION TraceAccepted
CHECK_DEADLOCK FALSE
