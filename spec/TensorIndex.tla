---------------------------- MODULE TensorIndex ----------------------------
(* C01: unfold / partial unfold / vectorise / matricize as index maps derived from the           *)
(* documented layouts (not from the implementation).  Every operation is                        *)
(*     out = Reshape(Transpose(T, Perm(cfg)), OutShape(cfg))                                    *)
(* i.e. it only re-arranges entries; the matching fold is specified independently in gather     *)
(* form so that "fold o unfold = id" is a theorem TLC checks, not a definition.                 *)
(* Modes are 0-based in configurations (as in the Python API); sequences are 1-based.           *)
EXTENDS Tens, TLC

CONSTANTS MaxOrder, MaxDim, MaxSize,
          WithEmpty,      \* TRUE: include the tensors with a zero-length mode
          HighOrders      \* orders of the additional all-twos tensors (order 9 and up: a regime of its own for index code)

Shapes == {s \in UNION {[1..n -> 1..MaxDim] : n \in 1..MaxOrder} : Size(s) <= MaxSize}

\* all orderings of a finite set, as sequences
RECURSIVE Orderings(_)
Orderings(S) == IF S = {} THEN {<<>>}
                ELSE UNION {{<<x>> \o r : r \in Orderings(S \ {x})} : x \in S}

Modes(shape) == 0..(Len(shape) - 1)

Cfgs(shape) ==
    LET N == Len(shape) IN
         {[op |-> "unfold", shape |-> shape, mode |-> m] : m \in Modes(shape)}
    \cup {[op |-> "vec", shape |-> shape]}
    \cup {[op |-> "partial_unfold", shape |-> shape, mode |-> m, sb |-> sb, se |-> se, ravel |-> r] :
             sb \in 0..(N - 1), se \in 0..(N - 1), m \in 0..(N - 1), r \in BOOLEAN}
    \cup {[op |-> "partial_vec", shape |-> shape, sb |-> sb, se |-> se] : sb \in 0..(N - 1), se \in 0..(N - 1)}
    \cup UNION {UNION {
             {[op |-> "matricize", shape |-> shape, rows |-> rw, cols |-> cl, colsgiven |-> TRUE] :
                   cl \in Orderings(Modes(shape) \ R)}
             \cup {[op |-> "matricize", shape |-> shape, rows |-> rw,
                    cols |-> SortedSeq(Modes(shape) \ R), colsgiven |-> FALSE]}
             : rw \in Orderings(R)} : R \in (SUBSET Modes(shape)) \ {{}}}

NoDup(s) == Cardinality(SeqRange(s)) = Len(s)

ValidCfg(c) ==
    LET N == Len(c.shape) IN
    CASE c.op = "unfold" -> c.mode \in Modes(c.shape)
      [] c.op = "vec" -> TRUE
      [] c.op = "partial_unfold" -> /\ c.sb \in 0..(N - 1) /\ c.se \in 0..(N - 1) /\ c.mode \in 0..(N - 1)
                                    /\ c.ravel \in BOOLEAN
                                    /\ c.sb + c.se < N /\ c.mode < N - c.sb - c.se
      [] c.op = "partial_vec" -> c.sb \in 0..(N - 1) /\ c.se \in 0..(N - 1) /\ c.sb + c.se < N
      [] c.op = "matricize" -> /\ NoDup(c.rows) /\ NoDup(c.cols)
                                /\ SeqRange(c.rows) \cap SeqRange(c.cols) = {}
                                /\ SeqRange(c.rows) \cup SeqRange(c.cols) = Modes(c.shape)
                                /\ c.rows # <<>>
                                \* column_modes=None means: the remaining modes in ascending order
                                /\ (~c.colsgiven => c.cols = SortedSeq(Modes(c.shape) \ SeqRange(c.rows)))
      [] OTHER -> FALSE

\* ---- high-order family: tensors 2 x 2 x ... x 2 of order N in HighOrders (512+ entries).  The full configuration
\* space is astronomically large there; a structured sample: every unfolding, a few partial forms, and matricizations
\* whose row sets are prefixes, suffixes, the even modes, single modes, in ascending and descending order.
HighShapes == {[k \in 1..n |-> 2] : n \in HighOrders}
Rev(q) == [k \in 1..Len(q) |-> q[Len(q) + 1 - k]]
HighRowSets(N) == {0..k : k \in {0, 1, (N \div 2) - 1, (N \div 2), N - 2}} \cup {{k \in 0..(N - 1) : k % 2 = 0}}
                  \cup {{N - 1}, {1, N - 2}, {2}, (N - 3)..(N - 1)}
HighCfgs(shape) ==
    LET N == Len(shape) IN
         {[op |-> "unfold", shape |-> shape, mode |-> m] : m \in Modes(shape)}
    \cup {[op |-> "vec", shape |-> shape]}
    \cup {[op |-> "partial_unfold", shape |-> shape, mode |-> m, sb |-> sb, se |-> se, ravel |-> r] :
             sb \in {0, 2}, se \in {0, 3}, m \in {0, 1, N - 6}, r \in BOOLEAN}
    \cup {[op |-> "partial_vec", shape |-> shape, sb |-> sb, se |-> se] : sb \in {0, 1, 4}, se \in {0, 2}}
    \cup UNION {
             {[op |-> "matricize", shape |-> shape, rows |-> rw, cols |-> SortedSeq(Modes(shape) \ R), colsgiven |-> FALSE] :
                   rw \in {SortedSeq(R), Rev(SortedSeq(R))}}
             \cup {[op |-> "matricize", shape |-> shape, rows |-> SortedSeq(R), cols |-> Rev(SortedSeq(Modes(shape) \ R)), colsgiven |-> TRUE]}
             : R \in HighRowSets(N)}

\* ---- empty family: tensors with a zero-length mode (an empty batch).  Nothing to lay out, but the result must exist and have
\* the documented shape, and the fold must give back the (empty) tensor of the original shape.
\* ... and the order-0 tensor (a scalar held in an array, shape <<>>): it has one entry and no mode, so only the vectorisation applies
EmptyShapes == IF WithEmpty THEN {<<>>, <<0, 3>>, <<3, 0>>, <<2, 0, 3>>, <<0, 2, 2>>, <<2, 3, 0>>, <<2, 0, 2, 2>>} ELSE {}
EmptyCfgs(shape) ==
    \* (unfold / partial_unfold write the column count as -1, which NumPy cannot infer for an empty array: the unchanged
    \*  library refuses those; matricize and the vectorisations state every size explicitly and are total)
    LET N == Len(shape) IN
         {[op |-> "vec", shape |-> shape]}
    \cup IF N = 0 THEN {} ELSE
         UNION {{[op |-> "matricize", shape |-> shape, rows |-> SortedSeq(R), cols |-> SortedSeq(Modes(shape) \ R), colsgiven |-> g] : g \in BOOLEAN}
                 : R \in {{0}, {N - 1}, 0..(N - 2)}}

AllConfigs(dummy) == {c \in UNION {Cfgs(s) : s \in Shapes} : ValidCfg(c)}

----------------------------------------------------------------------------
Plus1(s) == [k \in 1..Len(s) |-> s[k] + 1]

\* Perm(c): the order (1-based mode numbers) in which the input modes are laid out before flattening
Perm(c) ==
    LET N == Len(c.shape) IN
    CASE c.op = "unfold" -> <<c.mode + 1>> \o SortedSeq((1..N) \ {c.mode + 1})
      [] c.op = "vec" -> [k \in 1..N |-> k]
      [] c.op = "partial_unfold" ->
            [k \in 1..c.sb |-> k] \o <<c.sb + c.mode + 1>>
            \o SortedSeq(((c.sb + 1)..(N - c.se)) \ {c.sb + c.mode + 1})
            \o [k \in 1..c.se |-> N - c.se + k]
      [] c.op = "partial_vec" -> [k \in 1..N |-> k]
      [] c.op = "matricize" -> Plus1(c.rows) \o Plus1(c.cols)

OutShape(c) ==
    LET N == Len(c.shape)
        sh == c.shape
        mid(sb, se) == ProdSeq(SubSeq(sh, sb + 1, N - se)) IN
    CASE c.op = "unfold" -> <<sh[c.mode + 1], ProdSeq(Pick(sh, SortedSeq((1..N) \ {c.mode + 1})))>>
      [] c.op = "vec" -> <<Size(sh)>>
      [] c.op = "partial_unfold" ->
            SubSeq(sh, 1, c.sb)
            \o (IF c.ravel THEN <<mid(c.sb, c.se)>>
                ELSE <<sh[c.sb + c.mode + 1], ProdSeq(Pick(sh, SortedSeq(((c.sb + 1)..(N - c.se)) \ {c.sb + c.mode + 1})))>>)
            \o SubSeq(sh, N - c.se + 1, N)
      [] c.op = "partial_vec" -> SubSeq(sh, 1, c.sb) \o <<mid(c.sb, c.se)>> \o SubSeq(sh, N - c.se + 1, N)
      [] c.op = "matricize" -> <<ProdSeq(Pick(sh, Plus1(c.rows))), ProdSeq(Pick(sh, Plus1(c.cols)))>>

Apply(c, T) == Reshape(Transpose(T, Perm(c)), OutShape(c))

\* the label tensor: entry at idx is its own row-major rank
Label(shape) == [shape |-> shape, data |-> [n \in 1..Size(shape) |-> n - 1]]

\* Inverse specified independently, in gather form: the entry of the refolded tensor at idx is read
\* from the unfolded array at the position the documented layout assigns to idx.
PosOf(c, idx) ==      \* linear position in the output of input entry idx
    LET p == Perm(c) IN Lin(Pick(c.shape, p), Pick(idx, p))
Refold(c, U) == [shape |-> c.shape,
                 data  |-> [n \in 1..Size(c.shape) |-> U.data[PosOf(c, Unlin(c.shape, n - 1)) + 1]]]

\* ---- theorems about the specification (checked by TLC over AllConfigs)
CfgOK(c) ==
    LET out == Apply(c, Label(c.shape)) IN
    /\ IsPerm(Perm(c), Len(c.shape))
    /\ Size(OutShape(c)) = Size(c.shape)
    /\ Len(out.data) = Size(c.shape)
    /\ SeqRange(out.data) = 0..(Size(c.shape) - 1)            \* bijection: nothing dropped/duplicated
    /\ Refold(c, out) = Label(c.shape)                         \* fold o unfold = id
    /\ (c.op = "unfold" =>                                    \* textbook: mode-m fibres are the columns
          \A idx \in AllIdx(c.shape) :
             LET others == SortedSeq((1..Len(c.shape)) \ {c.mode + 1}) IN
             out.data[Lin(OutShape(c), <<idx[c.mode + 1], Lin(Pick(c.shape, others), Pick(idx, others))>>) + 1]
                 = Lin(c.shape, idx))

\* Design run: one initial state per shape (so that TLC's workers share the enumeration), one
\* successor per configuration of that shape; SpecOK is evaluated in every state.
VARIABLE cfg
NoCfg == [op |-> "none"]
Init == cfg \in {[op |-> "shape", shape |-> s] : s \in Shapes \cup HighShapes \cup EmptyShapes}
Next == cfg.op = "shape" /\ cfg' \in {c \in (IF cfg.shape \in HighShapes THEN HighCfgs(cfg.shape)
                                                ELSE IF cfg.shape \in EmptyShapes THEN EmptyCfgs(cfg.shape) ELSE Cfgs(cfg.shape)) : ValidCfg(c)}
Spec == Init /\ [][Next]_cfg
SpecOK == cfg.op # "shape" => CfgOK(cfg)
=============================================================================
