----------------------------- MODULE ProxTrace -----------------------------
(* C12 trace validation.  One event = one point of the domain of Prox.tla pushed through the      *)
(* real operator ("direct") and through the keyword dispatch proximal_operator(...) ("dispatch"). *)
(* The harness logs the returned floats as  y = rint(out * S / 10^sc)  (S = 10^6, sc the decimal  *)
(* exponent of the input scaling, see ScaleLaw), a coarse copy y4 at S4 = 10^4 used where the     *)
(* exact answer is irrational, and the operator applied to its own output ("again").  TLC         *)
(* recomputes the exact rational answer and names the first clause that fails.                    *)
EXTENDS Prox, Json, IOUtils

Events == ndJsonDeserialize(IOEnv.TRACE_FILE)

S == 1000000        \* quantisation of logged outputs
S4 == 10000         \* coarse quantisation for the irrational closed forms
ValTol == 1         \* |y - exact*S| <= ValTol   (1e-6 absolute: float64 error is ~1e-15, rint adds 1/2)
IrrTol == 6         \* units of 1e-4: truncation of sqrt(E)*1e4 (<= 3 units after scaling by t|v|/E <= 3) + roundings
IdemTol == 1        \* |op(out) - out| <= 1e-6
IpTol == 20         \* |<Q, M> - nuclear norm| <= 2e-5 (entries of M up to 24, float error ~1e-14)
FeasTol == 2        \* slack of the feasibility measurements, units of 1e-6 per entry
MaxY == 4000000     \* vector outputs beyond 4.0 are rejected before any arithmetic (32-bit guard)
MaxYM == 50000000   \* same for the matrix operators (|entries| <= 24 on the domain)

\* logged numbers are always integers; non-finite / out-of-range floats are the sentinels 2000000001.. (harness qs())
IsFin(x) == -2000000000 <= x /\ x <= 2000000000
IsIntSeq(s) == \A i \in DOMAIN s : IsFin(s[i])
IsSeqOfIntSeqs(ss, ncols, n) == /\ DOMAIN ss = 1..ncols
                                /\ \A j \in 1..ncols : DOMAIN ss[j] = 1..n /\ IsIntSeq(ss[j])
Within(ss, bound) == \A j \in DOMAIN ss : \A i \in DOMAIN ss[j] : AbsI(ss[j][i]) <= bound

-----------------------------------------------------------------------------
(* vector / column events *)
VecInDomain(e) ==
    /\ IF e.op = "l1arr"
       THEN /\ e.p = 0 /\ e.k = 0 /\ e.dec = FALSE /\ Len(e.t) = Len(e.cols)
            /\ \A j \in 1..Len(e.cols) : ValidArr(e.cols[j], e.t[j], e.q)
            /\ DOMAIN e.runs = {"direct"}          \* the keyword dispatch takes per-mode lists, not arrays
       ELSE ValidFam(e)
    /\ e.sc \in {-9, -3, 0, 3, 9}
    /\ Len(e.cols) \in 1..3
    /\ \A j \in 1..Len(e.cols) : ValidVec(e.cols[j]) /\ Len(e.cols[j]) = Len(e.cols[1])
    /\ e.layout \in LayoutSet /\ e.err \in ErrSet
    /\ e.form \in FormSet /\ e.entry \in EntrySet /\ e.spell \in SpellSet /\ e.vals \in ValsSet /\ e.prev \in PrevSet
    \* aliasing: the threshold array and the tensor are the same object, i.e. t_i = v_i (>= 0)
    /\ e.alias \in BOOLEAN
    /\ (e.alias => e.op = "l1arr" /\ \A j \in 1..Len(e.cols) : \A i \in 1..Len(e.cols[j]) : e.t[j][i] = e.q * e.cols[j][i])
    \* whole-tensor operators on a matrix: the single logged column is the row-major flattening of a 2 x 2 input
    /\ e.mshape \in ShapeSet
    /\ (e.mshape # <<>> => e.op \in WholeTensorOps /\ Len(e.cols) = 1 /\ Len(e.cols[1]) = e.mshape[1] * e.mshape[2])
    /\ (Len(e.cols) > 1 => e.op \in ColumnwiseOps)
    /\ DOMAIN e.runs \subseteq {"direct", "dispatch"} /\ DOMAIN e.runs # {}

\* exact answers allowed for column v in run r (the dispatch of "monotonicity" is documented as
\* decreasing in two docstrings and implemented as increasing: either projection is accepted there)
AllowedRun(e, r, j) ==
    LET v == e.cols[j] IN
    IF e.op = "mono" /\ r = "dispatch" THEN {Iso(v, FALSE), Iso(v, TRUE)}
    ELSE IF e.op = "l1arr" THEN {SoftArr(v, e.t[j], e.q)}
    ELSE Allowed(e.op, e.p, e.q, e.k, e.dec, v)

CloseTo(y, x) == \A i \in 1..Len(y) : AbsI(y[i] * x.den - x.num[i] * S) <= ValTol * x.den

\* irrational closed forms at resolution 1e-4, with R = floor(sqrt(E) * 1e4):
\*   l2 block:       x_i = v_i - t v_i / sqrt(E) = v_i - (p v_i sqrt(E)) / (q E)      (sqrt(E) > t)
\*   normalised sp.: x_i = v_i / sqrt(E_T)       = v_i sqrt(E_T) / E_T,  i in T
L2BlockApprox4(y4, v, p, q) ==
    LET E == Norm2(v)
        R == ISqrt(E * S4 * S4) IN
    IF E * q * q <= p * p THEN \A i \in 1..Len(v) : AbsI(y4[i]) <= 1
    ELSE \A i \in 1..Len(v) : AbsI((y4[i] - v[i] * S4) * q * E + p * v[i] * R) <= IrrTol * q * E
NormSparseApprox4(y4, v, k) ==
    LET E == BestEnergy(v, k)
        R == ISqrt(E * S4 * S4) IN
    \E T \in BestSupports(v, k) :
        \A i \in 1..Len(v) : IF i \in T THEN AbsI(y4[i] * E - v[i] * R) <= IrrTol * E ELSE y4[i] = 0

ValueOK(e, r, j) ==
    LET v == e.cols[j]
        y == e.runs[r].out[j] IN
    IF Degenerate(e.op, v) THEN TRUE          \* any feasible point (clause Feasible) is a nearest one
    ELSE IF Rational(e.op, e.k, v) THEN \E x \in AllowedRun(e, r, j) : CloseTo(y, x)
    ELSE IF e.op = "l2" THEN L2BlockApprox4(e.runs[r].out4[j], v, e.p, e.q)
    ELSE NormSparseApprox4(e.runs[r].out4[j], v, e.k)

\* feasibility measured on the logged output itself
FeasibleOut(e, r, j) ==
    LET y == e.runs[r].out[j]
        n == Len(y)
        inc == \A i \in 1..(n - 1) : y[i] <= y[i + 1] + FeasTol
        dcr == \A i \in 1..(n - 1) : y[i] + FeasTol >= y[i + 1] IN
    CASE e.op = "nonneg"   -> \A i \in 1..n : y[i] >= 0
      [] e.op = "simplex"  -> (\A i \in 1..n : y[i] >= 0) /\ AbsI(SumQ(y) * e.q - e.p * S) <= FeasTol * n * e.q
      [] e.op = "l1ball"   -> SumQ(AbsS(y)) * e.q <= e.p * S + FeasTol * n * e.q
      [] e.op = "mono"     -> IF r = "dispatch" THEN inc \/ dcr ELSE IF e.dec THEN dcr ELSE inc
      [] e.op = "unimodal" -> \E m \in 1..n : (\A i \in 1..(m - 1) : y[i] <= y[i + 1] + FeasTol)
                                              /\ (\A i \in m..(n - 1) : y[i] + FeasTol >= y[i + 1])
      [] e.op = "hard"     -> NNZ(y) <= e.k
      [] e.op = "normsparse" -> NNZ(y) <= e.k /\ AbsI(Norm2(e.runs[r].out4[j]) - S4 * S4) <= 3 * n * S4
      [] e.op = "normalize"  -> AbsI(MaxAbs(y) - S) <= FeasTol
      [] OTHER -> TRUE

IdemOK(e, r, j) ==
    e.op \in Projections =>
        LET y == e.runs[r].out[j]
            z == e.runs[r].again[j] IN
        \A i \in 1..Len(y) : AbsI(z[i] - y[i]) <= IdemTol

\* StrictErrorStateSpoke: the caller asked NumPy to raise on floating-point events (np.errstate(all="raise")) or turned
\* warnings into errors and the call ended in exactly that exception (e.g. an underflow while squaring a subnormal entry).
\* The property does not quantify over the caller's error state: such a run is accepted as it is; any other exception, and
\* any exception under the "default" / "ignore" settings, is a rejection.
StrictSpoke(err, run) == run.raised /\ ((err = "raise" /\ run.exc = "FloatingPointError") \/ (err = "warnerr" /\ run.exc = "RuntimeWarning"))

VecVerdict(e) ==
    IF ~VecInDomain(e) THEN "InDomain"
    ELSE LET \* when both runs logged identical records only "direct" is evaluated (its clauses imply "dispatch"'s)
             R == IF DOMAIN e.runs = {"direct", "dispatch"} /\ e.runs["direct"] = e.runs["dispatch"]
                  THEN {"direct"} ELSE DOMAIN e.runs
             nc == Len(e.cols)
             n == Len(e.cols[1])
             J == 1..nc IN
         IF \E r \in R : e.runs[r].raised /\ ~StrictSpoke(e.err, e.runs[r]) THEN "Raised"
         ELSE IF \E r \in R : e.runs[r].raised THEN "ok"
         \* the caller's array must be bit-identical after the call
         ELSE IF \E r \in R : e.runs[r].mutated THEN "InputUntouched"
         ELSE IF \E r \in R : e.runs[r].size # nc * n THEN "Shape"
         ELSE IF \E r \in R : ~IsSeqOfIntSeqs(e.runs[r].out, nc, n) \/ ~IsSeqOfIntSeqs(e.runs[r].out4, nc, n) THEN "Finite"
         ELSE IF \E r \in R : ~Within(e.runs[r].out, MaxY) THEN "Range"
         ELSE IF \E r \in R : \E j \in J : ~FeasibleOut(e, r, j) THEN "Feasible"
         ELSE IF \E r \in R : \E j \in J : ~ValueOK(e, r, j) THEN "Value"
         ELSE IF e.op \in Projections /\ (\E r \in R : e.runs[r].again_raised \/ ~IsSeqOfIntSeqs(e.runs[r].again, nc, n)) THEN "IdempotentFinite"
         ELSE IF \E r \in R : \E j \in J : ~IdemOK(e, r, j) THEN "Idempotent"
         ELSE "ok"

-----------------------------------------------------------------------------
(* matrix events: singular value thresholding / Procrustes on the closed-form SVD family *)
IsIntMat(A, m, n) == DOMAIN A = 1..m /\ \A i \in 1..m : DOMAIN A[i] = 1..n /\ IsIntSeq(A[i])
MatInDomain(e) ==
    /\ e.op \in MatOps
    /\ e.m \in {1, 2, 3} /\ e.n \in {1, 2, 3}
    /\ ValidMat(e)
    /\ e.M = MatOf(e)
    /\ e.layout \in LayoutSet /\ e.err \in ErrSet /\ e.form \in FormSet /\ e.vals \in ValsSet
    /\ DOMAIN e.runs = {"direct"}

MatClose(Y, num, den) ==
    \A i \in 1..Len(num) : \A j \in 1..Len(num[i]) : AbsI(Y[i][j] * den - num[i][j] * S) <= ValTol * den

MatVerdict(e) ==
    IF ~MatInDomain(e) THEN "InDomain"
    ELSE LET run == e.runs["direct"] IN
         IF run.raised THEN (IF StrictSpoke(e.err, run) THEN "ok" ELSE "Raised")
         ELSE IF run.mutated THEN "InputUntouched"
         ELSE IF run.size # e.m * e.n THEN "Shape"
         ELSE IF ~IsIntMat(run.out, e.m, e.n) THEN "Finite"
         ELSE IF ~Within(run.out, MaxYM) THEN "Range"
         \* Procrustes: deviation of the Gram matrix of the returned factor from the identity, measured
         \* by the harness on the floats (max-abs entry of Q^T Q - I or Q Q^T - I), units of 1e-6
         ELSE IF e.op = "procrustes" /\ (~IsFin(run.orth) \/ run.orth > FeasTol) THEN "Feasible"
         ELSE IF e.op = "svt" /\ ~MatClose(run.out, SvtNum(e), SvtDen(e)) THEN "Value"
         \* full rank: the polar factor is unique.  Rank-deficient: any Q with orthonormal columns/rows (clause Feasible
         \* above) and <Q, M> = nuclear norm is a nearest one; <Q, M> is measured by the harness (units of 1e-6)
         ELSE IF e.op = "procrustes" /\ FullRank(e) /\ ~MatClose(run.out, ProcNum(e), ProcDen(e)) THEN "Value"
         ELSE IF e.op = "procrustes" /\ ~FullRank(e) /\ (~IsFin(run.ip) \/ AbsI(run.ip - NuclearNorm(e) * S) > IpTol) THEN "Value"
         ELSE IF e.op = "procrustes" /\ (run.again_raised \/ ~IsIntMat(run.again, e.m, e.n)) THEN "IdempotentFinite"
         ELSE IF e.op = "procrustes" /\ (\E i \in 1..e.m : \E j \in 1..e.n : AbsI(run.again[i][j] - run.out[i][j]) > IdemTol)
              THEN "Idempotent"
         ELSE "ok"

Verdict(e) == IF e.kind = "vec" THEN VecVerdict(e)
              ELSE IF e.kind = "mat" THEN MatVerdict(e)
              ELSE "InDomain"

VARIABLE i
TraceInit == i = 1 /\ cfg = NoCfg
TraceNext == /\ i <= Len(Events)
             /\ i' = i + 1 /\ UNCHANGED cfg
             /\ LET v == Verdict(Events[i]) IN
                  IF v = "ok" THEN TRUE ELSE PrintT(<<"REJECT", Events[i].id, v>>)
TraceSpec == TraceInit /\ [][TraceNext]_<<i, cfg>>
TraceAccepted == TLCGet("stats").diameter - 1 = Len(Events)
=============================================================================
