---------------------------- MODULE OwnershipMC ----------------------------
EXTENDS Ownership

MCSlots == { <<"args","0","factors","0">>, <<"args","0","weights">>, <<"kwargs","V">>,
             <<"kwargs","init","factors","0">>, <<"kwargs","fixed_modes">> }
MCSlotsThorough == MCSlots \cup { <<"args","0">>, <<"args","0","factors">> }

MCCalls == { [entry |-> "cp_tensor.cp_mode_dot", opt |-> "copy=False"],
             [entry |-> "cp_tensor.cp_mode_dot", opt |-> "copy=True"],
             [entry |-> "solvers.hals_nnls", opt |-> ""],
             [entry |-> "backend.index_update", opt |-> ""],
             [entry |-> "decomposition.parafac", opt |-> ""] }

\* what the table says for the modelled calls (read by a human, checked by TLC)
ASSUME ~Obliged([entry |-> "cp_tensor.cp_mode_dot", opt |-> "copy=False"], <<"args","0","factors","0">>)
ASSUME Obliged([entry |-> "cp_tensor.cp_mode_dot", opt |-> "copy=False"], <<"args","0","weights">>)
ASSUME Obliged([entry |-> "cp_tensor.cp_mode_dot", opt |-> "copy=True"], <<"args","0","factors","0">>)
ASSUME ~Obliged([entry |-> "solvers.hals_nnls", opt |-> "exact"], <<"kwargs","V","base">>)
ASSUME Obliged([entry |-> "solvers.hals_nnls", opt |-> ""], <<"args","0">>)
ASSUME ~Obliged([entry |-> "backend.index_update", opt |-> ""], <<"args","0","base">>)
ASSUME \A p \in MCSlotsThorough : Obliged([entry |-> "decomposition.parafac", opt |-> ""], p)

\* witness: some reachable state differs from the original (exempt slots really may change)
NotExemptMayChange == ~ExemptMayChange
=============================================================================
