SPECIFICATION Spec
CONSTANTS
  Wide = TRUE
  BoxMax = 3
INVARIANT SpecOK
