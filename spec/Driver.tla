------------------------------- MODULE Driver -------------------------------
(* Control skeleton shared by tensorly's iterative decompositions, with OWNERSHIP OF ERROR VALUES  *)
(* as first-class state (properties C06, C07, C08, C10, C14).                                       *)
(*                                                                                                  *)
(*   tver        version of the represented tensor: bumped by a sweep and by an accepted line step  *)
(*   errs        the error list the implementation holds; errs[j] = the tver that entry describes   *)
(*   cbs         callback invocations: [it |-> tver passed, own |-> tver the passed error describes] *)
(*   normalized  canonical-form flag (unit-norm columns, scale in weights/core)                     *)
(*   touched     modes whose factor was rewritten                                                   *)
(*                                                                                                  *)
(* The per-algorithm contract table below was transcribed from the documentation/code structure of  *)
(* tensorly/decomposition/*.py; `Deviations` names the places where the code AS FOUND departed from *)
(* the specified behaviour (each was repaired or is a recorded finding); the specified behaviour is *)
(* Deviations = {}.  Witness configurations set one deviation and must violate an invariant.        *)
EXTENDS Integers, Sequences, FiniteSets, TLC

CONSTANT Deviations   \* subset of {"F06c", "F06d", "F08a", "P2stale"}

Algs == {"parafac", "nn_parafac", "nn_parafac_hals", "constrained_parafac", "tucker", "nn_tucker",
         "nn_tucker_hals", "parafac2", "tr_als", "rand_parafac", "cmtf",
         "robust_pca"}          \* extension X06: not named by property C06, same contract (absolute error / ||X||)

None == "none"
NoOwner == -1

----------------------------------------------------------------------------
(* Contract table.  c is the configuration record:                                                  *)
(*   [alg, order, tol_on, ret, normalize, linesearch, callback, fixed (set of modes), init, cap]    *)

\* does a (non line-search) iteration compute and append an error?
Reports(c) ==
    CASE c.alg = "parafac" -> c.tol_on \/ c.ret
      [] c.alg \in {"nn_parafac", "nn_parafac_hals", "parafac2"} -> c.tol_on
      [] c.alg \in {"tucker", "nn_tucker", "nn_tucker_hals", "constrained_parafac", "cmtf", "robust_pca"} -> TRUE
      [] c.alg = "tr_als" -> c.tol_on \/ c.callback
      [] c.alg = "rand_parafac" -> c.tol_on \/ c.stagn

\* is the list exposed to the caller?  (tensor_ring_als exposes errors through the callback only)
ExposesList(c) == c.alg # "tr_als"

\* smallest 0-based iteration index at which the convergence test may end the run
MinConv(c) == IF c.alg \in {"tucker", "nn_tucker", "nn_tucker_hals", "rand_parafac", "robust_pca"} THEN 2 ELSE 1

\* is a convergence test active at all?
CanStop(c) ==
    CASE c.alg \in {"cmtf", "robust_pca"} -> TRUE         \* `<= tol` also fires with tol = 0
      [] c.alg = "rand_parafac" -> c.tol_on \/ c.stagn
      [] OTHER -> c.tol_on

HasCallback(c) == c.callback /\ c.alg \in {"parafac", "tr_als", "rand_parafac"}

LineIter(c, it) == c.linesearch /\ c.alg \in {"parafac", "parafac2"} /\ it % 2 = 0 /\ it > 5

NormOpt(c) == c.alg \in {"parafac", "nn_parafac", "nn_parafac_hals", "nn_tucker", "nn_tucker_hals", "parafac2", "cmtf"}

Modes(c) == 0..(c.order - 1)

\* "the last mode cannot be fixed" is documented (and warned about) for these algorithms
LastModeExempt(c) == c.alg \in {"parafac", "nn_parafac", "constrained_parafac", "nn_tucker_hals"}
FixedEff(c) == IF LastModeExempt(c) THEN c.fixed \ {c.order - 1} ELSE c.fixed
\* with every mode fixed nothing is swept: the initialisation is returned (parafac, HALS non-negative CP, Tucker)
AllFixedShortCircuit(c) == c.alg \in {"parafac", "nn_parafac_hals", "tucker"} /\ c.fixed = Modes(c)

\* two runs that differ only in the cap are prefixes of each other
PrefixStable(c) ==
    /\ ~(c.alg = "parafac2" /\ c.linesearch)          \* a line step REPLACES the last entry
    /\ c.alg # "nn_tucker_hals"       \* the cap is also handed to the inner FISTA / active-set core solver

\* algorithms whose sweeps solve every block exactly (C07)
ExactBCD(c) ==
    /\ c.alg \in {"parafac", "nn_parafac_hals", "tucker", "parafac2", "tr_als", "cmtf"}
    /\ ~c.sparsity /\ ~c.mask /\ ~c.sampled
    /\ ~c.penalised          \* with a ridge / l1 penalty the sweeps decrease the PENALISED objective, not the plain error
    /\ ~c.reorth             \* orthogonalise=True re-orthogonalises the factors in the first sweeps: not an exact block step

----------------------------------------------------------------------------
(* States and the successor function (shared with the trace specification).                         *)

Last(q) == q[Len(q)]

Init0(c) ==
    [phase |-> "init", it |-> 0, tver |-> 0, errs |-> <<>>, cbs |-> <<>>,
     normalized |-> (c.normalize /\ NormOpt(c) /\ c.init \in {"svd", "random"} /\ c.alg \in {"parafac", "nn_parafac", "nn_parafac_hals"}),
     touched |-> {}, stopped |-> FALSE, acc |-> FALSE]

Succ(c, s) ==
    CASE s.phase = "init" ->
            IF AllFixedShortCircuit(c) THEN {[s EXCEPT !.phase = "done"]}
            ELSE LET s1 == IF HasCallback(c)
                           THEN [s EXCEPT !.cbs = <<[it |-> 0, own |-> IF c.alg = "rand_parafac" THEN NoOwner ELSE 0]>>]
                           ELSE s
                 IN  {[s1 EXCEPT !.phase = IF c.cap = 0 THEN "done" ELSE "sweep"]}
      [] s.phase = "sweep" ->
            {[s EXCEPT !.tver = @ + 1,
                       !.normalized = (c.alg = "parafac2" /\ c.normalize),
                       !.touched = @ \cup (Modes(c) \ FixedEff(c)),
                       !.phase = IF LineIter(c, s.it) THEN "line" ELSE "report"]}
      [] s.phase = "line" ->
            {[s EXCEPT !.tver = IF a THEN @ + 1 ELSE @, !.acc = a, !.phase = "report"] : a \in BOOLEAN}
      [] s.phase = "report" ->
            LET line == LineIter(c, s.it)
                errs1 ==
                    IF ~Reports(c) THEN s.errs
                    ELSE IF ~line THEN
                        (IF c.alg = "cmtf" /\ "F06d" \in Deviations THEN s.errs ELSE Append(s.errs, s.tver))
                    ELSE IF c.alg = "parafac" THEN
                        (IF "F06c" \in Deviations THEN s.errs ELSE Append(s.errs, s.tver))
                    ELSE \* parafac2: the line step replaces the last entry by the error of the accepted iterate
                        (IF s.acc \/ ~("P2stale" \in Deviations)
                           THEN [s.errs EXCEPT ![Len(s.errs)] = s.tver]
                           ELSE s.errs)
            IN  {[s EXCEPT !.errs = errs1, !.phase = "callback"]}
      [] s.phase = "callback" ->
            {[s EXCEPT !.cbs = IF HasCallback(c)
                                 THEN Append(@, [it |-> s.tver, own |-> IF s.errs = <<>> THEN NoOwner ELSE Last(s.errs)])
                                 ELSE @,
                       !.phase = "conv"]}
      [] s.phase = "conv" ->
            LET late == c.alg = "cmtf" /\ "F06d" \in Deviations
                nerr == Len(s.errs) + (IF late THEN 1 ELSE 0)
                mayStop == CanStop(c) /\ s.it >= MinConv(c) /\ nerr >= 2
                stopS == [s EXCEPT !.phase = "done", !.stopped = TRUE,
                                   !.normalized = IF c.normalize /\ NormOpt(c) /\ ~("F08a" \in Deviations)
                                                    THEN TRUE ELSE @]
                goS == [s EXCEPT !.phase = "normalise",
                                 !.errs = IF late THEN Append(@, s.tver) ELSE @]
            IN  IF mayStop THEN {stopS, goS} ELSE {goS}
      [] s.phase = "normalise" ->
            {[s EXCEPT !.normalized = IF c.alg = "parafac2" THEN @ ELSE (c.normalize /\ NormOpt(c) /\ c.alg # "cmtf"),
                       !.it = @ + 1,
                       !.phase = IF s.it + 1 = c.cap THEN "done" ELSE "sweep"]}
      [] s.phase = "done" -> {}

\* cmtf normalises once, at return
Returned(c, s) == IF c.alg = "cmtf" /\ s.phase = "done" THEN [s EXCEPT !.normalized = c.normalize] ELSE s

RECURSIVE Closure(_, _, _)
Closure(c, frontier, seen) ==
    IF frontier = {} THEN seen
    ELSE LET nxt == (UNION {Succ(c, s) : s \in frontier}) \ seen
         IN  Closure(c, nxt, seen \cup nxt)

DoneStates(c) == {Returned(c, s) : s \in {x \in Closure(c, {Init0(c)}, {Init0(c)}) : x.phase = "done"}}

----------------------------------------------------------------------------
(* The length of the reported list in closed form.  The design run proves (LenSetSound / LenSetTight)    *)
(* that it is exactly the set of lengths of the model's Return states for every configuration and cap  *)
(* up to MaxCap; the trace specification uses it for every cap (the closure itself is exponential in   *)
(* the number of line-search iterations, whose outcomes are not logged).                               *)
NLine(c, n) == Cardinality({it \in 0..(n - 1) : LineIter(c, it)})
\* entries after n completed sweeps: a PARAFAC2 line step replaces, every other reporting iteration appends
Entries(c, n) == IF c.alg = "parafac2" THEN n - NLine(c, n) ELSE n
LenSet(c) ==
    IF ~Reports(c) \/ AllFixedShortCircuit(c) THEN {0}
    ELSE {Entries(c, c.cap)}
         \cup {Entries(c, j + 1) : j \in {i \in MinConv(c)..(c.cap - 1) : CanStop(c) /\ Entries(c, i + 1) >= 2}}

----------------------------------------------------------------------------
(* Design model: TLC explores every algorithm, option set, cap, stop point and line-search outcome. *)

CONSTANTS MaxCap, Order

VARIABLES cfg, st
vars == <<cfg, st>>

CfgSpace(dummy) ==
    {[alg |-> a, order |-> Order, tol_on |-> t, ret |-> r, normalize |-> n, linesearch |-> l, callback |-> cb,
      fixed |-> f, init |-> i, cap |-> k, stagn |-> sg, algorithm |-> al, sparsity |-> FALSE, mask |-> FALSE, sampled |-> FALSE,
      penalised |-> FALSE, reorth |-> FALSE] :
        a \in Algs, t \in BOOLEAN, r \in BOOLEAN, n \in BOOLEAN, l \in BOOLEAN, cb \in BOOLEAN,
        f \in SUBSET (0..(Order - 1)), i \in {"svd", "user"}, k \in 0..MaxCap, sg \in {FALSE}, al \in {"fista"}}

Relevant(c) ==
    /\ (c.linesearch => c.alg \in {"parafac", "parafac2"} /\ c.tol_on)     \* line search reads the error list
    /\ (c.ret => c.alg = "parafac")
    /\ (c.callback => c.alg \in {"parafac", "tr_als", "rand_parafac"} /\ Reports(c))
    /\ (c.normalize => NormOpt(c))
    /\ (c.fixed # {} => c.alg \in {"parafac", "nn_parafac", "nn_parafac_hals", "constrained_parafac", "nn_tucker_hals"} /\ c.init = "user")
    /\ (c.cap > 8 => c.linesearch)

Init == cfg \in {c \in CfgSpace(0) : Relevant(c)} /\ st = Init0(cfg)
Next == st' \in Succ(cfg, st) /\ UNCHANGED cfg
Spec == Init /\ [][Next]_vars

R == Returned(cfg, st)

TypeOK == st.it <= cfg.cap /\ Len(st.errs) <= cfg.cap + 1 /\ st.tver <= 2 * cfg.cap

\* C06: the last reported value is the error of what is returned; every entry belongs to a distinct,
\* later iterate; callbacks receive the error of the iterate passed with it
LastErrOwnsReturned == st.phase = "done" /\ st.errs # <<>> => Last(st.errs) = st.tver
OwnersIncreasing == \A j \in 1..(Len(st.errs) - 1) : st.errs[j] < st.errs[j + 1]
CallbackFresh == \A j \in 1..Len(st.cbs) : st.cbs[j].own \in {NoOwner, st.cbs[j].it}

\* C08: canonical form on BOTH exit paths (exempt: zero sweeps from a user start)
CanonAtReturn ==
    st.phase = "done" /\ cfg.normalize /\ NormOpt(cfg) /\ (st.it > 0 \/ st.stopped)
        => R.normalized

\* C14: fixed modes stay fixed, a zero budget returns the start
FixedUntouched == st.touched \cap FixedEff(cfg) = {}
ZeroBudgetReturnsInit == st.phase = "done" /\ cfg.cap = 0 => st.tver = 0
AllFixedReturnsInit == st.phase = "done" /\ AllFixedShortCircuit(cfg) => st.tver = 0 /\ st.touched = {}

\* the closed form of the list length is sound (every Return state) and tight (every predicted length occurs)
LenSetSound == st.phase = "done" => Len(st.errs) \in LenSet(cfg)
LenSetTight == st.phase = "init" /\ cfg.cap <= 9 => {Len(s.errs) : s \in DoneStates(cfg)} = LenSet(cfg)

\* number of entries as a function of what happened (relied upon by the trace specification)
ErrsLenLaw ==
    st.phase = "done" /\ Reports(cfg) /\ ~AllFixedShortCircuit(cfg) /\ ~(cfg.alg = "parafac2" /\ cfg.linesearch)
        => Len(st.errs) = (IF st.stopped THEN st.it + 1 ELSE st.it)
=============================================================================
