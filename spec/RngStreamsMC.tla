---------------------------- MODULE RngStreamsMC ----------------------------
EXTENDS RngStreams
MCSeeds    == {1, 2}
MCGens     == {"g1", "g2"}
MCTwins    == [g \in MCGens |-> 1]                 \* both generators created from seed 1
MCEntries  == {"rand", "det"}                      \* randomly initialised routine / routine without random choices
MCRandom   == [e \in MCEntries |-> e = "rand"]
MCSeedRand == {"rand"}                             \* only the random class is called with a seed ...
MCSeedAll  == {"rand", "det"}                      \* ... thorough: also a deterministic routine that accepts one
MCNoObjs   == {}
MCObjs     == {"o1"}
MCObjSeed  == [o \in MCObjs |-> 1]                 \* the object is constructed with random_state = seed 1
\* trace configuration: a second randomly initialised entry class ("alt": the same routine on the float32 version of
\* the same arguments) and twelve seeds; also model checked at small depth (RngStreamsMC_quick3.cfg)
MCEntries3 == {"rand", "alt", "det"}
MCRandom3  == [e \in MCEntries3 |-> e # "det"]
MCSeed3    == {"rand", "alt"}
MCSeeds12  == 1..12
MCOneBackend  == {"core"}
MCBackends    == {"core", "einsum"}
GraphView  == S
=============================================================================
