SPECIFICATION Spec
CONSTANTS
  Seeds <- MCSeeds
  Gens <- MCGens
  GenSeed <- MCTwins
  Entries <- MCEntries
  Random <- MCRandom
  Seedable <- MCSeedRand
  Backends <- MCOneBackend
  InitBackend = "core"
  Objs <- MCObjs
  ObjSeed <- MCObjSeed
  ObjEntries <- MCSeedRand
  MaxOps = 4
  Variant = "spec"
INVARIANT TypeOK
VIEW GraphView
