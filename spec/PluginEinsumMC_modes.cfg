SPECIFICATION Spec
CONSTANTS
  Threads = {"t0", "t1"}
  Main = "t0"
  Names <- MCNames
  Default = "numpy"
  PrevScope = "global"
  WithDispatchModes = TRUE
  MaxOps = 4
CONSTRAINT Bound
INVARIANT TypeOK
INVARIANT RevertIsOriginal
INVARIANT NoForeignEinsum
INVARIANT SavedIsAnOriginal
INVARIANT OptTakesEffect
PROPERTY SelectKeepsPlugins
PROPERTY PluginsKeepSelection
INVARIANT OptTakesEffectOnManagerAttribute
