SPECIFICATION Spec
CONSTANTS
  Orders = {3, 4}
  WideOrders = {3}
  SecondKeyOrders = "asc"
  SoftOrders = {3}
INVARIANT SpecOK
