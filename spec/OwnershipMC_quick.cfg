SPECIFICATION Spec
CONSTANTS
  Slots <- MCSlots
  Digests = {1, 2}
  Calls <- MCCalls
  Lib = "contract"
INVARIANT TypeOK
INVARIANT NeverExemptNeverChanges
PROPERTY ExitPreserves
