SPECIFICATION Spec
CONSTANTS
  Slots <- MCSlots
  Digests = {1, 2}
  Calls <- MCCalls
  Lib = "asfound"
INVARIANT NeverExemptNeverChanges
