------------------------------- MODULE Prox -------------------------------
(* C12: proximal / projection operators of tensorly.tenalg.proximal, written from their           *)
(* *documented prox problems* (not from the implementation) in exact rational arithmetic.        *)
(*                                                                                               *)
(* Numbers.  Inputs are integer vectors v (column vectors).  A rational vector is a record       *)
(*     [num |-> <<n_1..n_k>>, den |-> d]   (d > 0, common denominator, not reduced).             *)
(* A parameter t = p/q is the pair (p, q) of positive integers.                                  *)
(*                                                                                               *)
(* Every operator is either a closed form found in any textbook (Parikh & Boyd, Proximal         *)
(* algorithms, ch. 6) or a declarative characterisation.  TLC then *checks on the specification* *)
(* (invariant SpecOK, one state per (operator, parameter, input)) that the point so defined      *)
(*   - is feasible for the operator's constraint set,                                            *)
(*   - has an objective  pen(x) + 1/2 |x - v|^2  not larger than that of every feasible          *)
(*     neighbour on the lattice (1/den) Z^n that contains it and of every feasible integer       *)
(*     point of the box (for the sparsity projections: of every admissible support),             *)
(*   - satisfies the first-order optimality conditions where these are rational,                 *)
(*   - is a fixed point when the operator is a projection (idempotence),                         *)
(*   - is positively homogeneous in (v, t) as stated by ScaleLaw (c = 2, 3),                     *)
(*   - and that the convex operators are firmly non-expansive on all pairs (n <= FneN).          *)
(* Non-unique minimisers (unimodal regression with tied modes, hard thresholding with tied       *)
(* magnitudes) are *sets* of allowed outputs.                                                    *)
EXTENDS Integers, Sequences, FiniteSets, TLC

CONSTANTS MaxN,     \* longest vector
          Box,      \* entries of the exact domain are in -Box..Box
          FneN,     \* firm non-expansiveness is checked on all pairs of vectors of length <= FneN
          BoxN,     \* box competitors are enumerated for vectors of length <= BoxN
          SvdCompSize \* SVT competitors are enumerated for matrices with at most this many entries

L == 12             \* lcm(1..4): block means of <= 4 integers are multiples of 1/12

-----------------------------------------------------------------------------
(* integer / sequence helpers (own names: CommunityModules are on the path of the trace spec) *)
AbsI(x) == IF x < 0 THEN -x ELSE x
SgnI(x) == IF x > 0 THEN 1 ELSE IF x < 0 THEN -1 ELSE 0
PosI(x) == IF x > 0 THEN x ELSE 0
MinI(a, b) == IF a <= b THEN a ELSE b
MaxI(a, b) == IF a >= b THEN a ELSE b
RECURSIVE SumQ(_)
SumQ(s) == IF s = <<>> THEN 0 ELSE Head(s) + SumQ(Tail(s))
SetMax(S) == CHOOSE x \in S : \A y \in S : y <= x
SetMin(S) == CHOOSE x \in S : \A y \in S : x <= y
MapS(s, f(_)) == [i \in 1..Len(s) |-> f(s[i])]
AbsS(s) == [i \in 1..Len(s) |-> AbsI(s[i])]
SqS(s) == [i \in 1..Len(s) |-> s[i] * s[i]]
Dot(a, b) == SumQ([i \in 1..Len(a) |-> a[i] * b[i]])
Norm2(s) == Dot(s, s)
ScaleS(c, s) == [i \in 1..Len(s) |-> c * s[i]]
RevS(s) == [i \in 1..Len(s) |-> s[Len(s) + 1 - i]]
NNZ(s) == Cardinality({i \in 1..Len(s) : s[i] # 0})
Zeros(n) == [i \in 1..n |-> 0]
\* integer square root by bisection: largest r with r*r <= x   (0 <= x < 2^31)
RECURSIVE ISqrtB(_, _, _)
ISqrtB(x, lo, hi) == IF lo = hi THEN lo
                     ELSE LET mid == (lo + hi + 1) \div 2 IN
                          IF mid * mid <= x THEN ISqrtB(x, mid, hi) ELSE ISqrtB(x, lo, mid - 1)
ISqrt(x) == ISqrtB(x, 0, 46340)
IsSquare(x) == x >= 0 /\ ISqrt(x) * ISqrt(x) = x

Rat(num, den) == [num |-> num, den |-> den]
\* equality of rational vectors (denominators may differ)
RatEq(a, b) == Len(a.num) = Len(b.num) /\ \A i \in 1..Len(a.num) : a.num[i] * b.den = b.num[i] * a.den

\* determinant by Laplace expansion along the first row (matrices = sequences of rows, n <= 4)
RECURSIVE Det(_)
Det(A) == LET n == Len(A) IN
          IF n = 1 THEN A[1][1]
          ELSE LET minor(j) == [r \in 1..(n - 1) |-> [c \in 1..(n - 1) |-> A[r + 1][IF c < j THEN c ELSE c + 1]]]
               IN  SumQ([j \in 1..n |-> (IF j % 2 = 1 THEN 1 ELSE -1) * A[1][j] * Det(minor(j))])
ReplaceCol(A, j, b) == [r \in 1..Len(A) |-> [c \in 1..Len(A) |-> IF c = j THEN b[r] ELSE A[r][c]]]

-----------------------------------------------------------------------------
(* 1. non-negativity: projection on {x >= 0}                                                     *)
NonNeg(v) == Rat([i \in 1..Len(v) |-> PosI(v[i])], 1)

(* 2. l1: prox of t|x|_1 = sign(v) max(|v| - t, 0), entrywise                                     *)
Soft(v, p, q) == Rat([i \in 1..Len(v) |-> SgnI(v[i]) * PosI(AbsI(v[i]) * q - p)], q)

(* 2b. l1 with a per-entry threshold ARRAY (soft_thresholding documents "ndarray with shape tensor.shape: one      *)
(*     threshold is applied per element, 0 values are ignored"; robust_pca passes lam * mask): prox of             *)
(*     sum_i t_i |x_i| = sign(v_i) max(|v_i| - t_i, 0), thresholds t_i = t[i] / q >= 0.                           *)
SoftArr(v, t, q) == Rat([i \in 1..Len(v) |-> SgnI(v[i]) * PosI(AbsI(v[i]) * q - t[i])], q)

(* 3. l2 (block soft threshold): prox of t|x|_2 = (1 - t/max(|v|, t)) v.  Rational iff |v| is.    *)
(*    Defined here for vectors whose norm N is an integer ("Pythagorean"); for the others see    *)
(*    L2BlockApprox4 in the trace specification and the optimality condition L2KKT below.         *)
L2Block(v, p, q) ==
    LET N == ISqrt(Norm2(v)) IN
    IF N * q <= p THEN Rat(Zeros(Len(v)), 1)
    ELSE Rat([i \in 1..Len(v) |-> v[i] * (N * q - p)], N * q)

(* 4. squared l2: prox of t|x|^2 = v / (1 + 2t)                                                   *)
L2Sq(v, p, q) == Rat(ScaleS(q, v), q + 2 * p)

(* 5. smoothness: the guide documents "penalising the L2 norm of finite differences ... solves a  *)
(*    banded system".  Penalty (r/2) * sum_{i=0..n} (x_{i+1} - x_i)^2 with x_0 = x_{n+1} = 0      *)
(*    (finite differences of the zero-extended column), whose prox solves (I + r T) x = v,        *)
(*    T = tridiag(-1, 2, -1).  Solved by Cramer's rule on the integer system (qI + pT) x = q v.   *)
SmoothMat(n, p, q) == [r \in 1..n |-> [c \in 1..n |-> IF r = c THEN q + 2 * p
                                                       ELSE IF AbsI(r - c) = 1 THEN -p ELSE 0]]
Smooth(v, p, q) ==
    LET n == Len(v)
        A == SmoothMat(n, p, q)
        b == ScaleS(q, v)
    IN  Rat([j \in 1..n |-> Det(ReplaceCol(A, j, b))], Det(A))

(* 6. simplex of radius r = p/q: the unique x = max(v - theta, 0) with sum(x) = r.                *)
(*    Sort-and-threshold: with s the decreasing rearrangement and theta_k = (s_1+..+s_k - r)/k,   *)
(*    the support size is a k with s_k > theta_k and (k = n or s_{k+1} <= theta_k).               *)
RECURSIVE SortDesc(_)
SortDesc(s) == IF s = <<>> THEN <<>>
               ELSE LET j == CHOOSE j \in 1..Len(s) : \A m \in 1..Len(s) : s[m] <= s[j]
                    IN  <<s[j]>> \o SortDesc([m \in 1..(Len(s) - 1) |-> IF m < j THEN s[m] ELSE s[m + 1]])
Simplex(v, p, q) ==
    LET n == Len(v)
        s == SortDesc(v)
        top(k) == SumQ(SubSeq(s, 1, k))
        \* theta_k = (top(k) q - p) / (k q);   s_k > theta_k  <=>  s_k k q > top(k) q - p
        ok(k) == /\ s[k] * k * q > top(k) * q - p
                 /\ (k = n \/ s[k + 1] * k * q <= top(k) * q - p)
        k == CHOOSE k \in 1..n : ok(k)
    IN  Rat([i \in 1..n |-> PosI(v[i] * k * q - (top(k) * q - p))], k * q)

(* 7. l1 ball of radius r ("soft sparsity"): v itself when |v|_1 <= r, else sign(v) simplex(|v|)  *)
L1Ball(v, p, q) ==
    IF SumQ(AbsS(v)) * q <= p THEN Rat(v, 1)
    ELSE LET sx == Simplex(AbsS(v), p, q) IN
         Rat([i \in 1..Len(v) |-> SgnI(v[i]) * sx.num[i]], sx.den)

(* 8. monotone (isotonic) regression, max-min formula of block means (Barlow et al. 1972):        *)
(*    x_i = max_{s <= i} min_{t >= i} mean(v_s..v_t); numerators over the denominator L.          *)
BlockMeanL(v, s, t) == (L \div (t - s + 1)) * SumQ(SubSeq(v, s, t))
IsoIncNum(v) == [i \in 1..Len(v) |->
                   SetMax({SetMin({BlockMeanL(v, s, t) : t \in i..Len(v)}) : s \in 1..i})]
IsoDecNum(v) == RevS(IsoIncNum(RevS(v)))
Iso(v, dec) == Rat(IF dec THEN IsoDecNum(v) ELSE IsoIncNum(v), L)

(* 9. unimodal regression.  A sequence is unimodal (x_1 <= .. <= x_j >= .. >= x_n for some j) iff *)
(*    for some split m in 0..n it is increasing on 1..m and decreasing on m+1..n (theorem         *)
(*    UnimodalIsSplit below).  Hence the nearest unimodal points are the best of the n+1          *)
(*    concatenations of two independent isotonic fits; ties => several allowed outputs.          *)
SplitNum(v, m) == IsoIncNum(SubSeq(v, 1, m)) \o IsoDecNum(SubSeq(v, m + 1, Len(v)))
DistL2(num, v) == SumQ([i \in 1..Len(v) |-> (num[i] - L * v[i]) * (num[i] - L * v[i])])
UnimodalSet(v) ==
    LET n == Len(v) IN
    \* (bound through singleton sets so that TLC evaluates each candidate once)
    UNION {UNION {{Rat(cand[m], L) : m \in {m \in 0..n : cost[m] = SetMin({cost[k] : k \in 0..n})}}
                  : cost \in {[m \in 0..n |-> DistL2(cand[m], v)]}}
           : cand \in {[m \in 0..n |-> SplitNum(v, m)]}}

(* 10. hard sparsity: a nearest point with at most k non-zeros = v restricted to a support of     *)
(*     min(k, n) positions of maximal energy; ties => several allowed outputs.                    *)
Energy(v, T) == SumQ([i \in 1..Len(v) |-> IF i \in T THEN v[i] * v[i] ELSE 0])
Restrict(v, T) == [i \in 1..Len(v) |-> IF i \in T THEN v[i] ELSE 0]
SupportsOf(n, k) == {T \in SUBSET (1..n) : Cardinality(T) = MinI(k, n)}
BestEnergy(v, k) == SetMax({Energy(v, T) : T \in SupportsOf(Len(v), k)})
BestSupports(v, k) == {T \in SupportsOf(Len(v), k) : Energy(v, T) = BestEnergy(v, k)}
HardSet(v, k) == {Rat(Restrict(v, T), 1) : T \in BestSupports(v, k)}

(* 11. normalised sparsity: a nearest point of {|x|_2 = 1, |x|_0 <= k} = H_k(v)/|H_k(v)| (v # 0). *)
(*     Rational iff the kept energy is a perfect square; otherwise see NormSparseApprox4.         *)
NormSparseSet(v, k) ==
    LET N == ISqrt(BestEnergy(v, k)) IN {Rat(Restrict(v, T), N) : T \in BestSupports(v, k)}

(* 12. max-normalisation ("divides all the values by the maximum [absolute] value"): v / |v|_inf. *)
(*     Documented as a normalisation, not as a nearest point; no optimality theorem is claimed.   *)
MaxAbs(v) == SetMax({AbsI(v[i]) : i \in 1..Len(v)})
Normalize(v) == Rat(v, MaxAbs(v))

-----------------------------------------------------------------------------
(* Operator table.  A configuration is [op, p, q, k, dec, v]; unused fields are 0 / 1 / FALSE.    *)
SetValued == {"unimodal", "hard", "normsparse"}
Projections == {"nonneg", "simplex", "l1ball", "mono", "unimodal", "hard", "normsparse", "normalize"}
ConvexOps == {"nonneg", "l1", "l2", "l2sq", "smooth", "simplex", "l1ball", "mono"}
\* operators documented as entrywise / column-wise: matrix inputs are columns processed separately
ColumnwiseOps == {"nonneg", "l1", "l1arr", "l2sq", "smooth", "simplex", "l1ball", "mono", "unimodal"}
\* how the answer moves when the input is multiplied by c > 0 (and "length" parameters with it):
\*   "hom"  : Op(c v, c t) = c Op(v, t)      (t a length: threshold / radius)
\*   "lin"  : Op(c v, t)   = c Op(v, t)      (t dimensionless or absent)
\*   "inv"  : Op(c v, k)   = Op(v, k)
ScaleLaw(op) == CASE op \in {"l1", "l1arr", "l2", "simplex", "l1ball"} -> "hom"
                  [] op \in {"nonneg", "l2sq", "smooth", "mono", "unimodal", "hard"} -> "lin"
                  [] op \in {"normsparse", "normalize"} -> "inv"

\* the set of allowed exact outputs of configuration c (a singleton for single-valued operators)
Allowed(op, p, q, k, dec, v) ==
    CASE op = "nonneg"     -> {NonNeg(v)}
      [] op = "l1"         -> {Soft(v, p, q)}
      [] op = "l2"         -> {L2Block(v, p, q)}
      [] op = "l2sq"       -> {L2Sq(v, p, q)}
      [] op = "smooth"     -> {Smooth(v, p, q)}
      [] op = "simplex"    -> {Simplex(v, p, q)}
      [] op = "l1ball"     -> {L1Ball(v, p, q)}
      [] op = "mono"       -> {Iso(v, dec)}
      [] op = "unimodal"   -> UnimodalSet(v)
      [] op = "hard"       -> HardSet(v, k)
      [] op = "normsparse" -> NormSparseSet(v, k)
      [] op = "normalize"  -> {Normalize(v)}
AllowedC(c) == Allowed(c.op, c.p, c.q, c.k, c.dec, c.v)

\* inputs on which the closed form above is rational (the others are judged by the *Approx4 forms)
Rational(op, k, v) == CASE op = "l2" -> IsSquare(Norm2(v))
                        [] op = "normsparse" -> IsSquare(BestEnergy(v, k))
                        [] OTHER -> TRUE
\* inputs excluded by the specification: the answer is undefined / every feasible point is nearest
\* For the zero input every point of the constraint set of these two operators is equally near (normalised sparsity) /
\* the rescaling is undefined (max-normalisation): the operators then return "a point of the constraint set"; ANY
\* feasible point is an allowed answer there (clauses Feasible and Idempotent still apply, Value is vacuous).
Degenerate(op, v) == op \in {"normsparse", "normalize"} /\ \A i \in 1..Len(v) : v[i] = 0

(* Environment of a call: the result is a function of the VALUES of the input only.  The binding repeats calls with   *)
(* other memory layouts of the same values and under other floating-point-error / warning settings of the caller.    *)
LayoutSet == {"C", "F", "strided", "readonly"}    \* C-contiguous, Fortran-ordered, strided view of a larger array, read-only
ErrSet == {"default", "ignore", "raise", "warnerr"}  \* np.errstate(all=...) of the caller; warnings turned into errors
\* whole-tensor operators (their docstrings act on the flattened tensor) are also given the input reshaped to a matrix
WholeTensorOps == {"l2", "hard", "normsparse", "normalize"}
ShapeSet == {<<>>, <<2, 2>>}
\* call forms: every argument positional / by its published keyword; the home module or a re-export; the scalar, {0: p} and
\* [p] spellings of a one-mode constraint; zeros written as -0.0 or as subnormals; an earlier failed call on the same array
FormSet == {"pos", "kw"}
EntrySet == {"home", "alias"}
SpellSet == {"scalar", "dict", "list"}
ValsSet == {"plain", "negzero", "subnormal"}
PrevSet == {"none", "failed"}

-----------------------------------------------------------------------------
(* Constraint sets and objectives, on a rational point num/den.                                   *)
IncOn(x, a, b) == \A i \in a..(b - 1) : x[i] <= x[i + 1]
DecOn(x, a, b) == \A i \in a..(b - 1) : x[i] >= x[i + 1]
IsUnimodal(x) == \E j \in 1..Len(x) : IncOn(x, 1, j) /\ DecOn(x, j, Len(x))
IsSplit(x) == \E m \in 0..Len(x) : IncOn(x, 1, m) /\ DecOn(x, m + 1, Len(x))

Feasible(op, p, q, k, dec, num, den) ==
    CASE op = "nonneg"     -> \A i \in 1..Len(num) : num[i] >= 0
      [] op = "simplex"    -> (\A i \in 1..Len(num) : num[i] >= 0) /\ q * SumQ(num) = p * den
      [] op = "l1ball"     -> q * SumQ(AbsS(num)) <= p * den
      [] op = "mono"       -> IF dec THEN DecOn(num, 1, Len(num)) ELSE IncOn(num, 1, Len(num))
      [] op = "unimodal"   -> IsUnimodal(num)
      [] op = "hard"       -> NNZ(num) <= k
      [] op = "normsparse" -> NNZ(num) <= k /\ Norm2(num) = den * den
      [] op = "normalize"  -> MaxAbs(num) = den
      [] OTHER             -> TRUE

\* 2 q den^2 (pen(x) + 1/2 |x - v|^2)  as an integer, x = num/den   (l2: not rational, see L2KKT)
Obj2(op, p, q, v, num, den) ==
    LET fit == q * SumQ([i \in 1..Len(v) |-> (num[i] - den * v[i]) * (num[i] - den * v[i])]) IN
    CASE op = "l1"     -> 2 * p * den * SumQ(AbsS(num)) + fit
      [] op = "l2sq"   -> 2 * p * Norm2(num) + fit
      [] op = "smooth" -> LET ext == <<0>> \o num \o <<0>> IN
                          p * SumQ([i \in 1..(Len(num) + 1) |-> (ext[i + 1] - ext[i]) * (ext[i + 1] - ext[i])]) + fit
      [] OTHER         -> fit

\* all sequences of length n over the finite set S
SeqsOver(S, n) == [1..n -> S]
Deltas(n) == SeqsOver({-1, 0, 1}, n) \ {Zeros(n)}
AddS(a, b) == [i \in 1..Len(a) |-> a[i] + b[i]]

(* optimality of x = num/den against (a) every feasible neighbour x + delta/den and (b) every     *)
(* feasible integer point of the box, for the operators with a rational objective                *)
OptimalVsLattice(c, x) ==
    LET n == Len(c.v) IN
    \A ox \in {Obj2(c.op, c.p, c.q, c.v, x.num, x.den)} :
    /\ \A d \in Deltas(n) :
          \A y \in {AddS(x.num, d)} :
          Feasible(c.op, c.p, c.q, c.k, c.dec, y, x.den) => ox <= Obj2(c.op, c.p, c.q, c.v, y, x.den)
    /\ n <= BoxN =>
         \A y0 \in SeqsOver((-Box)..Box, n) :
          \A y \in {ScaleS(x.den, y0)} :
          Feasible(c.op, c.p, c.q, c.k, c.dec, y, x.den) => ox <= Obj2(c.op, c.p, c.q, c.v, y, x.den)

(* first-order conditions, exact *)
\* l2 block threshold: x = 0 and |v| <= t, or x # 0 and (v - x)|x| = t x  with x = a v, a = x.num/x.den ratio
L2KKT(c, x) ==
    LET N == ISqrt(Norm2(c.v)) IN          \* only evaluated when Norm2(v) is a perfect square
    IF \A i \in 1..Len(c.v) : x.num[i] = 0 THEN N * c.q <= c.p
    ELSE \* x = (a/b) v with a/b = (Nq - p)/(Nq) in (0,1];  |x| = (a/b) N;  (v - x)|x| = t x  <=>  (1 - a/b) N = t
         /\ N * c.q > c.p
         /\ \A i \in 1..Len(c.v) : x.num[i] * N * c.q = c.v[i] * (N * c.q - c.p) * x.den
\* smoothness: (q I + p T) x = q v exactly
SmoothKKT(c, x) ==
    LET n == Len(c.v)
        A == SmoothMat(n, c.p, c.q) IN
    /\ x.den # 0
    /\ \A r \in 1..n : SumQ([j \in 1..n |-> A[r][j] * x.num[j]]) = c.q * c.v[r] * x.den
\* l1: subgradient condition  v_i - x_i = t sign(x_i)  or  |v_i| <= t when x_i = 0
L1KKT(c, x) ==
    \A i \in 1..Len(c.v) :
        IF x.num[i] = 0 THEN AbsI(c.v[i]) * c.q <= c.p
        ELSE (c.v[i] * x.den - x.num[i]) * c.q = c.p * SgnI(x.num[i]) * x.den
\* projection on a convex set K containing the lattice points y: <v - x, y - x> <= 0
VarIneq(c, x) ==
    Len(c.v) <= BoxN =>
    \A y \in SeqsOver((-Box)..Box, Len(c.v)) :
        Feasible(c.op, c.p, c.q, c.k, c.dec, ScaleS(x.den, y), x.den)
           => SumQ([i \in 1..Len(c.v) |-> (c.v[i] * x.den - x.num[i]) * (y[i] * x.den - x.num[i])]) <= 0

(* sparsity projections: all admissible supports *)
HardOptimal(c, x) ==
    LET n == Len(c.v) IN
    \A T \in {T \in SUBSET (1..n) : Cardinality(T) <= c.k} :
        \* the best point supported in T is v restricted to T, at squared distance |v|^2 - E(T)
        Norm2(AddS(x.num, ScaleS(-1, c.v))) <= Norm2(c.v) - Energy(c.v, T)
\* nearest point of the k-sparse unit sphere maximises <x, v>; every integer w (|w|_0 <= k) gives the
\* feasible competitor w/|w|:  <w,v>/|w| <= sqrt(BestEnergy)   (compared in squares, exact for all v)
NormSparseOptimal(c) ==
    LET n == Len(c.v)
        E == BestEnergy(c.v, c.k) IN
    n <= BoxN =>
    \A w \in SeqsOver((-Box)..Box, n) :
        (NNZ(w) <= c.k /\ NNZ(w) > 0 /\ Dot(w, c.v) > 0) => Dot(w, c.v) * Dot(w, c.v) <= E * Norm2(w)

(* the operator applied to a rational input num/den, by the scale law *)
AllowedQ(op, p, q, k, dec, num, den) ==
    LET law == ScaleLaw(op) IN
    IF law = "hom" THEN {Rat(r.num, r.den * den) : r \in Allowed(op, p * den, q, k, dec, num)}
    ELSE IF law = "lin" THEN {Rat(r.num, r.den * den) : r \in Allowed(op, p, q, k, dec, num)}
    ELSE Allowed(op, p, q, k, dec, num)

Idempotent(c, x) ==
    \A y \in AllowedQ(c.op, c.p, c.q, c.k, c.dec, x.num, x.den) : RatEq(y, x)

Homogeneous(c, A1) ==
    \A m \in {2, 3} :
        LET law == ScaleLaw(c.op) IN
        \A Am \in {Allowed(c.op, IF law = "hom" THEN m * c.p ELSE c.p, c.q, c.k, c.dec, ScaleS(m, c.v))} :
        /\ \A x \in A1 : \E y \in Am : RatEq(y, IF law = "inv" THEN x ELSE Rat(ScaleS(m, x.num), x.den))
        /\ Cardinality(Am) = Cardinality(A1)

(* firm non-expansiveness  <Px - Py, x - y> >= |Px - Py|^2  of a convex prox, on the pair (v, w)  *)
FNE(X, c, w) ==
    \A Y \in {CHOOSE y \in Allowed(c.op, c.p, c.q, c.k, c.dec, w) : TRUE} :
    \* Px - Py over the common denominator X.den * Y.den
    \A D \in {[i \in 1..Len(w) |-> X.num[i] * Y.den - Y.num[i] * X.den]} :
        SumQ([i \in 1..Len(w) |-> D[i] * (c.v[i] - w[i])]) * X.den * Y.den >= Norm2(D)

-----------------------------------------------------------------------------
(* The exact domain, and the theorems evaluated on each of its points                             *)
Vecs(n) == SeqsOver((-Box)..Box, n)

CfgOK(c) ==
    \A A \in {AllowedC(c)} : \A rational \in {Rational(c.op, c.k, c.v)} :
    /\ A # {}
    /\ c.op \notin SetValued => Cardinality(A) = 1
    /\ rational =>
         \A x \in A :
            /\ x.den > 0 /\ Len(x.num) = Len(c.v)
            /\ Feasible(c.op, c.p, c.q, c.k, c.dec, x.num, x.den)
            /\ c.op \in {"nonneg", "l1", "l2sq", "smooth", "simplex", "l1ball", "mono", "unimodal"}
                   => OptimalVsLattice(c, x)
            /\ c.op \in {"nonneg", "simplex", "l1ball", "mono"} => VarIneq(c, x)
            /\ c.op = "l1" => L1KKT(c, x)
            /\ c.op = "l2" => L2KKT(c, x)
            /\ c.op = "smooth" => SmoothKKT(c, x)
            /\ c.op = "hard" => HardOptimal(c, x)
            /\ c.op \in Projections => Idempotent(c, x)
    /\ c.op = "normsparse" => NormSparseOptimal(c)
    /\ rational => Homogeneous(c, A)
    /\ (rational /\ c.op \in ConvexOps /\ Len(c.v) <= FneN) =>
          \A X \in {CHOOSE x \in A : TRUE} :
          \A w \in Vecs(Len(c.v)) : Rational(c.op, c.k, w) => FNE(X, c, w)
    \* the two definitions of "unimodal" agree (so that the best split is the nearest unimodal point)
    /\ c.op = "unimodal" => (IsUnimodal(c.v) <=> IsSplit(c.v))

-----------------------------------------------------------------------------
(* 13/14. Singular value thresholding (prox of t times the nuclear norm) and the Procrustes operator (nearest      *)
(* matrix with orthonormal columns/rows) on matrices whose SVD is known in closed form:           *)
(*     M = sum_l c_l u_l v_l^T,   u_l / v_l taken from orthogonal integer frames of equal norm,   *)
(* so that sigma_l = |c_l| N with N = |u||v| an integer.  Generalised permutation matrices are    *)
(* the case of two unit frames.  SVT(M) = sum_l sign(c_l) max(sigma_l - t, 0) u_l v_l^T / N;      *)
(* Procrustes(M) = sum_l sign(c_l) u_l v_l^T / N  (unique iff all c_l # 0).                       *)
UnitV(d, j) == [i \in 1..d |-> IF i = j THEN 1 ELSE 0]
UnitFrames(d) == {[i \in 1..d |-> UnitV(d, pi[i])] : pi \in Permutations(1..d)}
IdFrame(d) == [i \in 1..d |-> UnitV(d, i)]
H2 == << <<1, 1>>, <<1, -1>> >>
R2 == << <<3, 4>>, <<-4, 3>> >>
Q3 == << <<1, 2, 2>>, <<2, 1, -2>>, <<2, -2, 1>> >>
LeftFrames(d) == IF d = 1 THEN {IdFrame(1)} ELSE IF d = 2 THEN {IdFrame(2), H2, R2} ELSE {IdFrame(3), Q3}
RightFrames(d) == IF d = 1 THEN {IdFrame(1)} ELSE IF d = 2 THEN UnitFrames(2) \cup {H2, R2} ELSE UnitFrames(3) \cup {Q3}
FrameSq(F) == Norm2(F[1])
IsFrame(F, d) == /\ Len(F) = d
                 /\ \A a \in 1..d : Len(F[a]) = d /\ Norm2(F[a]) = FrameSq(F)
                 /\ \A a, b \in 1..d : a # b => Dot(F[a], F[b]) = 0
\* admissible pairs of frames: rational singular values, bounded entries
FramePairOK(uf, vf) == LET s == FrameSq(uf) * FrameSq(vf) IN s <= 81 /\ IsSquare(s)
RankOf(mc) == MinI(mc.m, mc.n)
SvdN(mc) == ISqrt(FrameSq(mc.uf) * FrameSq(mc.vf))
Comb(mc, w) == [i \in 1..mc.m |-> [j \in 1..mc.n |->
                  SumQ([l \in 1..RankOf(mc) |-> w[l] * mc.uf[l][i] * mc.vf[l][j]])]]
MatOf(mc) == Comb(mc, mc.c)
SvtNum(mc) == Comb(mc, [l \in 1..RankOf(mc) |-> SgnI(mc.c[l]) * PosI(AbsI(mc.c[l]) * SvdN(mc) * mc.q - mc.p)])
SvtDen(mc) == SvdN(mc) * mc.q
\* For rank-deficient M (some c_l = 0) the nearest matrices with orthonormal columns/rows are a SET: the singular
\* pairs of the zero singular values may be completed in any orthonormal way.  ProcNum is the completion with sign +1;
\* the set itself is characterised by  Q^T Q = I (Q Q^T = I when wide)  and  <Q, M> = nuclear norm of M.
SgnP(x) == IF x < 0 THEN -1 ELSE 1
ProcNum(mc) == Comb(mc, [l \in 1..RankOf(mc) |-> SgnP(mc.c[l])])
\* the partial isometry that drops the zero singular pairs -- NOT an allowed answer unless M has full rank
ProcPartialNum(mc) == Comb(mc, [l \in 1..RankOf(mc) |-> SgnI(mc.c[l])])
NuclearNorm(mc) == SvdN(mc) * SumQ(AbsS(mc.c))
ProcDen(mc) == SvdN(mc)
FullRank(mc) == \A l \in 1..RankOf(mc) : mc.c[l] # 0
Frob2(A) == SumQ([i \in 1..Len(A) |-> Norm2(A[i])])
FrobDot(A, B) == SumQ([i \in 1..Len(A) |-> Dot(A[i], B[i])])
MatSub(A, B) == [i \in 1..Len(A) |-> [j \in 1..Len(A[i]) |-> A[i][j] - B[i][j]]]
MatScale(k, A) == [i \in 1..Len(A) |-> ScaleS(k, A[i])]

Coefs(r, S) == [1..r -> S]
\* the other members of the family with the same shape (competitors), coefficients in S
SameShape(mc, S) ==
    UNION {UNION {{[m |-> mc.m, n |-> mc.n, uf |-> uf, vf |-> vf, c |-> c, p |-> mc.p, q |-> mc.q]
                      : c \in Coefs(RankOf(mc), S)}
                  : vf \in {w \in RightFrames(mc.n) : FramePairOK(uf, w)}}
           : uf \in LeftFrames(mc.m)}

\* 2 q^2 (t nuc(Y) + 1/2 |Y - M|_F^2) for the SVT answer X and for an integer competitor Y of the family
SvtObjX(mc) == LET N == SvdN(mc)
                   sh(l) == PosI(AbsI(mc.c[l]) * N * mc.q - mc.p)            \* q * shrunk sigma
               IN  SumQ([l \in 1..RankOf(mc) |-> 2 * mc.p * sh(l)
                           + (AbsI(mc.c[l]) * N * mc.q - sh(l)) * (AbsI(mc.c[l]) * N * mc.q - sh(l))])
SvtObjY(mc, M, y) == 2 * mc.p * mc.q * SvdN(y) * SumQ(AbsS(y.c)) + mc.q * mc.q * Frob2(MatSub(MatOf(y), M))

MatOK(mc) ==
    LET r == RankOf(mc)
        N == SvdN(mc) IN
    \A M \in {MatOf(mc)} :
    /\ IsFrame(mc.uf, mc.m) /\ IsFrame(mc.vf, mc.n) /\ FramePairOK(mc.uf, mc.vf) /\ N * N = FrameSq(mc.uf) * FrameSq(mc.vf)
    /\ mc.op = "svt" =>
         \* generalised permutation matrices: SVT is the entrywise soft threshold
         /\ (FrameSq(mc.uf) = 1 /\ FrameSq(mc.vf) = 1) =>
               \A i \in 1..mc.m : RatEq(Rat(SvtNum(mc)[i], SvtDen(mc)), Soft(M[i], mc.p, mc.q))
         \* |X|_F^2 computed entrywise = sum of the squared shrunk singular values (numerators: times N^2)
         /\ Frob2(SvtNum(mc)) = N * N * SumQ([l \in 1..r |-> PosI(AbsI(mc.c[l]) * N * mc.q - mc.p) * PosI(AbsI(mc.c[l]) * N * mc.q - mc.p)])
         \* global optimality against the members of the family of the same shape (other singular frames too)
         /\ mc.m * mc.n <= SvdCompSize => \A ox \in {SvtObjX(mc)} : \A y \in SameShape(mc, (-2)..2) : ox <= SvtObjY(mc, M, y)
    /\ mc.op = "procrustes" =>
         \A P \in {ProcNum(mc)} : \A pm \in {FrobDot(P, M)} :
         \* rank-deficient input: dropping the zero singular pairs loses orthonormality (|Q|_F^2 = rank < min(m, n)),
         \* although it keeps <Q, M> = nuclear norm
         /\ ~FullRank(mc) => /\ Frob2(ProcPartialNum(mc)) < r * N * N
                             /\ FrobDot(ProcPartialNum(mc), M) = pm
         /\ pm = N * NuclearNorm(mc)
         \* orthonormal columns (m >= n) or rows (m <= n)
         /\ mc.m >= mc.n => \A a, b \in 1..mc.n :
                SumQ([i \in 1..mc.m |-> P[i][a] * P[i][b]]) = IF a = b THEN N * N ELSE 0
         /\ mc.m <= mc.n => \A a, b \in 1..mc.m : Dot(P[a], P[b]) = IF a = b THEN N * N ELSE 0
         \* nearest: <Q, M> >= <Y, M> for every orthonormal competitor Y of the family (|Q|_F = |Y|_F)
         /\ \A y \in SameShape(mc, {-1, 1}) : pm * SvdN(y) >= FrobDot(ProcNum(y), M) * N
         \* <Q, M> is the nuclear norm
         /\ pm = N * N * SumQ(AbsS(mc.c))

SvtParams == {<<1, 2>>, <<1, 1>>, <<3, 1>>}
Shapes2 == {<<2, 2>>, <<2, 3>>, <<3, 2>>, <<3, 3>>, <<1, 2>>, <<1, 3>>, <<2, 1>>, <<3, 1>>}    \* incl. a single row / column
ValidMat(mc) == /\ <<mc.m, mc.n>> \in Shapes2
                /\ mc.uf \in LeftFrames(mc.m) /\ mc.vf \in RightFrames(mc.n) /\ FramePairOK(mc.uf, mc.vf)
                /\ mc.c \in Coefs(RankOf(mc), (-2)..2)
                /\ IF mc.op = "svt" THEN <<mc.p, mc.q>> \in SvtParams
                   ELSE mc.op = "procrustes" /\ mc.p = 0 /\ mc.q = 1

-----------------------------------------------------------------------------
(* Array-valued threshold (operator "l1arr"): configuration [op, p = 0, q, k = 0, dec = FALSE, v, t].            *)
ArrQ == 2
ArrTSet == {0, 1, 2, 6}                      \* t_i = 0 ("ignored"), 1/2, 1, 3 (above every |v_i| of the domain)
ValidArr(v, t, q) == /\ q = ArrQ /\ Len(v) \in 1..3 /\ Len(t) = Len(v)
                     /\ \A i \in 1..Len(v) : v[i] \in (-Box)..Box /\ t[i] \in ArrTSet
\* 2 q den^2 (sum_i t_i |x_i| + 1/2 |x - v|^2)
ObjArr(v, t, q, num, den) ==
    2 * den * SumQ([i \in 1..Len(v) |-> t[i] * AbsI(num[i])])
      + q * SumQ([i \in 1..Len(v) |-> (num[i] - den * v[i]) * (num[i] - den * v[i])])
ArrOK(c) ==
    LET n == Len(c.v) IN
    \A x \in {SoftArr(c.v, c.t, c.q)} : \A ox \in {ObjArr(c.v, c.t, c.q, x.num, x.den)} :
    /\ ValidArr(c.v, c.t, c.q)
    \* subgradient condition, entry by entry; a zero threshold leaves the entry untouched
    /\ \A i \in 1..n :
          /\ IF x.num[i] = 0 THEN AbsI(c.v[i]) * c.q <= c.t[i]
             ELSE (c.v[i] * x.den - x.num[i]) * c.q = c.t[i] * SgnI(x.num[i]) * x.den
          /\ c.t[i] = 0 => x.num[i] = c.v[i] * x.den
    \* optimal against lattice neighbours and the integer box
    /\ \A d \in Deltas(n) : ox <= ObjArr(c.v, c.t, c.q, AddS(x.num, d), x.den)
    /\ \A y \in SeqsOver((-Box)..Box, n) : ox <= ObjArr(c.v, c.t, c.q, ScaleS(x.den, y), x.den)
    \* a constant array is the scalar operator
    /\ (\A i \in 1..n : c.t[i] = c.t[1]) => RatEq(x, Soft(c.v, c.t[1], c.q))
    \* positively homogeneous in (v, t)
    /\ \A m \in {2, 3} : RatEq(SoftArr(ScaleS(m, c.v), ScaleS(m, c.t), c.q), Rat(ScaleS(m, x.num), x.den))
    \* firmly non-expansive
    /\ n <= FneN => \A w \in Vecs(n) :
          \A Y \in {SoftArr(w, c.t, c.q)} :
          \A D \in {[i \in 1..n |-> x.num[i] * Y.den - Y.num[i] * x.den]} :
              SumQ([i \in 1..n |-> D[i] * (c.v[i] - w[i])]) * x.den * Y.den >= Norm2(D)

-----------------------------------------------------------------------------
(* Parameter grids (strictly positive) and the enumeration of the domain as TLC states            *)
Fam(op, p, q, k, dec) == [op |-> op, p |-> p, q |-> q, k |-> k, dec |-> dec]
Families ==
         {Fam("nonneg", 0, 1, 0, FALSE), Fam("unimodal", 0, 1, 0, FALSE), Fam("normalize", 0, 1, 0, FALSE)}
    \cup {Fam("l1", p, 2, 0, FALSE) : p \in {1, 2, 3}}                \* t = 1/2, 1, 3/2
    \cup {Fam("l2", p, 2, 0, FALSE) : p \in {1, 2, 4, 6}}             \* t = 1/2, 1, 2, 3
    \cup {Fam("l2sq", p, 2, 0, FALSE) : p \in {1, 2}}                 \* t = 1/2, 1
    \cup {Fam("smooth", 1, 2, 0, FALSE), Fam("smooth", 1, 1, 0, FALSE), Fam("smooth", 2, 1, 0, FALSE)}
    \cup {Fam("simplex", p, 2, 0, FALSE) : p \in {1, 2, 4, 6}}        \* r = 1/2, 1, 2, 3
    \cup {Fam("l1ball", p, 2, 0, FALSE) : p \in {1, 2, 4, 6}}
    \cup {Fam("mono", 0, 1, 0, d) : d \in BOOLEAN}
    \cup {Fam("hard", 0, 1, k, FALSE) : k \in 1..3}
    \cup {Fam("normsparse", 0, 1, k, FALSE) : k \in 1..3}

ValidFam(f) == Fam(f.op, f.p, f.q, f.k, f.dec) \in Families
ValidVec(v) == Len(v) \in 1..MaxN /\ \A i \in 1..Len(v) : v[i] \in (-Box)..Box

VARIABLE cfg
NoCfg == [op |-> "none"]
\* one initial state per (family, length, first entry) so that TLC's workers share the enumeration;
\* one successor per vector; SpecOK is evaluated in every state
Init == \/ cfg \in {[op |-> "start", fam |-> f, n |-> n, head |-> h,
                       columnwise |-> f.op \in ColumnwiseOps, law |-> ScaleLaw(f.op)]
                         : f \in Families, n \in 1..MaxN, h \in (-Box)..Box}
        \/ cfg \in {[op |-> "startm", mop |-> o[1], p |-> o[2], q |-> o[3], m |-> sh[1], n |-> sh[2], uf |-> uf, vf |-> vf]
                         : o \in {<<"svt", t[1], t[2]>> : t \in SvtParams} \cup {<<"procrustes", 0, 1>>},
                           sh \in Shapes2,
                           uf \in UNION {LeftFrames(d) : d \in {1, 2, 3}}, vf \in UNION {RightFrames(d) : d \in {1, 2, 3}}}
        \/ cfg \in {[op |-> "starta", n |-> n, head |-> h, t1 |-> t1, columnwise |-> TRUE, law |-> ScaleLaw("l1arr")]
                         : n \in 1..3, h \in (-Box)..Box, t1 \in ArrTSet}
Next == \/ /\ cfg.op = "starta"
           /\ cfg' \in {[op |-> "l1arr", p |-> 0, q |-> ArrQ, k |-> 0, dec |-> FALSE, v |-> v, t |-> t]
                          : v \in {v \in Vecs(cfg.n) : v[1] = cfg.head},
                            t \in {t \in [1..cfg.n -> ArrTSet] : t[1] = cfg.t1}}
        \/ /\ cfg.op = "start"
           /\ cfg' \in {[op |-> cfg.fam.op, p |-> cfg.fam.p, q |-> cfg.fam.q, k |-> cfg.fam.k, dec |-> cfg.fam.dec, v |-> v]
                          : v \in {v \in Vecs(cfg.n) : v[1] = cfg.head}}
        \/ /\ cfg.op = "startm"
           /\ Len(cfg.uf) = cfg.m /\ Len(cfg.vf) = cfg.n /\ FramePairOK(cfg.uf, cfg.vf)
           /\ cfg' \in {mc \in {[op |-> cfg.mop, p |-> cfg.p, q |-> cfg.q, m |-> cfg.m, n |-> cfg.n, uf |-> cfg.uf, vf |-> cfg.vf, c |-> c]
                                   : c \in Coefs(MinI(cfg.m, cfg.n), (-2)..2)} : ValidMat(mc)}
Spec == Init /\ [][Next]_cfg
MatOps == {"svt", "procrustes"}
SpecOK == /\ cfg.op \notin {"start", "startm", "starta", "none", "l1arr"} \cup MatOps => (Degenerate(cfg.op, cfg.v) \/ CfgOK(cfg))
          /\ cfg.op = "l1arr" => ArrOK(cfg)
          /\ cfg.op \in MatOps => ValidMat(cfg) /\ MatOK(cfg)
=============================================================================
