--------------------------- MODULE SVDDecompTrace ---------------------------
(* C09 trace validation.  One event = one call of tucker / tensor_train / tensor_train_matrix /       *)
(* tensor_ring of the real tensorly code:                                                            *)
(*   e.cfg  = [op, shape, rank, mode]      e.svd, e.iters (tucker only, else 0), e.dtype of the input   *)
(*   e.ten  = [op |-> "matching", shape, idx, vals]  (exact tier; e.data = the entries fed to the     *)
(*            code) or [op |-> "measured", shape, fam] with e.tails = measured tails of the           *)
(*            unfoldings relative to ||X||^2 (scale 10^8)                                              *)
(*   e.out  = [raised, ranks, err2_q, fin]   err2_q on the scale of the tails                         *)
(* Clauses in order: InDomain, Outcome, Ranks, Finite, ExactAtSufficientRank, LowerBound, UpperBound. *)
EXTENDS SVDDecomp, Json, IOUtils

Events == ndJsonDeserialize(IOEnv.TRACE_FILE)

VARIABLE i

IsInts(s) == \A t \in 1..Len(s) : s[t] >= 0 /\ s[t] <= 2000000000

MeasuredOK(e) ==
    LET c == e.cfg IN
    /\ e.ten.shape = c.shape
    /\ Len(e.tails) = NUnf(c)
    /\ \A j \in 1..NUnf(c) :
          LET tj == e.tails[j]  mr == MinOf(UnfDims(c, j)[1], UnfDims(c, j)[2]) IN
          /\ Len(tj) = mr + 1 /\ IsInts(tj)
          /\ Abs(tj[1] - RelScale) <= 1 /\ tj[mr + 1] = 0          \* Tail(j, 0) = ||X||^2, Tail(j, full) = 0
          /\ \A r \in 1..mr : tj[r] >= tj[r + 1]

InDomain(e) ==
    /\ ValidCfg(e.cfg)
    /\ e.dtype \in Dtypes
    /\ (e.dtype \in {"int64", "int32"} => e.ten.op = "matching" \/ e.ten.fam \in IntegerFams)
    /\ e.svd \in Svds /\ e.iters \in Iters \cup {0} /\ (e.cfg.op # "tucker" => e.iters = 0)
    /\ IF e.ten.op = "matching"
       THEN /\ ValidMatching(e.ten) /\ e.ten.shape = e.cfg.shape /\ e.data = DataOf(e.ten)
            /\ (e.svd = "randomized_svd" => Raises(e.cfg) \/ RandCovered(e.cfg, Len(e.ten.vals)))
       ELSE /\ e.ten.op = "measured" /\ MeasuredOK(e)
            /\ e.svd # "randomized_svd"        \* not an exact method on dense data (no oversampling control here)

Verdict(e) ==
    IF ~InDomain(e) THEN "InDomain"
    ELSE IF e.out.raised # Raises(e.cfg) THEN "Outcome"
    ELSE IF e.out.raised /\ e.out.exc # "ValueError" THEN "Outcome"
    ELSE IF e.out.raised THEN "ok"
    ELSE IF e.out.ranks # ExpRanks(e.cfg) THEN "Ranks"
    ELSE IF ~e.out.fin THEN "Finite"
    ELSE LET tails == IF e.ten.op = "matching" THEN ExactTails(e.cfg, e.ten) ELSE e.tails
             lb == LowerBound(e.cfg, tails)
             ub == UpperBound(e.cfg, tails)
             sl == SlackFor(NUnf(e.cfg), e.dtype)
         IN  IF ub = 0 /\ e.out.err2_q > Slack(NUnf(e.cfg)) THEN "ExactAtSufficientRank"
             ELSE IF e.out.err2_q < lb - sl THEN "LowerBound"
             ELSE IF e.out.err2_q > ub + sl THEN "UpperBound"
             ELSE "ok"

TraceInit == i = 1 /\ cfg = NoCfg
TraceNext == /\ i <= Len(Events)
             /\ i' = i + 1 /\ UNCHANGED cfg
             /\ LET v == Verdict(Events[i]) IN
                  IF v = "ok" THEN TRUE ELSE PrintT(<<"REJECT", Events[i].id, v>>)
TraceSpec == TraceInit /\ [][TraceNext]_<<i, cfg>>
TraceAccepted == TLCGet("stats").diameter - 1 = Len(Events)
=============================================================================
