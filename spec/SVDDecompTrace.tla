--------------------------- MODULE SVDDecompTrace ---------------------------
(* C09 trace validation.  One event = one call of tucker / tensor_train / tensor_train_matrix /       *)
(* tensor_ring of the real tensorly code:                                                            *)
(*   e.cfg  = [op, shape, rank, mode]      e.svd, e.iters (tucker only, else 0), e.dtype of the input   *)
(*   e.rspec / e.frac = how the rank was specified, e.via = function | class | refit (e.pre = shape of   *)
(*            the tensor the same estimator was fitted on first)                                      *)
(*   e.ten  = [op |-> "matching", shape, idx, vals]  (exact tier; e.data = the entries fed to the     *)
(*            code) or [op |-> "measured", shape, fam] with e.tails = measured tails of the           *)
(*            unfoldings relative to ||X||^2 (scale 10^8), or [op |-> "rotated", shape, idx, vals, exps] *)
(*            (graded tier: a matching tensor with entries vals * 2^exps, rotated by orthogonal matrices  *)
(*            in every mode; e.out.err2_lv = err^2 in the units of every level)                           *)
(*   e.out  = [raised, ranks, err2_q, rel_q, fin]   err2_q on the scale of the tails, rel_q = relative   *)
(*            error * 10^12 (capped at 2 * 10^9)                                                        *)
(* Clauses in order: InDomain, Outcome, Ranks, Finite, ExactAtSufficientRank, LowerBound, UpperBound. *)
EXTENDS SVDDecomp, Json, IOUtils

Events == ndJsonDeserialize(IOEnv.TRACE_FILE)

VARIABLE i

IsInts(s) == \A t \in 1..Len(s) : s[t] >= 0 /\ s[t] <= 2000000000

MeasuredOK(e) ==
    LET c == e.cfg IN
    /\ e.ten.shape = c.shape
    /\ Len(e.tails) = NUnf(c)
    /\ \A j \in 1..NUnf(c) :
          LET tj == e.tails[j]  mr == MinOf(UnfDims(c, j)[1], UnfDims(c, j)[2]) IN
          /\ Len(tj) = mr + 1 /\ IsInts(tj)
          /\ Abs(tj[1] - RelScale) <= 1 /\ tj[mr + 1] = 0          \* Tail(j, 0) = ||X||^2, Tail(j, full) = 0
          /\ \A r \in 1..mr : tj[r] >= tj[r + 1]

InDomain(e) ==
    /\ ValidCfg(e.cfg)
    /\ e.dtype \in Dtypes
    /\ e.pow2 \in Pow2s /\ (e.pow2 # 0 => e.dtype = "float64") /\ Pow2OK(e.svd, e.pow2)
    /\ (IOEnv.C09_KNOWN_BAD = "include" \/ ~KnownBadCombination(e.svd, e.dtype, e.pow2))   \* ./check C09 --opt known_bad=include
    /\ (e.dtype \in {"int64", "int32"} => e.ten.op = "matching" \/ e.ten.fam \in IntegerFams)
    /\ ValidRankSpec(e.cfg, e.rspec, e.frac) /\ e.via \in Vias
    /\ ValidHow(e)
    /\ e.mspec \in ModeSpecs /\ (e.cfg.op # "tr" => e.mspec = "int")
    /\ (e.via = "refit" => /\ Len(e.pre) = Len(e.cfg.shape)
                            /\ \A k \in 1..Len(e.pre) : e.pre[k] \in 1..16)       \* shape of the tensor fitted first
    /\ e.svd \in Svds /\ e.iters \in Iters \cup {0} /\ (e.cfg.op # "tucker" => e.iters = 0)
    /\ IF e.ten.op = "matching"
       THEN /\ ValidMatching(e.ten) /\ e.ten.shape = e.cfg.shape /\ e.data = DataOf(e.ten)
            /\ (e.svd = "randomized_svd" => Raises(e.cfg) \/ RandCovered(e.cfg, Len(e.ten.vals)))
       ELSE IF e.ten.op = "rotated"
       THEN /\ ValidRotated(e.ten) /\ GradedOK(e.svd, e.ten) /\ e.ten.shape = e.cfg.shape /\ e.pow2 = 0 /\ e.dtype = "float64"
            /\ Len(e.out.err2_lv) = Len(Levels)
            /\ (e.svd = "randomized_svd" => Raises(e.cfg) \/ RandCovered(e.cfg, Len(e.ten.vals)))
       ELSE /\ e.ten.op = "measured" /\ MeasuredOK(e)
            /\ e.svd # "randomized_svd"        \* not an exact method on dense data (no oversampling control here)

\* c: the configuration whose rank vector the bounds read (the request, or for computed specifications the
\* returned ranks)
\* graded tier: e.out.err2_lv[k] = rint(err^2 / 4^Levels[k] * 10^6), capped at 2 * 10^9
JudgeGraded(e, c) ==
    LET d  == GradedSpectrum(e.ten)
        lo == LowerVec(c, d)
        up == UpperVec(c, d)
        J  == NUnf(c)
    IN  IF IsZeroVec(up) THEN (IF e.out.rel_q > ExactRelTol(e.dtype) THEN "ExactAtSufficientRank" ELSE "ok")
        ELSE LET L  == LeadLevel(up)
                 ub == AtLevel(up, L) + Len(Levels)                       \* (+1 per truncated division)
             IN  IF e.out.err2_lv[LevelIndex(L)] > ub + LevelSlack(J, ub, L) THEN "UpperBound"
                 ELSE IF IsZeroVec(lo) THEN "ok"
                 ELSE LET M  == LeadLevel(lo)
                          lb == AtLevel(lo, M)
                      IN  IF e.out.err2_lv[LevelIndex(M)] < lb - LevelSlack(J, lb, M) THEN "LowerBound" ELSE "ok"

Judge(e, c) ==
    IF ~e.out.fin THEN "Finite"
    ELSE IF e.ten.op = "rotated" THEN JudgeGraded(e, c)
    ELSE LET tails == IF e.ten.op = "matching" THEN ExactTails(c, e.ten) ELSE e.tails
             lb == LowerBound(c, tails)
             ub == UpperBound(c, tails)
             sl == SlackFor(NUnf(c), e.dtype)
         IN  IF ub = 0 /\ e.out.err2_q > Slack(NUnf(c)) THEN "ExactAtSufficientRank"
             \* to rounding error of the input's precision class, where the tails are known to be empty exactly
             \* (integer spectra of a matching tensor / ranks covering the full unfoldings), not just below the quantum
             ELSE IF ub = 0 /\ (e.ten.op = "matching" \/ StructurallyFull(c)) /\ e.out.rel_q > ExactRelTol(e.dtype)
                  THEN "ExactAtSufficientRank"
             ELSE IF e.out.err2_q < lb - sl THEN "LowerBound"
             ELSE IF e.out.err2_q > ub + sl THEN "UpperBound"
             ELSE "ok"

RanksWellFormed(e) ==     \* of a computed specification: usable as a rank vector of this configuration
    /\ Len(e.out.ranks) = Len(e.cfg.rank)
    /\ \A k \in 1..Len(e.out.ranks) : e.out.ranks[k] \in 1..30

Verdict(e) ==
    IF ~InDomain(e) THEN "InDomain"
    ELSE IF Computed(e.rspec) THEN
         \* the ring's computed rank may be infeasible for the first unfolding (documented ValueError)
         IF e.out.raised THEN (IF e.cfg.op = "tr" /\ e.out.exc = "ValueError" THEN "ok" ELSE "Outcome")
         ELSE IF ~RanksWellFormed(e) THEN "Ranks"
         ELSE LET c == [e.cfg EXCEPT !.rank = e.out.ranks] IN
              IF Raises(c) \/ ExpRanks(c) # e.out.ranks THEN "Ranks"     \* boundary conditions, realisable
              ELSE Judge(e, c)
    ELSE IF Lenient(e.rspec, e.mspec) /\ e.out.raised /\ e.out.exc \in {"ValueError", "TypeError"} THEN "ok"     \* refused
    ELSE IF e.out.raised # Raises(e.cfg) THEN "Outcome"
    \* the documented error: a ValueError that is about the rank (not, e.g., a reshape failure further down)
    ELSE IF e.out.raised /\ (e.out.exc # "ValueError" \/ ~e.out.about_rank) THEN "Outcome"
    ELSE IF e.out.raised THEN "ok"
    ELSE IF e.out.ranks # ExpRanks(e.cfg) THEN "Ranks"
    ELSE Judge(e, e.cfg)

TraceInit == i = 1 /\ cfg = NoCfg
TraceNext == /\ i <= Len(Events)
             /\ i' = i + 1 /\ UNCHANGED cfg
             /\ LET v == Verdict(Events[i]) IN
                  IF v = "ok" THEN TRUE ELSE PrintT(<<"REJECT", Events[i].id, v>>)
TraceSpec == TraceInit /\ [][TraceNext]_<<i, cfg>>
TraceAccepted == TLCGet("stats").diameter - 1 = Len(Events)
=============================================================================
