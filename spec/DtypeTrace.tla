----------------------------- MODULE DtypeTrace -----------------------------
(* C18 trace validation.  Independent events (ids are short serials so that TLC prints each      *)
(* REJECT tuple on one line):                                                                     *)
(*  {"ev":"Result","id","entry","dtype":in,"outcome":"return"|"raise","decl":[{"p":path,"k":kind}],*)
(*   "outs":[{"p":path,"k":"array"|"scalar","dt":name}]}   every array / scalar reachable from the *)
(*        return value; only arrays are obliged ("every array returned")                           *)
(*  {"ev":"Promote","id","a","b","r"}    numpy.promote_types(a, b) = r, binds the lattice to NumPy  *)
EXTENDS Dtype, Json, IOUtils

Events == ndJsonDeserialize(IOEnv.TRACE_FILE)
VARIABLE i

SeqToSet(s) == {s[j] : j \in DOMAIN s}
DeclSet(e) == {<<e.decl[j].p, e.decl[j].k>> : j \in DOMAIN e.decl}
SpecRows(entry) == {<<r.p, r.kind>> : r \in RowsOf(entry)}

WellFormed(e) ==
    /\ {"id", "entry", "dtype", "outcome", "decl", "outs"} \subseteq DOMAIN e
    /\ \A j \in DOMAIN e.outs : {"p", "k", "dt"} \subseteq DOMAIN e.outs[j]
    /\ \A j \in DOMAIN e.decl : {"p", "k"} \subseteq DOMAIN e.decl[j]

\* slots (indices into e.outs) that violate their obligation
Failing(e) == {j \in DOMAIN e.outs :
                 e.outs[j].k = "array" /\ ~Accepts(Oblig(e.entry, e.outs[j].p), e.dtype, e.outs[j].dt)}

EventVerdict(e) ==
    IF ~WellFormed(e) THEN "Malformed"
    ELSE IF e.dtype \notin FloatTypes THEN "InputDtypeOutsideDomain"
    ELSE IF DeclSet(e) # SpecRows(e.entry) THEN "ObligationDeclMismatch"
    ELSE IF e.outcome # "return" THEN "ok"                 \* nothing returned, nothing obliged
    ELSE IF Failing(e) = {} THEN "ok" ELSE "Leak"

PromoteVerdict(e) ==
    IF ~({"a", "b", "r"} \subseteq DOMAIN e) THEN "Malformed"
    ELSE IF ~(e.a \in Types /\ e.b \in Types) THEN "Malformed"
    ELSE IF e.r = Join(e.a, e.b) THEN "ok" ELSE "LatticeDiffersFromNumPy"

TraceInit == i = 1 /\ cfg = NoCfg
TraceNext ==
    /\ i <= Len(Events)
    /\ i' = i + 1 /\ UNCHANGED cfg
    /\ LET e == Events[i] IN
       IF ~({"ev", "id"} \subseteq DOMAIN e) THEN PrintT(<<"REJECT", "?", "Malformed">>)
       ELSE IF e.ev = "Promote" THEN
            LET v == PromoteVerdict(e) IN IF v = "ok" THEN TRUE ELSE PrintT(<<"REJECT", e.id, v>>)
       ELSE IF e.ev = "Result" THEN
            LET v == EventVerdict(e) IN
            IF v = "ok" THEN TRUE
            ELSE IF v # "Leak" THEN PrintT(<<"REJECT", e.id, v>>)
            ELSE \A j \in Failing(e) :
                    PrintT(<<"REJECT", e.id, LeakClass(Oblig(e.entry, e.outs[j].p), e.dtype, e.outs[j].dt), j>>)
       ELSE PrintT(<<"REJECT", e.id, "Malformed">>)
TraceSpec == TraceInit /\ [][TraceNext]_<<i, cfg>>
TraceAccepted == TLCGet("stats").diameter - 1 = Len(Events)
=============================================================================
