------------------------------- MODULE IterLoop -------------------------------
(* Extension beyond the listed properties (DESIGN.md section 8): the CONTROL skeleton shared by the "plain" iterative      *)
(* decompositions -- HOOI (tucker / partial_tucker), non_negative_tucker, non_negative_tucker_hals, tensor_ring_als and      *)
(* tensor_ring_als_sampled -- implementation-shaped, one action per step of the loop body, parameterised by what differs   *)
(* between the two families (tensorly/decomposition/_tucker.py, _tr_als.py):                                               *)
(*                                                                                                                          *)
(*                        Tucker family                                   ring family                                       *)
(*   error recorded       every sweep                                     iff tol > 0 or a callback is installed             *)
(*   line printed         "reconstruction error=e, variation=d." from     "Iteration k finished[. Reconstruction error: e    *)
(*                        the THIRD sweep on (iteration > 1)              [, decrease = d], unnormalized = u]" every sweep   *)
(*   callback             none                                            after the line; a truthy return value stops        *)
(*   stopping rule        looked at from the third sweep on,              looked at from the second sweep on,                *)
(*                        |e[-2] - e[-1]| < tol                           e[-2] - e[-1] < tol  (an INCREASE stops as well)    *)
(*   message              "converged in k iterations."                    "tensor_ring_als converged after k iterations."    *)
(*                                                                                                                          *)
(* A third family, the CP routines without line search (non_negative_parafac, non_negative_parafac_hals,                    *)
(* constrained_parafac): an error is recorded iff tol is truthy (constrained_parafac: always), every sweep of a run with   *)
(* tol prints ("reconstruction error=e" for the first sweep, "iteration k, reconstruction error: e, decrease = d" after),  *)
(* the rule is looked at from the second sweep on with the comparison cvg_criterion selects, and constrained_parafac has  *)
(* one more, SILENT, exit between line and rule: the constraint error fell below tol_outer ("feasible").                   *)
(*                                                                                                                          *)
(* A fourth member, randomised_parafac, keeps the Tucker family's lines and first-check sweep but differs in ORDER and in   *)
(* its rule: the callback (called once before the loop as well) runs right after the sweep, BEFORE the error is recorded   *)
(* (and only a literal True stops), an error is recorded iff max_stagnation or tol is truthy, and the rule also fires      *)
(* when the error has not improved on its running minimum for more than max_stagnation sweeps (counter `stag`).            *)
(*                                                                                                                          *)
(* The verbose log of a real run is a trace of this specification (IterLoopTrace.tla); steps that print nothing are        *)
(* composed in front of the next printed event by the state functions below.                                              *)
EXTENDS Naturals, Integers, Sequences, TLC

CONSTANTS MaxLevel, LConfigs
\* a configuration: [alg, cap (n_iter_max), tol (truthy), cb (callback installed), cbstops (it returns True at some sweep),
\*                   signed (the rule is d < tol: an increase stops too; otherwise |d| < tol),
\*                   maxstag (randomised_parafac: max_stagnation; 0 elsewhere)]

VARIABLE s      \* [c, it, pc, errs, lvl, exit, ncb (callback calls so far), stag (sweeps since the running minimum), minl (that minimum)]
lvars == <<s>>

TuckerFamily == {"tucker", "nn_tucker", "nn_tucker_hals"}
RingFamily == {"tr_als", "tr_als_sampled"}
CPFamily == {"nn_parafac", "nn_parafac_hals", "constrained_parafac"}
Rand == "rand_parafac"
Algs == TuckerFamily \cup RingFamily \cup CPFamily \cup {Rand}
CbFirst(a) == a = Rand                                       \* the callback sits between sweep and record
FamilyOK(c) == /\ (c.alg \in TuckerFamily => ~c.signed /\ ~c.cb)
               /\ (c.alg = Rand => ~c.signed)
               /\ (c.alg # Rand => c.maxstag = 0)
               /\ (c.alg \in RingFamily => c.signed)
               /\ (c.alg \in CPFamily => ~c.cb)
               /\ (c.cbstops => c.cb)

FirstCheck(a) == IF a \in TuckerFamily \cup {Rand} THEN 2 ELSE 1        \* first iteration index at which the rule is looked at
RecordOn(c) == IF c.alg = Rand THEN c.tol \/ c.maxstag > 0
               ELSE c.alg \in TuckerFamily \/ c.alg = "constrained_parafac" \/ c.tol \/ c.cb     \* an error is recorded for every sweep
PrintDue(x) == \/ x.c.alg \in RingFamily                     \* (verbose runs) this sweep prints its line
               \/ x.c.alg \in TuckerFamily /\ x.it >= 2
               \/ x.c.alg = Rand /\ RecordOn(x.c) /\ x.it >= 2
               \/ x.c.alg \in CPFamily /\ x.c.tol
MayRise(a) == a = "tr_als_sampled"                           \* sampled least squares: the error of a sweep may exceed the last one
LastOf(q) == q[Len(q)]

\* the ring family calls an installed callback ONCE BEFORE the loop, with the error of the random start; what it returns is ignored
\* and that error is not recorded (the first sweep has no "decrease")
InitS(c, l) == [c |-> c, it |-> -1, pc |-> "top", errs |-> <<>>, lvl |-> l, exit |-> "none", ncb |-> IF c.cb THEN 1 ELSE 0,
                stag |-> 0, minl |-> -1]

\* ---- state functions ---------------------------------------------------------------------------------------------------
StartOK(x) == x.pc = "top" /\ x.it + 1 < x.c.cap
StartF(x) == [x EXCEPT !.it = x.it + 1, !.pc = "sweep"]

SweepOK(x) == x.pc = "sweep"
SweepF(x, new) == [x EXCEPT !.lvl = new, !.pc = IF CbFirst(x.c.alg) /\ x.c.cb THEN "cb" ELSE "rec"]

RecOK(x) == x.pc = "rec"
\* (randomised_parafac: a new running minimum -- or none yet -- resets the stagnation counter to 0, anything else adds one)
RecFI(x, e, improved) ==
    [x EXCEPT !.errs = IF RecordOn(x.c) THEN Append(x.errs, e) ELSE x.errs, !.pc = "print",
              !.stag = IF x.c.alg = Rand /\ RecordOn(x.c) THEN (IF improved THEN 0 ELSE x.stag + 1) ELSE x.stag,
              !.minl = IF x.c.alg = Rand /\ RecordOn(x.c) /\ improved THEN e ELSE x.minl]
RecF(x, e) == RecFI(x, e, x.minl = -1 \/ e < x.minl)

PrintOK(x) == x.pc = "print"
PrintF(x) == [x EXCEPT !.pc = IF x.c.cb /\ ~CbFirst(x.c.alg) THEN "cb" ELSE "tol"]

CbOK(x, stops) == x.pc = "cb" /\ x.c.cb /\ (stops => x.c.cbstops)
CbF(x, stops) == IF stops THEN [x EXCEPT !.exit = "cbstop", !.pc = "done", !.ncb = x.ncb + 1]
                 ELSE [x EXCEPT !.pc = IF CbFirst(x.c.alg) THEN "rec" ELSE "tol", !.ncb = x.ncb + 1]

RuleOn(x) == (x.c.tol \/ (x.c.alg = Rand /\ x.c.maxstag > 0)) /\ x.it >= FirstCheck(x.c.alg)
Stagnated(x) == x.c.alg = Rand /\ x.stag > 0 /\ x.stag > x.c.maxstag
TolOK(x, conv) == x.pc = "tol" /\ (conv => (RuleOn(x) /\ Len(x.errs) >= 2))
TolF(x, conv) == IF conv THEN [x EXCEPT !.exit = "converged", !.pc = "done"] ELSE [x EXCEPT !.pc = "top"]

\* constrained_parafac only: the constraint error fell below tol_outer (looked at where the rule is, before it; prints nothing)
FeasOK(x) == x.pc = "tol" /\ x.c.alg = "constrained_parafac" /\ RuleOn(x)
FeasF(x) == [x EXCEPT !.exit = "feasible", !.pc = "done"]

CapOK(x) == x.pc = "top" /\ x.it + 1 >= x.c.cap
CapF(x) == [x EXCEPT !.exit = "cap", !.pc = "done"]

----------------------------------------------------------------------------
(* Design model.  Levels stand for error values; a sweep never raises the level unless the algorithm samples; the rule is    *)
(* "no change" (|d| < tol) or, for a signed comparison, "no decrease" (d < tol).                                            *)
TolRule(x) == x.c.tol /\ (IF ~x.c.signed THEN x.errs[Len(x.errs) - 1] = LastOf(x.errs)
                          ELSE LastOf(x.errs) >= x.errs[Len(x.errs) - 1])
Rule(x) == TolRule(x) \/ Stagnated(x)

Init == \E c \in LConfigs, l \in 0..MaxLevel : s = InitS(c, l)
Start == StartOK(s) /\ s' = StartF(s)
Sweep == SweepOK(s) /\ \E new \in 0..MaxLevel : (MayRise(s.c.alg) \/ new <= s.lvl) /\ s' = SweepF(s, new)
Rec == RecOK(s) /\ s' = RecF(s, s.lvl)
PrintLine == PrintOK(s) /\ s' = PrintF(s)
Cb == \E stops \in BOOLEAN : CbOK(s, stops) /\ s' = CbF(s, stops)
Tol == \E conv \in BOOLEAN :
          /\ TolOK(s, conv)
          /\ (RuleOn(s) /\ Len(s.errs) >= 2) => (conv = Rule(s))
          /\ s' = TolF(s, conv)
CapExit == CapOK(s) /\ s' = CapF(s)
Feas == FeasOK(s) /\ s' = FeasF(s)

Next == Start \/ Sweep \/ Rec \/ PrintLine \/ Cb \/ Tol \/ Feas \/ CapExit
Spec == Init /\ [][Next]_lvars /\ WF_lvars(Next)

----------------------------------------------------------------------------
TypeOK == /\ s.c \in LConfigs /\ s.it \in -1..s.c.cap /\ s.pc \in {"top", "sweep", "rec", "print", "cb", "tol", "done"}
          /\ s.exit \in {"none", "cap", "converged", "cbstop", "feasible"} /\ s.lvl \in 0..MaxLevel
          /\ (s.pc = "done") = (s.exit # "none")
\* one recorded error per completed sweep (none at all when nothing asks for it)
\* the error of sweep `it` is in the list (randomised_parafac calls back BEFORE recording, also when that call stops the run)
Recorded(x) == \/ x.pc \in {"print", "tol", "top"}
               \/ x.pc = "cb" /\ ~CbFirst(x.c.alg)
               \/ x.pc = "done" /\ ~(CbFirst(x.c.alg) /\ x.exit = "cbstop")
LenLaw == Len(s.errs) = IF ~RecordOn(s.c) THEN 0 ELSE IF Recorded(s) THEN s.it + 1 ELSE s.it
\* the last recorded error is the error of the current iterate whenever a sweep is complete
LastErrOwnsIterate == (RecordOn(s.c) /\ Recorded(s) /\ s.it >= 0) => LastOf(s.errs) = s.lvl
ErrsMonotone == MayRise(s.c.alg) \/ \A k \in 1..(Len(s.errs) - 1) : s.errs[k + 1] <= s.errs[k]
\* every exit is justified; a rule exit has compared two errors of this run's own sweeps: at least three sweeps (Tucker family) / two (ring)
ExitLaw == /\ (s.exit = "cap") => s.it + 1 >= s.c.cap
           /\ (s.exit = "cbstop") => (s.c.cb /\ s.c.cbstops)
           /\ (s.exit = "converged") => (RuleOn(s) /\ Len(s.errs) >= 2 /\ Rule(s))
           /\ (s.exit = "feasible") => (s.c.alg = "constrained_parafac" /\ s.c.tol /\ s.it >= 1)
MinSweeps == (s.exit \in {"converged", "feasible"}) => s.it + 1 >= FirstCheck(s.c.alg) + 1
\* the callback sees every completed sweep exactly once, after the pre-loop call
CbCalls == s.ncb = IF ~s.c.cb THEN 0
                   ELSE IF s.it = -1 THEN 1
                   ELSE IF CbFirst(s.c.alg) THEN (IF s.pc \in {"sweep", "cb"} THEN s.it + 1 ELSE s.it + 2)
                   ELSE IF s.pc \in {"sweep", "rec", "print", "cb"} THEN s.it + 1 ELSE s.it + 2
\* the stagnation counter counts the recorded sweeps since the running minimum
StagLaw == (s.c.alg = Rand /\ RecordOn(s.c) /\ Len(s.errs) >= 1) =>
              /\ s.minl = CHOOSE m \in {s.errs[k] : k \in 1..Len(s.errs)} : \A k \in 1..Len(s.errs) : m <= s.errs[k]
              /\ s.stag <= Len(s.errs) - 1
              /\ s.errs[Len(s.errs) - s.stag] = s.minl
\* a zero budget does not sweep
ZeroBudget == (s.c.cap = 0) => (s.it = -1 /\ s.errs = <<>>)
\* never more sweeps than the budget
Budget == s.it + 1 <= s.c.cap
Terminates == <>(s.pc = "done")
\* the rule is never passed over: a run that goes on although the rule is on and satisfied does not exist
NotMissed == [][(s.pc = "tol" /\ s'.pc = "top" /\ RuleOn(s) /\ Len(s.errs) >= 2) => ~Rule(s)]_lvars
=============================================================================
