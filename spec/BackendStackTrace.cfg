SPECIFICATION TraceSpec
CONSTANTS
  Threads = {"t0", "t1", "t2"}
  Main = "t0"
  Mgrs <- MCMgrs
  Names <- MCNames3alt
  Default <- MCDefault
  BadNames <- MCBad
  MaxDepth = 6
  MaxOps = 1000000
  WithModes = TRUE
  Atomic = TRUE
  ExitFlavour = "entered"
INVARIANT TypeOK
INVARIANT GetIsLastSelected
PROPERTY LocalNoInterference
PROPERTY RejectedNoChange
POSTCONDITION TraceAccepted
CHECK_DEADLOCK FALSE
