------------------------- MODULE BackendStackTrace -------------------------
(* Trace validation for C17: every recorded operation of the real BackendManager /                *)
(* TenalgBackendManager must be a step of BackendStack (operation grain, Atomic = TRUE) whose      *)
(* resulting state projects onto what every reporting thread observed.                             *)
(* One ndjson file holds many traces; a "Reset" event starts the next one from Init.               *)
EXTENDS BackendStackMC, Json, IOUtils

Events == ndJsonDeserialize(IOEnv.TRACE_FILE)

VARIABLES i, failed
tvars == <<vars, i, failed>>

Fields == {"be", "ta"}

\* what thread u reports in state s: get_backend(), current_backend().backend_name, the tag of a
\* dynamically dispatched function and of a dispatched attribute -- all must be Get(s, u, m)
ObsMatch(e, s, d) ==
    \A u \in DOMAIN e.obs :
        /\ u \in Threads
        /\ \A m \in Mgrs :
             /\ \A f \in DOMAIN e.obs[u][m].state : e.obs[u][m].state[f] = NameOf(Get(s, u, m))
             /\ \A f \in DOMAIN e.obs[u][m].top : e.obs[u][m].top[f] = NameOf(TopDisp(s, u, m))
             /\ \A f \in DOMAIN e.obs[u][m].attr : e.obs[u][m].attr[f] = NameOf(AttrDisp(s, d, u, m))
             \* the OBJECT current_backend() returns is the one that was selected (by name: the registered instance)
             /\ ("inst" \in DOMAIN e.obs[u][m]) => \A f \in DOMAIN e.obs[u][m].inst : e.obs[u][m].inst[f] = Get(s, u, m)

Known(e) == e.name \in Names[e.m]

\* how a context was used: a `with` statement, or the context object applied as a DECORATOR (one object created once and
\* shared by every thread and every -- possibly recursive -- activation of the decorated function). The model has one Enter:
\* every activation owns its saved backend, whatever the form.
EnterForms == {"with", "deco"}
FormOK(e) == (e.ev = "Enter" /\ "form" \in DOMAIN e) => e.form \in EnterForms

Verdict(e) ==
    IF ~(e.t \in Threads /\ e.m \in Mgrs /\ FormOK(e)) THEN "Malformed"
    ELSE IF e.ev = "Query" THEN (IF ObsMatch(e, S, disp) THEN "ok" ELSE "ObsMismatch")
    ELSE IF e.ev = "Static" THEN
        (IF ObsMatch(e, S, [disp EXCEPT ![e.m] = Get(S, e.t, e.m)]) THEN "ok" ELSE "StaticDispatchMismatch")
    ELSE IF e.ev = "Dynamic" THEN
        (IF ObsMatch(e, S, [disp EXCEPT ![e.m] = "dyn"]) THEN "ok" ELSE "DynamicDispatchMismatch")
    ELSE IF e.ev \in {"Set", "Enter"} THEN
        IF e.out = "ok" THEN
            IF ~Known(e) THEN "AcceptedUnselectableName"
            ELSE IF e.ev = "Set"
                   THEN (IF ObsMatch(e, DoSet(S, e.t, e.m, e.name, e.loc), disp) THEN "ok" ELSE "ObsMismatch")
                   ELSE (IF ObsMatch(e, DoEnter(S, e.t, e.m, e.name, e.loc), disp) THEN "ok" ELSE "ObsMismatch")
        ELSE
            IF Known(e) THEN "RejectedSelectableName"
            ELSE IF ~(e.name \in BadNames[e.m]) THEN "Malformed"
            ELSE IF ObsMatch(e, S, disp) THEN "ok" ELSE "RejectedSelectionChangedState"
    ELSE IF e.ev = "Exit" THEN
        IF Len(S.stack[e.t]) = 0 \/ Top(S, e.t).m # e.m THEN "Malformed"
        ELSE IF e.out # "ok" THEN "ExitRaised"
        ELSE IF ObsMatch(e, DoExit(S, e.t), disp) THEN "ok" ELSE "ExitObsMismatch"
    ELSE "Malformed"

DesignStep(e) ==
    CASE e.ev = "Query" -> UNCHANGED vars
      [] e.ev = "Static" -> UseStatic(e.t, e.m)
      [] e.ev = "Dynamic" -> UseDynamic(e.t, e.m)
      [] e.ev = "Set" /\ e.out = "ok"      -> Set1(e.t, e.m, e.name, e.loc)
      [] e.ev = "Set" /\ e.out # "ok"      -> SetBad(e.t, e.m, e.name, e.loc)
      [] e.ev = "Enter" /\ e.out = "ok"    -> Enter(e.t, e.m, e.name, e.loc)
      [] e.ev = "Enter" /\ e.out # "ok"    -> EnterBad(e.t, e.m, e.name, e.loc)
      [] e.ev = "Exit"                     -> Exit(e.t, e.how)

TraceInit == Init /\ i = 1 /\ failed = FALSE

TraceNext ==
    /\ i <= Len(Events)
    /\ i' = i + 1
    /\ LET e == Events[i] IN
         IF e.ev = "Reset" THEN
             /\ S' = InitS /\ pc' = [t \in Threads |-> Idle]
             /\ sel' = [m \in Mgrs |-> [t \in Threads |-> IF t = Main THEN Default[m] ELSE None]]
             /\ nops' = 0 /\ actor' = None /\ actorLocal' = FALSE /\ rejected' = FALSE
             /\ opLocal' = [t \in Threads |-> FALSE]
             /\ disp' = [m \in Mgrs |-> "dyn"]
             /\ failed' = FALSE
         ELSE IF failed THEN UNCHANGED <<vars, failed>>
         ELSE LET v == Verdict(e) IN
             IF v = "ok" THEN DesignStep(e) /\ failed' = FALSE
             ELSE /\ PrintT(<<"REJECT", e.id, v>>)
                  /\ failed' = TRUE /\ UNCHANGED vars

TraceSpec == TraceInit /\ [][TraceNext]_tvars

TraceAccepted == TLCGet("stats").diameter - 1 = Len(Events)
=============================================================================
