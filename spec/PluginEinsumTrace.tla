------------------------- MODULE PluginEinsumTrace -------------------------
(* Trace validation for the plugins extension: every recorded operation of the real tensorly.plugins /      *)
(* BackendManager must be a step of PluginEinsum (PrevScope = "global": the code as found) whose resulting   *)
(* state projects onto what was observed: the `einsum` attribute of every backend class, PREVIOUS_EINSUM,     *)
(* and the einsum that tl.einsum(...) actually ran in every thread.                                           *)
EXTENDS PluginEinsumMC, Json, IOUtils, Sequences

Events == ndJsonDeserialize(IOEnv.TRACE_FILE)

VARIABLES i, failed
tvars == <<vars, i, failed>>

ObsMatchD(e, g, l, en, p, d) ==
    /\ DOMAIN e.obs.ein = Names
    /\ \A u \in DOMAIN e.obs.attr : u \in Threads /\ e.obs.attr[u] = AttrDispatch(d, g, l, en, u)
    /\ \A b \in Names : e.obs.ein[b] = en[b]
    /\ e.obs.prev = p["all"]
    /\ \A u \in DOMAIN e.obs.disp : u \in Threads /\ e.obs.disp[u] = Dispatch(g, l, en, u)
    /\ \A u \in DOMAIN e.obs.cur : u \in Threads /\ e.obs.cur[u] = Get(g, l, u)
ObsMatch(e, g, l, en, p) == ObsMatchD(e, g, l, en, p, disp)

Verdict(e) ==
    IF ~(e.t \in Threads) THEN "Malformed"
    ELSE IF e.out # "ok" THEN "OperationRaised"
    ELSE IF e.ev = "Call" THEN (IF ObsMatch(e, glob, loc, ein, prev) THEN "ok" ELSE "ObsMismatch")
    ELSE IF e.ev = "Select" THEN
        IF ~(e.name \in Names) THEN "Malformed"
        ELSE IF ObsMatch(e, SelGlob(glob, e.name, e.loc), SelLoc(loc, e.t, e.name), ein, prev) THEN "ok" ELSE "SelectObsMismatch"
    ELSE IF e.ev = "Opt" THEN
        LET b == Get(glob, loc, e.t) IN
        IF ObsMatch(e, glob, loc, OptEin(ein, b), OptPrev(prev, ein, b)) THEN "ok" ELSE "UseOptObsMismatch"
    ELSE IF e.ev = "Default" THEN
        LET b == Get(glob, loc, e.t) IN
        IF ObsMatch(e, glob, loc, DefEin(prev, ein, b), DefPrev(prev, b)) THEN "ok" ELSE "UseDefaultObsMismatch"
    ELSE IF e.ev = "Static" THEN
        (IF ObsMatchD(e, glob, loc, ein, prev, ein[Get(glob, loc, e.t)]) THEN "ok" ELSE "StaticDispatchObsMismatch")
    ELSE IF e.ev = "Dynamic" THEN
        (IF ObsMatchD(e, glob, loc, ein, prev, "dyn") THEN "ok" ELSE "DynamicDispatchObsMismatch")
    ELSE "Malformed"

DesignStep(e) ==
    CASE e.ev = "Call" -> UNCHANGED vars
      [] e.ev = "Select" -> Select(e.t, e.name, e.loc)
      [] e.ev = "Opt" -> UseOpt(e.t)
      [] e.ev = "Default" -> UseDefault(e.t)
      [] e.ev = "Static" -> UseStatic(e.t)
      [] e.ev = "Dynamic" -> UseDynamic(e.t)

TraceInit == Init /\ i = 1 /\ failed = FALSE

TraceNext ==
    /\ i <= Len(Events)
    /\ i' = i + 1
    /\ LET e == Events[i] IN
         IF e.ev = "Reset" THEN
             /\ disp' = "dyn" /\ glob' = InitGlob /\ loc' = InitLoc /\ ein' = InitEin /\ prev' = InitPrev
             /\ nops' = 0 /\ last' = [op |-> None, t |-> None, b |-> None]
             /\ failed' = FALSE
         ELSE IF failed THEN UNCHANGED <<vars, failed>>
         ELSE LET v == Verdict(e) IN
             IF v = "ok" THEN DesignStep(e) /\ failed' = FALSE
             ELSE /\ PrintT(<<"REJECT", e.id, v>>)
                  /\ failed' = TRUE /\ UNCHANGED vars

TraceSpec == TraceInit /\ [][TraceNext]_tvars

TraceAccepted == TLCGet("stats").diameter - 1 = Len(Events)
=============================================================================
