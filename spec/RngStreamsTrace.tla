-------------------------- MODULE RngStreamsTrace --------------------------
(* Trace validation for C16.  One ndjson file holds many traces; a "Reset" event starts a trace   *)
(* (fresh generators, global stream in an arbitrary state).  Every other event is one operation   *)
(* of RngStreams executed on the real code -- Perturb, Reseed(s), CallNone(e), CallInt(e, s),      *)
(* CallGen(e, g) -- followed by what was observed after it: the digest of numpy's global state     *)
(* (`glob`), of every generator object (`gens[g]`) and of everything the call returned (`res`; if   *)
(* the call raised, the digest of the exception class -- reproducibility covers that outcome too). *)
(* Digests are opaque small integers; only equality is used.                                       *)
(*                                                                                                *)
(* The abstract state S of the design evolves by the design's own state functions.  `bind`         *)
(* remembers which digest was observed for which abstract stream state, `memo` which digest for    *)
(* which abstract result.  An event is accepted iff the observation is consistent with the state   *)
(* the design prescribes:                                                                          *)
(*   - a stream the design says is unchanged must show its bound digest (IntSeedLeavesGlobal ...)  *)
(*   - an abstract result / stream state seen before must show the same digest again               *)
(*     (SameSeedSameResult, TwinGeneratorsAgree + end state, DeterministicNoSeed)                  *)
(* Two relaxations where the property text is silent (each keeps soundness, see Accept):           *)
(*   a generator-seeded call, or a call of a routine without random choices, that moves the global *)
(*   stream is NOT rejected; the design state is re-synchronised by an environment step (Drift).   *)
(* Typing of events is fixed by the recorder (TLC cannot compare across types): glob, res, s,      *)
(* gens[g], genseed[g] are always non-negative integers (0 = absent); ev, e, g, out, id, tr are     *)
(* always strings ("none" = absent).  The driver refuses to hand an ill-typed event to TLC.         *)
EXTENDS RngStreamsMC, Json, IOUtils

Events == ndJsonDeserialize(IOEnv.TRACE_FILE)

VARIABLES i, failed, bind, memo
tvars == <<vars, i, failed, bind, memo>>

Ops == {"Perturb", "Reseed", "SwitchBackend", "CallNone", "CallInt", "CallGen", "FitObj", "CloneFit"}
\* SwitchBackend: tensorly.tenalg.set_backend(e.b); Reset declares the implementation selected when the trace starts (e.b)
\* FitObj: ONE estimator object, constructed at Reset with the integer seed ObjSeed[o], is fitted again;
\* CloneFit: a new estimator built from o.get_params() is fitted.  Both are calls with that integer seed.
ObjOps == {"FitObj", "CloneFit"}

HasFields(e) == {"id", "tr", "ev", "e", "s", "g", "o", "b", "out", "res", "glob", "gens"} \subseteq DOMAIN e
WellFormed(e) ==
    /\ HasFields(e)
    /\ e.glob \in Nat /\ e.res \in Nat /\ e.s \in Nat
    /\ DOMAIN e.gens = Gens
    /\ \A g \in Gens : e.gens[g] \in Nat

\* binding keys: the global stream and the generator objects are separate namespaces -- that a generator created
\* from seed s and the global stream after numpy.random.seed(s) are in the same state is a fact about one particular
\* kind of generator (legacy RandomState), not an obligation of C16 (it is false for numpy.random.Generator objects)
GK(st) == <<"glob", st>>
NK(st) == <<"gen", st>>
Bound(st)       == \E p \in bind : p[1] = st
DigOf(st)       == (CHOOSE p \in bind : p[1] = st)[2]
Agrees(st, d)   == \A p \in bind : p[1] = st => p[2] = d      \* d is consistent with what was seen for st
ResAgrees(r, d) == \A p \in memo : p[1] = r => p[2] = d

ArgOf(e) == CASE e.ev = "CallNone" -> ArgNone
              [] e.ev = "CallInt"  -> ArgInt(e.s)
              [] e.ev = "CallGen"  -> ArgGen(e.g)
              [] e.ev \in ObjOps   -> ArgObj(e.o)

OpOK(e) == CASE e.ev = "Perturb"  -> TRUE
             [] e.ev = "Reseed"   -> e.s \in Seeds
             [] e.ev = "SwitchBackend" -> e.b \in Backends
             [] e.ev = "CallNone" -> e.e \in Entries
             [] e.ev = "CallInt"  -> e.e \in Seedable /\ e.s \in Seeds
             [] e.ev = "CallGen"  -> e.e \in Seedable /\ e.g \in Gens
             [] e.ev \in ObjOps   -> e.e \in ObjEntries /\ e.o \in Objs
             [] OTHER -> FALSE

GlobSame(e)        == e.glob = DigOf(GK(S.global))
GensSame(e)        == \A g \in Gens : e.gens[g] = DigOf(NK(S.gens[g]))
GensSameBut(e, g0) == \A g \in Gens \ {g0} : e.gens[g] = DigOf(NK(S.gens[g]))

CallVerdict(e) ==
    LET a  == ArgOf(e)
        r  == Result(S, e.e, a)
        s2 == After(S, e.e, a)
    IN
    IF e.ev = "CallInt" \/ e.ev \in ObjOps THEN        \* a (re)fit of a seed-holding object is a call with that seed
        IF ~ResAgrees(r, e.res) THEN "SameSeedSameResult"
        ELSE IF ~GlobSame(e) THEN "IntSeedLeavesGlobal"
        ELSE IF ~GensSame(e) THEN "IntSeedTouchedGenerator"
        ELSE "ok"
    ELSE IF e.ev = "CallGen" THEN
        IF ~ResAgrees(r, e.res) THEN "TwinGeneratorsAgree"
        ELSE IF ~Agrees(NK(s2.gens[e.g]), e.gens[e.g]) THEN "TwinGeneratorsEndState"
        ELSE IF ~GensSameBut(e, e.g) THEN "GenCallTouchedOtherGenerator"
        ELSE "ok"
    ELSE \* CallNone
        IF ~Random[e.e] THEN
            IF ~ResAgrees(r, e.res) THEN "DeterministicNoSeed"
            ELSE IF ~GensSame(e) THEN "UnseededCallTouchedGenerator"
            ELSE "ok"
        ELSE
            IF ~ResAgrees(r, e.res) THEN "UnseededNotFunctionOfGlobal"
            ELSE IF ~GensSame(e) THEN "UnseededCallTouchedGenerator"
            ELSE IF ~Agrees(GK(s2.global), e.glob) THEN "UnseededEndStateNotReproducible"
            ELSE "ok"

Verdict(e) ==
    IF ~WellFormed(e) THEN "Malformed"
    ELSE IF ~(e.ev \in Ops /\ OpOK(e)) THEN "Malformed"
    ELSE IF bind = {} THEN "NoReset"
    ELSE IF ~(e.out \in {"ok", "raised"}) THEN "Malformed"     \* an exception is an outcome: res = digest of its class
    ELSE IF e.ev = "Perturb" THEN
        IF GlobSame(e) THEN "PerturbIneffective"          \* harness sanity: drawing moves the global stream
        ELSE IF ~GensSame(e) THEN "PerturbTouchedGenerator"
        ELSE IF ~Agrees(GK(StepPerturb(S).global), e.glob) THEN "GlobalStreamNotReproducible"
        ELSE "ok"
    ELSE IF e.ev = "SwitchBackend" THEN
        IF ~GlobSame(e) \/ ~GensSame(e) THEN "SwitchTouchedStreams" ELSE "ok"
    ELSE IF e.ev = "Reseed" THEN
        IF ~GensSame(e) THEN "ReseedTouchedGenerator"
        ELSE IF ~Agrees(GK(Fresh(e.s)), e.glob) THEN "ReseedNotReproducible"
        ELSE "ok"
    ELSE CallVerdict(e)

\* environment step that re-synchronises the abstract global stream with an observed, unexplained move
Drift(s) == [s EXCEPT !.global = Adv(@, <<"drift", ToString(i)>>)]
Tolerant(e) == e.ev = "CallGen" \/ (e.ev = "CallNone" /\ ~Random[e.e])

Accept(e) ==
    IF e.ev = "SwitchBackend" THEN
        /\ S' = StepSwitch(S, e.b) /\ nops' = nops + 1 /\ UNCHANGED <<calls, glog, bind, memo>>
    ELSE IF e.ev \in {"Perturb", "Reseed"} THEN
        /\ IF e.ev = "Perturb" THEN Perturb ELSE Reseed(e.s)          \* the design's own actions
        /\ bind' = bind \cup {<<GK(S'.global), e.glob>>}
        /\ memo' = memo
    ELSE
        LET a  == ArgOf(e)
            s2 == After(S, e.e, a)
            s3 == IF Tolerant(e) /\ ~Agrees(GK(s2.global), e.glob) THEN Drift(s2) ELSE s2
        IN
        /\ S' = s3
        /\ calls' = calls \cup {CallRec(S, e.e, a)}
        /\ glog' = NextGlog(glog, S, e.e, a)
        /\ nops' = nops + 1
        /\ bind' = bind \cup {<<GK(s3.global), e.glob>>} \cup {<<NK(s3.gens[g]), e.gens[g]>> : g \in Gens}
        /\ memo' = memo \cup {<<Result(S, e.e, a), e.res>>}

ResetVerdict(e) ==
    IF ~WellFormed(e) THEN "Malformed"
    ELSE IF ~("genseed" \in DOMAIN e /\ DOMAIN e.genseed = Gens) THEN "Malformed"
    ELSE IF \E g \in Gens : e.genseed[g] # GenSeed[g] THEN "Malformed"
    ELSE IF ~("objseed" \in DOMAIN e /\ DOMAIN e.objseed = Objs) THEN "Malformed"
    ELSE IF \E o \in Objs : e.objseed[o] # ObjSeed[o] THEN "Malformed"
    ELSE IF ~(e.b \in Backends) THEN "Malformed"
    ELSE IF \E g, h \in Gens : GenSeed[g] = GenSeed[h] /\ e.gens[g] # e.gens[h] THEN "TwinInitialStatesDiffer"
    ELSE "ok"

IdOf(e) == IF "id" \in DOMAIN e THEN e.id ELSE "?"

TraceInit == Init /\ i = 1 /\ failed = FALSE /\ bind = {} /\ memo = {}

TraceNext ==
    /\ i <= Len(Events)
    /\ i' = i + 1
    /\ LET e == Events[i] IN
         IF "ev" \in DOMAIN e /\ e.ev = "Reset" THEN
             LET v == ResetVerdict(e) IN
             /\ S' = (IF v = "ok" THEN StepSwitch(InitS, e.b) ELSE InitS) /\ calls' = {} /\ glog' = [g \in Gens |-> <<>>] /\ nops' = 0
             /\ memo' = {}
             /\ IF v = "ok"
                  THEN /\ bind' = {<<GK(InitS.global), e.glob>>} \cup {<<NK(InitS.gens[g]), e.gens[g]>> : g \in Gens}
                       /\ failed' = FALSE
                  ELSE /\ PrintT(<<"REJECT", IdOf(e), v>>)
                       /\ bind' = {} /\ failed' = TRUE
         ELSE IF failed THEN UNCHANGED <<vars, failed, bind, memo>>
         ELSE LET v == Verdict(e) IN
             IF v = "ok" THEN Accept(e) /\ failed' = FALSE
             ELSE /\ PrintT(<<"REJECT", IdOf(e), v>>)
                  /\ failed' = TRUE /\ UNCHANGED <<vars, bind, memo>>

TraceSpec == TraceInit /\ [][TraceNext]_tvars

\* the binding abstract stream -> digest stays a function
BindFunctional == \A p, q \in bind : p[1] = q[1] => p[2] = q[2]
MemoFunctional == \A p, q \in memo : p[1] = q[1] => p[2] = q[2]

TraceAccepted == TLCGet("stats").diameter - 1 = Len(Events)
=============================================================================
