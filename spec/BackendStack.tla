--------------------------- MODULE BackendStack ---------------------------
(* Backend selection of tensorly as a per-thread stack over a shared default (property C17).     *)
(* Implementation-shaped: one action per write of BackendManager.set_backend / backend_context   *)
(* (tensorly/backend/__init__.py).  Two managers share the threads: "be" = tensorly.backend,     *)
(* "ta" = tensorly.tenalg (TenalgBackendManager inherits set_backend/backend_context).           *)
(*                                                                                              *)
(*   current_backend()  = thread-local slot if present else the class attribute _backend         *)
(*   set_backend(b,loc) = W1: thread-local slot := b ; if ~loc then W2: _backend := b            *)
(*   backend_context    = old := current_backend(); set_backend(b,loc); ... finally restore old  *)
(*                        with the flavour the context was entered with                          *)
(* A rejected name (unknown, or known but not importable) raises before any write.               *)
EXTENDS Naturals, Sequences, FiniteSets, TLC

CONSTANTS Threads,        \* set of thread ids
          Main,           \* the importing thread: starts with a thread-local selection
          Mgrs,           \* set of manager ids
          Names,          \* [Mgrs -> set of selectable backend names]
          Default,        \* [Mgrs -> default name]
          BadNames,       \* [Mgrs -> set of names whose selection must be rejected]
          MaxDepth,       \* max nesting of contexts per thread
          MaxOps,         \* bound on operations (state constraint of the MC configs)
          WithModes,      \* TRUE: the dispatch-mode switches (use_static_dispatch / use_dynamic_dispatch) are part of the model
          Atomic,         \* TRUE: a global selection does both writes in one step (operation grain)
          ExitFlavour     \* "entered" (specified) | "global" (as found before fix F-17a)

None == "none"

VARIABLES S,          \* [shared : [Mgrs -> name], local : [Mgrs -> [Threads -> name or None]],
                      \*  stack : [Threads -> Seq([m, old, loc])]]
          pc,         \* [Threads -> [k : {"idle","w2"}, m, b]]  pending second write of set_backend
          sel,        \* history: [Mgrs -> [Threads -> last name the thread selected, or None]]
          nops,       \* number of operations started
          actor,      \* history: thread that took the last step (None initially)
          actorLocal, \* history: TRUE iff the last step belongs to a thread-local selection/context
          rejected,   \* history: TRUE iff the last step was a rejected selection
          opLocal,    \* history: [Threads -> flavour of the operation the thread started last]
          disp        \* [Mgrs -> "dyn" or the backend name frozen by use_static_dispatch()]  (class-level, shared by all threads)

vars == <<S, pc, sel, nops, actor, actorLocal, rejected, opLocal, disp>>

Idle == [k |-> "idle", m |-> None, b |-> None]

----------------------------------------------------------------------------
(* State functions: shared between the design actions and the trace specification.               *)

Get(s, t, m) == IF s.local[m][t] # None THEN s.local[m][t] ELSE s.shared[m]

W1(s, t, m, b) == [s EXCEPT !.local[m][t] = b]
W2(s, m, b)    == [s EXCEPT !.shared[m] = b]
DoSet(s, t, m, b, loc) == IF loc THEN W1(s, t, m, b) ELSE W2(W1(s, t, m, b), m, b)

Push(s, t, m, loc) == [s EXCEPT !.stack[t] = Append(@, [m |-> m, old |-> Get(s, t, m), loc |-> loc])]
Top(s, t) == s.stack[t][Len(s.stack[t])]
Pop(s, t) == [s EXCEPT !.stack[t] = SubSeq(@, 1, Len(@) - 1)]

DoEnter(s, t, m, b, loc) == DoSet(Push(s, t, m, loc), t, m, b, loc)
ExitLoc(top) == IF ExitFlavour = "entered" THEN top.loc ELSE FALSE
DoExit(s, t) == LET top == Top(s, t) IN DoSet(Pop(s, t), t, top.m, top.old, ExitLoc(top))

InitS == [shared |-> [m \in Mgrs |-> Default[m]],
          local  |-> [m \in Mgrs |-> [t \in Threads |-> IF t = Main THEN Default[m] ELSE None]],
          stack  |-> [t \in Threads |-> <<>>]]

----------------------------------------------------------------------------
Init == /\ S = InitS
        /\ pc = [t \in Threads |-> Idle]
        /\ sel = [m \in Mgrs |-> [t \in Threads |-> IF t = Main THEN Default[m] ELSE None]]
        /\ nops = 0
        /\ actor = None
        /\ actorLocal = FALSE
        /\ rejected = FALSE
        /\ opLocal = [t \in Threads |-> FALSE]
        /\ disp = [m \in Mgrs |-> "dyn"]

Step(t, loc, rej) == /\ actor' = t /\ actorLocal' = loc /\ nops' = nops + 1 /\ rejected' = rej
                     /\ opLocal' = [opLocal EXCEPT ![t] = loc]
                     /\ UNCHANGED disp

\* first write of set_backend (and the second one too when Atomic or thread-local)
Set1(t, m, b, loc) ==
    /\ pc[t].k = "idle" /\ b \in Names[m]
    /\ sel' = [sel EXCEPT ![m][t] = b]
    /\ IF loc \/ Atomic
         THEN S' = DoSet(S, t, m, b, loc) /\ pc' = pc
         ELSE S' = W1(S, t, m, b) /\ pc' = [pc EXCEPT ![t] = [k |-> "w2", m |-> m, b |-> b]]
    /\ Step(t, loc, FALSE)

\* second write of a global set_backend: publish as the shared default
Set2(t) ==
    /\ pc[t].k = "w2"
    /\ S' = W2(S, pc[t].m, pc[t].b)
    /\ pc' = [pc EXCEPT ![t] = Idle]
    /\ actor' = t /\ rejected' = FALSE /\ actorLocal' = opLocal[t]   \* keeps the flavour of its operation
    /\ UNCHANGED <<sel, nops, opLocal, disp>>

\* rejected selection: raises before any write
SetBad(t, m, b, loc) ==
    /\ pc[t].k = "idle" /\ b \in BadNames[m]
    /\ UNCHANGED <<S, pc, sel>>
    /\ Step(t, loc, TRUE)

Enter(t, m, b, loc) ==
    /\ pc[t].k = "idle" /\ b \in Names[m] /\ Len(S.stack[t]) < MaxDepth
    /\ sel' = [sel EXCEPT ![m][t] = b]
    /\ LET s1 == Push(S, t, m, loc) IN
         IF loc \/ Atomic
           THEN S' = DoSet(s1, t, m, b, loc) /\ pc' = pc
           ELSE S' = W1(s1, t, m, b) /\ pc' = [pc EXCEPT ![t] = [k |-> "w2", m |-> m, b |-> b]]
    /\ Step(t, loc, FALSE)

\* a context that cannot be entered: set_backend raises inside the generator, nothing was pushed
EnterBad(t, m, b, loc) ==
    /\ pc[t].k = "idle" /\ b \in BadNames[m] /\ Len(S.stack[t]) < MaxDepth
    /\ UNCHANGED <<S, pc, sel>>
    /\ Step(t, loc, TRUE)

\* leaving a context: normally, by an Exception, or by a BaseException that is not an Exception
\* (KeyboardInterrupt, GeneratorExit, SystemExit ...): the documented behaviour is the same restore.
ExitHows == {"normal", "exception", "base_exception"}
Exit(t, how) ==
    /\ pc[t].k = "idle" /\ Len(S.stack[t]) > 0
    /\ LET top == Top(S, t)
           loc == ExitLoc(top)
           s1  == Pop(S, t) IN
         /\ sel' = [sel EXCEPT ![top.m][t] = top.old]
         /\ IF loc \/ Atomic
              THEN S' = DoSet(s1, t, top.m, top.old, loc) /\ pc' = pc
              ELSE S' = W1(s1, t, top.m, top.old)
                   /\ pc' = [pc EXCEPT ![t] = [k |-> "w2", m |-> top.m, b |-> top.old]]
         /\ Step(t, top.loc, FALSE)      \* the operation is "local" iff the *context* was thread-local

(* Dispatch modes (beyond C17, which speaks about dynamic dispatch only).  use_static_dispatch() rebinds the    *)
(* manager's function/attribute names to the backend that is current IN THE CALLING THREAD at that moment, for   *)
(* every thread; use_dynamic_dispatch() installs fresh dynamic wrappers.  Names that other modules imported at    *)
(* import time (`tensorly.shape`, `tensorly.cp_tensor.khatri_rao`, ...) keep pointing at the import-time dynamic   *)
(* wrappers and therefore stay dynamic in both modes.                                                           *)
AttrDisp(s, d, u, m) == IF d[m] = "dyn" THEN Get(s, u, m) ELSE d[m]    \* what `manager.<name>` runs on
TopDisp(s, u, m) == Get(s, u, m)                                        \* what an import-time re-export runs on

UseStatic(t, m) ==
    /\ WithModes /\ pc[t].k = "idle"
    /\ disp' = [disp EXCEPT ![m] = Get(S, t, m)]
    /\ actor' = t /\ actorLocal' = FALSE /\ rejected' = FALSE /\ nops' = nops + 1
    /\ opLocal' = [opLocal EXCEPT ![t] = FALSE]
    /\ UNCHANGED <<S, pc, sel>>

UseDynamic(t, m) ==
    /\ WithModes /\ pc[t].k = "idle"
    /\ disp' = [disp EXCEPT ![m] = "dyn"]
    /\ actor' = t /\ actorLocal' = FALSE /\ rejected' = FALSE /\ nops' = nops + 1
    /\ opLocal' = [opLocal EXCEPT ![t] = FALSE]
    /\ UNCHANGED <<S, pc, sel>>

Next == \E t \in Threads :
          \/ \E m \in Mgrs : UseStatic(t, m) \/ UseDynamic(t, m)
          \/ Set2(t)
          \/ \E m \in Mgrs, loc \in BOOLEAN :
               \/ \E b \in Names[m] : Set1(t, m, b, loc) \/ Enter(t, m, b, loc)
               \/ \E b \in BadNames[m] : SetBad(t, m, b, loc) \/ EnterBad(t, m, b, loc)
          \/ \E how \in ExitHows : Exit(t, how)

Spec == Init /\ [][Next]_vars

Bounded == nops <= MaxOps

----------------------------------------------------------------------------
(* Properties (each a clause of C17).                                                            *)

TypeOK == /\ \A m \in Mgrs : S.shared[m] \in Names[m]
          /\ \A m \in Mgrs, t \in Threads : S.local[m][t] \in Names[m] \cup {None}
          /\ \A t \in Threads : Len(S.stack[t]) <= MaxDepth

\* the active backend of a thread is the one it selected last, else the shared default
GetIsLastSelected ==
    \A t \in Threads, m \in Mgrs :
        Get(S, t, m) = IF sel[m][t] # None THEN sel[m][t] ELSE S.shared[m]

\* a thread that never selected sees the shared default; the shared default is always
\* the last *completed* global publication or the initial default (no torn values)
SharedIsSomeSelection == \A m \in Mgrs : S.shared[m] \in Names[m]

\* a thread-local selection / context (enter, exit and its trailing write) never changes what
\* another thread observes
LocalNoInterference ==
    [][actorLocal' => \A u \in Threads \ {actor'} : \A m \in Mgrs : Get(S', u, m) = Get(S, u, m)]_vars

\* any step of a thread leaves the thread-local slots and stacks of every other thread alone
OwnSlotOnly ==
    [][\A u \in Threads \ {actor'} : /\ \A m \in Mgrs : S'.local[m][u] = S.local[m][u]
                                     /\ S'.stack[u] = S.stack[u]]_vars

\* after a context exit the thread is back on the backend it had when entering
ExitRestores ==
    [][\A t \in Threads :
         (Len(S'.stack[t]) < Len(S.stack[t])) =>
             LET top == Top(S, t) IN Get(S', t, top.m) = top.old]_vars

\* a rejected selection changes nothing (checked as: S changes only on the listed accepting steps;
\* SetBad/EnterBad are the only steps with nops' # nops and S' = S forced)
RejectedNoChange == [][rejected' => S' = S]_vars

\* selections never change what a frozen (static) manager surface runs on; switching the mode never changes a selection
StaticIsFrozen ==
    [][\A m \in Mgrs : (disp[m] # "dyn" /\ disp'[m] = disp[m]) =>
          \A u \in Threads : AttrDisp(S', disp', u, m) = AttrDisp(S, disp, u, m)]_vars
ModeSwitchKeepsSelections == [][disp' # disp => S' = S]_vars
\* in dynamic mode both surfaces agree with the thread's active backend
DynamicSurfacesAgree == \A m \in Mgrs, u \in Threads : disp[m] = "dyn" => AttrDisp(S, disp, u, m) = TopDisp(S, u, m)

\* a step touches one manager only
ManagersIndependent ==
    [][\A m1, m2 \in Mgrs :
         (m1 # m2 /\ (S'.shared[m1] # S.shared[m1] \/ S'.local[m1] # S.local[m1]))
            => (S'.shared[m2] = S.shared[m2] /\ S'.local[m2] = S.local[m2])]_vars
=============================================================================
