----------------------------- MODULE Multilinear -----------------------------
(* C02: the multilinear products of tensorly.tenalg written as their textbook index formulas    *)
(* over GAUSSIAN INTEGERS.  A tensor is [shape |-> <<d1..dN>>, data |-> row-major sequence of     *)
(* pairs <<re, im>>] (Tens.tla is agnostic about the entry type).  Nothing in this module is     *)
(* derived from an implementation: every operator is "entry at output index = sum of products     *)
(* of operand entries", the way the docstrings / Kolda & Bader state them.  Modes, skip indices   *)
(* and sample indices are 0-based (as in the Python API); TLA+ sequences are 1-based.             *)
(*                                                                                              *)
(* The second half defines the bounded configuration domain (enumerated as TLC states, exported   *)
(* to the harness) and cross identities between the formulas (ThmXxx), checked by TLC in every      *)
(* state on spec-defined generic complex test data: they guard the specification against its     *)
(* own typos (each formula is tied to at least one other formula written differently).           *)
EXTENDS Tens, TLC

CONSTANTS Tier,       \* "quick" | "thorough": how much of the full domain is enumerated
          MaxOrder,   \* operand order bound (4)
          MaxDim,     \* mode size bound (3)
          MaxSize,    \* operand entries bound (36)
          MaxOut      \* output entries bound

----------------------------------------------------------------------------
\* Gaussian integers
CZero == <<0, 0>>
COne  == <<1, 0>>
CAdd(a, b) == <<a[1] + b[1], a[2] + b[2]>>
CMul(a, b) == <<a[1] * b[1] - a[2] * b[2], a[1] * b[2] + a[2] * b[1]>>
CConj(a)   == <<a[1], -a[2]>>
\* sum_{k=0}^{n-1} f(k)   and   prod_{k=1}^{n} f(k)
CSum(n, f(_))  == LET S[k \in 0..n] == IF k = 0 THEN CZero ELSE CAdd(S[k - 1], f(k - 1)) IN S[n]
CProd(n, f(_)) == LET P[k \in 0..n] == IF k = 0 THEN COne ELSE CMul(P[k - 1], f(k)) IN P[n]
\* sum over all 0-based multi-indices of a shape
CSumIdx(shape, f(_)) == CSum(Size(shape), LAMBDA n : f(Unlin(shape, n)))

\* sequences (explicit tuples, so that \o / SubSeq / EXCEPT are always applied to sequences)
Seq1(n, f(_))   == [k \in 1..n |-> f(k)]
DropAt(s, p)    == SubSeq(s, 1, p - 1) \o SubSeq(s, p + 1, Len(s))
InsAt(s, p, v)  == SubSeq(s, 1, p - 1) \o <<v>> \o SubSeq(s, p, Len(s))
SetAt(s, p, v)  == [s EXCEPT ![p] = v]
Rev(s)          == [k \in 1..Len(s) |-> s[Len(s) + 1 - k]]
RECURSIVE Concat(_)
Concat(ss)      == IF Len(ss) = 0 THEN <<>> ELSE Head(ss) \o Concat(Tail(ss))
PosIn(s, x)     == CHOOSE k \in 1..Len(s) : s[k] = x
Plus1(s)        == [k \in 1..Len(s) |-> s[k] + 1]
NoDup(s)        == Cardinality(SeqRange(s)) = Len(s)
SkipAt(ms, skip) == IF skip < 0 THEN ms ELSE DropAt(ms, skip + 1)
\* NumPy convention for naming a mode of an order-nd tensor: m in -nd..nd-1, a negative m counts from
\* the end.  The specification normalises, so the expected value never depends on the spelling.
\* Only tensordot's `modes` / `batched_modes` are specified with negative spellings: tensorly's
\* _validate_contraction_modes normalises them explicitly.  mode_dot / multi_mode_dot `mode(s)`,
\* unfolding_dot_khatri_rao `mode` and `skip_matrix` are documented as plain indices and the unchanged
\* tree rejects or mishandles negative values there, so those stay outside the domain.
NormMode(m, nd) == IF m < 0 THEN m + nd ELSE m
NormSeq(s, nd)  == [k \in 1..Len(s) |-> NormMode(s[k], nd)]
Spell(s, nd, negative) == [k \in 1..Len(s) |-> IF negative THEN s[k] - nd ELSE s[k]]

ConjT(T) == [shape |-> T.shape, data |-> [n \in 1..Len(T.data) |-> CConj(T.data[n])]]
Ones(shape) == [shape |-> shape, data |-> [n \in 1..Size(shape) |-> COne]]

----------------------------------------------------------------------------
\* mode-n product.  Matrix operand M (J x I_n):  out[.., j, ..] = sum_k M[j,k] * T[.., k, ..];
\* transpose=TRUE: the operand is (I_n x J) and its CONJUGATE transpose is used: conj(M[k,j]).
\* Vector operand (I_n): the mode is contracted away; the docstring's transpose clause speaks of
\* "the matrix" only, so a vector is contracted as it is.
ModeDot(T, M, n, tr) ==
    LET p == n + 1
        I == T.shape[p]
    IN  IF Len(M.shape) = 2
        THEN LET J == IF tr THEN M.shape[2] ELSE M.shape[1]
                 m(j, k) == IF tr THEN CConj(At(M, <<k, j>>)) ELSE At(M, <<j, k>>)
             IN  Build(SetAt(T.shape, p, J),
                       LAMBDA idx : CSum(I, LAMBDA k : CMul(m(idx[p], k), At(T, SetAt(idx, p, k)))))
        ELSE Build(DropAt(T.shape, p),
                   LAMBDA idx : CSum(I, LAMBDA k : CMul(At(M, <<k>>), At(T, InsAt(idx, p, k)))))

\* multi-mode product: tensor x_{modes[1]} Ms[1] x_{modes[2]} Ms[2] ...; every mode number refers
\* to the ORIGINAL tensor, `skip` is the index IN THE LIST THE CALLER PASSED of the operand left
\* out (-1: none).  transpose=TRUE: "the matrices or vectors in the list are transposed; for
\* complex tensors the conjugate transpose is used" -- matrices conj-transposed, vectors conjugated.
\* Written as single mode products applied from the highest mode down, so that a contracted
\* (vector) mode never renumbers a mode still to be used.
RECURSIVE MMDRec(_, _, _, _, _)
MMDRec(T, Ms, modes, S, tr) ==
    IF S = {} THEN T
    ELSE LET j == CHOOSE x \in S : \A y \in S : modes[x] >= modes[y]
             A == IF tr /\ Len(Ms[j].shape) = 1 THEN ConjT(Ms[j]) ELSE Ms[j]
         IN  MMDRec(ModeDot(T, A, modes[j], tr), Ms, modes, S \ {j}, tr)
MultiModeDot(T, Ms, modes, skip, tr) ==
    MMDRec(T, Ms, modes, {j \in 1..Len(Ms) : j - 1 # skip}, tr)

\* Kronecker product of a list:  out[(i_1..i_K), (j_1..j_K)] = prod_k A_k[i_k, j_k], row/column
\* multi-indices in row-major order (first matrix = slowest index)
KronList(ms) ==
    LET K  == Len(ms)
        Is == Seq1(K, LAMBDA k : ms[k].shape[1])
        Js == Seq1(K, LAMBDA k : ms[k].shape[2])
    IN  Build(<<ProdSeq(Is), ProdSeq(Js)>>,
              LAMBDA rc : LET i == Unlin(Is, rc[1])
                              j == Unlin(Js, rc[2])
                          IN  CProd(K, LAMBDA k : At(ms[k], <<i[k], j[k]>>)))
Kron(ms, skip, reverse) ==
    LET l == SkipAt(ms, skip) IN KronList(IF reverse THEN Rev(l) ELSE l)

\* Khatri-Rao product (column-wise Kronecker) with per-column weights w (shape <<R>>) and a mask
\* of the shape <<I_1..I_K>> of the row multi-index (as tensorly.cp_to_tensor passes it):
\*   out[(i_1..i_K), r] = w[r] * mask[i_1..i_K] * prod_k A_k[i_k, r]
\* -- for ANY number K >= 1 of remaining matrices.  Absent weights / mask = all ones.
KhatriRao(ms, w, mask, skip) ==
    LET l  == SkipAt(ms, skip)
        K  == Len(l)
        Is == Seq1(K, LAMBDA k : l[k].shape[1])
        R  == l[1].shape[2]
    IN  Build(<<ProdSeq(Is), R>>,
              LAMBDA rc : LET i == Unlin(Is, rc[1])
                              r == rc[2]
                          IN  CMul(CMul(At(w, <<r>>), At(mask, i)),
                                   CProd(K, LAMBDA k : At(l[k], <<i[k], r>>))))

\* generalised inner product: n < 0 (n_modes=None): same shapes, the scalar sum A o B;
\* otherwise the last n modes of A against the first n modes of B (bilinear: no conjugation);
\* n = 0 contracts nothing (the outer product)
Inner(A, B, n) ==
    IF n < 0 THEN Build(<<>>, LAMBDA e : CSumIdx(A.shape, LAMBDA i : CMul(At(A, i), At(B, i))))
    ELSE LET NA == Len(A.shape)
             a  == SubSeq(A.shape, 1, NA - n)
             c  == SubSeq(A.shape, NA - n + 1, NA)
             b  == SubSeq(B.shape, n + 1, Len(B.shape))
         IN  Build(a \o b,
                   LAMBDA idx : LET ia == SubSeq(idx, 1, Len(a))
                                    ib == SubSeq(idx, Len(a) + 1, Len(idx))
                                IN  CSumIdx(c, LAMBDA k : CMul(At(A, ia \o k), At(B, k \o ib))))

\* outer product of a list: out[i^1, ..., i^K] = prod_k T_k[i^k]
Outer(ts) ==
    LET K   == Len(ts)
        shs == Seq1(K, LAMBDA k : ts[k].shape)
        off == Seq1(K, LAMBDA k : Len(Concat(SubSeq(shs, 1, k - 1))))
    IN  Build(Concat(shs),
              LAMBDA idx : CProd(K, LAMBDA k : At(ts[k], SubSeq(idx, off[k] + 1, off[k] + Len(shs[k])))))

\* batched outer product: all tensors share mode 0 (samples):
\*   out[b, i^1, ..., i^K] = prod_k T_k[b, i^k]
BatchedOuter(ts) ==
    LET K   == Len(ts)
        rs  == Seq1(K, LAMBDA k : Tail(ts[k].shape))
        off == Seq1(K, LAMBDA k : 1 + Len(Concat(SubSeq(rs, 1, k - 1))))
    IN  Build(<<ts[1].shape[1]>> \o Concat(rs),
              LAMBDA idx : CProd(K, LAMBDA k :
                              At(ts[k], <<idx[1]>> \o SubSeq(idx, off[k] + 1, off[k] + Len(rs[k])))))

\* batched tensor contraction: modes m1[t] of A are summed against modes m2[t] of B, modes b1[t]
\* of A are identified with modes b2[t] of B (batch: kept once, not summed).
\* Output mode order -- the docstring is silent; two readings are specified:
\*   bf = FALSE: the non-contracted modes of A in their original order (batch modes stay in
\*               place), then the free modes of B;
\*   bf = TRUE : the batch modes (in the order of b1), the free modes of A, the free modes of B.
\* The trace specification accepts either (they coincide whenever the batch modes of A precede
\* its free modes, which covers every example in the repository's tests).
Tensordot(A, B, m1, m2, b1, b2, bf) ==
    LET NA == Len(A.shape)
        NB == Len(B.shape)
        M1 == Plus1(m1)
        M2 == Plus1(m2)
        B1 == Plus1(b1)
        B2 == Plus1(b2)
        oA == IF bf THEN B1 \o SortedSeq((1..NA) \ (SeqRange(M1) \cup SeqRange(B1)))
                    ELSE SortedSeq((1..NA) \ SeqRange(M1))
        oB == SortedSeq((1..NB) \ (SeqRange(M2) \cup SeqRange(B2)))
        sA == Seq1(Len(oA), LAMBDA k : A.shape[oA[k]])
        sB == Seq1(Len(oB), LAMBDA k : B.shape[oB[k]])
        cs == Seq1(Len(M1), LAMBDA k : A.shape[M1[k]])
        ia(o, c) == [p \in 1..NA |-> IF p \in SeqRange(M1) THEN c[PosIn(M1, p)] ELSE o[PosIn(oA, p)]]
        ib(o, c) == [p \in 1..NB |-> IF p \in SeqRange(M2) THEN c[PosIn(M2, p)]
                                     ELSE IF p \in SeqRange(B2) THEN o[PosIn(oA, B1[PosIn(B2, p)])]
                                     ELSE o[Len(oA) + PosIn(oB, p)]]
    IN  Build(sA \o sB, LAMBDA o : CSumIdx(cs, LAMBDA c : CMul(At(A, ia(o, c)), At(B, ib(o, c)))))

\* MTTKRP (matricised tensor times Khatri-Rao product), mode n, CP tensor (w, Fs):
\*   out[i, r] = w[r] * sum_{idx : idx_n = i} X[idx] * prod_{k # n} conj(Fs[k][idx_k, r])
\* (= unfold(X, n) . conj(khatri_rao(Fs, w, skip n)) for real weights -- ThmMTTKRP)
MTTKRP(X, w, Fs, n) ==
    LET p  == n + 1
        N  == Len(X.shape)
        R  == Fs[1].shape[2]
        ot == SortedSeq((1..N) \ {p})
    IN  Build(<<X.shape[p], R>>,
              LAMBDA ir : CMul(At(w, <<ir[2]>>),
                   CSumIdx(DropAt(X.shape, p),
                           LAMBDA j : CMul(At(X, InsAt(j, p, ir[1])),
                                           CProd(N - 1, LAMBDA k : CConj(At(Fs[ot[k]], <<j[k], ir[2]>>)))))))

\* higher-order moment: X of shape (n_samples, D_1..D_L);  the order-p moment M satisfies
\*   n_samples * M[i^1, ..., i^p] = sum_b prod_{j=1..p} X[b, i^j]       (MomentNum = n_samples * M)
MomentNum(X, p) ==
    LET n    == X.shape[1]
        rest == Tail(X.shape)
        L    == Len(rest)
    IN  Build(Concat(Seq1(p, LAMBDA j : rest)),
              LAMBDA idx : CSum(n, LAMBDA b : CProd(p, LAMBDA j :
                                   At(X, <<b>> \o SubSeq(idx, (j - 1) * L + 1, j * L)))))

\* sampled Khatri-Rao rows: idxs[k][s] = row of the k-th remaining matrix used by sample s
SampledKR(ms, idxs, skip, ns) ==
    LET l == SkipAt(ms, skip)
        K == Len(l)
    IN  Build(<<ns, l[1].shape[2]>>,
              LAMBDA sr : CProd(K, LAMBDA k : At(l[k], <<idxs[k][sr[1] + 1], sr[2]>>)))
\* ... and the row of the full Khatri-Rao product each sample is
SampledRows(ms, idxs, skip, ns) ==
    LET l  == SkipAt(ms, skip)
        Is == Seq1(Len(l), LAMBDA k : l[k].shape[1])
    IN  [s \in 1..ns |-> Lin(Is, Seq1(Len(l), LAMBDA k : idxs[k][s]))]

----------------------------------------------------------------------------
\* helpers for the theorems
Unfold(T, n) ==      \* textbook mode-n unfolding: mode n first, the others in order, row-major
    LET N == Len(T.shape)
        perm == <<n + 1>> \o SortedSeq((1..N) \ {n + 1})
    IN  Reshape(Transpose(T, perm), <<T.shape[n + 1], Size(T.shape) \div T.shape[n + 1]>>)
MatMul(A, B) ==
    Build(<<A.shape[1], B.shape[2]>>,
          LAMBDA ij : CSum(A.shape[2], LAMBDA k : CMul(At(A, <<ij[1], k>>), At(B, <<k, ij[2]>>))))
Col(A, r) == Build(<<A.shape[1], 1>>, LAMBDA i : At(A, <<i[1], r>>))     \* column r as an (I x 1) matrix
Same(A, B) == A.shape = B.shape /\ \A n \in 1..Size(A.shape) : A.data[n] = B.data[n]

\* spec-defined generic Gaussian-integer test data (entries in -3..3)
Fill(shape, salt) ==
    [shape |-> shape,
     data  |-> [n \in 1..Size(shape) |-> <<((3 * n + 5 * salt + (n \div 4)) % 7) - 3,
                                           ((2 * n + 3 * salt + (n \div 3)) % 7) - 3>>]]
FillReal(shape, salt) ==
    [shape |-> shape, data |-> [n \in 1..Size(shape) |-> <<((3 * n + 5 * salt + (n \div 4)) % 7) - 3, 0>>]]

----------------------------------------------------------------------------
(* The configuration domain.  A configuration fixes the operation, every operand SHAPE and every  *)
(* option; the harness only draws the operand VALUES (integers in -3..3, real or Gaussian).       *)
(* Full(fam, key) is the complete bounded family; both tiers enumerate a spec-defined thinning    *)
(* of it (Keep: a linear hash of the configuration's numbers modulo a per-family prime) because   *)
(* the complete product of shapes x mode lists x options has millions of points.                 *)
Shapes   == {s \in UNION {[1..n -> 1..MaxDim] : n \in 1..MaxOrder} : Size(s) <= MaxSize}
ShapesTo(o)  == {s \in Shapes : Len(s) <= o}
ShapesTo0(o) == {<<>>} \cup ShapesTo(o)
MatShapes == [1..2 -> 1..MaxDim]
\* shapes whose neighbouring modes differ in size (a mode mix-up changes the result shape), plus
\* the all-2 shapes (a mode mix-up keeps every shape and is only visible in the values)
RepShapes == {s \in Shapes : (\A k \in 1..(Len(s) - 1) : s[k] # s[k + 1]) \/ (\A k \in 1..Len(s) : s[k] = 2)}
InjSeqs(S, k) == {s \in [1..k -> S] : NoDup(s)}
SeqsUpTo(S, lo, hi) == UNION {[1..k -> S] : k \in lo..hi}
B2N(b) == IF b THEN 1 ELSE 0
MaxList == IF Tier = "quick" THEN 3 ELSE 4

\* which mode arguments of tensordot are spelled with negative numbers
NegKinds == {"none", "m1", "m2", "b", "all"}
Families == {"mode_dot", "multi_mode_dot", "kronecker", "khatri_rao", "inner", "outer", "batched_outer",
             "tensordot", "mttkrp", "moment", "sampled_kr"}

\* order-5 / order-6 operands (beyond MaxOrder) for the single-tensor families
ExtraShapes == {<<2, 1, 2, 1, 2>>, <<1, 2, 2, 1, 1, 3>>}
TDShapes == IF Tier = "quick" THEN RepShapes \cap ShapesTo(3) ELSE ShapesTo(3)
Keys(fam) ==
    CASE fam = "mode_dot" -> Shapes \cup ExtraShapes
      [] fam = "inner" -> Shapes
      [] fam = "multi_mode_dot" -> {s \in RepShapes : Tier # "quick" \/ Len(s) <= 3 \/ s[1] = 2} \cup {<<2, 1, 2, 1, 2>>}
      [] fam \in {"kronecker", "khatri_rao", "sampled_kr"} -> MatShapes
      [] fam = "outer" -> ShapesTo(3)
      [] fam = "batched_outer" -> ShapesTo(3)
      [] fam = "tensordot" -> TDShapes
      [] fam = "mttkrp" -> {s \in Shapes : Len(s) >= 2} \cup ExtraShapes
      [] fam = "moment" -> {s \in ShapesTo(3) : Len(s) >= 2}

\* sampled Khatri-Rao: row-count lists whose product exceeds 2^15 (the reported row numbers do not fit int16)
BigRows == {<<200, 180>>, <<181, 182>>, <<250, 255>>, <<2, 250, 200>>, <<255, 254, 3>>, <<3, 200, 180>>}
IdxForms == <<"list", "i16", "i32", "i64">>
IsBigKR(c) == c.op = "sampled_kr" /\ \E k \in 1..Len(c.rows) : c.rows[k] > MaxDim
BigIdxForms == <<"i16", "list", "i16", "i32", "i16", "i64">>         \* the big regime is about narrow index dtypes
WithIdt(c) == LET h == SumSeq(c.rows) + c.R + c.ns + c.skip + 1 IN
              c @@ [idt |-> IF ~c.given THEN "rng"
                            ELSE IF \E k \in 1..Len(c.rows) : c.rows[k] > MaxDim THEN BigIdxForms[(h % 6) + 1]
                            ELSE IdxForms[(h % 4) + 1]]
\* orderings of a mode subset that are enumerated for multi_mode_dot: sorted, reversed, rotated
ModeOrders(S) ==
    LET a == SortedSeq(S)
        L == Len(a)
    IN  {a, Rev(a), [k \in 1..L |-> a[(k % L) + 1]]}

Full(fam, key) ==
    CASE fam = "mode_dot" ->
            LET N == Len(key) IN
            {[op |-> fam, shape |-> key, mode |-> m, vec |-> TRUE, J |-> 0, tr |-> tr, bad |-> bad] :
                 m \in 0..(N - 1), tr \in BOOLEAN, bad \in BOOLEAN}
            \cup {[op |-> fam, shape |-> key, mode |-> m, vec |-> FALSE, J |-> J, tr |-> tr, bad |-> bad] :
                 m \in 0..(N - 1), J \in 1..MaxDim, tr \in BOOLEAN, bad \in BOOLEAN}
      [] fam = "multi_mode_dot" ->
            LET N == Len(key) IN
            UNION {UNION {
               {[op |-> fam, shape |-> key, modes |-> ms, vecs |-> vs,
                 js |-> [j \in 1..Len(ms) |-> IF vs[j] THEN 0 ELSE ((j + N + a) % MaxDim) + 1],
                 skip |-> sk, tr |-> tr, given |-> gv] :
                    vs \in [1..Len(ms) -> BOOLEAN], a \in 0..(IF Tier = "quick" THEN 0 ELSE 1), sk \in (-1)..(Len(ms) - 1), tr \in BOOLEAN,
                    gv \in {g \in BOOLEAN : g \/ ms = [j \in 1..Len(ms) |-> j - 1]}}
               : ms \in ModeOrders(S)} : S \in (SUBSET (0..(N - 1))) \ {{}}}
      [] fam = "kronecker" ->
            {c \in {[op |-> fam, shapes |-> <<key>> \o r, skip |-> sk, reverse |-> rv] :
                       r \in SeqsUpTo(MatShapes, 0, MaxList - 1), sk \in (-1)..(MaxList - 1), rv \in BOOLEAN} :
                 /\ c.skip < Len(c.shapes) /\ (c.skip >= 0 => Len(c.shapes) >= 2)}
      [] fam = "khatri_rao" ->
            {c \in {[op |-> fam, rows |-> <<key[1]>> \o r, R |-> key[2], skip |-> sk, w |-> w, mask |-> mk, bad |-> bad] :
                       r \in SeqsUpTo(1..MaxDim, 0, MaxList - 1), sk \in (-1)..(MaxList - 1),
                       w \in BOOLEAN, mk \in BOOLEAN, bad \in BOOLEAN} :
                 /\ c.skip < Len(c.rows) /\ (c.skip >= 0 => Len(c.rows) >= 2)
                 /\ (c.bad => Len(SkipAt(c.rows, c.skip)) >= 2)}
      [] fam = "inner" ->
            LET N == Len(key) IN
            {[op |-> fam, s1 |-> key, s2 |-> key, n |-> -1, bad |-> FALSE]}
            \cup {[op |-> fam, s1 |-> key, s2 |-> SetAt(key, 1, key[1] + 1), n |-> -1, bad |-> TRUE]}
            \cup ({[op |-> fam, s1 |-> key, s2 |-> SubSeq(key, N - n + 1, N) \o b, n |-> n, bad |-> FALSE] :
                      n \in 0..N, b \in ShapesTo0(2)} \ {[op |-> fam, s1 |-> key, s2 |-> <<>>, n |-> 0, bad |-> FALSE]})
            \cup {[op |-> fam, s1 |-> key, s2 |-> SetAt(SubSeq(key, N - n + 1, N) \o b, 1, key[N - n + 1] + 1), n |-> n, bad |-> TRUE] :
                     n \in 1..N, b \in ShapesTo0(1)}
      [] fam = "outer" ->
            {[op |-> fam, shapes |-> <<key>> \o r] : r \in SeqsUpTo(ShapesTo(2), 0, 2)}
      [] fam = "batched_outer" ->
            {[op |-> fam, shapes |-> <<key>> \o [k \in 1..Len(r) |-> <<key[1]>> \o r[k]]] :
                 r \in SeqsUpTo(ShapesTo0(2), 0, 2)}
      [] fam = "tensordot" ->
            \* candidates (Keep filters them with BaseOK): normalised mode lists first, then every
            \* way of passing them: pair / int form, and which arguments are SPELLED with negative numbers
            LET N1 == Len(key) IN
            UNION {UNION {UNION {
               {[op |-> fam, s1 |-> key, s2 |-> s2,
                 m1 |-> Spell(m1, N1, ng \in {"m1", "all"}), m2 |-> Spell(m2, Len(s2), ng \in {"m2", "all"}),
                 b1 |-> Spell(b1, N1, ng \in {"b", "all"}), b2 |-> Spell(b2, Len(s2), ng \in {"b", "all"}),
                 mint |-> mi, bint |-> bi, neg |-> ng] :
                    b2 \in {x \in InjSeqs((0..(Len(s2) - 1)) \ SeqRange(m2), Len(b1)) :
                               \A t \in 1..Len(b1) : s2[x[t] + 1] = key[b1[t] + 1]},
                    mi \in {g \in BOOLEAN : g => /\ m1 = [t \in 1..Len(m1) |-> N1 - Len(m1) + t - 1]
                                                 /\ m2 = [t \in 1..Len(m1) |-> t - 1]},
                    bi \in {g \in BOOLEAN : g => Len(b1) = 1},
                    ng \in NegKinds}
               : m2 \in {x \in InjSeqs(0..(Len(s2) - 1), Len(m1)) : \A t \in 1..Len(m1) : s2[x[t] + 1] = key[m1[t] + 1]},
                 b1 \in UNION {InjSeqs((0..(N1 - 1)) \ SeqRange(m1), k) : k \in 0..2}}
               : m1 \in UNION {InjSeqs(0..(N1 - 1), k) : k \in 0..2}}
               : s2 \in TDShapes}
      [] fam = "mttkrp" ->
            {[op |-> fam, shape |-> key, R |-> R, mode |-> m, w |-> w, variant |-> v] :
                 R \in 1..MaxDim, m \in 0..(Len(key) - 1), w \in BOOLEAN, v \in {"default", "memory"}}
      [] fam = "moment" ->
            {[op |-> fam, shape |-> key, order |-> p] : p \in 1..3}
      [] fam = "sampled_kr" ->
            \* idt: how caller-supplied indices are passed (rotated); the BigRows regime (product of the row
            \* counts beyond 2^15, matrices with 1-2 columns) hangs off the key <<1, 1>>
            {WithIdt(c) : c \in
               {c \in {[op |-> fam, rows |-> <<key[1]>> \o r, R |-> key[2], skip |-> sk, ns |-> ns, given |-> gv] :
                          r \in SeqsUpTo(1..MaxDim, 0, MaxList - 1), sk \in (-1)..(MaxList - 1), ns \in 1..3, gv \in BOOLEAN} :
                    /\ c.skip < Len(c.rows) /\ (c.skip >= 0 => Len(c.rows) >= 2)}
               \cup (IF key # <<1, 1>> THEN {} ELSE
                     {c \in {[op |-> fam, rows |-> rw, R |-> R, skip |-> sk, ns |-> ns, given |-> gv] :
                                rw \in BigRows, R \in 1..2, sk \in (-1)..2, ns \in 2..3, gv \in BOOLEAN} :
                          c.skip < Len(c.rows) /\ ProdSeq(SkipAt(c.rows, c.skip)) > 32767})}

\* ---- structural validity (used by the trace specification instead of set membership)
IsShape(s, lo, hi) == /\ DOMAIN s = 1..Len(s) /\ Len(s) \in lo..hi
                      /\ \A k \in 1..Len(s) : s[k] \in 1..(MaxDim + 1)
IsBool(b) == b \in BOOLEAN
InSeq(x, seq) == \E k \in 1..Len(seq) : seq[k] = x
IsModes(s, N) == DOMAIN s = 1..Len(s) /\ (\A k \in 1..Len(s) : s[k] \in 0..(N - 1)) /\ NoDup(s)
\* a mode list as passed by the caller: all entries negative (counting from the end) or all non-negative
IsSpelled(s, N, negative) == /\ DOMAIN s = 1..Len(s) /\ Len(s) <= N
                             /\ \A k \in 1..Len(s) : s[k] \in (IF negative THEN (-N)..(-1) ELSE 0..(N - 1))
\* the normalised mode lists of a tensordot configuration
TD(c) == [m1 |-> NormSeq(c.m1, Len(c.s1)), m2 |-> NormSeq(c.m2, Len(c.s2)),
          b1 |-> NormSeq(c.b1, Len(c.s1)), b2 |-> NormSeq(c.b2, Len(c.s2))]
Fields(op) ==
    CASE op = "mode_dot" -> {"op", "shape", "mode", "vec", "J", "tr", "bad"}
      [] op = "multi_mode_dot" -> {"op", "shape", "modes", "vecs", "js", "skip", "tr", "given"}
      [] op = "kronecker" -> {"op", "shapes", "skip", "reverse"}
      [] op = "khatri_rao" -> {"op", "rows", "R", "skip", "w", "mask", "bad"}
      [] op = "inner" -> {"op", "s1", "s2", "n", "bad"}
      [] op \in {"outer", "batched_outer"} -> {"op", "shapes"}
      [] op = "tensordot" -> {"op", "s1", "s2", "m1", "m2", "b1", "b2", "mint", "bint", "neg"}
      [] op = "mttkrp" -> {"op", "shape", "R", "mode", "w", "variant"}
      [] op = "moment" -> {"op", "shape", "order"}
      [] op = "sampled_kr" -> {"op", "rows", "R", "skip", "ns", "given", "idt"}
      [] OTHER -> {}

\* validity of the operation part of a configuration (the argument-form fields are checked by ValidCfg below)
BaseOK(c) ==
    /\ "op" \in DOMAIN c /\ c.op \in Families /\ Fields(c.op) \subseteq DOMAIN c
    /\ CASE c.op = "mode_dot" ->
              /\ IsShape(c.shape, 1, MaxOrder + 2) /\ c.mode \in 0..(Len(c.shape) - 1)
              /\ IsBool(c.vec) /\ IsBool(c.tr) /\ IsBool(c.bad)
              /\ c.J \in (IF c.vec THEN {0} ELSE 1..MaxDim)
         [] c.op = "multi_mode_dot" ->
              /\ IsShape(c.shape, 1, MaxOrder + 2) /\ IsModes(c.modes, Len(c.shape)) /\ Len(c.modes) >= 1
              /\ DOMAIN c.vecs = DOMAIN c.modes /\ DOMAIN c.js = DOMAIN c.modes
              /\ \A j \in DOMAIN c.modes : IsBool(c.vecs[j]) /\ c.js[j] \in (IF c.vecs[j] THEN {0} ELSE 1..MaxDim)
              /\ c.skip \in (-1)..(Len(c.modes) - 1) /\ IsBool(c.tr) /\ IsBool(c.given)
              /\ (~c.given => c.modes = [j \in 1..Len(c.modes) |-> j - 1])
         [] c.op = "kronecker" ->
              /\ DOMAIN c.shapes = 1..Len(c.shapes) /\ Len(c.shapes) \in 1..4
              /\ \A k \in 1..Len(c.shapes) : IsShape(c.shapes[k], 2, 2)
              /\ c.skip \in (-1)..(Len(c.shapes) - 1) /\ (c.skip >= 0 => Len(c.shapes) >= 2) /\ IsBool(c.reverse)
         [] c.op = "khatri_rao" ->
              /\ IsShape(c.rows, 1, 4) /\ c.R \in 1..MaxDim
              /\ c.skip \in (-1)..(Len(c.rows) - 1) /\ (c.skip >= 0 => Len(c.rows) >= 2)
              /\ IsBool(c.w) /\ IsBool(c.mask) /\ IsBool(c.bad)
              /\ (c.bad => Len(SkipAt(c.rows, c.skip)) >= 2)
         [] c.op = "inner" ->
              /\ IsShape(c.s1, 1, MaxOrder) /\ IsShape(c.s2, 0, MaxOrder + 2) /\ IsBool(c.bad)
              /\ c.n \in (-1)..Len(c.s1) /\ c.n <= Len(c.s2) /\ Len(c.s2) >= 1
              /\ LET N == Len(c.s1)
                     common == IF c.n < 0 THEN c.s1 = c.s2
                               ELSE SubSeq(c.s1, N - c.n + 1, N) = SubSeq(c.s2, 1, c.n)
                 IN  c.bad = ~common
         [] c.op = "outer" ->
              /\ DOMAIN c.shapes = 1..Len(c.shapes) /\ Len(c.shapes) \in 1..3
              /\ \A k \in 1..Len(c.shapes) : IsShape(c.shapes[k], 1, MaxOrder)
         [] c.op = "batched_outer" ->
              /\ DOMAIN c.shapes = 1..Len(c.shapes) /\ Len(c.shapes) \in 1..3
              /\ \A k \in 1..Len(c.shapes) : IsShape(c.shapes[k], 1, MaxOrder) /\ c.shapes[k][1] = c.shapes[1][1]
         [] c.op = "tensordot" ->
              /\ IsShape(c.s1, 1, MaxOrder) /\ IsShape(c.s2, 1, MaxOrder)
              /\ c.neg \in NegKinds /\ IsBool(c.mint) /\ IsBool(c.bint)
              /\ IsSpelled(c.m1, Len(c.s1), c.neg \in {"m1", "all"}) /\ IsSpelled(c.m2, Len(c.s2), c.neg \in {"m2", "all"})
              /\ IsSpelled(c.b1, Len(c.s1), c.neg \in {"b", "all"}) /\ IsSpelled(c.b2, Len(c.s2), c.neg \in {"b", "all"})
              /\ (c.neg = "m1" => Len(c.m1) >= 1) /\ (c.neg = "m2" => Len(c.m2) >= 1) /\ (c.neg = "b" => Len(c.b1) >= 1)
              /\ (c.neg = "all" => Len(c.m1) + Len(c.b1) >= 1)
              /\ LET t == TD(c) IN
                   /\ IsModes(t.m1 \o t.b1, Len(c.s1)) /\ IsModes(t.m2 \o t.b2, Len(c.s2))
                   /\ Len(t.m1) = Len(t.m2) /\ Len(t.b1) = Len(t.b2)
                   /\ \A k \in 1..Len(t.m1) : c.s1[t.m1[k] + 1] = c.s2[t.m2[k] + 1]
                   /\ \A k \in 1..Len(t.b1) : c.s1[t.b1[k] + 1] = c.s2[t.b2[k] + 1]
                   \* modes=k (an int): the last k modes of tensor 1 against the first k of tensor 2
                   /\ (c.mint => /\ t.m1 = [k \in 1..Len(t.m1) |-> Len(c.s1) - Len(t.m1) + k - 1]
                                 /\ t.m2 = [k \in 1..Len(t.m1) |-> k - 1]
                                 /\ (Len(c.m1) >= 1 => c.neg \notin {"m1", "m2", "all"}))
                   \* batched_modes=k (an int): the SAME number names the batch mode of both tensors
                   /\ (c.bint => Len(c.b1) = 1 /\ c.b1 = c.b2)
         [] c.op = "mttkrp" ->
              /\ IsShape(c.shape, 2, MaxOrder + 2) /\ c.R \in 1..MaxDim /\ c.mode \in 0..(Len(c.shape) - 1)
              /\ IsBool(c.w) /\ c.variant \in {"default", "memory"}
         [] c.op = "moment" ->
              /\ IsShape(c.shape, 2, 3) /\ c.order \in 1..3
         [] c.op = "sampled_kr" ->
              /\ (IsShape(c.rows, 1, 4) \/ (DOMAIN c.rows = 1..Len(c.rows) /\ c.rows \in BigRows /\ c.R <= 2))
              /\ c.R \in 1..MaxDim
              /\ c.skip \in (-1)..(Len(c.rows) - 1) /\ (c.skip >= 0 => Len(c.rows) >= 2)
              /\ c.ns \in 1..3 /\ IsBool(c.given)
              /\ (IF c.given THEN InSeq(c.idt, IdxForms) ELSE c.idt = "rng")

\* ---- operand shapes a configuration prescribes: ts = the tensor list, w = weights, mask
Raises(c) == "bad" \in DOMAIN c /\ c.bad
InShapes(c) ==
    CASE c.op = "mode_dot" ->
            LET I == c.shape[c.mode + 1] + B2N(c.bad) IN
            <<c.shape, IF c.vec THEN <<I>> ELSE IF c.tr THEN <<I, c.J>> ELSE <<c.J, I>> >>
      [] c.op = "multi_mode_dot" ->
            <<c.shape>> \o [j \in 1..Len(c.modes) |->
                 LET I == c.shape[c.modes[j] + 1] IN
                 IF c.vecs[j] THEN <<I>> ELSE IF c.tr THEN <<I, c.js[j]>> ELSE <<c.js[j], I>>]
      [] c.op = "kronecker" -> c.shapes
      [] c.op = "khatri_rao" ->
            \* bad: the last remaining matrix has one column too many
            LET last == CHOOSE k \in 1..Len(c.rows) : k - 1 # c.skip /\ \A m \in (k + 1)..Len(c.rows) : m - 1 = c.skip
            IN  [k \in 1..Len(c.rows) |-> <<c.rows[k], c.R + (IF c.bad /\ k = last THEN 1 ELSE 0)>>]
      [] c.op = "inner" -> <<c.s1, c.s2>>
      [] c.op \in {"outer", "batched_outer"} -> c.shapes
      [] c.op = "tensordot" -> <<c.s1, c.s2>>
      [] c.op = "mttkrp" -> <<c.shape>> \o [k \in 1..Len(c.shape) |-> <<c.shape[k], c.R>>]
      [] c.op = "moment" -> <<c.shape>>
      [] c.op = "sampled_kr" -> [k \in 1..Len(c.rows) |-> <<c.rows[k], c.R>>]
WShape(c)    == <<c.R>>
MaskShape(c) == SkipAt(c.rows, c.skip)
HasW(c)    == c.op \in {"khatri_rao", "mttkrp"} /\ c.w
HasMask(c) == c.op = "khatri_rao" /\ c.mask

\* ---- the documented result of a (non-raising) configuration on operands ts (w, mask: all ones when absent)
Expected(c, ts, w, mask) ==
    CASE c.op = "mode_dot" -> ModeDot(ts[1], ts[2], c.mode, c.tr)
      [] c.op = "multi_mode_dot" -> MultiModeDot(ts[1], Tail(ts), c.modes, c.skip, c.tr)
      [] c.op = "kronecker" -> Kron(ts, c.skip, c.reverse)
      [] c.op = "khatri_rao" -> KhatriRao(ts, w, mask, c.skip)
      [] c.op = "inner" -> Inner(ts[1], ts[2], c.n)
      [] c.op = "outer" -> Outer(ts)
      [] c.op = "batched_outer" -> BatchedOuter(ts)
      [] c.op = "tensordot" -> LET t == TD(c) IN Tensordot(ts[1], ts[2], t.m1, t.m2, t.b1, t.b2, FALSE)
      [] c.op = "mttkrp" -> MTTKRP(ts[1], w, Tail(ts), c.mode)
      [] c.op = "moment" -> MomentNum(ts[1], c.order)

OutSize(c) ==      \* entries of the result (bounded by MaxOut)
    CASE c.op = "kronecker" -> ProdSeq(Concat(SkipAt(c.shapes, c.skip)))
      [] c.op = "khatri_rao" -> ProdSeq(SkipAt(c.rows, c.skip)) * c.R
      [] c.op = "inner" -> IF c.n < 0 \/ c.bad THEN 1 ELSE (Size(c.s1) * Size(c.s2)) \div (ProdSeq(SubSeq(c.s2, 1, c.n)) * ProdSeq(SubSeq(c.s2, 1, c.n)))
      [] c.op = "outer" -> ProdSeq(Concat(c.shapes))
      [] c.op = "batched_outer" -> c.shapes[1][1] * ProdSeq(Concat([k \in 1..Len(c.shapes) |-> Tail(c.shapes[k])]))
      [] c.op = "tensordot" -> LET t == TD(c) IN
            (Size(c.s1) * Size(c.s2)) \div (ProdSeq(Pick(c.s1, Plus1(t.m1))) * ProdSeq(Pick(c.s1, Plus1(t.m1))) * ProdSeq(Pick(c.s1, Plus1(t.b1))))
      [] c.op = "moment" -> LET r == Size(Tail(c.shape)) IN IF c.order = 1 THEN r ELSE IF c.order = 2 THEN r * r ELSE r * r * r
      [] OTHER -> 1
InSizeOK(c) == IsBigKR(c) \/ LET sh == InShapes(c) IN \A k \in 1..Len(sh) : Size(sh[k]) <= MaxSize + 12

\* ---- thinning
NegCode(n) == CASE n = "none" -> 0 [] n = "m1" -> 1 [] n = "m2" -> 2 [] n = "b" -> 3 [] OTHER -> 4
Flat(c) ==
    CASE c.op = "mode_dot" -> c.shape \o <<c.mode, B2N(c.vec), c.J, B2N(c.tr), B2N(c.bad)>>
      [] c.op = "multi_mode_dot" -> c.modes \o [j \in 1..Len(c.vecs) |-> B2N(c.vecs[j])] \o c.js \o <<c.skip + 1, B2N(c.tr), B2N(c.given)>> \o c.shape
      [] c.op = "kronecker" -> <<c.skip + 1, B2N(c.reverse)>> \o Concat(c.shapes)
      [] c.op = "khatri_rao" -> <<c.skip + 1, B2N(c.w), B2N(c.mask), B2N(c.bad), c.R>> \o c.rows
      [] c.op = "inner" -> <<c.n + 1, B2N(c.bad)>> \o c.s1 \o c.s2
      [] c.op \in {"outer", "batched_outer"} -> Concat(c.shapes)
      [] c.op = "tensordot" -> LET t == TD(c) IN
            <<B2N(c.mint), B2N(c.bint), NegCode(c.neg)>> \o t.m1 \o t.m2 \o t.b1 \o t.b2 \o c.s1 \o c.s2
      [] c.op = "mttkrp" -> <<c.R, c.mode, B2N(c.w), B2N(c.variant = "memory")>> \o c.shape
      [] c.op = "moment" -> <<c.order>> \o c.shape
      [] c.op = "sampled_kr" -> <<c.skip + 1, c.ns, B2N(c.given), c.R, IF c.idt = "i16" THEN 1 ELSE 0>> \o c.rows
\* polynomial hash of the configuration's numbers (all >= 0), reduced modulo the thinning prime
Hash(xs, p) == LET F[k \in 0..Len(xs)] == IF k = 0 THEN 7 ELSE (F[k - 1] * 31 + xs[k] + 1) % 1000003
               IN  F[Len(xs)] % p
ThinTab ==
    [quick    |-> [mode_dot |-> 13, multi_mode_dot |-> 59, kronecker |-> 43, khatri_rao |-> 7, inner |-> 31,
                   outer |-> 37, batched_outer |-> 47, tensordot |-> 101, mttkrp |-> 23, moment |-> 1, sampled_kr |-> 19],
     thorough |-> [mode_dot |-> 3, multi_mode_dot |-> 29, kronecker |-> 97, khatri_rao |-> 11, inner |-> 7,
                   outer |-> 7, batched_outer |-> 11, tensordot |-> 67, mttkrp |-> 5, moment |-> 1, sampled_kr |-> 17]]
Thin(c) == IF IsBigKR(c) THEN (IF Tier = "quick" THEN 2 ELSE 1)
           ELSE ThinTab[Tier][c.op] * (IF Raises(c) THEN 5 ELSE 1)
Keep(c) == /\ (Thin(c) = 1 \/ Hash(Flat(c), Thin(c)) = 0)
           /\ (c.op = "tensordot" => BaseOK(c))          \* Full("tensordot") is a candidate set
           /\ OutSize(c) <= MaxOut /\ InSizeOK(c)


\* ---- argument forms ------------------------------------------------------------------------
(* Three dimensions of HOW the same mathematical call is spelled.  The expected value never       *)
(* depends on them; they are configuration fields (checked by ValidCfg) which the harness obeys:  *)
(*   ity : every integer-like argument (mode, modes entries, skip, skip_matrix, n_modes, order,   *)
(*         n_samples, tensordot modes / batched modes) is a Python int, numpy.int64 or numpy.int32 *)
(*   ct  : the container of the operand list (matrices / factors / tensors): list or tuple        *)
(*   dt  : operand dtypes.  "first" = the data tensor (first operand), "others" = every other     *)
(*         operand incl. weights and mask:                                                        *)
(*           same      all float64 (complex128 on a Gaussian draw)                                *)
(*           int_f     first int64 (real), others float64 / complex128                            *)
(*           f32_f64   first float32 / complex64, others float64 / complex128                     *)
(*           real_cplx first float64, others complex128       cplx_real  first complex128, others float64 *)
(*         The result must be the formula evaluated in the PROMOTED type.  So that a result that   *)
(*         was cast back to the narrower type of the first operand CHANGES VALUE, the operands the *)
(*         formula really uses carry a scale (sc, one code per operand: ts.., weights, mask):      *)
(*           code 1 = the operand passed is (logged integers) / 2        (int_f: all used others)  *)
(*           code 2 = the operand passed is (logged integers) * (2^26+1) (f32_f64: one used other) *)
(*         Every operation is linear in each used operand, hence  result = formula(logged) * prod  *)
(*         of the scales, exactly (dyadic numbers, < 2^53); the harness logs result / prod(scales)  *)
(*         and `exact` = that quotient is an integer tensor.  A truncated or float32-rounded        *)
(*         result fails Exact or Value.                                                            *)
(*   rep : the operation is called rep times on the SAME argument objects (same list / tuple /      *)
(*         arrays); every call must return the documented value (state must not leak between calls)  *)
(*   me  : magnitude regime: the first operand is passed multiplied by 2^me (tiny / huge); e2 is    *)
(*         the exponent this contributes to the result (me times the number of times the formula    *)
(*         uses the first operand), which the harness divides out exactly -- powers of two scale     *)
(*         exactly, so the Value clause stays an exact integer comparison                           *)
(*   mf  : the iterable that carries a SEQUENCE of modes (multi_mode_dot `modes`; the mode lists of  *)
(*         tensordot `modes` / `batched_modes`): list, tuple, ndarray, range (when the modes form an  *)
(*         arithmetic progression), dict keys, or a ONE-SHOT iterator: iter(..), a generator          *)
(*         expression, map(int, ..), reversed(..).  The documentation only says "int list"; the        *)
(*         functions merely iterate the argument (their own default is a lazy `range`), so every       *)
(*         iterable must give the same value.  A one-shot iterator is rebuilt for every repeated call. *)
(*   cf  : call form: "mixed" (leading operands positional, options by keyword), "pos" (every      *)
(*         parameter positionally in the published order), "kw" (every parameter by its published    *)
(*         name); the published names / order are frozen in the harness                              *)
(*   ep  : entry point: the dispatching attribute tensorly.tenalg.<fn> or the function of the       *)
(*         selected backend package itself                                                          *)
(*   alias: operands of the list ts with the same AliasKey are ONE array object (same values)         *)
(*   pre : "failed" = an earlier call with the same argument objects and one invalid option was made  *)
(*         and its exception caught; the real call(s) that follow must still be right                 *)
(*   nz  : every exact zero of a floating operand is passed as -0.0                                   *)
(*   rsr : sample_khatri_rao(return_sampled_rows = rsr)                                               *)
(*   me = -1074 makes the whole first operand SUBNORMAL (integer multiples of 2^-1074 are exact)      *)
FormFields == {"ity", "dt", "ct", "sc", "rep", "me", "e2", "mf", "cf", "ep", "alias", "pre", "nz", "rsr"}
CallForms == <<"mixed", "pos", "kw">>
EpForms(c) == IF c.op = "sampled_kr" \/ (c.op = "mttkrp" /\ c.variant = "memory") THEN <<"dispatch">>
              ELSE <<"dispatch", "direct">>
PreForms(c) == IF ~Raises(c) /\ c.op \in {"mode_dot", "multi_mode_dot", "khatri_rao", "inner", "tensordot", "mttkrp", "sampled_kr"}
               THEN <<"none", "failed">> ELSE <<"none">>
RsrForms(c) == IF c.op = "sampled_kr" /\ ~IsBigKR(c) THEN <<TRUE, FALSE>> ELSE <<TRUE>>   \* (the big-rows regime is about the row numbers)
Bools == <<FALSE, TRUE>>
AliasKey(c, k) == <<InShapes(c)[k], c.sc[k], IF k = 1 /\ (c.dt # "same" \/ c.me # 0) THEN 1 ELSE 0>>
AllModeForms == <<"list", "tuple", "array", "dictkeys", "iter", "gen", "map", "reversed", "range">>
IsProgression(s) == Len(s) <= 1 \/ (s[2] # s[1] /\ \A k \in 2..Len(s) : s[k] - s[k - 1] = s[2] - s[1])
ModeSeqs(c) ==      \* the mode sequences the call passes as iterables
    CASE c.op = "multi_mode_dot" -> IF c.given THEN <<c.modes>> ELSE <<>>
      [] c.op = "tensordot" -> (IF c.mint THEN <<>> ELSE <<c.m1, c.m2>>) \o (IF c.bint THEN <<>> ELSE <<c.b1, c.b2>>)
      [] OTHER -> <<>>
ModeForms(c) ==
    LET ms == ModeSeqs(c) IN
    IF Len(ms) = 0 THEN <<"list">>
    ELSE IF \A k \in 1..Len(ms) : IsProgression(ms[k]) THEN AllModeForms
    ELSE SubSeq(AllModeForms, 1, Len(AllModeForms) - 1)
RepForms == <<1, 2, 3>>
MagForms(c) == IF c.dt \in {"int_f", "f32_f64"} \/ Raises(c) THEN <<0>>     \* an int64 / float32 operand has no such range
               ELSE IF c.op = "moment" THEN <<0, -300, 300>> ELSE <<0, -600, 500, -1074>>
FirstUses(c) == IF c.op = "moment" THEN c.order
                ELSE IF c.op \in {"kronecker", "khatri_rao", "sampled_kr"} /\ c.skip = 0 THEN 0 ELSE 1
\* forms each operation is exercised with (forms that the unchanged tree does not handle and the
\* documentation does not promise are left out -- see the driver's assumptions)
\*  * tensordot(modes=k) / (batched_modes=k) with k a NumPy integer: both backends test isinstance(k, int)
\*    and then fail to unpack it (TypeError on the unchanged tree); the docstring says "int list or int"
\*  * einsum khatri_rao(tuple_of_matrices, weights=w) without skip_matrix does `matrices + [weights]`
\*    (TypeError on the unchanged tree); the docstring says "2D-array list"
IntForms(c) == IF c.op = "tensordot" /\ (c.mint \/ c.bint) THEN <<"int">> ELSE <<"int", "i64", "i32">>
DtForms(c)  == IF c.op = "moment" THEN <<"same", "int_f", "f32_f64">>        \* moments: real data only
               ELSE <<"same", "int_f", "f32_f64", "real_cplx", "cplx_real">>
CtForms(c)  == IF c.op \in {"mode_dot", "inner", "tensordot", "moment"} THEN <<"list">>       \* no operand list
               ELSE IF c.op = "khatri_rao" /\ c.w /\ c.skip < 0 THEN <<"list">>
               ELSE <<"list", "tuple">>

\* is operand k >= 2 of the tensor list used by the formula?
UsedOp(c, k) ==
    CASE c.op = "multi_mode_dot" -> k - 2 # c.skip
      [] c.op \in {"kronecker", "khatri_rao", "sampled_kr"} -> k - 1 # c.skip
      [] c.op = "mttkrp" -> k - 2 # c.mode
      [] OTHER -> TRUE
ScaleCodes(c) ==
    LET n == Len(InShapes(c))
        first == IF c.op \in {"kronecker", "khatri_rao", "sampled_kr"} /\ c.skip = 0 THEN 0 ELSE 1   \* (unused first operand)
        used == {k \in 2..n : UsedOp(c, k)} \cup (IF HasW(c) THEN {n + 1} ELSE {}) \cup (IF HasMask(c) THEN {n + 2} ELSE {})
        one == IF used = {} THEN 0 ELSE CHOOSE k \in used : \A m \in used : k <= m
    IN  [k \in 1..(n + 2) |->
            IF Raises(c) \/ c.op = "sampled_kr" THEN 0
            ELSE IF c.dt = "int_f" /\ k \in used THEN 1
            ELSE IF c.dt = "f32_f64" /\ k = one THEN 2
            ELSE 0]
Rot(seq, h) == seq[(h % Len(seq)) + 1]
\* the forms are ROTATED over the enumerated configurations (a hash of the configuration picks one
\* combination) instead of multiplying the domain
WithForms(c) ==
    LET h  == Hash(Flat(c), 999983)
        f  == [ity |-> Rot(IntForms(c), h), dt |-> Rot(DtForms(c), h \div 3), ct |-> Rot(CtForms(c), h \div 15)]
        cf == c @@ f
        me == Rot(MagForms(cf), h \div 90)
    IN  cf @@ [sc |-> ScaleCodes(cf), rep |-> Rot(RepForms, h \div 30), me |-> me, e2 |-> me * FirstUses(cf),
               mf |-> Rot(ModeForms(cf), h \div 7)]
           @@ (LET g == Hash(Flat(c) \o <<17>>, 999979) IN
               [cf |-> Rot(CallForms, g), ep |-> Rot(EpForms(c), g \div 3), alias |-> Rot(Bools, g \div 6),
                pre |-> Rot(PreForms(c), g \div 12), nz |-> Rot(Bools, g \div 24), rsr |-> Rot(RsrForms(c), g \div 48)])
ValidCfg(c) ==
    /\ BaseOK(c) /\ DOMAIN c = Fields(c.op) \cup FormFields
    /\ InSeq(c.ity, IntForms(c)) /\ InSeq(c.dt, DtForms(c)) /\ InSeq(c.ct, CtForms(c))
    /\ c.sc = ScaleCodes(c)
    /\ InSeq(c.rep, RepForms) /\ InSeq(c.me, MagForms(c)) /\ c.e2 = c.me * FirstUses(c)
    /\ InSeq(c.mf, ModeForms(c))
    /\ InSeq(c.cf, CallForms) /\ InSeq(c.ep, EpForms(c)) /\ IsBool(c.alias) /\ InSeq(c.pre, PreForms(c))
    /\ IsBool(c.nz) /\ InSeq(c.rsr, RsrForms(c))

----------------------------------------------------------------------------
(* Theorems about the specification (evaluated by TLC in every state of the design run, i.e. for  *)
(* every enumerated configuration, on the generic test operands Fill(shape, k)).  Each ties a     *)
(* formula above to a differently written one.                                                   *)
TestTs(c) == LET sh == InShapes(c) IN [k \in 1..Len(sh) |-> Fill(sh[k], k)]
TestW(c)    == IF HasW(c) THEN FillReal(WShape(c), 11) ELSE Ones(WShape(c))
TestMask(c) == IF HasMask(c) THEN Fill(MaskShape(c), 13) ELSE Ones(MaskShape(c))
ConjTr(M) == Build(<<M.shape[2], M.shape[1]>>, LAMBDA ij : CConj(At(M, <<ij[2], ij[1]>>)))
AsRow(v)  == [shape |-> <<1, v.shape[1]>>, data |-> v.data]

\* Unfold(T x_n M, n) = M . Unfold(T, n);   T x_n v = the (1 x I) matrix product with the mode dropped
ThmModeDot(c, ts) ==
    LET T == ts[1]
        M == ts[2]
        out == ModeDot(T, M, c.mode, c.tr)
    IN  IF c.vec
        THEN /\ out.shape = DropAt(T.shape, c.mode + 1)
             /\ \A n \in 1..Size(out.shape) : out.data[n] = ModeDot(T, AsRow(M), c.mode, FALSE).data[n]
        ELSE Same(Unfold(out, c.mode), MatMul(IF c.tr THEN ConjTr(M) ELSE M, Unfold(T, c.mode)))

\* multi-mode product = the same single products applied from the LOWEST mode up, renumbering the
\* mode after every vector contraction; and (matrices only) = applied in the order of the list
RECURSIVE MMDAsc(_, _, _, _, _, _)
MMDAsc(T, Ms, modes, S, tr, dec) ==
    IF S = {} THEN T
    ELSE LET j == CHOOSE x \in S : \A y \in S : modes[x] <= modes[y]
             v == Len(Ms[j].shape) = 1
             A == IF tr /\ v THEN ConjT(Ms[j]) ELSE Ms[j]
         IN  MMDAsc(ModeDot(T, A, modes[j] - dec, tr), Ms, modes, S \ {j}, tr, dec + B2N(v))
RECURSIVE MMDList(_, _, _, _, _)
MMDList(T, Ms, modes, S, tr) ==
    IF S = {} THEN T
    ELSE LET j == CHOOSE x \in S : \A y \in S : x <= y
         IN  MMDList(ModeDot(T, Ms[j], modes[j], tr), Ms, modes, S \ {j}, tr)
ThmMultiModeDot(c, ts) ==
    LET T == ts[1]
        Ms == Tail(ts)
        S == {j \in 1..Len(Ms) : j - 1 # c.skip}
        out == MultiModeDot(T, Ms, c.modes, c.skip, c.tr)
    IN  /\ Same(out, MMDAsc(T, Ms, c.modes, S, c.tr, 0))
        /\ ((\A j \in S : ~c.vecs[j]) => Same(out, MMDList(T, Ms, c.modes, S, c.tr)))

\* Kronecker: associativity, the two-matrix block formula, reverse = product of the reversed list
ThmKron(c, ts) ==
    LET l == SkipAt(ts, c.skip)
        K == Len(l)
        out == Kron(ts, c.skip, FALSE)
    IN  /\ (K = 1 => Same(out, l[1]))
        /\ (K >= 2 => Same(out, KronList(<<KronList(SubSeq(l, 1, K - 1)), l[K]>>)))
        /\ (K = 2 => \A i1 \in 0..(l[1].shape[1] - 1), j1 \in 0..(l[1].shape[2] - 1),
                        i2 \in 0..(l[2].shape[1] - 1), j2 \in 0..(l[2].shape[2] - 1) :
                        At(out, <<i1 * l[2].shape[1] + i2, j1 * l[2].shape[2] + j2>>)
                            = CMul(At(l[1], <<i1, j1>>), At(l[2], <<i2, j2>>)))
        /\ Same(Kron(ts, c.skip, TRUE), KronList(Rev(l)))
        /\ Same(Kron(ts, c.skip, TRUE), Kron(Rev(ts), IF c.skip < 0 THEN -1 ELSE Len(ts) - 1 - c.skip, FALSE))

\* Khatri-Rao: column r = w[r] * mask o (Kronecker product of the r-th columns)
ThmKhatriRao(c, ts, w, mask) ==
    LET l == SkipAt(ts, c.skip)
        out == KhatriRao(ts, w, mask, c.skip)
    IN  \A r \in 0..(c.R - 1) :
           LET kc == KronList([k \in 1..Len(l) |-> Col(l[k], r)]) IN
           \A i \in 0..(out.shape[1] - 1) :
              At(out, <<i, r>>) = CMul(CMul(At(w, <<r>>), mask.data[i + 1]), At(kc, <<i, 0>>))

\* inner = contraction of the last n modes with the first n; n_modes=None = all modes = sum A o B
ThmInner(c, ts) ==
    LET A == ts[1]
        B == ts[2]
        N == Len(A.shape)
        n == IF c.n < 0 THEN N ELSE c.n
        td == Tensordot(A, B, [t \in 1..n |-> N - n + t - 1], [t \in 1..n |-> t - 1], <<>>, <<>>, FALSE)
    IN  /\ Same(Inner(A, B, n), td)
        /\ (c.n < 0 => Inner(A, B, -1).shape = <<>> /\ Inner(A, B, -1).data[1] = td.data[1])

\* outer / batched outer = chains of tensordot without contraction (batched: mode 0 as batch mode)
ThmOuter(c, ts) ==
    LET K == Len(ts) IN
    /\ (K = 1 => Same(Outer(ts), ts[1]))
    /\ (K >= 2 => Same(Outer(ts), Tensordot(Outer(SubSeq(ts, 1, K - 1)), ts[K], <<>>, <<>>, <<>>, <<>>, FALSE)))
ThmBatchedOuter(c, ts) ==
    LET K == Len(ts) IN
    /\ (K = 1 => Same(BatchedOuter(ts), ts[1]))
    /\ (K >= 2 => Same(BatchedOuter(ts), Tensordot(BatchedOuter(SubSeq(ts, 1, K - 1)), ts[K], <<>>, <<>>, <<0>>, <<0>>, FALSE)))

\* tensordot: (i) without batch modes it is the matrix product of two matricizations;
\* (ii) with batch modes it is the "diagonal" of the contraction in which the batch modes are free;
\* (iii) the two output orders are transposes of one another
ThmTensordot(c, ts) ==
    LET A == ts[1]
        B == ts[2]
        NA == Len(A.shape)
        NB == Len(B.shape)
        t == TD(c)
        M1 == Plus1(t.m1)
        M2 == Plus1(t.m2)
        B1 == Plus1(t.b1)
        B2 == Plus1(t.b2)
        fA == SortedSeq((1..NA) \ SeqRange(M1))
        fB == SortedSeq((1..NB) \ SeqRange(M2))
        nb == Tensordot(A, B, t.m1, t.m2, <<>>, <<>>, FALSE)
        mA == Reshape(Transpose(A, fA \o M1), <<ProdSeq(Pick(A.shape, fA)), ProdSeq(Pick(A.shape, M1))>>)
        mB == Reshape(Transpose(B, M2 \o fB), <<ProdSeq(Pick(B.shape, M2)), ProdSeq(Pick(B.shape, fB))>>)
        out == Tensordot(A, B, t.m1, t.m2, t.b1, t.b2, FALSE)
        outb == Tensordot(A, B, t.m1, t.m2, t.b1, t.b2, TRUE)
        oB == SortedSeq((1..NB) \ (SeqRange(M2) \cup SeqRange(B2)))
        oAb == B1 \o SortedSeq((1..NA) \ (SeqRange(M1) \cup SeqRange(B1)))
    IN  /\ nb.shape = Pick(A.shape, fA) \o Pick(B.shape, fB)
        /\ \A n \in 1..Size(nb.shape) : nb.data[n] = MatMul(mA, mB).data[n]
        /\ \A o \in AllIdx(out.shape) :
              At(out, o) = At(nb, SubSeq(o, 1, Len(fA)) \o
                                  [k \in 1..Len(fB) |-> IF fB[k] \in SeqRange(B2)
                                                        THEN o[PosIn(fA, B1[PosIn(B2, fB[k])])]
                                                        ELSE o[Len(fA) + PosIn(oB, fB[k])]])
        /\ Same(outb, Transpose(out, [k \in 1..Len(out.shape) |->
                                        IF k <= Len(oAb) THEN PosIn(fA, oAb[k]) ELSE k]))

\* MTTKRP = Unfold(X, n) . conj(KhatriRao(factors, w, skip n))  (real w)
\*        = columns  w[r] * (X contracted with the conjugated r-th columns of all other factors)
ThmMTTKRP(c, ts, w) ==
    LET X == ts[1]
        Fs == Tail(ts)
        N == Len(X.shape)
        out == MTTKRP(X, w, Fs, c.mode)
        kr == KhatriRao(Fs, w, Ones(DropAt(X.shape, c.mode + 1)), c.mode)
        vecs(r) == [k \in 1..N |-> [shape |-> <<Fs[k].shape[1]>>, data |-> Col(Fs[k], r).data]]
    IN  /\ Same(out, MatMul(Unfold(X, c.mode), ConjT(kr)))
        /\ \A r \in 0..(c.R - 1) :
              LET col == MultiModeDot(X, vecs(r), [k \in 1..N |-> k - 1], c.mode, TRUE) IN
              \A i \in 0..(X.shape[c.mode + 1] - 1) : At(out, <<i, r>>) = CMul(At(w, <<r>>), At(col, <<i>>))

\* moment: numerator = the batched outer product of p copies summed over the samples
ThmMoment(c, ts) ==
    LET X == ts[1]
        ones == Ones(<<X.shape[1]>>)
        out == MomentNum(X, c.order)
    IN  /\ Same(out, ModeDot(BatchedOuter([j \in 1..c.order |-> X]), ones, 0, FALSE))
        /\ (c.order = 2 /\ Len(X.shape) = 2 => Same(out, MatMul(Transpose(X, <<2, 1>>), X)))

\* sampled rows are rows of the full Khatri-Rao product
ThmSampledKR(c, ts) ==
    LET l == SkipAt(ts, c.skip)
        idxs == [k \in 1..Len(l) |-> [s \in 1..c.ns |-> (2 * s + k) % l[k].shape[1]]]
        out == SampledKR(ts, idxs, c.skip, c.ns)
        rows == SampledRows(ts, idxs, c.skip, c.ns)
        kr == KhatriRao(ts, Ones(<<c.R>>), Ones(SkipAt(c.rows, c.skip)), c.skip)
        Is == SkipAt(c.rows, c.skip)
    IN  \* row number = sum_k idx_k * prod_{j > k} I_j  (Lin is the Horner form of the same number)
        /\ \A s \in 1..c.ns : rows[s] = SumSeq([k \in 1..Len(Is) |-> idxs[k][s] * ProdSeq(SubSeq(Is, k + 1, Len(Is)))])
        /\ \A s \in 1..c.ns : rows[s] \in 0..(ProdSeq(Is) - 1)
        \* the sampled rows are those rows of the full product (only formed when it is small)
        /\ (~IsBigKR(c) => \A s \in 1..c.ns : \A r \in 0..(c.R - 1) : At(out, <<s - 1, r>>) = At(kr, <<rows[s], r>>))

CfgOK(c) ==
    /\ ValidCfg(c)
    /\ (~Raises(c) =>
         LET ts == TestTs(c) IN
         CASE c.op = "mode_dot" -> ThmModeDot(c, ts)
           [] c.op = "multi_mode_dot" -> ThmMultiModeDot(c, ts)
           [] c.op = "kronecker" -> ThmKron(c, ts)
           [] c.op = "khatri_rao" -> ThmKhatriRao(c, ts, TestW(c), TestMask(c))
           [] c.op = "inner" -> ThmInner(c, ts)
           [] c.op = "outer" -> ThmOuter(c, ts)
           [] c.op = "batched_outer" -> ThmBatchedOuter(c, ts)
           [] c.op = "tensordot" -> ThmTensordot(c, ts)
           [] c.op = "mttkrp" -> ThmMTTKRP(c, ts, TestW(c))
           [] c.op = "moment" -> ThmMoment(c, ts)
           [] c.op = "sampled_kr" -> ThmSampledKR(c, ts))

\* Design run: one initial state per (family, key), one successor per kept configuration;
\* SpecOK is evaluated in every state, and the state dump hands the configurations to the harness.
VARIABLE cfg
NoCfg == [op |-> "none"]
Init == cfg \in {[op |-> "shape", fam |-> f, key |-> k] : f \in Families, k \in UNION {Keys(g) : g \in Families}}
        /\ cfg.key \in Keys(cfg.fam)
Next == cfg.op = "shape" /\ cfg' \in {WithForms(c) : c \in {b \in Full(cfg.fam, cfg.key) : Keep(b)}}
Spec == Init /\ [][Next]_cfg
SpecOK == cfg.op # "shape" => CfgOK(cfg)
=============================================================================
