SPECIFICATION Spec
CONSTANTS
  Seeds <- MCSeeds
  Gens <- MCGens
  GenSeed <- MCTwins
  Entries <- MCEntries3
  Random <- MCRandom3
  Seedable <- MCSeed3
  Objs <- MCNoObjs
  ObjSeed <- MCObjSeed
  ObjEntries <- MCSeedRand
  MaxOps = 4
  Variant = "spec"
INVARIANT TypeOK
INVARIANT SameSeedSameResult
INVARIANT TwinGeneratorsAgree
INVARIANT DeterministicNoSeed
INVARIANT ReseedReproducible
PROPERTY IntSeedLeavesGlobal
PROPERTY ObjSeedLeavesGlobal
PROPERTY IntSeedLeavesGenerators
PROPERTY GenCallOwnStreamOnly
