----------------------------- MODULE DriverTrace -----------------------------
(* Trace validation for the iterative decompositions (C06, C07, C08, C10, C14).                     *)
(* A trace = one (algorithm, configuration, data): a "Config" event followed by "Prefix" events     *)
(* (the run with n_iter_max = k, k ascending: what was returned, what was reported, definitional     *)
(* measurements of the returned object) and "Callback" events.  Each prefix run is a complete       *)
(* behaviour of Driver with cap = k: TLC computes the Driver's reachable Return states for that cap  *)
(* (all stop points / line-search outcomes, which are not logged) and accepts the event iff the      *)
(* observation is explained by one of them and the measured clauses of the property hold.            *)
EXTENDS Driver, Json, IOUtils

CONSTANT Prop      \* "C06" | "C07" | "C08" | "C10" | "C14"

Events == ndJsonDeserialize(IOEnv.TRACE_FILE)

VARIABLES i, cur, prev
tvars == <<vars, i, cur, prev>>

NoEv == [ev |-> "none"]

\* ---- named tolerances (quantised by 1e8)
ErrTol   == 200        \* 2e-6 absolute on a relative error (the norm shortcut loses half the digits near 0)
ErrTol32 == 200000     \* 2e-3 when the data is held in single precision (eps = 1.2e-7, same shortcut)
AmpMax == 3
ErrTolDirect == 2      \* 2e-8: tensor-ring ALS reports the norm of the residual of its least-squares solve (no shortcut: ~1e-13 on the
                       \* unchanged tree) -- on WELL-POSED problems (data that is a ring of the requested ranks); with over-parameterised
                       \* ranks the cores grow to 1e10 and cancel, and round-off alone reaches 1e-5 (seed 1, tr_als-022)
ErrTolOf(cc) == IF cc.single THEN ErrTol32 ELSE IF cc.alg = "tr_als" /\ cc.data = "tr_exact" THEN ErrTolDirect ELSE ErrTol
MonoTol  == 50         \* 5e-7: an exact block update may not increase the relative error by more than this
CondMax  == 6          \* monotonicity is asserted only when cond(Hadamard of Grams) <= 1e6 at both iterates
OrthTol  == 100        \* 1e-6 on max|F^T F - I|
NormTol  == 100        \* 1e-6 on | ||column|| - 1 |
ProjTol  == 1000       \* 1e-5 relative: core vs projection of the data on the factors
WarmTol  == 100        \* 1e-6 relative: dense(result) vs dense(initialisation)
WarmFine == 1000       \* 1e-11 (units of 1e-14): with a ZERO budget the start is returned, not recomputed: equal up to the rounding of one fold
TwinFine == 1000000    \* 1e-8  (units of 1e-14): the weighted and the weight-absorbed form of one start give the same iterates

IsInt(x) == -2000000000 <= x /\ x <= 2000000000   \* finite: the harness logs nan/inf/out-of-range as integer sentinels above this
Abs(x) == IF x < 0 THEN -x ELSE x
SeqToSet(q) == {q[j] : j \in 1..Len(q)}

\* configuration of the model for the run with cap k
MC(cc, k) ==
    [alg |-> cc.alg, order |-> cc.order, tol_on |-> (cc.tol # "zero"), ret |-> TRUE, normalize |-> cc.normalize,
     linesearch |-> cc.linesearch, callback |-> cc.callback, fixed |-> SeqToSet(cc.fixed) \cap (0..(cc.order - 1)), init |-> cc.init,
     cap |-> k, stagn |-> cc.stagn, algorithm |-> cc.algorithm, sparsity |-> cc.sparsity, mask |-> cc.mask,
     sampled |-> cc.sampled, penalised |-> cc.penalised, reorth |-> cc.reorth]

WellFormed(e) ==
    /\ e.alg \in Algs
    /\ e.cfg.order \in 2..4 /\ Len(e.cfg.shape) = e.cfg.order
    /\ e.cfg.tol \in {"zero", "tiny", "loose"}
    /\ e.cfg.init \in {"svd", "random", "user"}
    \* the requested list may hold negative numbers: the routines compare mode NUMBERS, so a negative entry names no mode
    \* (MC keeps the entries that do) and neither the sweep nor the error bookkeeping may depend on it
    /\ SeqToSet(e.cfg.fixed) \subseteq (-(e.cfg.order))..(e.cfg.order - 1)

IsPrefixWithin(p, s, tol) ==
    /\ Len(p) <= Len(s)
    /\ \A j \in 1..Len(p) : IsInt(p[j]) /\ IsInt(s[j]) /\ Abs(p[j] - s[j]) <= tol

----------------------------------------------------------------------------
\* C06 -- reported errors are finite and equal the true error of the iterate they belong to
\* the documentation of cmtf writes its objective with a factor 1/2, the code without: accept both readings
LastOK(c, last, true) ==
    \/ Abs(last - true) <= ErrTolOf(cur.cfg)
    \/ (c.alg = "cmtf" /\ Abs(2 * last - true) <= ErrTolOf(cur.cfg))

V06(e) ==
    LET c == MC(cur.cfg, e.k) IN
    IF e.n_errs >= 0 /\ \E j \in 1..Len(e.errs) : ~IsInt(e.errs[j]) THEN "ReportedErrorNotFinite"
    ELSE IF ~IsInt(e.true) THEN "ReturnedDecompositionNotFinite"
    ELSE IF e.n_errs < 0 THEN "ok"                     \* this call exposes no list
    ELSE IF ~(Len(e.errs) \in LenSet(c)) THEN "ErrsLen"      \* LenSet = lengths of the model's Return states (Driver.tla)
    ELSE IF Len(e.errs) > 0 /\ ~LastOK(c, e.errs[Len(e.errs)], e.true) THEN "LastErrorIsNotErrorOfReturned"
    ELSE IF PrefixStable(c) /\ prev.ev = "Prefix" /\ prev.n_errs >= 0 /\ ~IsPrefixWithin(prev.errs, e.errs, IF cur.cfg.single THEN 100 ELSE 1)
         THEN "NotPrefixOfLongerRun"
    ELSE "ok"

V06cb(e) ==
    IF ~e.has_err THEN (IF cur.alg = "rand_parafac" /\ e.j = 0 THEN "ok" ELSE "CallbackWithoutError")
    ELSE IF ~IsInt(e.err) THEN "CallbackErrorNotFinite"
    ELSE IF ~IsInt(e.true) THEN "CallbackIterateNotFinite"
    \* (iterates whose entries exceed 1e3 -- tensor rings with over-parameterised ranks -- cancel catastrophically: neither the
    \*  routine's nor the harness's evaluation of the error is accurate beyond eps * amp^2, so equality is not asserted there)
    ELSE IF "amp" \in DOMAIN e /\ e.amp > AmpMax THEN "ok"
    ELSE IF Abs(e.err - e.true) > ErrTolOf(cur.cfg) THEN "CallbackErrorIsNotErrorOfIterate"
    ELSE "ok"

----------------------------------------------------------------------------
\* C07 -- exact block-coordinate algorithms never increase their objective
NonIncreasing(q, tol) == \A j \in 1..(Len(q) - 1) : IsInt(q[j]) /\ IsInt(q[j + 1]) /\ q[j + 1] <= q[j] + tol

V07(e) ==
    LET c == MC(cur.cfg, e.k) IN
    IF ~ExactBCD(c) THEN "ok"
    ELSE IF ~IsInt(e.true) THEN "ReturnedDecompositionNotFinite"
    ELSE IF e.cond > CondMax THEN "ok"                     \* ill-conditioned blocks: no obligation
    \* (from an arbitrary, non-orthonormal user start the FIRST sweep is not an exact block update -- the modes not yet
    \*  visited are not orthonormal -- so the comparison starts after it)
    ELSE IF /\ PrefixStable(c) /\ prev.ev = "Prefix" /\ prev.k = e.k - 1 /\ IsInt(prev.true) /\ prev.cond <= CondMax
            /\ (cur.cfg.raw_init => prev.k >= 1)
            \* PARAFAC2 with non-negative modes starts from an UNPROJECTED svd/random start (known finding F-10a): the first sweep
            \* moves an infeasible point onto the constraint set and may raise the error; the comparison starts after it
            /\ ((cur.cfg.alg = "parafac2" /\ cur.cfg.nn_kind # "none") => prev.k >= 1)
            /\ e.true > prev.true + MonoTol
         THEN "ObjectiveIncreasedBySweep"
    \* a REPORTED value represents the true error only up to ErrTol (the norm shortcut; C06 accepts that much), so the
    \* reported sequence can be asserted non-increasing only up to the same accuracy; the recomputed errors above keep MonoTol
    ELSE IF e.n_errs >= 0 /\ ~NonIncreasing(e.errs, ErrTolOf(cur.cfg)) THEN "ReportedErrorsIncrease"
    ELSE "ok"

----------------------------------------------------------------------------
\* C08 -- outputs honour the requested structure and canonical form, on both exit paths
RankOf(cc, m) == IF cc.rank_kind = "int" THEN cc.rank_list[1] ELSE cc.rank_list[m]

CPShapesOK(cc, ms) ==
    /\ Len(ms.shapes) = cc.order
    /\ \A m \in 1..cc.order : ms.shapes[m] = <<cc.shape[m], cc.rank_list[1]>>
    /\ ms.wshape = <<cc.rank_list[1]>>

V08(e) ==
    LET cc == cur.cfg
        c  == MC(cc, e.k)
        ms == e.st
        builtinInit == cc.init \in {"svd", "random"}
        swept == e.k > 0 IN
    IF ms.kind \in {"cp", "cp_sparse"} /\ ~CPShapesOK(cc, ms) THEN "FactorShapes"
    ELSE IF ms.kind = "tucker" /\
            ~(/\ Len(ms.shapes) = cc.order
              /\ \A m \in 1..cc.order : ms.shapes[m] = <<cc.shape[m], RankOf(cc, m)>>
              /\ ms.core_shape = [m \in 1..cc.order |-> RankOf(cc, m)]) THEN "FactorShapes"
    ELSE IF ms.kind = "parafac2" /\
            ~(/\ ms.shapes = << <<cc.shape[1], cc.rank_list[1]>>, <<cc.rank_list[1], cc.rank_list[1]>>, <<cc.shape[3], cc.rank_list[1]>> >>
              /\ ms.wshape = <<cc.rank_list[1]>>
              /\ Len(ms.proj_shapes) = Len(cc.rows)                       \* one projection per slice
              /\ \A s \in 1..Len(cc.rows) : ms.proj_shapes[s] = <<cc.rows[s], cc.rank_list[1]>>) THEN "FactorShapes"
    ELSE IF ms.kind = "tr" /\
            ~(/\ Len(ms.shapes) = cc.order
              /\ \A m \in 1..cc.order : ms.shapes[m] = <<cc.rank_list[m], cc.shape[m], cc.rank_list[m + 1]>>
              /\ ms.shapes[1][1] = ms.shapes[cc.order][3]) THEN "RingStructure"
    ELSE IF cc.alg = "tucker" /\ (swept \/ cc.init = "svd") /\ ~(IsInt(ms.orth_dev) /\ ms.orth_dev <= OrthTol)
         THEN "TuckerFactorsNotOrthonormal"
    ELSE IF cc.alg = "tucker" /\ (swept \/ cc.init = "svd") /\ ~(IsInt(ms.core_proj_dev) /\ ms.core_proj_dev <= ProjTol)
         THEN "CoreIsNotProjection"
    ELSE IF ms.kind = "parafac2" /\ ~(IsInt(ms.orth_dev) /\ ms.orth_dev <= OrthTol) THEN "ProjectionsNotOrthonormal"
    ELSE IF ms.kind = "parafac2" /\ ~(IsInt(ms.crossprod_dev) /\ ms.crossprod_dev <= 10 * OrthTol) THEN "CrossProductNotShared"
    ELSE IF /\ cc.normalize /\ NormOpt(c) /\ (swept \/ (builtinInit /\ cc.alg \in {"parafac", "nn_parafac", "nn_parafac_hals"}))
            /\ ~(IsInt(ms.colnorm_dev) /\ ms.colnorm_dev <= NormTol)
         THEN "ColumnsNotUnitNorm"
    ELSE IF ms.kind = "cmtf" /\ cc.normalize /\ "scale_dev" \in DOMAIN e /\ ~(IsInt(e.scale_dev) /\ e.scale_dev <= WarmTol)
         THEN "ScaleNotCarriedByWeights"
    ELSE IF /\ ~cc.normalize /\ ms.kind \in {"cp", "cp_sparse", "parafac2", "cmtf"} /\ (swept \/ builtinInit)
            /\ ~(IsInt(ms.weights_one_dev) /\ ms.weights_one_dev = 0)
         THEN "WeightsNotAllOnes"
    ELSE "ok"

----------------------------------------------------------------------------
\* C10 -- non-negative decompositions return entrywise non-negative arrays on the declared modes
\* ms.mins = <<min(weights or core), min(factor 0), min(factor 1), ...>>
Obliged(cc) ==       \* positions in ms.mins that must be >= 0
    CASE cc.alg \in {"nn_parafac", "nn_tucker", "nn_tucker_hals"} -> 1..(cc.order + 1)
      [] cc.alg = "nn_parafac_hals" ->
            {1} \cup (IF cc.nn_kind = "all" THEN 2..(cc.order + 1)
                      ELSE IF cc.nn_kind = "none" THEN {} ELSE {m + 2 : m \in SeqToSet(cc.nn_list)})
      [] cc.alg = "constrained_parafac" ->
            (IF cc.nn_kind = "all" THEN 2..(cc.order + 1)
             ELSE IF cc.nn_kind = "none" THEN {} ELSE {m + 2 : m \in SeqToSet(cc.nn_list)})
      [] cc.alg = "parafac2" ->       \* mode 1 is documented as not truly non-negative: exempt
            (IF cc.nn_kind = "none" THEN {}
             ELSE IF cc.nn_kind = "all" THEN {2, 4}
             ELSE {m + 2 : m \in SeqToSet(cc.nn_list) \cap {0, 2}})
      [] OTHER -> {}

V10(e) ==
    LET cc == cur.cfg
        have == {p \in Obliged(cc) : p <= Len(e.st.mins)} IN
    IF \E p \in Obliged(cc) : p > Len(e.st.mins) THEN "MissingArray"
    ELSE IF \E p \in have : ~IsInt(e.st.mins[p]) THEN "NonFiniteEntry"
    ELSE IF \E p \in have : e.st.mins[p] < 0 THEN "NegativeEntry"
    ELSE "ok"

----------------------------------------------------------------------------
\* C14 -- warm starts begin at the supplied decomposition; fixed modes stay fixed
V14(e) ==
    LET cc == cur.cfg
        c  == MC(cc, e.k) IN
    IF ~("warm" \in DOMAIN e) THEN "ok"
    ELSE LET w == e.warm IN
        IF e.k = 0 /\ ~(IsInt(w.init_dev) /\ w.init_dev <= WarmTol) THEN "ZeroBudgetDoesNotReturnInit"
        ELSE IF e.k = 0 /\ "init_fine" \in DOMAIN w /\ ~(IsInt(w.init_fine) /\ w.init_fine <= WarmFine) THEN "ZeroBudgetResultIsNotExactlyTheStart"
        ELSE IF \E m \in FixedEff(c) : ~w.bit_identical[m + 1] THEN "FixedModeChanged"
        ELSE IF AllFixedShortCircuit(c) /\ ~(\A m \in 1..cc.order : w.bit_identical[m]) THEN "AllFixedChanged"
        ELSE IF "twin_dev" \in DOMAIN w /\ ~(IsInt(w.twin_dev) /\ w.twin_dev <= WarmTol) THEN "AbsorbedWeightsDiverge"
        ELSE IF "twin_fine" \in DOMAIN w /\ e.cond <= 3 /\ ~(IsInt(w.twin_fine) /\ w.twin_fine <= TwinFine) THEN "AbsorbedWeightsDivergeSlightly"
        ELSE "ok"

----------------------------------------------------------------------------
\* C07, solvers without a decomposition skeleton: the HALS NNLS inner solver (objective recomputed from its
\* callback iterates) and the ridge ALS of the CP / Tucker regressors (ridge objective of the prefix fits).
\* objs are quantised relative to max(1, |first objective|); ObjTol = 1e-7 of that scale.
ObjTol == 10
V07seq(e) ==
    IF ~(e.kind \in {"hals_nnls", "cp_regressor", "tucker_regressor"}) THEN "MalformedEvent"
    ELSE IF \E j \in 1..Len(e.objs) : ~IsInt(e.objs[j]) THEN "ObjectiveNotFinite"
    ELSE IF e.cond > CondMax THEN "ok"
    ELSE IF ~NonIncreasing(e.objs, ObjTol) THEN "ObjectiveIncreasedBySweep"
    ELSE "ok"

Verdict(e) ==
    IF e.ev = "ObjSeq" THEN (IF Prop = "C07" THEN V07seq(e) ELSE "ok")
    ELSE IF e.ev = "Config" THEN (IF WellFormed(e) THEN "ok" ELSE "MalformedConfig")
    ELSE IF cur.ev # "Config" THEN "NoConfig"
    ELSE IF e.ev = "Prefix" THEN
        \* every configuration of the domain is a legal request: only a numerical break-down (LinAlgError: a singular block
        \* system) is excused; anything else that raises means the guarantee was not delivered
        IF e.out # "ok" THEN (IF e.exc = "LinAlgError" THEN "ok"
                              ELSE IF Prop = "C14" THEN "WarmStartRequestRaised" ELSE "RequestRaised")
        ELSE IF e.malformed THEN "ReturnedObjectIsNotADecomposition"   \* pieces that do not even fit together
        ELSE CASE Prop = "C06" -> V06(e)
               [] Prop = "C07" -> V07(e)
               [] Prop = "C08" -> V08(e)
               [] Prop = "C10" -> V10(e)
               [] Prop = "C14" -> V14(e)
    ELSE IF e.ev = "Callback" THEN (IF Prop = "C06" THEN V06cb(e) ELSE "ok")
    ELSE "MalformedEvent"

TraceInit == i = 1 /\ cur = NoEv /\ prev = NoEv /\ cfg = NoEv /\ st = NoEv

TraceNext ==
    /\ i <= Len(Events)
    /\ i' = i + 1
    /\ UNCHANGED vars
    /\ LET e == Events[i]
           v == Verdict(e) IN
         /\ IF v = "ok" THEN TRUE ELSE PrintT(<<"REJECT", e.id, v>>)
         /\ cur' = IF e.ev = "Config" THEN (IF v = "ok" THEN e ELSE NoEv) ELSE cur
         /\ prev' = IF e.ev = "Config" THEN NoEv
                    ELSE IF e.ev = "Prefix" /\ e.out = "ok" THEN e ELSE prev

TraceSpec == TraceInit /\ [][TraceNext]_tvars
TraceAccepted == TLCGet("stats").diameter - 1 = Len(Events)
=============================================================================
