SPECIFICATION TraceSpec
CONSTANTS
  MaxLevel = 0
  LConfigs <- NoLConfigs
INVARIANT TraceLenLaw
INVARIANT TraceBudget
INVARIANT TraceMinSweeps
INVARIANT TraceZeroBudget
INVARIANT TraceCbCalls
POSTCONDITION TraceAccepted
CHECK_DEADLOCK FALSE
