---------------------------- MODULE MatchingTrace ----------------------------
(* C20 trace validation.  One event = one configuration of Matching's domain driven through the   *)
(* real tensorly.metrics functions / cp_permute_factors; TLC recomputes the documented semantics  *)
(* (brute-force optimal matching, exact cosines, rational error metrics) and accepts or rejects.  *)
EXTENDS Matching, Json, IOUtils

Events == ndJsonDeserialize(IOEnv.TRACE_FILE)
VARIABLE i

\* ---- named tolerances (units of the quantisation scale of the field they apply to)
ExactTol  == 2     \* 1e-6 units: truncating long division vs round-to-nearest of the logged float, + float64 noise
ZeroTol   == 1     \* 1e-6 units: "correlation index is 0" (the code thresholds at 5e-16; non-zero values here are > 3e-3)
GenTol    == 10    \* 1e-6 units per matrix entry: products of <= 3 logged cosines, each rounded to 1e-6
CorrTol   == 2     \* 1e-6 units per row/column maximum of a logged cosine matrix
MetricTol == 2     \* 1e-6 units on a rational error metric
MetricTolF32 == 100  \* float32 data (offset 2^10, spread <= 3): mean rounded to 2^-14, ~1e-6 relative per operation
LevSumTol == 10    \* 1e-12 units on (float64 sum of the returned vector) - 1
LevTol    == 2     \* 1e-8 units per leverage score (sum: rows + LevTol)
SqTol(v)  == 2 * (AbsI(v) \div 1000000) + 4     \* on v^2 when v carries half a unit of rounding error

One == 1000000
\* the harness logs every number as an integer; NaN / inf / out-of-range are sentinels beyond 2*10^9
IsFin(v) == AbsI(v) <= 2000000000
Plus1(s) == [k \in 1..Len(s) |-> s[k] + 1]
PermOK(perm, R) == IsIntSeq(perm, R) /\ {perm[k] : k \in 1..R} = 0..(R - 1)
IsIntMat(Mx, r, c) == DOMAIN Mx = 1..r /\ \A a \in 1..r : IsIntSeq(Mx[a], c)
\* first non-"ok" verdict of a sequence of verdicts
FirstBad(vs) == IF \A k \in DOMAIN vs : vs[k] = "ok" THEN "ok"
                ELSE vs[CHOOSE k \in DOMAIN vs : vs[k] # "ok" /\ \A m \in 1..(k - 1) : vs[m] = "ok"]
\* evaluate F on the *value* of x (a LET would be re-evaluated by TLC at every use)
With(x, F(_)) == CHOOSE r \in {F(v) : v \in {x}} : TRUE
PermuteCols(Mx, p) == [a \in 1..Len(Mx) |-> [j \in 1..Len(p) |-> Mx[a][p[j]]]]

-----------------------------------------------------------------------------
(* exact family *)
CongForms(c) == {<<ab, fm, sw>> : ab \in BOOLEAN, fm \in (IF c.M = 1 THEN {"bare", "list"} ELSE {"list"}), sw \in BOOLEAN}
\* r.swap: the rescaled set is passed as the first argument (the matching is then the inverse one)
ExactCongV(c, r) ==
    IF r.raised THEN "CongRaised"
    ELSE IF ~PermOK(r.perm, c.R) THEN "CongPerm"
    ELSE IF ~IsFin(r.val) THEN "CongFinite"
    ELSE With(IF r.swap THEN CongL(c.B, c.A, r.abs) ELSE CongL(c.A, c.B, r.abs), LAMBDA W :
         With(BestSum(W), LAMBDA best :
           IF AssignSum(W, Plus1(r.perm)) # best THEN "CongOptimal"
           ELSE IF AbsI(r.val - RatQ(best, ExTop(c), 6)) > ExactTol THEN "CongValue"
           ELSE IF r.abs /\ (r.val < 0 \/ r.val > One + ExactTol) THEN "CongRange"
           ELSE IF r.abs /\ c.a = c.b /\ (Plus1(r.perm) # (IF r.swap THEN c.p ELSE InvPerm(c.p)) \/ AbsI(r.val - One) > ExactTol) THEN "CongRecover"
           ELSE "ok"))

Methods == {"stacked", "max_score", "min_score", "avg_score"}
ExactCorrV(c, corr) ==
    IF DOMAIN corr # Methods THEN "CorrMethods"
    ELSE IF \E m \in Methods : ~IsFin(corr[m]) THEN "CorrFinite"
    ELSE IF \E m \in Methods : corr[m] < 0 \/ corr[m] > One + ExactTol THEN "CorrRange"
    \* (with magnitudes that differ between the modes the stacked columns are no longer integer multiples: range only)
    ELSE IF MagModeIndependent(c.s) /\ (corr["stacked"] <= ZeroTol) # CoverBoth(StackRows(c.A, c.M), StackRows(c.B, c.M)) THEN "CorrZeroIffStacked"
    ELSE With([m \in 1..c.M |-> CorrNum(CosMat(c.A[m], c.B[m], TRUE), L)], LAMBDA nums :
           LET den == 2 * c.R * L IN
           IF AbsI(corr["max_score"] - RatQ(MaxOfSet(SeqRange(nums)), den, 6)) > ExactTol THEN "CorrMax"
           ELSE IF AbsI(corr["min_score"] - RatQ(MinOfSet(SeqRange(nums)), den, 6)) > ExactTol THEN "CorrMin"
           ELSE IF AbsI(corr["avg_score"] - RatQ(SumSeq(nums), den * c.M, 6)) > ExactTol THEN "CorrAvg"
           \* zero exactly when the column sets of the modes that the method looks at coincide up to permutation / scaling
           ELSE IF (corr["max_score"] <= ZeroTol) # (\A m \in 1..c.M : CoverBoth(c.A[m], c.B[m])) THEN "CorrZeroIff"
           ELSE IF (corr["avg_score"] <= ZeroTol) # (\A m \in 1..c.M : CoverBoth(c.A[m], c.B[m])) THEN "CorrZeroIff"
           ELSE IF (corr["min_score"] <= ZeroTol) # (\E m \in 1..c.M : CoverBoth(c.A[m], c.B[m])) THEN "CorrZeroIff"
           ELSE "ok")

\* cp_permute_factors(ref, t): ref / t are (1, A) ["A"] or (w', B') ["B"], B' = B with the magnitudes of pattern c.s in
\* floating point and w' = w with the inverse magnitudes (the tensor keeps its size in the weights).
\* Integer tensors come back as integers (compared here); for a magnified B' the harness logs whether the returned
\* factors / weights are bit-identical to B'[:, perm] / w'[perm].
ExactPermuteV2(c, r, meas) ==
    IF r.raised THEN "PermuteRaised"
    ELSE IF r.target \notin {"A", "B"} \/ r.ref \notin {"A", "B"} THEN "PermuteTarget"
    ELSE IF ~PermOK(r.perm, c.R) THEN "PermutePerm"
    ELSE IF r.alias THEN "PermuteAliasesInput"     \* "permuted cp tensor": a new tensor, not a view of the caller's arrays
    ELSE LET X  == IF r.target = "B" THEN c.B ELSE c.A
             Rf == IF r.ref = "B" THEN c.B ELSE c.A
             wX == IF r.target = "B" THEN c.w ELSE [j \in 1..c.R |-> 1]
             measured == meas /\ r.target = "B"
             p1 == Plus1(r.perm) IN
         IF ~measured /\ ~r.exact THEN "PermuteExact"
         ELSE With(CongL(Rf, X, TRUE), LAMBDA W :
           IF AssignSum(W, p1) # BestSum(W) THEN "PermuteOptimal"
           ELSE IF measured /\ ~r.eqf THEN "PermuteFactors"
           ELSE IF measured /\ ~r.eqw THEN "PermuteWeights"
           ELSE IF ~measured /\ r.factors # [m \in 1..c.M |-> PermuteCols(X[m], p1)] THEN "PermuteFactors"
           ELSE IF ~measured /\ r.weights # [j \in 1..c.R |-> wX[p1[j]]] THEN "PermuteWeights"
           ELSE IF r.ref = "A" /\ r.target = "B" /\ c.a = c.b /\ p1 # InvPerm(c.p) THEN "PermuteAligned"
           ELSE IF r.ref = "B" /\ r.target = "A" /\ c.a = c.b /\ p1 # c.p THEN "PermuteAligned"
           ELSE IF r.ref = r.target /\ p1 # IdPerm(c.R) THEN "PermuteAligned"
           ELSE "ok")

ExactPermuteV(c, r) == ExactPermuteV2(c, r, Magnified(c.s))

\* ---- options and argument forms (integer patterns 0..3 only)
\* correlation_index(tol=...): "Precision threshold below which to call the CorrIndex score 0" -- applied to every
\* per-matrix score: with a tol the score of equivalent sets is EXACTLY 0 (also for float32 factors, whose raw score
\* is ~1e-8), scores above tol are unchanged.  r.tol: 0 default (5e-16), 1 = 1e-5, 2 = 1e-3;  r.dt: dtype of the
\* factor sets, "i64/f64h" = integer first set, second set halved (half-integer floats): same cosines.
TolQ(t) == CASE t = 1 -> 10 [] t = 2 -> 1000 [] OTHER -> 0                 \* units of 1e-6
\* "F/str": first set Fortran-ordered, second a non-contiguous view; "ro/ro": read-only arrays -- layout is not a value
\* "pos" / "kw": every argument positional / by its published name; "negzero" / "subnormal": zeros spelled -0.0 / 5e-324;
\* "afterfail": the same objects, right after a call on them that raised (invalid method / mismatched lists)
ExtraForms == {"pos", "kw", "negzero", "subnormal", "afterfail"}
ExtraOn(c) == (c.R + c.M + c.s) % 2 = 0            \* the extra forms and the aliasing calls are rotated over the configurations
CorrOptCombos == ({1, 2} \X {"f32", "f64"} \X {FALSE}) \cup ({1} \X {"pos", "kw"} \X {FALSE}) \cup ({0} \X ({"f32", "F/str", "ro/ro"} \cup ExtraForms) \X {FALSE}) \cup ({0} \X {"i64/f64h"} \X BOOLEAN)
ValTol(dt) == IF dt = "f32" THEN 5 ELSE ExactTol
CorrOptV(c, r, nums, stackedCover, bs) ==      \* bs: the float64 / default-tol stacked score of the same sets
    LET den == 2 * c.R * L
        tq  == TolQ(r.tol)
        kept == [m \in 1..c.M |-> IF nums[m] * One < tq * den THEN 0 ELSE nums[m]]      \* per-matrix threshold
        want == CASE r.method = "max_score" -> RatQ(MaxOfSet(SeqRange(kept)), den, 6)
                  [] r.method = "min_score" -> RatQ(MinOfSet(SeqRange(kept)), den, 6)
                  [] r.method = "avg_score" -> RatQ(SumSeq(kept), den * c.M, 6)
                  [] OTHER -> 0
        wantZero == CASE r.method = "max_score" -> \A m \in 1..c.M : kept[m] = 0
                      [] r.method = "min_score" -> \E m \in 1..c.M : kept[m] = 0
                      [] r.method = "avg_score" -> \A m \in 1..c.M : kept[m] = 0
                      [] OTHER -> stackedCover IN
    IF r.raised THEN "CorrOptRaised"
    ELSE IF ~IsFin(r.val) THEN "CorrFinite"
    ELSE IF r.val < 0 \/ r.val > One + ExactTol THEN "CorrRange"
    ELSE IF r.tol # 0 /\ wantZero /\ ~r.zero THEN "CorrTolNotExactlyZero"
    ELSE IF r.method = "stacked" THEN
           (IF stackedCover THEN (IF r.val <= ZeroTol THEN "ok" ELSE "CorrZeroIffStacked")
            ELSE IF bs <= tq + 1 THEN "ok"                       \* at the threshold: either outcome
            ELSE IF r.zero THEN "CorrTolZeroedTooMuch"
            ELSE IF AbsI(r.val - bs) > ValTol(r.dt) THEN "CorrOptValue" ELSE "ok")
    ELSE IF ~wantZero /\ r.zero THEN "CorrTolZeroedTooMuch"
    ELSE IF AbsI(r.val - want) > ValTol(r.dt) THEN "CorrOptValue"
    ELSE "ok"
\* mixed dtypes between the two arguments: the metric is a function of the VALUES
\* <<form, swap, absolute_value>>: the call forms pass EVERY published parameter explicitly, each flag in both values
CongMixes == ({"i64/f64h", "f32/f64", "F/str", "ro/ro"} \X BOOLEAN \X {TRUE}) \cup (ExtraForms \X {FALSE} \X {TRUE})
             \cup ({"pos", "kw"} \X {FALSE} \X {FALSE})
PermuteMixes == {<<"A", "B", "i64/f64h">>, <<"B", "A", "i64/f64h">>, <<"A", "B", "F/str">>, <<"A", "B", "ro/ro">>}
                \cup {<<"A", "B", f>> : f \in {"pos", "kw", "afterfail"}}
\* ALIASING: the first set passed as BOTH arguments (one list object / one CP tensor): congruence 1 with the identity,
\* correlation index 0, cp_permute_factors returns an unpermuted tensor that is not a view of its argument
SelfV(c, sf) ==
    LET c2 == [c EXCEPT !.B = c.A, !.b = c.a, !.p = IdPerm(c.R), !.s = 0] IN
    With(ExactCongV(c2, sf.cong), LAMBDA v1 :
      IF v1 # "ok" THEN "Self" \o v1
      ELSE IF DOMAIN sf.corr # Methods THEN "SelfCorrMethods"
      ELSE IF \E m \in Methods : ~IsFin(sf.corr[m]) \/ sf.corr[m] < 0 \/ sf.corr[m] > ZeroTol THEN "SelfCorrNotZero"
      ELSE With(ExactPermuteV2(c2, sf.permute, FALSE), LAMBDA v2 : IF v2 # "ok" THEN "Self" \o v2 ELSE "ok"))
OptsV(c, o, bs) ==
    IF c.s > 3 THEN (IF o.cong = <<>> /\ o.corr = <<>> /\ o.permute = <<>> THEN "ok" ELSE "OptForms")
    ELSE IF {<<o.corr[k].tol, o.corr[k].dt, o.corr[k].swap, o.corr[k].method>> : k \in DOMAIN o.corr}
              # {<<t[1], t[2], t[3], m>> : t \in {u \in CorrOptCombos : u[2] \in ExtraForms => ExtraOn(c)}, m \in Methods} THEN "OptForms"
    ELSE IF {<<o.cong[k].mix, o.cong[k].swap, o.cong[k].abs>> : k \in DOMAIN o.cong} # {u \in CongMixes : u[1] \in ExtraForms => ExtraOn(c)} THEN "OptForms"
    ELSE IF {<<o.permute[k].ref, o.permute[k].target, o.permute[k].mix>> : k \in DOMAIN o.permute} # {u \in PermuteMixes : u[3] \in ExtraForms => ExtraOn(c)} THEN "OptForms"
    ELSE With([m \in 1..c.M |-> CorrNum(CosMat(c.A[m], c.B[m], TRUE), L)], LAMBDA nums :
         With(CoverBoth(StackRows(c.A, c.M), StackRows(c.B, c.M)), LAMBDA sc :
         With(FirstBad([k \in DOMAIN o.corr |-> CorrOptV(c, o.corr[k], nums, sc, bs)]), LAMBDA v1 :
           IF v1 # "ok" THEN v1
           ELSE With(FirstBad([k \in DOMAIN o.cong |-> ExactCongV(c, o.cong[k])]), LAMBDA v2 :
                IF v2 # "ok" THEN v2
                ELSE With(FirstBad([k \in DOMAIN o.permute |-> ExactPermuteV2(c, o.permute[k], o.permute[k].mix = "i64/f64h")]), LAMBDA v3 :
                     IF v3 # "ok" \/ ~ExtraOn(c) THEN v3 ELSE SelfV(c, o.self))))))

ExactV(e) ==
    LET c == e.cfg IN
    IF ~ValidExact(c) THEN "InDomain"
    \* complex sets (patterns 8, 9): only correlation_index is obliged (and driven)
    ELSE IF {<<e.cong[k].abs, e.cong[k].form, e.cong[k].swap>> : k \in DOMAIN e.cong}
              # (IF Complex(c.s) THEN {} ELSE CongForms(c)) THEN "CongForms"
    ELSE IF {<<e.permute[k].form, e.permute[k].ref, e.permute[k].target>> : k \in DOMAIN e.permute}
              # (IF Complex(c.s) THEN {} ELSE {<<"single", "A", "B">>, <<"list", "A", "B">>, <<"list", "A", "A">>, <<"single", "B", "A">>}) THEN "PermuteForms"
    ELSE With(FirstBad([k \in DOMAIN e.cong |-> ExactCongV(c, e.cong[k])]), LAMBDA v1 :
         IF v1 # "ok" THEN v1
         ELSE With(ExactCorrV(c, e.corr), LAMBDA v2 :
              IF v2 # "ok" THEN v2
              ELSE With(ExactCorrV(c, e.corr_swap), LAMBDA v3 :      \* the index is symmetric in its arguments
                   IF v3 # "ok" THEN v3
                   ELSE With(FirstBad([k \in DOMAIN e.permute |-> ExactPermuteV(c, e.permute[k])]), LAMBDA v4 :
                        IF v4 # "ok" THEN v4 ELSE OptsV(c, e.opts, e.corr["stacked"])))))

-----------------------------------------------------------------------------
(* exact zeros: every call either raises the documented ValueError (where the spec says the cosine is undefined)   *)
(* or returns the value of the definition -- never NaN, never a silent number for an undefined cosine.             *)
RejectV(r, must, name) ==       \* "ok", or the clause that fails; name prefixes the clause
    IF must THEN (IF r.raised /\ r.exc = "ValueError" THEN "ok"
                  ELSE IF r.raised THEN name \o "WrongException"
                  ELSE IF ~IsFin(r.val) THEN name \o "ZeroColumnNaN"
                  ELSE name \o "ZeroColumnNotRejected")
    ELSE IF r.raised THEN name \o "Raised" ELSE "ok"
ZeroCorrV(c, r) ==
    With(RejectV(r, IF r.method = "stacked" THEN MustRejectStacked(c) ELSE MustRejectPerMode(c), "Corr"), LAMBDA v :
      IF v # "ok" \/ r.raised THEN v
      ELSE IF ~IsFin(r.val) THEN "CorrFinite"
      ELSE IF r.val < 0 \/ r.val > One + ExactTol THEN "CorrRange"
      ELSE "ok")
CorrRecord(e, sw) == [m \in Methods |-> e.corr[CHOOSE k \in DOMAIN e.corr : e.corr[k].method = m /\ e.corr[k].swap = sw].val]
ZerosV(e) ==
    LET c == e.cfg IN
    IF ~ValidZeros(c) THEN "InDomain"
    ELSE IF {<<e.corr[k].method, e.corr[k].swap>> : k \in DOMAIN e.corr} # Methods \X BOOLEAN THEN "CorrMethods"
    ELSE IF {<<e.cong[k].abs, e.cong[k].form, e.cong[k].swap>> : k \in DOMAIN e.cong} # CongForms(c) THEN "CongForms"
    ELSE IF {<<e.permute[k].ref, e.permute[k].target>> : k \in DOMAIN e.permute} # {<<"A", "B">>, <<"B", "A">>} THEN "PermuteForms"
    ELSE With(FirstBad([k \in DOMAIN e.corr |-> ZeroCorrV(c, e.corr[k])]), LAMBDA v1 :
         IF v1 # "ok" THEN v1
         ELSE With(FirstBad([k \in DOMAIN e.cong |->
                       With(RejectV(e.cong[k], MustRejectPerMode(c), "Cong"), LAMBDA v :
                            IF v # "ok" \/ e.cong[k].raised THEN v ELSE ExactCongV(c, e.cong[k]))]), LAMBDA v2 :
              IF v2 # "ok" THEN v2
              ELSE With(FirstBad([k \in DOMAIN e.permute |->
                            With(RejectV([raised |-> e.permute[k].raised, exc |-> e.permute[k].exc, val |-> 0], MustRejectPerMode(c), "Permute"), LAMBDA v :
                                 IF v # "ok" \/ e.permute[k].raised THEN v ELSE ExactPermuteV(c, e.permute[k]))]), LAMBDA v3 :
                   IF v3 # "ok" THEN v3
                   \* no zero column anywhere (zero row only): the exact values of the definition
                   ELSE IF MustRejectPerMode(c) THEN "ok"
                   ELSE With(ExactCorrV(c, CorrRecord(e, FALSE)), LAMBDA v4 :
                        IF v4 # "ok" THEN v4 ELSE ExactCorrV(c, CorrRecord(e, TRUE))))))

-----------------------------------------------------------------------------
(* near ties / exact ties: only a matching that pairs collinear columns in every mode is optimal, however close the      *)
(* competitors are (decided exactly, by 2 x 2 minors)                                                                    *)
TieCongV(c, r) ==
    IF r.raised THEN "CongRaised"
    ELSE IF ~PermOK(r.perm, c.R) THEN "CongPerm"
    ELSE IF ~IsFin(r.val) THEN "CongFinite"
    ELSE IF ~TieOptimal(c, IF r.swap THEN InvPerm(Plus1(r.perm)) ELSE Plus1(r.perm)) THEN "CongTieNotOptimal"
    ELSE IF AbsI(r.val - One) > ExactTol THEN "CongValue"
    ELSE "ok"
TiePermuteV(c, r) ==
    IF r.raised THEN "PermuteRaised"
    ELSE IF ~PermOK(r.perm, c.R) THEN "PermutePerm"
    ELSE IF r.alias THEN "PermuteAliasesInput"
    ELSE IF ~TieOptimal(c, IF r.ref = "B" THEN InvPerm(Plus1(r.perm)) ELSE Plus1(r.perm)) THEN "PermuteTieNotOptimal"
    ELSE IF ~r.eqf THEN "PermuteFactors"
    ELSE IF ~r.eqw THEN "PermuteWeights"
    ELSE "ok"
TiesV(e) ==
    LET c == e.cfg IN
    IF ~ValidTies(c) THEN "InDomain"
    ELSE IF {<<e.cong[k].abs, e.cong[k].form, e.cong[k].swap>> : k \in DOMAIN e.cong}
              # {f \in CongForms(c) : f[1] \/ c.sc = 0} THEN "CongForms"          \* signed variant only without sign flips
    ELSE IF {<<e.permute[k].ref, e.permute[k].target>> : k \in DOMAIN e.permute} # {<<"A", "B">>, <<"B", "A">>} THEN "PermuteForms"
    ELSE With(FirstBad([k \in DOMAIN e.cong |-> TieCongV(c, e.cong[k])]), LAMBDA v1 :
         IF v1 # "ok" THEN v1 ELSE FirstBad([k \in DOMAIN e.permute |-> TiePermuteV(c, e.permute[k])]))

-----------------------------------------------------------------------------
(* generic family: logged cosine matrices (scale 1e6), brute-force optimality inside TLC *)
RECURSIVE ProdQ(_, _, _, _, _)
ProdQ(cos, a, b, m, abs) ==
    IF m = 0 THEN One
    ELSE MulQ6(ProdQ(cos, a, b, m - 1, abs), IF abs THEN AbsI(cos[m][a][b]) ELSE cos[m][a][b])
GenW(e, abs) == [a \in 1..e.cfg.R |-> [b \in 1..e.cfg.R |-> ProdQ(e.cos, a, b, e.cfg.M, abs)]]
AbsMat(C) == [a \in DOMAIN C |-> [b \in DOMAIN C[a] |-> AbsI(C[a][b])]]

GenCongV(e, r) ==
    LET R == e.cfg.R IN
    IF r.raised THEN "CongRaised"
    ELSE IF ~PermOK(r.perm, R) THEN "CongPerm"
    ELSE IF ~IsFin(r.val) THEN "CongFinite"
    ELSE With(GenW(e, r.abs), LAMBDA W :
         With(AssignSum(W, Plus1(r.perm)), LAMBDA mine :
           IF AbsI(r.val * R - mine) > GenTol * R THEN "CongValueOfPerm"
           ELSE IF mine < BestSum(W) - GenTol * R THEN "CongOptimal"
           ELSE IF r.abs /\ (r.val < 0 \/ r.val > One + 1) THEN "CongRange"
           ELSE "ok"))

GenCorrV(e) ==
    LET R == e.cfg.R  M == e.cfg.M  corr == e.corr IN
    IF DOMAIN corr # Methods THEN "CorrMethods"
    ELSE IF \E m \in Methods : ~IsFin(corr[m]) THEN "CorrFinite"
    ELSE IF \E m \in Methods : corr[m] < 0 \/ corr[m] > One + 1 THEN "CorrRange"
    ELSE IF AbsI(corr["stacked"] * 2 * R - CorrNum(e.cos_stacked, One)) > CorrTol * 2 * R THEN "CorrStacked"
    ELSE With([m \in 1..M |-> CorrNum(AbsMat(e.cos[m]), One)], LAMBDA nums :
           IF AbsI(corr["max_score"] * 2 * R - MaxOfSet(SeqRange(nums))) > CorrTol * 2 * R THEN "CorrMax"
           ELSE IF AbsI(corr["min_score"] * 2 * R - MinOfSet(SeqRange(nums))) > CorrTol * 2 * R THEN "CorrMin"
           ELSE IF AbsI(corr["avg_score"] * 2 * R * M - SumSeq(nums)) > CorrTol * 2 * R * M THEN "CorrAvg"
           ELSE "ok")

GenPermuteV(e, r) ==
    LET R == e.cfg.R IN
    IF r.raised THEN "PermuteRaised"
    ELSE IF ~PermOK(r.perm, R) THEN "PermutePerm"
    ELSE IF r.alias THEN "PermuteAliasesInput"
    ELSE IF ~r.eqf THEN "PermuteFactors"
    ELSE IF ~r.eqw THEN "PermuteWeights"
    ELSE With(GenW(e, TRUE), LAMBDA W :
           IF AssignSum(W, Plus1(r.perm)) < BestSum(W) - GenTol * R THEN "PermuteOptimal" ELSE "ok")

GenericV(e) ==
    LET c == e.cfg IN
    IF ~ValidGeneric(c) THEN "InDomain"
    ELSE IF ~(DOMAIN e.cos = 1..c.M /\ \A m \in 1..c.M : IsIntMat(e.cos[m], c.R, c.R)) THEN "CosShape"
    ELSE IF ~IsIntMat(e.cos_stacked, c.R, c.R) THEN "CosShape"
    ELSE IF \E m \in 1..c.M : \E a, b \in 1..c.R : AbsI(e.cos[m][a][b]) > One THEN "CosRange"
    ELSE IF \E a, b \in 1..c.R : e.cos_stacked[a][b] < 0 \/ e.cos_stacked[a][b] > One THEN "CosRange"
    ELSE IF {<<e.cong[k].abs, e.cong[k].form, e.cong[k].swap>> : k \in DOMAIN e.cong} # {f \in CongForms(c) : ~f[3]} THEN "CongForms"
    ELSE IF {e.permute[k].form : k \in DOMAIN e.permute} # {"single", "list"} THEN "PermuteForms"
    ELSE With(FirstBad([k \in DOMAIN e.cong |-> GenCongV(e, e.cong[k])]), LAMBDA v1 :
         IF v1 # "ok" THEN v1
         ELSE With(GenCorrV(e), LAMBDA v2 :
              IF v2 # "ok" THEN v2
              ELSE FirstBad([k \in DOMAIN e.permute |-> GenPermuteV(e, e.permute[k])])))

-----------------------------------------------------------------------------
(* error metrics *)
MetricEntryV(op, x, y, v, f32) ==
    With(MetricRat(op, x, y), LAMBDA rat :
      IF rat[2] = 0 THEN "ok"                     \* 0/0: undefined, any outcome is accepted
      ELSE IF ~IsFin(v) THEN "Finite"
      ELSE IF MetricSquared(op) THEN
             With(RatQ(rat[1], rat[2], 6), LAMBDA want :
               IF AbsI(SqQ6(v) - want) > SqTol(v) + (IF f32 THEN 2 * MetricTolF32 ELSE 0) THEN "Value"
               ELSE IF want > 100 /\ SgnI(v) # MetricSign(op, x, y) THEN "Sign"
               ELSE "ok")
      ELSE IF AbsI(v - RatQ(rat[1], rat[2], 6)) > (IF f32 THEN MetricTolF32 ELSE MetricTol) THEN "Value"
      ELSE "ok")

MetricV(e) ==
    LET c == e.cfg IN
    IF ~ValidMetric(c) THEN "InDomain"
    ELSE LET n  == Size(c.shape)
             ax == NormAxis(c.shape, c.axis)
             os == MetricOutShape(c.shape, ax) IN
         IF ~(IsIntSeq(e.x, n) /\ IsIntSeq(e.y, n)) THEN "InDomain"
         ELSE IF \E k \in 1..n : AbsI(e.x[k]) > MaxVal \/ AbsI(e.y[k]) > MaxVal THEN "InDomain"
         ELSE IF c.same /\ e.y # e.x THEN "InDomain"          \* same: one array object passed twice
         ELSE IF e.out.raised THEN "Raised"
         ELSE IF e.out.shape # os THEN "Shape"
         ELSE IF DOMAIN e.out.vals # 1..Size(os) THEN "Shape"
         ELSE LET X == [shape |-> c.shape, data |-> e.x]
                  Y == [shape |-> c.shape, data |-> e.y] IN
              FirstBad([k \in 1..Size(os) |-> MetricEntryV(c.op, SliceSeq(X, ax, k), SliceSeq(Y, ax, k), e.out.vals[k], c.dt = "f32")])

-----------------------------------------------------------------------------
(* leverage scores *)
LevCommonV(out, rows) ==
    IF out.raised THEN "Raised"
    ELSE IF out.dtype # "float64" THEN "Dtype"
    ELSE IF out.shape # <<rows>> THEN "Shape"
    ELSE IF ~IsIntSeq(out.vals, rows) THEN "Shape"
    ELSE IF \E k \in 1..rows : ~IsFin(out.vals[k]) THEN "Finite"
    ELSE IF ~out.nneg \/ \E k \in 1..rows : out.vals[k] < 0 THEN "NonNegative"
    ELSE IF AbsI(SumSeq(out.vals) - 100000000) > rows + LevTol THEN "SumsToOne"
    \* "always returns the distribution in double precision" so that rng.choice accepts it: the float64 sum is 1
    ELSE IF ~IsFin(out.sumdev) \/ AbsI(out.sumdev) > LevSumTol THEN "SumsToOneDouble"
    ELSE "ok"
LevV(e) == IF ~ValidLev(e.cfg) THEN "InDomain" ELSE LevCommonV(e.out, e.cfg.rows)
LevExactV(e) ==
    LET c == e.cfg IN
    IF ~ValidLevExact(c) THEN "InDomain"
    ELSE With(LevCommonV(e.out, 3 + c.pad), LAMBDA v1 :
         IF v1 # "ok" THEN v1
         ELSE IF \E k \in 1..(3 + c.pad) :
                   AbsI(e.out.vals[k] - RatQ(LevNum(c.f, c.idxs, c.pad, k), L * LevRank(c.idxs), 8)) > LevTol THEN "LeverageValue"
         ELSE "ok")

-----------------------------------------------------------------------------
Verdict(e) ==
    CASE e.kind = "exact"    -> ExactV(e)
      [] e.kind = "generic"  -> GenericV(e)
      [] e.kind = "zeros"    -> ZerosV(e)
      [] e.kind = "ties"     -> TiesV(e)
      [] e.kind = "metric"   -> MetricV(e)
      [] e.kind = "lev"      -> LevV(e)
      [] e.kind = "levexact" -> LevExactV(e)
      [] OTHER -> "UnknownKind"

TraceInit == i = 1 /\ cfg = NoCfg
TraceNext == /\ i <= Len(Events)
             /\ i' = i + 1 /\ UNCHANGED cfg
             /\ LET v == Verdict(Events[i]) IN
                  IF v = "ok" THEN TRUE ELSE PrintT(<<"REJECT", Events[i].id, v>>)
TraceSpec == TraceInit /\ [][TraceNext]_<<i, cfg>>
TraceAccepted == TLCGet("stats").diameter - 1 = Len(Events)
=============================================================================
