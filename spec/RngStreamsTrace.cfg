SPECIFICATION TraceSpec
CONSTANTS
  Seeds <- MCSeeds12
  Gens <- MCGens
  GenSeed <- MCTwins
  Entries <- MCEntries3
  Random <- MCRandom3
  Seedable <- MCSeed3
  Backends <- MCBackends
  InitBackend = "core"
  Objs <- MCObjs
  ObjSeed <- MCObjSeed
  ObjEntries <- MCSeedRand
  MaxOps = 1000000
  Variant = "spec"
INVARIANT BindFunctional
INVARIANT MemoFunctional
INVARIANT SameSeedSameResult
INVARIANT TwinGeneratorsAgree
INVARIANT DeterministicNoSeed
POSTCONDITION TraceAccepted
CHECK_DEADLOCK FALSE
