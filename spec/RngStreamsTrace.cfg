SPECIFICATION TraceSpec
CONSTANTS
  Seeds <- MCSeeds
  Gens <- MCGens
  GenSeed <- MCTwins
  Entries <- MCEntries
  Random <- MCRandom
  Seedable <- MCSeedRand
  Objs <- MCObjs
  ObjSeed <- MCObjSeed
  ObjEntries <- MCSeedRand
  MaxOps = 1000000
  Variant = "spec"
INVARIANT BindFunctional
INVARIANT MemoFunctional
INVARIANT SameSeedSameResult
INVARIANT TwinGeneratorsAgree
INVARIANT DeterministicNoSeed
POSTCONDITION TraceAccepted
CHECK_DEADLOCK FALSE
