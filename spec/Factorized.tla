------------------------------ MODULE Factorized ------------------------------
(* C03 (and base of C04, C19): factorised tensors and the dense tensor each one *represents*,     *)
(* written from the textbook definitions, not from the implementation:                           *)
(*   CP        X[i1..iN]      = SUM_r w_r PROD_k F_k[i_k, r]                 (Kolda & Bader 3.1)    *)
(*   Tucker    X[i1..iN]      = SUM_{j1..jN} G[j1..jN] PROD_k F_k[i_k, j_k]  (Kolda & Bader 4.1)    *)
(*   TT        X[i1..iN]      = G_1[:, i1, :] G_2[:, i2, :] ... G_N[:, iN, :]   (1x1 matrix product)   *)
(*   TR        X[i1..iN]      = trace(G_1[:, i1, :] ... G_N[:, iN, :])                              *)
(*   TT-matrix X[i1..id, j1..jd] = G_1[:, i1, j1, :] ... G_d[:, id, jd, :]                         *)
(*   PARAFAC2  X_i            = (P_i B) diag(w o A[i, :]) C^T, slices zero padded to the longest     *)
(* Everything is over exact integers.  A tensor is a Tens record [shape, data] (row major), a      *)
(* factorised tensor is a record `in` with the fields of its kind:                               *)
(*   cp: hasw, w, fs      tucker: core, fs      tt/tr/ttm: fs (cores)      p2: hasw, w, fs=<<A,B,C>>, ps *)
(* Modes are 0-based in configurations / view arguments (as in the Python API).                  *)
EXTENDS Tens, TLC

CONSTANTS MaxOrder,      \* orders 2..MaxOrder
          MaxDim,        \* mode sizes 1..MaxDim
          MaxRank,       \* ranks 1..MaxRank
          MaxSize,       \* dense entries
          MaxCore,       \* product of the Tucker ranks / of the ring ranks
          MaxP2J,        \* longest PARAFAC2 slice
          MaxDim4,       \* mode sizes of the order-4 shapes (keeps the quick tier small)
          MaxRank4,      \* ranks of the order-4 configurations (1..MaxRank4)
          MaxBadSize     \* the invalid family is built on the shapes with at most this many entries

\* ---------------------------------------------------------------------------- arithmetic helpers
FSum(n, f(_))  == LET S[k \in 0..n] == IF k = 0 THEN 0 ELSE S[k - 1] + f(k) IN S[n]
FProd(n, f(_)) == LET P[k \in 0..n] == IF k = 0 THEN 1 ELSE P[k - 1] * f(k) IN P[n]
FMax(n, f(_))  == LET M[k \in 1..n] == IF k = 1 THEN f(1) ELSE (IF f(k) > M[k - 1] THEN f(k) ELSE M[k - 1]) IN M[n]

\* entries with 0-based indices
E2(T, i, j)       == T.data[i * T.shape[2] + j + 1]
E3(T, a, i, b)    == T.data[(a * T.shape[2] + i) * T.shape[3] + b + 1]
E4(T, a, i, j, b) == T.data[((a * T.shape[2] + i) * T.shape[3] + j) * T.shape[4] + b + 1]

\* a well-formed integer tensor of the given order (guards every index computation below)
\* (a mode of size 0 is a well-formed array -- it occurs in the invalid family as "rank 0" -- but never valid)
IsT(T, order) == /\ Len(T.shape) = order
                 /\ \A k \in 1..order : T.shape[k] \in Nat
                 /\ Len(T.data) = Size(T.shape)
                 /\ \A n \in 1..Len(T.data) : T.data[n] \in Int
IsTAny(T) == IsT(T, Len(T.shape))
PosT(T)  == \A k \in 1..Len(T.shape) : T.shape[k] >= 1
PosAll(ts) == \A k \in 1..Len(ts) : PosT(ts[k])

\* ---------------------------------------------------------------------------- views of a dense tensor
\* mode-m unfolding (Kolda/tensorly layout: mode m first, the others in increasing order, row major)
Unfold(T, m) ==
    LET N == Len(T.shape) IN
    Reshape(Transpose(T, <<m + 1>> \o SortedSeq((1..N) \ {m + 1})),
            <<T.shape[m + 1], Size(T.shape) \div T.shape[m + 1]>>)
Vec(T) == Reshape(T, <<Size(T.shape)>>)
Norm2(T) == FSum(Len(T.data), LAMBDA n : T.data[n] * T.data[n])
Hadamard(T, M) == [shape |-> T.shape, data |-> [n \in 1..Len(T.data) |-> T.data[n] * M.data[n]]]

\* mode-m product with a matrix M (J x I_m):  Y[.., j, ..] = SUM_k M[j, k] X[.., k, ..]
ModeDot(T, M, m) ==
    LET oshape == [T.shape EXCEPT ![m + 1] = M.shape[1]] IN
    Build(oshape, LAMBDA idx : FSum(T.shape[m + 1], LAMBDA k : E2(M, idx[m + 1], k - 1) * At(T, [idx EXCEPT ![m + 1] = k - 1])))
\* ... with a vector (a sequence): the mode is contracted; keep = the mode stays with size 1
DropAt(s, p) == [k \in 1..(Len(s) - 1) |-> IF k < p THEN s[k] ELSE s[k + 1]]
ModeDotVec(T, v, m, keep) ==
    LET Y == ModeDot(T, [shape |-> <<1, Len(v)>>, data |-> v], m) IN
    IF keep THEN Y ELSE Reshape(Y, DropAt(Y.shape, m + 1))

\* ---------------------------------------------------------------------------- CP
CPRank(in)  == in.fs[1].shape[2]
CPShape(in) == [k \in 1..Len(in.fs) |-> in.fs[k].shape[1]]
Wt(in, r)   == IF in.hasw THEN in.w[r] ELSE 1
CPFactorsOK(in) == /\ Len(in.fs) >= 1 /\ \A k \in 1..Len(in.fs) : IsT(in.fs[k], 2)
CPRanksMatch(in) == \A k \in 1..Len(in.fs) : in.fs[k].shape[2] = CPRank(in)
\* the weights are ONE vector of length R: shape (R,) -- not (R,1), (R,R), (1,R), 0-d ... (logged in in.wshape when
\* the harness has it; records built inside the specifications carry the flat vector only)
WShapeOK(in, R) == ~in.hasw \/ (Len(in.w) = R /\ ("wshape" \in DOMAIN in => in.wshape = <<R>>))
ValidCP(in) == /\ CPFactorsOK(in) /\ PosAll(in.fs) /\ CPRanksMatch(in)
               /\ WShapeOK(in, CPRank(in)) /\ (in.hasw => \A r \in 1..Len(in.w) : in.w[r] \in Int)
CPDense(in) ==
    Build(CPShape(in), LAMBDA idx :
        FSum(CPRank(in), LAMBDA r : Wt(in, r) * FProd(Len(in.fs), LAMBDA k : E2(in.fs[k], idx[k], r - 1))))

\* the Gram shortcut:  ||X||^2 = SUM_{r,s} w_r w_s PROD_k <F_k[:, r], F_k[:, s]>
ColDot(F, r, s) == FSum(F.shape[1], LAMBDA i : E2(F, i - 1, r) * E2(F, i - 1, s))
CPGramNorm2(in) ==
    LET R == CPRank(in) IN
    FSum(R, LAMBDA r : FSum(R, LAMBDA s :
        Wt(in, r) * Wt(in, s) * FProd(Len(in.fs), LAMBDA k : ColDot(in.fs[k], r - 1, s - 1))))

\* Khatri-Rao product of a sequence of matrices (column-wise Kronecker, first matrix slowest)
KhRao(ms) ==
    LET sh == [k \in 1..Len(ms) |-> ms[k].shape[1]]
        R  == ms[1].shape[2] IN
    Build(<<Size(sh), R>>, LAMBDA p :
        LET i == Unlin(sh, p[1]) IN FProd(Len(ms), LAMBDA k : E2(ms[k], i[k], p[2])))
\* F_m diag(w) KhatriRao(other factors)^T -- the matricised form of a CP tensor
CPUnfoldFormula(in, m) ==
    LET rest == [k \in 1..(Len(in.fs) - 1) |-> IF k <= m THEN in.fs[k] ELSE in.fs[k + 1]]
        K    == KhRao(rest)
        F    == in.fs[m + 1] IN
    Build(<<F.shape[1], K.shape[1]>>, LAMBDA p :
        FSum(CPRank(in), LAMBDA r : E2(F, p[1], r - 1) * Wt(in, r) * E2(K, p[2], r - 1)))

\* ---------------------------------------------------------------------------- Tucker
TuckerShape(in) == [k \in 1..Len(in.fs) |-> in.fs[k].shape[1]]
TuckerRank(in)  == in.core.shape
TuckerPartsOK(in) == /\ IsTAny(in.core) /\ Len(in.fs) >= 1 /\ \A k \in 1..Len(in.fs) : IsT(in.fs[k], 2)
TuckerRanksMatch(in) == \A k \in 1..Len(in.fs) : in.fs[k].shape[2] = in.core.shape[k]
ValidTucker(in) == /\ TuckerPartsOK(in) /\ PosAll(in.fs) /\ PosT(in.core) /\ Len(in.fs) = Len(in.core.shape) /\ Len(in.fs) >= 2
                   /\ TuckerRanksMatch(in)
TuckerDense(in) ==
    LET N == Len(in.fs) IN
    Build(TuckerShape(in), LAMBDA idx :
        FSum(Len(in.core.data), LAMBDA n :
            LET j == Unlin(in.core.shape, n - 1) IN
            in.core.data[n] * FProd(N, LAMBDA k : E2(in.fs[k], idx[k], j[k]))))
\* the same tensor as a sequence of mode products  G x_1 F_1 x_2 ... x_N F_N
TuckerSeq(in) ==
    LET S[k \in 0..Len(in.fs)] == IF k = 0 THEN in.core ELSE ModeDot(S[k - 1], in.fs[k], k - 1)
    IN  S[Len(in.fs)]
\* ---- the documented options of tucker_to_tensor / tucker_to_unfolded / tucker_to_vec.
\*   skip   : -1, or the 0-based position IN THE FACTOR LIST of a factor that is left out (its mode keeps the core's size)
\*   tr     : transpose_factors -- factor F (I x r) is applied as F^T, contracting ITS ROWS with the core mode
\*   modes  : <<>> (factor j acts on mode j), or the 0-based modes the listed factors act on (tucker_to_tensor only)
\* All three views (dense, unfolded(m), vec) under an option are views of this ONE tensor.
OptPos(in, modes) == IF modes = <<>> THEN [j \in 1..Len(in.fs) |-> j] ELSE [j \in 1..Len(modes) |-> modes[j] + 1]
\* entry (o, g) of the matrix factor j applies: o = output index, g = core index
OptM(F, tr, o, g) == IF tr THEN E2(F, g, o) ELSE E2(F, o, g)
OptOut(F, tr) == IF tr THEN F.shape[2] ELSE F.shape[1]
OptIn(F, tr)  == IF tr THEN F.shape[1] ELSE F.shape[2]
ValidTuckerOpt(in, skip, tr, modes) ==
    LET pos == OptPos(in, modes)  N == Len(in.core.shape) IN
    /\ TuckerPartsOK(in) /\ PosAll(in.fs) /\ PosT(in.core)
    /\ Len(pos) = Len(in.fs) /\ skip \in -1..(Len(in.fs) - 1)
    /\ \A j \in 1..Len(pos) : pos[j] \in 1..N
    /\ \A j, l \in 1..Len(pos) : j # l => pos[j] # pos[l]
    /\ \A j \in 1..Len(pos) : OptIn(in.fs[j], tr) = in.core.shape[pos[j]]
TuckerDenseOpt(in, skip, tr, modes) ==
    LET pos == OptPos(in, modes)  N == Len(in.core.shape)
        act(k) == {j \in 1..Len(pos) : pos[j] = k /\ j - 1 # skip}          \* the factor acting on mode k, if any
        fac(k) == CHOOSE j \in act(k) : TRUE
        osh == [k \in 1..N |-> IF act(k) = {} THEN in.core.shape[k] ELSE OptOut(in.fs[fac(k)], tr)] IN
    Build(osh, LAMBDA idx :
        FSum(Len(in.core.data), LAMBDA n :
            LET g == Unlin(in.core.shape, n - 1) IN
            in.core.data[n] * FProd(N, LAMBDA k :
                IF act(k) = {} THEN (IF idx[k] = g[k] THEN 1 ELSE 0) ELSE OptM(in.fs[fac(k)], tr, idx[k], g[k]))))
\* Invalid pair UNDER OPTIONS: a factor that is actually applied does not fit the core's size in its mode.  Every
\* conversion called with these options must refuse it (a backend that broadcasts a size of 1 must not be relied on).
\* A mismatch confined to the factor that is left out carries no obligation.
TuckerOptMismatch(in, skip, tr, modes) ==
    LET pos == OptPos(in, modes)  N == Len(in.core.shape) IN
    /\ TuckerPartsOK(in) /\ Len(pos) = Len(in.fs) /\ skip \in -1..(Len(in.fs) - 1)
    /\ \A j \in 1..Len(pos) : pos[j] \in 1..N
    /\ \E j \in 1..Len(pos) : j - 1 # skip /\ OptIn(in.fs[j], tr) # in.core.shape[pos[j]]
\* the same tensor as a chain of mode products with the (possibly transposed) listed factors, skipping one
TransposeM(F) == Build(<<F.shape[2], F.shape[1]>>, LAMBDA p : E2(F, p[2], p[1]))
TuckerSeqOpt(in, skip, tr, modes) ==
    LET pos == OptPos(in, modes)
        S[j \in 0..Len(pos)] == IF j = 0 THEN in.core
                                ELSE IF j - 1 = skip THEN S[j - 1]
                                ELSE ModeDot(S[j - 1], IF tr THEN TransposeM(in.fs[j]) ELSE in.fs[j], pos[j] - 1)
    IN  S[Len(pos)]
IdentityM(n) == Build(<<n, n>>, LAMBDA p : IF p[1] = p[2] THEN 1 ELSE 0)

\* superdiagonal core: Tucker(diag(w), Fs) = CP(w, Fs)
DiagCore(in) ==
    LET N == Len(in.fs)  R == CPRank(in)  sh == [k \in 1..N |-> R] IN
    Build(sh, LAMBDA j : IF \A k \in 1..N : j[k] = j[1] THEN Wt(in, j[1] + 1) ELSE 0)

\* ---------------------------------------------------------------------------- TT / TR
ChainShape(in) == [k \in 1..Len(in.fs) |-> in.fs[k].shape[2]]
ChainRank(in)  == LET N == Len(in.fs) IN
                  [k \in 1..(N + 1) |-> IF k <= N THEN in.fs[k].shape[1] ELSE in.fs[N].shape[3]]
CoresOK(in, order) == /\ Len(in.fs) >= 1 /\ \A k \in 1..Len(in.fs) : IsT(in.fs[k], order)
ChainMatch(in, order) == \A k \in 1..(Len(in.fs) - 1) : in.fs[k].shape[order] = in.fs[k + 1].shape[1]
Boundary1(in, order)  == in.fs[1].shape[1] = 1 /\ in.fs[Len(in.fs)].shape[order] = 1
RingClosed(in)        == in.fs[1].shape[1] = in.fs[Len(in.fs)].shape[3]
ValidTT(in) == CoresOK(in, 3) /\ PosAll(in.fs) /\ ChainMatch(in, 3) /\ Boundary1(in, 3)
ValidTR(in) == CoresOK(in, 3) /\ PosAll(in.fs) /\ Len(in.fs) >= 2 /\ ChainMatch(in, 3) /\ RingClosed(in)

\* TT: left-to-right product of the slices G_k[:, i_k, :], starting from the 1-vector (1)
TTDense(in) ==
    LET N == Len(in.fs) IN
    Build(ChainShape(in), LAMBDA idx :
        LET V[k \in 0..N] ==
              IF k = 0 THEN <<1>>
              ELSE [b \in 1..in.fs[k].shape[3] |->
                       FSum(in.fs[k].shape[1], LAMBDA a : V[k - 1][a] * E3(in.fs[k], a - 1, idx[k], b - 1))]
        IN  V[N][1])
\* TR: trace of the product = sum over all closed rank-index tuples (a_1, ..., a_N), a_{N+1} = a_1
TRDense(in) ==
    LET N  == Len(in.fs)
        rs == [k \in 1..N |-> in.fs[k].shape[1]] IN
    Build(ChainShape(in), LAMBDA idx :
        FSum(Size(rs), LAMBDA n :
            LET a == Unlin(rs, n - 1) IN
            FProd(N, LAMBDA k : E3(in.fs[k], a[k], idx[k], a[(k % N) + 1]))))

\* ---------------------------------------------------------------------------- TT-matrix
\* cores (r_{k-1}, m_k, n_k, r_k); tensorised shape (m_1..m_d, n_1..n_d); matrix (PROD m) x (PROD n)
TTMShape(in) == LET d == Len(in.fs) IN
                [k \in 1..(2 * d) |-> IF k <= d THEN in.fs[k].shape[2] ELSE in.fs[k - d].shape[3]]
TTMRank(in)  == LET d == Len(in.fs) IN
                [k \in 1..(d + 1) |-> IF k <= d THEN in.fs[k].shape[1] ELSE in.fs[d].shape[4]]
ValidTTM(in) == CoresOK(in, 4) /\ PosAll(in.fs) /\ ChainMatch(in, 4) /\ Boundary1(in, 4)
TTMDense(in) ==
    LET d == Len(in.fs) IN
    Build(TTMShape(in), LAMBDA idx :
        LET V[k \in 0..d] ==
              IF k = 0 THEN <<1>>
              ELSE [b \in 1..in.fs[k].shape[4] |->
                       FSum(in.fs[k].shape[1], LAMBDA a : V[k - 1][a] * E4(in.fs[k], a - 1, idx[k], idx[d + k], b - 1))]
        IN  V[d][1])
TTMMatrix(in) == LET d == Len(in.fs)  sh == TTMShape(in) IN
                 Reshape(TTMDense(in), <<ProdSeq(SubSeq(sh, 1, d)), ProdSeq(SubSeq(sh, d + 1, 2 * d))>>)
\* the TT tensor obtained by merging (m_k, n_k) into one mode of size m_k*n_k
TTMMerged(in) == [fs |-> [k \in 1..Len(in.fs) |->
                     [shape |-> <<in.fs[k].shape[1], in.fs[k].shape[2] * in.fs[k].shape[3], in.fs[k].shape[4]>>,
                      data  |-> in.fs[k].data]]]

\* ---------------------------------------------------------------------------- PARAFAC2
P2Rank(in) == in.fs[1].shape[2]
P2SliceShapes(in) == [i \in 1..Len(in.ps) |-> <<in.ps[i].shape[1], in.fs[3].shape[1]>>]
P2MaxLen(in) == FMax(Len(in.ps), LAMBDA i : in.ps[i].shape[1])
P2DenseShape(in) == <<in.fs[1].shape[1], P2MaxLen(in), in.fs[3].shape[1]>>
P2PartsOK(in) == /\ Len(in.fs) = 3 /\ \A k \in 1..3 : IsT(in.fs[k], 2)
                 /\ Len(in.ps) >= 1 /\ \A i \in 1..Len(in.ps) : IsT(in.ps[i], 2)
P2RanksMatch(in) == /\ \A i \in 1..Len(in.ps) : in.ps[i].shape[2] = P2Rank(in)
                    /\ in.fs[2].shape[2] = P2Rank(in) /\ in.fs[3].shape[2] = P2Rank(in)
\* Projections are logged as integer numerators over the common denominator in.pden (1, or 2 for the
\* "scaled by one half" member of the invalid family):  (P/d)^T (P/d) = I  <=>  P^T P = d^2 I.
\* The deviation of the Gram matrix from I may have EITHER sign (a doubled column: +, a zeroed or
\* shrunk column: -, a negated duplicate: off-diagonal -1); all of them are non-orthonormal.
Orthonormal(P, d) == \A s, t \in 0..(P.shape[2] - 1) : ColDot(P, s, t) = (IF s = t THEN d * d ELSE 0)
P2Orthonormal(in) == \A i \in 1..Len(in.ps) : Orthonormal(in.ps[i], in.pden)
ValidP2(in) == /\ P2PartsOK(in) /\ PosAll(in.fs) /\ PosAll(in.ps) /\ in.pden = 1 /\ Len(in.ps) = in.fs[1].shape[1]
               /\ P2RanksMatch(in) /\ in.fs[2].shape[1] = P2Rank(in)
               /\ P2Orthonormal(in) /\ WShapeOK(in, P2Rank(in))
               /\ (in.hasw => \A r \in 1..Len(in.w) : in.w[r] \in Int)
\* evolving factor B_i = P_i B, entry (j, r)   (i is 1-based here, j, r 0-based)
P2Bi(in, i, j, r) == FSum(P2Rank(in), LAMBDA s : E2(in.ps[i], j, s - 1) * E2(in.fs[2], s - 1, r))
\* entry (j, k) of slice i:  ((P_i B) diag(w o A[i, :]) C^T)[j, k]
P2Entry(in, i, j, k) ==
    FSum(P2Rank(in), LAMBDA r :
        P2Bi(in, i, j, r - 1) * Wt(in, r) * E2(in.fs[1], i - 1, r - 1) * E2(in.fs[3], k, r - 1))
P2Slice(in, i) == Build(P2SliceShapes(in)[i], LAMBDA p : P2Entry(in, i, p[1], p[2]))
\* the dense tensor: slices stacked along mode 0, rows beyond a slice's own length are zero
P2Dense(in) ==
    Build(P2DenseShape(in), LAMBDA idx :
        IF idx[2] < in.ps[idx[1] + 1].shape[1] THEN P2Entry(in, idx[1] + 1, idx[2], idx[3]) ELSE 0)

\* ---------------------------------------------------------------------------- by kind
Kinds == {"cp", "tucker", "tt", "tr", "ttm", "p2"}
Valid(kind, in) ==
    CASE kind = "cp" -> ValidCP(in)       [] kind = "tucker" -> ValidTucker(in)
      [] kind = "tt" -> ValidTT(in)       [] kind = "tr" -> ValidTR(in)
      [] kind = "ttm" -> ValidTTM(in)     [] kind = "p2" -> ValidP2(in)
      [] OTHER -> FALSE
Dense(kind, in) ==
    CASE kind = "cp" -> CPDense(in)       [] kind = "tucker" -> TuckerDense(in)
      [] kind = "tt" -> TTDense(in)       [] kind = "tr" -> TRDense(in)
      [] kind = "ttm" -> TTMDense(in)     [] kind = "p2" -> P2Dense(in)
\* reported shape / rank (tensorly's conventions: CP/PARAFAC2 rank is an integer, the others rank tuples;
\* the PARAFAC2 shape is the tuple of slice shapes, the TT-matrix shape the tensorised shape)
ShapeOf(kind, in) ==
    CASE kind = "cp" -> CPShape(in)       [] kind = "tucker" -> TuckerShape(in)
      [] kind \in {"tt", "tr"} -> ChainShape(in)
      [] kind = "ttm" -> TTMShape(in)     [] kind = "p2" -> P2SliceShapes(in)
RankOf(kind, in) ==
    CASE kind = "cp" -> <<CPRank(in)>>    [] kind = "tucker" -> TuckerRank(in)
      [] kind \in {"tt", "tr"} -> ChainRank(in)
      [] kind = "ttm" -> TTMRank(in)      [] kind = "p2" -> <<P2Rank(in)>>

\* The three classes of structurally invalid inputs the property names.  An input in one of them
\* MUST be rejected; an input that is invalid for another reason carries no obligation.
MismatchedRanks(kind, in) ==
    \* (a weight array that is not one weight per component is a rank mismatch, too)
    CASE kind = "cp" -> CPFactorsOK(in) /\ (~CPRanksMatch(in) \/ ~WShapeOK(in, CPRank(in)))
      [] kind = "tucker" -> TuckerPartsOK(in) /\ Len(in.fs) = Len(in.core.shape) /\ ~TuckerRanksMatch(in)
      [] kind = "tt" -> CoresOK(in, 3) /\ ~ChainMatch(in, 3)
      [] kind = "tr" -> CoresOK(in, 3) /\ ~ChainMatch(in, 3)
      [] kind = "ttm" -> CoresOK(in, 4) /\ ~ChainMatch(in, 4)
      [] kind = "p2" -> P2PartsOK(in) /\ (~P2RanksMatch(in) \/ ~WShapeOK(in, P2Rank(in)))
      [] OTHER -> FALSE
WrongBoundary(kind, in) ==
    CASE kind = "tt" -> CoresOK(in, 3) /\ ~Boundary1(in, 3)
      [] kind = "ttm" -> CoresOK(in, 4) /\ ~Boundary1(in, 4)
      [] kind = "tr" -> CoresOK(in, 3) /\ ~RingClosed(in)
      [] OTHER -> FALSE
NonOrthonormal(kind, in) ==
    kind = "p2" /\ P2PartsOK(in) /\ P2RanksMatch(in) /\ WShapeOK(in, P2Rank(in)) /\ ~P2Orthonormal(in)
MustReject(kind, in) == MismatchedRanks(kind, in) \/ WrongBoundary(kind, in) \/ NonOrthonormal(kind, in)

\* ============================================================================ bounded domain
Shapes == {s \in UNION {[1..n -> 1..MaxDim] : n \in 2..MaxOrder} :
              Size(s) <= MaxSize /\ (Len(s) >= 4 => \A k \in 1..Len(s) : s[k] <= MaxDim4)}
EvenShapes == {s \in Shapes : Len(s) % 2 = 0}
RankTop(N) == IF N >= 4 THEN MaxRank4 ELSE MaxRank          \* N = order of the tensor
RankVecs(n) == {r \in [1..n -> 1..RankTop(n)] : ProdSeq(r) <= MaxCore}
P2Roots == {<<I, K>> : I \in 2..3, K \in 1..MaxDim}

\* One record per configuration.  `bad` = "none" for the valid family; otherwise ONE perturbation of a
\* valid configuration: which field (`bad`), of which factor (`at`), and in which direction (`dl` = +1:
\* the rank / column count one too large, -1: one too small -- down to rank 0 and boundary rank 0).
\* Both directions matter: a validator that only looks for an excess (or only for a deficit) is wrong.
Rec(op, s, r, hw, ls) == [op |-> op, shape |-> s, rank |-> r, hasw |-> hw, lens |-> ls, bad |-> "none", at |-> 0, dl |-> 0,
                          skip |-> -1, tr |-> FALSE, modes |-> <<>>, mix |-> "none", late |-> FALSE, mag |-> 0, tmag |-> 0, zero |-> "none", pnear |-> 0]
\* Mixed storage types across the parts of ONE factorised tensor (valid family).  "<type>_first/last":
\* the first / last factor (core, for TT-like formats) is stored as int64, float32 or complex128, every
\* other array as float64.  Non-integer arrays hold half-integers (numerators over the denominator 2
\* listed in `dens`), so that a result truncated to the integer type, or rounded through a narrower
\* type, differs from the contraction in the promoted type; a complex factor has an imaginary part.
\* The represented tensor is multilinear in each part: numerators contract to the numerator of the
\* result over PROD dens (MixHomogeneous), and a complex part a + ib gives Dense(a) + i Dense(b)
\* (MixAdditive) -- both TLC-checked below, and used by the trace specification.
MixNames == {"int_first", "int_last", "f32_first", "f32_last", "cplx_first", "cplx_last"}
\* MAGNITUDE: one factor column (one whole core for the chain formats) is scaled by 2^mag and the compensating
\* 2^-mag sits in the weights / another factor / the core slice / another core.  Powers of two are exact in
\* floating point and the scaling can be moved between the parts of a component (MagMove, TLC-checked), so
\* the represented tensor is exactly that of the integer numerators: every clause keeps its exact form.
Mags == {-500, -70, 300}
\* LATE: the wrapper object is first built from ANOTHER valid configuration (BaseOf) and all its parts are
\* then replaced by item / attribute assignment -- by the (valid or invalid) parts of this configuration.
\* A valid result must convert to the NEW contraction, an invalid one must be refused by every conversion.
MixCfgs(base) == IF base.op \notin {"p2", "ttm"} /\ (Size(base.shape) > MaxBadSize \/ Len(base.shape) > 3) THEN {}
                 ELSE {[base EXCEPT !.mix = m] : m \in MixNames}
                      \cup {[base EXCEPT !.mag = e] : e \in Mags} \cup {[base EXCEPT !.late = TRUE]}
                      \* TOTAL magnitude: one whole part scaled by 2^tmag, uncompensated -- the tensor, every view and the
                      \* norm scale by exactly 2^tmag (MixHomogeneous); an exactly-zero tensor (one part all zero) has norm
                      \* exactly 0; the same in single precision ("f32_all": every array float32)
                      \cup {[base EXCEPT !.tmag = e] : e \in {-30, 300}}
                      \cup {[base EXCEPT !.zero = "part"], [base EXCEPT !.mix = "f32_all"], [base EXCEPT !.mix = "f32_all", !.zero = "part"]}
MixType(c) == CASE c.mix \in {"int_first", "int_last"} -> "int64"
                [] c.mix \in {"f32_first", "f32_last", "f32_all"} -> "float32"
                [] c.mix \in {"cplx_first", "cplx_last"} -> "complex128"
                [] OTHER -> "float64"
\* NumPy's promotion on this sub-lattice: int64, float32 < float64 < complex128
\* (a single-core TT-matrix has no second array to promote with: it keeps its own type)
MixOut(c) == IF (c.op = "ttm" /\ Len(c.shape) = 2) \/ c.mix = "f32_all" THEN MixType(c)
             ELSE IF c.mix \in {"cplx_first", "cplx_last"} THEN "complex128" ELSE "float64"
\* Tucker view options (valid family): every skip position, transposed factors, explicit mode lists
TuckerOptCfgs(s) ==
    LET N == Len(s)
        rs == {[q \in 1..N |-> 1 + (q % 2)]} \cup (IF N <= 3 THEN {[q \in 1..N |-> 2 - (q % 2)]} ELSE {})
        all == [q \in 1..N |-> q - 1] IN
    UNION {
         ({[Rec("tucker", s, r, FALSE, <<>>) EXCEPT !.skip = k, !.tr = t] : k \in -1..(N - 1), t \in BOOLEAN} \ {Rec("tucker", s, r, FALSE, <<>>)})
         \cup {[Rec("tucker", s, r, FALSE, <<>>) EXCEPT !.modes = DropAt(all, d)] : d \in 1..N}        \* a factor for every mode but one
         \cup {[Rec("tucker", s, r, FALSE, <<>>) EXCEPT !.modes = [q \in 1..N |-> N - q]]}            \* factors listed in reverse mode order
         \cup {[Rec("tucker", s, r, FALSE, <<>>) EXCEPT !.modes = DropAt(all, 1), !.skip = 0, !.tr = TRUE]}
       : r \in rs}
    \* the same options on an INVALID pair: one applied (or left-out) factor one too large / small in the contracted dimension
    \cup (IF Size(s) > 4 \/ N > 3 THEN {} ELSE
          LET r == [q \in 1..N |-> 1 + (q % 2)]  b == Rec("tucker", s, r, FALSE, <<>>) IN
          {[x EXCEPT !.bad = "fcols", !.at = k, !.dl = d] :
              x \in ({[b EXCEPT !.skip = j, !.tr = t] : j \in -1..(N - 1), t \in BOOLEAN} \ {b})
                    \cup {[b EXCEPT !.modes = [q \in 1..N |-> q - 1]], [b EXCEPT !.modes = [q \in 1..N |-> N - q], !.skip = 0]},
              k \in 1..N, d \in {1, -1}})
    \* the same options with a COMPLEX first / last factor: transpose_factors means the CONJUGATE transpose
    \cup (IF Size(s) > MaxBadSize \/ N > 3 THEN {} ELSE
          LET r == [q \in 1..N |-> 1 + (q % 2)]  b == Rec("tucker", s, r, FALSE, <<>>) IN
          {[x EXCEPT !.mix = m] :
              x \in ({[b EXCEPT !.skip = k, !.tr = t] : k \in -1..(N - 1), t \in BOOLEAN} \ {b})
                    \cup {[b EXCEPT !.modes = DropAt(all, N)], [b EXCEPT !.modes = [q \in 1..N |-> N - q], !.tr = TRUE]},
              m \in {"cplx_first", "cplx_last"}})
Perturb(base, names, ats, dls) ==
    IF base.op # "p2" /\ Size(base.shape) > MaxBadSize THEN {}
    ELSE LET S == {[base EXCEPT !.bad = b, !.at = k, !.dl = d] : b \in names, k \in ats, d \in dls} IN
         \* ... and the same invalid parts assigned to an already constructed (valid) wrapper object
         S \cup {[x EXCEPT !.late = TRUE] : x \in {y \in S : Len(y.shape) <= 2 \/ (Len(y.shape) = 3 /\ Size(y.shape) <= 4) \/ y.op = "p2"}}
NonOrthNames == {"nonorth_double", "nonorth_scaled", "nonorth_skew",            \* Gram deviation > 0
                 "nonorth_zero", "nonorth_allzero", "nonorth_negdup", "nonorth_half"}   \* Gram deviation < 0
CfgsOf(root) ==
    LET s == root.shape  N == Len(s)  kd == root.kind
        twos(n) == [q \in 1..n |-> 2] IN
    CASE kd = "cp" ->
            {Rec("cp", s, <<r>>, hw, <<>>) : r \in 1..MaxRank, hw \in BOOLEAN}
            \cup MixCfgs(Rec("cp", s, <<2>>, TRUE, <<>>))
            \cup UNION {Perturb(Rec("cp", s, <<r>>, TRUE, <<>>), {"fcols"}, 1..N, {1, -1}) : r \in 1..2}
            \cup Perturb(Rec("cp", s, <<2>>, TRUE, <<>>), {"wlen"}, {0}, {1, -1})
            \cup Perturb(Rec("cp", s, <<2>>, TRUE, <<>>), {"wshape"}, 1..5, {0})       \* weights of the wrong ndim / shape
      [] kd = "tucker" ->
            {Rec("tucker", s, r, FALSE, <<>>) : r \in RankVecs(N)} \cup TuckerOptCfgs(s)
            \cup MixCfgs(Rec("tucker", s, [q \in 1..N |-> 1 + (q % 2)], FALSE, <<>>))
            \cup Perturb(Rec("tucker", s, [q \in 1..N |-> 1 + (q % 2)], FALSE, <<>>), {"fcols"}, 1..N, {1, -1})
            \cup Perturb(Rec("tucker", s, twos(N), FALSE, <<>>), {"nfactors"}, {0}, {-1})
      [] kd = "tt" ->
            {Rec("tt", s, <<1>> \o r \o <<1>>, FALSE, <<>>) : r \in [1..(N - 1) -> 1..RankTop(N)]}
            \cup MixCfgs(Rec("tt", s, <<1>> \o twos(N - 1) \o <<1>>, FALSE, <<>>))
            \cup Perturb(Rec("tt", s, <<1>> \o twos(N - 1) \o <<1>>, FALSE, <<>>), {"chain"}, 1..(N - 1), {1, -1})
            \cup Perturb(Rec("tt", s, <<1>> \o twos(N - 1) \o <<1>>, FALSE, <<>>), {"bound_first", "bound_last"}, {0}, {1, -1})
      [] kd = "tr" ->
            {Rec("tr", s, r \o <<r[1]>>, FALSE, <<>>) : r \in RankVecs(N)}
            \cup MixCfgs(Rec("tr", s, twos(N + 1), FALSE, <<>>))
            \cup Perturb(Rec("tr", s, twos(N + 1), FALSE, <<>>), {"chain"}, 1..(N - 1), {1, -1})
            \cup Perturb(Rec("tr", s, twos(N + 1), FALSE, <<>>), {"closure", "closure_first"}, {0}, {1, -1})
      [] kd = "ttm" ->
            LET d == N \div 2 IN
            {Rec("ttm", s, <<1>> \o r \o <<1>>, FALSE, <<>>) : r \in [1..(d - 1) -> 1..MaxRank]}
            \cup (IF Size(s) <= MaxBadSize THEN MixCfgs(Rec("ttm", s, <<1>> \o twos(d - 1) \o <<1>>, FALSE, <<>>)) ELSE {})
            \cup Perturb(Rec("ttm", s, <<1>> \o twos(d - 1) \o <<1>>, FALSE, <<>>), {"chain"}, 1..(d - 1), {1, -1})
            \cup Perturb(Rec("ttm", s, <<1>> \o twos(d - 1) \o <<1>>, FALSE, <<>>), {"bound_first", "bound_last"}, {0}, {1, -1})
      [] kd = "p2" ->
            \* shape = <<I, K>>; lens = slice lengths J_i >= rank (P_i has orthonormal columns)
            LET ib == Rec("p2", s, <<2>>, TRUE, [q \in 1..s[1] |-> 2 + (q % 2)]) IN
            {Rec("p2", s, <<r>>, hw, js) : r \in 1..MaxRank, js \in [1..s[1] -> 1..MaxP2J], hw \in BOOLEAN}
            \cup MixCfgs(ib) \cup MixCfgs(Rec("p2", s, <<1>>, TRUE, [q \in 1..s[1] |-> 1 + (q % 3)]))
            \* NEAR-orthonormal projections: every P_i times (1 + pnear * 2^-18).  P^T P deviates from I by 7.6e-6, inside
            \* the validator's documented tolerance (1e-5): a VALID input.  The represented tensor is exactly
            \* (1 + pnear * 2^-18) times that of the exact projections (homogeneity, TLC-checked): every view, and every
            \* norm, must follow the STORED projections -- the harness divides results by that factor, which is exact.
            \cup {[x EXCEPT !.pnear = e] : x \in {ib, Rec("p2", s, <<1>>, TRUE, [q \in 1..s[1] |-> 1 + (q % 3)]),
                                                 Rec("p2", s, <<2>>, FALSE, [q \in 1..s[1] |-> 2 + ((q + 1) % 2)])}, e \in {1, -1}}
            \cup Perturb(ib, {"pcols"}, 1..s[1], {1, -1})
            \cup Perturb(ib, NonOrthNames, 1..s[1], {0})
            \cup Perturb(ib, {"bcols", "ccols"}, {0}, {1, -1})
            \cup Perturb(ib, {"nproj"}, {0}, {-1})
            \cup Perturb(ib, {"wlen"}, {0}, {1, -1}) \cup Perturb(ib, {"wshape"}, 1..5, {0})

ValidCfg(c) ==
    /\ c.op \in Kinds
    /\ (c.op = "p2" => \A i \in 1..Len(c.lens) : c.lens[i] >= c.rank[1])

\* shapes of the factor arrays of a configuration (the harness fills them with integers in -2..2)
FactorShapes(c) ==
    LET s == c.shape  N == Len(s)  r == c.rank  b == c.bad  at == c.at
        on(name, cond) == IF b = name /\ cond THEN c.dl ELSE 0
        bump(k) == on("fcols", at = k) + on("chain", at = k) IN
    CASE c.op = "cp"     -> [k \in 1..N |-> <<s[k], r[1] + bump(k)>>]
      \* (under transpose_factors the dimension contracted with the core is the factor's ROW count: that one is perturbed)
      [] c.op = "tucker" -> IF c.modes # <<>> THEN [j \in 1..Len(c.modes) |-> <<s[c.modes[j] + 1] + (IF c.tr THEN bump(j) ELSE 0),
                                                                                 r[c.modes[j] + 1] + (IF c.tr THEN 0 ELSE bump(j))>>]
                            ELSE [k \in 1..(IF b = "nfactors" THEN N - 1 ELSE N) |-> <<s[k] + (IF c.tr THEN bump(k) ELSE 0),
                                                                                       r[k] + (IF c.tr THEN 0 ELSE bump(k))>>]
      [] c.op \in {"tt", "tr"} ->
            [k \in 1..N |-> <<r[k] + on("bound_first", k = 1) + on("closure_first", k = 1), s[k],
                              r[k + 1] + bump(k) + on("bound_last", k = N) + on("closure", k = N)>>]
      [] c.op = "ttm"    ->
            LET d == N \div 2 IN
            [k \in 1..d |-> <<r[k] + on("bound_first", k = 1), s[k], s[d + k],
                              r[k + 1] + bump(k) + on("bound_last", k = d)>>]
      [] c.op = "p2"     -> <<<<s[1], r[1]>>,
                              <<r[1], r[1] + on("bcols", TRUE)>>,
                              <<s[2], r[1] + on("ccols", TRUE)>>>>
PShapes(c) ==
    IF c.op # "p2" THEN <<>>
    ELSE LET all == [i \in 1..Len(c.lens) |->
                       IF c.bad = "pcols" /\ c.at = i
                       THEN (IF c.dl = 1 THEN <<c.lens[i] + 1, c.rank[1] + 1>> ELSE <<c.lens[i], c.rank[1] - 1>>)
                       ELSE <<c.lens[i], c.rank[1]>>]
         IN  IF c.bad = "nproj" THEN Tail(all) ELSE all
\* shape of the weight array: (R,) -- or one too long / short ("wlen"), or of the wrong ndim ("wshape", variant `at`)
WShapeOf(c) ==
    LET R == c.rank[1] IN
    IF ~c.hasw THEN <<>>
    ELSE IF c.bad = "wlen" THEN <<R + c.dl>>
    ELSE IF c.bad = "wshape" THEN (CASE c.at = 1 -> <<R, 1>> [] c.at = 2 -> <<R, R>> [] c.at = 3 -> <<R, 2>>
                                     [] c.at = 4 -> <<>> [] OTHER -> <<1, R>>)
    ELSE <<R>>
RotL(q) == IF Len(q) <= 1 THEN q ELSE Tail(q) \o <<Head(q)>>
BaseOf(c) ==
    IF c.bad # "none" THEN [c EXCEPT !.bad = "none", !.at = 0, !.dl = 0]        \* the unperturbed valid configuration
    ELSE LET N == Len(c.shape)  r == c.rank IN                                   \* other mode sizes, other ranks
         CASE c.op = "cp"     -> [c EXCEPT !.shape = RotL(c.shape), !.rank = <<(r[1] % MaxRank) + 1>>]
           [] c.op = "tucker" -> [c EXCEPT !.shape = RotL(c.shape), !.rank = RotL(r)]
           [] c.op = "tt"     -> [c EXCEPT !.shape = RotL(c.shape), !.rank = <<1>> \o RotL(SubSeq(r, 2, N)) \o <<1>>]
           [] c.op = "tr"     -> [c EXCEPT !.shape = RotL(c.shape), !.rank = RotL(SubSeq(r, 1, N)) \o <<r[2]>>]
           [] c.op = "ttm"    -> [c EXCEPT !.shape = RotL(c.shape)]
           [] c.op = "p2"     -> [c EXCEPT !.lens = RotL(c.lens)]
MixAt(c) == IF c.mix \in {"int_first", "f32_first", "cplx_first"} THEN 1 ELSE Len(FactorShapes(c))
RotHash(c) == SumSeq(c.shape) + 2 * SumSeq(c.rank) + c.at + c.dl + 1 + Len(c.shape) + (IF c.hasw THEN 1 ELSE 0)
PlainCfg(c) == c.bad = "none" /\ c.mix = "none" /\ c.mag = 0 /\ c.tmag = 0 /\ c.zero = "none" /\ ~c.late /\ c.pnear = 0
\* the exported configuration: the record above plus the array shapes the harness has to fill
Expand(c) ==
    [op |-> c.op, shape |-> c.shape, rank |-> c.rank, hasw |-> c.hasw, bad |-> c.bad, at |-> c.at, dl |-> c.dl,
     lens |-> c.lens,
     fshapes |-> FactorShapes(c),
     wshape |-> WShapeOf(c), wlen |-> IF c.hasw THEN Size(WShapeOf(c)) ELSE 0,
     skip |-> c.skip, tr |-> c.tr, modes |-> c.modes,
     \* with transposed factors the "core" is the tensor the factors project (mode sizes = the factors' row counts)
     coreshape |-> IF c.op = "tucker" THEN (IF c.tr THEN c.shape ELSE c.rank) ELSE <<>>,
     pshapes |-> PShapes(c),
     pden |-> IF c.bad = "nonorth_half" THEN 2 ELSE 1,
     mix |-> c.mix, late |-> c.late, mag |-> c.mag, tmag |-> c.tmag, zero |-> c.zero, pnear |-> c.pnear,
     \* HOW the functions are called and WHAT the arrays are -- never a change of the represented tensor.  Rotated over the
     \* configurations (no products): callform = "plain" (first argument positional, the others by keyword), "pos" (every
     \* argument positionally in the published order, booleans as NumPy bools) or "kw" (every argument by its published
     \* name, booleans as 0 / 1); alias = two equal-shaped factors are the SAME array object; vals = the zeros of one
     \* factor column are -0.0 ("negzero") or the smallest subnormal 5e-324 ("subnormal": contributes < 1e-300 to any entry)
     callform |-> <<"plain", "pos", "kw">>[(RotHash(c) % 3) + 1],
     alias |-> PlainCfg(c) /\ (RotHash(c) \div 3) % 2 = 0,
     vals |-> IF PlainCfg(c) THEN <<"plain", "negzero", "subnormal">>[((RotHash(c) \div 6) % 3) + 1] ELSE "plain",
     \* LATE: array shapes of the valid configuration the wrapper object is built from before its parts are replaced
     bfshapes |-> IF c.late THEN FactorShapes(BaseOf(c)) ELSE <<>>,
     bcoreshape |-> IF c.late /\ c.op = "tucker" THEN BaseOf(c).rank ELSE <<>>,
     bpshapes |-> IF c.late THEN PShapes(BaseOf(c)) ELSE <<>>,
     bwlen |-> IF c.late /\ c.hasw THEN BaseOf(c).rank[1] ELSE 0,
     \* storage type and denominator of every factor array, the position of the complex one (0: none),
     \* the denominator of the Tucker core, and the promoted type every view must come back in
     dtypes |-> [k \in 1..Len(FactorShapes(c)) |-> IF c.mix = "f32_all" \/ (c.mix # "none" /\ k = MixAt(c)) THEN MixType(c) ELSE "float64"],
     dens   |-> [k \in 1..Len(FactorShapes(c)) |-> IF c.mix \in {"none", "f32_all"} \/ (k = MixAt(c) /\ MixType(c) = "int64") THEN 1 ELSE 2],
     cden   |-> IF c.mix \notin {"none", "f32_all"} /\ c.op = "tucker" THEN 2 ELSE 1,
     alldtype |-> IF c.mix = "f32_all" THEN "float32" ELSE "float64",       \* weights, core, projections
     imk    |-> IF c.mix \in {"cplx_first", "cplx_last"} THEN MixAt(c) ELSE 0,
     outdtype |-> MixOut(c)]
\* which named class a perturbation belongs to ("none": valid, "other": no obligation)
ClassOfBad(c) ==
    CASE c.bad = "none" -> "none"
      [] c.bad \in {"fcols", "chain", "pcols", "bcols", "ccols", "wlen", "wshape"} -> "ranks"
      [] c.bad \in {"bound_first", "bound_last", "closure", "closure_first"} -> "boundary"
      [] c.bad \in NonOrthNames -> "orth"
      [] OTHER -> "other"

\* ---- spec-level generic values (only for the theorems below; the harness draws its own)
GenT(shape, salt) == [shape |-> shape,
                      data  |-> [n \in 1..Size(shape) |-> ((n * 3 + salt * 5 + ((n * n + salt) % 7)) % 5) - 2]]
GenW(R, salt) == [r \in 1..R |-> ((r * 2 + salt) % 5) - 2]
\* column-selection projection: column s has its single 1 in row (s + off) mod J  (orthonormal iff J >= R)
SelP(J, R, off) == Build(<<J, R>>, LAMBDA p : IF p[1] = (p[2] + off) % J THEN 1 ELSE 0)
GenPs(c) ==
    [i \in 1..Len(c.lens) |->
        LET J == c.lens[i]  R == c.rank[1]  P == SelP(J, R, i) IN
        IF c.at # i THEN P
        ELSE CASE c.bad = "pcols" -> (IF c.dl = 1 THEN SelP(J + 1, R + 1, i) ELSE SelP(J, R - 1, i))
               [] c.bad = "nonorth_double"  -> Build(<<J, R>>, LAMBDA p : E2(P, p[1], 0))                       \* Gram = all ones
               [] c.bad = "nonorth_scaled"  -> Build(<<J, R>>, LAMBDA p : 2 * E2(P, p[1], p[2]))                \* Gram = 4 I
               [] c.bad = "nonorth_skew"    -> Build(<<J, R>>, LAMBDA p : IF p[2] = 1 THEN E2(P, p[1], 0) + E2(P, p[1], 1) ELSE E2(P, p[1], p[2]))
               [] c.bad = "nonorth_zero"    -> Build(<<J, R>>, LAMBDA p : IF p[2] = 0 THEN 0 ELSE E2(P, p[1], p[2]))  \* Gram[0,0] = 0
               [] c.bad = "nonorth_allzero" -> Build(<<J, R>>, LAMBDA p : 0)                                     \* Gram = 0
               [] c.bad = "nonorth_negdup"  -> Build(<<J, R>>, LAMBDA p : IF p[2] = 1 THEN -E2(P, p[1], 0) ELSE E2(P, p[1], p[2]))  \* Gram[0,1] = -1
               [] c.bad = "nonorth_half"    -> P                                                                \* over pden = 2: Gram = I/4
               [] OTHER -> P]
GenIn(c) ==
    LET fsh == FactorShapes(c)
        fs  == [k \in 1..Len(fsh) |-> GenT(fsh[k], k)]
        R   == c.rank[1] IN
    CASE c.op = "cp"     -> [hasw |-> c.hasw, w |-> IF c.hasw THEN GenW(Size(WShapeOf(c)), 1) ELSE <<>>, wshape |-> WShapeOf(c), fs |-> fs]
      [] c.op = "tucker" -> [core |-> GenT(IF c.tr THEN c.shape ELSE c.rank, 9), fs |-> fs]
      [] c.op \in {"tt", "tr", "ttm"} -> [fs |-> fs]
      [] c.op = "p2"     -> [hasw |-> c.hasw, w |-> IF c.hasw THEN GenW(Size(WShapeOf(c)), 1) ELSE <<>>, wshape |-> WShapeOf(c), fs |-> fs,
                             ps |-> IF c.bad = "nproj" THEN Tail(GenPs(c)) ELSE GenPs(c),
                             pden |-> IF c.bad = "nonorth_half" THEN 2 ELSE 1]

\* ---------------------------------------------------------------------------- theorems about the spec
Rotate(s) == Tail(s) \o <<Head(s)>>
ClassOf(kind, in) ==
    IF Valid(kind, in) THEN "none"
    ELSE IF MismatchedRanks(kind, in) THEN "ranks"
    ELSE IF WrongBoundary(kind, in) THEN "boundary"
    ELSE IF NonOrthonormal(kind, in) THEN "orth" ELSE "other"

HasOpt(c) == c.skip # -1 \/ c.tr \/ c.modes # <<>>
OptBadOK(c) ==      \* invalid pair under options: rejected iff the perturbed factor is one that is applied
    LET in == GenIn(c) IN
    /\ c.op = "tucker" /\ c.bad = "fcols" /\ ~ValidTuckerOpt(in, c.skip, c.tr, c.modes)
    /\ (TuckerOptMismatch(in, c.skip, c.tr, c.modes) <=> c.at - 1 # c.skip)
OptCfgOK(c) ==      \* Tucker view options: ONE option-dependent dense tensor, cross-checked three ways
    LET in == GenIn(c)  D == TuckerDenseOpt(in, c.skip, c.tr, c.modes)  N == Len(in.core.shape) IN
    /\ c.op = "tucker" /\ c.bad = "none"
    /\ ValidTuckerOpt(in, c.skip, c.tr, c.modes)
    /\ IsTAny(D) /\ PosT(D)
    /\ TuckerSeqOpt(in, c.skip, c.tr, c.modes) = D                      \* = chain of mode products over the active factors
    \* leaving a factor out = applying the identity in its place
    /\ (c.skip # -1 =>
          LET j == c.skip + 1  n == OptIn(in.fs[j], c.tr) IN
          TuckerDenseOpt([in EXCEPT !.fs[j] = IdentityM(n)], -1, c.tr, c.modes) = D)
    \* transposing the factors by hand and not asking for it is the same thing
    /\ (c.tr => TuckerDenseOpt([in EXCEPT !.fs = [j \in 1..Len(in.fs) |-> TransposeM(in.fs[j])]], c.skip, FALSE, c.modes) = D)
    \* the default options give the plain Tucker tensor
    /\ (~c.tr /\ c.modes = <<>> => TuckerDenseOpt(in, -1, FALSE, <<>>) = TuckerDense(in))
    /\ \A m \in 0..(N - 1) : Norm2(Unfold(D, m)) = Norm2(D) /\ Len(Vec(D).data) = Size(D.shape)

AddT(X, Y) == [shape |-> X.shape, data |-> [n \in 1..Len(X.data) |-> X.data[n] + Y.data[n]]]
ScaleT(X, a) == [shape |-> X.shape, data |-> [n \in 1..Len(X.data) |-> a * X.data[n]]]
MixCfgOK(c) ==      \* multilinearity in the distinguished part: what makes numerators / real-imaginary parts exact
    LET in == GenIn(c)  kd == c.op  k == MixAt(c)
        Y  == GenT(in.fs[k].shape, 7)
        D  == Dense(kd, in) IN
    /\ c.bad = "none" /\ ~HasOpt(c) /\ Valid(kd, in) /\ k \in 1..Len(in.fs)
    \* the part k = X + Y  contracts to  Dense(X) + Dense(Y)            (complex part a + ib: Dense(a) + i Dense(b))
    /\ Dense(kd, [in EXCEPT !.fs[k] = AddT(in.fs[k], Y)]) = AddT(D, Dense(kd, [in EXCEPT !.fs[k] = Y]))            \* MixAdditive
    \* any part doubled contracts to twice the tensor                   (numerators over a denominator)
    /\ \A j \in 1..Len(in.fs) : Dense(kd, [in EXCEPT !.fs[j] = ScaleT(in.fs[j], 2)]) = ScaleT(D, 2)              \* MixHomogeneous
    /\ (kd = "tucker" => TuckerDense([in EXCEPT !.core = ScaleT(in.core, 2)]) = ScaleT(D, 2))

\* a scaling can be moved between the parts of one component without changing the represented tensor
ScaleCol(F, r, a) == Build(F.shape, LAMBDA p : IF p[2] = r THEN a * E2(F, p[1], p[2]) ELSE E2(F, p[1], p[2]))
MagMove(kd, in) ==
    LET a == 2  X == Dense(kd, [in EXCEPT !.fs[1] = IF kd \in {"cp", "p2", "tucker"} THEN ScaleCol(in.fs[1], 0, a) ELSE ScaleT(in.fs[1], a)]) IN
    CASE kd \in {"cp", "p2"} ->
            /\ X = Dense(kd, [in EXCEPT !.fs[3 - (IF kd = "p2" THEN 0 ELSE 1)] = ScaleCol(@, 0, a)])      \* another factor's column
            /\ (in.hasw => X = Dense(kd, [in EXCEPT !.w[1] = a * @]))                                       \* the weight
      [] kd = "tucker" ->
            X = TuckerDense([in EXCEPT !.core = Build(in.core.shape, LAMBDA g : IF g[1] = 0 THEN a * At(in.core, g) ELSE At(in.core, g))])
      [] OTHER -> Len(in.fs) = 1 \/ X = Dense(kd, [in EXCEPT !.fs[2] = ScaleT(@, a)])                       \* another core

OptMixOK(c) ==      \* Tucker options x complex factor: the option-dependent tensor is additive in the complex part
    LET in == GenIn(c)  k == MixAt(c)  Y == GenT(in.fs[k].shape, 7)
        D  == TuckerDenseOpt(in, c.skip, c.tr, c.modes) IN
    /\ ValidTuckerOpt(in, c.skip, c.tr, c.modes) /\ k \in 1..Len(in.fs)
    /\ (c.skip # k - 1 =>
          TuckerDenseOpt([in EXCEPT !.fs[k] = AddT(in.fs[k], Y)], c.skip, c.tr, c.modes)
             = AddT(D, TuckerDenseOpt([in EXCEPT !.fs[k] = Y], c.skip, c.tr, c.modes)))
    /\ TuckerSeqOpt(in, c.skip, c.tr, c.modes) = D
    \* a left-out factor does not contribute at all (in particular no imaginary part)
    /\ (c.skip = k - 1 => TuckerDenseOpt([in EXCEPT !.fs[k] = Y], c.skip, c.tr, c.modes) = D)

CfgOK(c) ==
    IF HasOpt(c) /\ c.bad # "none" THEN OptBadOK(c) ELSE
    IF c.mix # "none" /\ HasOpt(c) THEN OptMixOK(c) ELSE
    IF c.mix # "none" THEN MixCfgOK(c) ELSE
    IF HasOpt(c) THEN OptCfgOK(c) ELSE
    LET in == GenIn(c)  kd == c.op IN
    /\ ValidCfg(c)
    /\ (c.late => ValidCfg(BaseOf(c)) /\ Valid(kd, GenIn(BaseOf(c))))      \* the object is built from a valid configuration
    /\ (c.mag # 0 => c.bad = "none" /\ MagMove(kd, in))
    /\ (c.pnear # 0 => kd = "p2" /\ c.bad = "none"
            /\ P2Dense([in EXCEPT !.ps = [i \in 1..Len(in.ps) |-> ScaleT(in.ps[i], 2)]]) = ScaleT(P2Dense(in), 2))
    /\ (c.tmag # 0 => c.bad = "none" /\ Dense(kd, [in EXCEPT !.fs[1] = ScaleT(in.fs[1], 2)]) = ScaleT(Dense(kd, in), 2))
    /\ ClassOf(kd, in) = ClassOfBad(c)                  \* the perturbation table and the predicates agree
    /\ (ClassOfBad(c) \in {"ranks", "boundary", "orth"} <=> MustReject(kd, in))
    \* the non-orthonormal family really contains Gram deviations of both signs
    /\ (c.bad \in {"nonorth_double", "nonorth_scaled", "nonorth_skew"} =>
            \E t, u \in 0..(c.rank[1] - 1) : ColDot(in.ps[c.at], t, u) > (IF t = u THEN in.pden * in.pden ELSE 0))
    /\ (c.bad \in {"nonorth_zero", "nonorth_allzero", "nonorth_negdup", "nonorth_half"} =>
            /\ \A t, u \in 0..(c.rank[1] - 1) : ColDot(in.ps[c.at], t, u) <= (IF t = u THEN in.pden * in.pden ELSE 0)
            /\ \E t, u \in 0..(c.rank[1] - 1) : ColDot(in.ps[c.at], t, u) < (IF t = u THEN in.pden * in.pden ELSE 0))
    /\ (c.bad = "none" =>
          LET D == Dense(kd, in) IN
          /\ IsTAny(D)
          /\ \A m \in 0..(Len(D.shape) - 1) : Norm2(Unfold(D, m)) = Norm2(D)
          /\ CASE kd = "cp" ->
                    /\ D.shape = c.shape
                    /\ CPGramNorm2(in) = Norm2(D)                                      \* Gram shortcut
                    /\ \A m \in 0..(Len(c.shape) - 1) : CPUnfoldFormula(in, m) = Unfold(D, m)
                    /\ TuckerDense([core |-> DiagCore(in), fs |-> in.fs]) = D          \* CP = Tucker with diagonal core
               [] kd = "tucker" ->
                    /\ D.shape = c.shape
                    /\ TuckerSeq(in) = D                                               \* contraction = chain of mode products
               [] kd = "tt" ->
                    /\ D.shape = c.shape
                    /\ TRDense(in) = D                                                 \* TR with boundary rank 1 = TT
               [] kd = "tr" ->
                    /\ D.shape = c.shape
                    \* cyclicity of the trace: rotating the cores rotates the modes
                    /\ TRDense([fs |-> Rotate(in.fs)]) = Transpose(D, Rotate([k \in 1..Len(c.shape) |-> k]))
               [] kd = "ttm" ->
                    /\ D.shape = c.shape
                    \* = TT of the merged cores, un-merged (m1,n1,m2,n2,..) and transposed to (m.., n..)
                    /\ LET d  == Len(in.fs)
                           il == [k \in 1..(2 * d) |-> IF k % 2 = 1 THEN c.shape[(k + 1) \div 2] ELSE c.shape[d + k \div 2]]
                           pm == [k \in 1..(2 * d) |-> IF k <= d THEN 2 * k - 1 ELSE 2 * (k - d)] IN
                       Transpose(Reshape(TTDense(TTMMerged(in)), il), pm) = D
                    /\ Len(TTMMatrix(in).shape) = 2
               [] kd = "p2" ->
                    /\ D.shape = <<c.shape[1], FMax(Len(c.lens), LAMBDA i : c.lens[i]), c.shape[2]>>
                    /\ \A i \in 1..Len(in.ps) : \A j \in 0..(D.shape[2] - 1) : \A k \in 0..(D.shape[3] - 1) :
                          At(D, <<i - 1, j, k>>) = (IF j < c.lens[i] THEN At(P2Slice(in, i), <<j, k>>) ELSE 0)
                    \* with P_i = the first R columns of the identity it is a CP tensor with evolving factor [B; 0]
                    /\ LET idn == [in EXCEPT !.ps = [i \in 1..Len(in.ps) |-> SelP(c.lens[i], c.rank[1], 0)]]
                           Bp(J) == Build(<<J, c.rank[1]>>, LAMBDA p : IF p[1] < c.rank[1] THEN E2(in.fs[2], p[1], p[2]) ELSE 0)
                           J  == FMax(Len(c.lens), LAMBDA i : c.lens[i])
                           cp == CPDense([hasw |-> in.hasw, w |-> in.w, fs |-> <<in.fs[1], Bp(J), in.fs[3]>>]) IN
                       \A i \in 1..Len(in.ps) : \A j \in 0..(c.lens[i] - 1) : \A k \in 0..(c.shape[2] - 1) :
                          At(P2Dense(idn), <<i - 1, j, k>>) = At(cp, <<i - 1, j, k>>))

\* Design run: one initial state per (kind, shape); one successor per configuration.
VARIABLE cfg
NoCfg == [op |-> "none"]
Roots == {[op |-> "root", kind |-> kd, shape |-> s] : kd \in {"cp", "tucker", "tt", "tr"}, s \in Shapes}
         \cup {[op |-> "root", kind |-> "ttm", shape |-> s] : s \in EvenShapes}
         \cup {[op |-> "root", kind |-> "p2", shape |-> s] : s \in P2Roots}
Init == cfg \in Roots
Next == cfg.op = "root" /\ cfg' \in {Expand(c) : c \in {x \in CfgsOf(cfg) : ValidCfg(x)}}
Spec == Init /\ [][Next]_cfg
SpecOK == cfg.op # "root" => CfgOK(cfg)
=============================================================================
