-------------------------- MODULE SVDContractTrace --------------------------
(* C05 trace validation.  One event = one matrix with all the runs (method, n_eigenvecs, oversampling, *)
(* flip, non_negative, via) the harness executed on it through the real tensorly code.               *)
(*   exact tier   : e.cfg is a generalised permutation matrix of SVDContract's domain; the spectrum,  *)
(*                  the Eckart-Young tails and the rank are computed HERE from e.cfg, and the data    *)
(*                  the harness fed to tensorly (e.data) must be the matrix the spec means.           *)
(*   measured tier: e.cfg = [op |-> "measured", m, n, fam, rank]; e.spec_q / e.tail2_q were measured  *)
(*                  by an independent numpy.linalg.svd and are the contract's inputs.                 *)
(* Every run gets its own verdict (first failing clause); REJECT lines carry the run index.           *)
EXTENDS SVDContract, Json, IOUtils

Events == ndJsonDeserialize(IOEnv.TRACE_FILE)

VARIABLE i

MaxMeasuredDim == 16

MeasuredOK(e) ==      \* the measured facts are well-formed and mutually consistent
    LET c == e.cfg  mn == MinOf(c.m, c.n) IN
    /\ c.m \in 1..MaxMeasuredDim /\ c.n \in 1..MaxMeasuredDim /\ c.rank \in 0..mn
    /\ Len(e.spec_q) = mn /\ Len(e.tail2_q) = mn + 1
    /\ \A t \in 1..mn : e.spec_q[t] >= 0 /\ e.spec_q[t] <= 20 * Scale
    /\ \A t \in 1..(mn - 1) : e.spec_q[t] >= e.spec_q[t + 1]
    /\ e.tail2_q[mn + 1] = 0
    \* tail2[j] - tail2[j+1] = sigma_j^2 (checked at 1e-3 resolution of sigma to stay below 2^31)
    /\ \A t \in 1..mn : LET s == e.spec_q[t] \div 1000 IN
                         Abs((e.tail2_q[t] - e.tail2_q[t + 1]) - s * s) <= 2 * s + 4
    \* numerical rank as constructed = number of singular values above the quantum
    /\ Cardinality({t \in 1..mn : e.spec_q[t] > 0}) = c.rank

EventVerdict(e) ==    \* event-level clauses; "ok" means the runs can be judged
    IF e.cfg.op = "gperm" THEN
        IF ~ValidGperm(e.cfg) \/ e.zeros \notin ZeroForms THEN "InDomain"
        ELSE IF e.data # DataOf(e.cfg) THEN "InputMatrix"
        ELSE IF e.full /\ {OptKey(e.runs[r]) : r \in 1..Len(e.runs)} # AllOpts(e.cfg.m, e.cfg.n) THEN "Coverage"
        ELSE "ok"
    ELSE IF e.cfg.op = "measured" THEN
        IF ~MeasuredOK(e) \/ e.zeros # "pos" THEN "InDomain" ELSE "ok"
    ELSE "InDomain"

Facts(e) == IF e.cfg.op = "gperm" THEN ExactFacts(e.cfg)
            ELSE [spec |-> e.spec_q, tail2 |-> e.tail2_q, rank |-> e.cfg.rank]

TraceInit == i = 1 /\ cfg = NoCfg
TraceNext == /\ i <= Len(Events)
             /\ i' = i + 1 /\ UNCHANGED cfg
             /\ LET e  == Events[i]
                    ev == EventVerdict(e) IN
                  IF ev # "ok" THEN PrintT(<<"REJECT", e.id, ev, 0>>)
                  ELSE \A f \in {Facts(e)} :        \* bound by a quantifier: evaluated once per event
                       \A r \in 1..Len(e.runs) :
                          LET v == RunVerdict(e.cfg.m, e.cfg.n, f, e.runs[r]) IN
                            IF v = "ok" THEN TRUE ELSE PrintT(<<"REJECT", e.id, v, r>>)
TraceSpec == TraceInit /\ [][TraceNext]_<<i, cfg>>
TraceAccepted == TLCGet("stats").diameter - 1 = Len(Events)
=============================================================================
