------------------------------- MODULE P2ALSMC -------------------------------
EXTENDS P2ALS
B == BOOLEAN
MCP2(cap, ninner) == {[cap |-> cap, ls |-> l, tol |-> t, errors |-> e, ninner |-> ninner, maxfail |-> mf, accpow |-> ap] : l \in B, t \in B, e \in B, mf \in {1, 2}, ap \in {1, 2}}
\* as found, linesearch with tol falsy dies at iteration 6: the guarded set leaves that combination out, the witness is exactly it
Guardable(c) == ~(c.ls /\ ~c.tol /\ c.cap > 6)
P2All == {c \in MCP2(3, 2) \cup MCP2(0, 1) \cup MCP2(9, 1) \cup MCP2(8, 2) : Guardable(c)}
P2Long == {c \in MCP2(13, 1) : c.ls /\ c.tol /\ c.errors}
P2CrashLine == {[cap |-> 8, ls |-> TRUE, tol |-> FALSE, errors |-> FALSE, ninner |-> 1, maxfail |-> 2, accpow |-> 2]}
=============================================================================
