SPECIFICATION TraceSpec
CONSTANTS
  Deviations = {}
  MaxCap = 12
  Order = 3
  Prop = "C14"
POSTCONDITION TraceAccepted
CHECK_DEADLOCK FALSE
