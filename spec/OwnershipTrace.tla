--------------------------- MODULE OwnershipTrace ---------------------------
(* C15 trace validation.  One ndjson file holds many traces (field tr); a trace is a short       *)
(* sequence of calls of one registry case that share their argument objects:                     *)
(*   {"ev":"Call",  "tr","id","entry","opt","decl":[path..],"slots":[{"p":path,"k":kind,"d":n}]} *)
(*   {"ev":"Return"|"Raise", "tr","id","slots":[{"p":path,"d":n,"h":n}]}                         *)
(*   {"ev":"Forms", "tr","id","forms":[..]}   all argument forms exercised by a full run            *)
(* Call events carry "forms": the forms (Ownership!ArgForms) in which modes / per-mode options are  *)
(* spelled in that call.                                                                            *)
(* d = digest of what the caller's graph reaches at p (-1: nothing any more), h = digest of the  *)
(* object the caller originally passed at p; digests are interned integers, only = is used.      *)
(* The verdict of an exit event is the set of obliged slots whose digest differs, each with the  *)
(* mechanism; TLC prints one <<"REJECT", id, mechanism, slot index>> per slot and goes on.         *)
(* Event ids are short ("e17") so that TLC prints each tuple on one line.                          *)
EXTENDS Ownership, Json, IOUtils, SequencesExt

Events == ndJsonDeserialize(IOEnv.TRACE_FILE)

VARIABLES i, tr
tvars == <<vars, i, tr>>

Fields(e) == DOMAIN e
Paths(slots) == {slots[j].p : j \in DOMAIN slots}
FnOf(slots, f) == [p \in Paths(slots) |-> slots[CHOOSE j \in DOMAIN slots : slots[j].p = p][f]]
NoDupPaths(slots) == Cardinality(Paths(slots)) = Len(slots)
IsPath(p) == p \in Seq(STRING) /\ Len(p) >= 2

WellFormedCall(e) ==
    /\ {"id", "tr", "entry", "opt", "decl", "forms", "slots"} \subseteq Fields(e)
    /\ \A j \in DOMAIN e.slots : {"p", "k", "d"} \subseteq DOMAIN e.slots[j] /\ Len(e.slots[j].p) >= 2
    /\ NoDupPaths(e.slots)
WellFormedExit(e) ==
    /\ {"id", "tr", "slots", "exc", "expect", "forms"} \subseteq Fields(e)
    /\ \A j \in DOMAIN e.slots : {"p", "d", "h"} \subseteq DOMAIN e.slots[j]
    /\ NoDupPaths(e.slots)

SeqToSet(s) == {s[j] : j \in DOMAIN s}

\* verdict of a Call event
CallVerdict(e) ==
    IF ~WellFormedCall(e) THEN "Malformed"
    ELSE IF pc = "in" /\ e.tr = tr THEN "Malformed"                      \* call inside a call
    ELSE IF SeqToSet(e.decl) # Exempt(e.entry, e.opt) THEN "ExemptDeclMismatch"
    ELSE IF ~(SeqToSet(e.forms) \subseteq ArgForms) THEN "UnknownArgForm"
    ELSE IF e.tr = tr /\ \E p \in Paths(e.slots) \cap DOMAIN snap : FnOf(e.slots, "d")[p] # snap[p]
         THEN "PreDiffersFromLastPost"      \* the shared objects changed between two calls
    ELSE "ok"

CallFormRefused(e) ==
    /\ e.ev = "Raise" /\ e.exc = "TypeError" /\ e.expect = "return"
    /\ SeqToSet(e.forms) \cap {"call:positional", "call:keyword"} # {}

ExitWellPlaced(e) == WellFormedExit(e) /\ pc = "in" /\ e.tr = tr /\ Paths(e.slots) = DOMAIN snap

\* indices (into e.slots) of the obliged slots whose digest differs, via the design operator Changed
ChangedIdx(e) ==
    LET post == FnOf(e.slots, "d")
        held == FnOf(e.slots, "h")
        ch   == Changed(snap, cur, post, held) IN
    {j \in DOMAIN e.slots : e.slots[j].p \in ch}

MechanismAt(e, j) == Mechanism(snap, FnOf(e.slots, "d"), FnOf(e.slots, "h"), e.slots[j].p)

TraceInit == /\ i = 1 /\ tr = "none"
             /\ snap = <<>> /\ orig = <<>> /\ pc = "idle" /\ cur = NoCall /\ everExempt = {}

TraceNext ==
    /\ i <= Len(Events)
    /\ i' = i + 1
    /\ LET e == Events[i] IN
       IF "ev" \notin Fields(e) \/ "id" \notin Fields(e) THEN
            /\ PrintT(<<"REJECT", "?", "Malformed">>) /\ UNCHANGED <<vars, tr>>
       ELSE IF e.ev = "Call" THEN
            LET v == CallVerdict(e) IN
            /\ IF v = "ok" THEN TRUE ELSE PrintT(<<"REJECT", e.id, v>>)
            /\ IF v = "Malformed" THEN UNCHANGED <<vars, tr>>
               ELSE /\ tr' = e.tr
                    /\ snap' = FnOf(e.slots, "d")
                    /\ orig' = IF e.tr = tr THEN orig ELSE FnOf(e.slots, "d")
                    /\ pc' = "in" /\ cur' = [entry |-> e.entry, opt |-> e.opt]
                    /\ everExempt' = (IF e.tr = tr THEN everExempt ELSE {})
                                      \cup {p \in Paths(e.slots) : ~Obliged([entry |-> e.entry, opt |-> e.opt], p)}
       ELSE IF e.ev \in {"Return", "Raise"} THEN
            IF ~ExitWellPlaced(e) THEN
                /\ PrintT(<<"REJECT", e.id, "Malformed">>) /\ UNCHANGED <<vars, tr>>
            ELSE LET ch == ChangedIdx(e) IN
                \* guard on the frozen signature table (not part of the ownership obligation): a call that hands the
                \* arguments over in the published order / by the published names is not refused with a TypeError
                /\ IF CallFormRefused(e) THEN PrintT(<<"REJECT", e.id, "PublishedCallFormRefused">>) ELSE TRUE
                \* one short line per changed slot (TLC wraps long tuples): <<"REJECT", id, mechanism, slot index>>
                /\ \A j \in ch : PrintT(<<"REJECT", e.id, MechanismAt(e, j), j>>)
                /\ snap' = FnOf(e.slots, "d")          \* resynchronise: later calls are judged on what they got
                /\ pc' = "idle" /\ cur' = NoCall
                /\ UNCHANGED <<orig, everExempt, tr>>
       ELSE IF e.ev = "Forms" THEN          \* closing event of a full run: every declared argument form was exercised
            /\ IF "forms" \in Fields(e) /\ SeqToSet(e.forms) = ArgForms THEN TRUE
               ELSE PrintT(<<"REJECT", e.id, "ArgFormNotExercised">>)
            /\ UNCHANGED <<vars, tr>>
       ELSE /\ PrintT(<<"REJECT", e.id, "Malformed">>) /\ UNCHANGED <<vars, tr>>

TraceSpec == TraceInit /\ [][TraceNext]_tvars
TraceAccepted == TLCGet("stats").diameter - 1 = Len(Events)
=============================================================================
