----------------------------- MODULE SVDDecomp -----------------------------
(* C09: what the SVD-based decompositions promise, as arithmetic on the spectra of the unfoldings.   *)
(*                                                                                                  *)
(*   tucker (HOSVD-initialised HOOI), tensor_train (TT-SVD), tensor_train_matrix (TT-SVD of the      *)
(*   interleaved tensor), tensor_ring (TR-SVD from a starting mode).                                 *)
(*                                                                                                  *)
(* Inputs of the contract: the tensor shape, the requested rank vector (and starting mode), and for *)
(* every unfolding j that the algorithm truncates the *tail function*                               *)
(*       Tail(j, r) = sum of the squared singular values of unfolding j beyond the r-th.            *)
(* Outputs judged: raised or not, the ranks of the returned decomposition, err^2 = ||X - rec||^2.   *)
(*       max_j Tail(j, r_j)  <=  err^2  <=  sum_j Tail(j, r_j)          (Tucker, TT, TT-matrix)     *)
(* and err^2 = 0 (to rounding) when every tail in the sum is empty.  Textbook sources: De Lathauwer  *)
(* et al. 2000 (HOSVD), Oseledets 2011 Thm 2.2 (TT-SVD); a TT / Tucker format of ranks r_j has       *)
(* unfolding ranks <= r_j, hence the lower bound (Eckart-Young).  For the tensor ring the same two   *)
(* arguments give (r_0 = boundary rank, unfoldings taken from the starting mode):                    *)
(*       max_j Tail(j, r_0 r_j) <= err^2 <= Tail(1, r_0 r_1) + sum_{j>=2} Tail(j, r_j div r_0).      *)
(*                                                                                                  *)
(* Exact tier: "matching" tensors -- integer tensors whose non-zeros sit at index tuples pairwise    *)
(* different in EVERY coordinate.  Theorem MatchingOK (TLC): every unfolding of such a tensor, by    *)
(* any split of the modes, has at most one non-zero per row and per column, so (SVDContract,         *)
(* GramDiagonal) all unfoldings have the same spectrum: the magnitudes, sorted.  Tails are then      *)
(* integers this module computes itself.  Measured tier: tails are measured by numpy.linalg.svd of   *)
(* the unfoldings and are inputs.                                                                    *)
(* Shapes and index tuples are sequences; indices are 0-based; modes are 0-based in configurations.  *)
EXTENDS Integers, Sequences, FiniteSets, TLC

CONSTANTS ShapeSet,      \* shapes of the exact tier (set of sequences)
          MaxTTRank,     \* TT ranks run from 1 to min(max unfolding rank + 1, MaxTTRank)
          MaxTRRank      \* TR ranks run from 1 to MaxTRRank (order <= 4) / 2 (order 5)

MinOf(a, b) == IF a <= b THEN a ELSE b
MaxOf(a, b) == IF a >= b THEN a ELSE b
Abs(x) == IF x < 0 THEN -x ELSE x

RECURSIVE Prod(_)
Prod(s) == IF s = <<>> THEN 1 ELSE Head(s) * Prod(Tail(s))
SeqSet(s) == {s[t] : t \in 1..Len(s)}
Injective(s) == Cardinality(SeqSet(s)) = Len(s)
RotL(s, m) == [j \in 1..Len(s) |-> s[((j - 1 + m) % Len(s)) + 1]]      \* s[m], s[m+1], ... (0-based m)

RECURSIVE SeqMax(_)
SeqMax(s) == IF s = <<>> THEN 0 ELSE MaxOf(Head(s), SeqMax(Tail(s)))
RECURSIVE SeqSum(_)
SeqSum(s) == IF s = <<>> THEN 0 ELSE Head(s) + SeqSum(Tail(s))

Scale == 1000000           \* exact tier: err^2 and tails as rint(x * 10^6) (absolute)
RelScale == 100000000      \* measured tier: relative to ||X||^2, rint(x * 10^8)
\* slack of the inequalities in exchange quanta: each of the J logged tails is rounded by <= 1/2
Slack(J) == J + 2

\* dtype of the array handed to the decomposition.  The contract (ranks, bounds) does not depend on it;
\* integer dtypes are only meaningful for integer-valued tensors (all matching tensors, the "integer"
\* family of the measured tier).  err^2 is always measured in float64 against the float64 tensor.
Dtypes == {"float64", "float32", "int64", "int32"}
IntegerFams == {"integer"}
\* float32: the reconstruction carries a relative perturbation delta of a few 2^-24 per entry, which moves
\* err^2 / ||X||^2 by 2 <X - rec, delta> / ||X||^2 + O(1e-13).  The rounding noise is nearly orthogonal to
\* the residual; measured over 1 345 dense calls the shift was <= 4 quanta (4e-8).  Slack32 = 2e-7.
Slack32 == 20
SlackFor(J, dtype) == IF dtype = "float32" THEN Slack32 ELSE Slack(J)

\* How the rank is specified and which call path is used.  The documented forms:
\*   "list" / "tuple" / "npint" (list with numpy integer entries): the rank vector itself;
\*   "int"   : one integer, "the same rank for all modes / factors" (TT: boundary ranks stay 1);
\*   "none"  : tucker(rank=None) "preserves the original size" (rank vector = shape);
\*   "same" / "float": the routine computes a parameter-preserving rank itself.  Its arithmetic (roots,
\*             rounding) is not part of this contract: exactness is not obliged, but the RETURNED ranks must be
\*             well formed (boundary conditions, realisable) and the bounds hold with respect to them.
\* Call paths: the function, the class wrapper (Tucker / TensorTrain / TensorTrainMatrix / TensorRing
\* .fit_transform), and the class wrapper fitted a second time after a fit on another tensor (an estimator
\* carries no state from one fit to the next: the second result is judged like a fresh call).
RankSpecs == {"list", "tuple", "npint", "ndarray", "int", "none", "same", "float"}
\* spelling of tensor_ring's `mode` ("index of the first factor to compute"): a Python int, a NumPy integer
\* (what np.argmax(shape) returns), or the negative index of the same mode.
ModeSpecs == {"int", "np64", "np32", "npintp", "neg"}
\* Forms the documentation does not list (rank as an ndarray, a negative mode): refusing them with a
\* ValueError / TypeError is fine; if the call is accepted it is judged like the documented spelling.
Lenient(rs, ms) == rs = "ndarray" \/ ms = "neg"
Computed(rs) == rs \in {"same", "float"}
Vias == {"function", "class", "refit", "fit"}       \* "fit": est.fit(tensor).decomposition_ (the estimators' other public method)
\* Ways of making the same call (they rotate over the configurations; the contract does not depend on them):
\*   cform    "mixed" | "pos" (every published parameter positionally, published order) | "kw" (all by published name);
\*            the published signatures are frozen in the harness (SIGNATURES)
\*   retry    the call is repeated with the same objects / estimator after a call that failed half-way
\*            (unknown SVD name) was caught
\*   ret_err  tucker(return_errors=True): "(tensor, errors)" is returned, the tensor is judged
\*   svd_default  the default SVD is requested by leaving `svd` out
\*   zeros    the exact zeros of a float tensor as +0.0 | -0.0 | the smallest subnormal
CallForms == {"mixed", "pos", "kw"}
ZeroForms == {"pos", "neg", "sub"}
ValidHow(e) ==
    /\ e.cform \in CallForms /\ e.retry \in BOOLEAN /\ e.ret_err \in BOOLEAN /\ e.svd_default \in BOOLEAN /\ e.zeros \in ZeroForms
    /\ (e.ret_err => e.cfg.op = "tucker") /\ (e.svd_default => e.svd = "truncated_svd" /\ e.cform # "pos")
Fractions == {25, 50, 100}        \* float rank specifications, in percent

UniformRank(c) ==        \* the rank vector an integer specification stands for
    CASE c.op = "tucker" -> \A k \in 1..Len(c.rank) : c.rank[k] = c.rank[1]
      [] c.op = "tr" -> \A k \in 1..Len(c.rank) : c.rank[k] = c.rank[1]
      [] OTHER -> /\ c.rank[1] = 1 /\ c.rank[Len(c.rank)] = 1 /\ Len(c.rank) >= 3
                  /\ \A k \in 2..(Len(c.rank) - 1) : c.rank[k] = c.rank[2]

ValidRankSpec(c, rs, frac) ==
    /\ rs \in RankSpecs
    /\ (rs = "int" => UniformRank(c))
    /\ (rs = "none" => c.op = "tucker" /\ c.rank = c.shape)
    /\ (rs = "float" => frac \in Fractions) /\ (rs # "float" => frac = 0)

\* magnitude regime: the tensor handed to the routine is X * 2^pow2 (an exact scaling in binary floating
\* point); the contract is scale invariant, err^2 is divided by 4^pow2 (exactly) before it is logged.
\* 2^66 ~ 7e19, 2^400 ~ 2.6e120.  Only float64 can hold these.
Pow2s == {-650, -530, -400, -66, 0, 66, 400, 650}     \* 2^-530 ~ 2.8e-160: squares are denormal, not yet zero
\* 2^650 ~ 4.7e195: squares of the entries are not representable (overflow / underflow), the values themselves
\* are.  symeig_svd is DEFINED through the Gram matrix A^T A, so it is obliged only while that is representable.
Pow2OK(svd, pow2) == svd = "symeig_svd" => (pow2 >= -400 /\ pow2 <= 400)

\* "reproduce the input to rounding error": relative error ||X - rec|| / ||X||, exchanged as rint(x * 10^12)
\* (capped).  The admissible rounding error follows the precision class of the INPUT (integers and float64
\* are decomposed in double precision), never the dtype of what came back.
\*   double: 1e-10  (observed on the unchanged tree <= 1e-14 for LAPACK, <= ~1e-12 through the Gram matrix)
\*   single: 1e-4   (c * 2^-24 with c of the order of the condition numbers met here)
ExactRelTol(dtype) == IF dtype = "float32" THEN 100000000 ELSE 100

\* No combination is left out of the domain.  (Two were, until repaired: F-05d symeig_svd clipped the Gram eigenvalues
\* at machine eps in ABSOLUTE terms -- wrong for magnitudes << 1e-8 and >> 1 --, F-05e randomized_range_finder drew its
\* Gaussian test matrix in the dtype of the input -- truncated to integers for integer arrays; see known_findings.json.)
KnownBadCombination(svd, dtype, pow2) == FALSE

Algs == {"tucker", "tt", "ttm", "tr"}
Svds == {"truncated_svd", "symeig_svd", "randomized_svd"}
Iters == {0, 1, 50}        \* n_iter_max of HOOI (0 = the HOSVD initialisation itself)

\* ------------------------------------------------------------------ rank arithmetic (documented)
\* tucker: "size of the core tensor"; a mode has only d_k singular vectors
ExpTucker(shape, rank) == [k \in 1..Len(shape) |-> MinOf(rank[k], shape[k])]

\* tensor_train / validate_tt_rank: "maximum allowable TT rank", realisable through iterative SVD:
\* r_k = min(r_{k-1} d_k, prod(d_{k+1..N}), rank[k]); boundary ranks must be 1
ExpTT(shape, rank) ==
    LET N == Len(shape)
        E[k \in 0..N] == IF k = 0 \/ k = N THEN 1
                         ELSE MinOf(MinOf(E[k - 1] * shape[k], Prod(SubSeq(shape, k + 1, N))), rank[k + 1])
    IN  [k \in 1..(N + 1) |-> E[k - 1]]
TTRaises(shape, rank) == Len(rank) # Len(shape) + 1 \/ rank[1] # 1 \/ rank[Len(rank)] # 1

\* tensor_train_matrix: TT-SVD of the tensor with input / output modes interleaved and merged
Merged(shape) == LET n == Len(shape) \div 2 IN [k \in 1..n |-> shape[k] * shape[n + k]]

\* tensor_ring(mode): factors are computed starting from `mode`; rank[k] is the rank of the k-th factor,
\* so the ranks travel with their factors.  First unfolding truncated to r_mode * r_{mode+1} -- a request
\* larger than min(dims of that unfolding) must raise; later ranks are clipped like TT ranks (the working
\* matrix carries the boundary rank on its column side).
TRRot(rank, mode) == LET N == Len(rank) - 1 IN [j \in 1..N |-> rank[((j - 1 + mode) % N) + 1]]
\* documented: the first factor holds r_mode * r_{mode+1} singular vectors of the (d_mode x rest) unfolding,
\* which has only min(d_mode, rest) of them -- on BOTH sides
TRFeasible(shape, rank, mode) ==
    LET D == RotL(shape, mode)  R == TRRot(rank, mode) IN R[1] * R[2] <= MinOf(D[1], Prod(Tail(D)))
TRRaises(shape, rank, mode) ==
    \/ Len(rank) # Len(shape) + 1
    \/ rank[1] # rank[Len(rank)]
    \/ ~TRFeasible(shape, rank, mode)
ExpTRRot(shape, rank, mode) ==       \* in rotated order, E[1] = boundary rank of the first computed factor
    LET D == RotL(shape, mode)  R == TRRot(rank, mode)  N == Len(shape)
        E[j \in 0..(N - 1)] == IF j = 0 THEN R[1] ELSE IF j = 1 THEN R[2]
                               ELSE MinOf(MinOf(E[j - 1] * D[j], Prod(SubSeq(D, j + 1, N)) * R[1]), R[j + 1])
    IN  [j \in 1..N |-> E[j - 1]]
ExpTR(shape, rank, mode) ==          \* in the order of the returned TRTensor.rank
    LET N == Len(shape)  E == ExpTRRot(shape, rank, mode) IN
    [i \in 1..(N + 1) |-> E[((((i - 1) % N) - mode + N) % N) + 1]]

\* configuration of one decomposition call
\*   c = [op, shape, rank, mode]      (mode = 0 unless op = "tr")
Raises(c) == CASE c.op = "tucker" -> FALSE
               [] c.op = "tt" -> TTRaises(c.shape, c.rank)
               [] c.op = "ttm" -> Len(c.shape) > 2 /\ TTRaises(Merged(c.shape), c.rank)   \* one factor: rank unused
               [] c.op = "tr" -> TRRaises(c.shape, c.rank, c.mode)

ExpRanks(c) == CASE c.op = "tucker" -> ExpTucker(c.shape, c.rank)
                 [] c.op = "tt" -> ExpTT(c.shape, c.rank)
                 [] c.op = "ttm" -> IF Len(c.shape) = 2 THEN <<1, 1>> ELSE ExpTT(Merged(c.shape), c.rank)
                 [] c.op = "tr" -> ExpTR(c.shape, c.rank, c.mode)

\* number of unfoldings whose tails enter the bounds, and their (rows, cols)
NUnf(c) == CASE c.op = "tucker" -> Len(c.shape)
             [] c.op = "ttm" -> Len(c.shape) \div 2 - 1
             [] OTHER -> Len(c.shape) - 1
UnfDims(c, j) ==
    CASE c.op = "tucker" -> <<c.shape[j], Prod(c.shape) \div c.shape[j]>>
      [] c.op = "tt" -> <<Prod(SubSeq(c.shape, 1, j)), Prod(SubSeq(c.shape, j + 1, Len(c.shape)))>>
      [] c.op = "ttm" -> LET s == Merged(c.shape) IN <<Prod(SubSeq(s, 1, j)), Prod(SubSeq(s, j + 1, Len(s)))>>
      [] c.op = "tr" -> LET s == RotL(c.shape, c.mode) IN <<Prod(SubSeq(s, 1, j)), Prod(SubSeq(s, j + 1, Len(s)))>>

\* tails: sequence over unfoldings of sequences, tails[j][r + 1] = Tail(j, r); beyond the end the tail is empty
TailAt(tails, j, r) == IF r + 1 > Len(tails[j]) THEN 0 ELSE tails[j][r + 1]

\* ranks at which the lower / upper bound reads the tails of unfolding j
LowerRank(c, j) == CASE c.op = "tucker" -> ExpTucker(c.shape, c.rank)[j]
                     [] c.op = "tt" -> ExpTT(c.shape, c.rank)[j + 1]
                     [] c.op = "ttm" -> ExpTT(Merged(c.shape), c.rank)[j + 1]
                     [] c.op = "tr" -> LET E == ExpTRRot(c.shape, c.rank, c.mode) IN E[1] * E[j + 1]
UpperRank(c, j) == CASE c.op = "tr" -> LET E == ExpTRRot(c.shape, c.rank, c.mode) IN
                                        IF j = 1 THEN E[1] * E[2] ELSE E[j + 1] \div E[1]
                     [] OTHER -> LowerRank(c, j)

LowerBound(c, tails) == SeqMax([j \in 1..NUnf(c) |-> TailAt(tails, j, LowerRank(c, j))])
UpperBound(c, tails) == SeqSum([j \in 1..NUnf(c) |-> TailAt(tails, j, UpperRank(c, j))])

\* the requested ranks cover the full size of every unfolding: nothing can be discarded, whatever the data
StructurallyFull(c) == \A j \in 1..NUnf(c) : UpperRank(c, j) >= MinOf(UnfDims(c, j)[1], UnfDims(c, j)[2])

\* randomized_svd (default oversampling 5) is an exact method only when k + 5 covers the rank of every
\* matrix it is applied to; rkbound = a bound on those ranks (number of non-zeros of a matching tensor)
RandCovered(c, rkbound) ==
    \A j \in 1..NUnf(c) : UpperRank(c, j) + 5 >= MinOf(rkbound, MinOf(UnfDims(c, j)[1], UnfDims(c, j)[2]))

\* ------------------------------------------------------------------ structural validity of a configuration
ValidCfg(c) ==
    /\ c.op \in Algs
    /\ Len(c.shape) \in 2..5 /\ \A k \in 1..Len(c.shape) : c.shape[k] \in 1..16
    /\ \A k \in 1..Len(c.rank) : c.rank[k] \in 1..30
    /\ c.mode \in 0..(Len(c.shape) - 1) /\ (c.op # "tr" => c.mode = 0)
    /\ CASE c.op = "tucker" -> Len(c.rank) = Len(c.shape)
         [] c.op = "tt" -> Len(c.rank) = Len(c.shape) + 1
         [] c.op = "ttm" -> (Len(c.shape) % 2) = 0 /\ Len(c.rank) = Len(c.shape) \div 2 + 1
         [] c.op = "tr" -> Len(c.rank) = Len(c.shape) + 1

\* ------------------------------------------------------------------ matching tensors (exact tier)
\* t = [op |-> "matching", shape, idx, vals]: entry idx[q] (a 0-based index tuple) = vals[q]
MagMenus == { <<3>>, <<5, 2>>, <<2, 2>>, <<5, 3, 2>>, <<3, 3, 1>>, <<5, 3, 2, 1>>, <<5, 2, 2, 1>> }

RECURSIVE SortDesc(_)
SortDesc(s) ==
    IF s = <<>> THEN <<>>
    ELSE LET t == CHOOSE a \in 1..Len(s) : \A b \in 1..Len(s) : s[a] >= s[b]
         IN  <<s[t]>> \o SortDesc([u \in 1..(Len(s) - 1) |-> IF u < t THEN s[u] ELSE s[u + 1]])

Mags(t) == SortDesc([q \in 1..Len(t.vals) |-> Abs(t.vals[q])])

ValidMatching(t) ==
    /\ Len(t.shape) \in 2..5 /\ \A k \in 1..Len(t.shape) : t.shape[k] \in 1..16
    /\ Len(t.idx) \in 1..4 /\ Len(t.vals) = Len(t.idx)
    /\ \A q \in 1..Len(t.idx) : /\ Len(t.idx[q]) = Len(t.shape)
                                 /\ \A k \in 1..Len(t.shape) : t.idx[q][k] \in 0..(t.shape[k] - 1)
    /\ \A k \in 1..Len(t.shape) : Injective([q \in 1..Len(t.idx) |-> t.idx[q][k]])   \* pairwise different in every coordinate
    /\ \A q \in 1..(Len(t.idx) - 1) : t.idx[q][1] < t.idx[q + 1][1]                    \* canonical listing
    /\ Mags(t) \in MagMenus

\* row-major data
Lin(shape, ix) == LET F[k \in 0..Len(shape)] == IF k = 0 THEN 0 ELSE F[k - 1] * shape[k] + ix[k] IN F[Len(shape)]
DataOf(t) == LET pos == [q \in 1..Len(t.idx) |-> Lin(t.shape, t.idx[q]) + 1] IN
             [p \in 1..Prod(t.shape) |-> IF \E q \in 1..Len(pos) : pos[q] = p
                                         THEN t.vals[CHOOSE q \in 1..Len(pos) : pos[q] = p] ELSE 0]

\* tails of a spectrum d (sorted magnitudes): one sequence r = 0..Len(d)
SpecTails(d) == LET F[r \in 0..Len(d)] == IF r = Len(d) THEN 0 ELSE F[r + 1] + d[r + 1] * d[r + 1]
                IN  [r \in 1..(Len(d) + 1) |-> F[r - 1]]
\* every unfolding of a matching tensor has the same tails (theorem MatchingOK)
ExactTails(c, t) == [j \in 1..NUnf(c) |-> [r \in 1..(Len(t.vals) + 1) |-> SpecTails(Mags(t))[r] * Scale]]

\* ------------------------------------------------------------------ graded spectra (rotated matching tensors)
\* t = [op |-> "rotated", shape, idx, vals, exps]: the matching tensor with entries vals[q] * 2^exps[q] at idx[q],
\* multiplied along every mode by an orthogonal matrix (drawn by the harness).  Orthogonal mode products leave
\* the singular values of EVERY unfolding unchanged, so the spectra are still the magnitudes -- now spread
\* over levels 1, 2^-20 (~1e-6), 2^-30 (~1e-9) -- and the tensor is dense (its Gram matrices are not diagonal).
\* Squared quantities are kept as one integer coefficient per level:  v = sum_l v[l] * 4^l.
Levels == <<0, -20, -30>>                 \* descending
LevelSet == {Levels[k] : k \in 1..Len(Levels)}

ValidRotated(t) ==
    /\ ValidMatching([shape |-> t.shape, idx |-> t.idx, vals |-> t.vals])
    /\ Len(t.exps) = Len(t.vals) /\ \A q \in 1..Len(t.exps) : t.exps[q] \in LevelSet
    /\ \E q \in 1..Len(t.exps) : t.exps[q] = 0

\* the spectrum as pairs <<mantissa, level>>, largest first (levels are >= 2^10 apart, mantissas <= 5)
RECURSIVE SortPairs(_)
SortPairs(S) == IF S = {} THEN <<>>
                ELSE LET x == CHOOSE a \in S : \A b \in S : a[3] > b[3] \/ (a[3] = b[3] /\ (a[2] > b[2] \/ (a[2] = b[2] /\ a[1] <= b[1])))
                     IN  <<x>> \o SortPairs(S \ {x})
GradedSpectrum(t) == LET P == SortPairs({<<q, Abs(t.vals[q]), t.exps[q]>> : q \in 1..Len(t.vals)})
                     IN  [k \in 1..Len(P) |-> <<P[k][2], P[k][3]>>]

\* symeig_svd is DEFINED through the Gram matrix, which squares the condition number: a singular direction
\* s_k is resolved with an error of eps * s_1 / s_k relative to ||X|| (1e-10 already at the level 2^-20, lost
\* below sqrt(eps) ~ 1.5e-8).  That method is obliged on ungraded spectra only.
GradedOK(svd, t) == svd = "symeig_svd" => \A q \in 1..Len(t.exps) : t.exps[q] = 0

ZeroVec == [l \in LevelSet |-> 0]
\* Tail(r) of a graded spectrum d, per level
TailVec(d, r) == [l \in LevelSet |->
                   LET F[k \in 0..Len(d)] == IF k = 0 THEN 0
                                              ELSE F[k - 1] + (IF k > r /\ d[k][2] = l THEN d[k][1] * d[k][1] ELSE 0)
                   IN  F[Len(d)]]
AddVec(v, w) == [l \in LevelSet |-> v[l] + w[l]]
MinLowerRank(c) == LET m[j \in 0..NUnf(c)] == IF j = 0 THEN 1000 ELSE MinOf(m[j - 1], LowerRank(c, j)) IN m[NUnf(c)]
\* all unfoldings share the spectrum: the largest single tail is the tail at the smallest rank
LowerVec(c, d) == IF NUnf(c) = 0 THEN ZeroVec ELSE TailVec(d, MinLowerRank(c))
UpperVec(c, d) == LET S[j \in 0..NUnf(c)] == IF j = 0 THEN ZeroVec ELSE AddVec(S[j - 1], TailVec(d, UpperRank(c, j))) IN S[NUnf(c)]
IsZeroVec(v) == \A l \in LevelSet : v[l] = 0
LeadLevel(v) == CHOOSE l \in LevelSet : v[l] # 0 /\ \A m \in LevelSet : v[m] # 0 => m <= l        \* only for non-zero v
\* v expressed in units of 4^L / Scale (levels above L must be empty, levels 2^20 or more below contribute nothing)
Pow4Gap(g) == IF g = 0 THEN 1 ELSE IF g = 10 THEN 1048576 ELSE 0
AtLevel(v, L) == LET ls == Levels
                     F[k \in 0..Len(ls)] == IF k = 0 THEN 0
                         ELSE F[k - 1] + (IF ls[k] > L \/ Pow4Gap(L - ls[k]) = 0 THEN 0 ELSE (v[ls[k]] * Scale) \div Pow4Gap(L - ls[k]))
                 IN  F[Len(ls)]
LevelIndex(L) == CHOOSE k \in 1..Len(Levels) : Levels[k] = L
\* "at most the bound" holds for the error, i.e. up to the rounding error tau = 1e-13 ||X|| of double precision:
\* err^2 <= B + 2 sqrt(B) tau + tau^2.  Relative to a bound at level 2^l that is 2 tau / 2^l: nothing at level 0,
\* < 1e-5 at 2^-20, < 1e-2 at 2^-30 (||X|| <= 10).  (A level 2^-40 would drown in it and is not used.)
RelSlackDiv(L) == IF L = 0 THEN 0 ELSE IF L = -20 THEN 100000 ELSE 100
LevelSlack(J, b, L) == J + 5 + (IF RelSlackDiv(L) = 0 THEN 0 ELSE b \div RelSlackDiv(L))

\* shapes of the graded tier: a short first mode in front of a long tail (first unfolding >= 32 x wider than
\* tall, more rows than non-zeros), in every position for the ring, and a tensorised matrix of that kind
GradedShapes == { <<3, 6, 6, 4>>, <<6, 3, 6, 4>>, <<4, 4, 4, 8>>, <<3, 8, 8>>, <<2, 12, 2, 12>>, <<3, 4, 3, 2, 2>> }

\* ------------------------------------------------------------------ theorems about the specification
\* (1) matching => every unfolding (any split of the modes into rows | columns) is a generalised
\*     permutation matrix: the sub-tuples on either side are pairwise different
MatchingOK(t) ==
    /\ ValidMatching(t)
    /\ \A S \in (SUBSET (1..Len(t.shape))) \ {{}} :
          \A q1, q2 \in 1..Len(t.idx) : q1 # q2 => \E k \in S : t.idx[q1][k] # t.idx[q2][k]
    /\ SpecTails(Mags(t))[1] = SeqSum([q \in 1..Len(t.vals) |-> t.vals[q] * t.vals[q]])     \* Tail(., 0) = ||X||^2
    /\ \A r \in 1..Len(t.vals) : SpecTails(Mags(t))[r] >= SpecTails(Mags(t))[r + 1]
    /\ Cardinality({p \in 1..Prod(t.shape) : DataOf(t)[p] # 0}) = Len(t.vals)

\* (2) for every configuration and every menu spectrum: the bounds are consistent with what sequential
\*     best-rank truncation does on a matching tensor (each step keeps the largest surviving entries, so
\*     exactly the Kept(c) largest magnitudes survive), and sufficient ranks make the upper bound vanish
Kept(c) == CASE c.op = "tr" -> LET E == ExpTRRot(c.shape, c.rank, c.mode)
                                   m[j \in 1..Len(E)] == IF j = 1 THEN 1000 ELSE IF j = 2 THEN E[1] * E[2] ELSE MinOf(m[j - 1], E[j])
                               IN  m[Len(E)]
             [] OTHER -> LET m[j \in 0..NUnf(c)] == IF j = 0 THEN 1000 ELSE MinOf(m[j - 1], LowerRank(c, j)) IN m[NUnf(c)]

CfgOK(c) ==
    /\ ValidCfg(c)
    /\ ~Raises(c) =>
        /\ \A k \in 1..Len(ExpRanks(c)) : ExpRanks(c)[k] >= 1
        /\ (c.op \in {"tucker", "tt"} \/ (c.op = "ttm" /\ Len(c.shape) > 2) => \A k \in 1..Len(c.rank) : ExpRanks(c)[k] <= c.rank[k])   \* advertised ranks respected
        /\ (c.op = "tr" => /\ ExpRanks(c)[1] = ExpRanks(c)[Len(c.rank)]
                           /\ \A k \in 1..Len(c.rank) : ExpRanks(c)[k] <= c.rank[k])
        /\ \A j \in 1..NUnf(c) : /\ UpperRank(c, j) <= LowerRank(c, j)
                                 /\ (c.op \in {"tt", "ttm"} => LowerRank(c, j) <= MinOf(UnfDims(c, j)[1], UnfDims(c, j)[2]))
        /\ \A d \in MagMenus :
              LET tails == [j \in 1..NUnf(c) |-> SpecTails(d)]
                  model == IF NUnf(c) = 0 THEN 0 ELSE TailAt(tails, 1, Kept(c))
              IN  /\ LowerBound(c, tails) <= model /\ model <= UpperBound(c, tails)
                  /\ (UpperBound(c, tails) = 0 => LowerBound(c, tails) = 0)
                  \* ranks that cover the rank of every unfolding (= Len(d)) leave nothing to discard
                  /\ ((\A j \in 1..NUnf(c) : UpperRank(c, j) >= Len(d)) => UpperBound(c, tails) = 0)
    /\ (c.op = "tr" /\ c.rank[1] = 1 /\ c.mode = 0 /\ ~Raises(c) =>           \* a ring with boundary rank 1 is a train
           ExpTR(c.shape, c.rank, 0) = ExpTT(c.shape, c.rank))

\* ------------------------------------------------------------------ the domain, enumerated as states
\* index tuples of p non-zeros, pairwise different in every coordinate, first coordinate increasing;
\* built coordinate by coordinate (a filter over all functions would be astronomically large)
RECURSIVE InjSeqs(_, _)
InjSeqs(p, n) == IF p = 0 THEN {<<>>}                             \* injective sequences of length p over 0..n-1
                 ELSE UNION {{Append(s, x) : x \in (0..(n - 1)) \ SeqSet(s)} : s \in InjSeqs(p - 1, n)}
IncSeqs(p, n) == {s \in InjSeqs(p, n) : \A q \in 1..(p - 1) : s[q] < s[q + 1]}
RECURSIVE Coords(_, _, _)
Coords(shape, p, k) ==        \* set of sequences (one per mode k..N) of per-mode coordinate sequences
    IF k > Len(shape) THEN {<<>>}
    ELSE {<<a>> \o rest : a \in (IF k = 1 THEN IncSeqs(p, shape[k]) ELSE InjSeqs(p, shape[k])), rest \in Coords(shape, p, k + 1)}
IdxSets(shape, p) == {[q \in 1..p |-> [k \in 1..Len(shape) |-> cs[k][q]]] : cs \in Coords(shape, p, 1)}

\* values along the listing: a menu (largest first) or its reverse, with three sign patterns -- the
\* spectra, which is all this contract reads, do not depend on the signs
SignPatterns(p) == {[q \in 1..p |-> 1], [q \in 1..p |-> -1], [q \in 1..p |-> IF (q % 2) = 1 THEN -1 ELSE 1]}
SignedVals(p) == {[q \in 1..p |-> sg[q] * (IF rev THEN d[p + 1 - q] ELSE d[q])] :
                     d \in {x \in MagMenus : Len(x) = p}, sg \in SignPatterns(p), rev \in BOOLEAN}

MinDim(shape) == LET m[k \in 1..Len(shape)] == IF k = 1 THEN shape[1] ELSE MinOf(m[k - 1], shape[k]) IN m[Len(shape)]

TTRankVecs(shape) ==
    LET N == Len(shape)
        cap(k) == MinOf(MinOf(Prod(SubSeq(shape, 1, k)), Prod(SubSeq(shape, k + 1, N))) + 1, MaxTTRank)
    IN  {<<1>> \o r \o <<1>> : r \in {x \in [1..(N - 1) -> 1..MaxTTRank] : \A k \in 1..(N - 1) : x[k] <= cap(k)}}
        \cup {<<2>> \o [k \in 1..(N - 1) |-> 1] \o <<1>>, <<1>> \o [k \in 1..(N - 1) |-> 2] \o <<2>>}   \* bad boundary: must raise

\* rank lists around the feasibility boundary of the first SVD, on both sides, for every starting mode m:
\* r_m * r_{m+1} in {lo, lo + 1, hi, hi + 1} (as 1 x t, t x 1) and {lo, lo + 2, hi, hi + 2} (as 2 x t/2), where
\* lo / hi = the smaller / larger side of the first unfolding -- feasible iff the product is <= lo.  On
\* unbalanced shapes (one mode longer than the product of the others) lo is the COLUMN side.
TRBoundaryVecs(shape) ==
    LET N == Len(shape)
        Mk(m, x, y) == LET r == [k \in 1..N |-> IF k = m + 1 THEN x ELSE IF k = ((m + 1) % N) + 1 THEN y ELSE 2]
                       IN  r \o <<r[1]>>
    IN  UNION {
          LET D == RotL(shape, m)
              lo == MinOf(D[1], Prod(Tail(D)))
              hi == MaxOf(D[1], Prod(Tail(D)))
              T1 == {t \in {lo, lo + 1, hi, hi + 1} : t <= 30}          \* (rank entries of the domain stay <= 30)
          IN  {Mk(m, 1, t) : t \in T1} \cup {Mk(m, t, 1) : t \in T1}
              \cup {Mk(m, 2, t \div 2) : t \in {u \in {lo, lo + 2, hi, hi + 2} : (u % 2) = 0 /\ u >= 2 /\ u <= 60}}
          : m \in 0..(N - 1)}

TRRankVecs(shape) ==
    LET N == Len(shape)  top == IF N = 5 THEN 2 ELSE MaxTRRank IN
    {r \o <<r[1]>> : r \in [1..N -> 1..top]} \cup {[k \in 1..N |-> 1] \o <<2>>}                     \* last one: must raise
    \cup TRBoundaryVecs(shape)

AlgCfgs(shape) ==
    LET N == Len(shape) IN
         {[op |-> "tucker", shape |-> shape, rank |-> r, mode |-> 0] : r \in {x \in [1..N -> 1..7] : \A k \in 1..N : x[k] <= shape[k] + 1}}
    \cup {[op |-> "tt", shape |-> shape, rank |-> r, mode |-> 0] : r \in TTRankVecs(shape)}
    \cup (IF (N % 2) = 0 THEN {[op |-> "ttm", shape |-> shape, rank |-> r, mode |-> 0] :
                                r \in (IF N = 2 THEN {<<1, 1>>} ELSE TTRankVecs(Merged(shape)))} ELSE {})
    \cup {[op |-> "tr", shape |-> shape, rank |-> r, mode |-> m] : r \in TRRankVecs(shape), m \in 0..(N - 1)}

AlgCfgsG(shape) ==        \* rank configurations of the graded tier (smaller rank ranges)
    LET N == Len(shape) IN
         {[op |-> "tucker", shape |-> shape, rank |-> r, mode |-> 0] : r \in [1..N -> 1..3]}
    \cup {[op |-> "tt", shape |-> shape, rank |-> r, mode |-> 0] : r \in TTRankVecs(shape)}
    \cup (IF (N % 2) = 0 THEN {[op |-> "ttm", shape |-> shape, rank |-> r, mode |-> 0] : r \in TTRankVecs(Merged(shape))} ELSE {})
    \cup {[op |-> "tr", shape |-> shape, rank |-> r \o <<r[1]>>, mode |-> m] : r \in [1..N -> 1..2], m \in 0..(N - 1)}
    \cup {[op |-> "tr", shape |-> shape, rank |-> <<1>> \o [k \in 1..(N - 1) |-> 3] \o <<1>>, mode |-> m] : m \in 0..(N - 1)}

\* graded spectra on which the consistency of the level arithmetic is checked
GradedMenus == { << <<5, 0>>, <<3, -20>> >>, << <<3, 0>>, <<2, -30>> >>, << <<5, 0>>, <<3, -20>>, <<2, -30>> >>,
                 << <<2, 0>>, <<2, 0>>, <<1, -30>> >>, << <<5, 0>>, <<3, 0>>, <<2, -20>>, <<1, -30>> >> }
GradedCfgOK(c) ==
    /\ CfgOK(c)
    /\ ~Raises(c) => \A d \in GradedMenus :
          LET lo == LowerVec(c, d)  up == UpperVec(c, d)
              model == IF NUnf(c) = 0 THEN ZeroVec ELSE TailVec(d, Kept(c)) IN
          /\ \A l \in LevelSet : lo[l] <= model[l] /\ model[l] <= up[l]            \* level by level
          /\ (IsZeroVec(up) => IsZeroVec(lo))
          /\ (~IsZeroVec(up) => /\ AtLevel(up, LeadLevel(up)) >= up[LeadLevel(up)] * Scale
                                 /\ AtLevel(up, LeadLevel(up)) <= (up[LeadLevel(up)] + 1) * Scale)
          /\ ((\A j \in 1..NUnf(c) : UpperRank(c, j) >= Len(d)) => IsZeroVec(up))

VARIABLE cfg
NoCfg == [op |-> "none"]
Init == \/ cfg \in {[op |-> "shapeT", shape |-> s] : s \in ShapeSet}      \* -> matching tensors of that shape
        \/ cfg \in {[op |-> "shapeC", shape |-> s] : s \in ShapeSet}      \* -> rank configurations of that shape
        \/ cfg \in {[op |-> "shapeG", shape |-> s] : s \in GradedShapes}  \* -> rank configurations of the graded tier
        \/ cfg = [op |-> "options", svds |-> Svds, iters |-> Iters, dtypes |-> Dtypes, rankspecs |-> RankSpecs, pow2s |-> Pow2s,
                 vias |-> Vias, fractions |-> Fractions]
Next == \/ /\ cfg.op = "shapeT"
           /\ cfg' \in {[op |-> "place", shape |-> cfg.shape, idx |-> ix] :
                           ix \in UNION {IdxSets(cfg.shape, p) : p \in 1..MinOf(4, MinDim(cfg.shape))}}
        \/ /\ cfg.op = "place"
           /\ cfg' \in {[op |-> "matching", shape |-> cfg.shape, idx |-> cfg.idx, vals |-> v] : v \in SignedVals(Len(cfg.idx))}
        \/ /\ cfg.op = "shapeC"
           /\ cfg' \in AlgCfgs(cfg.shape)
        \/ /\ cfg.op = "shapeG"
           /\ cfg' \in AlgCfgsG(cfg.shape)
Spec == Init /\ [][Next]_cfg
SpecOK == /\ cfg.op = "matching" => MatchingOK(cfg)
          /\ cfg.op \in Algs => (IF cfg.shape \in GradedShapes THEN GradedCfgOK(cfg) ELSE CfgOK(cfg))
=============================================================================
