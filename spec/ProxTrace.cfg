SPECIFICATION TraceSpec
CONSTANTS
  MaxN = 4
  Box = 2
  FneN = 0
  BoxN = 0
  SvdCompSize = 0
POSTCONDITION TraceAccepted
CHECK_DEADLOCK FALSE
