SPECIFICATION Spec
CONSTANTS
  Orders = {3, 4}
  WideOrders = {3, 4}
  SecondKeyOrders = "ends"
  SoftOrders = {3, 4}
INVARIANT SpecOK
