------------------------------- MODULE Matching -------------------------------
(* C20: factor-similarity metrics.  Documented semantics, written from the docstrings / the      *)
(* textbook definitions, not from the implementation:                                            *)
(*   congruence_coefficient(A, B, abs) = max over column matchings pi of                          *)
(*        mean_i  prod_modes  cos(A_m[:, i], B_m[:, pi(i)])      (|cos| when abs)                 *)
(*     together with a pi attaining it; B[:, pi] is then aligned with A;                          *)
(*   correlation_index (Sobhani et al.) of column-normalised X1, X2 with C = |X1^H X2| :          *)
(*        ( sum_i |max_j C_ij - 1| + sum_j |max_i C_ij - 1| ) / (2R);                              *)
(*   cp_permute_factors(ref, t) = (t with every factor and the weights indexed by pi, pi);        *)
(*   MSE / RMSE / covariance / variance / Pearson & reflective correlation / R2 (the uncentred    *)
(*   "fit" 1 - |P - O|^2 / |O|^2 that tensorly's tests pin down) as exact rationals;              *)
(*   leverage scores of a matrix with mutually orthogonal (possibly repeated, rescaled) columns.  *)
(* The optimal matching is found by brute force over Permutations(1..R).                          *)
(*                                                                                                *)
(* Exact family: columns are integer multiples of vectors with integer norm in {1,3,5}, so every  *)
(* cosine is k/225; a product over <= 3 modes is an integer over 225^3 and sums stay < 2^31.      *)
EXTENDS Tens, TLC

CONSTANTS MaxR,          \* largest rank (number of columns)
          FullPermR,     \* all R! column permutations are enumerated for R <= FullPermR, the 2R dihedral ones above
          GenDraws,      \* random draws per generic configuration
          MetricDraws,   \* random integer data draws per error-metric configuration
          LevDraws,      \* random draws per leverage-score configuration
          LevMaxCols     \* columns of the exact leverage-score matrices: all index sequences up to this length (<= 4)

AbsI(x) == IF x < 0 THEN -x ELSE x
SgnI(x) == IF x < 0 THEN -1 ELSE IF x > 0 THEN 1 ELSE 0
MaxOfSet(S) == CHOOSE x \in S : \A y \in S : y <= x
MinOfSet(S) == CHOOSE x \in S : \A y \in S : x <= y
RECURSIVE Pow(_, _)
Pow(b, n) == IF n = 0 THEN 1 ELSE b * Pow(b, n - 1)
IsIntSeq(s, n) == DOMAIN s = 1..n /\ \A k \in 1..n : s[k] \in Int
IdPerm(R) == [i \in 1..R |-> i]
InvPerm(p) == [i \in 1..Len(p) |-> CHOOSE j \in 1..Len(p) : p[j] = i]
Compose(p, r) == [i \in 1..Len(r) |-> p[r[i]]]

\* floor(|n| * 10^digits / d) with the sign of n, by long division (d > 0, 10 * d < 2^31)
RatQ(n, d, digits) ==
    LET a == AbsI(n)
        F[k \in 0..digits] == IF k = 0 THEN <<a \div d, a % d>>
                              ELSE <<F[k - 1][1] * 10 + (F[k - 1][2] * 10) \div d, (F[k - 1][2] * 10) % d>>
    IN  SgnI(n) * F[digits][1]

\* (a * b) / 10^6 for numbers quantised at scale 10^6, |a|, |b| <= 4 * 10^7, without leaving 32 bits;
\* truncation error < 3 units
MulQ6(a, b) ==
    LET x == AbsI(a)  y == AbsI(b)
        x1 == x \div 1000  x0 == x % 1000  y1 == y \div 1000  y0 == y % 1000
    IN  SgnI(a) * SgnI(b) * (x1 * y1 + (x1 * y0 + x0 * y1) \div 1000 + (x0 * y0) \div 1000000)
SqQ6(a) == MulQ6(a, a)

-----------------------------------------------------------------------------
(* Optimal assignment by brute force.  W: R x R integer matrix (sequence of rows).               *)
AssignSum(W, p) == SumSeq([i \in 1..Len(W) |-> W[i][p[i]]])
BestSum(W) == MaxOfSet({AssignSum(W, p) : p \in Permutations(1..Len(W))})
BestAssignments(W) == UNION {{p \in Permutations(1..Len(W)) : AssignSum(W, p) = b} : b \in {BestSum(W)}}

-----------------------------------------------------------------------------
(* Matrices are sequences of rows.  Exact cosines scaled by L.                                   *)
L == 225
NRows(Mx) == Len(Mx)
NCols(Mx) == Len(Mx[1])
Col(Mx, j) == [i \in 1..Len(Mx) |-> Mx[i][j]]
Dot(u, v) == SumSeq([k \in 1..Len(u) |-> u[k] * v[k]])
IsSquare(n) == \E k \in 0..64 : k * k = n
ISqrt(n) == CHOOSE k \in 0..64 : k * k = n
CosExact(u, v) == IsSquare(Dot(u, u)) /\ IsSquare(Dot(v, v)) /\ Dot(u, u) > 0 /\ Dot(v, v) > 0
                  /\ (Dot(u, v) * L) % (ISqrt(Dot(u, u)) * ISqrt(Dot(v, v))) = 0
CosL(u, v) == (Dot(u, v) * L) \div (ISqrt(Dot(u, u)) * ISqrt(Dot(v, v)))
Collinear(u, v) == Dot(u, v) * Dot(u, v) = Dot(u, u) * Dot(v, v)      \* Cauchy-Schwarz with equality

\* per-mode cosine matrix (abs or signed), and the product over modes
CosMat(Am, Bm, abs) ==
    [i \in 1..NCols(Am) |-> [j \in 1..NCols(Bm) |->
        LET c == CosL(Col(Am, i), Col(Bm, j)) IN IF abs THEN AbsI(c) ELSE c]]
RECURSIVE ProdOver(_, _, _, _)
ProdOver(Cs, i, j, m) == IF m = 0 THEN 1 ELSE Cs[m][i][j] * ProdOver(Cs, i, j, m - 1)
CongL(As, Bs, abs) ==
    LET Cs == [m \in 1..Len(As) |-> CosMat(As[m], Bs[m], abs)]
        R  == NCols(As[1])
    IN  [i \in 1..R |-> [j \in 1..R |-> ProdOver(Cs, i, j, Len(As))]]

\* correlation index numerator over a cosine matrix C with entries in 0..one:  score = num / (2 R one)
CorrNum(C, one) ==
    LET R == Len(C) IN
      SumSeq([i \in 1..R |-> AbsI(MaxOfSet({C[i][j] : j \in 1..R}) - one)])
    + SumSeq([j \in 1..R |-> AbsI(MaxOfSet({C[i][j] : i \in 1..R}) - one)])
\* every column of X is collinear with some column of Y and vice versa  (<=> correlation index 0)
CoverBoth(X, Y) ==
    /\ \A i \in 1..NCols(X) : \E j \in 1..NCols(Y) : Collinear(Col(X, i), Col(Y, j))
    /\ \A j \in 1..NCols(Y) : \E i \in 1..NCols(X) : Collinear(Col(X, i), Col(Y, j))
RECURSIVE StackRows(_, _)
StackRows(Ms, m) == IF m = 0 THEN <<>> ELSE StackRows(Ms, m - 1) \o Ms[m]      \* vertical concatenation

-----------------------------------------------------------------------------
(* The exact family.                                                                              *)
Pool2 == << <<1,0>>, <<0,1>>, <<3,4>>, <<4,3>>, <<-4,3>>, <<-3,4>> >>
Pool3 == << <<1,0,0>>, <<0,1,0>>, <<0,0,1>>, <<1,2,2>>, <<2,-2,1>>, <<2,1,-2>>, <<3,4,0>>, <<0,3,4>>, <<4,0,-3>> >>
ModePool(m) == IF m = 2 THEN Pool2 ELSE Pool3
\* pool index of column r of mode m in base set k (k \in {0, 1}); mode-1 columns of one base set are pairwise
\* non-collinear (so the recovering permutation is unique) and no matching aligns base 0 with base 1
BaseIdx(k, m, r) == CASE m = 1 -> (((r - 1) + 4 * k) % 9) + 1
                      [] m = 2 -> (((r - 1) + 2 * k) % 6) + 1
                      [] m = 3 -> ((2 * (r - 1) + 3 * k) % 9) + 1
\* positive scaling of the reference set (exercises the normalisation of matrix1)
RefScale(m, i) == IF (i + m) % 3 = 0 THEN 2 ELSE 1
\* scale patterns of the second set: 0 none, 1 sign flips, 2 mode-dependent scalings, 3 one scalar per component
Scale(s, m, r) == CASE s = 0 -> 1
                    [] s = 1 -> IF (r + m) % 2 = 0 THEN -1 ELSE 1
                    [] s = 2 -> <<2, -1, 3, -2, 1, -3>>[((r + m - 2) % 6) + 1]
                    [] s = 3 -> <<-2, 3, -1, 2, -3, 1>>[((r - 1) % 6) + 1]
\* patterns 4..7 add a floating-point magnitude 10^MagExp to every column of the second set (applied by the harness;
\* cosines, hence everything below, do not depend on it).  Their integer part is pattern IntScale(s).
\*   4: every column 1e-5      5: one magnitude per component (1e-3, 1e3, 1e-5, 1e-9, 1e5, 1e-3), same in every mode
\*   6: magnitudes differ between modes and components (1e-8 .. 1e5)      7: first component 1e-80, second 1e80, the others 1 (column scales 160 orders apart)
\* patterns 8, 9: COMPLEX factor sets (correlation_index conjugates; congruence_coefficient / cp_permute_factors are
\* real-only and not driven).  Row k of mode m of BOTH sets is multiplied by the unit RowPhase(m, k), column j of the
\* second set by the Gaussian integer ColZ(s, m, j) (8: one per component, made unit-modulus by the harness; 9: differs
\* between modes, applied as is).  |<a, b>| / (|a| |b|) is unchanged (ThComplex), so the real cosine matrices apply.
IntScale(s) == CASE s <= 3 -> s [] s \in {4, 5, 8} -> 3 [] OTHER -> 1
MagExp(s, m, j) == CASE s <= 3 \/ s >= 8 -> 0
                     [] s = 4 -> -5
                     [] s = 5 -> <<-3, 3, -5, -9, 5, -3>>[((j - 1) % 6) + 1]
                     [] s = 6 -> <<-3, 3, -5>>[m] + <<0, -2, 1, 0, -3, 2>>[((j - 1) % 6) + 1]
                     [] s = 7 -> IF j = 1 THEN -80 ELSE IF j = 2 THEN 80 ELSE 0
MagModeIndependent(s) == s \notin {6, 9}     \* one scalar per stacked column: the stacked correlation index is invariant
Magnified(s) == s \in 4..7
Complex(s) == s >= 8
ZTable == << <<0, 1>>, <<-1, 0>>, <<1, 2>>, <<0, -1>>, <<2, -1>>, <<3, 4>> >>
ColZ(s, m, j) == CASE s = 8 -> ZTable[((j - 1) % 6) + 1] [] s = 9 -> ZTable[((j + m - 1) % 6) + 1] [] OTHER -> <<1, 0>>
RowPhase(m, k) == << <<1, 0>>, <<0, 1>>, <<-1, 0>>, <<0, -1>> >>[((k + m - 1) % 4) + 1]
\* Gaussian integers <<re, im>>
CMul(x, y) == <<x[1] * y[1] - x[2] * y[2], x[1] * y[2] + x[2] * y[1]>>
CConj(x) == <<x[1], -x[2]>>
CAbs2(x) == x[1] * x[1] + x[2] * x[2]
CScale(z, v) == [k \in 1..Len(v) |-> <<z[1] * v[k], z[2] * v[k]>>]             \* z * (real vector)
CPhase(m, cv) == [k \in 1..Len(cv) |-> CMul(RowPhase(m, k), cv[k])]
CHerm(a, b) == LET F[k \in 0..Len(a)] == IF k = 0 THEN <<0, 0>>
                                          ELSE LET t == CMul(CConj(a[k]), b[k]) IN <<F[k - 1][1] + t[1], F[k - 1][2] + t[2]>>
               IN  F[Len(a)]
UniformScale(s) == IntScale(s) \in {0, 3}
ScaleVec(a, v) == [k \in 1..Len(v) |-> a * v[k]]
FromCols(cols) == [i \in 1..Len(cols[1]) |-> [j \in 1..Len(cols) |-> cols[j][i]]]
RefCol(k, m, i) == ScaleVec(RefScale(m, i), ModePool(m)[BaseIdx(k, m, i)])
FacA(R, M, a) == [m \in 1..M |-> FromCols([i \in 1..R |-> RefCol(a, m, i)])]
\* B[:, j] = Scale(s, m, j) * (column p[j] of the reference-scaled base set b)
FacB(R, M, b, p, s) == [m \in 1..M |-> FromCols([j \in 1..R |-> ScaleVec(Scale(s, m, j), RefCol(b, m, p[j]))])]
WeightsB(R) == [j \in 1..R |-> 10 + j]

\* column permutations of the exact family
Dihedral(R) == {[j \in 1..R |-> ((j - 1 + k) % R) + 1] : k \in 0..(R - 1)}
               \cup {[j \in 1..R |-> ((R - j + k) % R) + 1] : k \in 0..(R - 1)}
ExactPerms(R) == IF R <= FullPermR THEN Permutations(1..R) ELSE Dihedral(R)
ExactCfg(R, M, a, b, p, s) ==
    [kind |-> "exact", R |-> R, M |-> M, a |-> a, b |-> b, p |-> p, s |-> s,
     A |-> FacA(R, M, a), B |-> FacB(R, M, b, p, IntScale(s)), w |-> WeightsB(R),
     mag |-> [m \in 1..M |-> [j \in 1..R |-> MagExp(s, m, j)]],
     cz  |-> [m \in 1..M |-> [j \in 1..R |-> ColZ(s, m, j)]],
     rph |-> [m \in 1..M |-> [k \in 1..Len(ModePool(m)[1]) |-> IF Complex(s) THEN RowPhase(m, k) ELSE <<1, 0>>]]]
ValidExact(c) ==
    /\ c.R \in 1..MaxR /\ c.M \in 1..3 /\ c.a \in {0, 1} /\ c.b \in {0, 1} /\ c.s \in 0..9
    /\ DOMAIN c.p = 1..c.R /\ IsPerm(c.p, c.R) /\ c.p \in ExactPerms(c.R)
    /\ c = ExactCfg(c.R, c.M, c.a, c.b, c.p, c.s)

\* ---- exact zeros.  A cosine with a zero column is undefined: the documented behaviour of correlation_index
\* ("Column norms must be non-zero"), congruence_coefficient ("Columns of all matrices should have nonzero l2 norm")
\* and hence cp_permute_factors is a ValueError -- for exactly the matrices that get normalised: the stacked matrix for
\* method "stacked", every mode for the other methods and for the congruence.  A zero ROW is harmless.
\*   z = "onemode": component R of the second set is zero in mode M only;  "allmodes": in every mode;
\*   z = "row": a zero row is appended to mode M of both sets (cosines unchanged).
HasZeroCol(Mx) == \E j \in 1..NCols(Mx) : \A i \in 1..NRows(Mx) : Mx[i][j] = 0
ZeroOutCol(Mx, j0) == [i \in 1..NRows(Mx) |-> [j \in 1..NCols(Mx) |-> IF j = j0 THEN 0 ELSE Mx[i][j]]]
AppendZeroRow(Mx) == [i \in 1..(NRows(Mx) + 1) |-> IF i <= NRows(Mx) THEN Mx[i] ELSE [j \in 1..NCols(Mx) |-> 0]]
ZeroKinds == {"onemode", "allmodes", "row"}
ZeroA(R, M, z) == [m \in 1..M |-> IF z = "row" /\ m = M THEN AppendZeroRow(FacA(R, M, 0)[m]) ELSE FacA(R, M, 0)[m]]
ZeroB(R, M, b, p, z) ==
    [m \in 1..M |-> LET B0 == FacB(R, M, b, p, 0)[m] IN
        CASE z = "row"      -> IF m = M THEN AppendZeroRow(B0) ELSE B0
          [] z = "onemode"  -> IF m = M THEN ZeroOutCol(B0, R) ELSE B0
          [] z = "allmodes" -> ZeroOutCol(B0, R)]
ZeroCfg(R, M, b, p, z) ==
    [kind |-> "zeros", R |-> R, M |-> M, a |-> 0, b |-> b, p |-> p, s |-> 0, z |-> z,
     A |-> ZeroA(R, M, z), B |-> ZeroB(R, M, b, p, z), w |-> WeightsB(R)]
ValidZeros(c) == /\ c.R \in 1..3 /\ c.M \in 1..3 /\ c.b \in {0, 1} /\ c.z \in ZeroKinds
                 /\ DOMAIN c.p = 1..c.R /\ IsPerm(c.p, c.R)
                 /\ c = ZeroCfg(c.R, c.M, c.b, c.p, c.z)
\* which calls must be rejected
MustRejectStacked(c) == HasZeroCol(StackRows(c.B, c.M))
MustRejectPerMode(c) == \E m \in 1..c.M : HasZeroCol(c.B[m])
ZerosOK(c) ==
    /\ \A m \in 1..c.M : ~HasZeroCol(c.A[m])
    /\ (c.z = "row" => /\ ~MustRejectPerMode(c) /\ ~MustRejectStacked(c)
                        /\ CongL(c.A, c.B, FALSE) = CongL(FacA(c.R, c.M, 0), FacB(c.R, c.M, c.b, c.p, 0), FALSE))
    /\ (c.z = "allmodes" => MustRejectPerMode(c) /\ MustRejectStacked(c))
    /\ (c.z = "onemode" => MustRejectPerMode(c) /\ (MustRejectStacked(c) = (c.M = 1)))

\* ---- near ties.  The columns of the reference set are  N e_1 + e_(k+1)  (k < R)  and  N e_1:  pairwise at an angle of
\* ~1/N, NOT collinear (exact: a 2 x 2 minor equals 1).  The second set is a column-permuted, rescaled (signs, powers of
\* two) copy.  By the definition the optimum is attained ONLY by the recovering permutation (each matched pair has cosine
\* exactly 1, every other pair strictly less), however small the gap (~1/N^2 = 1e-10) to the competing matchings.
\* dup = TRUE: the last two columns of the reference are exact duplicates -- an exact tie: every permutation that maps
\* collinear columns onto each other is optimal, nothing else is.
TieN == 100000
TieCol(R, k, dup) == [i \in 1..(R + 1) |-> IF i = 1 THEN TieN
                                             ELSE IF k < R /\ i = k + 1 THEN 1
                                             ELSE IF dup /\ k = R /\ i = R THEN 1 ELSE 0]     \* dup: column R = column R-1
TieScale(sc, j) == IF sc = 0 THEN 1 ELSE <<-2, 4, -1, 8, 2, -4>>[((j - 1) % 6) + 1]
TieA(R, M, dup) == [m \in 1..M |-> IF m = 1 THEN FromCols([k \in 1..R |-> TieCol(R, k, dup)]) ELSE FacA(R, M, 0)[m]]
TieB(R, M, dup, p, sc) == [m \in 1..M |-> IF m = 1 THEN FromCols([j \in 1..R |-> ScaleVec(TieScale(sc, j), TieCol(R, p[j], dup))])
                                            ELSE FacB(R, M, 0, p, 0)[m]]
TieCfg(R, M, dup, p, sc) == [kind |-> "ties", R |-> R, M |-> M, dup |-> dup, p |-> p, sc |-> sc,
                             A |-> TieA(R, M, dup), B |-> TieB(R, M, dup, p, sc), w |-> WeightsB(R)]
ValidTies(c) == /\ c.R \in 2..4 /\ c.M \in 1..2 /\ c.dup \in BOOLEAN /\ c.sc \in {0, 1}
                /\ DOMAIN c.p = 1..c.R /\ IsPerm(c.p, c.R) /\ c = TieCfg(c.R, c.M, c.dup, c.p, c.sc)
\* collinearity without squaring N: all 2 x 2 minors vanish
CollinearMinors(u, v) == \A i, j \in 1..Len(u) : i < j => u[i] * v[j] = u[j] * v[i]
\* a matching is optimal (value exactly 1) iff it pairs collinear columns in every mode
TieOptimal(c, pi) == \A m \in 1..c.M : \A i \in 1..c.R : CollinearMinors(Col(c.A[m], i), Col(c.B[m], pi[i]))
TiesOK(c) ==
    /\ TieOptimal(c, InvPerm(c.p))
    \* the duplicate is in mode 1 only: with a second mode the other mode separates the two components again
    /\ (~(c.dup /\ c.M = 1) => \A pi \in Permutations(1..c.R) : TieOptimal(c, pi) = (pi = InvPerm(c.p)))      \* unique
    /\ (c.dup /\ c.M = 1 => Cardinality({pi \in Permutations(1..c.R) : TieOptimal(c, pi)}) = 2)               \* the exact tie

\* theorems about the specification on one exact configuration
ExTop(c) == c.R * Pow(L, c.M)
ExB0(c) == FacB(c.R, c.M, c.b, IdPerm(c.R), 0)          \* the second set before permutation and rescaling
\* cosines are exactly representable over L
ThCosExact(c) == \A m \in 1..c.M : \A i, j \in 1..c.R : CosExact(Col(c.A[m], i), Col(c.B[m], j))
\* range with absolute values
ThRange(c, W) == /\ \A i, j \in 1..c.R : W[i][j] \in 0..Pow(L, c.M)
                 /\ BestSum(W) \in 0..ExTop(c)
\* invariance of the optimum (value and set of optimal matchings) under column permutation + non-zero
\* rescaling of one set; permutation alone leaves the signed optimum unchanged as well
ThInvariant(c, W, W0) ==
    /\ BestSum(W) = BestSum(W0)
    /\ {Compose(c.p, pi) : pi \in BestAssignments(W)} = BestAssignments(W0)
    \* exchanging the roles of the two sets transposes the problem: same value, inverse matchings
    /\ BestAssignments(CongL(c.B, c.A, TRUE)) = {InvPerm(pi) : pi \in BestAssignments(W)}
    /\ (IntScale(c.s) = 0 => BestSum(CongL(c.A, c.B, FALSE)) = BestSum(CongL(c.A, ExB0(c), FALSE)))
\* equivalent sets: value 1, attained exactly by the recovering permutation
ThRecover(c, W) ==
    /\ (c.b = c.a => BestSum(W) = ExTop(c) /\ BestAssignments(W) = {InvPerm(c.p)})
    /\ (c.b # c.a => BestSum(W) < ExTop(c))
\* correlation index is 0 exactly when the column sets coincide up to permutation and scaling
ThCorr(c) ==
    /\ \A m \in 1..c.M : (CorrNum(CosMat(c.A[m], c.B[m], TRUE), L) = 0) = CoverBoth(c.A[m], c.B[m])
    /\ (c.b = c.a => \A m \in 1..c.M : CoverBoth(c.A[m], c.B[m]))
    /\ (c.b = c.a /\ UniformScale(c.s) => CoverBoth(StackRows(c.A, c.M), StackRows(c.B, c.M)))
    /\ (c.b # c.a => ~CoverBoth(StackRows(c.A, c.M), StackRows(c.B, c.M)) /\ ~CoverBoth(c.A[1], c.B[1]))
\* complex sets: the modulus of the Hermitian inner product and the norms are those of the real integer columns
\* (times |z|), hence |cos| is the real one; a product WITHOUT conjugation would not have this property
ThComplex(c) ==
    Complex(c.s) =>
      \A m \in 1..c.M : \A i, j \in 1..c.R :
         LET u  == Col(c.A[m], i)  v == Col(c.B[m], j)  z == c.cz[m][j]
             ca == CPhase(m, CScale(<<1, 0>>, u))
             cb == CPhase(m, CScale(z, v)) IN
         /\ CAbs2(CHerm(ca, cb)) = CAbs2(z) * Dot(u, v) * Dot(u, v)
         /\ CHerm(ca, ca) = <<Dot(u, u), 0>> /\ CHerm(cb, cb) = <<CAbs2(z) * Dot(v, v), 0>>
\* (bound by quantifiers, not LET: TLC then evaluates the matrices once)
\* Patterns >= 4 have the integer matrices of pattern IntScale(s) (the magnitudes / complex scalars are applied by the
\* harness), so the theorems about (A, B) are those of that pattern and are not re-evaluated.
ExactOK(c) ==
    IF c.s >= 4 THEN c.B = FacB(c.R, c.M, c.b, c.p, IntScale(c.s)) /\ IntScale(c.s) <= 3 /\ ThComplex(c)
    ELSE \A W \in {CongL(c.A, c.B, TRUE)} : \A W0 \in {CongL(c.A, ExB0(c), TRUE)} :
            ThCosExact(c) /\ ThRange(c, W) /\ ThInvariant(c, W, W0) /\ ThRecover(c, W) /\ ThCorr(c) /\ ThComplex(c)

-----------------------------------------------------------------------------
(* Generic family: the spec fixes sizes / flavours; values are drawn by the harness from VERIF_SEED *)
RowProfiles == << <<4, 3, 5>>, <<1, 2, 2>>, <<7, 6, 3>> >>
GenFlavours == {"normal", "ternary", "noisyperm", "dupcol", "scaled"}
ValidGeneric(c) ==
    /\ c.R \in 1..MaxR /\ c.M \in 1..3 /\ c.prof \in 1..Len(RowProfiles) /\ c.flavour \in GenFlavours
    /\ c.k \in 1..GenDraws /\ c.rows = SubSeq(RowProfiles[c.prof], 1, c.M)

-----------------------------------------------------------------------------
(* Error metrics on integer tensors as exact rationals <<num, den>> per reduced slice.            *)
MetricOps == {"MSE", "RMSE", "covariance", "variance", "std", "correlation", "reflective", "R2"}
MetricShapes == {<<1>>, <<1, 3>>} \cup {<<n>> : n \in 2..4} \cup {<<a, b>> : a, b \in 2..4} \cup {<<a, b, c>> : a, b, c \in 2..3}
MaxVal == 3
AxNone == 99            \* axis=None (integers only: TLC refuses to compare an integer with a string)
NormAxis(shape, ax) == IF ax = AxNone THEN AxNone ELSE IF ax < 0 THEN ax + Len(shape) ELSE ax
\* OFFSET regime: both arrays are handed over as 2^off + (the small integers), exactly representable.  The value of
\* the shift-invariant metrics is that of the small integers (theorem in MetricDataOK); dt = "f32": float32 arrays.
ShiftInvariant(op) == op \in {"MSE", "RMSE", "covariance", "variance", "std", "correlation"}
Offsets == {<<20, "f64">>, <<30, "f64">>, <<40, "f64">>, <<10, "f32">>}
OffShapes == {<<4>>, <<3, 4>>, <<2, 3, 2>>}
\* CALL FORM ("std" arrays positional + axis by keyword, "pos" everything positional in the published order, "kw"
\* everything by its published name: the harness holds the names in a frozen table), VALUE spelling of the zeros
\* ("negzero": -0.0, "subnormal": 5e-324 -- equal to 0 for every clause) and ALIASING (same = TRUE: the second array IS
\* the first, one object) are rotated over the configurations:
CallForms == <<"std", "pos", "kw">>
ZeroSpellings == <<"plain", "negzero", "subnormal">>
MetricRot(sh, ax, k) == Size(sh) + Len(sh) + (IF ax = AxNone THEN 7 ELSE ax + 4) + k
\* memory layout of BOTH arrays handed to a metric: C order, Fortran order, a non-contiguous view, read-only arrays
MetricLayouts == {"C", "F", "strided", "ro"}
ValidMetric(c) ==
    /\ c.op \in MetricOps /\ c.shape \in MetricShapes /\ c.k \in 1..MetricDraws
    /\ (c.axis = AxNone \/ (c.op # "R2" /\ c.axis \in (-Len(c.shape))..(Len(c.shape) - 1)))       \* every negative spelling too
    /\ \/ c.off = 0 /\ c.dt = "f64"
       \/ ShiftInvariant(c.op) /\ <<c.off, c.dt>> \in Offsets /\ c.shape \in OffShapes
    /\ c.lay \in MetricLayouts /\ (c.lay # "C" => c.off = 0 /\ c.shape \in OffShapes)
    /\ LET plain == c.off = 0 /\ c.lay = "C"   h == MetricRot(c.shape, c.axis, c.k) IN
       /\ c.call = (IF plain THEN CallForms[(h % 3) + 1] ELSE "std")
       /\ c.val = (IF plain THEN ZeroSpellings[((h \div 3) % 3) + 1] ELSE "plain")
       /\ c.same = (plain /\ h % 4 = 0)
DropAt(s, k) == SubSeq(s, 1, k - 1) \o SubSeq(s, k + 1, Len(s))
InsAt(s, k, x) == SubSeq(s, 1, k - 1) \o <<x>> \o SubSeq(s, k, Len(s))
MetricOutShape(shape, ax) == IF ax = AxNone THEN <<>> ELSE DropAt(shape, ax + 1)
\* the values of T reduced into output position n (1-based, row-major over the output shape)
SliceSeq(T, ax, n) ==
    IF ax = AxNone THEN T.data
    ELSE LET o == Unlin(DropAt(T.shape, ax + 1), n - 1)
         IN  [k \in 1..T.shape[ax + 1] |-> At(T, InsAt(o, ax + 1, k - 1))]
SumProd(x, y) == SumSeq([k \in 1..Len(x) |-> x[k] * y[k]])
CovNum(x, y) == Len(x) * SumProd(x, y) - SumSeq(x) * SumSeq(y)        \* n^2 * covariance
\* <<num, den, how>>: how = "val": result = num/den; "sq": result^2 = num/den and result >= 0;
\*                    "sgnsq": result^2 = num/den and sign(result) = sign(how-specific numerator)
MetricRat(op, x, y) ==
    LET n == Len(x) d == [k \in 1..n |-> x[k] - y[k]] IN
    CASE op = "MSE"        -> <<SumProd(d, d), n>>
      [] op = "RMSE"       -> <<SumProd(d, d), n>>
      [] op = "covariance" -> <<CovNum(x, y), n * n>>
      [] op = "variance"   -> <<CovNum(x, x), n * n>>
      [] op = "std"        -> <<CovNum(x, x), n * n>>
      [] op = "correlation"-> <<CovNum(x, y) * CovNum(x, y), CovNum(x, x) * CovNum(y, y)>>
      [] op = "reflective" -> <<SumProd(x, y) * SumProd(x, y), SumProd(x, x) * SumProd(y, y)>>
      [] op = "R2"         -> <<SumProd(x, x) - SumProd(d, d), SumProd(x, x)>>     \* x original, y predicted
MetricSign(op, x, y) == IF op = "correlation" THEN SgnI(CovNum(x, y)) ELSE IF op = "reflective" THEN SgnI(SumProd(x, y)) ELSE 1
MetricSquared(op) == op \in {"RMSE", "std", "correlation", "reflective"}
\* theorems: Cauchy-Schwarz range of the correlations, non-negativity, shift invariance of the covariance
MetricDataOK(x, y) ==
    LET c == MetricRat("correlation", x, y)  r == MetricRat("reflective", x, y) IN
    /\ c[1] >= 0 /\ c[1] <= c[2] /\ r[1] >= 0 /\ r[1] <= r[2]
    /\ MetricRat("variance", x, y)[1] >= 0 /\ MetricRat("MSE", x, y)[1] >= 0
    /\ CovNum([k \in 1..Len(x) |-> x[k] + 2], y) = CovNum(x, y)
    /\ MetricRat("MSE", [k \in 1..Len(x) |-> x[k] + 7], [k \in 1..Len(y) |-> y[k] + 7]) = MetricRat("MSE", x, y)
    /\ MetricRat("correlation", [k \in 1..Len(x) |-> x[k] + 7], [k \in 1..Len(y) |-> y[k] + 7]) = MetricRat("correlation", x, y)
    /\ (MetricRat("MSE", x, y)[1] = 0) = (x = y)
    /\ MetricRat("R2", x, x)[1] = MetricRat("R2", x, x)[2]

-----------------------------------------------------------------------------
(* Leverage scores: matrix whose columns are integer multiples of members of a mutually            *)
(* orthogonal family (repeats allowed => rank deficiency), optionally padded with zero rows.      *)
OrthFams == << << <<1,2,2>>, <<2,-2,1>>, <<2,1,-2>> >>,
               << <<1,0,0>>, <<0,1,0>>, <<0,0,1>> >>,
               << <<3,4,0>>, <<-4,3,0>>, <<0,0,5>> >> >>
LevScales == <<1, -2, 3, -1>>
\* index 0 = an all-zero column (legal: it only lowers the rank)
LevMatrix(f, idxs, pad) ==
    FromCols([j \in 1..Len(idxs) |-> (IF idxs[j] = 0 THEN <<0, 0, 0>> ELSE ScaleVec(LevScales[j], OrthFams[f][idxs[j]])) \o [k \in 1..pad |-> 0]])
\* leverage_i = (1/rank) sum over used directions v of v[i]^2 / |v|^2 ; returned as numerators over L * rank
LevRank(idxs) == Cardinality(SeqRange(idxs) \ {0})
LevNum(f, idxs, pad, i) ==
    IF i > 3 THEN 0
    ELSE SumSeq([d \in 1..3 |-> IF d \in SeqRange(idxs)
                                THEN (OrthFams[f][d][i] * OrthFams[f][d][i] * L) \div Dot(OrthFams[f][d], OrthFams[f][d])
                                ELSE 0])
ValidLevExact(c) ==
    /\ c.f \in 1..Len(OrthFams) /\ c.pad \in {0, 2} /\ Len(c.idxs) \in 1..4
    /\ \A j \in 1..Len(c.idxs) : c.idxs[j] \in 0..3
    /\ LevRank(c.idxs) >= 1                      \* the zero matrix has no leverage scores
    /\ c.A = LevMatrix(c.f, c.idxs, c.pad)
LevExactOK(c) ==
    /\ \A d1, d2 \in 1..3 : d1 # d2 => Dot(OrthFams[c.f][d1], OrthFams[c.f][d2]) = 0
    /\ \A d \in 1..3 : \A i \in 1..3 : (OrthFams[c.f][d][i] * OrthFams[c.f][d][i] * L) % Dot(OrthFams[c.f][d], OrthFams[c.f][d]) = 0
    /\ SumSeq([i \in 1..(3 + c.pad) |-> LevNum(c.f, c.idxs, c.pad, i)]) = L * LevRank(c.idxs)    \* sums to one
    /\ \A i \in 1..(3 + c.pad) : LevNum(c.f, c.idxs, c.pad, i) >= 0
LevFlavours == {"normal", "lowrank", "f32", "int", "F", "strided", "ro"}      \* the last three: memory layouts of a random matrix
ValidLev(c) == /\ c.rows \in 1..9 /\ c.cols \in 1..4 /\ c.flavour \in LevFlavours /\ c.k \in 1..LevDraws
               /\ c.call = CallForms[((c.rows + c.cols + c.k) % 3) + 1]

-----------------------------------------------------------------------------
(* Design run: the domain enumerated as states; SpecOK evaluated in every state.                  *)
VARIABLE cfg
SeqsOver(S, n) == [1..n -> S]
NoCfg == [kind |-> "none"]
\* seeds only spread the enumeration over TLC's workers (one worker expands one seed)
Seeds == {[kind |-> "seed", fam |-> "exact", R |-> r, M |-> m, b |-> b, s |-> s, f |-> f] :
              r \in 1..MaxR, m \in 1..3, b \in {0, 1}, s \in 0..9, f \in 1..MaxR}
         \cup {[kind |-> "seed", fam |-> "generic", R |-> r] : r \in 1..MaxR}
         \cup {[kind |-> "seed", fam |-> "metric", op |-> op] : op \in MetricOps}
         \cup {[kind |-> "seed", fam |-> "levexact", f |-> f, pad |-> pad] : f \in 1..Len(OrthFams), pad \in {0, 2}}
         \cup {[kind |-> "seed", fam |-> "metricdata", x |-> x] : x \in SeqsOver((-1)..1, 3)}
         \cup {[kind |-> "seed", fam |-> "lev"]}
         \cup {[kind |-> "seed", fam |-> "zeros", R |-> r] : r \in 1..3}
         \cup {[kind |-> "seed", fam |-> "ties", R |-> r, M |-> m] : r \in 2..4, m \in 1..2}
CfgsOf(sd) ==
    CASE sd.fam = "exact" ->
            {ExactCfg(sd.R, sd.M, 0, sd.b, p, sd.s) : p \in {pp \in ExactPerms(sd.R) : pp[1] = sd.f}}
      [] sd.fam = "generic" ->
            {[kind |-> "generic", R |-> sd.R, M |-> m, prof |-> pr, rows |-> SubSeq(RowProfiles[pr], 1, m), flavour |-> fl, k |-> k] :
                m \in 1..3, pr \in 1..Len(RowProfiles), fl \in GenFlavours, k \in 1..GenDraws}
      [] sd.fam = "metric" ->
            {c \in UNION {{[kind |-> "metric", op |-> sd.op, shape |-> sh, axis |-> ax, off |-> o[1], dt |-> o[2], lay |-> ly, k |-> k,
                              call |-> (IF o[1] = 0 /\ ly = "C" THEN CallForms[(MetricRot(sh, ax, k) % 3) + 1] ELSE "std"),
                              val |-> (IF o[1] = 0 /\ ly = "C" THEN ZeroSpellings[((MetricRot(sh, ax, k) \div 3) % 3) + 1] ELSE "plain"),
                              same |-> (o[1] = 0 /\ ly = "C" /\ MetricRot(sh, ax, k) % 4 = 0)] :
                              ax \in {AxNone} \cup ((-Len(sh))..(Len(sh) - 1)), k \in 1..MetricDraws, ly \in MetricLayouts,
                              o \in {<<0, "f64">>} \cup Offsets} : sh \in MetricShapes}
                : ValidMetric(c) /\ (c.off # 0 => c.k = 1) /\ (c.lay # "C" => c.k = 1)}
      [] sd.fam = "lev" ->
            {[kind |-> "lev", rows |-> r, cols |-> cl, flavour |-> fl, k |-> k, call |-> CallForms[((r + cl + k) % 3) + 1]] :
                r \in {1, 2, 3, 5, 9}, cl \in 1..4, fl \in LevFlavours, k \in 1..LevDraws}
      [] sd.fam = "levexact" ->
            {[kind |-> "levexact", f |-> sd.f, idxs |-> ix, pad |-> sd.pad, A |-> LevMatrix(sd.f, ix, sd.pad)] :
                ix \in {x \in UNION {SeqsOver(0..3, n) : n \in 1..LevMaxCols} :
                            LevRank(x) >= 1 /\ (0 \in SeqRange(x) => Len(x) < LevMaxCols)}}
      [] sd.fam = "ties" ->
            {TieCfg(sd.R, sd.M, d, p, sc) : d \in BOOLEAN, sc \in {0, 1}, p \in Permutations(1..sd.R)}
      [] sd.fam = "zeros" ->
            {ZeroCfg(sd.R, m, b, p, z) : m \in 1..3, b \in {0, 1}, z \in ZeroKinds,
                                         p \in {IdPerm(sd.R), [j \in 1..sd.R |-> (j % sd.R) + 1]}}
      [] sd.fam = "metricdata" ->      \* exhaustive small data for the theorems about the metric formulas
            {[kind |-> "metricdata", x |-> sd.x, y |-> y] : y \in SeqsOver({-2, 0, 1}, 3)}

Init == cfg \in Seeds
Next == cfg.kind = "seed" /\ cfg' \in CfgsOf(cfg)
Spec == Init /\ [][Next]_cfg
SpecOK ==
    CASE cfg.kind = "exact"      -> ValidExact(cfg) /\ ExactOK(cfg)
      [] cfg.kind = "generic"    -> ValidGeneric(cfg)
      [] cfg.kind = "metric"     -> ValidMetric(cfg)
      [] cfg.kind = "lev"        -> ValidLev(cfg)
      [] cfg.kind = "levexact"   -> ValidLevExact(cfg) /\ LevExactOK(cfg)
      [] cfg.kind = "zeros"      -> ValidZeros(cfg) /\ ZerosOK(cfg)
      [] cfg.kind = "ties"       -> ValidTies(cfg) /\ TiesOK(cfg)
      [] cfg.kind = "metricdata" -> MetricDataOK(cfg.x, cfg.y)
      [] OTHER -> TRUE
=============================================================================
