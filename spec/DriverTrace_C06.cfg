SPECIFICATION TraceSpec
CONSTANTS
  Deviations = {}
  MaxCap = 12
  Order = 3
  Prop = "C06"
POSTCONDITION TraceAccepted
CHECK_DEADLOCK FALSE
