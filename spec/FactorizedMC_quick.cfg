SPECIFICATION Spec
CONSTANTS
  MaxOrder = 4
  MaxDim = 3
  MaxRank = 3
  MaxSize = 27
  MaxCore = 8
  MaxP2J = 3
  MaxDim4 = 2
  MaxRank4 = 2
  MaxBadSize = 8
INVARIANT SpecOK
