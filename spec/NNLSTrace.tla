----------------------------- MODULE NNLSTrace -----------------------------
(* C13 trace validation.  One event = one solver run on one problem.                              *)
(*  kind "exact": a problem of NNLS.tla's domain (integer SPD G, 1-3 integer right-hand sides,     *)
(*     l1 = p1/q, l2 = p2/q); the returned solution is logged as y = rint(x * 10^6) per column and  *)
(*     compared with the exact rational minimiser (admm(n_const=None): unconstrained minimiser).   *)
(*  kind "kkt" (measured tier): 4-8 unknowns, random integer data with bounded condition number;   *)
(*     the harness logs x and the gradient g = G x - b + l1 + 2 l2 x (both * 10^6); the            *)
(*     Karush-Kuhn-Tucker conditions are judged here.                                             *)
EXTENDS NNLS, Json, IOUtils

Events == ndJsonDeserialize(IOEnv.TRACE_FILE)

S == 1000000
\* Solutions are logged to 12 decimals: y = rint(x * 10^6) and f = rint((x * 10^6 - y) * 10^6).  Tolerances are named from
\* what the solvers achieve on the unchanged tree, with a safety factor, in units of 1e-12:
\*   active_set / admm : direct solves, observed <= 2e-15           -> 1e-10
\*   hals (tol=1e-16 or exact=True: relative step 1e-8), fista (floor epsilon = 1e-8): observed <= 5e-9 / 1e-8  -> 2e-6
FineTolDirect == 100
FineTolIter == 2000000
FineTol(solver) == IF solver \in {"active_set", "admm"} THEN FineTolDirect ELSE FineTolIter
SolTol == 2         \* coarse guard on y before the fine comparison (2e-6)
ZeroTol == 10       \* measured tier: an entry <= 1e-5 counts as "at the bound"
KktTol == 50        \* measured tier: gradient residual 5e-5 (|G| <= ~100, solution error <= 1e-8 .. 1e-7)
CondMax == 1000     \* measured tier: condition number bound of the drawn problems
MaxX == 100000000   \* |x|, |g| beyond 100 are rejected before any arithmetic

IsFin(v) == -2000000000 <= v /\ v <= 2000000000
Solvers == {"hals", "fista", "active_set", "admm"}
Constrained(e) == e.solver # "admm"

IsCols(X, k, n) == DOMAIN X = 1..k /\ \A j \in 1..k : DOMAIN X[j] = 1..n
AllFin(X) == \A j \in DOMAIN X : \A i \in DOMAIN X[j] : IsFin(X[j][i]) /\ AbsN(X[j][i]) <= MaxX

\* floor(num * S / den) without leaving 32 bits (den < 2147)
Units(num, den) == (num \div den) * S + ((num % den) * S) \div den

\* documented options carried by an event:  ep/eq = the lower bound epsilon (0/1 = the solver's default: 0 for hals,
\* 1e-8 for fista);  nzr = hals_nnls(nonzero_rows=True) "the lines of the V matrix can't be zero"
\* call environment (memory layout of the array arguments, caller-side error / warning settings) and the return value
\* of the hals callback ("the algorithm will also terminate if the callback callable returns True" -- and only then)
LayoutSet == {"C", "F", "strided", "readonly"}
ErrSet == {"default", "ignore", "raise", "warnerr"}
CbSet == {"none", "tuple", "float", "false", "true3"}
\* call forms (the result must not depend on them): positional / keyword arguments, a re-exported entry point, None vs 0 for an
\* absent penalty, zeros written as -0.0 or subnormals, an earlier failed call on the same arrays, the start aliased with the
\* right-hand side (fista, active_set) or x with dual_var (admm), a 1-D right-hand side (fista)
FormSet == {"pos", "kw"}
EntrySet == {"home", "alias"}
SpellSet == {"none", "zero"}
ValsSet == {"plain", "negzero", "subnormal"}
PrevSet == {"none", "failed"}
OptionsOK(e) ==
    /\ e.layout \in LayoutSet /\ e.err \in ErrSet
    /\ e.form \in FormSet /\ e.entry \in EntrySet /\ e.spell \in SpellSet /\ e.vals \in ValsSet /\ e.prev \in PrevSet
    /\ e.alias \in BOOLEAN /\ (e.alias => e.solver \in {"fista", "active_set", "admm"})
    /\ e.vecrhs \in BOOLEAN /\ (e.vecrhs => e.solver = "fista")
    /\ e.cb \in CbSet /\ (e.cb # "none" => e.solver = "hals")
    /\ e.mutG \in BOOLEAN /\ e.mutB \in BOOLEAN /\ e.mutS \in BOOLEAN
    /\ e.nzr \in BOOLEAN /\ (e.nzr => e.solver = "hals")
    /\ <<e.ep, e.eq>> \in {<<0, 1>>} \cup EpsSet
    /\ (e.ep > 0 => e.solver \in {"hals", "fista"})

\* magnitude: the solver was given 4^sa G, 2^(sa+sb) B (penalties, start and absolute options scaled with them) and
\* the logged solution was divided by 2^(sb-sa); by NNLS!ScaleInvariant it must be the solution of the unscaled problem
\* StrictErrorStateSpoke: the CALLER asked NumPy to raise on floating-point events (np.errstate(...="raise")) or turned
\* warnings into errors, and the call ended in exactly that exception.  The property does not quantify over the caller's
\* error state (under NumPy's defaults the same call returns normally and is judged in full), so such an event is accepted
\* as it is; every other exception, and every exception under the "default" / "ignore" settings, is a rejection.
StrictErrorStateSpoke(e) ==
    /\ e.raised
    /\ \/ e.err = "raise" /\ e.exc = "FloatingPointError"
       \/ e.err = "warnerr" /\ e.exc = "RuntimeWarning"

ExactInDomain(e) ==
    /\ e.solver \in Solvers
    /\ e.sa \in MagSet /\ e.sb \in MagSet
    \* dtype of the normal equations handed to the solver: integer-typed UtU / UtM are unscaled (the data are integers)
    /\ e.dt \in {"float64", "int64", "int32"} /\ (e.dt # "float64" => e.sa = 0 /\ e.sb = 0)
    /\ OptionsOK(e)
    /\ (e.ep > 0 => e.G \notin ExtraG2)
    /\ <<e.p1, e.p2, e.q>> \in Penalties
    /\ (e.solver \in {"active_set", "admm"} => e.p1 = 0 /\ e.p2 = 0)
    /\ ValidGram(e.G)
    /\ Len(e.B) \in 1..3
    /\ \A j \in 1..Len(e.B) : ValidRhs(e.B[j], Len(e.G))

ExactClose(e) ==
    \A j \in 1..Len(e.B) :
        LET pr == [G |-> e.G, b |-> e.B[j], p1 |-> e.p1, p2 |-> e.p2, q |-> e.q] IN
        \A x \in {IF ~Constrained(e) THEN SolveFree(pr) ELSE IF e.ep > 0 THEN SolveLB(pr, e.ep, e.eq) ELSE Solve(pr)} :
            /\ x.den > 0 /\ x.den < 2147
            /\ \A i \in 1..Len(e.G) :
                 LET hi == Units(x.num[i], x.den)                                   \* floor(x* 10^6)
                     lo == ((((x.num[i] % x.den) * S) % x.den) * S) \div x.den       \* next six decimals of x*
                     dy == e.x[j][i] - hi IN
                 /\ AbsN(dy) <= SolTol + 1
                 /\ AbsN(dy * S + e.xf[j][i] - lo) <= FineTol(e.solver)

ExactVerdict(e) ==
    IF ~ExactInDomain(e) THEN "InDomain"
    ELSE IF e.raised THEN (IF StrictErrorStateSpoke(e) THEN "ok" ELSE "Raised")
    \* UtU and UtM (and the start, except hals' documented-mutable V) are bit-identical after the call
    ELSE IF e.mutG \/ e.mutB \/ (e.solver # "hals" /\ e.mutS) THEN "InputUntouched"
    ELSE IF e.size # Len(e.B) * Len(e.G) \/ ~IsCols(e.x, Len(e.B), Len(e.G)) \/ ~IsCols(e.xf, Len(e.B), Len(e.G)) THEN "Shape"
    ELSE IF ~AllFin(e.x) \/ ~AllFin(e.xf) THEN "Finite"
    \* e.nlow = number of returned entries below the bound (0, or epsilon when given), counted on the floats
    ELSE IF Constrained(e) /\ e.nlow # 0 THEN (IF e.ep > 0 THEN "Floor" ELSE "NonNeg")
    \* callback returned True at sweep 3: the result is the iterate after exactly three sweeps (logged by a run with n_iter_max=3)
    ELSE IF e.cb = "true3" /\ (e.x # e.xref \/ e.xf # e.xreff) THEN "CallbackStop"
    ELSE IF e.cb # "true3" /\ ~ExactClose(e) THEN "Close"
    \* nonzero_rows=True: no row of the returned V is entirely zero (unless the whole solution is zero)
    ELSE IF e.nzr /\ e.zero_rows # 0 /\ (\E j \in 1..Len(e.B) : \E i \in 1..Len(e.G) : e.x[j][i] > SolTol + 1) THEN "NonzeroRows"
    ELSE "ok"

KktInDomain(e) ==
    /\ e.solver \in Solvers
    /\ OptionsOK(e) /\ e.ep = 0
    /\ e.dt \in {"float64", "float32", "int64", "int32"}
    /\ IF e.dt = "float32" THEN e.sa \in {-15, 0} /\ e.sb \in {-15, 0}
       ELSE IF e.dt = "float64" THEN e.sa \in MagSet /\ e.sb \in MagSet
       ELSE e.sa = 0 /\ e.sb = 0
    /\ e.n \in 4..8 /\ e.k \in 1..5
    /\ <<e.p1, e.p2, e.q>> \in Penalties
    /\ (e.solver \in {"active_set", "admm"} => e.p1 = 0 /\ e.p2 = 0)
    /\ e.cond \in 1..CondMax

KktVerdictT(e, ZT, KT) ==
    IF e.raised THEN (IF StrictErrorStateSpoke(e) THEN "ok" ELSE "Raised")
    ELSE IF e.mutG \/ e.mutB \/ (e.solver # "hals" /\ e.mutS) THEN "InputUntouched"
    ELSE IF e.cb = "true3" THEN (IF e.x = e.xref /\ e.xf = e.xreff THEN "ok" ELSE "CallbackStop")
    ELSE IF e.size # e.k * e.n \/ ~IsCols(e.x, e.k, e.n) \/ ~IsCols(e.g, e.k, e.n) THEN "Shape"
    ELSE IF ~AllFin(e.x) \/ ~AllFin(e.g) THEN "Finite"
    ELSE IF Constrained(e) /\ e.nlow # 0 THEN "NonNeg"
    \* unconstrained: stationarity everywhere
    ELSE IF ~Constrained(e) /\ (\E j \in 1..e.k : \E i \in 1..e.n : AbsN(e.g[j][i]) > KT) THEN "Stationary"
    \* constrained: dual feasibility at the bound, stationarity (hence complementarity) off the bound
    ELSE IF Constrained(e) /\ (\E j \in 1..e.k : \E i \in 1..e.n : e.x[j][i] <= ZT /\ e.g[j][i] < -KT) THEN "DualFeasible"
    ELSE IF Constrained(e) /\ (\E j \in 1..e.k : \E i \in 1..e.n : e.x[j][i] > ZT /\ AbsN(e.g[j][i]) > KT) THEN "Stationary"
    ELSE IF e.nzr /\ e.zero_rows # 0 /\ (\E j \in 1..e.k : \E i \in 1..e.n : e.x[j][i] > ZT) THEN "NonzeroRows"
    ELSE "ok"

\* float32 runs (measured tier only): single precision (eps 6e-8) times cond <= 60 times |G| <= ~100
ZeroTol32 == 1000       \* 1e-3
KktTol32 == 5000        \* 5e-3
KktVerdict(e) ==
    IF ~KktInDomain(e) THEN "InDomain"
    ELSE KktVerdictT(e, IF e.dt = "float32" THEN ZeroTol32 ELSE ZeroTol, IF e.dt = "float32" THEN KktTol32 ELSE KktTol)

Verdict(e) == IF e.kind = "exact" THEN ExactVerdict(e)
              ELSE IF e.kind = "kkt" THEN KktVerdict(e)
              ELSE "InDomain"

VARIABLE i
TraceInit == i = 1 /\ cfg = NoCfg
TraceNext == /\ i <= Len(Events)
             /\ i' = i + 1 /\ UNCHANGED cfg
             /\ LET v == Verdict(Events[i]) IN
                  IF v = "ok" THEN TRUE ELSE PrintT(<<"REJECT", Events[i].id, v>>)
TraceSpec == TraceInit /\ [][TraceNext]_<<i, cfg>>
TraceAccepted == TLCGet("stats").diameter - 1 = Len(Events)
=============================================================================
