------------------------------- MODULE CPALS -------------------------------
(* Extension beyond the listed properties (DESIGN.md section 8): the CONTROL skeleton of CP-ALS                 *)
(* (tensorly/decomposition/_cp.py: parafac), implementation-shaped -- one action per line the routine prints     *)
(* with verbose=2, so that the verbose log of a real run IS a trace of this specification:                      *)
(*                                                                                                              *)
(*   Start      "Starting iteration k+1"          (factors_last saved here on even iterations)                 *)
(*   Mode(m)    "Mode m of N"                     one block solve; fixed modes never appear                    *)
(*   Line(o)    "Accepted line search jump of J." / "Line search failed for jump of J."                         *)
(*              only on even iterations > 5, J = iteration^(1/acc_pow); accepted iff the error of the           *)
(*              extrapolated point is below the LAST RECORDED error; acc_fail := 0 / acc_fail + 1               *)
(*   Reduce     "Reducing acceleration."          after max_fail consecutive failures: acc_pow + 1, acc_fail 0   *)
(*   Rec        (an error is recorded iff tol is truthy or return_errors)                                       *)
(*   Cb(stop)   "Received True from callback function. Exiting."                                                *)
(*   Tol(conv)  "reconstruction error=e" / "iteration k, reconstruction error: e, decrease = d, ..."             *)
(*              "PARAFAC converged after k iterations"                                                          *)
(*   CapExit    the iteration budget is used up                                                                 *)
(*   Crash      AS FOUND (Guarded = FALSE): with tol falsy and return_errors=False no error is ever computed,    *)
(*              yet the line search reads rec_errors[-1] (IndexError at iteration 6) and the callback is handed  *)
(*              the unbound rec_error (UnboundLocalError at iteration 0).  NoCrash is violated by the as-found    *)
(*              model (witness runs) and holds when errors are recorded whenever somebody reads them.            *)
(*                                                                                                              *)
(* Data is abstract: an error is a natural number (a level in the design model, a quantised relative error in    *)
(* the trace specification).  Every action is `s' = F(s, observed values)`; the design Next draws the observed    *)
(* values from the data laws below, the trace specification takes them from the log and checks the same laws.    *)
EXTENDS Naturals, Integers, Sequences, TLC

CONSTANTS MaxFail,        \* 4 in the code
          MaxLevel,       \* design model: error levels 0..MaxLevel
          Guarded,        \* FALSE = as found; TRUE = errors are recorded whenever the line search or a callback reads them
          Configs         \* design model: the set of call configurations explored

(* A call configuration c (constant during a run, carried in the state so that one trace file can hold runs of    *)
(* many configurations):  cap = n_iter_max, ls = linesearch, tol = tol is truthy, errors = return_errors,          *)
(* cb = a callback is installed, cbstops = ... and it may return True, modes = the modes that are updated, in       *)
(* order (fixed modes removed).                                                                                    *)
VARIABLE s    \* [c, it, pc, pending, accPow, accFail, saved, lvl, errs, exit]
vars == <<s>>

RecordOn(c) == c.tol \/ c.errors \/ (Guarded /\ (c.ls \/ c.cb))
LineDue(c, k) == c.ls /\ k % 2 = 0 /\ k > 5
LastOf(q) == q[Len(q)]
AfterModes(c, k) == IF LineDue(c, k) THEN "line" ELSE "rec"

InitS(c, l) == [c |-> c, it |-> -1, pc |-> "top", pending |-> <<>>, accPow |-> 2, accFail |-> 0, saved |-> -1,
                lvl |-> l, errs |-> <<>>, exit |-> "none"]

\* enabling conditions and state functions (shared with the trace specification) ------------------------------
StartOK(x) == x.pc = "top" /\ x.it + 1 < x.c.cap
StartF(x) == [x EXCEPT !.it = x.it + 1,
                       !.saved = IF x.c.ls /\ (x.it + 1) % 2 = 0 THEN x.it + 1 ELSE x.saved,
                       !.pending = x.c.modes,
                       !.pc = IF x.c.modes = <<>> THEN AfterModes(x.c, x.it + 1) ELSE "modes"]

ModeOK(x, m) == x.pc = "modes" /\ x.pending # <<>> /\ m = Head(x.pending)
ModeF(x, new) == [x EXCEPT !.pending = Tail(x.pending), !.lvl = new,
                           !.pc = IF Tail(x.pending) = <<>> THEN AfterModes(x.c, x.it) ELSE "modes"]

LineOK(x) == x.pc = "line" /\ RecordOn(x.c)
LineF(x, accepted, cand) ==
    IF accepted THEN [x EXCEPT !.lvl = cand, !.accFail = 0, !.pc = "rec"]
    ELSE [x EXCEPT !.accFail = x.accFail + 1, !.pc = IF x.accFail + 1 = MaxFail THEN "reduce" ELSE "rec"]

ReduceOK(x) == x.pc = "reduce"
ReduceF(x) == [x EXCEPT !.accPow = x.accPow + 1, !.accFail = 0, !.pc = "rec"]

RecOK(x) == x.pc = "rec"
RecF(x, e) == [x EXCEPT !.errs = IF RecordOn(x.c) THEN Append(x.errs, e) ELSE x.errs, !.pc = "cb"]

CbOK(x, stop) == x.pc = "cb" /\ (stop => x.c.cbstops) /\ (x.c.cb => RecordOn(x.c))
CbF(x, stop) == IF stop THEN [x EXCEPT !.exit = "callback", !.pc = "done"] ELSE [x EXCEPT !.pc = "tol"]

TolOK(x, conv) == x.pc = "tol" /\ (conv => (x.c.tol /\ x.it >= 1))
TolF(x, conv) == IF conv THEN [x EXCEPT !.exit = "converged", !.pc = "done"] ELSE [x EXCEPT !.pc = "top"]

CapOK(x) == x.pc = "top" /\ x.it + 1 >= x.c.cap
CapF(x) == [x EXCEPT !.exit = "cap", !.pc = "done"]

CrashOK(x) == \/ x.pc = "line" /\ ~RecordOn(x.c)                 \* rec_errors[-1] of an empty list
              \/ x.pc = "cb" /\ x.c.cb /\ ~RecordOn(x.c)       \* rec_error is unbound
CrashF(x) == [x EXCEPT !.exit = "crash", !.pc = "done"]

----------------------------------------------------------------------------
(* Design model: data laws on levels.  A sweep of exact block solves never raises the error; the extrapolated     *)
(* point is accepted iff it beats the last recorded error; convergence = no decrease between the last two records. *)
Init == \E c \in Configs, l \in 0..MaxLevel : s = InitS(c, l)

Start  == StartOK(s) /\ s' = StartF(s)
Mode   == \E m \in 0..8, new \in 0..MaxLevel : ModeOK(s, m) /\ new <= s.lvl /\ s' = ModeF(s, new)
Line   == /\ LineOK(s)
          /\ \E cand \in 0..MaxLevel : s' = LineF(s, cand < LastOf(s.errs), cand)
Reduce == ReduceOK(s) /\ s' = ReduceF(s)
Rec    == RecOK(s) /\ s' = RecF(s, s.lvl)
Cb     == \E stop \in BOOLEAN : CbOK(s, stop) /\ s' = CbF(s, stop)
Tol    == \E conv \in BOOLEAN :
             /\ TolOK(s, conv)
             /\ (s.c.tol /\ s.it >= 1) => (conv = (s.errs[Len(s.errs) - 1] = LastOf(s.errs)))
             /\ s' = TolF(s, conv)
CapExit == CapOK(s) /\ s' = CapF(s)
Crash  == CrashOK(s) /\ s' = CrashF(s)

Next == Start \/ Mode \/ Line \/ Reduce \/ Rec \/ Cb \/ Tol \/ CapExit \/ Crash
Spec == Init /\ [][Next]_vars /\ WF_vars(Next)

----------------------------------------------------------------------------
TypeOK == /\ s.it \in -1..s.c.cap /\ s.accPow \in 2..(2 + s.c.cap) /\ s.accFail \in 0..MaxFail /\ s.saved \in -1..s.c.cap
          /\ s.pc \in {"top", "modes", "line", "reduce", "rec", "cb", "tol", "done"}
          /\ s.exit \in {"none", "cap", "converged", "callback", "crash"}

\* the reported errors never increase (sweeps do not raise the error, jumps are accepted only below the last record)
ErrsMonotone == \A k \in 1..(Len(s.errs) - 1) : s.errs[k + 1] <= s.errs[k]
\* one error per completed iteration, or none at all
LenLaw == /\ ~RecordOn(s.c) => s.errs = <<>>
          /\ (RecordOn(s.c) /\ s.pc \in {"modes", "line", "reduce", "rec"}) => Len(s.errs) = s.it
          /\ (RecordOn(s.c) /\ s.pc \in {"top", "cb", "tol"}) => Len(s.errs) = s.it + 1
\* acceleration bookkeeping
AccLaw == /\ (s.pc # "reduce") => s.accFail < MaxFail
          /\ (s.pc = "reduce") => s.accFail = MaxFail
          /\ ~s.c.ls => (s.accPow = 2 /\ s.accFail = 0)
\* a line search extrapolates from the iterate saved at the START OF THE SAME iteration
SavedLaw == (s.pc \in {"line", "reduce"}) => (s.saved = s.it /\ LineDue(s.c, s.it))
\* exits
ExitLaw == /\ (s.exit = "cap") => s.it + 1 >= s.c.cap
           /\ (s.exit = "converged") => (s.c.tol /\ s.it >= 1 /\ Len(s.errs) >= 2 /\ s.errs[Len(s.errs) - 1] = LastOf(s.errs))
           /\ (s.exit = "callback") => s.c.cbstops
           /\ (s.pc = "done") <=> (s.exit # "none")
\* the routine never dies on its own bookkeeping (violated by the as-found model: witness)
NoCrash == s.exit # "crash"
\* every run ends
Terminates == <>(s.pc = "done")
=============================================================================
