SPECIFICATION Spec
CONSTANTS
  MaxDim = 4
INVARIANT SpecOK
