SPECIFICATION Spec
CONSTANTS
  Draws = 2
  PlsDraws = 2
  FullCross = TRUE
INVARIANT SpecOK
