SPECIFICATION Spec
CONSTANTS
  Draws = 4
  PlsDraws = 4
INVARIANT SpecOK
