SPECIFICATION Spec
CONSTANTS
  Draws = 8
  PlsDraws = 8
INVARIANT SpecOK
