SPECIFICATION Spec
CONSTANTS
  MaxFail = 2
  MaxLevel = 2
  Guarded = FALSE
  Configs <- CrashCb
INVARIANT TypeOK
INVARIANT ErrsMonotone
INVARIANT LenLaw
INVARIANT AccLaw
INVARIANT SavedLaw
INVARIANT ExitLaw
INVARIANT NoCrash
PROPERTY Terminates
