SPECIFICATION Spec
CONSTANTS
  Deviation = "F06e"
  MaxFail = 2
  MaxLevel = 8
  P2Configs <- P2Long
INVARIANT LastErrOwnsIterate
INVARIANT ErrsMonotone
INVARIANT LenLaw
INVARIANT AccLaw
INVARIANT InnerLaw
INVARIANT ExitLaw
INVARIANT NoCrash
PROPERTY Terminates
