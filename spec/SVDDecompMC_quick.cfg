SPECIFICATION Spec
CONSTANTS
  ShapeSet <- QuickShapes
  MaxTTRank = 5
  MaxTRRank = 3
INVARIANT SpecOK
