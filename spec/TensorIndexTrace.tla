-------------------------- MODULE TensorIndexTrace --------------------------
(* C01 trace validation: each event is one configuration of TensorIndex.AllConfigs executed by    *)
(* the real tensorly functions on the label tensor, in several dtypes / memory layouts, followed  *)
(* by the real inverse.  TLC recomputes the documented layout and accepts or rejects.             *)
EXTENDS TensorIndex, Json, IOUtils

Events == ndJsonDeserialize(IOEnv.TRACE_FILE)

VARIABLE i
InDomain(c) == c.shape \in (Shapes \cup HighShapes \cup EmptyShapes) /\ ValidCfg(c)

Verdict(e) ==
    IF ~InDomain(e.cfg) THEN "InDomain"
    ELSE LET c   == e.cfg
             exp == Apply(c, Label(c.shape))
             R   == DOMAIN e.runs IN
         IF \E r \in R : e.runs[r].raised THEN "Raised"
         ELSE IF \E r \in R : ~e.runs[r].exact THEN "Exact"
         ELSE IF \E r \in R : e.runs[r].shape # OutShape(c) THEN "OutShape"
         ELSE IF \E r \in R : e.runs[r].data # exp.data THEN "Layout"
         ELSE IF \E r \in R : e.runs[r].dtype # e.runs[r].indtype THEN "Dtype"
         ELSE IF \E r \in R : e.runs[r].back_shape # c.shape THEN "BackShape"
         ELSE IF \E r \in R : e.runs[r].back # Label(c.shape).data THEN "RoundTrip"
         ELSE IF \E r \in R : e.runs[r].back_dtype # e.runs[r].indtype THEN "BackDtype"
         ELSE "ok"

TraceInit == i = 1 /\ cfg = NoCfg
TraceNext == /\ i <= Len(Events)
             /\ i' = i + 1 /\ UNCHANGED cfg
             /\ LET v == Verdict(Events[i]) IN
                  IF v = "ok" THEN TRUE ELSE PrintT(<<"REJECT", Events[i].id, v>>)
TraceSpec == TraceInit /\ [][TraceNext]_<<i, cfg>>
TraceAccepted == TLCGet("stats").diameter - 1 = Len(Events)
=============================================================================
