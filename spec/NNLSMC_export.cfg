SPECIFICATION Spec
CONSTANTS
  Wide = FALSE
  BoxMax = 3
