SPECIFICATION Spec
CONSTANTS
  Tier = "thorough"
  MaxOrder = 4
  MaxDim = 3
  MaxSize = 36
  MaxOut = 144
INVARIANT SpecOK
