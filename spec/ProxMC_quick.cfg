SPECIFICATION Spec
CONSTANTS
  MaxN = 4
  Box = 2
  FneN = 2
  BoxN = 3
  SvdCompSize = 4
INVARIANT SpecOK
