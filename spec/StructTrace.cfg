SPECIFICATION TraceSpec
CONSTANTS
  MaxOrder = 5
  MaxDim = 8
  MaxReq = 100
  MaxTRReq = 100
POSTCONDITION TraceAccepted
CHECK_DEADLOCK FALSE
