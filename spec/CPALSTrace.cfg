SPECIFICATION TraceSpec
CONSTANTS
  MaxFail = 4
  MaxLevel = 0
  Guarded = FALSE
  Configs <- CrashCb
INVARIANT TraceLenLaw
INVARIANT TraceAccLaw
INVARIANT TraceSavedLaw
POSTCONDITION TraceAccepted
CHECK_DEADLOCK FALSE
