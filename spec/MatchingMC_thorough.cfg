SPECIFICATION Spec
CONSTANTS
  FullPermR = 6
  MaxR = 6
  GenDraws = 6
  MetricDraws = 6
  LevDraws = 6
INVARIANT SpecOK
