SPECIFICATION Spec
CONSTANTS
  FullPermR = 5
  MaxR = 6
  GenDraws = 6
  MetricDraws = 6
  LevMaxCols = 4
  LevDraws = 6
INVARIANT SpecOK
