SPECIFICATION Spec
CONSTANTS
  Draws = 2
  PlsDraws = 2
INVARIANT SpecOK
