SPECIFICATION Spec
CONSTANTS
  Draws = 1
  PlsDraws = 1
  FullCross = FALSE
INVARIANT SpecOK
