SPECIFICATION Spec
CONSTANTS
  MaxN = 4
  Box = 2
  FneN = 3
  BoxN = 4
  SvdCompSize = 9
INVARIANT SpecOK
