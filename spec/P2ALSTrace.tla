----------------------------- MODULE P2ALSTrace -----------------------------
(* Trace validation for the PARAFAC2-ALS control skeleton: the log of a real parafac2(..., verbose=True) run, line by   *)
(* line, must be a behaviour of P2ALS (Deviation = "none"), and the lines printed by the inner parafac must be a         *)
(* behaviour of CPALS nested in it (verbose level 1: the inner Start / Mode steps print nothing and are composed           *)
(* silently).  The recorded list is reconstructed by the MODEL (append on ordinary iterations, overwrite on line          *)
(* iterations) and compared with what the routine prints ("variation" = second-to-last minus last) and returns.           *)
EXTENDS P2ALSMC, Json, IOUtils

Events == ndJsonDeserialize(IOEnv.TRACE_FILE)

VARIABLES i, failed, aux
tvars == <<p, i, failed, aux>>

Q == 2
JumpTol == 20
IsFin(v) == -2000000000 <= v /\ v <= 2000000000
NoAux == [printed |-> FALSE, below |-> FALSE, acc |-> FALSE, prevlast |-> 0, reduce |-> FALSE, returned |-> <<>>, n_errs |-> -1]
NoCfg == [cap |-> 0, ls |-> FALSE, tol |-> FALSE, errors |-> FALSE, ninner |-> 1, maxfail |-> 4, accpow |-> 2]

\* ---- inner run at verbose level 1 -------------------------------------------------------------------------------------
Mode3(y) == CP!ModeF(CP!ModeF(CP!ModeF(y, y.lvl), y.lvl), y.lvl)
InnerTop(y) == IF y.pc = "tol" THEN CP!TolF(y, FALSE) ELSE y
InnerIterOK(y) == CP!StartOK(InnerTop(y))
InnerIter(y, e) == CP!CbF(CP!RecF(Mode3(CP!StartF(InnerTop(y))), e), FALSE)          \* one inner iteration, ending at "tol"
\* finishing the inner run without a further printed line: it converged, or its budget is used up
InnerFinishOK(y) == y.pc = "done" \/ CP!CapOK(InnerTop(y))
InnerLastErr(y) == IF y.errs = <<>> THEN 0 ELSE y.errs[Len(y.errs)]

\* ---- outer silent steps ------------------------------------------------------------------------------------------------
AfterInnerOK(x) == x.pc # "inner" \/ InnerFinishOK(x.inner)
AfterInner(x) == IF x.pc = "inner" THEN LeaveInnerF(x, InnerLastErr(x.inner)) ELSE x
\* from the end of an iteration to the top of the loop (tol falsy: Rec and Tol print nothing)
ToTopOK(x, a) ==
    LET y == AfterInner(x) IN
    /\ AfterInnerOK(x)
    /\ y.pc \in {"top", "rec", "tol"}
    /\ (y.pc = "rec" => ~y.c.tol)                      \* with tol an error line must have been printed
    /\ (y.pc = "tol" /\ y.c.tol) => (a.printed /\ ~(y.it >= 1 /\ a.below))
ToTop(x) ==
    LET y == AfterInner(x)
        z == IF y.pc = "rec" THEN RecF(y) ELSE y IN
    IF z.pc = "tol" THEN TolF(z, FALSE) ELSE z
SetLast(x, e) == [x EXCEPT !.lvl = e, !.errs = [x.errs EXCEPT ![Len(x.errs)] = e]]

Verdict(e) ==
    IF e.ev = "P2Start" THEN
        IF ~ToTopOK(p, aux) THEN "IterationEndedWithoutItsLines"
        ELSE IF ~StartOK(ToTop(p)) THEN "StartNotEnabled"
        ELSE IF e.k # ToTop(p).it + 1 THEN "IterationNumber"
        ELSE "ok"
    ELSE IF e.ev = "IErr0" THEN
        IF ~(p.pc = "inner" /\ p.inner.it = -1 /\ InnerIterOK(p.inner)) THEN "InnerLineNotEnabled"
        ELSE IF ~IsFin(e.e) THEN "InnerErrorNotFinite" ELSE "ok"
    ELSE IF e.ev = "IErrK" THEN
        IF ~(p.pc = "inner" /\ p.inner.it >= 0 /\ p.inner.pc = "tol" /\ InnerIterOK(p.inner)) THEN "InnerLineNotEnabled"
        ELSE IF e.j # p.inner.it + 1 THEN "InnerIterationNumber"
        ELSE IF ~(IsFin(e.e) /\ IsFin(e.d)) THEN "InnerErrorNotFinite"
        ELSE IF ~(e.d - (InnerLastErr(p.inner) - e.e) \in -(2 * Q)..(2 * Q)) THEN "InnerPrintedDecrease"
        ELSE "ok"
    ELSE IF e.ev = "IConv" THEN
        IF ~(p.pc = "inner" /\ p.inner.pc = "tol" /\ CP!TolOK(p.inner, TRUE) /\ e.j = p.inner.it) THEN "InnerConvergenceNotEnabled"
        ELSE IF Len(p.inner.errs) < 2 \/ p.inner.errs[Len(p.inner.errs) - 1] - InnerLastErr(p.inner) \notin -Q..Q THEN "InnerConvergedWithoutMeetingTheRule"
        ELSE "ok"
    ELSE IF e.ev \in {"LsAcc", "LsFail"} THEN
        LET y == AfterInner(p) IN
        IF ~AfterInnerOK(p) THEN "InnerRunCutShort"
        ELSE IF y.pc # "line" THEN "LineSearchNotDue"
        ELSE IF ~(y.accPow <= Len(e.jump_pows) /\ IsFin(e.jump_pows[y.accPow])) THEN "JumpLaw"       \* jump_pows[q] = J^q
        ELSE IF ~(e.jump_pows[y.accPow] - y.it * 1000000 \in -JumpTol..JumpTol) THEN "JumpLaw"
        ELSE "ok"
    ELSE IF e.ev = "Reduce" THEN
        IF ~aux.reduce THEN "ReduceNotEnabled" ELSE "ok"
    ELSE IF e.ev = "P2Err0" THEN
        LET y == AfterInner(p) IN
        IF ~AfterInnerOK(p) THEN "InnerRunCutShort"
        ELSE IF ~(y.pc = "rec" /\ y.c.tol /\ y.it = 0) THEN "ErrorLineNotEnabled"
        ELSE IF ~IsFin(e.e) THEN "ErrorNotFinite" ELSE "ok"
    ELSE IF e.ev = "P2ErrK" THEN
        LET y == AfterInner(p)
            z == IF y.pc = "rec" THEN RecF([y EXCEPT !.lvl = e.e]) ELSE SetLast(y, e.e) IN
        IF ~AfterInnerOK(p) THEN "InnerRunCutShort"
        ELSE IF aux.reduce THEN "MissingReduceLine"
        ELSE IF ~(y.c.tol /\ y.it >= 1 /\ ~aux.printed /\ (y.pc = "rec" \/ (y.pc = "tol" /\ LineDue(y.c, y.it)))) THEN "ErrorLineNotEnabled"
        ELSE IF ~(IsFin(e.e) /\ IsFin(e.v)) THEN "ErrorNotFinite"
        ELSE IF Len(z.errs) < 2 THEN "ErrorListTooShort"
        ELSE IF ~(e.v - (z.errs[Len(z.errs) - 1] - e.e) \in -(2 * Q)..(2 * Q)) THEN "PrintedVariationIsNotSecondToLastMinusLast"
        ELSE IF aux.acc /\ ~(e.e <= aux.prevlast + Q) THEN "AcceptedJumpNotBelowLastError"
        ELSE "ok"
    ELSE IF e.ev = "P2Conv" THEN
        IF ~(p.pc = "tol" /\ aux.printed /\ TolOK(p, TRUE)) THEN "ConvergenceNotEnabled"
        ELSE IF e.k # p.it THEN "IterationNumber"
        ELSE IF ~aux.below THEN "ConvergedWithoutMeetingTheRule"
        ELSE "ok"
    ELSE IF e.ev = "Return" THEN
        LET y == IF p.pc = "done" THEN p ELSE ToTop(p) IN
        IF p.pc = "done" /\ p.exit = "crash" THEN "ReturnedAfterCrashPoint"
        ELSE IF p.pc # "done" /\ ~ToTopOK(p, aux) THEN "IterationEndedWithoutItsLines"
        ELSE IF p.pc # "done" /\ ~CapOK(y) THEN "ReturnedBeforeBudgetOrStop"
        ELSE IF aux.n_errs >= 0 /\ aux.n_errs # Len(y.errs) THEN "ErrorListLength"
        ELSE IF aux.n_errs >= 0 /\ y.c.tol /\ \E k \in 1..Len(y.errs) : ~(aux.returned[k] - y.errs[k] \in -Q..Q) THEN "ReturnedListIsNotTheRecordedOne"
        ELSE "ok"
    ELSE IF e.ev = "Raise" THEN
        IF AfterInnerOK(p) /\ CrashOK(AfterInner(p)) THEN "ok" ELSE "UnexpectedException"
    ELSE "Malformed"

StepTo(e) ==
    CASE e.ev = "P2Start" -> StartF(ToTop(p))
      [] e.ev = "IErr0" -> [p EXCEPT !.inner = InnerIter(p.inner, e.e)]
      [] e.ev = "IErrK" -> [p EXCEPT !.inner = InnerIter(p.inner, e.e)]
      [] e.ev = "IConv" -> [p EXCEPT !.inner = CP!TolF(p.inner, TRUE)]
      \* with tol falsy the line step itself runs (and prints); writing its result into the empty list is what fails next
      [] e.ev = "LsAcc" -> IF LineOK(AfterInner(p)) THEN LineF(AfterInner(p), TRUE, 0) ELSE AfterInner(p)
      [] e.ev = "LsFail" -> IF LineOK(AfterInner(p)) THEN LineF(AfterInner(p), FALSE, 0) ELSE AfterInner(p)
      [] e.ev = "Reduce" -> p
      [] e.ev = "P2Err0" -> RecF([AfterInner(p) EXCEPT !.lvl = e.e])
      [] e.ev = "P2ErrK" -> LET y == AfterInner(p) IN IF y.pc = "rec" THEN RecF([y EXCEPT !.lvl = e.e]) ELSE SetLast(y, e.e)
      [] e.ev = "P2Conv" -> TolF(p, TRUE)
      [] e.ev = "Return" -> IF p.pc = "done" THEN p ELSE CapF(ToTop(p))
      [] e.ev = "Raise" -> CrashF(AfterInner(p))

AuxTo(e) ==
    CASE e.ev = "P2Start" -> [aux EXCEPT !.printed = FALSE, !.below = FALSE, !.acc = FALSE, !.reduce = FALSE]
      [] e.ev = "LsAcc" -> IF LineOK(AfterInner(p)) THEN [aux EXCEPT !.acc = TRUE, !.prevlast = LET y == AfterInner(p) IN y.errs[Len(y.errs)]] ELSE aux
      [] e.ev = "LsFail" -> [aux EXCEPT !.reduce = Reduces(AfterInner(p))]
      [] e.ev = "Reduce" -> [aux EXCEPT !.reduce = FALSE]
      [] e.ev = "P2Err0" -> [aux EXCEPT !.printed = TRUE]
      [] e.ev = "P2ErrK" -> [aux EXCEPT !.printed = TRUE, !.below = e.below]
      [] OTHER -> aux

ValidCfg(c) == /\ c.maxfail \in 1..10 /\ c.accpow \in 1..10 /\ c.cap \in 0..200 /\ c.ninner \in 1..20 /\ c.ls \in BOOLEAN /\ c.tol \in BOOLEAN /\ c.errors \in BOOLEAN

TraceInit == /\ p = InitP(NoCfg, 0) /\ i = 1 /\ failed = FALSE /\ aux = NoAux

TraceNext ==
    /\ i <= Len(Events)
    /\ i' = i + 1
    /\ LET e == Events[i] IN
         IF e.ev = "Call" THEN
             IF ValidCfg(e.cfg)
               THEN /\ p' = InitP(e.cfg, 0) /\ failed' = FALSE
                    /\ aux' = [NoAux EXCEPT !.returned = e.errs, !.n_errs = e.n_errs]
               ELSE /\ PrintT(<<"REJECT", e.id, "InDomain">>)
                    /\ failed' = TRUE /\ UNCHANGED <<p, aux>>
         ELSE IF failed THEN UNCHANGED <<p, failed, aux>>
         ELSE LET v == Verdict(e) IN
             IF v = "ok"
               THEN /\ p' = StepTo(e) /\ aux' = AuxTo(e) /\ failed' = FALSE
               ELSE /\ PrintT(<<"REJECT", e.id, v>>)
                    /\ failed' = TRUE /\ UNCHANGED <<p, aux>>

TraceSpec == TraceInit /\ [][TraceNext]_tvars
TraceErrsLaw == failed \/ (AccLaw /\ (p.c.tol /\ p.pc \in {"top", "tol"} => Len(p.errs) = (p.it + 1) - (IF p.c.ls THEN NumLine(p.it) ELSE 0)))
TraceAccepted == TLCGet("stats").diameter - 1 = Len(Events)
=============================================================================
