SPECIFICATION TraceSpec
CONSTANTS
  Slots = {}
  Digests = {}
  Calls = {}
  Lib = "contract"
POSTCONDITION TraceAccepted
CHECK_DEADLOCK FALSE
