------------------------------- MODULE Tens -------------------------------
(* Dense tensors with exact integer entries, row-major, 0-based multi-indices kept in 1-based    *)
(* TLA+ sequences:  T = [shape |-> <<d1,...,dN>>, data |-> <<x_0, ..., x_{size-1}>>].            *)
(* Base of the Role-B ("exact oracle") specifications.                                          *)
EXTENDS Integers, Sequences, FiniteSets

RECURSIVE ProdSeq(_)
ProdSeq(s) == IF s = <<>> THEN 1 ELSE Head(s) * ProdSeq(Tail(s))
RECURSIVE SumSeq(_)
SumSeq(s) == IF s = <<>> THEN 0 ELSE Head(s) + SumSeq(Tail(s))

Size(shape) == ProdSeq(shape)

\* row-major linear position (0-based) of the 0-based multi-index idx
Lin(shape, idx) ==
    LET F[k \in 0..Len(shape)] == IF k = 0 THEN 0 ELSE F[k - 1] * shape[k] + idx[k]
    IN  F[Len(shape)]

\* inverse of Lin
Unlin(shape, n) ==
    [k \in 1..Len(shape) |-> (n \div ProdSeq(SubSeq(shape, k + 1, Len(shape)))) % shape[k]]

AllIdx(shape) == {Unlin(shape, n) : n \in 0..(Size(shape) - 1)}

At(T, idx) == T.data[Lin(T.shape, idx) + 1]

\* tensor of the given shape whose entry at idx is f[idx]  (f: an operator taking the index tuple)
Build(shape, f(_)) == [shape |-> shape,
                       data  |-> [n \in 1..Size(shape) |-> f(Unlin(shape, n - 1))]]

\* sub-sequence of s at the positions listed in ps (1-based positions)
Pick(s, ps) == [k \in 1..Len(ps) |-> s[ps[k]]]

\* the increasing sequence of the elements of a finite set of integers
RECURSIVE SortedSeq(_)
SortedSeq(S) == IF S = {} THEN <<>>
                ELSE LET m == CHOOSE x \in S : \A y \in S : x <= y
                     IN  <<m>> \o SortedSeq(S \ {m})

SeqRange(s) == {s[k] : k \in 1..Len(s)}

\* transpose: result mode k is input mode perm[k] (perm: 1-based positions), numpy.transpose
Transpose(T, perm) ==
    LET oshape == Pick(T.shape, perm)
        src(oidx) == [m \in 1..Len(T.shape) |-> oidx[CHOOSE k \in 1..Len(perm) : perm[k] = m]]
    IN  [shape |-> oshape,
         data  |-> [n \in 1..Size(oshape) |-> At(T, src(Unlin(oshape, n - 1)))]]

Reshape(T, shape) == [shape |-> shape, data |-> T.data]

IsPerm(p, n) == Len(p) = n /\ SeqRange(p) = 1..n
=============================================================================
