---------------------------- MODULE RegressTrace ----------------------------
(* C19 trace validation.  "reg" events: one fitted CPRegressor / TuckerRegressor with its exposed  *)
(* attributes and its predictions on integer samples; "pls" events: four related CP_PLSR fits      *)
(* (base, constant tensor added to X, constant added to Y, samples permuted).  Arrays are Tens     *)
(* records [shape, data] of integers (floats logged at scale 10^6; non-finite values are integer   *)
(* sentinels beyond 2*10^9).                                                                        *)
EXTENDS Regress, Json, IOUtils

Events == ndJsonDeserialize(IOEnv.TRACE_FILE)
VARIABLE i

\* ---- named tolerances, units of 10^-6
PrecTol == 64     \* units of machine epsilon of the dtype the factors came out in (relative to max(1, |W|)): the exposed
                  \* dense weights / vec_W_ against dense(factors) recomputed in that dtype -- bit-identical on tensorly today
EqTol   == 1      \* two roundings of the same float64 quantity (weight_tensor_ vs dense(factors), vec_W_)
ScoreTol == 20    \* on score(X, Y) against the R^2 formula evaluated on the same predictions (plus 1e-5 relative)
PlsTol  == 2      \* 1e-6 between quantities of two different fits + their roundings
UnitTol(rows) == 4 * rows + 2     \* on SUM a^2 = 1: per entry |a| <= 1 off by 1/2 unit plus truncation < 3

IsFin(v) == AbsI(v) <= 2000000000
AllFin(T) == \A n \in 1..Len(T.data) : IsFin(T.data[n])
With(x, F(_)) == CHOOSE r \in {F(v) : v \in {x}} : TRUE
Close(A, B, tol) == A.shape = B.shape /\ \A n \in 1..Len(A.data) : AbsI(A.data[n] - B.data[n]) <= tol

-----------------------------------------------------------------------------
\* predict() on the same kind of integer samples handed over in another dtype / memory layout: same contraction
FormRunV(c, e, r) ==
    IF ~(IsTens(r.x) /\ Len(r.x.shape) = Len(c.xs) + 1 /\ FeatShape(r.x) = c.xs
         /\ \A n \in 1..Len(r.x.data) : AbsI(r.x.data[n]) <= MaxX) THEN "InDomain"
    ELSE IF r.form = "uint8" /\ \E n \in 1..Len(r.x.data) : r.x.data[n] < 0 THEN "InDomain"
    ELSE IF r.raised THEN "PredictRaised"
    ELSE IF ~IsTens(r.pred) THEN "Shapes"
    ELSE IF ~AllFin(r.pred) THEN "Finite"
    ELSE IF r.pred.shape # PredictShape(r.x, e.weight) THEN "PredictShape"
    ELSE With(Predict(r.x, e.weight), LAMBDA P :
         LET Os == Size(OutDims(r.x, e.weight)) IN
         IF \E m \in 1..Len(P.data) : AbsI(r.pred.data[m] - P.data[m]) > PredTol(r.x, ((m - 1) \div Os) + 1)
         THEN "PredictDataForm" ELSE "ok")
FirstBad(vs) == IF \A k \in DOMAIN vs : vs[k] = "ok" THEN "ok"
                ELSE vs[CHOOSE k \in DOMAIN vs : vs[k] # "ok" /\ \A m \in 1..(k - 1) : vs[m] = "ok"]
FormsV(c, e) ==
    IF {e.forms[k].form : k \in DOMAIN e.forms}
         # (IF c.ux = 0 /\ c.uy = 0 THEN RegDataForms ELSE {"float32", "fortran", "strided"}) THEN "DataForms"   \* integer arrays: base units only
    ELSE FirstBad([k \in DOMAIN e.forms |-> FormRunV(c, e, e.forms[k])])

\* the SAME estimator object fitted again (after set_params(reg_W=...)) on other data of the same shapes: what it
\* exposes and what it predicts must be those of the new fit -- nothing may survive from the first one
RefitV(c, e) ==
    LET r == e.refit IN
    IF r.raised THEN "ok"        \* as for the first fit: a fit that raises exposes nothing (seen on the clean tree: Tucker
                                 \* regression in units 2^30 / 2^-40 can end in LinAlgError "Singular matrix")
    ELSE IF ~(IsTens(r.weight) /\ r.weight.shape = WeightShape(c) /\ IsTens(r.vec) /\ IsTens(r.dense) /\ IsTens(r.pred) /\ IsTens(r.x)) THEN "Shapes"
    ELSE IF ~(AllFin(r.weight) /\ AllFin(r.vec) /\ AllFin(r.dense) /\ AllFin(r.pred)) THEN "Finite"
    ELSE IF ~(FeatShape(r.x) = c.xs /\ \A n \in 1..Len(r.x.data) : AbsI(r.x.data[n]) <= MaxX) THEN "InDomain"
    ELSE IF ~PredictRepresentable(r.x, r.weight) THEN "Unrepresentable"
    ELSE IF r.pred.shape # PredictShape(r.x, r.weight) THEN "PredictShape"
    ELSE With(Predict(r.x, r.weight), LAMBDA P :
         LET Os == Size(OutDims(r.x, r.weight)) IN
         IF \E m \in 1..Len(P.data) : AbsI(r.pred.data[m] - P.data[m]) > PredTol(r.x, ((m - 1) \div Os) + 1) THEN "RefitPredict"
         ELSE IF ~Close(r.dense, r.weight, EqTol) THEN "RefitWeightIsDense"
         ELSE IF ~IsFin(r.prec.wd) \/ r.prec.wd > PrecTol \/ ~IsFin(r.prec.vd) \/ r.prec.vd > PrecTol THEN "RefitWeightPrecision"
         ELSE IF ~(r.vec.shape = <<Size(r.weight.shape)>> /\ \A n \in 1..Len(r.vec.data) : AbsI(r.vec.data[n] - r.weight.data[n]) <= EqTol) THEN "RefitVecW"
         ELSE "ok")

RegV(e) ==
    LET c == e.cfg IN
    IF ~ValidReg(c) THEN "InDomain"
    ELSE IF ~(IsTens(e.xnew) /\ Len(e.xnew.shape) = Len(c.xs) + 1 /\ FeatShape(e.xnew) = c.xs
              /\ \A n \in 1..Len(e.xnew.data) : AbsI(e.xnew.data[n]) <= MaxX) THEN "InDomain"
    ELSE IF ~e.params_ok THEN "ParamsRoundTrip"       \* get_params() returns what the constructor was given, under the published names
    ELSE IF e.fit.raised /\ e.fit.exc = "Timeout" THEN "FitHung"      \* the call never returned (worker killed by the watchdog)
    ELSE IF e.fit.raised THEN "ok"      \* the property speaks about fitted models ("after fitting"): a fit that
                                       \* raises exposes nothing and carries no obligation (counted by the harness)
    ELSE IF e.fit.n_iter \notin 1..MaxIter(c.opt) THEN "IterationBudget"
    ELSE IF ~(IsTens(e.weight) /\ e.weight.shape = WeightShape(c)) THEN "WeightShape"
    ELSE IF ~(IsTens(e.pred) /\ IsTens(e.vec) /\ IsTens(e.dense)) THEN "Shapes"
    ELSE IF ~(AllFin(e.weight) /\ AllFin(e.pred) /\ AllFin(e.vec) /\ AllFin(e.dense)) THEN "Finite"
    ELSE IF ~PredictRepresentable(e.xnew, e.weight) THEN "Unrepresentable"
    ELSE IF e.pred.shape # PredictShape(e.xnew, e.weight) THEN "PredictShape"
    ELSE With(Predict(e.xnew, e.weight), LAMBDA P :
         LET Os == Size(OutDims(e.xnew, e.weight)) IN
         IF \E m \in 1..Len(P.data) : AbsI(e.pred.data[m] - P.data[m]) > PredTol(e.xnew, ((m - 1) \div Os) + 1) THEN "Predict"
         ELSE IF FormsV(c, e) # "ok" THEN FormsV(c, e)
         ELSE IF RefitV(c, e) # "ok" THEN RefitV(c, e)
         ELSE IF ~Close(e.dense, e.weight, EqTol) THEN "WeightIsDense"
         ELSE IF ~IsFin(e.prec.wd) \/ e.prec.wd > PrecTol THEN "WeightIsDensePrecision"
         ELSE IF ~IsFin(e.prec.vd) \/ e.prec.vd > PrecTol THEN "VecWPrecision"
         ELSE IF ~(e.vec.shape = <<Size(e.weight.shape)>> /\ \A n \in 1..Len(e.vec.data) : AbsI(e.vec.data[n] - e.weight.data[n]) <= EqTol) THEN "VecW"
         \* the factors themselves are logged (and contracted here) in the base units only: how a unit is split between
         \* the factors is not determined
         ELSE IF <<c.ux, c.uy>> # <<0, 0>> THEN "ok"
         ELSE IF ~FactorsOK(e.factors, WeightShape(c), c.model) THEN "FactorShapes"
         ELSE IF c.model = "cp" /\ e.factors.fs[1].shape[2] # c.rank THEN "FactorRank"
         ELSE IF c.model = "tucker" /\ e.factors.core.shape # c.ranks THEN "FactorRank"
         ELSE LET K     == Len(WeightShape(c)) + 1
                  first == IF c.model = "cp" THEN e.factors.w ELSE e.factors.core.data
                  terms == Len(first) IN
              IF ~(\A n \in 1..Len(first) : IsFin(first[n])) \/ ~(\A k \in 1..Len(e.factors.fs) : AllFin(e.factors.fs[k])) THEN "Finite"
              ELSE With(MaxMag(e.factors, first), LAMBDA mx :
                   IF ~ChainRepresentable(K, mx) THEN "ok"      \* factors too large for the 32-bit contraction: measured clause only
                   ELSE IF ~Close(IF c.model = "cp" THEN QCPDense(e.factors) ELSE QTuckerDense(e.factors),
                                  e.dense, DenseTol(K, mx, terms)) THEN "DenseDefinition"
                   ELSE "ok"))

-----------------------------------------------------------------------------
Mat(T, a, b) == T.data[(a - 1) * T.shape[2] + b]          \* 1-based matrix entry
IsMat(T, r, c) == IsTens(T) /\ T.shape = <<r, c>>
FitShapesOK(c, f, mtest) ==
    /\ IsMat(f.scores, c.n, c.nc) /\ IsMat(f.transform, c.n, c.nc)
    /\ DOMAIN f.loads = 1..Len(c.xs) /\ \A m \in 1..Len(c.xs) : IsMat(f.loads[m], c.xs[m], c.nc)
    /\ IsMat(f.yload, YCols(c), c.nc) /\ IsMat(f.pred, mtest, YCols(c))
ColNorm2(T, col) == FSum(T.shape[1], LAMBDA a : MulQ6(Mat(T, a, col), Mat(T, a, col)))
UnitCols(T) == \A col \in 1..T.shape[2] : AbsI(ColNorm2(T, col) - S) <= UnitTol(T.shape[1])
\* Two fits "have the same loadings / scores".  On "contrast" data a loading is (c, -c) with bit-identical magnitudes:
\* the sign convention of the SVD start (largest entry positive) sits on an exact tie and round-off decides it, so
\* two fits may differ by the sign of whole columns -- the same model (predictions are compared strictly).
\* Elsewhere equality is demanded as it stands.
ColsMatch(A, B, rowOf(_), sgn) ==      \* A[a, b] = sgn[b] * B[rowOf(a), b]
    A.shape = B.shape /\ \A a \in 1..A.shape[1] : \A b \in 1..A.shape[2] : AbsI(Mat(A, a, b) - sgn[b] * Mat(B, rowOf(a), b)) <= PlsTol
SameMat(c, A, B, rowOf(_)) ==
    IF c.dat = "contrast"
    THEN A.shape = B.shape /\ \A b \in 1..A.shape[2] : \E sg \in {1, -1} :
              \A a \in 1..A.shape[1] : AbsI(Mat(A, a, b) - sg * Mat(B, rowOf(a), b)) <= PlsTol
    ELSE ColsMatch(A, B, rowOf, [b \in 1..A.shape[2] |-> 1])
SameLoads(c, f, g) == /\ \A m \in 1..Len(c.xs) : SameMat(c, f.loads[m], g.loads[m], LAMBDA a : a)
                      /\ SameMat(c, f.yload, g.yload, LAMBDA a : a)
SameScores(c, A, B) == SameMat(c, A, B, LAMBDA a : a)
RowPermuted(c, A, B, perm) == SameMat(c, A, B, LAMBDA a : perm[a] + 1)      \* A[a, :] = B[perm[a] + 1, :]
Shifted(A, B, off) == A.shape = B.shape /\ \A n \in 1..Len(A.data) : AbsI(A.data[n] - off * S - B.data[n]) <= PlsTol

\* base fit: transform(X_train, Y_train) returns (X scores, Y scores) = (X_factors[0], Y_factors[0]); fit_transform of a
\* fresh estimator returns the same; transform / predict do not depend on the memory layout of the data
PlsExtraV(c, e) ==
    LET x == e.extra IN
    IF x.raised THEN "TransformRaised"
    ELSE IF ~(IsMat(x.yscores, c.n, c.nc) /\ IsMat(x.xt, c.n, c.nc) /\ IsMat(x.yt, c.n, c.nc)
              /\ IsMat(x.ftx, c.n, c.nc) /\ IsMat(x.fty, c.n, c.nc)) THEN "Shapes"
    ELSE IF ~(AllFin(x.yscores) /\ AllFin(x.xt) /\ AllFin(x.yt) /\ AllFin(x.ftx) /\ AllFin(x.fty)) THEN "Finite"
    ELSE IF ~Close(x.xt, e.base.scores, PlsTol) THEN "TransformIsScores"
    ELSE IF ~Close(x.yt, x.yscores, PlsTol) THEN "TransformYIsYScores"
    ELSE IF ~Close(x.ftx, e.base.scores, PlsTol) \/ ~Close(x.fty, x.yscores, PlsTol) THEN "FitTransform"
    ELSE IF {x.forms[k].form : k \in DOMAIN x.forms} # PlsDataForms THEN "DataForms"
    ELSE IF \E k \in DOMAIN x.forms : x.forms[k].raised THEN "TransformRaised"
    ELSE IF \E k \in DOMAIN x.forms : ~(IsMat(x.forms[k].transform, c.n, c.nc) /\ IsMat(x.forms[k].pred, e.mtest, YCols(c))
                                          /\ AllFin(x.forms[k].transform) /\ AllFin(x.forms[k].pred)) THEN "Shapes"
    ELSE IF \E k \in DOMAIN x.forms : ~Close(x.forms[k].transform, e.base.scores, PlsTol) THEN "TransformDataForm"
    ELSE IF \E k \in DOMAIN x.forms : ~Close(x.forms[k].pred, e.base.pred, PlsTol) THEN "PredictDataForm"
    \* transform(X, None) is transform(X); score(X, Y) is the documented R^2 of predict(X) against Y about the training
    \* mean of Y (the harness evaluates that formula on the returned predictions: definitional)
    ELSE IF ~(IsMat(x.tnone, c.n, c.nc) /\ AllFin(x.tnone)) THEN "Shapes"
    ELSE IF ~Close(x.tnone, e.base.scores, PlsTol) THEN "TransformSpelling"
    \* (score documents Y as a 2D-array; with a vector Y the unchanged tree broadcasts (n,) against (n, 1) and returns a
    \*  wrong number -- recorded in DESIGN 12, not asserted here)
    ELSE IF c.ny # 0 /\ IsFin(x.score) /\ IsFin(x.score_def) /\ AbsI(x.score - x.score_def) > ScoreTol + AbsI(x.score_def) \div 100000 THEN "ScoreIsR2"
    ELSE IF c.ny # 0 /\ IsFin(x.score) # IsFin(x.score_def) THEN "ScoreIsR2"
    \* a second, fresh estimator fitted on the very same data learns the very same model (default random_state)
    ELSE IF x.again.raised THEN "FitTwiceSame"
    ELSE IF ~FitShapesOK(c, x.again, e.mtest) THEN "Shapes"
    ELSE IF ~(AllFin(x.again.scores) /\ AllFin(x.again.transform) /\ AllFin(x.again.yload) /\ AllFin(x.again.pred)
              /\ \A m \in 1..Len(c.xs) : AllFin(x.again.loads[m])) THEN "Finite"
    ELSE IF ~(SameLoads(c, x.again, e.base) /\ SameScores(c, x.again.scores, e.base.scores) /\ Close(x.again.pred, e.base.pred, PlsTol)) THEN "FitTwiceSame"
    \* a fit that the estimator rejects (first modes of X and Y differ / Y of order 3: documented ValueError) must leave the
    \* fitted model untouched: transform and predict still agree with the exposed attributes
    ELSE IF ~(x.reject.raised /\ x.reject.exc = "ValueError") THEN "BadFitNotRejected"
    ELSE IF ~(IsMat(x.reject.transform, c.n, c.nc) /\ IsMat(x.reject.pred, e.mtest, YCols(c))
              /\ AllFin(x.reject.transform) /\ AllFin(x.reject.pred)) THEN "Shapes"
    ELSE IF ~Close(x.reject.transform, e.base.scores, PlsTol) \/ ~Close(x.reject.pred, e.base.pred, PlsTol) THEN "RejectedFitChangedModel"
    \* the same object fitted again on the permuted data is the model a fresh estimator learns from that data
    ELSE IF x.refit.raised THEN "RefitRaised"
    ELSE IF ~FitShapesOK(c, x.refit, e.mtest) THEN "Shapes"
    ELSE IF ~(AllFin(x.refit.scores) /\ AllFin(x.refit.transform) /\ AllFin(x.refit.yload) /\ AllFin(x.refit.pred)
              /\ \A m \in 1..Len(c.xs) : AllFin(x.refit.loads[m])) THEN "Finite"
    ELSE IF ~(SameLoads(c, x.refit, e.permfit) /\ SameScores(c, x.refit.scores, e.permfit.scores)
              /\ SameScores(c, x.refit.transform, e.permfit.transform) /\ Close(x.refit.pred, e.permfit.pred, PlsTol)) THEN "RefitIndependent"
    ELSE "ok"

PlsV(e) ==
    LET c == e.cfg IN
    IF ~ValidPls(c) THEN "InDomain"
    ELSE IF ~(IsIntSeq(e.perm, c.n) /\ {e.perm[k] : k \in 1..c.n} = 0..(c.n - 1) /\ e.yoff \in 1..9 /\ e.mtest \in 1..8) THEN "InDomain"
    ELSE IF ~e.params_ok THEN "ParamsRoundTrip"
    ELSE IF \E f \in {e.base, e.shiftx, e.shifty, e.permfit} : f.raised /\ f.exc = "Timeout" THEN "FitHung"
    ELSE IF e.base.raised \/ e.shiftx.raised \/ e.shifty.raised \/ e.permfit.raised THEN "ok"   \* no fitted model, no obligation
    ELSE IF \E f \in {e.base, e.shiftx, e.shifty, e.permfit} : ~FitShapesOK(c, f, e.mtest) THEN "Shapes"
    ELSE IF \E f \in {e.base, e.shiftx, e.shifty, e.permfit} :
                 ~(AllFin(f.scores) /\ AllFin(f.transform) /\ AllFin(f.yload) /\ AllFin(f.pred) /\ \A m \in 1..Len(c.xs) : AllFin(f.loads[m])) THEN "Finite"
    ELSE IF \E f \in {e.base, e.shiftx, e.shifty, e.permfit} : ~Close(f.transform, f.scores, PlsTol) THEN "TransformIsScores"
    ELSE IF PlsExtraV(c, e) # "ok" THEN PlsExtraV(c, e)
    ELSE IF \E f \in {e.base, e.shiftx, e.shifty, e.permfit} :
                 ~UnitCols(f.yload) \/ \E m \in 1..Len(c.xs) : ~UnitCols(f.loads[m]) THEN "UnitLoadings"
    ELSE IF ~SameLoads(c, e.base, e.shiftx) \/ ~SameScores(c, e.base.scores, e.shiftx.scores) THEN "ShiftXLoadings"
    ELSE IF ~Close(e.shiftx.pred, e.base.pred, PlsTol) THEN "ShiftXPredict"
    ELSE IF ~SameLoads(c, e.base, e.shifty) \/ ~SameScores(c, e.base.scores, e.shifty.scores) THEN "ShiftYLoadings"
    ELSE IF ~Shifted(e.shifty.pred, e.base.pred, e.yoff) THEN "ShiftYPredict"
    ELSE IF ~RowPermuted(c, e.permfit.scores, e.base.scores, e.perm) THEN "PermScores"
    ELSE IF ~SameLoads(c, e.base, e.permfit) THEN "PermLoadings"
    ELSE IF ~Close(e.permfit.pred, e.base.pred, PlsTol) THEN "PermPredict"
    ELSE IF ~RowPermuted(c, e.permfit.transform, e.base.transform, e.perm) THEN "PermTransform"
    ELSE "ok"

-----------------------------------------------------------------------------
Verdict(e) ==
    CASE e.kind = "reg" -> RegV(e)
      [] e.kind = "pls" -> PlsV(e)
      [] OTHER -> "UnknownKind"

TraceInit == i = 1 /\ cfg = NoCfg
TraceNext == /\ i <= Len(Events)
             /\ i' = i + 1 /\ UNCHANGED cfg
             /\ LET v == Verdict(Events[i]) IN
                  IF v = "ok" THEN TRUE ELSE PrintT(<<"REJECT", Events[i].id, v>>)
TraceSpec == TraceInit /\ [][TraceNext]_<<i, cfg>>
TraceAccepted == TLCGet("stats").diameter - 1 = Len(Events)
=============================================================================
