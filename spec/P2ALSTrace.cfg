SPECIFICATION TraceSpec
CONSTANTS
  Deviation = "none"
  MaxFail = 4
  MaxLevel = 0
  P2Configs <- P2CrashLine
INVARIANT TraceErrsLaw
POSTCONDITION TraceAccepted
CHECK_DEADLOCK FALSE
