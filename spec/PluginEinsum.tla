--------------------------- MODULE PluginEinsum ---------------------------
(* Extension beyond the listed properties (DESIGN.md section 8): tensorly.plugins.                          *)
(*                                                                                                          *)
(*   use_opt_einsum()      PREVIOUS_EINSUM := current_backend().einsum  (only when PREVIOUS_EINSUM is None)  *)
(*                         current_backend().einsum := cached_einsum                                        *)
(*   use_default_einsum()  if PREVIOUS_EINSUM is not None:                                                  *)
(*                             current_backend().einsum := PREVIOUS_EINSUM ; PREVIOUS_EINSUM := None        *)
(*                                                                                                          *)
(* `einsum` is an attribute of the backend CLASS (shared by all threads), PREVIOUS_EINSUM is ONE module       *)
(* global, while the current backend is a per-thread selection over a shared default (BackendStack.tla).     *)
(* The documentation promises "Revert to the original einsum for the current backend".  The model makes the  *)
(* interaction explicit; PrevScope = "global" is the code as found, "per_backend" the obvious repair.        *)
EXTENDS Naturals, TLC

CONSTANTS Threads,      \* thread ids
          Main,         \* the importing thread (starts with a thread-local selection)
          Names,        \* selectable backends
          Default,      \* default backend
          PrevScope,    \* "global" (as found: one saved einsum) | "per_backend" (one saved einsum per backend)
          WithDispatchModes,   \* TRUE: use_static_dispatch() / use_dynamic_dispatch() of the backend manager are part of the model
          MaxOps

None   == "none"
Cached == "cached"                    \* any closure created by use_opt_einsum (they all behave alike)
Orig(b) == b                          \* the einsum backend b was created with is tagged with b's name
PrevKeys == IF PrevScope = "global" THEN {"all"} ELSE Names
PrevKey(b) == IF PrevScope = "global" THEN "all" ELSE b

VARIABLES disp,     \* "dyn", or the einsum tag frozen into the manager's own attribute by use_static_dispatch()
          glob,     \* shared default backend
          loc,      \* [Threads -> backend or None]   thread-local selection
          ein,      \* [Names -> Orig(b') or Cached]  the class attribute `einsum` of every backend
          prev,     \* [PrevKeys -> tag or None]      PREVIOUS_EINSUM
          nops,
          last      \* history: [op, t, b] of the last step
vars == <<disp, glob, loc, ein, prev, nops, last>>

Tags == Names \cup {Cached}

Get(g, l, t) == IF l[t] # None THEN l[t] ELSE g

\* state functions shared with the trace specification -----------------------------------------------------
SelGlob(g, b, local) == IF local THEN g ELSE b
SelLoc(l, t, b) == [l EXCEPT ![t] = b]
OptPrev(p, e, b) == [p EXCEPT ![PrevKey(b)] = IF @ = None THEN e[b] ELSE @]
OptEin(e, b) == [e EXCEPT ![b] = Cached]
DefEin(p, e, b) == IF p[PrevKey(b)] # None THEN [e EXCEPT ![b] = p[PrevKey(b)]] ELSE e
DefPrev(p, b) == [p EXCEPT ![PrevKey(b)] = None]
Dispatch(g, l, e, t) == e[Get(g, l, t)]          \* what tl.einsum(...) runs in thread t: the import-time wrapper, dynamic in BOTH modes
\* what tl.backend.einsum(...) (the manager's own attribute) runs: frozen by use_static_dispatch() for every thread
AttrDispatch(d, g, l, e, t) == IF d = "dyn" THEN e[Get(g, l, t)] ELSE d

InitGlob == Default
InitLoc == [t \in Threads |-> IF t = Main THEN Default ELSE None]
InitEin == [b \in Names |-> Orig(b)]
InitPrev == [k \in PrevKeys |-> None]

Init == /\ disp = "dyn" /\ glob = InitGlob /\ loc = InitLoc /\ ein = InitEin /\ prev = InitPrev
        /\ nops = 0 /\ last = [op |-> None, t |-> None, b |-> None]

Select(t, b, local) ==
    /\ glob' = SelGlob(glob, b, local) /\ loc' = SelLoc(loc, t, b)
    /\ UNCHANGED <<ein, prev, disp>>
    /\ nops' = nops + 1 /\ last' = [op |-> "Select", t |-> t, b |-> b]

UseOpt(t) ==
    LET b == Get(glob, loc, t) IN
    /\ prev' = OptPrev(prev, ein, b) /\ ein' = OptEin(ein, b)
    /\ UNCHANGED <<glob, loc, disp>>
    /\ nops' = nops + 1 /\ last' = [op |-> "Opt", t |-> t, b |-> b]

UseDefault(t) ==
    LET b == Get(glob, loc, t) IN
    /\ ein' = DefEin(prev, ein, b) /\ prev' = DefPrev(prev, b)
    /\ UNCHANGED <<glob, loc, disp>>
    /\ nops' = nops + 1 /\ last' = [op |-> "Default", t |-> t, b |-> b]

\* use_static_dispatch(): the manager's attribute `einsum` is bound to whatever the CALLING thread's backend has right now
UseStatic(t) ==
    /\ WithDispatchModes
    /\ disp' = ein[Get(glob, loc, t)]
    /\ UNCHANGED <<glob, loc, ein, prev>>
    /\ nops' = nops + 1 /\ last' = [op |-> "Static", t |-> t, b |-> Get(glob, loc, t)]
UseDynamic(t) ==
    /\ WithDispatchModes
    /\ disp' = "dyn"
    /\ UNCHANGED <<glob, loc, ein, prev>>
    /\ nops' = nops + 1 /\ last' = [op |-> "Dynamic", t |-> t, b |-> Get(glob, loc, t)]

Next == \E t \in Threads :
           \/ \E b \in Names, local \in BOOLEAN : Select(t, b, local)
           \/ UseOpt(t)
           \/ UseDefault(t)
           \/ UseStatic(t) \/ UseDynamic(t)

Spec == Init /\ [][Next]_vars
Bound == nops <= MaxOps

----------------------------------------------------------------------------
TypeOK == /\ disp \in Tags \cup {"dyn"} /\ glob \in Names /\ loc \in [Threads -> Names \cup {None}]
          /\ ein \in [Names -> Tags] /\ prev \in [PrevKeys -> Tags \cup {None}]

(* What the documentation promises. *)
\* "Revert to the original einsum for the current backend"
RevertIsOriginal == last.op = "Default" => ein[last.b] = Orig(last.b)
\* a backend never ends up running the einsum of another backend
NoForeignEinsum == \A b \in Names : ein[b] \in {Orig(b), Cached}
\* the saved einsum is never itself a plugin closure (else the original is lost for good)
SavedIsAnOriginal == \A k \in PrevKeys : prev[k] # Cached
\* use_opt_einsum takes effect for the calling thread
OptTakesEffect == last.op = "Opt" => Dispatch(glob, loc, ein, last.t) = Cached
\* ... on BOTH surfaces (violated as found once static dispatch is on: the manager's frozen attribute never sees the plugin)
OptTakesEffectOnManagerAttribute == last.op = "Opt" => AttrDispatch(disp, glob, loc, ein, last.t) = Cached
\* selections never touch the plugin state
SelectKeepsPlugins == [][\A t \in Threads, b \in Names, l \in BOOLEAN : Select(t, b, l) => UNCHANGED <<ein, prev>>]_vars
\* the plugin switches never touch the selections
PluginsKeepSelection == [][\A t \in Threads : (UseOpt(t) \/ UseDefault(t)) => UNCHANGED <<glob, loc, disp>>]_vars
=============================================================================
