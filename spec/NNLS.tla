------------------------------- MODULE NNLS -------------------------------
(* C13: the non-negative least-squares problem the solvers of tensorly.solvers.nnls document,    *)
(*                                                                                               *)
(*     minimise   1/2 x^T G x - b^T x + l1 * sum(x) + l2 * |x|^2     subject to  x >= 0          *)
(*                                                                                               *)
(* (G = U^T U symmetric positive definite, b = U^T m; hals_nnls: sparsity_coefficient = l1,       *)
(* ridge_coefficient = l2 -- "the data fitting is halved but not the ridge penalization";        *)
(* fista: sparsity_coef = l1, ridge_coef = l2; active_set_nnls: l1 = l2 = 0), solved *exactly*   *)
(* in rationals: with l1 = p1/q, l2 = p2/q the problem is  min 1/2 x^T A x - c^T x, x >= 0  for   *)
(* the integer data  A = q G + 2 p2 I,  c = q b - p1 1.  For every candidate support ("passive    *)
(* set") P the stationary point of the face {x_i = 0, i \notin P} solves A_PP x_P = c_P (Cramer's *)
(* rule).  P is a KKT set iff x_P > 0 (primal) and (A x - c)_i >= 0 for i \notin P (dual).        *)
(* Theorems checked by TLC on every problem of the domain (invariant SpecOK):                     *)
(*   - exactly one P is a KKT set (existence and uniqueness of the minimiser's support);          *)
(*   - its point x* has a *documented* objective (ObjDoc, written from G, b, l1, l2 directly)     *)
(*     <= that of every feasible lattice neighbour x* + d/den                                    *)
(*     and of every integer point of the box {0..BoxMax}^n;                                       *)
(*   - the same for the lower bound x >= epsilon (hals_nnls / fista option epsilon), LowerBoundOK; *)
(*   - a change of units (design * alpha, data * beta) multiplies the minimiser by beta/alpha;    *)
(*   - the unconstrained solution (what admm(n_const=None) documents) satisfies A x = c exactly   *)
(*     and coincides with x* whenever it is non-negative.                                         *)
EXTENDS Integers, Sequences, FiniteSets, TLC

CONSTANTS Wide,      \* BOOLEAN: the larger set of right-hand sides for 3 unknowns (thorough tier)
          BoxMax     \* integer competitors are taken from {0..BoxMax}^n

BSet2 == -3..3                                            \* entries of right-hand sides, 1 and 2 unknowns
BSet3 == IF Wide THEN {-2, -1, 0, 1, 3} ELSE {-2, 1, 3}   \* entries of right-hand sides, 3 unknowns

AbsN(x) == IF x < 0 THEN -x ELSE x
RECURSIVE SumN(_)
SumN(s) == IF s = <<>> THEN 0 ELSE Head(s) + SumN(Tail(s))
DotN(a, b) == SumN([i \in 1..Len(a) |-> a[i] * b[i]])
MatVec(A, x) == [i \in 1..Len(A) |-> DotN(A[i], x)]
RECURSIVE DetN(_)
DetN(A) == LET n == Len(A) IN
           IF n = 0 THEN 1
           ELSE IF n = 1 THEN A[1][1]
           ELSE LET minor(j) == [r \in 1..(n - 1) |-> [c \in 1..(n - 1) |-> A[r + 1][IF c < j THEN c ELSE c + 1]]]
                IN  SumN([j \in 1..n |-> (IF j % 2 = 1 THEN 1 ELSE -1) * A[1][j] * DetN(minor(j))])
\* increasing sequence of a finite set of integers
RECURSIVE SeqOfSet(_)
SeqOfSet(S) == IF S = {} THEN <<>>
               ELSE LET m == CHOOSE x \in S : \A y \in S : x <= y IN <<m>> \o SeqOfSet(S \ {m})

-----------------------------------------------------------------------------
(* problems *)
Penalties == {<<0, 0, 1>>, <<1, 0, 2>>, <<0, 1, 2>>, <<2, 1, 2>>}      \* (p1, p2, q): (l1, l2) = (0,0), (1/2,0), (0,1/2), (1,1/2)

IsSym(G) == \A i, j \in 1..Len(G) : G[i][j] = G[j][i]
Leading(G, k) == [r \in 1..k |-> [c \in 1..k |-> G[r][c]]]
IsSPD(G) == IsSym(G) /\ \A k \in 1..Len(G) : DetN(Leading(G, k)) > 0       \* Sylvester's criterion

\* the F-13a reproducer of DESIGN.md section 6 is part of the domain
ExtraG2 == { << <<19, 9>>, <<9, 19>> >> }
GramSet(n) ==
    IF n = 1 THEN {<< <<a>> >> : a \in 1..4}
    ELSE IF n = 2 THEN {G \in {<< <<a, o>>, <<o, d>> >> : a \in 1..4, d \in 1..4, o \in -2..2} : IsSPD(G)} \cup ExtraG2
    ELSE {G \in {<< <<d[1], o[1], o[2]>>, <<o[1], d[2], o[3]>>, <<o[2], o[3], d[3]>> >> :
                     d \in [1..3 -> {2, 3}], o \in [1..3 -> {-1, 0, 1}]} : IsSPD(G)}
RhsSet(n) == [1..n -> IF n = 3 THEN BSet3 ELSE BSet2]

ValidGram(G) ==
    /\ Len(G) \in 1..3 /\ \A i \in 1..Len(G) : Len(G[i]) = Len(G)
    /\ IsSPD(G)
    /\ \/ G \in ExtraG2
       \/ CASE Len(G) = 1 -> G[1][1] \in 1..4
            [] Len(G) = 2 -> G[1][1] \in 1..4 /\ G[2][2] \in 1..4 /\ G[1][2] \in -2..2
            [] Len(G) = 3 -> (\A i \in 1..3 : G[i][i] \in {2, 3}) /\ (\A i, j \in 1..3 : i # j => G[i][j] \in {-1, 0, 1})
ValidRhs(b, n) == Len(b) = n /\ \A i \in 1..n : b[i] \in (IF n = 3 THEN BSet3 ELSE BSet2)

\* the integer form
AMat(pr) == [i \in 1..Len(pr.G) |-> [j \in 1..Len(pr.G) |-> pr.q * pr.G[i][j] + (IF i = j THEN 2 * pr.p2 ELSE 0)]]
CVec(pr) == [i \in 1..Len(pr.G) |-> pr.q * pr.b[i] - pr.p1]

-----------------------------------------------------------------------------
(* stationary point of the face with support P: [num, den], x = num/den, den = det(A_PP) > 0 *)
FaceSol(A, c, P) ==
    LET n == Len(A)
        idx == SeqOfSet(P)
        k == Len(idx)
        App == [r \in 1..k |-> [s \in 1..k |-> A[idx[r]][idx[s]]]]
        cp == [r \in 1..k |-> c[idx[r]]]
        col(j) == [r \in 1..k |-> [s \in 1..k |-> IF s = j THEN cp[r] ELSE App[r][s]]]
        pos(i) == CHOOSE r \in 1..k : idx[r] = i
    IN  [num |-> [i \in 1..n |-> IF i \in P THEN DetN(col(pos(i))) ELSE 0], den |-> DetN(App)]

\* w = A x - c  (times den)
DualNum(A, c, x) == [i \in 1..Len(A) |-> DotN(A[i], x.num) - c[i] * x.den]
IsKKT(A, c, P) ==
    \A x \in {FaceSol(A, c, P)} :
        /\ x.den > 0
        /\ \A i \in P : x.num[i] > 0
        /\ \A w \in {DualNum(A, c, x)} : \A i \in (1..Len(A)) \ P : w[i] >= 0
KKTSets(A, c) == {P \in SUBSET (1..Len(A)) : IsKKT(A, c, P)}

\* the minimiser
Solve(pr) == LET A == AMat(pr)
                 c == CVec(pr) IN FaceSol(A, c, CHOOSE P \in SUBSET (1..Len(A)) : IsKKT(A, c, P))
\* the unconstrained minimiser (all coordinates free)
SolveFree(pr) == FaceSol(AMat(pr), CVec(pr), 1..Len(pr.G))

\* Lower bound epsilon = ep/eq > 0 instead of 0 (hals_nnls documents "min_{V >= epsilon}", fista "the solution is
\* greater than epsilon instead of zero"):  x = epsilon + y, y >= 0 minimises 1/2 y^T A y - (c - epsilon A 1)^T y, so
\* w = eq * y is the NNLS solution for (A, eq c - ep A 1) and  x = (ep w.den + w.num) / (eq w.den).
CVecLB(pr, ep, eq) == LET A == AMat(pr)
                          c == CVec(pr) IN [i \in 1..Len(A) |-> eq * c[i] - ep * SumN(A[i])]
SolveLB(pr, ep, eq) ==
    LET A == AMat(pr)
        c2 == CVecLB(pr, ep, eq)
        w == FaceSol(A, c2, CHOOSE P \in SUBSET (1..Len(A)) : IsKKT(A, c2, P))
    IN  [num |-> [i \in 1..Len(A) |-> ep * w.den + w.num[i]], den |-> eq * w.den]

\* The documented objective itself (not the integer form A, c):
\*   2 q den^2 (1/2 x^T G x - b^T x + l1 sum(x) + l2 |x|^2)   for x = num/den, l1 = p1/q, l2 = p2/q
ObjDoc(pr, num, den) ==
    pr.q * DotN(num, MatVec(pr.G, num)) - 2 * pr.q * den * DotN(pr.b, num)
      + 2 * pr.p1 * den * SumN(num) + 2 * pr.p2 * DotN(num, num)

\* the epsilon-bounded minimiser: unique KKT set of the shifted problem, feasible, and its documented objective is
\* <= that of every lattice neighbour and integer box point that respects the bound
EpsSet == {<<1, 2>>}                   \* epsilon = 1/2 (any positive value is a documented lower bound)
LowerBoundOK(pr, ep, eq) ==
    LET n == Len(pr.G) IN
    pr.G \notin ExtraG2 =>
    \A A \in {AMat(pr)} : \A c2 \in {CVecLB(pr, ep, eq)} :
    /\ Cardinality(KKTSets(A, c2)) = 1
    /\ \A x \in {SolveLB(pr, ep, eq)} : \A ox \in {ObjDoc(pr, x.num, x.den)} :
        /\ x.den > 0 /\ \A i \in 1..n : x.num[i] * eq >= ep * x.den
        /\ \A d \in [1..n -> {-1, 0, 1}] :
             \A y \in {[i \in 1..n |-> x.num[i] + d[i]]} :
                (\A i \in 1..n : y[i] * eq >= ep * x.den) => ox <= ObjDoc(pr, y, x.den)
        /\ \A y0 \in [1..n -> 1..BoxMax] : ox <= ObjDoc(pr, [i \in 1..n |-> y0[i] * x.den], x.den)

\* Change of units: design times alpha, data times beta  =>  G -> alpha^2 G, b -> alpha beta b, and the penalties keep
\* their meaning as l1 -> alpha beta l1, l2 -> alpha^2 l2; the minimiser is multiplied by beta/alpha (the KKT conditions
\* are homogeneous).  Checked for (alpha, beta) = (2, 1) and (1, 2); the binding uses powers of two, which are exact in
\* binary floating point.
Rescaled(pr, al, be) == [G |-> [i \in 1..Len(pr.G) |-> [j \in 1..Len(pr.G) |-> al * al * pr.G[i][j]]],
                         b |-> [i \in 1..Len(pr.b) |-> al * be * pr.b[i]],
                         p1 |-> al * be * pr.p1, p2 |-> al * al * pr.p2, q |-> pr.q]
ScaleInvariant(pr) ==
    \A x \in {Solve(pr)} : \A ab \in {<<2, 1>>, <<1, 2>>} :
        \A y \in {Solve(Rescaled(pr, ab[1], ab[2]))} :
            \A i \in 1..Len(pr.G) : y.num[i] * x.den * ab[1] = ab[2] * x.num[i] * y.den
MagSet == {-40, -20, 0, 30}            \* binary exponents of alpha and beta used by the binding

ProblemOK(pr) ==
    LET n == Len(pr.G) IN
    \A A \in {AMat(pr)} : \A c \in {CVec(pr)} :
    /\ \A e \in EpsSet : LowerBoundOK(pr, e[1], e[2])
    /\ ScaleInvariant(pr)
    /\ IsSPD(pr.G) /\ IsSPD(A)
    /\ \A K \in {KKTSets(A, c)} :
        /\ Cardinality(K) = 1
        /\ \A P \in K : \A x \in {FaceSol(A, c, P)} : \A ox \in {ObjDoc(pr, x.num, x.den)} :
            \* lattice neighbours at the resolution of the solution
            /\ \A d \in [1..n -> {-1, 0, 1}] :
                 \A y \in {[i \in 1..n |-> x.num[i] + d[i]]} :
                    (\A i \in 1..n : y[i] >= 0) => ox <= ObjDoc(pr, y, x.den)
            \* integer points of the box
            /\ \A y0 \in [1..n -> 0..BoxMax] :
                 ox <= ObjDoc(pr, [i \in 1..n |-> y0[i] * x.den], x.den)
            \* unconstrained solution: exact stationarity; equals x* when non-negative
            /\ \A u \in {FaceSol(A, c, 1..n)} :
                 /\ \A i \in 1..n : DotN(A[i], u.num) = c[i] * u.den
                 /\ (\A i \in 1..n : u.num[i] >= 0) => \A i \in 1..n : u.num[i] * x.den = x.num[i] * u.den

-----------------------------------------------------------------------------
(* the domain as TLC states: one initial state per (Gram matrix, penalty), one successor per b *)
VARIABLE cfg
NoCfg == [op |-> "none"]
Init == cfg \in {[op |-> "start", G |-> G, p1 |-> pen[1], p2 |-> pen[2], q |-> pen[3]]
                    : G \in UNION {GramSet(n) : n \in 1..3}, pen \in Penalties}
Next == /\ cfg.op = "start"
        /\ cfg' \in {[op |-> "nnls", G |-> cfg.G, b |-> b, p1 |-> cfg.p1, p2 |-> cfg.p2, q |-> cfg.q] : b \in RhsSet(Len(cfg.G))}
Spec == Init /\ [][Next]_cfg
SpecOK == cfg.op = "nnls" => ProblemOK(cfg)
=============================================================================
