SPECIFICATION Spec
CONSTANTS
  ShapeSet <- ThoroughShapes
  MaxTTRank = 5
  MaxTRRank = 3
INVARIANT SpecOK
