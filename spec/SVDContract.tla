---------------------------- MODULE SVDContract ----------------------------
(* C05: what a caller of tensorly's SVD interface may rely on, written from the docstrings of       *)
(* svd_checks / truncated_svd / symeig_svd / randomized_svd / svd_flip / make_svd_non_negative /    *)
(* svd_interface and from the textbook (Eckart-Young-Mirsky), not from the implementation.          *)
(*                                                                                                  *)
(* Exactly computable part (this module decides it without any help):                               *)
(*   - the clamp of n_eigenvecs and the shapes of the returned triple as a function of (m, n, k);   *)
(*   - for generalised permutation matrices (at most one non-zero integer per row and per column,   *)
(*     zero rows / columns allowed) the exact spectrum = the magnitudes sorted, padded with zeros,  *)
(*     and the exact best rank-k error^2 = sum of the discarded squared magnitudes;                 *)
(*   - which clauses a run is obliged to meet, per method and option.                               *)
(* For arbitrary matrices (measured tier) the spectrum and the tails are *inputs* of the contract   *)
(* (measured by an independent LAPACK call in the harness); the obligations are the same.           *)
(*                                                                                                  *)
(* Conventions.  k = 0 encodes n_eigenvecs=None.  Row/column indices are 0-based.  Singular values  *)
(* and squared errors are exchanged as rint(x * 10^6); Gram deviations as rint(x * 10^8).           *)
EXTENDS Integers, Sequences, FiniteSets, TLC

CONSTANTS MaxDim          \* exact tier: shapes 1..MaxDim x 1..MaxDim

Scale == 1000000

MaxOf(a, b) == IF a >= b THEN a ELSE b
MinOf(a, b) == IF a <= b THEN a ELSE b
Abs(x) == IF x < 0 THEN -x ELSE x

\* ------------------------------------------------------------------ tolerances (named, see report)
STol     == 1     \* |S - sigma| <= 1e-6   (absolute; exact-tier sigma <= 5, measured tier ||A||_F <= 4)
ErrTol   == 2     \* | ||A-USV||^2 - sum of discarded sigma^2 | <= 2e-6
OrthTol  == 1     \* max |U^T U - I|, max |V V^T - I| <= 1e-8  (float64; quantised at 1e-8)
ProdTol  == 1     \* max |USV(flipped) - USV(unflipped)| <= 1e-8
\* sign clause: a deciding vector whose two largest magnitudes differ by < 1e-9 is logged with tie=TRUE
\* and is waived (the "largest-magnitude entry" is not unique).

\* ------------------------------------------------------------------ options
Methods   == {"truncated_svd", "symeig_svd", "randomized_svd", "callable"}
Overs     == {0, 1, 5, 10}                 \* n_oversamples handed to randomized_svd (5 = the default)
NIters    == {0, 1, 2}                     \* n_iter (power iterations) handed to randomized_svd (2 = the default)
Pow2s     == {-650, -530, -400, 0, 400, 650}  \* the matrix handed over is A * 2^pow2 (exact scaling; S is divided by it again)
Masks     == {"off", "ones"}
\* How `method` is handed to svd_interface ("acceptable values in tensorly.SVD_FUNS or a callable"):
\*   "name"    the string;                       "libfun"  the library's own function object;
\*   "partial" functools.partial of it (sketch options bound in the partial);
\*   "lambda"  lambda m, n_eigenvecs=None, **kw: f(m, n_eigenvecs, **kw)   (options travel through **kw);
\*   "kwonly"  def g(matrix, *, n_eigenvecs=None, **kw)      (the rank can only be bound by keyword);
\*   "second"  def g(matrix, full_matrices=False, n_eigenvecs=None, **kw)   (another option precedes the rank);
\*   "object"  an instance with __call__(self, matrix, n_eigenvecs=None, **kw);  "bound"  a bound method.
\* svd_interface documents the call  method(matrix, n_eigenvecs=..., **kwargs): every form wraps the same routine
\* and must therefore meet the contract of that routine, with every forwarded option taking effect.
Forms     == {"name", "libfun", "partial", "lambda", "kwonly", "second", "object", "bound"}               \* mask=None | an all-ones mask ("nothing is missing": same contract)
Flips     == {"off", "U", "V"}             \* flip_sign=False | u_based_flip_sign=True | False
NonNegs   == {"off", "nndsvda", "nndsvd"}  \* non_negative = False | True (documented default type) | "nndsvd"
Vias      == {"interface", "direct"}       \* svd_interface(...) | the method function called directly
Ks(m, n)  == 0..(MaxOf(m, n) + 1)          \* 0 = None; up to one past max(shape)

\* The sketch parameters of randomized_svd (n_oversamples, n_iter) only influence HOW the range is found;
\* whenever the sketch covers the rank the contract is the same for every value, n_iter = 0 included.
\* The grid: every (flip, non_negative) combination for the default n_iter with oversampling 0 / default;
\* the other sketch parameters and the all-ones mask with the plain call (flip off, non_negative off).
\* Ways of making the SAME call; they rotate over the runs and are not part of the coverage key:
\*   cform  "mixed" (matrix positional, options by keyword) | "pos" (every published parameter positionally, in the
\*          published order) | "kw" (every parameter, the matrix too, by its published name).  The published
\*          signatures are frozen in the harness (SIGNATURES), not read from the live code.
\*   entry  the module alias the function is taken from: tensorly.tenalg.svd | tensorly.tenalg | tensorly
\*   path   "interface" | "helpers": the method function, then the public helpers svd_flip / make_svd_non_negative
\*          called directly -- what the interface documents it does
\*   nnspell  spelling of non_negative: off = "omitted" | "none" | "false";  nndsvda = "true" | "name"
\*   retry  the same call made right after a call that failed half-way (unknown method name) was caught
CallForms == {"mixed", "pos", "kw"}
Entries   == {"svd", "tenalg", "tl"}
Paths     == {"interface", "helpers"}
NNSpells  == {"omitted", "none", "false", "true", "name"}
ValidHow(r) ==
    /\ r.cform \in CallForms /\ r.entry \in Entries /\ r.path \in Paths /\ r.nnspell \in NNSpells /\ r.retry \in BOOLEAN
    /\ (r.entry \in {"tenalg", "tl"} => r.via = "interface" \/ r.method = "truncated_svd")       \* what those modules export
    /\ (r.path = "helpers" => r.via = "interface" /\ r.form = "name" /\ r.mask = "off")
    /\ (r.nonneg = "off" => r.nnspell \in {"omitted", "none", "false"})
    /\ (r.nonneg = "nndsvda" => r.nnspell \in {"true", "name"}) /\ (r.nonneg = "nndsvd" => r.nnspell = "name")
\* zeros of the matrix handed over: +0.0, -0.0, or the smallest subnormal 5e-324 (the matrix is the same to 1e-300)
ZeroForms == {"pos", "neg", "sub"}

\* the form every earlier dimension of the grid is run with: the name, or for the harness's own economy routine
\* a plain function
DefaultForm(r) == r.form = (IF r.method = "callable" THEN "lambda" ELSE "name")

ValidOpt(m, n, r) ==
    /\ r.method \in Methods /\ r.flip \in Flips /\ r.nonneg \in NonNegs /\ r.via \in Vias
    /\ r.k \in Ks(m, n)
    /\ r.over \in Overs /\ r.niter \in NIters /\ r.mask \in Masks
    /\ (r.method # "randomized_svd" => r.over = 5 /\ r.niter = 2)
    /\ (r.via = "direct" => r.flip = "off" /\ r.nonneg = "off" /\ r.method # "callable" /\ r.mask = "off")
    /\ (r.niter # 2 \/ r.over \notin {0, 5} => r.flip = "off" /\ r.nonneg = "off")
    /\ (r.niter # 2 => r.over \in {0, 5})
    \* the mask is only read when n_eigenvecs is given (docstring); then it triggers the imputation loop
    /\ (r.mask = "ones" => r.k # 0 /\ r.flip = "off" /\ r.nonneg = "off" /\ r.over = 5 /\ r.niter = 2)
    \* magnitude regime: the contract is scale invariant.  2^650 ~ 4.7e195 and 2^-530 ~ 2.8e-160 are representable,
    \* their squares are not (overflow / denormal): a genuine SVD never needs them.  symeig_svd is DEFINED through
    \* the Gram matrix A^T A and is obliged only while that is representable (|pow2| <= 400).  Plain calls only.
    /\ r.form \in Forms
    /\ (r.method = "callable" => r.form \notin {"name", "libfun"})
    /\ (r.via = "direct" => r.form = "name")
    \* the non-default forms: plain calls (flip off, non_negative off, no mask, unit magnitude), n_eigenvecs in
    \* {None, 1, 2}, default sketch or oversampling 0 / 10
    /\ (~DefaultForm(r) => /\ r.flip = "off" /\ r.nonneg = "off" /\ r.mask = "off" /\ r.pow2 = 0 /\ r.niter = 2
                           /\ r.over \in {0, 5, 10})
    /\ r.pow2 \in Pow2s
    /\ (r.pow2 # 0 => /\ r.flip = "off" /\ r.nonneg = "off" /\ r.mask = "off" /\ r.over = 5 /\ r.niter = 2 /\ r.k \in {0, 1, 2}
                      /\ (r.method = "symeig_svd" => r.pow2 >= -400 /\ r.pow2 <= 400))

DefaultFormOf(meth) == IF meth = "callable" THEN "lambda" ELSE "name"
AllOpts(m, n) ==
    UNION {{r \in [method : {meth}, over : Overs, niter : NIters, mask : Masks, k : Ks(m, n), flip : Flips, nonneg : NonNegs, via : Vias,
                   pow2 : {0}, form : {DefaultFormOf(meth)}] : ValidOpt(m, n, r)} : meth \in Methods}
    \cup UNION {{r \in [method : {meth}, over : {5}, niter : {2}, mask : {"off"}, k : {0, 1, 2}, flip : {"off"}, nonneg : {"off"}, via : Vias,
                         pow2 : Pow2s \ {0}, form : {DefaultFormOf(meth)}] : ValidOpt(m, n, r)} : meth \in Methods}
    \cup UNION {{r \in [method : {meth}, over : {0, 5, 10}, niter : {2}, mask : {"off"}, k : {0, 1, 2}, flip : {"off"}, nonneg : {"off"},
                         via : {"interface"}, pow2 : {0}, form : Forms \ {DefaultFormOf(meth)}] : ValidOpt(m, n, r)} : meth \in Methods}

OptKey(r) == [method |-> r.method, over |-> r.over, niter |-> r.niter, mask |-> r.mask, k |-> r.k, flip |-> r.flip,
              nonneg |-> r.nonneg, via |-> r.via, pow2 |-> r.pow2, form |-> r.form]

\* ------------------------------------------------------------------ clamp and documented shapes
\* svd_checks: "n_eigenvecs=None -> max_dim;  n_eigenvecs > max_dim -> max_dim (warning)".
Clamp(m, n, k) == IF k = 0 \/ k > MaxOf(m, n) THEN MaxOf(m, n) ELSE k

\* The built-in methods document U (m, n_eigenvecs), S (n_eigenvecs,), V (n_eigenvecs, n); a matrix
\* has only m left / n right singular vectors and min(m, n) singular values, so each count is cut there.
\* The callable used by the harness is a thin *economy* SVD: it returns min(k, min_dim) of everything
\* (and min_dim for None) -- svd_interface must pass its output through unchanged.
KEff(meth, m, n, k) ==
    IF meth = "callable" THEN (IF k = 0 THEN MinOf(m, n) ELSE MinOf(k, MinOf(m, n))) ELSE Clamp(m, n, k)
NU(meth, m, n, k) == MinOf(KEff(meth, m, n, k), m)
NS(meth, m, n, k) == MinOf(KEff(meth, m, n, k), MinOf(m, n))
NV(meth, m, n, k) == MinOf(KEff(meth, m, n, k), n)
ShapesOf(meth, m, n, k) ==
    [U |-> <<m, NU(meth, m, n, k)>>, S |-> <<NS(meth, m, n, k)>>, V |-> <<NV(meth, m, n, k), n>>]

\* ------------------------------------------------------------------ generalised permutation matrices
\* c = [op |-> "gperm", m, n, rows, cols, vals, fam]: entry (rows[t], cols[t]) = vals[t], all others 0.
SeqSet(s) == {s[t] : t \in 1..Len(s)}
Injective(s) == Cardinality(SeqSet(s)) = Len(s)
Increasing(s) == \A t \in 1..(Len(s) - 1) : s[t] < s[t + 1]

Magnitudes(c) == [t \in 1..Len(c.vals) |-> Abs(c.vals[t])]
Tied(c) == ~Injective(Magnitudes(c))

ValidGperm(c) ==
    /\ c.m \in 1..MaxDim /\ c.n \in 1..MaxDim
    /\ Len(c.rows) \in 1..3 /\ Len(c.cols) = Len(c.rows) /\ Len(c.vals) = Len(c.rows)
    /\ SeqSet(c.rows) \subseteq 0..(c.m - 1) /\ SeqSet(c.cols) \subseteq 0..(c.n - 1)
    /\ Increasing(c.rows) /\ Injective(c.cols)            \* canonical listing: by row
    /\ \A t \in 1..Len(c.vals) : Abs(c.vals[t]) \in {1, 2, 3, 5}
    /\ c.fam = (IF Tied(c) THEN "tied" ELSE "distinct")    \* the marked sub-family

EntryAt(c, i, j) ==
    IF \E t \in 1..Len(c.rows) : c.rows[t] = i /\ c.cols[t] = j
    THEN c.vals[CHOOSE t \in 1..Len(c.rows) : c.rows[t] = i /\ c.cols[t] = j] ELSE 0

\* row-major data, as the harness feeds it to tensorly
DataOf(c) == [p \in 1..(c.m * c.n) |-> EntryAt(c, (p - 1) \div c.n, (p - 1) % c.n)]

\* descending sort of a sequence of naturals
RECURSIVE SortDesc(_)
SortDesc(s) ==
    IF s = <<>> THEN <<>>
    ELSE LET t == CHOOSE a \in 1..Len(s) : \A b \in 1..Len(s) : s[a] >= s[b]
         IN  <<s[t]>> \o SortDesc([u \in 1..(Len(s) - 1) |-> IF u < t THEN s[u] ELSE s[u + 1]])

\* singular values of a generalised permutation matrix: A^T A is diagonal with the squared magnitudes
\* (theorem GramDiagonal below), so sigma = magnitudes sorted, padded with zeros to min(m, n).
Spectrum(c) ==
    LET d == SortDesc(Magnitudes(c)) IN
    [t \in 1..MinOf(c.m, c.n) |-> IF t <= Len(d) THEN d[t] ELSE 0]

RankOf(c) == Len(c.vals)

RECURSIVE SumSq(_, _)
SumSq(s, from) == IF from > Len(s) THEN 0 ELSE s[from] * s[from] + SumSq(s, from + 1)

\* Eckart-Young-Mirsky: min over rank<=j matrices B of ||A - B||_F^2 = sum_{t > j} sigma_t^2
BestErr2(c, j) == SumSq(Spectrum(c), j + 1)

\* what the trace contract needs of a matrix, in exchange units (same record in both tiers)
ExactFacts(c) ==
    [spec  |-> [t \in 1..MinOf(c.m, c.n) |-> Spectrum(c)[t] * Scale],
     tail2 |-> [j \in 1..(MinOf(c.m, c.n) + 1) |-> BestErr2(c, j - 1) * Scale],   \* tail2[j+1] = discard all but j
     rank  |-> RankOf(c)]

\* ------------------------------------------------------------------ obligations of one run
\* randomized_svd is obliged to be exact only when the sketch covers the rank
Covered(meth, m, n, k, over, rank) ==
    meth # "randomized_svd" \/ MinOf(Clamp(m, n, k) + over, MaxOf(m, n)) >= rank

\* Every quantised measurement x_q comes with a flag r.fin.x: FALSE when the value was NaN, infinite or
\* out of the exchange range (then x_q is 0 and must not be used).

\* r: the logged run; f: facts (spec, tail2, rank).  First failing clause, "ok" if none.
RunVerdict(m, n, f, r) ==
    IF ~ValidOpt(m, n, r) THEN "InDomain"
    ELSE IF ~ValidHow(r) THEN "InDomain"
    ELSE IF r.raised THEN "Raised"
    ELSE
    LET sh  == ShapesOf(r.method, m, n, r.k)
        ns  == NS(r.method, m, n, r.k)
        cov == Covered(r.method, m, n, r.k, r.over, f.rank)
        nd  == IF r.flip = "U" THEN NU(r.method, m, n, r.k) ELSE NV(r.method, m, n, r.k)
    IN
    IF r.shU # sh.U \/ r.shS # sh.S \/ r.shV # sh.V \/ Len(r.S_q) # ns THEN "Shapes"
    ELSE IF ~r.fin.S THEN "SNonNegSorted"
    ELSE IF \E t \in 1..ns : r.S_q[t] < 0 THEN "SNonNegSorted"
    ELSE IF \E t \in 1..(ns - 1) : r.S_q[t] < r.S_q[t + 1] THEN "SNonNegSorted"
    ELSE IF cov /\ (\E t \in 1..ns : Abs(r.S_q[t] - f.spec[t]) > STol) THEN "Spectrum"
    ELSE IF ~cov /\ (\E t \in 1..ns : r.S_q[t] > f.spec[t] + STol) THEN "Spectrum"     \* interlacing
    ELSE IF r.nonneg = "off" THEN
         IF ~r.fin.gU THEN "OrthU"
         ELSE IF r.gU_q > OrthTol THEN "OrthU"
         ELSE IF ~r.fin.gV THEN "OrthV"
         ELSE IF r.gV_q > OrthTol THEN "OrthV"
         ELSE IF ~r.fin.err2 THEN "EckartYoung"
         ELSE IF cov /\ Abs(r.err2_q - f.tail2[ns + 1]) > ErrTol THEN "EckartYoung"
         ELSE IF ~cov /\ r.err2_q < f.tail2[ns + 1] - ErrTol THEN "EckartYoung"       \* nothing beats the optimum
         ELSE IF r.flip = "off" THEN "ok"
         ELSE IF Len(r.signs) # nd \/ Len(r.ties) # nd THEN "SignCanonical"
         ELSE IF \E t \in 1..nd : ~r.ties[t] /\ r.signs[t] # 1 THEN "SignCanonical"
         ELSE IF ~r.fin.pd THEN "SignCanonical"
         ELSE IF r.pd_q > ProdTol THEN "SignCanonical"
         ELSE "ok"
    ELSE \* non_negative requested: U, V are replaced by the NNDSVD factors; S is untouched
         IF ~r.fin.minU \/ ~r.fin.minV THEN "NonNegFinite"
         ELSE IF r.minU_q < 0 \/ r.minV_q < 0 THEN "NonNegative"
         ELSE "ok"

\* ------------------------------------------------------------------ theorems about the specification
Positions(c) == 1..Len(c.vals)
\* error^2 of keeping only the entries listed in K (a rank-|K| matrix) = sum of the dropped squares
KeepErr2(c, K) == LET F[t \in 0..Len(c.vals)] ==
                        IF t = 0 THEN 0 ELSE F[t - 1] + (IF t \in K THEN 0 ELSE c.vals[t] * c.vals[t])
                  IN  F[Len(c.vals)]

SpecOKFor(c) ==
    LET sp == Spectrum(c)
        mn == MinOf(c.m, c.n)
        total == LET G[p \in 0..(c.m * c.n)] == IF p = 0 THEN 0 ELSE G[p - 1] + DataOf(c)[p] * DataOf(c)[p]
                 IN  G[c.m * c.n]
    IN
    /\ ValidGperm(c)
    \* the listing really is a generalised permutation matrix: <= 1 non-zero per row / column
    /\ \A i \in 0..(c.m - 1) : Cardinality({j \in 0..(c.n - 1) : EntryAt(c, i, j) # 0}) <= 1
    /\ \A j \in 0..(c.n - 1) : Cardinality({i \in 0..(c.m - 1) : EntryAt(c, i, j) # 0}) <= 1
    \* GramDiagonal: A^T A is diagonal, its diagonal is the multiset of squared magnitudes and zeros
    /\ \A j1, j2 \in 0..(c.n - 1) :
          LET g == LET H[i \in 0..c.m] == IF i = 0 THEN 0 ELSE H[i - 1] + EntryAt(c, i - 1, j1) * EntryAt(c, i - 1, j2)
                   IN  H[c.m]
          IN  IF j1 # j2 THEN g = 0
              ELSE g = (IF \E t \in Positions(c) : c.cols[t] = j1
                        THEN LET t == CHOOSE u \in Positions(c) : c.cols[u] = j1 IN c.vals[t] * c.vals[t] ELSE 0)
    \* spectrum: right length, non-negative, non-increasing, rank many non-zeros
    /\ Len(sp) = mn /\ RankOf(c) <= mn
    /\ \A t \in 1..mn : sp[t] >= 0
    /\ \A t \in 1..(mn - 1) : sp[t] >= sp[t + 1]
    /\ Cardinality({t \in 1..mn : sp[t] > 0}) = RankOf(c)
    \* Eckart-Young value: consistent with the data, telescoping, monotone, zero from the rank on
    /\ BestErr2(c, 0) = total
    /\ \A j \in 0..(mn - 1) : BestErr2(c, j) - BestErr2(c, j + 1) = sp[j + 1] * sp[j + 1]
    /\ \A j \in 0..(mn - 1) : BestErr2(c, j) >= BestErr2(c, j + 1)
    /\ \A j \in RankOf(c)..mn : BestErr2(c, j) = 0
    /\ \A j \in 0..(RankOf(c) - 1) : BestErr2(c, j) > 0
    \* optimal against every competitor that keeps at most j of the non-zero entries, and attained
    /\ \A j \in 0..mn :
          /\ \A K \in SUBSET Positions(c) : Cardinality(K) <= j => KeepErr2(c, K) >= BestErr2(c, j)
          /\ \E K \in SUBSET Positions(c) : Cardinality(K) <= j /\ KeepErr2(c, K) = BestErr2(c, j)
    \* clamp and shapes
    /\ \A k \in Ks(c.m, c.n) :
          /\ Clamp(c.m, c.n, k) \in 1..MaxOf(c.m, c.n)
          /\ Clamp(c.m, c.n, Clamp(c.m, c.n, k)) = Clamp(c.m, c.n, k)
          /\ (k \in 1..MaxOf(c.m, c.n) => Clamp(c.m, c.n, k) = k)
          /\ \A meth \in Methods :
                /\ NS(meth, c.m, c.n, k) = MinOf(NU(meth, c.m, c.n, k), NV(meth, c.m, c.n, k))
                /\ NS(meth, c.m, c.n, k) \in 1..mn
                /\ NU(meth, c.m, c.n, k) <= c.m /\ NV(meth, c.m, c.n, k) <= c.n
          \* the default oversampling always covers these small matrices; without it coverage is k >= rank
          /\ Covered("randomized_svd", c.m, c.n, k, 5, RankOf(c)) = (MinOf(Clamp(c.m, c.n, k) + 5, MaxOf(c.m, c.n)) >= RankOf(c))
          /\ Covered("randomized_svd", c.m, c.n, k, 0, RankOf(c)) = (Clamp(c.m, c.n, k) >= RankOf(c))
    /\ ExactFacts(c).tail2[mn + 1] = 0

\* ------------------------------------------------------------------ the domain, enumerated as states
\* signed value sequences of length r: every assignment of the magnitudes to the listed positions
SignedVals(r) == [1..r -> {-5, -3, -2, -1, 1, 2, 3, 5}]

\* magnitude multisets of the exact tier (as sets of allowed sorted magnitude sequences)
MagMenus == { <<3>>, <<5>>,
              <<5, 2>>, <<3, 1>>, <<2, 2>>,
              <<5, 3, 2>>, <<5, 2, 1>>, <<3, 3, 1>>, <<5, 2, 2>>, <<2, 2, 2>> }

Placements(m, n, r) ==
    {p \in [rows : [1..r -> 0..(m - 1)], cols : [1..r -> 0..(n - 1)]] : Increasing(p.rows) /\ Injective(p.cols)}

ValsFor(r) == {w \in SignedVals(r) : SortDesc([t \in 1..r |-> Abs(w[t])]) \in MagMenus}

MatricesAt(m, n, rows, cols) ==
    {[op |-> "gperm", m |-> m, n |-> n, rows |-> rows, cols |-> cols, vals |-> v,
      fam |-> IF Injective([t \in 1..Len(rows) |-> Abs(v[t])]) THEN "distinct" ELSE "tied"] : v \in ValsFor(Len(rows))}

VARIABLE cfg
NoCfg == [op |-> "none"]
Init == \/ cfg \in {[op |-> "shape", m |-> m, n |-> n] : m \in 1..MaxDim, n \in 1..MaxDim}
        \/ cfg = [op |-> "options", methods |-> Methods, overs |-> Overs, flips |-> Flips, nonnegs |-> NonNegs,
                 niters |-> NIters, masks |-> Masks, pow2s |-> Pow2s, forms |-> Forms]
\* three levels (shape -> placement -> matrix) so that TLC's workers share the enumeration
Next == \/ /\ cfg.op = "shape"
           /\ cfg' \in {[op |-> "place", m |-> cfg.m, n |-> cfg.n, rows |-> p.rows, cols |-> p.cols] :
                            p \in UNION {Placements(cfg.m, cfg.n, r) : r \in 1..MinOf(3, MinOf(cfg.m, cfg.n))}}
        \/ /\ cfg.op = "place"
           /\ cfg' \in MatricesAt(cfg.m, cfg.n, cfg.rows, cfg.cols)
Spec == Init /\ [][Next]_cfg
SpecOK == cfg.op = "gperm" => SpecOKFor(cfg)
=============================================================================
