SPECIFICATION Spec
CONSTANTS
  Threads = {"t0", "t1"}
  Main = "t0"
  Names <- MCNames
  Default = "numpy"
  PrevScope = "per_backend"
  WithDispatchModes = FALSE
  MaxOps = 6
CONSTRAINT Bound
INVARIANT TypeOK
INVARIANT RevertIsOriginal
INVARIANT NoForeignEinsum
INVARIANT SavedIsAnOriginal
INVARIANT OptTakesEffect
PROPERTY SelectKeepsPlugins
PROPERTY PluginsKeepSelection
