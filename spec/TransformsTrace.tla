--------------------------- MODULE TransformsTrace ---------------------------
(* C04 trace validation (relational).  One event = one configuration of Transforms' domain:       *)
(* an integer factorised tensor `in` (+ operand), pushed through one real tensorly transform;   *)
(* `out` holds measurements of what came back: the dense tensor the output represents (numpy     *)
(* contraction of the returned weights/factors/core/projections, quantised), squared column     *)
(* norms, weights / column means, returned integer cores, permutation, orthonormality deviation. *)
(* TLC computes the exact dense tensor of the integer input (or its exact mode product) from     *)
(* Factorized.tla and decides (1) represented tensor preserved, (2) canonical form established.  *)
EXTENDS Transforms, Json, IOUtils

Events == ndJsonDeserialize(IOEnv.TRACE_FILE)
VARIABLE i

TValueBound == 4          \* |entry| of every input array (Pythagorean columns go up to 4)

CfgFields == {"op", "kind", "shape", "rank", "family", "how", "mode", "operand", "odim", "keep", "copy", "npad", "padb",
              "lens", "maxrank", "thr", "listin", "fshapes", "coreshape", "pshapes", "rshapes", "mag", "omix", "steps", "grade", "negmode", "cmix", "cdtypes", "callform", "alias", "vals", "copyopt"}
OutFields == {"raised", "malformed", "exact", "dense", "cn", "cnfin", "wmin", "summ", "sfin", "parts", "perm",
              "orth", "orthfin", "nproj", "recon", "slices", "dense_im", "dtype", "steps", "recon_hi", "slices_lo", "pdtypes", "accepted", "nfac", "objshape"}
Ops == {"normalize", "cp_flip_sign", "cp_permute_factors", "pad_tt_rank", "cp_mode_dot", "tucker_mode_dot",
        "cp_to_parafac2", "svd_roundtrip", "svd_compress", "sequence", "refused"}

IsLogT(T)  == {"shape", "data"} \subseteq DOMAIN T /\ IsTAny(T)
IsLogQ(T)  == {"shape", "q", "fin"} \subseteq DOMAIN T /\ T.fin \in BOOLEAN
TBounded(T) == \A n \in 1..Len(T.data) : T.data[n] \in (-TValueBound)..TValueBound
TensAll(ts) == \A k \in 1..Len(ts) : IsLogT(ts[k]) /\ TBounded(ts[k])
WOK(x) == {"hasw", "w"} \subseteq DOMAIN x /\ x.hasw \in BOOLEAN /\ \A r \in 1..Len(x.w) : x.w[r] \in (-TValueBound)..TValueBound

WellFormed(e) ==
    /\ {"id", "cfg", "in", "out"} \subseteq DOMAIN e
    /\ CfgFields \subseteq DOMAIN e.cfg /\ e.cfg.op \in Ops /\ e.cfg.kind \in Kinds \cup {"slices"} /\ (e.cfg.kind = "slices" <=> e.cfg.op = "svd_compress")
    /\ e.cfg.mode \in Nat /\ e.cfg.keep \in BOOLEAN /\ e.cfg.padb \in BOOLEAN /\ e.cfg.npad \in Nat
    /\ "fs" \in DOMAIN e.in /\ TensAll(e.in.fs)
    /\ (e.cfg.kind \in {"cp", "p2"} => WOK(e.in))
    /\ (e.cfg.kind = "slices" => "rs" \in DOMAIN e.in /\ TensAll(e.in.rs) /\ Len(e.in.rs) = Len(e.in.fs)
                                 /\ \A k \in 1..Len(e.in.fs) : Len(e.in.fs[k].shape) = 2 /\ Len(e.in.rs[k].shape) = 2)
    /\ (e.cfg.kind = "tucker" => "core" \in DOMAIN e.in /\ IsLogT(e.in.core) /\ TBounded(e.in.core))
    /\ (e.cfg.kind = "p2" => "ps" \in DOMAIN e.in /\ TensAll(e.in.ps) /\ "pden" \in DOMAIN e.in /\ e.in.pden \in {1, 2})
    /\ (e.cfg.op \in {"cp_mode_dot", "tucker_mode_dot"} =>
            /\ e.cfg.operand \in {"matrix", "vector"}
            /\ (e.cfg.operand = "matrix" => "m" \in DOMAIN e.in /\ IsLogT(e.in.m) /\ TBounded(e.in.m) /\ Len(e.in.m.shape) = 2)
            /\ (e.cfg.operand = "vector" => "v" \in DOMAIN e.in /\ \A k \in 1..Len(e.in.v) : e.in.v[k] \in (-TValueBound)..TValueBound))
    /\ (e.cfg.op = "sequence" =>
            /\ "m" \in DOMAIN e.in /\ IsLogT(e.in.m) /\ TBounded(e.in.m) /\ Len(e.in.m.shape) = 2
            /\ \A si \in 1..Len(e.cfg.steps) : e.cfg.steps[si] \in {"N", "M", "A", "F", "X"}
            /\ \A si \in 1..Len(e.out.steps) : /\ {"raised", "accepted", "dense", "cn", "cnfin"} \subseteq DOMAIN e.out.steps[si]
                                                /\ e.out.steps[si].accepted \in BOOLEAN
                                                /\ e.out.steps[si].raised \in BOOLEAN /\ e.out.steps[si].cnfin \in BOOLEAN
                                                /\ IsLogQ(e.out.steps[si].dense))
    /\ (e.cfg.omix # "none" =>
            /\ e.cfg.op \in {"cp_mode_dot", "tucker_mode_dot"} /\ e.cfg.omix \in {"int_float", "real_cplx", "f32_f64"}
            /\ IsLogQ(e.out.dense_im)
            /\ (e.cfg.omix = "real_cplx" /\ e.cfg.operand = "matrix" => "mim" \in DOMAIN e.in /\ IsLogT(e.in.mim) /\ TBounded(e.in.mim) /\ e.in.mim.shape = e.in.m.shape)
            /\ (e.cfg.omix = "real_cplx" /\ e.cfg.operand = "vector" => "vim" \in DOMAIN e.in /\ Len(e.in.vim) = Len(e.in.v)
                                                                       /\ \A k \in 1..Len(e.in.vim) : e.in.vim[k] \in (-TValueBound)..TValueBound))
    /\ (e.cfg.op = "cp_permute_factors" => "ref" \in DOMAIN e.in /\ "fs" \in DOMAIN e.in.ref /\ TensAll(e.in.ref.fs) /\ WOK(e.in.ref))
    /\ OutFields \subseteq DOMAIN e.out
    /\ e.out.accepted \in BOOLEAN /\ e.out.nfac \in Nat
    /\ e.out.raised \in BOOLEAN /\ e.out.malformed \in BOOLEAN /\ e.out.exact \in BOOLEAN
    /\ e.out.cnfin \in BOOLEAN /\ e.out.sfin \in BOOLEAN /\ e.out.orthfin \in BOOLEAN
    /\ IsLogQ(e.out.dense)
    /\ {"hasw", "w", "fs"} \subseteq DOMAIN e.out.parts
    /\ \A k \in 1..Len(e.out.parts.fs) : IsLogT(e.out.parts.fs[k])
    /\ \A k \in 1..Len(e.out.recon) : IsLogQ(e.out.recon[k])
    /\ \A k \in 1..Len(e.out.slices) : IsLogT(e.out.slices[k])

\* the harness executed the exported configuration on an input of the promised family, and every
\* expected value fits the quantisation range
InDomain(e) ==
    LET c == e.cfg  in == e.in  kd == e.cfg.kind IN
    /\ [k \in 1..Len(in.fs) |-> in.fs[k].shape] = c.fshapes
    /\ (kd = "tucker" => in.core.shape = c.coreshape)
    /\ (kd = "p2" => [k \in 1..Len(in.ps) |-> in.ps[k].shape] = c.pshapes)
    /\ (kd = "slices" \/ Valid(kd, in))
    /\ FamilyOK(c, in)
    /\ (c.op = "svd_compress" =>
            /\ [k \in 1..Len(in.rs) |-> in.rs[k].shape] = c.rshapes /\ Len(c.shape) = 2 /\ Len(c.rank) = 1
            /\ Len(c.lens) = Len(in.fs) /\ KeepsAll(c)           \* every non-zero singular value fits under the limit
            /\ Len(e.out.slices) = Len(in.fs)
            /\ c.grade \in {0, GradeExp} /\ Len(e.out.slices_lo) = Len(in.fs)
            \* the slice handed to tensorly is  slices[s] + 2^-grade * slices_lo[s]
            /\ \A s \in 1..Len(in.fs) : LET A == GradedA(c, in.fs[s], in.rs[s])  B == GradedB(c, in.fs[s], in.rs[s]) IN
                                          /\ e.out.slices[s].shape = A.shape /\ e.out.slices[s].data = A.data
                                          /\ IsLogT(e.out.slices_lo[s]) /\ e.out.slices_lo[s].shape = B.shape /\ e.out.slices_lo[s].data = B.data)
    /\ c.mode < Len(c.shape) \/ c.op \notin {"cp_flip_sign", "cp_mode_dot", "tucker_mode_dot"}
    /\ (c.op \in {"cp_mode_dot", "tucker_mode_dot"} =>
            IF c.operand = "matrix" THEN in.m.shape = <<c.odim, c.shape[c.mode + 1]>> ELSE Len(in.v) = c.shape[c.mode + 1])
    /\ (c.op = "cp_permute_factors" => PermDomain(in.ref, in))
    /\ (c.op = "sequence" => c.mode < Len(c.shape) /\ SeqOperandOK(c, in) /\ Len(e.out.steps) = Len(c.steps))
    /\ (c.op = "cp_to_parafac2" => Len(c.shape) = 3 /\ c.shape[2] >= c.rank[1])
    /\ (c.op = "svd_roundtrip" =>
            /\ Len(e.out.slices) = Len(in.ps)
            /\ \A s \in 1..Len(in.ps) : e.out.slices[s].shape = P2Slice(in, s).shape /\ e.out.slices[s].data = P2Slice(in, s).data)

SameCP(P, Q) == /\ P.w = Q.w /\ Len(P.fs) = Len(Q.fs)
                /\ \A k \in 1..Len(Q.fs) : P.fs[k].shape = Q.fs[k].shape /\ P.fs[k].data = Q.fs[k].data

Expected(c, in) ==
    IF c.op = "svd_compress" THEN MatMul(in.fs[1], in.rs[1]) ELSE
    LET D == Dense(c.kind, in) IN
    IF c.op \in {"cp_mode_dot", "tucker_mode_dot"} THEN ModeDotExpected(D, c, in) ELSE D

Verdict(e) ==
    IF ~WellFormed(e) THEN "WellFormed"
    ELSE IF ~InDomain(e) THEN "InDomain"
    ELSE
    LET c == e.cfg  in == e.in  out == e.out  kd == e.cfg.kind
        X == Expected(c, in) IN
    IF ~InBound(X) THEN "InDomain"
    ELSE IF c.op = "refused" THEN
        \* the misfit operand must be refused, and the caller's tuple / object must be unchanged: the tensor it represents,
        \* the number of factors, and (wrapper objects) the .shape attribute
        IF out.accepted THEN "BadCallAccepted"
        ELSE IF out.raised \/ out.malformed THEN "RefusedChanged"              \* the object can no longer be read
        ELSE IF out.nfac # Len(in.fs) THEN "RefusedChanged"
        ELSE IF ~CloseQ(out.dense, X) THEN "RefusedChanged"
        ELSE IF c.how # "tuple" /\ out.objshape # c.shape THEN "RefusedChanged"
        ELSE "ok"
    ELSE IF c.op = "sequence" THEN
        \* every step of the sequence is judged on its own: the object represents the expected tensor after it, and
        \* after every normalize() its non-zero columns have unit norm (zero-ness from the state BEFORE that step)
        LET ST == SeqStates(c, in)
            SClause(si) == IF out.steps[si].raised THEN "SeqRaised"
                          \* the deliberately failing call must be refused, and must leave the object as it was
                          ELSE IF c.steps[si] = "X" /\ out.steps[si].accepted THEN "SeqBadCallAccepted"
                          ELSE IF ~InBound(CPDense(ST[si])) THEN "InDomain"
                          ELSE IF ~CloseQ(out.steps[si].dense, CPDense(ST[si])) THEN "SeqDense"
                          ELSE IF c.steps[si] = "N" /\ (~out.steps[si].cnfin \/ ~UnitColumns("cp", ST[si - 1], out.steps[si].cn)) THEN "SeqUnitColumns"
                          ELSE "ok"
            bad == {sj \in 1..Len(c.steps) : SClause(sj) # "ok"}
        IN  IF bad = {} THEN "ok" ELSE SClause(CHOOSE sj \in bad : \A sk \in bad : sj <= sk)
    ELSE IF out.raised THEN "Raised"
    ELSE IF out.malformed THEN "OutputMalformed"
    ELSE
    CASE c.op = "normalize" ->
            IF ~CloseQ(out.dense, X) THEN "Dense"
            ELSE IF ~out.cnfin \/ ~UnitColumns(kd, in, out.cn) THEN "UnitColumns" ELSE "ok"
      [] c.op = "cp_flip_sign" ->
            IF ~CloseQ(out.dense, X) THEN "Dense"
            ELSE IF ~out.sfin THEN "Finite"
            ELSE IF out.wmin < -SummTol THEN "WeightsNonNeg"
            ELSE IF ~FlipCanon(out, c.mode) THEN "SummariesNonNeg" ELSE "ok"
      [] c.op = "cp_permute_factors" ->
            LET R == CPRank(in)  p == out.perm  P == out.parts IN
            IF ~out.exact THEN "Exact"
            ELSE IF ~(WOK(P) /\ ValidCP(P) /\ P.hasw /\ CPShape(P) = CPShape(in) /\ CPRank(P) = R) THEN "OutputMalformed"
            ELSE IF ~IsPermOf(p, R) THEN "Permutation"
            ELSE IF ~SameCP(P, PermRef(in, [r \in 1..R |-> p[r] + 1])) THEN "Permuted"
            ELSE IF CPDense(P) # X THEN "Dense"
            ELSE IF ~(\A r \in 0..(R - 1) : AlignedAt(in.ref, P, r, r)) THEN "Aligned" ELSE "ok"
      [] c.op = "pad_tt_rank" ->
            LET P == [fs |-> out.parts.fs] IN
            IF ~out.exact THEN "Exact"
            ELSE IF ~PaddedRanks(kd, in, P, c.npad, c.padb) THEN "RanksEnlarged"
            ELSE IF PadDense(kd, P, c.padb) # X THEN "Dense"
            ELSE IF c.cmix # "none" /\ out.pdtypes # c.cdtypes THEN "CoreDtype"       \* every core keeps its own storage type
            ELSE "ok"
      [] c.op \in {"cp_mode_dot", "tucker_mode_dot"} ->
            \* (with an operand of another type the harness logs OMixDen * result; real and imaginary parts separately)
            IF ~CloseQ(out.dense, X) THEN "Dense"
            ELSE IF c.omix = "real_cplx"
                    /\ ~CloseQ(out.dense_im, ModeDotExpected(Dense(kd, in), c, IF c.operand = "matrix" THEN [in EXCEPT !.m = in.mim]
                                                                                                      ELSE [in EXCEPT !.v = in.vim])) THEN "DenseIm"
            ELSE IF c.omix # "none" /\ out.dtype # OMixOut(c) THEN "Dtype"
            ELSE "ok"
      [] c.op = "cp_to_parafac2" ->
            IF ~CloseQ(out.dense, X) THEN "Dense"
            ELSE IF out.nproj # c.shape[1] THEN "Projections"
            ELSE IF ~out.orthfin \/ out.orth > NormTol THEN "Orthonormal" ELSE "ok"
      [] c.op = "svd_compress" ->
            \* loading_i @ score_i (or the untouched slice) gives back every slice: nothing was truncated
            IF Len(out.recon) # Len(in.fs) \/ \E s \in 1..Len(in.fs) : ~CloseQ(out.recon[s], GradedA(c, in.fs[s], in.rs[s])) THEN "Recon"
            \* graded spectrum: (reconstruction - leading part) * 2^grade is the last component: it was not truncated away
            ELSE IF c.grade # 0 /\ (Len(out.recon_hi) # Len(in.fs)
                                    \/ \E s \in 1..Len(in.fs) : ~IsLogQ(out.recon_hi[s]) \/ ~CloseQ(out.recon_hi[s], GradedB(c, in.fs[s], in.rs[s]))) THEN "ReconFine"
            ELSE "ok"
      [] c.op = "svd_roundtrip" ->
            IF Len(out.recon) # Len(in.ps) \/ \E s \in 1..Len(in.ps) : ~CloseQ(out.recon[s], P2Slice(in, s)) THEN "Recon"
            ELSE IF ~CloseQ(out.dense, X) THEN "Dense"
            ELSE IF ~out.orthfin \/ out.orth > NormTol THEN "Orthonormal" ELSE "ok"

TraceInit == i = 1 /\ cfg = NoCfg
TraceNext == /\ i <= Len(Events)
             /\ i' = i + 1 /\ UNCHANGED cfg
             /\ LET v == Verdict(Events[i]) IN
                  IF v = "ok" THEN TRUE ELSE PrintT(<<"REJECT", Events[i].id, v>>)
TraceSpec == TraceInit /\ [][TraceNext]_<<i, cfg>>
TraceAccepted == TLCGet("stats").diameter - 1 = Len(Events)
=============================================================================
