SPECIFICATION Spec
CONSTANTS
  MaxFail = 4
  MaxLevel = 2
  Guarded = TRUE
  Configs <- LongConfigs
INVARIANT TypeOK
INVARIANT ErrsMonotone
INVARIANT LenLaw
INVARIANT AccLaw
INVARIANT SavedLaw
INVARIANT ExitLaw
INVARIANT NoCrash
PROPERTY Terminates
