------------------------------ MODULE Transforms ------------------------------
(* C04: canonicalising and algebraic transforms of factorised tensors.                            *)
(* The outputs of these transforms are not unique (any unit-norm / sign / order convention that   *)
(* keeps the represented tensor is acceptable), so the specification is RELATIONAL:               *)
(*   (1) the tensor represented by the output equals the exact tensor represented by the integer   *)
(*       input (Factorized.tla), or its exact mode product;                                     *)
(*   (2) the output has the advertised canonical form.                                           *)
(* This module contains (a) exact integer *reference transforms* written from the textbook        *)
(* descriptions, with TLC-checked theorems that each of them satisfies (1) and (2) -- so the     *)
(* contract is satisfiable and its clauses are mutually consistent -- and (b) the acceptance      *)
(* predicates on quantised measurements that TransformsTrace.tla applies to the real outputs.    *)
EXTENDS Factorized

CONSTANTS TMaxOrder, TMaxDim, TMaxRank, TMaxCore, TModeDotSize,
          Thin      \* quick tier: keep one configuration in `Thin` of the large option products (1 = all)

\* ---------------------------------------------------------------------------- named tolerances
\* Outputs are float64.  The harness logs rint(x * scale); all expected values are integers (dense
\* entries, squared column norms = 1) so the admitted deviation is Tol/Scale in absolute terms.
DenseScale == 100000      \* dense entries:   |x - exact| <= 2e-5   (float error here is < 1e-11)
DenseTol   == 2
NormScale8 == 100000000   \* squared column norms / orthonormality deviations:  1e-6
NormTol    == 100
SummScale  == 1000000     \* weights and column means after cp_flip_sign: >= -1e-6
SummTol    == 1
DenseBound == 20000       \* |exact dense entry| stays below 2^31 / DenseScale

AbsV(x) == IF x < 0 THEN -x ELSE x
Sgn(x)  == IF x < 0 THEN -1 ELSE 1            \* a zero summary keeps its sign: sign(0) := +1

\* ---------------------------------------------------------------------------- small matrix helpers
ColZero(F, r)  == \A i \in 0..(F.shape[1] - 1) : E2(F, i, r) = 0
ColSum(F, r)   == FSum(F.shape[1], LAMBDA i : E2(F, i - 1, r))
ColNorm2(F, r) == ColDot(F, r, r)
IsSquare(x)    == \E n \in 0..12 : n * n = x
Collinear(F, r, G, s) ==      \* columns F[:, r] and G[:, s] of equal length are parallel (either sign)
    \A i, j \in 0..(F.shape[1] - 1) : E2(F, i, r) * E2(G, j, s) = E2(F, j, r) * E2(G, i, s)
ScaleCols(F, sc(_)) == Build(F.shape, LAMBDA p : E2(F, p[1], p[2]) * sc(p[2] + 1))
MatMul(M, F) == Build(<<M.shape[1], F.shape[2]>>, LAMBDA p : FSum(M.shape[2], LAMBDA k : E2(M, p[1], k - 1) * E2(F, k - 1, p[2])))
RowVec(v) == [shape |-> <<1, Len(v)>>, data |-> v]
Det(M) ==          \* determinant of a square matrix of size <= 3
    LET n == M.shape[1]  a(i, j) == E2(M, i, j) IN
    CASE n = 1 -> a(0, 0)
      [] n = 2 -> a(0, 0) * a(1, 1) - a(0, 1) * a(1, 0)
      [] n = 3 -> a(0, 0) * (a(1, 1) * a(2, 2) - a(1, 2) * a(2, 1))
                  - a(0, 1) * (a(1, 0) * a(2, 2) - a(1, 2) * a(2, 0))
                  + a(0, 2) * (a(1, 0) * a(2, 1) - a(1, 1) * a(2, 0))
Gram(C) == Build(<<C.shape[2], C.shape[2]>>, LAMBDA p : ColDot(C, p[1], p[2]))

\* ============================================================================ reference transforms (exact)
\* ---- sign flipping (cp_flip_sign): every factor except `mode` gets non-negative column summaries
\* (summary = column mean, sign(0) = +1), the compensating signs and the weight signs go to `mode`
FlipRef(in, mode) ==
    LET N == Len(in.fs)
        s(k, r) == Sgn(ColSum(in.fs[k], r - 1))
        tot(r)  == FProd(N, LAMBDA k : IF k = mode + 1 THEN 1 ELSE s(k, r)) * Sgn(Wt(in, r)) IN
    [hasw |-> TRUE, w |-> [r \in 1..CPRank(in) |-> AbsV(Wt(in, r))],
     fs |-> [k \in 1..N |-> IF k = mode + 1 THEN ScaleCols(in.fs[k], LAMBDA r : tot(r))
                            ELSE ScaleCols(in.fs[k], LAMBDA r : s(k, r))]]
FlipCanonExact(out, mode) ==
    /\ \A r \in 1..Len(out.w) : out.w[r] >= 0
    /\ \A k \in 1..Len(out.fs) : k # mode + 1 => \A r \in 0..(out.fs[k].shape[2] - 1) : ColSum(out.fs[k], r) >= 0

\* ---- normalisation of "axis" inputs (every column is an integer multiple of a coordinate vector, so
\* that norms are integers): columns become +-e_j, the weights take the product of the norms
AxisNorm(F, r) == FSum(F.shape[1], LAMBDA i : AbsV(E2(F, i - 1, r)))        \* = ||column|| for axis columns
NormRef(in) ==
    [hasw |-> TRUE,
     w  |-> [r \in 1..CPRank(in) |-> Wt(in, r) * FProd(Len(in.fs), LAMBDA k : AxisNorm(in.fs[k], r - 1))],
     fs |-> [k \in 1..Len(in.fs) |-> Build(in.fs[k].shape, LAMBDA p :
                 IF E2(in.fs[k], p[1], p[2]) = 0 THEN 0 ELSE Sgn(E2(in.fs[k], p[1], p[2])))]]
UnitColumnsExact(out) ==
    \A k \in 1..Len(out.fs) : \A r \in 0..(out.fs[k].shape[2] - 1) : ColZero(out.fs[k], r) \/ ColNorm2(out.fs[k], r) = 1

\* ---- component permutation
PermRef(in, p) == [hasw |-> in.hasw, w |-> IF in.hasw THEN [r \in 1..Len(in.w) |-> in.w[p[r]]] ELSE <<>>,
                   fs |-> [k \in 1..Len(in.fs) |-> Build(in.fs[k].shape, LAMBDA q : E2(in.fs[k], q[1], p[q[2] + 1] - 1))]]

\* ---- zero padding of TT / TR / TT-matrix cores (first and last axis are the ranks)
PadCore(G, nl, nr) ==
    LET o == Len(G.shape)
        sh == [G.shape EXCEPT ![1] = @ + nl, ![o] = @ + nr] IN
    Build(sh, LAMBDA idx : IF idx[1] < G.shape[1] /\ idx[o] < G.shape[o] THEN At(G, idx) ELSE 0)
PadRef(in, n, padb) ==
    LET N == Len(in.fs) IN
    [fs |-> [k \in 1..N |-> PadCore(in.fs[k], IF k = 1 /\ ~padb THEN 0 ELSE n, IF k = N /\ ~padb THEN 0 ELSE n)]]
\* ranks enlarged by exactly n, boundary kept unless padb
PaddedRanks(kind, in, out, n, padb) ==
    LET N == Len(in.fs)  o == IF kind = "ttm" THEN 4 ELSE 3 IN
    /\ Len(out.fs) = N
    /\ \A k \in 1..N :
          /\ Len(out.fs[k].shape) = o
          /\ \A a \in 2..(o - 1) : out.fs[k].shape[a] = in.fs[k].shape[a]
          /\ out.fs[k].shape[1] = in.fs[k].shape[1] + (IF k = 1 /\ ~padb THEN 0 ELSE n)
          /\ out.fs[k].shape[o] = in.fs[k].shape[o] + (IF k = N /\ ~padb THEN 0 ELSE n)
\* which contraction the padded cores must reproduce: a padded boundary only makes sense as a ring
PadDense(kind, x, padb) == IF kind = "ttm" THEN TTMDense(x) ELSE IF kind = "tr" \/ padb THEN TRDense(x) ELSE TTDense(x)

\* ---- mode products in factorised form
ReplaceAt(s, p, x) == [s EXCEPT ![p] = x]
CPModeDotRef(in, M, m) == [in EXCEPT !.fs = ReplaceAt(in.fs, m + 1, MatMul(M, in.fs[m + 1]))]
CPContractRef(in, v, m) ==      \* vector operand: the mode disappears, <v, F_m[:, r]> goes to the weights
    LET c == MatMul(RowVec(v), in.fs[m + 1]) IN
    [hasw |-> TRUE, w |-> [r \in 1..CPRank(in) |-> Wt(in, r) * E2(c, 0, r - 1)], fs |-> DropAt(in.fs, m + 1)]
TuckerModeDotRef(in, M, m) == [in EXCEPT !.fs = ReplaceAt(in.fs, m + 1, MatMul(M, in.fs[m + 1]))]
TuckerContractRef(in, v, m) ==
    LET c == MatMul(RowVec(v), in.fs[m + 1])
        g == ModeDot(in.core, c, m) IN
    [core |-> Reshape(g, DropAt(g.shape, m + 1)), fs |-> DropAt(in.fs, m + 1)]
\* the exact tensor a mode product must represent
ModeDotExpected(D, c, in) ==
    IF c.operand = "matrix" THEN ModeDot(D, in.m, c.mode) ELSE ModeDotVec(D, in.v, c.mode, c.keep)

\* ---- PARAFAC2 slices are unchanged by projecting onto an orthonormal basis of their column space
P2FullRank(in) ==       \* every slice (P_i B) diag(w o a_i) C^T has rank R, so col(X_i) = col(P_i)
    /\ in.fs[2].shape[1] = in.fs[2].shape[2] /\ in.fs[2].shape[1] <= 3
    /\ Det(in.fs[2]) # 0 /\ Det(Gram(in.fs[3])) # 0
    /\ \A i \in 1..in.fs[1].shape[1] : \A r \in 1..P2Rank(in) : Wt(in, r) * E2(in.fs[1], i - 1, r - 1) # 0
ProjectSlice(in, i) ==      \* P_i (P_i^T X_i)
    LET P == in.ps[i]  X == P2Slice(in, i)
        S == Build(<<P.shape[2], X.shape[2]>>, LAMBDA p : FSum(P.shape[1], LAMBDA j : E2(P, j - 1, p[1]) * E2(X, j - 1, p[2])))
    IN  MatMul(P, S)

\* ============================================================================ acceptance predicates (measured outputs)
\* a logged quantised tensor qt = [shape, q, fin] against an exact integer tensor T
CloseQ(qt, T) ==
    /\ qt.fin /\ qt.shape = T.shape /\ Len(qt.q) = Len(T.data)
    /\ \A n \in 1..Len(T.data) : AbsV(qt.q[n] - DenseScale * T.data[n]) <= DenseTol
InBound(T) == \A n \in 1..Len(T.data) : AbsV(T.data[n]) <= DenseBound

\* normalisation: weights are absorbed into the first factor (CP, PARAFAC2), so a zero weight makes a zero column
EffZero(kind, in, k, r) ==
    ColZero(in.fs[k], r) \/ (kind \in {"cp", "p2"} /\ k = 1 /\ in.hasw /\ in.w[r + 1] = 0)
UnitColumns(kind, in, cn) ==
    /\ Len(cn) = Len(in.fs)
    /\ \A k \in 1..Len(in.fs) :
          /\ Len(cn[k]) = in.fs[k].shape[2]
          /\ \A r \in 0..(in.fs[k].shape[2] - 1) :
                ~EffZero(kind, in, k, r) => AbsV(cn[k][r + 1] - NormScale8) <= NormTol
FlipCanon(out, mode) ==
    /\ out.wmin >= -SummTol
    /\ \A k \in 1..Len(out.summ) : k # mode + 1 => \A r \in 1..Len(out.summ[k]) : out.summ[k][r] >= -SummTol

\* cp_permute_factors: domain = the components of `in` are those of `ref`, each column rescaled by a
\* non-zero integer, in another order, and no two components of `in` are parallel in every mode --
\* then the assignment maximising the summed congruence is unique (every matched term is 1, every
\* other assignment has a term < 1) and the aligned order is well defined.
AlignedAt(ref, x, r, s) == \A k \in 1..Len(ref.fs) : Collinear(ref.fs[k], r, x.fs[k], s)
PermDomain(ref, in) ==
    LET R == CPRank(in) IN
    /\ ValidCP(ref) /\ ValidCP(in) /\ CPShape(ref) = CPShape(in) /\ CPRank(ref) = R /\ in.hasw
    /\ \A k \in 1..Len(in.fs) : \A r \in 0..(R - 1) : ~ColZero(in.fs[k], r) /\ ~ColZero(ref.fs[k], r)
    /\ \A r \in 0..(R - 1) : \E s \in 0..(R - 1) : AlignedAt(ref, in, r, s)
    /\ \A r, s \in 0..(R - 1) : r # s => ~AlignedAt(in, in, r, s)
IsPermOf(p, R) == Len(p) = R /\ {p[r] : r \in 1..R} = 0..(R - 1)

\* ============================================================================ bounded domain of C04
\* ---------------------------------------------------------------------------- sequences on one CPTensor object
\* The state is an INTEGER representative of what the object holds: same represented tensor, same zero pattern of
\* the columns (normalisation rescales columns, it never changes which ones are zero).
CompZero(S, r) == (S.hasw /\ S.w[r] = 0) \/ \E k \in 1..Len(S.fs) : ColZero(S.fs[k], r - 1)
StepN(S) ==      \* weights absorbed into the first factor; the weight of a zero component becomes 0, the others carry scale
    [hasw |-> TRUE, w |-> [r \in 1..CPRank(S) |-> IF CompZero(S, r) THEN 0 ELSE 1],
     fs |-> [k \in 1..Len(S.fs) |-> IF k = 1 THEN ScaleCols(S.fs[1], LAMBDA r : Wt(S, r)) ELSE S.fs[k]]]
AMode(c) == (c.mode + 1) % Len(c.shape)          \* the factor replaced by an "A" step (never the one "M" acts on)
StepOf(S, st, c, in) ==
    CASE st = "N" -> StepN(S)
      [] st = "M" -> [S EXCEPT !.fs[c.mode + 1] = MatMul(in.m, @)]
      [] st = "A" -> [S EXCEPT !.fs[AMode(c) + 1] = ScaleT(@, 2)]        \* the represented tensor doubles, the columns are no longer unit
      [] OTHER    -> S                                   \* "F": signs move between columns and weights only
SeqStates(c, in) ==      \* SeqStates[i] = state after step i (0: the initial object)
    LET ST[i \in 0..Len(c.steps)] == IF i = 0 THEN [hasw |-> in.hasw, w |-> in.w, fs |-> in.fs]
                                     ELSE StepOf(ST[i - 1], c.steps[i], c, in)
    IN  ST
\* "M" may be applied more than once: the operand must fit the CURRENT size of its mode
SeqOperandOK(c, in) ==
    /\ in.m.shape[2] = c.shape[c.mode + 1]
    /\ (Cardinality({i \in 1..Len(c.steps) : c.steps[i] = "M"}) > 1 => in.m.shape[1] = in.m.shape[2])

\* ---------------------------------------------------------------------------- operand of another type than the decomposition
\* omix: "int_float" = int64 factors (and weights / core), float64 operand with half-integer entries (numerators over 2);
\*       "real_cplx" = float64 factors, complex128 operand (integer real and imaginary parts);
\*       "f32_f64"   = float32 factors, float64 operand with half-integer entries.
\* The mode product is linear in the operand: numerators give the numerator of the result, a complex operand
\* a + ib gives ModeDot(a) + i ModeDot(b); the result comes back in NumPy's promoted type.
CMixNames == <<"f32_first", "int_first", "cplx_later">>
OMixNames == <<"int_float", "real_cplx", "f32_f64">>
OMixOut(c) == IF c.omix = "real_cplx" THEN "complex128" ELSE "float64"
OMixDen(c) == IF c.omix \in {"int_float", "f32_f64"} THEN 2 ELSE 1

\* GRADED spectra: the last inner component of a slice (when it has at least two) is scaled by 2^-GradeExp, so that the
\* slice X = A + 2^-GradeExp B has singular values spanning ~1e8 while every non-zero one must still be kept at
\* threshold 0 / max_rank None.  A = leading components, B = last component (both exact integer matrices); the
\* reconstruction is compared with A at the usual tolerance and (recon - A) * 2^GradeExp with B (ReconFine).
GradeExp == 27
MatMulRange(L, R, lo, hi) == Build(<<L.shape[1], R.shape[2]>>, LAMBDA p : FSum(hi - lo + 1, LAMBDA k : E2(L, p[1], lo + k - 2) * E2(R, lo + k - 2, p[2])))
GradedA(c, L, R) == IF c.grade = 0 \/ L.shape[2] < 2 THEN MatMul(L, R) ELSE MatMulRange(L, R, 1, L.shape[2] - 1)
GradedB(c, L, R) == IF c.grade = 0 \/ L.shape[2] < 2 THEN Build(<<L.shape[1], R.shape[2]>>, LAMBDA p : 0)
                    ELSE MatMulRange(L, R, L.shape[2], L.shape[2])
SeqSet == {<<"X", "N">>, <<"N", "X", "N">>, <<"N", "M", "X", "N">>,       \* "X": a failing call (operand of the wrong size) on the same object
           <<"N", "M", "N">>, <<"N", "A", "N">>, <<"N", "N">>, <<"F", "N">>, <<"N", "F", "N">>,
           <<"M", "N", "A", "N">>, <<"N", "M", "M", "N">>, <<"A", "N", "F", "M", "N">>}
TShapes == UNION {[1..n -> 1..TMaxDim] : n \in 2..TMaxOrder}
TRankVecs(n) == {r \in [1..n -> 1..TMaxRank] : ProdSeq(r) <= TMaxCore}
Modes0(s) == 0..(Len(s) - 1)
BaseCfg == [op |-> "none", kind |-> "cp", shape |-> <<>>, rank |-> <<>>, family |-> "generic", how |-> "function",
            mode |-> 0, operand |-> "none", odim |-> 0, keep |-> FALSE, copy |-> FALSE, npad |-> 0, padb |-> FALSE,
            lens |-> <<>>, maxrank |-> 0, thr |-> 0, listin |-> FALSE, mag |-> 0, omix |-> "none", steps |-> <<>>, grade |-> 0, negmode |-> FALSE, cmix |-> "none", copyopt |-> "default"]
\* call form / aliasing / special zero values: rotated over the configurations in TExpand (see Factorized.tla, Expand)
HasWideOther(s, m) == \E k \in 1..Len(s) : k # m + 1 /\ s[k] >= 2
P2Cfgs(R) == {<<js, K>> : js \in {j \in [1..2 -> 1..3] : \A i \in 1..2 : j[i] >= R}, K \in 1..3}

TCfgs(root) ==
    LET s == root.shape  N == Len(s) IN
    CASE root.op = "normalize" ->
            {[BaseCfg EXCEPT !.op = "normalize", !.kind = "cp", !.shape = s, !.rank = <<r>>, !.family = f, !.how = h] :
                 r \in 1..TMaxRank, f \in {"generic", "pyth", "zerocol", "negw", "zerow", "now"}, h \in {"function", "method"}}
            \cup {[BaseCfg EXCEPT !.op = "normalize", !.kind = "tucker", !.shape = s, !.rank = r, !.family = f, !.how = h] :
                 r \in TRankVecs(N), f \in {"generic", "pyth", "zerocol"}, h \in {"function", "method"}}
      [] root.op = "normalize_p2" ->
            {[BaseCfg EXCEPT !.op = "normalize", !.kind = "p2", !.shape = <<2, x[2]>>, !.rank = <<r>>, !.lens = x[1], !.family = f] :
                 r \in {root.rank}, x \in P2Cfgs(root.rank), f \in {"generic", "zerocol", "negw", "now"}}
      [] root.op = "cp_flip_sign" ->
            UNION {
            {[BaseCfg EXCEPT !.op = "cp_flip_sign", !.shape = s, !.rank = <<r>>, !.family = f, !.how = h, !.mode = m] :
                 r \in 1..TMaxRank, h \in {"tuple", "object"},
                 f \in {"generic", "pyth", "zerocol", "negw", "zerow"} \cup (IF HasWideOther(s, m) THEN {"zeromean"} ELSE {})}
            : m \in Modes0(s)}
      [] root.op = "cp_permute_factors" ->
            {[BaseCfg EXCEPT !.op = "cp_permute_factors", !.shape = s, !.rank = <<r>>, !.family = "perm", !.listin = l] :
                 r \in (IF \E k \in 1..N : s[k] >= 2 THEN 1..TMaxRank ELSE {1}), l \in BOOLEAN}
      [] root.op = "pad_tt_rank" ->
            {[BaseCfg EXCEPT !.op = "pad_tt_rank", !.kind = "tt", !.shape = s, !.rank = <<1>> \o r \o <<1>>, !.npad = n, !.padb = b] :
                 r \in [1..(N - 1) -> 1..2], n \in 1..2, b \in BOOLEAN}
            \cup {[BaseCfg EXCEPT !.op = "pad_tt_rank", !.kind = "tr", !.shape = s, !.rank = r \o <<r[1]>>, !.npad = n, !.padb = b] :
                 r \in [1..N -> 1..2], n \in 1..2, b \in BOOLEAN}
      [] root.op = "pad_ttm" ->
            {[BaseCfg EXCEPT !.op = "pad_tt_rank", !.kind = "ttm", !.shape = s, !.rank = <<1>> \o r \o <<1>>, !.npad = n] :
                 r \in [1..((N \div 2) - 1) -> 1..2], n \in 1..2}
      [] root.op = "refused" ->
            \* A REFUSED call: cp_mode_dot / tucker_mode_dot (function on a tuple, function on the wrapper, wrapper method)
            \* with an operand that does not fit the mode (matrix with a wrong column count / vector of a wrong length),
            \* keep_dim on / off, copy = "default" (not passed), "true" or "false".  The call must raise, and the caller's
            \* tuple / object must be exactly what it was: same represented tensor, same number of factors, same .shape.
            {[BaseCfg EXCEPT !.op = "refused", !.kind = kd, !.shape = s, !.rank = IF kd = "cp" THEN <<r>> ELSE [k \in 1..N |-> 1 + ((k + r) % 2)],
                             !.mode = m, !.operand = o, !.keep = kp, !.copyopt = cp, !.how = h] :
                 kd \in {"cp", "tucker"}, r \in {2}, m \in Modes0(s), o \in {"matrix", "vector"}, kp \in BOOLEAN,
                 cp \in {"default", "true", "false"}, h \in {"tuple", "object", "method"}}
      [] root.op = "sequence" ->
            \* SEQUENCES of transforms applied to ONE CPTensor object (each step judged by its own clause):
            \*   "N" obj.normalize()                    "M" cp_mode_dot(obj, matrix, mode, copy=False)  (in place, same object)
            \*   "A" obj.factors[amode] = 2 * obj.factors[amode]   (a new array, NOT through cp[1] = ...)     "F" obj = cp_flip_sign(obj)
            {[BaseCfg EXCEPT !.op = "sequence", !.shape = s, !.rank = <<r>>, !.family = f, !.mode = m, !.odim = 2, !.steps = st] :
                 r \in 1..TMaxRank, f \in {"generic", "zerocol", "zerow"}, m \in Modes0(s), st \in SeqSet}
      [] root.op = "mode_dot" ->
            {[BaseCfg EXCEPT !.op = "cp_mode_dot", !.shape = s, !.rank = <<r>>, !.mode = m, !.operand = o[1], !.odim = o[2],
                             !.keep = o[3], !.copy = c, !.how = h] :
                 r \in 1..TMaxRank, m \in Modes0(s), c \in BOOLEAN, h \in {"tuple", "object", "method"},
                 o \in {<<"matrix", 1, FALSE>>, <<"matrix", 2, FALSE>>, <<"matrix", 3, TRUE>>, <<"vector", 0, FALSE>>, <<"vector", 0, TRUE>>}}
            \cup
            {[BaseCfg EXCEPT !.op = "tucker_mode_dot", !.kind = "tucker", !.shape = s, !.rank = r, !.mode = m, !.operand = o[1],
                             !.odim = o[2], !.keep = o[3], !.copy = c, !.how = h] :
                 r \in {[k \in 1..N |-> 1 + (k % 2)], [k \in 1..N |-> 2 - (k % 2)]}, m \in Modes0(s), c \in BOOLEAN,
                 h \in {"tuple", "object", "method"},
                 \* a Tucker tensor needs two factors: an order-2 tensor cannot lose a mode
                 o \in {<<"matrix", 1, FALSE>>, <<"matrix", 2, FALSE>>, <<"matrix", 3, TRUE>>, <<"vector", 0, TRUE>>}
                       \cup (IF N >= 3 THEN {<<"vector", 0, FALSE>>} ELSE {})}
      [] root.op = "cp_to_parafac2" ->
            {[BaseCfg EXCEPT !.op = "cp_to_parafac2", !.shape = s, !.rank = <<r>>, !.family = f, !.how = h] :
                 r \in 1..(IF s[2] < TMaxRank THEN s[2] ELSE TMaxRank), f \in {"generic", "orthb", "zerocol", "negw"}, h \in {"tuple", "object"}}
      [] root.op = "svd_compress" ->
            \* arbitrary ragged slices X_i = L_i R_i (J_i x K, rank <= rho_i = min(J_i, K, cap)), in EVERY order of the slice
            \* heights (short first, tall first, rank above / below the first slice's height); max_rank None (0), >= n_cols
            \* or smaller -- but never below a slice's rank, so that every non-zero singular value is kept
            LET I == s[1]  K == s[2] IN
            {[BaseCfg EXCEPT !.op = "svd_compress", !.kind = "slices", !.shape = s, !.rank = <<cap>>, !.lens = js,
                             !.family = "lowrank", !.maxrank = mr, !.thr = t, !.grade = g] :
                 cap \in 1..K, js \in [1..I -> 1..(IF I = 2 THEN 4 ELSE 3)], mr \in 0..(K + 1), t \in {0, 1}, g \in {0, GradeExp}}
            \* a singular value lying EXACTLY ON the threshold: slices that are signed, scaled permutation matrices with
            \* singular values 2^(rho-1), ..., 2, 1 (exact), threshold = 2^-(cap-1): the documented rule keeps s_i >= thr * s_0,
            \* so the smallest singular value of a slice with rho = cap sits on the threshold and must be kept
            \cup {[BaseCfg EXCEPT !.op = "svd_compress", !.kind = "slices", !.shape = s, !.rank = <<cap>>, !.lens = js,
                                  !.family = "tie", !.maxrank = 0, !.thr = 2] :
                      cap \in 2..K, js \in [1..I -> 1..(IF I = 2 THEN 4 ELSE 3)]}
      [] root.op = "svd_roundtrip" ->
            {[BaseCfg EXCEPT !.op = "svd_roundtrip", !.kind = "p2", !.shape = <<2, x[2]>>, !.rank = <<r>>, !.lens = x[1],
                             !.family = "fullrank", !.maxrank = mr, !.thr = t] :
                 r \in {root.rank}, x \in {y \in P2Cfgs(root.rank) : y[2] >= root.rank}, mr \in {0, root.rank, 3}, t \in {0, 1}}

TRoots ==
    {[op |-> o, shape |-> s, rank |-> 0] : o \in {"sequence", "refused"}, s \in {x \in TShapes : Size(x) <= TModeDotSize}} \cup
    {[op |-> o, shape |-> s, rank |-> 0] : o \in {"normalize", "cp_flip_sign", "cp_permute_factors", "pad_tt_rank"}, s \in TShapes}
    \cup {[op |-> "mode_dot", shape |-> s, rank |-> 0] : s \in {x \in TShapes : Size(x) <= TModeDotSize}}
    \cup {[op |-> "pad_ttm", shape |-> s, rank |-> 0] : s \in {x \in [1..4 -> 1..2] : TRUE} \cup [1..2 -> 1..2]}
    \cup {[op |-> "cp_to_parafac2", shape |-> s, rank |-> 0] : s \in [1..3 -> 1..TMaxDim]}
    \cup {[op |-> o, shape |-> <<>>, rank |-> r] : o \in {"normalize_p2", "svd_roundtrip"}, r \in 1..2}
    \cup {[op |-> "svd_compress", shape |-> <<I, K>>, rank |-> 0] : I \in 2..3, K \in 1..3}

\* array shapes the harness has to fill (C03's FactorShapes on the matching Factorized configuration)
Min2(a, b) == IF a < b THEN a ELSE b
SliceRho(c, i) == Min2(Min2(c.lens[i], c.shape[2]), c.rank[1])          \* inner dimension of slice i = bound on its rank
\* svd_compress_tensor_slices keeps at most min(n_cols, max_rank) singular triplets (all n_cols when max_rank is None)
RankLimit(K, maxrank) == IF maxrank = 0 THEN K ELSE Min2(K, maxrank)
KeepsAll(c) == \A i \in 1..Len(c.lens) : SliceRho(c, i) <= RankLimit(c.shape[2], c.maxrank)
TFactorShapes(c) ==
    IF c.kind = "slices" THEN [i \in 1..Len(c.lens) |-> <<c.lens[i], SliceRho(c, i)>>] ELSE
    FactorShapes([op |-> c.kind, shape |-> c.shape, rank |-> c.rank, bad |-> "none", at |-> 0, dl |-> 0, modes |-> <<>>, tr |-> FALSE])
IdxIn(x, sq) == CHOOSE k \in 1..Len(sq) : sq[k] = x
FamilyNames == <<"generic", "pyth", "zerocol", "zeromean", "negw", "zerow", "now", "perm", "orthb", "fullrank", "lowrank", "tie">>
HowNames    == <<"function", "method", "tuple", "object">>
Checksum(c) == SumSeq(c.shape) * 7 + SumSeq(c.rank) * 3 + c.mode * 5 + c.odim + c.npad * 2
               + (IF c.keep THEN 1 ELSE 0) + (IF c.copy THEN 2 ELSE 0) + (IF c.padb THEN 3 ELSE 0)
               + IdxIn(c.family, FamilyNames) + 4 * IdxIn(c.how, HowNames) + Len(c.shape) + Len(c.steps)
               + (IF c.copyopt = "true" THEN 1 ELSE IF c.copyopt = "false" THEN 2 ELSE 0) + (IF c.operand = "vector" THEN 3 ELSE 0)
TPlain(c) == c.kind \in {"cp", "tucker"} /\ c.family = "generic" /\ c.mag = 0 /\ c.omix = "none" /\ c.op # "cp_permute_factors"
TExpand(c) ==
    c @@ [fshapes |-> TFactorShapes(c),
          coreshape |-> IF c.kind = "tucker" THEN c.rank ELSE <<>>,
          pshapes |-> IF c.kind = "p2" THEN [i \in 1..Len(c.lens) |-> <<c.lens[i], c.rank[1]>>] ELSE <<>>,
          rshapes |-> IF c.kind = "slices" THEN [i \in 1..Len(c.lens) |-> <<SliceRho(c, i), c.shape[2]>>] ELSE <<>>,
          \* pad_tt_rank on cores of DIFFERENT storage types: zero padding must leave every core in its own type
          \* (Checksum is a multiple of Thin for the thinned families: rotate on the quotient, shifted by other fields)
          callform |-> <<"plain", "pos", "kw">>[((Checksum(c) \div Thin + SumSeq(c.rank) + c.mode + Len(c.lens)) % 3) + 1],
          alias |-> TPlain(c) /\ (Checksum(c) \div Thin + SumSeq(c.shape)) % 2 = 0,
          vals |-> IF TPlain(c) THEN <<"plain", "negzero", "subnormal">>[((Checksum(c) \div Thin + c.mode + SumSeq(c.shape)) % 3) + 1] ELSE "plain",
          cdtypes |-> IF c.cmix = "none" THEN <<>>
                      ELSE [k \in 1..Len(TFactorShapes(c)) |->
                               CASE c.cmix = "f32_first" -> IF k = 1 THEN "float32" ELSE "float64"
                                 [] c.cmix = "int_first" -> IF k = 1 THEN "int64" ELSE "float64"
                                 [] OTHER                -> IF k = 1 THEN "float64" ELSE "complex128"]]

\* "tie" family: X = L R with L a signed selection (orthonormal columns) and the rows of R mutually orthogonal with
\* norms 2^(rho-1), ..., 2, 1: the singular values of X are exactly those norms
Pow2(n) == FProd(n, LAMBDA k : 2)
RowDot(R, a, b) == FSum(R.shape[2], LAMBDA k : E2(R, a, k - 1) * E2(R, b, k - 1))
TieDomain(in) ==
    \A i \in 1..Len(in.fs) :
       LET L == in.fs[i]  R == in.rs[i]  rho == L.shape[2] IN
       /\ Orthonormal(L, 1) /\ \A n \in 1..Len(L.data) : L.data[n] \in {-1, 0, 1}
       /\ \A a, b \in 0..(rho - 1) : RowDot(R, a, b) = (IF a = b THEN Pow2(2 * (rho - 1 - a)) ELSE 0)
\* ---- does the (integer) input have the degenerate feature its family promises?
AllCols(in, P(_, _)) == \A k \in 1..Len(in.fs) : \A r \in 0..(in.fs[k].shape[2] - 1) : P(k, r)
SomeCol(in, P(_, _)) == \E k \in 1..Len(in.fs) : \E r \in 0..(in.fs[k].shape[2] - 1) : P(k, r)
FamilyOK(c, in) ==
    CASE c.family = "pyth"     -> AllCols(in, LAMBDA k, r : ~ColZero(in.fs[k], r) /\ IsSquare(ColNorm2(in.fs[k], r)))
      [] c.family = "zerocol"  -> SomeCol(in, LAMBDA k, r : ColZero(in.fs[k], r))
      [] c.family = "zeromean" -> SomeCol(in, LAMBDA k, r : k # c.mode + 1 /\ ~ColZero(in.fs[k], r) /\ ColSum(in.fs[k], r) = 0)
      [] c.family = "negw"     -> in.hasw /\ \E r \in 1..Len(in.w) : in.w[r] < 0
      [] c.family = "zerow"    -> in.hasw /\ \E r \in 1..Len(in.w) : in.w[r] = 0
      [] c.family = "now"      -> ~in.hasw
      [] c.family = "orthb"    -> \A r, t \in 0..(in.fs[2].shape[2] - 1) : r # t => ColDot(in.fs[2], r, t) = 0
      [] c.family = "fullrank" -> ValidP2(in) /\ P2FullRank(in)
      [] c.family = "tie"      -> TieDomain(in)
      [] OTHER -> TRUE

\* ============================================================================ theorems (design run)
\* spec-level inputs: generic fill, "axis" fill (columns = integer multiples of coordinate vectors)
AxisT(shape, salt) == Build(shape, LAMBDA p : IF p[1] = (p[2] + salt) % shape[1] THEN ((p[2] * 2 + salt) % 5) - 2 ELSE 0)
TGenIn(c, axis) ==
    LET fsh == TFactorShapes(c)
        fs  == [k \in 1..Len(fsh) |-> IF axis THEN AxisT(fsh[k], k) ELSE GenT(fsh[k], k)]
        R   == c.rank[1] IN
    CASE c.kind = "cp"     -> [hasw |-> c.family # "now", w |-> IF c.family # "now" THEN GenW(R, 1) ELSE <<>>, fs |-> fs]
      [] c.kind = "tucker" -> [core |-> GenT(c.rank, 9), fs |-> fs]
      [] c.kind \in {"tt", "tr", "ttm"} -> [fs |-> fs]
      [] c.kind = "slices" -> [fs |-> fs, rs |-> [i \in 1..Len(c.lens) |-> GenT(<<SliceRho(c, i), c.shape[2]>>, i + 3)]]
      [] c.kind = "p2"     -> [hasw |-> c.family # "now", w |-> IF c.family # "now" THEN GenW(R, 1) ELSE <<>>, fs |-> fs,
                               ps |-> [i \in 1..Len(c.lens) |-> SelP(c.lens[i], R, i)], pden |-> 1]
GenM(J, I) == GenT(<<J, I>>, 4)
GenV(I)    == [k \in 1..I |-> ((k * 3 + 1) % 5) - 2]

TCfgOK(c) ==
    LET in == TGenIn(c, FALSE)  kd == c.kind IN
    /\ (kd # "slices" => Valid(kd, in))
    /\ (c.mag # 0 => MagMove(kd, in))
    /\ (c.op = "svd_compress" /\ c.family = "tie" =>
          \* keep rule s_j >= thr * s_1 with thr = 2^-(cap-1), s_j = 2^(rho-j): holds for every j <= rho <= cap, with equality at j = cap
          \A i \in 1..Len(c.lens) : \A j \in 1..SliceRho(c, i) :
              /\ Pow2(c.rank[1] - 1) * Pow2(SliceRho(c, i) - j) >= Pow2(SliceRho(c, i) - 1)
              /\ (j = c.rank[1] => Pow2(c.rank[1] - 1) * Pow2(SliceRho(c, i) - j) = Pow2(SliceRho(c, i) - 1)))
    /\ CASE c.op = "sequence" ->
              LET x  == in @@ [m |-> GenM(IF Cardinality({i \in 1..Len(c.steps) : c.steps[i] = "M"}) > 1 THEN c.shape[c.mode + 1] ELSE 2,
                                            c.shape[c.mode + 1])]
                  ST == SeqStates(c, x) IN
              /\ SeqOperandOK(c, x)
              \* normalising and sign flipping never change the represented tensor; "M" is the mode product, "A" a new factor
              /\ \A i \in 1..Len(c.steps) :
                    /\ ValidCP(ST[i])
                    /\ (c.steps[i] \in {"N", "F"} => CPDense(ST[i]) = CPDense(ST[i - 1]))
                    /\ (c.steps[i] = "M" => CPDense(ST[i]) = ModeDot(CPDense(ST[i - 1]), x.m, c.mode))
                    /\ (c.steps[i] = "A" => CPDense(ST[i]) = ScaleT(CPDense(ST[i - 1]), 2))
                    \* a normalised state is a fixed point of the zero pattern: normalising again changes nothing
                    /\ (c.steps[i] = "N" => StepN(ST[i]).w = ST[i].w /\ \A r \in 1..CPRank(ST[i]) : CompZero(ST[i], r) <=> CompZero(ST[i - 1], r))
         [] c.op = "svd_compress" ->
              \* the slices have the promised shapes, and their rank bound fits under the number of kept singular triplets
              /\ KeepsAll(c)
              /\ \A i \in 1..Len(c.lens) : MatMul(in.fs[i], in.rs[i]).shape = <<c.lens[i], c.shape[2]>>
              \* leading part + last component = the ungraded product (the split used by the graded family is exact)
              /\ \A i \in 1..Len(c.lens) :
                    LET g == [c EXCEPT !.grade = GradeExp] IN
                    AddT(GradedA(g, in.fs[i], in.rs[i]), GradedB(g, in.fs[i], in.rs[i])) = MatMul(in.fs[i], in.rs[i])
              \* the property's interesting corner exists in the domain: a first slice shorter than n_cols ...
              /\ (c.lens[1] < c.shape[2] /\ c.lens[2] > c.lens[1] => SliceRho(c, 1) <= c.lens[1])
         [] c.op = "cp_flip_sign" ->
              LET out == FlipRef(in, c.mode) IN
              /\ CPDense(out) = CPDense(in) /\ FlipCanonExact(out, c.mode)
              /\ FlipRef(out, c.mode) = out                                   \* idempotent
         [] c.op = "normalize" /\ kd = "cp" ->
              LET ax == TGenIn(c, TRUE)  out == NormRef(ax) IN
              /\ CPDense(out) = CPDense(ax) /\ UnitColumnsExact(out)
              /\ NormRef(out) = out                                           \* idempotent on its own outputs
              /\ \A r \in 1..CPRank(ax) : AbsV(out.w[r]) * AbsV(out.w[r])      \* weights carry the scale
                     = Wt(ax, r) * Wt(ax, r) * FProd(Len(ax.fs), LAMBDA k : ColNorm2(ax.fs[k], r - 1))
         [] c.op = "cp_permute_factors" ->
              \A p \in Permutations(1..CPRank(in)) : CPDense(PermRef(in, p)) = CPDense(in)
         [] c.op = "pad_tt_rank" ->
              LET out == PadRef(in, c.npad, c.padb) IN
              /\ PaddedRanks(kd, in, out, c.npad, c.padb)
              /\ PadDense(kd, out, c.padb) = Dense(kd, in)
              /\ (kd = "tt" /\ ~c.padb => ValidTT(out)) /\ (kd = "tr" => ValidTR(out)) /\ (kd = "ttm" => ValidTTM(out))
         [] c.op = "cp_mode_dot" ->
              LET D == CPDense(in)  m == c.mode  I == c.shape[m + 1]
                  x == [m |-> GenM(IF c.odim = 0 THEN 1 ELSE c.odim, I), v |-> GenV(I)] IN
              IF c.operand = "matrix" THEN CPDense(CPModeDotRef(in, x.m, m)) = ModeDotExpected(D, c, x)
              ELSE IF c.keep THEN CPDense(CPModeDotRef(in, RowVec(x.v), m)) = ModeDotExpected(D, c, x)
              ELSE CPDense(CPContractRef(in, x.v, m)) = ModeDotExpected(D, c, x)
         [] c.op = "tucker_mode_dot" ->
              LET D == TuckerDense(in)  m == c.mode  I == c.shape[m + 1]
                  x == [m |-> GenM(IF c.odim = 0 THEN 1 ELSE c.odim, I), v |-> GenV(I)] IN
              IF c.operand = "matrix" THEN TuckerDense(TuckerModeDotRef(in, x.m, m)) = ModeDotExpected(D, c, x)
              ELSE IF c.keep THEN TuckerDense(TuckerModeDotRef(in, RowVec(x.v), m)) = ModeDotExpected(D, c, x)
              ELSE TuckerDense(TuckerContractRef(in, x.v, m)) = ModeDotExpected(D, c, x)
         [] c.op = "svd_roundtrip" ->
              \* projecting a slice onto the span of its (orthonormal) projection leaves it unchanged
              \A i \in 1..Len(in.ps) : ProjectSlice(in, i) = P2Slice(in, i)
         [] OTHER -> TRUE

\* Thinning of the big option products (deterministic, spread over every option value): a
\* configuration is kept iff a checksum of its fields is 0 modulo Thin.  Small families are kept whole.
Kept(c) == \/ Thin = 1
           \/ c.op \in {"cp_permute_factors", "svd_roundtrip", "cp_to_parafac2", "svd_compress"} \/ c.kind \in {"p2", "ttm"}
           \/ Checksum(c) % Thin = 0
TInit == cfg \in TRoots
\* svd_compress: only the keep-everything part of the option space is in the property's domain; the tall option
\* products (threshold with an explicit max_rank; three slices with the wide max_rank range) are left to the 2-slice family
InSvdDomain(c) == c.op = "svd_compress" =>
                    /\ KeepsAll(c)
                    /\ (c.grade # 0 => c.thr = 0 /\ c.maxrank = 0 /\ c.rank[1] >= 2)
                    /\ (c.thr # 0 => c.maxrank = 0)
                    /\ (Len(c.lens) = 3 => c.thr \in {0, 2} /\ c.maxrank \in {0, c.rank[1]})
\* MAGNITUDE twins.  One factor column (one whole core for TT / TR / TT-matrix) of the integer input is scaled by
\* 2^mag and the compensating 2^-mag goes to the weights / another factor / the core slice / another core, so
\* that the dense tensor stays moderate.  Power-of-two scalings are exact in floating point and can be moved
\* between the parts of a component without changing the represented tensor (Factorized!MagMove, TLC-checked
\* below): the exact expectation and every clause stay as they are -- in particular "unit column norms unless
\* the column is exactly zero", which a tolerance-based zero test (norm < eps) violates.
TMags == <<-500, -70, -30, 40, 300>>
MagOp(c) == /\ c.op \in {"normalize", "cp_flip_sign", "cp_permute_factors", "pad_tt_rank", "cp_mode_dot", "tucker_mode_dot"}
            /\ ~(c.kind = "ttm" /\ Len(c.shape) = 2)                   \* a single core has nothing to compensate with
OMixTwin(c) == [c EXCEPT !.omix = OMixNames[(((Checksum(c) \div Thin) \div 3 + SumSeq(c.rank)) % 3) + 1]]
MagTwin(c) == [c EXCEPT !.mag = TMags[(((Checksum(c) \div Thin) \div 3 + Len(c.shape) + SumSeq(c.rank)) % 5) + 1]]
TNext == "shape" \in DOMAIN cfg /\ "family" \notin DOMAIN cfg
         /\ LET base == {x \in TCfgs(cfg) : Kept(x) /\ InSvdDomain(x)} IN
            cfg' \in {TExpand(c) : c \in base}
                     \cup {TExpand(MagTwin(c)) : c \in {x \in base : MagOp(x) /\ (Checksum(x) \div Thin) % 3 = 0}}
                     \* a NEGATIVE spelling of the mode (mode - order) means the same mode
                     \cup {TExpand([c EXCEPT !.negmode = TRUE]) : c \in {x \in base : x.op \in {"cp_flip_sign", "cp_mode_dot", "tucker_mode_dot"}
                                                                                   /\ (Checksum(x) \div Thin) % 3 = 2}}
                     \cup {TExpand([c EXCEPT !.cmix = CMixNames[((Checksum(c) \div Thin) % 3) + 1]]) :
                               c \in {x \in base : x.op = "pad_tt_rank" /\ Len(TFactorShapes(x)) >= 2 /\ (Checksum(x) \div Thin) % 2 = 0}}
                     \cup {TExpand(OMixTwin(c)) : c \in {x \in base : x.op \in {"cp_mode_dot", "tucker_mode_dot"}
                                                                       /\ (Checksum(x) \div Thin) % 3 = 1}}
TSpec == TInit /\ [][TNext]_cfg
TSpecOK == "family" \in DOMAIN cfg => TCfgOK(cfg)
=============================================================================
