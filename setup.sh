#!/bin/sh
# Offline setup: nothing to build (specs are interpreted by TLC, the harness is Python).
# Sanity: the tools the checks need are present.
set -e
cd "$(dirname "$0")"
command -v java >/dev/null
test -f /opt/veriftools/tla/tla2tools.jar
/venv/bin/python -c "import numpy, scipy, tensorly" 2>/dev/null
mkdir -p .work evidence replays
echo "setup ok"
