"""Registry part 3: the *forms* in which mode numbers and per-mode options can be handed to the library.

Every operation that accepts a mode / a collection of modes / an option keyed by mode runs with the forms
below (the vocabulary is Ownership.tla's ArgForms; the trace spec rejects an unknown form and checks that a
full run exercised every form):
    mode:int  mode:neg  mode:npint                          a single mode number
    modes:list  modes:tuple  modes:neg_list  modes:neg_tuple  modes:np_list  modes:ndarray  modes:set
    dict:pos_keys  dict:neg_keys  dict:npint_keys            per-mode options as a dictionary
A form the current tree does not support simply exits by exception (still a C15 observation).
Entries are named "<api entry>#<variant>": they are further argument forms of the API entry before the '#'
and inherit its documented in-place exemptions / output obligations (the specs' tables are keyed by it).
"""
import numpy as np

from .lib_entrypoints import ALLDT, FLOATS, RANK, SHAPE, Call, entry

MODE1 = {"int": 1, "neg": -2, "npint": np.int64(1)}                 # all denote mode 1 of an order-3 tensor
MODE_FORM = {"int": "mode:int", "neg": "mode:neg", "npint": "mode:npint"}


def tl():
    import tensorly
    return tensorly


def modes_of(form, modes, order):
    """The collection `modes` (non-negative ints) spelled in the requested form for a tensor of order `order`."""
    neg = [m - order for m in modes]
    return {"list": list(modes), "tuple": tuple(modes), "neg_list": neg, "neg_tuple": tuple(neg),
            "np_list": [np.int64(m) for m in modes], "ndarray": np.array(modes), "set": set(modes)}[form]


SEQ_FORMS = ("list", "tuple", "neg_list", "neg_tuple", "np_list", "ndarray")


# ----------------------------------------------------------------------------- a single mode number
def _single(name, fn_getter, builder, dtypes=ALLDT, tenalg=False, inplace=None, opt=""):
    @entry(name, tuple(MODE1), dtypes, tenalg=tenalg, inplace=inplace)
    def _b(b, k, fn_getter=fn_getter, builder=builder, opt=opt):
        kk = k.split("@")[0]
        c = builder(b, fn_getter(), MODE1[kk])
        return c.option(opt).form(MODE_FORM[kk])
    return _b


_single("base.unfold#mode", lambda: tl().unfold, lambda b, f, m: Call(f, b.arr(SHAPE), m))
_single("base.fold#mode", lambda: tl().fold, lambda b, f, m: Call(f, b.arr((4, 6)), m, SHAPE))
_single("base.partial_unfold#mode", lambda: tl().partial_unfold, lambda b, f, m: Call(f, b.arr((2,) + SHAPE), mode=m, skip_begin=1))
_single("tenalg.mode_dot#mode", lambda: tl().tenalg.mode_dot, lambda b, f, m: Call(f, b.arr(SHAPE), b.arr((5, 4)), m), tenalg=True)
_single("tenalg.unfolding_dot_khatri_rao#mode", lambda: tl().tenalg.unfolding_dot_khatri_rao,
        lambda b, f, m: Call(f, b.arr(SHAPE), b.cp(SHAPE, RANK, "tuple", "nonunit"), m), tenalg=True)
_single("tenalg.khatri_rao#skip", lambda: tl().tenalg.khatri_rao, lambda b, f, m: Call(f, b.factors(SHAPE, RANK), skip_matrix=m), tenalg=True)
_single("tenalg.kronecker#skip", lambda: tl().tenalg.kronecker, lambda b, f, m: Call(f, [b.arr((2, 3)), b.arr((3, 2)), b.arr((2, 2))], skip_matrix=m), tenalg=True)
_single("cp_tensor.cp_to_unfolded#mode", lambda: tl().cp_to_unfolded, lambda b, f, m: Call(f, b.cp(SHAPE, RANK, "obj", "nonunit"), m))
_single("cp_tensor.cp_mode_dot#mode", lambda: tl().cp_mode_dot, lambda b, f, m: Call(f, b.cp(SHAPE, RANK, "obj", "nonunit"), b.arr((5, 4)), m, copy=True), opt="copy=True")
_single("cp_tensor.cp_flip_sign#mode", lambda: __import__("tensorly.cp_tensor", fromlist=["x"]).cp_flip_sign,
        lambda b, f, m: Call(f, b.cp(SHAPE, RANK, "tuple", "nonunit"), mode=m), dtypes=FLOATS)
_single("tucker_tensor.tucker_to_unfolded#mode", lambda: tl().tucker_to_unfolded, lambda b, f, m: Call(f, b.tucker(SHAPE, (2, 3, 2), "obj"), m))
_single("tucker_tensor.tucker_mode_dot#mode", lambda: tl().tucker_mode_dot, lambda b, f, m: Call(f, b.tucker(SHAPE, (2, 3, 2), "obj"), b.arr((5, 4)), m, copy=True), opt="copy=True")
_single("tucker_tensor.tucker_to_tensor#skip", lambda: tl().tucker_to_tensor, lambda b, f, m: Call(f, b.tucker(SHAPE, (2, 3, 2)), skip_factor=m))
_single("tt_tensor.tt_to_unfolded#mode", lambda: tl().tt_to_unfolded, lambda b, f, m: Call(f, b.tt(SHAPE, (1, 2, 2, 1)), m))
_single("tr_tensor.tr_to_unfolded#mode", lambda: tl().tr_to_unfolded, lambda b, f, m: Call(f, b.tr(SHAPE, (2, 3, 2, 2)), m))
_single("decomposition.tensor_ring#mode", lambda: __import__("tensorly.decomposition", fromlist=["x"]).tensor_ring,
        lambda b, f, m: Call(f, b.arr((4, 4, 2)), [2, 2, 2, 2], mode=m))
_single("decomposition.sample_khatri_rao#skip", lambda: __import__("tensorly.decomposition", fromlist=["x"]).sample_khatri_rao,
        lambda b, f, m: Call(f, b.factors(SHAPE, RANK), 5, skip_matrix=m, random_state=1), dtypes=FLOATS)


# ----------------------------------------------------------------------------- collections of modes
def _seq(name, builder, dtypes=ALLDT, tenalg=False, forms=SEQ_FORMS):
    @entry(name, forms, dtypes, tenalg=tenalg)
    def _b(b, k, builder=builder):
        kk = k.split("@")[0]
        return builder(b, kk).form("modes:" + kk)
    return _b


_seq("tenalg.multi_mode_dot#modes",
     lambda b, f: Call(tl().tenalg.multi_mode_dot, b.arr(SHAPE), [b.arr((2, 2)), b.arr((5, 3))], modes=modes_of(f, [2, 0], 3)), tenalg=True)
# tensordot: (modes1, modes2) with each part in the requested form; also the outer container as a list
_seq("tenalg.tensordot#modes",
     lambda b, f: Call(tl().tenalg.tensordot, b.arr((3, 4, 2)), b.arr((2, 4, 5)), modes=(modes_of(f, [2, 1], 3), modes_of(f, [0, 1], 3))), tenalg=True)
_seq("tenalg.tensordot#modes_outer_list",
     lambda b, f: Call(tl().tenalg.tensordot, b.arr((3, 4, 2)), b.arr((2, 4, 5)), modes=[modes_of(f, [2, 1], 3), modes_of(f, [0, 1], 3)]), tenalg=True)
_seq("tenalg.tensordot#modes_shared",          # one specification used for both operands
     lambda b, f: Call(tl().tenalg.tensordot, b.arr((3, 4, 2)), b.arr((3, 4, 2)), modes=modes_of(f, [0, 1, 2], 3)), tenalg=True,
     forms=("neg_list", "neg_tuple", "np_list"))
_seq("tenalg.tensordot#batched_modes",
     lambda b, f: Call(tl().tenalg.tensordot, b.arr((3, 4, 2)), b.arr((3, 4, 5)), modes=(modes_of(f, [1], 3), modes_of(f, [1], 3)),
                       batched_modes=(modes_of(f, [0], 3), modes_of(f, [0], 3))), tenalg=True)


@entry("tenalg.tensordot#int_modes", ("int", "neg_pair", "npint_pair", "batched_neg"), ALLDT, tenalg=True)
def _(b, k):
    f = tl().tenalg.tensordot
    kk = k.split("@")[0]
    if kk == "int":
        return Call(f, b.arr((3, 4, 2)), b.arr((4, 2, 5)), modes=2).form("mode:int")
    if kk == "neg_pair":
        return Call(f, b.arr((3, 4, 2)), b.arr((2, 4, 5)), modes=(-1, 0)).form("mode:neg")
    if kk == "npint_pair":
        return Call(f, b.arr((3, 4, 2)), b.arr((2, 4, 5)), modes=(np.int64(2), np.int64(0))).form("mode:npint")
    return Call(f, b.arr((3, 4, 2)), b.arr((3, 4, 5)), modes=(1, 1), batched_modes=(-3, -3)).form("mode:neg")


_seq("base.matricize#modes",
     lambda b, f: Call(__import__("tensorly.base", fromlist=["x"]).matricize, b.arr(SHAPE), modes_of(f, [2, 0], 3), modes_of(f, [1], 3)))
_seq("tucker_tensor.tucker_to_tensor#modes",
     lambda b, f: Call(tl().tucker_to_tensor, (b.arr(SHAPE), [b.arr((5, 3)), b.arr((5, 2))]), modes=modes_of(f, [0, 2], 3)))
_seq("decomposition.partial_tucker#modes",
     lambda b, f: Call(__import__("tensorly.decomposition", fromlist=["x"]).partial_tucker, b.lowrank(SHAPE, RANK), [2, 2],
                       modes=modes_of(f, [0, 2], 3), n_iter_max=3, tol=0))


def _init(b, nonneg=False):
    return b.cp(SHAPE, RANK, "obj", "ones", nonneg=nonneg)


_seq("decomposition.parafac#fixed_modes",
     lambda b, f: Call(__import__("tensorly.decomposition", fromlist=["x"]).parafac, b.lowrank(SHAPE, RANK), RANK, init=_init(b),
                       fixed_modes=modes_of(f, [0, 2], 3), n_iter_max=3, tol=0), forms=SEQ_FORMS + ("set",))
_seq("decomposition.non_negative_parafac#fixed_modes",
     lambda b, f: Call(__import__("tensorly.decomposition", fromlist=["x"]).non_negative_parafac, b.lowrank(SHAPE, RANK, nonneg=True), RANK,
                       init=_init(b, True), fixed_modes=modes_of(f, [0, 2], 3), n_iter_max=3, tol=0), dtypes=FLOATS)
_seq("decomposition.non_negative_parafac_hals#modes",
     lambda b, f: Call(__import__("tensorly.decomposition", fromlist=["x"]).non_negative_parafac_hals, b.lowrank(SHAPE, RANK, nonneg=True), RANK,
                       init=_init(b, True), fixed_modes=modes_of(f, [1], 3), nn_modes=modes_of(f, [0, 2], 3), n_iter_max=3, tol=0),
     dtypes=FLOATS, forms=SEQ_FORMS + ("set",))
_seq("decomposition.constrained_parafac#fixed_modes",
     lambda b, f: Call(__import__("tensorly.decomposition", fromlist=["x"]).constrained_parafac, b.lowrank(SHAPE, RANK, nonneg=True), RANK,
                       init=_init(b, True), fixed_modes=modes_of(f, [0, 2], 3), non_negative=True, n_iter_max=3, n_iter_max_inner=3), dtypes=FLOATS)
_seq("decomposition.non_negative_tucker_hals#fixed_modes",
     lambda b, f: Call(__import__("tensorly.decomposition", fromlist=["x"]).non_negative_tucker_hals, b.lowrank(SHAPE, RANK, nonneg=True), [2, 3, 2],
                       init=b.tucker(SHAPE, (2, 3, 2), "tuple", nonneg=True), fixed_modes=modes_of(f, [0, 2], 3), n_iter_max=3, tol=0), dtypes=FLOATS)
_seq("decomposition.tucker#fixed_factors",
     lambda b, f: Call(__import__("tensorly.decomposition", fromlist=["x"]).tucker, b.lowrank(SHAPE, RANK), [2, 3, 2],
                       init=b.tucker(SHAPE, (2, 3, 2), "tuple"), fixed_factors=modes_of(f, [2, 0], 3), n_iter_max=3, tol=0))
_seq("decomposition.parafac2#nn_modes",
     lambda b, f: Call(__import__("tensorly.decomposition", fromlist=["x"]).parafac2, [b.arr((4, 3), nonneg=True) for _ in range(3)], RANK,
                       nn_modes=modes_of(f, [0, 2], 3), n_iter_max=3, tol=0, random_state=1, n_iter_parafac=2, linesearch=False),
     dtypes=FLOATS, forms=SEQ_FORMS + ("set",))
_seq("validate.validate_tucker_rank#fixed_modes",
     lambda b, f: Call(__import__("tensorly.tucker_tensor", fromlist=["x"]).validate_tucker_rank, (3, 4, 2, 3), 0.5, fixed_modes=modes_of(f, [3, 0], 4)),
     dtypes=FLOATS)


# ----------------------------------------------------------------------------- options keyed by mode (dictionaries)
DICT_FORMS = {"pos_keys": lambda d, n: dict(d), "neg_keys": lambda d, n: {k - n: v for k, v in d.items()},
              "npint_keys": lambda d, n: {np.int64(k): v for k, v in d.items()},
              "mixed_keys": lambda d, n: {(k - n if i % 2 else k): v for i, (k, v) in enumerate(sorted(d.items()))}}
DICT_OPTS = {"non_negative": {0: True, 2: True}, "hard_sparsity": {2: 4}, "l1_reg": {1: 0.05, 2: 0.1}, "unimodality": {1: True},
             "simplex": {0: 1.0, 2: 2.0}}


def _dict_kinds():
    return tuple("%s:%s" % (o, f) for o in DICT_OPTS for f in DICT_FORMS)


def _dict_of(kind):
    opt, form = kind.split(":")
    return opt, DICT_FORMS[form](DICT_OPTS[opt], 3), "dict:" + ("neg_keys" if form == "mixed_keys" else form)


@entry("decomposition.constrained_parafac#dict", _dict_kinds() + ("two_dicts:neg_keys",), FLOATS)
def _(b, k):
    f = __import__("tensorly.decomposition", fromlist=["x"]).constrained_parafac
    X = b.lowrank(SHAPE, RANK, nonneg=True)
    kw = dict(n_iter_max=3, n_iter_max_inner=3, tol_outer=0)
    if k.startswith("two_dicts"):
        return Call(f, X, RANK, non_negative={-3: True}, l1_reg={-1: 0.05}, **kw).form("dict:neg_keys")
    opt, d, form = _dict_of(k)
    return Call(f, X, RANK, **{opt: d}, **kw).form(form)


@entry("decomposition.ConstrainedCP.fit_transform#dict", ("hard_sparsity:neg_keys", "non_negative:npint_keys"), FLOATS)
def _(b, k):
    def fit(X, **kw):
        return __import__("tensorly.decomposition", fromlist=["x"]).ConstrainedCP(RANK, n_iter_max=3, n_iter_max_inner=3, **kw).fit_transform(X)
    opt, d, form = _dict_of(k)
    return Call(fit, b.lowrank(SHAPE, RANK, nonneg=True), **{opt: d}).form(form)


@entry("proximal.validate_constraints#dict", _dict_kinds(), FLOATS)
def _(b, k):
    from tensorly.tenalg.proximal import validate_constraints
    opt, d, form = _dict_of(k)
    return Call(validate_constraints, n_const=3, **{opt: d}).form(form)


@entry("proximal.proximal_operator#dict", _dict_kinds(), FLOATS)
def _(b, k):
    from tensorly.tenalg.proximal import proximal_operator
    opt, d, form = _dict_of(k)
    order = sorted(DICT_OPTS[opt])[-1]
    return Call(proximal_operator, b.arr((4, 3), nonneg=True), n_const=3, order=order, **{opt: d}).form(form)


@entry("solvers.admm#dict", _dict_kinds(), FLOATS)
def _(b, k):
    from tensorly.solvers.admm import admm
    from .lib_entries_decomp import nnls_problem
    opt, d, form = _dict_of(k)
    UtM, UtU = nnls_problem(b, "fresh", mixed=True)
    order = sorted(DICT_OPTS[opt])[-1]
    return Call(admm, UtM, UtU, b.arr((3, 3), nonneg=True), b.arr((3, 3)), n_iter_max=4, n_const=3, order=order, **{opt: d}).form(form)
