"""Published call forms of the seed-accepting entry points, FROZEN from the pinned tree (dd5ba74 / 7d25e97): the
positional parameters up to and including the seed parameter, in order, with their defaults.  Deliberately a literal
table and not read from the live signatures: a parameter inserted in the middle of a signature, reordered or renamed
makes the positional call forms of harness/lib_seeded.py hand the seed to the wrong parameter."""
REQUIRED = "REQUIRED"
FROZEN = {
    'random_tensor': [('shape', REQUIRED), ('random_state', None)],
    'random_cp': [('shape', REQUIRED), ('rank', REQUIRED), ('full', False), ('orthogonal', False), ('random_state', None)],
    'random_tucker': [('shape', REQUIRED), ('rank', REQUIRED), ('full', False), ('orthogonal', False), ('random_state', None)],
    'random_tt': [('shape', REQUIRED), ('rank', REQUIRED), ('full', False), ('random_state', None)],
    'random_tt_matrix': [('shape', REQUIRED), ('rank', REQUIRED), ('full', False), ('random_state', None)],
    'random_tr': [('shape', REQUIRED), ('rank', REQUIRED), ('full', False), ('random_state', None)],
    'random_parafac2': [('shapes', REQUIRED), ('rank', REQUIRED), ('full', False), ('random_state', None)],
    'parafac': [('tensor', REQUIRED), ('rank', REQUIRED), ('n_iter_max', 100), ('init', 'svd'), ('svd', 'truncated_svd'), ('normalize_factors', False), ('orthogonalise', False), ('tol', 1e-08), ('random_state', None)],
    'non_negative_parafac': [('tensor', REQUIRED), ('rank', REQUIRED), ('n_iter_max', 100), ('init', 'svd'), ('svd', 'truncated_svd'), ('tol', 1e-06), ('random_state', None)],
    'non_negative_parafac_hals': [('tensor', REQUIRED), ('rank', REQUIRED), ('n_iter_max', 100), ('init', 'svd'), ('svd', 'truncated_svd'), ('tol', 1e-07), ('random_state', None)],
    'constrained_parafac': [('tensor', REQUIRED), ('rank', REQUIRED), ('n_iter_max', 100), ('n_iter_max_inner', 10), ('init', 'svd'), ('svd', 'truncated_svd'), ('tol_outer', 1e-08), ('tol_inner', 1e-06), ('random_state', None)],
    'randomised_parafac': [('tensor', REQUIRED), ('rank', REQUIRED), ('n_samples', REQUIRED), ('n_iter_max', 100), ('init', 'random'), ('svd', 'truncated_svd'), ('tol', 1e-08), ('max_stagnation', 20), ('return_errors', False), ('random_state', None)],
    'sample_khatri_rao': [('matrices', REQUIRED), ('n_samples', REQUIRED), ('skip_matrix', None), ('indices_list', None), ('return_sampled_rows', False), ('random_state', None)],
    'tucker': [('tensor', REQUIRED), ('rank', REQUIRED), ('fixed_factors', None), ('n_iter_max', 100), ('init', 'svd'), ('return_errors', False), ('svd', 'truncated_svd'), ('tol', 0.0001), ('random_state', None)],
    'partial_tucker': [('tensor', REQUIRED), ('rank', REQUIRED), ('modes', None), ('n_iter_max', 100), ('init', 'svd'), ('tol', 0.0001), ('svd', 'truncated_svd'), ('random_state', None)],
    'non_negative_tucker': [('tensor', REQUIRED), ('rank', REQUIRED), ('n_iter_max', 10), ('init', 'svd'), ('tol', 0.0001), ('random_state', None)],
    'non_negative_tucker_hals': [('tensor', REQUIRED), ('rank', REQUIRED), ('n_iter_max', 100), ('init', 'svd'), ('svd', 'truncated_svd'), ('tol', 1e-08), ('sparsity_coefficients', None), ('core_sparsity_coefficient', None), ('fixed_modes', None), ('random_state', None)],
    'parafac2': [('tensor_slices', REQUIRED), ('rank', REQUIRED), ('n_iter_max', 2000), ('init', 'random'), ('svd', 'truncated_svd'), ('normalize_factors', False), ('tol', 1e-08), ('nn_modes', None), ('random_state', None)],
    'tensor_ring_als': [('tensor', REQUIRED), ('rank', REQUIRED), ('ls_solve', 'lstsq'), ('n_iter_max', 100), ('tol', 1e-06), ('random_state', None)],
    'tensor_ring_als_sampled': [('tensor', REQUIRED), ('rank', REQUIRED), ('n_samples', REQUIRED), ('n_iter_max', 100), ('tol', 1e-06), ('uniform_sampling', False), ('randomized_error', False), ('random_state', None)],
    'tensor_train_cross': [('input_tensor', REQUIRED), ('rank', REQUIRED), ('tol', 0.0001), ('n_iter_max', 100), ('random_state', None)],
    'randomized_svd': [('matrix', REQUIRED), ('n_eigenvecs', None), ('n_oversamples', 5), ('n_iter', 2), ('random_state', None)],
    'randomized_range_finder': [('A', REQUIRED), ('n_dims', REQUIRED), ('n_iter', 2), ('random_state', None)],
    'CP': [('rank', REQUIRED), ('n_iter_max', 100), ('init', 'svd'), ('svd', 'truncated_svd'), ('normalize_factors', False), ('orthogonalise', False), ('tol', 1e-08), ('random_state', None)],
    'RandomizedCP': [('rank', REQUIRED), ('n_samples', REQUIRED), ('n_iter_max', 100), ('init', 'random'), ('svd', 'truncated_svd'), ('tol', 1e-08), ('max_stagnation', 20), ('random_state', None)],
    'CP_NN': [('rank', REQUIRED), ('n_iter_max', 100), ('init', 'svd'), ('svd', 'truncated_svd'), ('tol', 1e-06), ('random_state', None)],
    'CP_NN_HALS': [('rank', REQUIRED), ('n_iter_max', 100), ('init', 'svd'), ('svd', 'truncated_svd'), ('tol', 1e-07), ('sparsity_coefficients', None), ('fixed_modes', None), ('nn_modes', 'all'), ('exact', False), ('verbose', False), ('normalize_factors', False), ('cvg_criterion', 'abs_rec_error'), ('random_state', None)],
    'ConstrainedCP': [('rank', REQUIRED), ('n_iter_max', 100), ('n_iter_max_inner', 10), ('init', 'svd'), ('svd', 'truncated_svd'), ('tol_outer', 1e-08), ('tol_inner', 1e-06), ('random_state', None)],
    'Tucker': [('rank', None), ('n_iter_max', 100), ('init', 'svd'), ('return_errors', False), ('svd', 'truncated_svd'), ('tol', 0.0001), ('fixed_factors', None), ('random_state', None)],
    'Tucker_NN': [('rank', None), ('n_iter_max', 100), ('init', 'svd'), ('svd', 'truncated_svd'), ('tol', 0.0001), ('random_state', None)],
    'Tucker_NN_HALS': [('rank', None), ('n_iter_max', 100), ('init', 'svd'), ('svd', 'truncated_svd'), ('tol', 1e-08), ('sparsity_coefficients', None), ('core_sparsity_coefficient', None), ('fixed_modes', None), ('random_state', None)],
    'Parafac2': [('rank', REQUIRED), ('n_iter_max', 2000), ('init', 'random'), ('svd', 'truncated_svd'), ('normalize_factors', False), ('tol', 1e-08), ('nn_modes', None), ('random_state', None)],
    'TensorRingALS': [('rank', REQUIRED), ('ls_solve', 'lstsq'), ('n_iter_max', 100), ('tol', 1e-06), ('random_state', None)],
    'TensorRingALSSampled': [('rank', REQUIRED), ('n_samples', REQUIRED), ('n_iter_max', 100), ('tol', 1e-06), ('uniform_sampling', False), ('randomized_error', False), ('random_state', None)],
    'CPRegressor': [('weight_rank', REQUIRED), ('tol', 1e-06), ('reg_W', 1), ('n_iter_max', 100), ('random_state', None)],
    'TuckerRegressor': [('weight_ranks', REQUIRED), ('tol', 1e-06), ('reg_W', 1), ('n_iter_max', 100), ('random_state', None)],
    'CP_PLSR': [('n_components', REQUIRED), ('tol', 1e-09), ('n_iter_max', 100), ('random_state', None)],
    'randn': [('shape', REQUIRED), ('seed', None)],
    'gamma': [('shape', REQUIRED), ('scale', 1.0), ('size', None), ('seed', None)],
}


def positional(name, fn, seed, **kw):
    """call fn with every parameter up to and including the seed parameter handed over POSITIONALLY in the frozen order
    (values from kw, else the frozen default); what is left of kw (parameters published after the seed) goes by keyword"""
    args = []
    for pname, default in FROZEN[name]:
        if pname in ("random_state", "seed"):
            args.append(seed)
        elif pname in kw:
            args.append(kw.pop(pname))
        elif default == REQUIRED:
            raise KeyError("%s: required parameter %s missing" % (name, pname))
        else:
            args.append(default)
    return fn(*args, **kw)
