"""Shared machinery: case execution, TLC trace validation, findings matching, evidence.

Verdict rule (DESIGN.md section 1): Python generates/executes/projects, TLC decides.
A "case" is a JSON-able descriptor produced from a domain, `execute(case)` drives the real
tensorly code and returns an *event* (JSON object, integers/strings only).  Events are written to
ndjson chunks; every chunk is validated by one TLC process against `<Module>Trace.tla`.  The trace
specs print `<<"REJECT", id, clause>>` for every event they do not accept and never deadlock.
"""
import hashlib
import json
import math
import multiprocessing as mp
import os
import shutil
import sys
import time
import traceback
import uuid

from . import tlc

VERIF = tlc.VERIF
EVIDENCE = os.path.join(VERIF, "evidence")
REPLAYS = os.path.join(VERIF, "replays")
FINDINGS = os.path.join(VERIF, "known_findings.json")
NCPU = min(16, os.cpu_count() or 4)


# ----------------------------------------------------------------------------- quantisers
def q(x, scale=10**8, lim=2 * 10**9):
    """Quantise a float to an int for TLC; non-finite -> strings; out of range -> 'big'/'-big'."""
    try:
        x = float(x)
    except (TypeError, ValueError):
        return "nan"
    if math.isnan(x):
        return "nan"
    if math.isinf(x):
        return "inf" if x > 0 else "-inf"
    v = x * scale
    if abs(v) >= lim:
        return "big" if v > 0 else "-big"
    return int(round(v))


# TLC 1.8 ABORTS on `"nan" \in Int`, `5 = "a"`, `5 \in {"nan"}`: a field that is sometimes a number must
# ALWAYS be a number.  qs() is q() with integer sentinels; specs test IsFin(v) == -QLIM <= v /\ v <= QLIM first.
QLIM = 2000000000
QNAN, QINF, QNINF, QBIG, QNBIG = 2000000001, 2000000002, 2000000003, 2000000004, -2000000004


def qs(x, scale=10**8):
    v = q(x, scale, lim=QLIM)
    if isinstance(v, int):
        return v
    return {"nan": QNAN, "inf": QINF, "-inf": QNINF, "big": QBIG, "-big": QNBIG}[v]


def ints(arr):
    """(list of python ints, exact flag) from a numeric array whose entries should be integers."""
    import numpy as np
    a = np.asarray(arr)
    if a.dtype == bool:
        a = a.astype(np.int64)
    if np.iscomplexobj(a):
        raise ValueError("complex: use cints")
    a = a.astype(np.float64) if a.dtype.kind == "f" else a
    if a.dtype.kind == "f":
        if not np.all(np.isfinite(a)):
            return [0] * a.size, False
        r = np.rint(a)
        exact = bool(np.all(r == a)) and bool(np.all(np.abs(r) < 2**31))
        return [int(v) for v in r.ravel().tolist()], exact
    exact = bool(np.all(np.abs(a.astype(np.int64)) < 2**31)) if a.size else True
    return [int(v) for v in a.ravel().tolist()], exact


def digest(*parts):
    h = hashlib.sha256()
    for p in parts:
        h.update(p if isinstance(p, bytes) else str(p).encode())
        h.update(b"|")
    return h.hexdigest()[:16]


# ----------------------------------------------------------------------------- pool helpers
def _init_worker(repo):
    if repo and repo not in sys.path:
        sys.path.insert(0, repo)
    import warnings
    warnings.filterwarnings("ignore")


def _exec_one(args):
    fn, case = args
    try:
        return fn(case)
    except Exception as ex:     # harness failure inside execute(): machinery, not verdict
        return {"id": case.get("id", "?"), "harness_error": "%s: %s" % (type(ex).__name__, ex),
                "tb": traceback.format_exc()[-1500:]}


def execute_cases(fn, cases, repo=None, procs=NCPU, chunksize=8):
    """Run fn(case) for every case in a process pool (fork), preserving order."""
    cases = list(cases)
    if procs <= 1 or len(cases) < 4:
        _init_worker(repo)
        return [_exec_one((fn, c)) for c in cases]
    ctx = mp.get_context("fork")
    with ctx.Pool(procs, initializer=_init_worker, initargs=(repo,)) as pool:
        return pool.map(_exec_one, [(fn, c) for c in cases], chunksize=chunksize)


# ----------------------------------------------------------------------------- the check object
class Check:
    def __init__(self, pid, tier="quick", seed=0, repo="/repo"):
        self.pid, self.tier, self.seed, self.repo = pid, tier, int(seed), repo
        self.t0 = time.time()
        self.states = 0
        self.transitions = 0
        self.traces = 0
        self.evaluations = 0
        self.distinct = set()
        self.samples = []
        self.actions = {}
        self.violations = []        # records (dict) -- every REJECT
        self.machinery = []         # machinery failures (exit 2)
        self.notes = {}
        self.assumptions = []
        self.trusted = ["TLC 1.8.0", "CommunityModules Json/IOUtils", "harness projection functions (definitional measurements)", "NumPy array storage"]
        self.exhaustive = None
        self.rule = ""
        self.checker_cmds = []
        self.work = os.path.join(tlc.WORK, "%s-%s" % (pid, uuid.uuid4().hex[:8]))
        os.makedirs(self.work, exist_ok=True)
        self.case_by_id = {}

    # ---- design-level TLC run: theorems / invariants of the specification itself
    def design(self, module, cfg=None, must_hold=True, workers=NCPU, coverage=True, required_actions=(), **kw):
        r = tlc.run(module, cfg=cfg, workers=workers, coverage=coverage, **kw)
        self.states += r.distinct
        self.transitions += r.generated
        self.checker_cmds.append("tlc -config %s %s" % (cfg or module + ".cfg", module))
        for a, (d, t) in r.coverage.items():
            od, ot = self.actions.get(module + "." + a, (0, 0))
            self.actions[module + "." + a] = (od + d, ot + t)
        if must_hold and not r.ok:
            self.machinery.append("design spec %s/%s does not satisfy its own properties: %s\n%s" % (
                module, cfg, r.violated or r.summary(), r.out[-3000:]))
        for a in required_actions:
            if r.coverage.get(a, (0, 0))[1] == 0:
                self.machinery.append("vacuous: action %s of %s never taken" % (a, module))
        return r

    # ---- design run that also exports the spec-defined domain (values of one state variable)
    def export_configs(self, module, cfgfile, workers=NCPU, var="cfg", keep=lambda c: c.get("op") != "shape", **kw):
        """Design run of `module` with a state dump; returns (TLCResult, list of values of `var`).

        The spec enumerates its domain as states (one state per configuration), TLC checks the spec's
        theorems in every state, and the dump hands the very same configurations to the harness."""
        from . import tlaval
        dump = os.path.join(self.work, module + "_states")
        r = self.design(module, cfgfile, workers=workers, coverage=False, extra=["-dump", dump], **kw)
        states = tlaval.parse_dump(dump + ".dump")
        os.remove(dump + ".dump")
        return r, [s[var] for s in states if keep(s[var])]

    # ---- trace validation of implementation events
    def validate(self, module, events, cfg=None, chunks=NCPU, stateful=False, group_key=None, timeout=3600, env=None):
        """Validate events with `<module>.tla`. Returns list of (id, clause) rejections.

        stateful=False: events are independent, split evenly.
        stateful=True : events form traces delimited by group_key (kept in one chunk, in order).
        """
        events = list(events)
        bad = [e for e in events if "harness_error" in e]
        for e in bad:
            self.machinery.append("harness error in case %s: %s\n%s" % (e.get("id"), e["harness_error"], e.get("tb", "")))
        events = [e for e in events if "harness_error" not in e]
        if not events:
            return []
        groups = []
        if stateful:
            cur, key = [], object()
            for e in events:
                k = e[group_key]
                if k != key and cur:
                    groups.append(cur)
                    cur = []
                key = k
                cur.append(e)
            if cur:
                groups.append(cur)
        else:
            groups = [[e] for e in events]
        nchunks = max(1, min(chunks, len(groups)))
        # balance by serialized size
        sized = sorted(((sum(len(json.dumps(e)) for e in g), i) for i, g in enumerate(groups)), reverse=True)
        bins = [[] for _ in range(nchunks)]
        load = [0] * nchunks
        for sz, gi in sized:
            b = load.index(min(load))
            bins[b].append(gi)
            load[b] += sz
        jobs, files = [], []
        for b, gis in enumerate(bins):
            if not gis:
                continue
            path = os.path.join(self.work, "%s-%s-%02d.ndjson" % (module, uuid.uuid4().hex[:6], b))
            evs = [e for gi in sorted(gis) for e in groups[gi]]
            with open(path, "w") as f:
                for e in evs:
                    f.write(json.dumps(e, separators=(",", ":")) + "\n")
            files.append((path, evs))
            en = {"TRACE_FILE": path}
            if env:
                en.update(env)
            jobs.append(dict(module=module, cfg=cfg or module + ".cfg", env=en, workers=1, timeout=timeout, java_opts=("-Xmx3g",)))
        self.checker_cmds.append("TRACE_FILE=<chunk.ndjson> tlc -workers 1 -config %s %s   (x%d chunks)" % (cfg or module + ".cfg", module, len(jobs)))
        rejects = []
        results = tlc.run_many_safe(jobs, parallel=NCPU)
        for (path, evs), r, job in zip(files, results, jobs):
            if isinstance(r, Exception) or r.postcondition_false or r.rc != 0 or r.violated:
                # TLC could not evaluate some event of this chunk (the spec's operators hit a value outside their domain:
                # the recorded result is malformed) -- isolate the offending group(s) by bisection and report them as
                # rejected events; everything else in the chunk is validated normally.
                groups_here = []
                cur, key = [], object()
                for e in evs:
                    k = e[group_key] if stateful else e["id"]
                    if k != key and cur:
                        groups_here.append(cur)
                        cur = []
                    key = k
                    cur.append(e)
                if cur:
                    groups_here.append(cur)
                ok_results, bad_groups = self._bisect(module, job, groups_here, budget=[40])
                if bad_groups is None:
                    self.machinery.append("trace spec %s failed on %s and the failure could not be isolated\n%s" % (
                        module, path, (str(r) if isinstance(r, Exception) else r.out)[-2500:]))
                    continue
                for g in bad_groups:
                    rejects.append((g[-1]["id"] if stateful else g[0]["id"], "SpecCannotInterpretEvent", []))
                results_here = ok_results
            else:
                results_here = [r]
            for rr in results_here:
                self.states += rr.distinct
                self.transitions += rr.generated
                for p in rr.printed:
                    if isinstance(p, list) and p and p[0] == "REJECT":
                        rejects.append((p[1], str(p[2]) if len(p) > 2 else "?", p[3:]))
            self.traces += len(evs) if not stateful else len({e[group_key] for e in evs})
        self.evaluations += len(events)
        return rejects

    def _bisect(self, module, job, groups, budget):
        """Validate `groups` (lists of events); returns (results of the parts that validated, groups TLC cannot evaluate)."""
        def run(gs):
            path = os.path.join(self.work, "bis-%s.ndjson" % uuid.uuid4().hex[:8])
            with open(path, "w") as f:
                for g in gs:
                    for e in g:
                        f.write(json.dumps(e, separators=(",", ":")) + "\n")
            j = dict(job)
            j["env"] = dict(job["env"], TRACE_FILE=path)
            try:
                r = tlc.run(**j)
            except tlc.TLCError as ex:
                return None
            return None if (r.postcondition_false or r.rc != 0 or r.violated) else r
        if budget[0] <= 0:
            return [], None
        budget[0] -= 1
        r = run(groups)
        if r is not None:
            return [r], []
        if len(groups) == 1:
            return [], [groups[0]]
        mid = len(groups) // 2
        ok1, bad1 = self._bisect(module, job, groups[:mid], budget)
        if bad1 is None:
            return [], None
        ok2, bad2 = self._bisect(module, job, groups[mid:], budget)
        if bad2 is None:
            return [], None
        return ok1 + ok2, bad1 + bad2

    # ---- bookkeeping
    def add_cases(self, cases):
        for c in cases:
            self.case_by_id[c["id"]] = c

    def sample(self, obj, limit=4):
        if len(self.samples) < limit:
            s = json.dumps(obj)
            self.samples.append(obj if len(s) < 3000 else json.loads(s[:0] or "null") or {"truncated": s[:2800]})

    def violation(self, vid, clause, case=None, event=None, extra=None):
        rec = {"property": self.pid, "id": vid, "clause": clause, "case": case if case is not None else self.case_by_id.get(vid),
               "event": event, "extra": extra, "tier": self.tier, "seed": self.seed, "repo_commit": repo_commit(self.repo)}
        self.violations.append(rec)
        return rec

    def finish(self):
        """Match violations against known findings, write replays + evidence, print verdict lines."""
        findings = load_findings()
        known_hits = {}
        unlisted = []
        for rec in self.violations:
            f = match_finding(rec, findings)
            if f:
                known_hits.setdefault(f["id"], [f, 0])[1] += 1
            else:
                unlisted.append(rec)
        out_lines = []
        for fid, (f, n) in sorted(known_hits.items()):
            out_lines.append("KNOWN-FINDING: property=%s %s [%s, %d event(s)]" % (self.pid, f["what"], fid, n))
        rdir = os.path.join(REPLAYS, self.pid)
        for rec in unlisted:
            os.makedirs(rdir, exist_ok=True)
            name = "".join(ch if ch.isalnum() or ch in "-_." else "_" for ch in str(rec["id"]))[:120]
            path = os.path.join(rdir, name + ".json")
            with open(path, "w") as fh:
                json.dump(rec, fh, indent=1, default=str)
            if len(out_lines) < 60:
                out_lines.append("VIOLATION property=%s replay=%s clause=%s" % (self.pid, path, rec["clause"]))
        for m in self.machinery[:10]:
            out_lines.append("MACHINERY-FAILURE property=%s %s" % (self.pid, m[:3000]))
        wall = time.time() - self.t0
        cov = {
            "states": int(self.states), "transitions": int(self.transitions),
            "traces_validated_against_impl": int(self.traces),
            "samples": self.samples or [{"note": "no sample recorded"}],
            "evaluations": int(self.evaluations), "distinct_nontrivial": len(self.distinct),
            "rule": self.rule, "exhaustive": bool(self.exhaustive),
            "checker_cmd": " ; ".join(self.checker_cmds[:6]),
            "trusted_base": self.trusted,
            "actions": {k: {"distinct": v[0], "taken": v[1]} for k, v in sorted(self.actions.items())},
            "known_finding_events": {k: v[1] for k, v in known_hits.items()},
        }
        cov.update(self.notes)
        ev = {"property_id": self.pid, "tier": self.tier, "seed": self.seed, "level": "model_checking",
              "coverage": cov, "assumptions": self.assumptions, "wall_s": round(wall, 2),
              "violations": len(unlisted)}
        # evidence describes /repo itself; a run against another tree (--repo: mutants, scratch copies) must not overwrite it
        evdir = EVIDENCE if os.path.realpath(self.repo) == "/repo" else os.path.join(tlc.WORK, "evidence-other-tree")
        os.makedirs(evdir, exist_ok=True)
        with open(os.path.join(evdir, self.pid + ".json"), "w") as fh:
            json.dump(ev, fh, indent=1, default=str)
        shutil.rmtree(self.work, ignore_errors=True)
        for l in out_lines:
            print(l)
        print("%s tier=%s seed=%d: events=%d tlc_states=%d traces=%d violations=%d known=%d machinery=%d wall=%.1fs" % (
            self.pid, self.tier, self.seed, self.evaluations, self.states, self.traces, len(unlisted),
            sum(v[1] for v in known_hits.values()), len(self.machinery), wall))
        if self.machinery:
            return 2
        return 1 if unlisted else 0


_COMMITS = {}


def repo_commit(repo):
    if repo not in _COMMITS:
        _COMMITS[repo] = _repo_commit(repo)
    return _COMMITS[repo]


def _repo_commit(repo):
    import subprocess
    try:
        return subprocess.run(["git", "-C", repo, "rev-parse", "--short", "HEAD"], capture_output=True, text=True).stdout.strip()
    except Exception:
        return "?"


def load_findings():
    out = []
    paths = [FINDINGS]
    if os.environ.get("VERIF_FINDINGS"):      # development only: extra (pending) entries
        paths.append(os.environ["VERIF_FINDINGS"])
    for p in paths:
        try:
            with open(p) as fh:
                out += json.load(fh).get("findings", [])
        except FileNotFoundError:
            pass
    return out


def _get(rec, path):
    cur = rec
    for part in path.split("."):
        if isinstance(cur, dict) and part in cur:
            cur = cur[part]
        else:
            return None
    return cur


def match_finding(rec, findings):
    for f in findings:
        if f.get("status") != "known" or f.get("property") != rec["property"]:
            continue
        ok = True
        for k, v in f.get("match", {}).items():
            got = _get(rec, k)
            if isinstance(v, list):
                if got not in v:
                    ok = False
            elif got != v:
                ok = False
            if not ok:
                break
        if ok:
            return f
    return None
