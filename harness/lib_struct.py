"""C08, structural part: SVD-based decompositions and rank validators (events for StructTrace.tla)."""
import itertools

import numpy as np

from .lib_driver import _rng, qe, gram_dev


def struct_cases(tier, seed):
    rng = _rng(seed + 404)
    shapes = [[3, 4], [4, 3, 2], [2, 3, 4], [3, 3, 3], [2, 3, 2, 3], [4, 2, 3, 2], [8, 2, 2], [2, 8, 2], [6, 3, 2, 2]]
    if tier == "thorough":
        shapes += [[5, 4, 3], [2, 2, 2, 2, 2], [3, 2, 4, 2], [6, 5], [2, 4, 3, 2, 2]]
    cases = []

    def add(fam, shape, kind, req, **kw):
        c = {"fam": fam, "shape": shape, "kind": kind, "req": req, "seed": int(rng.randint(0, 10**6))}
        c.update(kw)
        c["id"] = "S%04d" % len(cases)
        cases.append(c)
    for shape in shapes:
        N = len(shape)
        for r in (1, 2, 3, 5, 9, 40):
            add("tt", shape, "int", [r])
        for _ in range(4):
            add("tt", shape, "list", [1] + [int(rng.randint(1, 7)) for _ in range(N - 1)] + [1])
        add("tt", shape, "list", [2] + [2] * (N - 1) + [1])            # wrong boundary: must raise
        add("tt", shape, "list", [1] + [2] * (N - 1) + [2])
        add("tt", shape, "list", [1] + [2] * N + [1])                  # wrong length
        add("tt", shape, "same", [])
        add("tt", shape, "frac", [], frac=0.5)
        if N >= 3:
            for mode in range(N):
                for r in (1, 2):
                    add("tr", shape, "int", [r], mode=mode)
                req = [int(rng.randint(1, 3)) for _ in range(N)]
                add("tr", shape, "list", req + [req[0]], mode=mode)
                # over-specified bonds (larger than the remaining modes can carry): clipped, never an error --
                # unless the FIRST core's two bonds do not fit its unfolding (the documented ValueError)
                for _ in range(3):
                    req = [int(rng.choice([1, 2, 3, 5, 8, 12])) for _ in range(N)]
                    add("tr", shape, "list", req + [req[0]], mode=mode)
            add("tr", shape, "list", [1] + [2] * (N - 1) + [2], mode=0)  # ring not closed: must raise
        # magnitudes: the ranks of a generic tensor do not depend on its units
        for sc in (1e-18, 1e-9, 1e12):
            add("tt", shape, "int", [int(rng.choice([2, 3, 40]))], scale=sc)
            if N >= 3:
                add("tr", shape, "int", [int(rng.choice([1, 2]))], mode=int(rng.randint(0, N)), scale=sc)
            add("tucker", shape, "list", [int(rng.randint(1, s + 1)) for s in shape], scale=sc)
        # partial Tucker on a subset of the modes: rank None (= keep the size of THOSE modes), int, list
        if N >= 3:
            for modes in ([1, 2], [0, N - 1], [N - 1], [2, 0]):
                add("ptucker", shape, "none", [], modes=modes)
                add("ptucker", shape, "int", [int(rng.randint(1, 4))], modes=modes)
                add("ptucker", shape, "list", [int(rng.randint(1, shape[m] + 1)) for m in modes], modes=modes)
        add("tucker", shape, "none", [])
        for r in (1, 2, 3):
            add("tucker", shape, "int", [r])
        add("tucker", shape, "list", [int(rng.randint(1, s + 1)) for s in shape])
        add("tucker", shape, "list", [s + 1 for s in shape])            # above the mode sizes
        add("tucker", shape, "same", [])
        add("tucker", shape, "frac", [], frac=0.5)
        for fam in ("validate_tt", "validate_tr", "validate_tucker", "validate_cp"):
            add(fam, shape, "same", [])
            for f in (0.25, 0.5, 2.0):
                add(fam, shape, "frac", [], frac=f, rounding=str(rng.choice(["round", "ceil", "floor"])))
            if fam in ("validate_tt", "validate_tr"):
                add(fam, shape, "int", [3])
                ends = 1 if fam == "validate_tt" else 2
                add(fam, shape, "list", [ends] + [int(rng.randint(1, 5)) for _ in range(N - 1)] + [ends])
    return cases


def _rank_arg(c):
    if c["kind"] == "int":
        return int(c["req"][0])
    if c["kind"] == "list":
        return list(c["req"])
    if c["kind"] == "same":
        return "same"
    if c["kind"] == "none":
        return None
    return float(c["frac"])


def execute(c):
    import tensorly as tl
    from tensorly import decomposition as D
    rng = _rng(c["seed"])
    shape = tuple(c["shape"])
    X = rng.standard_normal(shape) * c.get("scale", 1.0)
    ev = {"id": c["id"], "modes": [int(m) for m in c.get("modes", [])], "fam": c["fam"], "shape": list(shape), "kind": c["kind"], "req": list(c["req"]), "mode": int(c.get("mode", 0)),
          "out": "ok", "ranks": [], "fshapes": [], "orth": [], "core_shape": [], "n_param_dev": 0, "n_param_slack": 0}
    rank = _rank_arg(c)
    try:
        if c["fam"] == "tt":
            tt = D.tensor_train(X, rank)
            fs = [np.asarray(f) for f in tt]
            ev["fshapes"] = [list(f.shape) for f in fs]
            ev["ranks"] = [int(r) for r in tt.rank]
            ev["orth"] = [qe(gram_dev(f.reshape(-1, f.shape[-1]))) for f in fs]
        elif c["fam"] == "tr":
            tr = D.tensor_ring(X, rank, mode=c["mode"])
            fs = [np.asarray(f) for f in tr]
            ev["fshapes"] = [list(f.shape) for f in fs]
            ev["ranks"] = [int(r) for r in tr.rank]
        elif c["fam"] == "ptucker":
            (core, fs), _ = D.partial_tucker(X, rank, modes=list(c["modes"]), n_iter_max=3, tol=0)
            ev["fshapes"] = [list(np.shape(f)) for f in fs]
            ev["core_shape"] = list(np.shape(core))
            ev["orth"] = [qe(max(gram_dev(f) for f in fs))]
        elif c["fam"] == "tucker":
            core, fs = D.tucker(X, rank, n_iter_max=3, tol=0)
            ev["fshapes"] = [list(np.shape(f)) for f in fs]
            ev["core_shape"] = list(np.shape(core))
            ev["orth"] = [qe(max(gram_dev(f) for f in fs))]
        else:
            kw = {"rounding": c["rounding"]} if "rounding" in c else {}
            if c["fam"] == "validate_tt":
                r = tl.tt_tensor.validate_tt_rank(shape, rank, **kw)
                ev["ranks"] = [int(x) for x in r]
                if c["kind"] == "same":
                    # contract of 'same': parameter count within one rounding step of the dense size
                    def npar(rr):
                        return sum(rr[k] * shape[k] * rr[k + 1] for k in range(len(shape)))
                    rr = ev["ranks"]
                    up = [1] + [x + 1 for x in rr[1:-1]] + [1]
                    dn = [1] + [max(1, x - 1) for x in rr[1:-1]] + [1]
                    ev["n_param_dev"] = abs(npar(rr) - int(np.prod(shape)))
                    ev["n_param_slack"] = max(npar(up) - npar(rr), npar(rr) - npar(dn), 1)
            elif c["fam"] == "validate_tr":
                ev["ranks"] = [int(x) for x in tl.tr_tensor.validate_tr_rank(shape, rank, **kw)]
            elif c["fam"] == "validate_tucker":
                ev["ranks"] = [int(x) for x in tl.tucker_tensor.validate_tucker_rank(shape, rank, **kw)]
            else:
                ev["ranks"] = [int(tl.cp_tensor.validate_cp_rank(shape, rank, **kw))]
    except Exception as ex:
        ev["out"] = "raised"
        ev["exc"] = type(ex).__name__
    return ev
