"""Prefix-run recorder for the iterative decompositions (C06, C07, C08, C10, C14).

For one (algorithm, configuration) the recorder performs the runs n_iter_max = 0..K with a fixed
seed and logs, for every returned decomposition D_k, *definitional measurements* only: the error
list the code reported, the relative error recomputed from scratch, structure measurements
(shapes, Gram deviations, column norms, weights), minima per returned array, dense digests.  No
verdict is computed here: DriverTrace.tla judges every event.
"""
import copy
import math
import os
import warnings

import numpy as np

from .common import qs, QNAN, QBIG, QNBIG, QLIM

warnings.filterwarnings("ignore")

K_QUICK = 8
SCALE = 10**8


def _rng(seed):
    return np.random.RandomState(seed % (2**31))


def make_data(cfg):
    x = _make_data(cfg)
    return x * cfg["scale"] if cfg.get("scale") else x


def nn_tucker_truth(cfg):
    """The non-negative Tucker tensor behind data kind nn_tucker_noisy: a core with exact zeros and positive factors."""
    rng = _rng(cfg["seed"] * 7919 + 131)
    shape = tuple(cfg["shape"])
    rk = cfg["rank"] if isinstance(cfg["rank"], list) else [cfg["rank"]] * len(shape)
    G = (rng.random_sample(rk) + 0.5) * (rng.random_sample(rk) < 0.5)
    G.flat[0] = 2.0
    return G, [rng.random_sample((s_, r_)) + 0.1 for s_, r_ in zip(shape, rk)]


def _make_data(cfg):
    rng = _rng(cfg["seed"] * 7919 + 13)
    shape = tuple(cfg["shape"])
    kind = cfg["data"]
    if kind == "generic":
        return rng.standard_normal(shape)
    if kind == "lowrank":          # exactly low CP rank: the true error gets ~0 (NaN trap)
        r = cfg.get("data_rank", cfg["rank"] if isinstance(cfg["rank"], int) else 2)
        fs = [rng.standard_normal((s, r)) for s in shape]
        out = np.zeros(shape)
        for j in range(r):
            comp = fs[0][:, j]
            for f in fs[1:]:
                comp = np.multiply.outer(comp, f[:, j])
            out += comp
        return out
    if kind == "noisy_lowrank":      # low CP rank plus noise of the same magnitude: slow ALS progress, big line-search jumps
        fs = [rng.random_sample((s, 3)) for s in shape]
        out = np.zeros(shape)
        for j in range(3):
            comp = fs[0][:, j]
            for f in fs[1:]:
                comp = np.multiply.outer(comp, f[:, j])
            out += comp
        return out + rng.standard_normal(shape) * np.std(out)
    if kind == "nonneg":
        return rng.random_sample(shape) + 0.05
    if kind == "nn_lowrank":
        r = cfg.get("data_rank", 2)
        fs = [rng.random_sample((s, r)) + 0.1 for s in shape]
        out = np.zeros(shape)
        for j in range(r):
            comp = fs[0][:, j]
            for f in fs[1:]:
                comp = np.multiply.outer(comp, f[:, j])
            out += comp
        return out
    if kind == "integer":
        return rng.randint(-3, 4, size=shape).astype(float)
    if kind == "signed_zero":        # non-negative data holding negative zeros and subnormal entries: legal values like any other
        out = rng.random_sample(shape) + 0.05
        flat = out.reshape(-1)
        idx = rng.permutation(flat.size)
        flat[idx[: flat.size // 6]] = -0.0
        flat[idx[flat.size // 6: flat.size // 4]] = 5e-324
        flat[idx[flat.size // 4: flat.size // 3]] = 0.0
        return out
    # ---- unusual STRUCTURE (legal inputs): symmetric, constant, one dominant component, orthogonal components, banded
    if kind == "symmetric":          # cubic shapes: invariant under every permutation of the modes
        import itertools
        base = rng.standard_normal(shape)
        return sum(np.transpose(base, p_) for p_ in itertools.permutations(range(len(shape)))) / 6.0
    if kind == "constant":
        return np.full(shape, 0.7)
    if kind == "dominant":           # one component 1e4 times larger than the rest
        fs = [rng.random_sample((s, 3)) + 0.1 for s in shape]
        out = np.zeros(shape)
        for j, wj in enumerate((1e4, 1.0, 0.5)):
            comp = fs[0][:, j] * wj
            for f in fs[1:]:
                comp = np.multiply.outer(comp, f[:, j])
            out += comp
        return out
    if kind == "orthogonal":         # CP components with orthonormal factors
        r = min(min(shape), 3)
        fs = [np.linalg.qr(rng.standard_normal((s, r)))[0] for s in shape]
        out = np.zeros(shape)
        for j in range(r):
            comp = fs[0][:, j] * (j + 1.0)
            for f in fs[1:]:
                comp = np.multiply.outer(comp, f[:, j])
            out += comp
        return out + 1e-3 * rng.standard_normal(shape)
    if kind == "banded":             # non-negative, zero away from the "diagonal"
        idx = np.indices(shape)
        x = rng.random_sample(shape) + 0.1
        x[np.abs(idx[0] - idx[1]) > 1] = 0.0
        return x
    if kind == "nn_tucker_noisy":    # non-negative Tucker structure whose core has exact zeros, plus noise at the 1e-9 level:
        # the unconstrained least-squares core has entries of size +-1e-9 where the true core is zero
        G, Us = nn_tucker_truth(cfg)
        out = G
        for m, U in enumerate(Us):
            out = np.moveaxis(np.tensordot(U, out, axes=(1, m)), 0, m)
        return out + 1e-9 * _rng(cfg["seed"] + 77).standard_normal(shape)
    if kind == "tr_exact":           # a tensor that IS a ring of the requested ranks: the fit becomes exact
        rk = cfg["rank"]
        cores = [rng.standard_normal((rk[k], shape[k], rk[k + 1])) for k in range(len(shape))]
        return tr_dense(cores)
    if kind == "counts":           # non-negative counts (used with data_dtype="int64": an integer array)
        return rng.randint(0, 6, size=shape).astype(float)
    if kind == "complex":
        return rng.standard_normal(shape) + 1j * rng.standard_normal(shape)
    if kind == "complex_lowrank":
        r = cfg.get("data_rank", 2)
        fs = [rng.standard_normal((s, r)) + 1j * rng.standard_normal((s, r)) for s in shape]
        out = np.zeros(shape, dtype=complex)
        for j in range(r):
            comp = fs[0][:, j]
            for f in fs[1:]:
                comp = np.multiply.outer(comp, f[:, j])
            out += comp
        return out + 0.3 * np.std(out) * (rng.standard_normal(shape) + 1j * rng.standard_normal(shape))
    if kind == "signed":
        return rng.standard_normal(shape) * 2 - 0.3
    if kind == "negative":
        return -(rng.random_sample(shape) + 0.1)
    if kind == "sparse":
        x = rng.random_sample(shape)
        x[rng.random_sample(shape) < 0.6] = 0.0
        x.flat[0] = 1.0
        return x
    raise ValueError(kind)


def cp_dense(weights, factors):
    r = factors[0].shape[1]
    w = np.ones(r) if weights is None else np.asarray(weights)
    out = 0
    for j in range(r):
        comp = np.asarray(factors[0])[:, j] * w[j]
        for f in factors[1:]:
            comp = np.multiply.outer(comp, np.asarray(f)[:, j])
        out = out + comp
    return out


def tucker_dense(core, factors, modes=None):
    out = np.asarray(core)
    modes = range(len(factors)) if modes is None else modes
    for f, m in zip(factors, modes):
        out = np.moveaxis(np.tensordot(np.asarray(f), out, axes=(1, m)), 0, m)
    return out


def tr_dense(cores):
    out = np.asarray(cores[0])
    for c in cores[1:]:
        out = np.tensordot(out, np.asarray(c), axes=(out.ndim - 1, 0))
    return np.trace(out, axis1=0, axis2=out.ndim - 1)


def p2_slices(weights, factors, projections):
    A, B, C = [np.asarray(f) for f in factors]
    w = np.ones(A.shape[1]) if weights is None else np.asarray(weights)
    return [np.asarray(P) @ B @ np.diag(w * A[i]) @ C.T for i, P in enumerate(projections)]


def rel(a, b):
    a, b = np.asarray(a), np.asarray(b)
    m = max(float(np.max(np.abs(a))) if a.size else 0.0, float(np.max(np.abs(b))) if b.size else 0.0)
    if m > 0 and math.isfinite(m):       # overflow / underflow-safe: norms of the arrays divided by their largest entry
        a, b = a / m, b / m
    nb = np.linalg.norm(b)
    return float(np.linalg.norm(a) / nb) if nb > 0 else float("nan")


def qe(x):
    v = qs(x, SCALE)
    # finite but out of the quantiser's range: saturate (nan/inf keep their sentinels)
    return QLIM if v == QBIG else (-QLIM if v == QNBIG else v)


def _num(a):
    """float64 view of a real array, complex128 view of a complex one (never drops an imaginary part)."""
    a = np.asarray(a)
    return a.astype(complex) if np.iscomplexobj(a) else a.astype(float)


def qfine(x):
    """Fine quantiser for quantities that are zero up to rounding on correct code: units of 1e-14, saturating at 2e-5."""
    if x is None or not math.isfinite(x):
        return QNAN
    return int(min(round(abs(x) * 1e14), 2000000000))


def gram_dev(M):
    M = _num(M)
    if M.size == 0:
        return 0.0
    G = M.conj().T @ M
    return float(np.max(np.abs(G - np.eye(G.shape[0]))))


def col_norms(F):
    return np.linalg.norm(_num(F), axis=0)


def cp_struct(weights, factors):
    """Canonical-form measurements of a CP tensor."""
    w = _num(weights)
    if np.iscomplexobj(w):          # weights are norms: a complex weight vector must still be real-valued to be canonical
        w = np.where(np.abs(w.imag) > 0, np.nan, w.real).astype(float)
    norms = [col_norms(f) for f in factors]
    # deviation from unit norm over columns that are not EXACTLY zero (a tiny column is still to be normalised)
    dev = 0.0
    for nn in norms:
        for v in nn:
            if v > 0:
                dev = max(dev, abs(v - 1.0))
    return {"weights_one_dev": qe(float(np.max(np.abs(w - 1.0))) if w.size else 0.0),
            "colnorm_dev": qe(dev),
            "w_min": qe(float(w.min()) if w.size else 0.0)}


def cond_bucket_cp(weights, factors):
    """ceil(log10) of the largest condition number of the Hadamard-of-Grams matrices (measured)."""
    worst = 1.0
    n = len(factors)
    for m in range(n):
        G = None
        for i, f in enumerate(factors):
            if i == m:
                continue
            g = _num(f).conj().T @ _num(f)
            G = g if G is None else G * g
        if G is None:
            continue
        try:
            c = np.linalg.cond(G)
        except Exception:
            c = float("inf")
        worst = max(worst, c)
    if not math.isfinite(worst):
        return 99
    return int(math.ceil(math.log10(max(worst, 1.0))))


def mins(arrs):
    out = []
    for a in arrs:
        a = np.asarray(a)
        if a.size == 0:
            out.append(0)
        elif not np.all(np.isfinite(_num(a))):
            out.append(QNAN)
        else:
            m = float(a.real.min()) if np.iscomplexobj(a) else float(a.min())
            v = qe(m)
            out.append(-1 if (m < 0 and v >= 0) else v)      # a negative entry stays negative however small it is
    return out


def bit_identical(a, b):
    a, b = np.asarray(a), np.asarray(b)
    return bool(a.shape == b.shape and a.dtype == b.dtype and a.tobytes() == b.tobytes())


# ------------------------------------------------------------------------------------------------
# algorithm adapters: run(cfg, data, cap, cb) -> dict(decomp=..., errs=list|None)
# ------------------------------------------------------------------------------------------------
def _tol(cfg):
    t = cfg.get("tol", "zero")
    return {"zero": 0, "tiny": 1e-300, "loose": cfg.get("tol_value", 1e-3)}[t]


def user_init_cp(cfg):
    """Deterministic user initialisation (CP) from the configuration."""
    rng = _rng(cfg["seed"] * 31 + 5)
    shape, r = cfg["shape"], cfg["rank"]
    kind = cfg.get("init_kind", "float")
    if kind == "int":
        fs = [rng.randint(-2, 3, size=(s, r)).astype(float) for s in shape]
        for f in fs:             # avoid zero columns: keeps the start non-degenerate
            for j in range(r):
                if not f[:, j].any():
                    f[0, j] = 1.0
    elif kind == "nonneg":
        fs = [rng.random_sample((s, r)) + 0.1 for s in shape]
    else:
        fs = [rng.standard_normal((s, r)) for s in shape]
    wk = cfg.get("init_weights", "none")
    w = {"none": None, "ones": np.ones(r), "positive": np.arange(1, r + 1).astype(float) * 1.5,
         "negative": -np.arange(1, r + 1).astype(float), "mixed": np.array([(-2.0) ** (j + 1) for j in range(r)]),
         "int_mixed": np.array([float((-1) ** j * (j + 2)) for j in range(r)]),
         # all weights within 1e-8 of one, none exactly one: they are weights like any other
         "near_one": np.array([1.0 + (-1) ** j * 7e-9 * (j + 1) for j in range(r)])}[wk]
    return w, fs


_SHARED_INIT = {}      # init_reuse: the SAME initialisation object handed to two consecutive calls


def _init_arg(cfg, kind="cp"):
    if cfg["init"] != "user":
        return cfg["init"], None
    w, fs = user_init_cp(cfg)
    if cfg.get("init_shared"):                         # symmetric start: every mode holds the SAME array object
        fs = [fs[0]] * len(fs)
    if cfg.get("init_absorb") and w is not None:      # same tensor, weights absorbed into factor 0
        fs = [fs[0] * w.reshape(1, -1)] + fs[1:]
        w = None
    if cfg.get("init_reuse") and cfg["id"] in _SHARED_INIT:
        return _SHARED_INIT[cfg["id"]], (w, fs)
    if cfg.get("init_shared"):
        A = fs[0].copy()
        arg = (None if w is None else w.copy(), [A] * len(fs))
    else:
        arg = (None if w is None else w.copy(), [f.copy() for f in fs])
    if cfg.get("init_as") == "object":
        from tensorly.cp_tensor import CPTensor
        arg = CPTensor(arg)
    if cfg.get("init_readonly"):        # the caller's arrays are read-only: a legal start, nothing may be written into it
        for a_ in ([arg[0]] if arg[0] is not None else []) + list(arg[1]):
            a_.flags.writeable = False
    if cfg.get("init_reuse"):
        _SHARED_INIT[cfg["id"]] = arg
    return arg, (w, fs)


def run_alg(cfg, data, cap, with_cb=False):
    """Execute one run with iteration budget `cap`; returns dict(decomp, errs, cbs, kind)."""
    import tensorly as tl
    from tensorly import decomposition as D
    alg = cfg["alg"]
    np.random.seed(cfg["seed"] % (2**31))     # routines without a random_state parameter draw from the global stream
    tenalg_backend = cfg.get("tenalg", "core")
    if tenalg_backend != "core":
        tl.tenalg.set_backend(tenalg_backend)
    try:
        if cfg.get("init_reuse"):
            # a first call with the same initialisation OBJECT (what a retry, a parameter sweep or a refit does);
            # the run that is judged is the second one
            _SHARED_INIT.pop(cfg["id"], None)
            _run_alg(cfg, copy.deepcopy(data), 1, False, tl, D)
            np.random.seed(cfg["seed"] % (2**31))
        return _run_alg(cfg, data, cap, with_cb, tl, D)
    finally:
        _SHARED_INIT.pop(cfg.get("id"), None)
        if tenalg_backend != "core":
            tl.tenalg.set_backend("core")


WRAPPERS = {"parafac": "CP", "nn_parafac": "CP_NN", "nn_parafac_hals": "CP_NN_HALS", "constrained_parafac": "ConstrainedCP",
            "nn_tucker": "Tucker_NN", "nn_tucker_hals": "Tucker_NN_HALS", "parafac2": "Parafac2", "rand_parafac": "RandomizedCP"}


class StaleWrapperAttribute(Exception):
    pass


def _flat_arrays(dec):
    """All arrays of a decomposition object / tuple, in order."""
    out = []
    if dec is None:
        return out
    if isinstance(dec, np.ndarray) or np.isscalar(dec):
        return [np.asarray(dec)]
    for part in dec:
        out += _flat_arrays(part)
    return out


FIXED_FORMS = ("list", "tuple", "set", "range", "npints", "iter", "map", "gen", "reversed", "dictkeys", "ndarray")


def _fixed_form(cfg):
    """The fixed modes in the spelling the configuration asks for: any iterable of integers names the same SET of modes.
    One-shot iterators (iter / map / generator / reversed) can be walked through exactly once."""
    fx = list(cfg.get("fixed", []))
    if not fx:
        return None
    form = cfg.get("fixed_form", "list")
    if form == "list":
        return fx
    if form == "tuple":
        return tuple(fx)
    if form == "set":
        return set(fx)
    if form == "range":
        return range(min(fx), max(fx) + 1) if sorted(fx) == list(range(min(fx), max(fx) + 1)) else fx
    if form == "npints":
        return [np.int64(m) for m in fx]
    if form == "iter":
        return iter(fx)
    if form == "map":
        return map(int, [str(m) for m in fx])
    if form == "gen":
        return (m for m in fx)
    if form == "reversed":
        return reversed(fx[::-1])
    if form == "dictkeys":
        return {m: None for m in fx}.keys()
    if form == "ndarray":
        return np.array(fx)
    raise ValueError(form)


class _ViaPositional:
    """Stands in for tensorly.decomposition: hands every argument over POSITIONALLY, in the order of the published signature
    (harness/positional_signatures.json, recorded from the pinned tree: the order callers were written against), filling the
    parameters the configuration does not set with their published defaults."""
    _SIG = None

    def __init__(self, D):
        self.D = D
        if _ViaPositional._SIG is None:
            import json as _json
            _ViaPositional._SIG = _json.load(open(os.path.join(os.path.dirname(os.path.abspath(__file__)), "positional_signatures.json")))

    def __getattr__(self, fname):
        fn = getattr(self.D, fname)
        sig = _ViaPositional._SIG.get(fname)
        if sig is None:
            return fn

        def call(data, rank, **kw):
            unknown = [k for k in kw if k not in [p[0] for p in sig]]
            if unknown:
                raise NotImplementedError("no published parameter %s in %s" % (unknown, fname))
            last = max([i for i, p_ in enumerate(sig) if p_[0] in kw] + [1])
            args = [data, rank]
            for name, _req, default in sig[2:last + 1]:
                args.append(kw[name] if name in kw else default)
            return fn(*args)
        return call


class _ViaWrapper:
    """Stands in for tensorly.decomposition: routes the functional call through the class wrapper (fit_transform + errors_)."""

    def __init__(self, D, refit=False):
        self.D = D
        self.refit = refit          # fit the SAME estimator object on other data first: attributes must not go stale

    def __getattr__(self, fname):
        import inspect
        D = self.D
        table = {"parafac": "CP", "non_negative_parafac": "CP_NN", "non_negative_parafac_hals": "CP_NN_HALS",
                 "constrained_parafac": "ConstrainedCP", "non_negative_tucker": "Tucker_NN", "non_negative_tucker_hals": "Tucker_NN_HALS",
                 "parafac2": "Parafac2", "randomised_parafac": "RandomizedCP", "tucker": "Tucker"}
        if fname not in table:
            return getattr(D, fname)
        cls = getattr(D, table[fname], None)
        if cls is None:                       # not re-exported by the package
            from tensorly.decomposition import _tucker
            cls = getattr(_tucker, table[fname])

        def call(data, rank, **kw):
            want_errs = kw.pop("return_errors", None)
            accepted = set(inspect.signature(cls.__init__).parameters)
            dropped = {k: v for k, v in kw.items() if k not in accepted}
            for k, v in dropped.items():      # an option the wrapper does not offer: only proceed if it is at its default
                if k in ("callback",) and v is None:
                    continue
                if v not in (None, False, 0):
                    raise NotImplementedError("wrapper %s has no option %s" % (cls.__name__, k))
            extra = {}
            if "return_errors" in accepted and cls.__name__ != "Tucker":      # (Tucker hands the pair back instead of storing errors_)
                extra["return_errors"] = True
            if "verbose" in accepted:
                extra["verbose"] = False
            est = cls(rank, **{k: v for k, v in kw.items() if k in accepted}, **extra)
            if self.refit:
                other = [np.asarray(s_) * 1.7 + 0.3 for s_ in data] if isinstance(data, list) else np.asarray(data)[..., ::-1] * 1.7 + 0.3
                if self.refit == "fit":
                    other = None
                elif self.refit == "order" and not isinstance(data, list) and np.ndim(data) >= 3:
                    other = np.asarray(data)[..., 0] * 1.7 + 0.3          # an estimator fitted before on a tensor of LOWER order
                try:
                    if other is not None:
                        est.fit_transform(other)
                except Exception:
                    pass
            if self.refit == "fit":                       # `fit` then the stored attribute, instead of `fit_transform`
                est.fit(data)
                dec = est.decomposition_
            else:
                dec = est.fit_transform(data)
            # what the estimator exposes afterwards must be this fit's result, not an earlier one
            stored = getattr(est, "decomposition_", dec)
            try:
                same = all(np.array_equal(np.asarray(a), np.asarray(b)) for a, b in zip(_flat_arrays(stored), _flat_arrays(dec)))
            except Exception:
                same = False
            if not same:
                raise StaleWrapperAttribute("decomposition_ is not the decomposition fit_transform returned")
            errs = list(est.errors_) if hasattr(est, "errors_") else None
            return (dec, errs) if want_errs else dec
        return call


def _nflag(cfg):
    """normalize_factors in the spelling the configuration asks for: the flag is a truth value, not the singleton True / False
    (np.bool_ is what np.any(...) or a comparison of NumPy scalars hands over; 1 / 0 what a command line parser does)."""
    v = bool(cfg.get("normalize", False))
    form = cfg.get("normalize_form", "bool")
    if form == "np_bool":
        return np.bool_(v)
    if form == "int":
        return int(v)
    if form == "none" and not v:
        return None
    return v


def _run_alg(cfg, data, cap, with_cb, tl, D):
    if cfg.get("wrapper"):
        D = _ViaWrapper(D, refit=cfg.get("wrapper_refit") or False)
    elif cfg.get("call_form") == "positional":
        D = _ViaPositional(D)
    alg = cfg["alg"]
    seed = cfg["seed"]
    rank = cfg["rank"]
    # argument forms: memory layout of the data, NumPy integer types for rank / budget
    if cfg.get("layout") == "F" and isinstance(data, np.ndarray):
        data = np.asfortranarray(data)
    elif cfg.get("layout") == "strided" and isinstance(data, np.ndarray):
        big = np.zeros(data.shape[:-1] + (data.shape[-1] * 2,), dtype=data.dtype)      # every other entry of a wider array
        big[..., ::2] = data
        data = big[..., ::2]
    elif cfg.get("layout") == "readonly":
        if isinstance(data, np.ndarray):
            data = data.copy()
            data.flags.writeable = False                  # a legal input: the routines have no business writing into it
        elif isinstance(data, list):
            data = [np.array(s_) for s_ in data]
            for s_ in data:
                s_.flags.writeable = False
    if cfg.get("np_ints"):
        cap = np.int64(cap)
        rank = np.int64(rank) if isinstance(rank, int) else [np.int64(r) for r in rank]
    cbs = []
    out = {"errs": None, "cbs": cbs, "extra": {}}
    fixed = _fixed_form(cfg)
    if alg in ("parafac", "nn_parafac", "nn_parafac_hals", "constrained_parafac", "rand_parafac"):
        init, rawinit = _init_arg(cfg)
        out["rawinit"] = rawinit
        if cfg.get("prior_failed") and not isinstance(init, str) and alg != "rand_parafac":
            # the caller's previous call with the SAME start object failed half-way (an unknown convergence criterion is
            # detected at the end of the second sweep) and was caught: the objects it was given are used again below
            fn = {"parafac": "parafac", "nn_parafac": "non_negative_parafac", "nn_parafac_hals": "non_negative_parafac_hals",
                  "constrained_parafac": "constrained_parafac"}[alg]
            kwf = dict(n_iter_max=4, init=init, random_state=seed, cvg_criterion="no-such-criterion", fixed_modes=_fixed_form(cfg))
            kwf["tol_outer" if alg == "constrained_parafac" else "tol"] = 1e-12
            if alg == "constrained_parafac":
                kwf.update(cfg.get("constraints") or {"non_negative": True})
            try:
                getattr(D, fn)(data, rank, **kwf)
                out["extra"]["prior_failed_did_not_fail"] = True
            except Exception:
                pass
    if alg == "parafac":
        kw = dict(n_iter_max=cap, init=init, tol=_tol(cfg), random_state=seed, return_errors=True,
                  normalize_factors=_nflag(cfg), linesearch=cfg.get("linesearch", False),
                  fixed_modes=fixed, l2_reg=0)
        if cfg.get("sparsity"):
            kw["sparsity"] = cfg["sparsity"]
        mask = None
        if cfg.get("mask"):
            mrng = _rng(seed + 99)
            mask = (mrng.random_sample(data.shape) > 0.2).astype(float)
            kw["mask"] = mask
            out["extra"]["mask"] = mask
        if cfg.get("orthogonalise"):
            kw["orthogonalise"] = True
        if cfg.get("l2_reg"):
            kw["l2_reg"] = cfg["l2_reg"]
        if cfg.get("cvg_criterion"):
            kw["cvg_criterion"] = cfg["cvg_criterion"]
        if with_cb:
            def cb(cp, err):
                c = cp[0] if cfg.get("sparsity") else cp
                sp = cp[1] if cfg.get("sparsity") else None
                cbs.append(((None if c[0] is None else np.array(c[0])), [np.array(f) for f in c[1]],
                            None if sp is None else np.array(sp), float(err)))
            kw["callback"] = cb
        res = D.parafac(data, rank, **kw)
        if res is not None and isinstance(res, tuple) and len(res) == 2 and isinstance(res[1], list):
            dec, errs = res
        else:                       # all modes fixed: returns the bare CPTensor
            dec, errs = res, None
        if cfg.get("sparsity"):
            out["decomp"] = ("cp_sparse", dec[0][0], list(dec[0][1]), dec[1])
        else:
            out["decomp"] = ("cp", dec[0], list(dec[1]))
        out["errs"] = errs
    elif alg == "nn_parafac":
        dec, errs = D.non_negative_parafac(data, rank, n_iter_max=cap, init=init, tol=_tol(cfg), random_state=seed,
                                           return_errors=True, normalize_factors=_nflag(cfg), fixed_modes=fixed)
        out["decomp"] = ("cp", dec[0], list(dec[1]))
        out["errs"] = errs
    elif alg == "nn_parafac_hals":
        kw = dict(n_iter_max=cap, init=init, tol=_tol(cfg), random_state=seed, return_errors=True,
                  normalize_factors=_nflag(cfg), fixed_modes=fixed, exact=cfg.get("exact", False))
        if "nn_modes" in cfg:
            kw["nn_modes"] = cfg["nn_modes"] if cfg["nn_modes"] == "all" else set(cfg["nn_modes"])
        if cfg.get("sparsity_coefficients") is not None:
            kw["sparsity_coefficients"] = list(cfg["sparsity_coefficients"])
        dec, errs = D.non_negative_parafac_hals(data, rank, **kw)
        out["decomp"] = ("cp", dec[0], list(dec[1]))
        out["errs"] = errs
    elif alg == "constrained_parafac":
        kw = dict(n_iter_max=cap, n_iter_max_inner=cfg.get("inner", 10), init=init, tol_outer=_tol(cfg),
                  random_state=seed, return_errors=True, fixed_modes=fixed)
        cons = {k_: ({int(m_): v_ for m_, v_ in val.items()} if isinstance(val, dict) else val)
                for k_, val in cfg.get("constraints", {"non_negative": True}).items()}       # (JSON replays carry string keys)
        kw.update(cons)
        if cfg.get("prior_other_order"):
            # the SAME specification objects used first for a tensor of another order (a per-mode dictionary with negative
            # keys is written once and applied to tensors of any order); its result is not judged
            other = np.multiply.outer(np.asarray(data), np.array([1.0, 0.5]))
            try:
                D.constrained_parafac(other, rank, **dict(kw, init="random" if not isinstance(init, str) else init, fixed_modes=None, n_iter_max=1))
            except Exception:
                pass
        dec, errs = D.constrained_parafac(data, rank, **kw)
        out["decomp"] = ("cp", dec[0], list(dec[1]))
        out["errs"] = errs
    elif alg == "rand_parafac":
        kw = dict(n_samples=cfg.get("n_samples", 12), n_iter_max=cap, init=init, tol=_tol(cfg), random_state=seed,
                  return_errors=True, max_stagnation=cfg.get("max_stagnation", 20))
        if with_cb:
            def cb(cp, err=None):
                cbs.append((np.array(cp[0]), [np.array(f) for f in cp[1]], None, None if err is None else float(err)))
            kw["callback"] = cb
        dec, errs = D.randomised_parafac(data, rank, **kw)
        out["decomp"] = ("cp", dec[0], list(dec[1]))
        out["errs"] = errs
    elif alg in ("tucker", "nn_tucker", "nn_tucker_hals"):
        init = cfg["init"]
        rawinit = None
        if init == "user":
            rng = _rng(seed * 31 + 5)
            ranks = rank if isinstance(rank, list) else [rank] * len(cfg["shape"])
            core = rng.standard_normal(ranks) if alg == "tucker" else rng.random_sample(ranks) + 0.1
            truth = nn_tucker_truth(cfg) if cfg.get("init_kind") == "truth" else None
            fs = []
            for s, r in zip(cfg["shape"], ranks):
                if alg == "tucker" and cfg.get("init_kind") == "raw":
                    fs.append(rng.standard_normal((s, r)))              # NOT orthonormal: HOOI must orthonormalise every mode itself
                elif alg == "tucker":
                    fs.append(np.linalg.qr(rng.standard_normal((s, r)))[0] if s >= r else rng.standard_normal((s, r)))
                else:
                    fs.append(rng.random_sample((s, r)) + 0.1)
            if truth is not None:                    # warm start AT the known solution of the noise-free problem
                core, fs = truth[0].copy(), [u.copy() for u in truth[1]]
            if cfg.get("init_shared"):                 # equal-sized modes hold the SAME array object (a symmetric start)
                for j_ in range(1, len(fs)):
                    if fs[j_].shape == fs[0].shape:
                        fs[j_] = fs[0]
            rawinit = (core, [f.copy() for f in fs])
            if cfg.get("init_reuse") and cfg["id"] in _SHARED_INIT:
                init = _SHARED_INIT[cfg["id"]]
            else:
                init = (core.copy(), [f.copy() for f in fs])
                if cfg.get("init_shared"):
                    A_ = fs[0].copy()
                    init = (core.copy(), [A_ if f is fs[0] else f.copy() for f in fs])
                if cfg.get("init_as") == "object":
                    from tensorly.tucker_tensor import TuckerTensor
                    init = TuckerTensor(init)
                if cfg.get("init_reuse"):
                    _SHARED_INIT[cfg["id"]] = init
        out["rawinit"] = rawinit
        if alg == "tucker":
            kw = dict(n_iter_max=cap, init=init, tol=_tol(cfg), random_state=seed, return_errors=True)
            if cfg.get("svd"):
                kw["svd"] = cfg["svd"]
            if cfg.get("mask"):
                # missing entries: the start is still exactly the supplied Tucker tensor
                kw["mask"] = (_rng(seed + 99).random_sample(data.shape) > 0.2).astype(float)
            if cfg.get("fixed"):
                kw["fixed_factors"] = _fixed_form(cfg)
                kw.pop("return_errors")
                dec = D.tucker(data, rank, **kw)
                errs = None
            else:
                dec, errs = D.tucker(data, rank, **kw)
        elif alg == "nn_tucker":
            dec, errs = D.non_negative_tucker(data, rank, n_iter_max=cap, init=init, tol=_tol(cfg), random_state=seed,
                                              return_errors=True, normalize_factors=_nflag(cfg))
        else:
            kw = dict(n_iter_max=cap, init=init, tol=_tol(cfg), random_state=seed, return_errors=True,
                      normalize_factors=_nflag(cfg), fixed_modes=fixed, exact=cfg.get("exact", False),
                      algorithm=cfg.get("algorithm", "fista"))
            if cfg.get("sparsity_coefficients") is not None:
                kw["sparsity_coefficients"] = list(cfg["sparsity_coefficients"])
            if cfg.get("core_sparsity") is not None:
                kw["core_sparsity_coefficient"] = cfg["core_sparsity"]
            dec, errs = D.non_negative_tucker_hals(data, rank, **kw)
        out["decomp"] = ("tucker", dec[0], list(dec[1]))
        out["errs"] = errs
    elif alg == "parafac2":
        slices = data
        init = cfg["init"]
        rawinit = None
        if init == "user":
            from tensorly.random import random_parafac2
            shapes = [s.shape for s in slices]
            p2 = random_parafac2(shapes, rank, random_state=seed + 3, full=False)
            w = {"none": None, "ones": np.ones(rank), "positive": np.arange(1, rank + 1) * 1.5,
                 "mixed": np.array([(-2.0) ** (j + 1) for j in range(rank)])}[cfg.get("init_weights", "none")]
            absorb = None
            if cfg.get("init_absorb") and w is not None:
                # absorbed into B (mode 1), the mode PARAFAC2 itself folds the weights into and that carries no constraint
                absorb = w.reshape(1, -1)
                fs_ = [np.array(f) for f in p2[1]]
                p2 = (p2[0], [fs_[0], fs_[1] * absorb, fs_[2]], p2[2])
                w = None
            if cfg.get("init_as", "parafac2") == "cp":
                # a CP tensor of shape (n_slices, rows, cols): needs slices of equal height
                rngc = _rng(seed * 31 + 6)
                Bfull = rngc.standard_normal((shapes[0][0], rank))
                if absorb is not None:
                    Bfull = Bfull * absorb
                cpf = [np.array(p2[1][0]), Bfull, np.array(p2[1][2])]
                rawinit = ("cp", w, cpf)
                init = (None if w is None else w.copy(), [f.copy() for f in cpf])
            else:
                rawinit = ("parafac2", w, [np.array(f) for f in p2[1]], [np.array(P) for P in p2[2]])
                init = (None if w is None else w.copy(), [np.array(f) for f in p2[1]], [np.array(P) for P in p2[2]])
        out["rawinit"] = rawinit
        kw = dict(n_iter_max=cap, init=init, tol=_tol(cfg), random_state=seed, return_errors=True,
                  normalize_factors=_nflag(cfg), n_iter_parafac=cfg.get("n_iter_parafac", 5),
                  linesearch=cfg.get("linesearch", False))
        if cfg.get("nn_modes") is not None:
            kw["nn_modes"] = cfg["nn_modes"] if cfg["nn_modes"] == "all" else list(cfg["nn_modes"])
        dec, errs = D.parafac2(slices, rank, **kw)
        out["decomp"] = ("parafac2", dec[0], list(dec[1]), list(dec[2]))
        out["errs"] = errs
    elif alg == "tr_als":
        errs_cb = []

        def cb(tr, err):
            cbs.append((None, [np.array(c) for c in tr], None, float(err)))
        kw = dict(n_iter_max=cap, tol=_tol(cfg), random_state=seed, ls_solve=cfg.get("ls_solve", "lstsq"))
        if with_cb or cfg.get("callback", True):
            kw["callback"] = cb
        if cfg.get("sampled"):
            dec = D.tensor_ring_als_sampled(data, rank, cfg.get("n_samples", 30), **{k: v for k, v in kw.items() if k != "ls_solve"})
        else:
            dec = D.tensor_ring_als(data, rank, **kw)
        out["decomp"] = ("tr", [np.array(c) for c in dec])
        out["errs"] = None
    elif alg == "robust_pca":
        mask = None
        if cfg.get("mask"):
            mask = (_rng(seed + 99).random_sample(data.shape) > 0.2).astype(float)
        Dl, E, errs = D.robust_pca(data, mask=mask, tol=_tol(cfg) if cfg.get("tol") != "tiny" else 1e-300, reg_E=cfg.get("reg_E", 1.0),
                                   reg_J=cfg.get("reg_J", 1.0), n_iter_max=cap, return_errors=True, verbose=0,
                                   learning_rate=cfg.get("learning_rate", 1.1))
        out["decomp"] = ("rpca", np.asarray(Dl), np.asarray(E))
        nrm = float(np.linalg.norm(data))
        out["errs"] = [float(e) / nrm for e in errs]
    elif alg == "cmtf":
        X, Y = data
        dec, mat, errs = D.coupled_matrix_tensor_3d_factorization(X, Y, rank, init=cfg["init"], n_iter_max=cap, tol=_tol(cfg),
                                                                  normalize_factors=_nflag(cfg))
        out["decomp"] = ("cmtf", dec[0], list(dec[1]), mat[0], list(mat[1]))
        out["errs"] = errs
    else:
        raise ValueError(alg)
    return out


def make_input(cfg):
    x = _make_input(cfg)
    sc = cfg.get("scale")
    dt = cfg.get("data_dtype")      # the dtype the DATA is held in (the user initialisation stays float64)
    if cfg["alg"] == "parafac2":
        x = [s_ * sc for s_ in x] if sc else x
        return [s_.astype(dt) for s_ in x] if dt else x
    if cfg["alg"] == "cmtf":
        x = (x[0] * sc, x[1] * sc) if sc else x
        return (x[0].astype(dt), x[1].astype(dt)) if dt else x
    x = x * sc if sc else x
    return x.astype(dt) if dt else x


def _make_input(cfg):
    alg = cfg["alg"]
    if alg == "parafac2":
        rng = _rng(cfg["seed"] * 7919 + 13)
        rows = cfg["rows"]
        J = cfg["shape"][2]
        r = cfg.get("data_rank", cfg["rank"])
        if cfg["data"] in ("lowrank", "nn_lowrank"):
            nn = cfg["data"] == "nn_lowrank"
            draw = (lambda *s: rng.random_sample(s) + 0.1) if nn else (lambda *s: rng.standard_normal(s))
            A = draw(len(rows), r)
            B = draw(r, r)
            C = draw(J, r)
            sl = []
            for i, n in enumerate(rows):
                P = np.linalg.qr(rng.standard_normal((n, r)))[0]
                sl.append(P @ B @ np.diag(A[i]) @ C.T)
            return sl
        if cfg["data"] == "nn_sparse_noisy":      # sparse non-negative factors + noise: extrapolated iterates cross zero
            A = rng.random_sample((len(rows), r)) * (rng.random_sample((len(rows), r)) < 0.7) + 0.05
            B = rng.random_sample((r, r)) + 0.1
            C = rng.random_sample((J, r)) * (rng.random_sample((J, r)) < 0.5)
            sl = []
            for i, n in enumerate(rows):
                P = np.linalg.qr(rng.standard_normal((n, r)))[0]
                S = P @ B @ np.diag(A[i]) @ C.T
                sl.append(S + 0.15 * np.std(S) * rng.standard_normal(S.shape))
            return sl
        if cfg["data"] == "nonneg":
            return [rng.random_sample((n, J)) + 0.05 for n in rows]
        return [rng.standard_normal((n, J)) for n in rows]
    if alg == "cmtf":
        rng = _rng(cfg["seed"] * 7919 + 13)
        X = _make_data(cfg)
        Y = rng.standard_normal((cfg["shape"][0], cfg.get("ycols", 3)))
        if cfg["data"] == "lowrank":
            r = cfg.get("data_rank", cfg["rank"])
            A = rng.standard_normal((cfg["shape"][0], r))
            B = rng.standard_normal((cfg["shape"][1], r))
            C = rng.standard_normal((cfg["shape"][2], r))
            V = rng.standard_normal((cfg.get("ycols", 3), r))
            X = cp_dense(None, [A, B, C])
            Y = A @ V.T
        return (X, Y)
    return _make_data(cfg)


def dense_of(dec):
    kind = dec[0]
    if kind == "cp":
        return cp_dense(dec[1], dec[2])
    if kind == "cp_sparse":
        return cp_dense(dec[1], dec[2]) + np.asarray(dec[3])
    if kind == "tucker":
        return tucker_dense(dec[1], dec[2])
    if kind == "tr":
        return tr_dense(dec[1])
    if kind == "rpca":
        return dec[1] + dec[2]
    raise ValueError(kind)


def true_error(cfg, data, dec, extra=None):
    """Relative reconstruction error of the returned decomposition, recomputed by definition."""
    kind = dec[0]
    if kind == "parafac2":
        rec = p2_slices(dec[1], dec[2], dec[3])
        num = math.sqrt(sum(np.linalg.norm(s - r) ** 2 for s, r in zip(data, rec)))
        den = math.sqrt(sum(np.linalg.norm(s) ** 2 for s in data))
        return num / den
    if kind == "cmtf":
        X, Y = data
        e = np.linalg.norm(X - cp_dense(dec[1], dec[2])) ** 2 + np.linalg.norm(Y - cp_dense(dec[3], dec[4])) ** 2
        return e / (np.linalg.norm(X) ** 2 + np.linalg.norm(Y) ** 2)
    M = dense_of(dec)
    if extra and extra.get("mask") is not None:
        mask = extra["mask"]
        low = cp_dense(dec[1], dec[2])
        imputed = data * mask + low * (1 - mask)
        return float(np.linalg.norm(mask * (data - low)) / np.linalg.norm(imputed))
    return rel(data - M, data)


def errs_q(cfg, data, errs):
    if errs is None:
        return "none"
    out = []
    for e in errs:
        e = float(e)
        if cfg["alg"] == "cmtf":
            X, Y = data
            e = e / (np.linalg.norm(X) ** 2 + np.linalg.norm(Y) ** 2)
        out.append(qe(e))
    return out


def structure(cfg, data, dec):
    """Structure / canonical-form measurements of a returned decomposition."""
    kind = dec[0]
    st = {"kind": kind}
    if kind in ("cp", "cp_sparse"):
        w, fs = dec[1], dec[2]
        st["shapes"] = [list(np.shape(f)) for f in fs]
        st["wshape"] = list(np.shape(w))
        st.update(cp_struct(w, fs))
        st["mins"] = mins([w] + list(fs))
    elif kind == "tucker":
        core, fs = dec[1], dec[2]
        st["shapes"] = [list(np.shape(f)) for f in fs]
        st["core_shape"] = list(np.shape(core))
        st["orth_dev"] = qe(max([gram_dev(f) for f in fs] + [0.0]))
        proj = _num(data)
        for m, f in enumerate(fs):
            proj = np.moveaxis(np.tensordot(np.asarray(f).conj().T, proj, axes=(1, m)), 0, m)
        st["core_proj_dev"] = qe(rel(np.asarray(core) - proj, data))
        st["colnorm_dev"] = qe(max([abs(v - 1.0) for f in fs for v in col_norms(f) if v > 0] + [0.0]))
        st["mins"] = mins([core] + list(fs))
        st["zero_factor"] = bool(any(not np.any(np.asarray(f)) for f in fs))
    elif kind == "parafac2":
        w, fs, Ps = dec[1], dec[2], dec[3]
        st["shapes"] = [list(np.shape(f)) for f in fs]
        st["wshape"] = list(np.shape(w))
        st["proj_shapes"] = [list(np.shape(P)) for P in Ps]
        st["orth_dev"] = qe(max(gram_dev(P) for P in Ps))
        B = np.asarray(fs[1])
        cps = [(np.asarray(P) @ B).T @ (np.asarray(P) @ B) for P in Ps]
        st["crossprod_dev"] = qe(max(float(np.max(np.abs(c - cps[0]))) for c in cps) / max(1.0, float(np.max(np.abs(cps[0])))))
        st.update(cp_struct(w, fs))
        st["mins"] = mins([w] + list(fs))
    elif kind == "tr":
        cores = dec[1]
        st["shapes"] = [list(np.shape(c)) for c in cores]
        st["mins"] = mins(cores)
    elif kind == "rpca":
        st["shapes"] = [list(np.shape(dec[1])), list(np.shape(dec[2]))]
        st["mins"] = mins([dec[1], dec[2]])
    elif kind == "cmtf":
        st["shapes"] = [list(np.shape(f)) for f in dec[2]] + [list(np.shape(f)) for f in dec[4]]
        st["wshape"] = list(np.shape(dec[1]))
        a = cp_struct(dec[1], dec[2])
        b = cp_struct(dec[3], dec[4])
        st["colnorm_dev"] = max(a["colnorm_dev"], b["colnorm_dev"])          # sentinels are larger than any finite value
        st["weights_one_dev"] = max(a["weights_one_dev"], b["weights_one_dev"])
        st["w_min"] = a["w_min"]
        st["mins"] = mins([dec[1]] + list(dec[2]))
    return st


def cond_bucket(cfg, dec):
    kind = dec[0]
    if kind in ("cp", "cp_sparse", "parafac2"):
        return cond_bucket_cp(dec[1], dec[2])
    if kind == "cmtf":
        return cond_bucket_cp(dec[1], dec[2])
    return 0


def warm_measure(cfg, data, k, dec, rawinit):
    """C14 measurements: distance to the tensor the initialisation represents, bit-identity per mode, twin run."""
    kind = dec[0]
    w = {}
    if kind in ("cp", "cp_sparse"):
        iw, ifs = rawinit
        init_dense = cp_dense(iw, ifs)
        try:
            dv = rel(cp_dense(dec[1], dec[2]) - init_dense, init_dense)
            w["init_dev"], w["init_fine"] = qe(dv), qfine(dv)
        except ValueError:
            w["init_dev"], w["init_fine"] = QNAN, QNAN
        w["bit_identical"] = [bit_identical(a, b) for a, b in zip(dec[2], ifs)]
        if cfg.get("twin"):
            res2 = run_alg(dict(cfg, init_absorb=True), copy.deepcopy(data), k)
            d2 = res2["decomp"]
            a, b = cp_dense(dec[1], dec[2]), cp_dense(d2[1], d2[2])
            w["twin_dev"], w["twin_fine"] = qe(rel(a - b, init_dense)), qfine(rel(a - b, init_dense))
    elif kind == "tucker":
        icore, ifs = rawinit
        init_dense = tucker_dense(icore, ifs)
        try:
            dv = rel(tucker_dense(dec[1], dec[2]) - init_dense, init_dense)
            w["init_dev"], w["init_fine"] = qe(dv), qfine(dv)
        except ValueError:          # the returned (core, factors) do not even fit together / have another shape
            w["init_dev"], w["init_fine"] = QNAN, QNAN
        w["bit_identical"] = [bit_identical(a, b) for a, b in zip(dec[2], ifs)]
    elif kind == "parafac2":
        if rawinit[0] == "parafac2":
            _, iw, ifs, iPs = rawinit
            a = p2_slices(dec[1], dec[2], dec[3])
            b = p2_slices(iw, ifs, iPs)
            num = math.sqrt(sum(np.linalg.norm(x - y) ** 2 for x, y in zip(a, b)))
            den = math.sqrt(sum(np.linalg.norm(y) ** 2 for y in b))
            w["init_dev"], w["init_fine"] = qe(num / den), qfine(num / den)
        else:
            # a CP start carries no projections: the factors (with weights) must be what was supplied
            _, iw, ifs = rawinit
            a = np.stack(p2_slices(dec[1], dec[2], dec[3]))
            b = cp_dense(iw, ifs)
            w["init_dev"], w["init_fine"] = qe(rel(a - b, b)), qfine(rel(a - b, b))
        w["bit_identical"] = [False, False, False]
        if cfg.get("twin") and rawinit[1] is not None:
            res2 = run_alg(dict(cfg, init_absorb=True), copy.deepcopy(data), k)
            d2 = res2["decomp"]
            a = p2_slices(dec[1], dec[2], dec[3])
            b = p2_slices(d2[1], d2[2], d2[3])
            num = math.sqrt(sum(np.linalg.norm(x - y) ** 2 for x, y in zip(a, b)))
            den = math.sqrt(sum(np.linalg.norm(y) ** 2 for y in data))
            w["twin_dev"], w["twin_fine"] = qe(num / den), qfine(num / den)
    return w


def record_trace(cfg, K=K_QUICK):
    """All events of one trace: Config, Prefix(0..K), Callback(...)."""
    tid = cfg["id"]
    events = [{"id": tid + "/cfg", "tr": tid, "ev": "Config", "alg": cfg["alg"], "cfg": _cfg_for_spec(cfg)}]
    try:
        data = make_input(cfg)
    except Exception as ex:
        return [{"id": tid, "harness_error": "make_input: %r" % (ex,)}]
    caps = cfg.get("caps") or list(range(0, K + 1))
    if cfg["alg"] == "cmtf":
        caps = [k for k in caps if k > 0]     # cmtf(n_iter_max=0) dies with UnboundLocalError on the unchanged tree (no listed property; DESIGN 12)
    prev_dense = None
    for k in caps:
        ev = {"id": "%s/k%d" % (tid, k), "tr": tid, "ev": "Prefix", "k": k}
        try:
            with np.errstate(all="ignore"):
                res = run_alg(cfg, copy.deepcopy(data), k, with_cb=False)
        except Exception as ex:
            ev.update({"out": "raised", "exc": type(ex).__name__, "msg": str(ex)[:120]})
            events.append(ev)
            continue
        dec = res["decomp"]
        errs = res["errs"]
        ev["out"] = "ok"
        ev["errs"] = errs_q(cfg, data, errs) if errs is not None else []
        ev["n_errs"] = -1 if errs is None else len(errs)
        ev["malformed"] = False
        if cfg["alg"] == "cmtf" and cfg.get("normalize"):
            # normalisation happens once, at return: the normalised pair must represent what the raw run returns
            try:
                raw = run_alg(dict(cfg, normalize=False), copy.deepcopy(data), k)["decomp"]
                a = rel(cp_dense(dec[1], dec[2]) - cp_dense(raw[1], raw[2]), cp_dense(raw[1], raw[2]))
                b = rel(cp_dense(dec[3], dec[4]) - cp_dense(raw[3], raw[4]), cp_dense(raw[3], raw[4]))
                ev["scale_dev"] = qe(max(a, b))
            except Exception:
                ev["scale_dev"] = QNAN
        try:
            ev["true"] = qe(true_error(cfg, data, dec, res.get("extra")))
        except Exception as ex:
            ev["true"] = QNAN
        ev["cond"] = cond_bucket(cfg, dec)
        if cfg["init"] == "user" and res.get("rawinit") is not None:
            try:
                ev["warm"] = warm_measure(cfg, data, k, dec, res["rawinit"])
            except Exception as ex:
                return [{"id": tid, "harness_error": "warm_measure: %r" % (ex,)}]
        try:
            ev["st"] = structure(cfg, data if cfg["alg"] not in ("parafac2", "cmtf") else (data if cfg["alg"] != "cmtf" else data[0]), dec) \
                if cfg["alg"] != "parafac2" else structure(cfg, None, dec)
        except ValueError as ex:
            # the returned pieces do not fit together (e.g. factors in the wrong positions): not a decomposition of this format
            ev["malformed"] = True
            ev["st"] = {"kind": "malformed", "mins": [], "why": str(ex)[:80]}
        events.append(ev)
    if cfg.get("callback"):
        try:
            with np.errstate(all="ignore"):
                res = run_alg(cfg, copy.deepcopy(data), caps[-1], with_cb=True)
            for j, (w, fs, sp, err) in enumerate(res["cbs"]):
                if cfg["alg"] == "tr_als":
                    d = ("tr", fs)
                elif sp is not None:
                    d = ("cp_sparse", w, fs, sp)
                else:
                    d = ("cp", w, fs)
                # amplification: how large the iterate's entries are (ceil log10); a ring with over-parameterised ranks grows
                # cores of size 1e10 that cancel, and then NO evaluation of the error is accurate beyond eps * amp^2
                amp = 0
                if cfg["alg"] == "tr_als":
                    mx = max([float(np.max(np.abs(c_))) for c_ in fs] + [1.0])
                    amp = int(math.ceil(math.log10(mx))) if math.isfinite(mx) else 99
                events.append({"id": "%s/cb%d" % (tid, j), "tr": tid, "ev": "Callback", "j": j, "amp": amp,
                               "err": -1 if err is None else qe(err), "has_err": err is not None,
                               "true": qe(true_error(cfg, data, d, res.get("extra")))})
        except np.linalg.LinAlgError:
            pass        # a numerical break-down (singular block system) of the callback run: excused like in the prefix runs
        except Exception as ex:
            events.append({"id": tid + "/cb", "tr": tid, "ev": "Callback", "j": -1, "err": QNAN, "has_err": True, "true": QNAN})
    return events


def _cfg_for_spec(cfg):
    """The part of the configuration the specification needs (flat, JSON-safe, uniformly typed)."""
    nn = cfg.get("nn_modes")
    if cfg["alg"] == "constrained_parafac":
        v = cfg.get("constraints", {"non_negative": True}).get("non_negative")
        nn = "all" if v is True else (sorted(int(k) % len(cfg["shape"]) for k in v if v[k]) if isinstance(v, dict)
                                      else [m for m, b in enumerate(v) if b] if isinstance(v, (list, tuple)) else None)
    if cfg["alg"] == "nn_parafac_hals" and "nn_modes" not in cfg:
        nn = "all"
    nn_kind = "none" if nn is None else ("all" if nn == "all" else "list")
    rank = cfg["rank"]
    shape = list(cfg["shape"])
    if cfg["alg"] == "parafac2":
        shape = [len(cfg["rows"]), max(cfg["rows"]), cfg["shape"][2]]
    return {"alg": cfg["alg"], "order": len(cfg["shape"]), "shape": shape,
            "rank_kind": "int" if isinstance(rank, int) else "list", "rank_list": [rank] if isinstance(rank, int) else list(rank),
            "init": cfg["init"], "normalize": bool(cfg.get("normalize", False)), "tol": cfg.get("tol", "zero"),
            "linesearch": bool(cfg.get("linesearch", False)), "callback": bool(cfg.get("callback", False)),
            "fixed": list(cfg.get("fixed", [])), "data": cfg["data"], "sparsity": bool(cfg.get("sparsity")),
            "mask": bool(cfg.get("mask")), "nn_kind": nn_kind, "nn_list": list(nn) if nn_kind == "list" else [],
            "algorithm": cfg.get("algorithm", "none"), "stagn": bool(cfg.get("max_stagnation", 20)) if cfg["alg"] == "rand_parafac" else False,
            "rows": list(cfg.get("rows", [])), "tenalg": cfg.get("tenalg", "core"), "single": cfg.get("data_dtype") == "float32",
            "raw_init": bool(cfg.get("raw_init", False)),
            "sampled": bool(cfg.get("sampled", False)), "init_weights": cfg.get("init_weights", "none"),
            # a penalised fit (ridge, l1 sparsity) minimises another objective than the reconstruction error
            "reorth": bool(cfg.get("orthogonalise")),
            "penalised": bool(cfg.get("l2_reg") or cfg.get("core_sparsity") or any(x for x in (cfg.get("sparsity_coefficients") or []) if x))}


def nonneg_extra_configs(tier, seed):
    """Additional configurations for C10: signed / negative / sparse / integer data, user nonneg inits, caps 0..K."""
    rng = _rng(seed + 202)
    cfgs = []

    def add(alg, **kw):
        c = {"alg": alg, "seed": int(rng.randint(0, 10**6))}
        c.update(kw)
        c["id"] = "x%s-%03d" % (alg, len([x for x in cfgs if x["alg"] == alg]))
        cfgs.append(c)
    for alg in ("nn_parafac", "nn_parafac_hals"):
        for data in ("negative", "sparse", "integer"):
            add(alg, shape=[4, 5, 3], rank=2, data=data, init=str(rng.choice(["svd", "random"])), tol="tiny", normalize=bool(rng.rand() < 0.5))
        add(alg, shape=[4, 5, 3], rank=2, data="signed", init="user", init_kind="nonneg", tol="tiny")
    # the rarely used exact=True option of the HALS routines (inner solves run to their own convergence)
    for data in ("signed", "sparse", "nonneg"):
        add("nn_parafac_hals", shape=[4, 5, 3], rank=2, data=data, init=["svd", "random"][len(cfgs) % 2], tol="tiny", exact=True, caps=[0, 1, 2, 5])
        add("nn_tucker_hals", shape=[4, 5, 3], rank=[2, 2, 2], data=data, init=["svd", "random"][len(cfgs) % 2], tol="tiny", exact=True,
            algorithm=["fista", "active_set"][len(cfgs) % 2], caps=[0, 1, 2, 5])
    # negative zeros / subnormal entries in the data, every non-negative routine
    for alg, rk in (("nn_parafac", 2), ("nn_parafac_hals", 2), ("nn_tucker", [2, 2, 2]), ("nn_tucker_hals", [2, 2, 2])):
        for init in ("svd", "random"):
            add(alg, shape=[4, 5, 3], rank=rk, data="signed_zero", init=init, tol="tiny", caps=[0, 1, 2, 5])
    add("constrained_parafac", shape=[4, 5, 3], rank=2, data="signed_zero", init="svd", tol="zero", constraints={"non_negative": True}, caps=[0, 1, 2, 5])
    add("parafac2", shape=[3, 0, 4], rows=[4, 5, 4], rank=2, data="signed_zero", init="svd", tol="tiny", nn_modes="all", caps=[0, 1, 2, 5])
    # fixed modes (non-negative user start) with the non-negative modes left at their default: the FREE modes stay >= 0
    for alg, kw in (("nn_parafac", {}), ("nn_parafac_hals", {}), ("nn_parafac_hals", {"nn_modes": "all"}),
                    ("constrained_parafac", {"constraints": {"non_negative": True}})):
        for shp, fx in (([4, 5, 3], [0]), ([4, 5, 3], [1]), ([3, 4, 2, 3], [0, 1]), ([3, 4, 2, 3], [2, 0])):
            add(alg, shape=shp, rank=2, data=str(rng.choice(["signed", "generic", "nonneg"])), init="user", init_kind="nonneg", tol="tiny", fixed=fx,
                caps=[0, 1, 2, 5], **kw)
    # per-mode specifications in every form, with and without mode 0, list and dict; PARAFAC2 with nn_modes="all"
    for spec in ({1: True, 2: True}, {2: True}, {1: True}, [False, True, True], [True, False, True], {0: True, 1: True}):
        for init in ("svd", "random"):
            add("constrained_parafac", shape=[4, 5, 3], rank=2, data=str(rng.choice(["signed", "generic", "negative"])), init=init, tol="zero",
                constraints={"non_negative": spec}, inner=int(rng.choice([1, 3, 10])), caps=[0, 1, 2, 5])
    for init in ("svd", "random"):
        for data in ("generic", "nonneg"):
            add("parafac2", shape=[3, 0, 4], rows=[4, 5, 4], rank=2, data=data, init=init, tol="tiny", nn_modes="all", caps=[0, 1, 2, 5])
    # nearly feasible unconstrained solutions: entries of the size of the noise around an exact zero must still come out >= 0
    for j in range(6):
        add("nn_tucker_hals", shape=[4, 5, 3], rank=[2, 2, 2], data="nn_tucker_noisy", init=["user", "svd", "user"][j % 3], init_kind="truth", tol="zero",
            algorithm=["active_set", "fista"][j % 3 == 2], caps=[1, 2, 3, 5])
        add("nn_tucker", shape=[4, 5, 3], rank=[2, 2, 2], data="nn_tucker_noisy", init=["svd", "random"][j % 2], tol="zero", caps=[1, 2, 3]) if j < 2 else None
    # one specification / one estimator used for tensors of DIFFERENT order (negative keys = "from the end"; nn_modes='all')
    for spec in ({0: True, -1: True}, {-1: True}, {-2: True, 0: True}):
        for shp in ([4, 5, 3], [3, 4, 2, 3]):
            add("constrained_parafac", shape=shp, rank=2, data=str(rng.choice(["signed", "generic"])), init=str(rng.choice(["svd", "random"])), tol="zero",
                constraints={"non_negative": spec}, inner=int(rng.choice([3, 10])), prior_other_order=True, caps=[1, 2, 5])
            add("constrained_parafac", shape=shp, rank=2, data="signed", init="random", tol="zero", constraints={"non_negative": spec}, inner=3, caps=[0, 1, 3])
    for alg in ("nn_parafac_hals", "nn_parafac"):
        for data in ("signed", "generic"):
            add(alg, shape=[4, 5, 3], rank=2, data=data, init=str(rng.choice(["svd", "random"])), tol="tiny", wrapper=True, wrapper_refit="order", caps=[1, 2, 5])
    for alg in ("nn_tucker", "nn_tucker_hals"):
        for data in ("sparse", "integer"):
            add(alg, shape=[4, 5, 3], rank=[2, 2, 2], data=data, init=str(rng.choice(["svd", "random"])), tol="zero",
                **({"algorithm": str(rng.choice(["fista", "active_set"]))} if alg == "nn_tucker_hals" else {}))
    for data in ("negative", "signed", "sparse"):
        add("constrained_parafac", shape=[4, 5, 3], rank=2, data=data, init=str(rng.choice(["svd", "random"])), tol="zero",
            constraints={"non_negative": True}, inner=int(rng.choice([1, 10])))
    add("parafac2", shape=[3, 0, 4], rows=[4, 5, 4], rank=2, data="generic", init="random", tol="tiny", nn_modes=[0])
    add("parafac2", shape=[3, 0, 4], rows=[4, 5, 4], rank=2, data="nonneg", init="svd", tol="tiny", nn_modes=[0, 2], normalize=True)
    # every non-negative algorithm x every data kind x both built-in initialisations
    thorough = tier == "thorough"
    for alg in ("nn_parafac", "nn_parafac_hals", "nn_tucker", "nn_tucker_hals", "constrained_parafac"):
        for data in ("signed", "negative", "sparse", "integer", "nonneg"):
            for init in ("svd", "random"):
                kw = {}
                rank = 2
                if alg in ("nn_tucker", "nn_tucker_hals"):
                    rank = [2, 2, 2]
                if alg == "nn_tucker_hals":
                    kw["algorithm"] = str(rng.choice(["fista", "active_set"]))
                if alg == "constrained_parafac":
                    kw["constraints"] = {"non_negative": True} if rng.rand() < 0.6 else {"non_negative": {0: True, 2: True}}
                    kw["inner"] = int(rng.choice([1, 3, 10]))
                add(alg, shape=[4, 5, 3] if rng.rand() < 0.7 else [3, 4, 2, 3][:3 if alg.startswith("nn_tucker") else 4], rank=rank, data=data, init=init,
                    tol=str(rng.choice(["zero", "tiny", "loose"])), normalize=bool(rng.rand() < 0.4) and alg != "constrained_parafac",
                    caps=[0, 1, 2, 3, 5, 8] if thorough else [0, 1, 2, 5], **kw)
    # PARAFAC2 with non-negative modes AND line search: the extrapolated iterate must be clipped too; a run that ENDS on an
    # accepted line step (caps 7, 9, 11, 13) returns it without a further projection
    for j in range(10 if thorough else 5):
        add("parafac2", shape=[3, 0, 4], rows=[[5, 5, 5], [4, 6, 5]][j % 2], rank=2, data=["nonneg", "generic", "nn_lowrank"][j % 3],
            init=["random", "svd"][j % 2], tol="tiny", nn_modes=[[0, 2], [0, 2], [2], [0]][j % 4], linesearch=True, caps=[0, 1, 6, 7, 8, 9, 10, 11, 12, 13])
    # ... and many single runs that stop right after a line-search iteration (an overshoot below zero is rare: ~1 run in 20)
    for j in range(240 if thorough else 80):
        add("parafac2", shape=[3, 0, 4], rows=[[5, 5, 5], [4, 6, 5], [6, 6, 6]][j % 3], rank=2 + (j % 5 == 0), data=["nonneg", "generic", "nn_lowrank", "signed"][j % 4],
            init=["random", "svd"][j % 2], tol="tiny", nn_modes=[0, 2], linesearch=True, caps=[[7], [9], [11], [13]][j % 4], scale=[None, None, 1e-2][j % 3])
    return cfgs


# ------------------------------------------------------------------------------------------------
# configuration domain (sampled from the seed; the spec checks each config is well formed)
# ------------------------------------------------------------------------------------------------
def driver_configs(tier, seed, algs=None):
    rng = _rng(seed + 101)
    thorough = tier == "thorough"
    cfgs = []

    def add(alg, **kw):
        c = {"alg": alg, "seed": int(rng.randint(0, 10**6))}
        c.update(kw)
        c["id"] = "%s-%03d" % (alg, len([x for x in cfgs if x["alg"] == alg]))
        if "normalize" in c and "normalize_form" not in c:
            # the SPELLING of the flag rotates (deterministically, not from the random stream): True/False, np.bool_, 1/0
            c["normalize_form"] = ("bool", "np_bool", "int")[len(cfgs) % 3]
        if len(cfgs) % 4 == 3 and not c.get("wrapper") and "call_form" not in c:
            c["call_form"] = "positional"      # every argument handed over positionally, in the published order
        cfgs.append(c)

    shapes = {2: [[5, 4]], 3: [[4, 5, 3], [3, 3, 4]], 4: [[3, 4, 2, 3]]}
    reps = 3 if thorough else 1
    for _ in range(reps):
        # ---- CP-ALS
        for order in (2, 3, 4):
            for shape in shapes[order][:(2 if thorough else 1)]:
                for data in ("generic", "lowrank", "integer"):
                    for init in ("svd", "random"):
                        normalize = bool(rng.rand() < 0.5)
                        tol = rng.choice(["zero", "loose"])
                        add("parafac", shape=shape, rank=int(rng.choice([1, 2, 3])), data=data, init=init, normalize=normalize,
                            tol=str(tol), callback=bool(rng.rand() < 0.5), tenalg=str(rng.choice(["core", "einsum"])))
        for data in ("generic", "lowrank"):
            normalize = bool(rng.rand() < 0.5)
            add("parafac", shape=[4, 5, 3], rank=2, data=data, init="random", normalize=normalize, tol="zero", linesearch=True,
                callback=True, caps=list(range(0, 13)))
            add("parafac", shape=[4, 5, 3], rank=2, data=data, init="svd", normalize=not normalize, tol="tiny", linesearch=True,
                callback=False, caps=list(range(0, 13)))
        add("parafac", shape=[4, 5, 3], rank=2, data="generic", init="svd", tol="zero", sparsity=5, callback=True)
        add("parafac", shape=[4, 5, 3], rank=2, data="lowrank", init="random", tol="loose", sparsity=0.1, callback=False)
        add("parafac", shape=[4, 5, 3], rank=2, data="generic", init="svd", tol="zero", mask=True)
        add("parafac", shape=[4, 5, 3], rank=2, data="generic", init="user", init_weights="none", tol="zero", fixed=[0], callback=True)
        add("parafac", shape=[4, 5, 3], rank=2, data="generic", init="user", init_weights="ones", tol="loose", fixed=[1])
        # negative numbers in fixed_modes name no mode (the routine compares mode NUMBERS): the sweep and the error bookkeeping
        # are those of the remaining entries; last two modes of equal size, so that pairing the wrong factor would not even raise
        for shp, fx in (([4, 3, 3], [-1]), ([3, 4, 4], [-1, 0]), ([4, 3, 3], [-2]), ([3, 3, 3], [-1, -3])):
            add("parafac", shape=shp, rank=2, data="generic", init="user", init_weights="none", tol="zero", fixed=fx, callback=True)
            add("parafac", shape=shp, rank=2, data="lowrank", init="user", init_weights="ones", tol="tiny", fixed=fx, normalize=True)
        # ranks above a mode size (a factor wider than it is tall), data holding negative zeros and subnormal entries
        for alg, dat in (("parafac", "generic"), ("parafac", "signed_zero"), ("nn_parafac", "signed_zero"), ("nn_parafac_hals", "signed_zero"),
                         ("nn_parafac_hals", "nonneg")):
            add(alg, shape=[4, 5, 3], rank=5, data=dat, init="random", tol="zero", normalize=bool(len(cfgs) % 2))
            add(alg, shape=[4, 5, 3], rank=2, data=dat, init="svd", tol="tiny", normalize=bool(len(cfgs) % 2))
        add("parafac", shape=[4, 5, 3], rank=3, data="generic", init="svd", tol="zero", orthogonalise=True)
        add("parafac", shape=[4, 5, 3], rank=2, data="generic", init="random", tol="loose", normalize=True, tol_value=1e-2)
        # ---- non-negative CP (MU and HALS)
        for alg in ("nn_parafac", "nn_parafac_hals"):
            for order in (2, 3, 4):
                for shape in shapes[order][:1]:
                    for data in ("nonneg", "nn_lowrank", "signed"):
                        add(alg, shape=shape, rank=int(rng.choice([1, 2, 3])), data=data, init=str(rng.choice(["svd", "random"])),
                            normalize=bool(rng.rand() < 0.5), tol=str(rng.choice(["tiny", "loose"])))
            add(alg, shape=[4, 5, 3], rank=2, data="nonneg", init="svd", tol="loose", normalize=True, tol_value=1e-2)
        add("nn_parafac_hals", shape=[4, 5, 3], rank=2, data="nonneg", init="svd", tol="tiny", exact=True, caps=[0, 1, 2])
        add("nn_parafac_hals", shape=[4, 5, 3], rank=2, data="signed", init="random", tol="tiny", nn_modes=[0, 2])
        add("nn_parafac_hals", shape=[4, 5, 3], rank=2, data="sparse", init="svd", tol="tiny", sparsity_coefficients=[0.1, None, 0.1], nn_modes="all")
        # ---- constrained CP
        for cons in ({"non_negative": True}, {"l1_reg": 0.05}, {"unimodality": True}, {"simplex": 1.0}, {"non_negative": {0: True, 2: True}}):
            data = str(rng.choice(["nonneg", "generic"]))
            add("constrained_parafac", shape=[4, 5, 3], rank=2, data=data, init=str(rng.choice(["svd", "random"])),
                tol=str(rng.choice(["zero", "loose"])), constraints=cons, inner=int(rng.choice([2, 10])))
        add("constrained_parafac", shape=[3, 4, 2, 3], rank=2, data="nonneg", init="svd", tol="zero", constraints={"non_negative": True})
        # ---- Tucker family
        for order in (2, 3, 4):
            for shape in shapes[order][:1]:
                for data in ("generic", "lowrank", "integer"):
                    init = str(rng.choice(["svd", "random"]))
                    rk = [int(min(s, rng.choice([1, 2, 3]))) for s in shape]
                    add("tucker", shape=shape, rank=rk, data=data, init=init, tol=str(rng.choice(["zero", "loose"])))
        add("tucker", shape=[4, 5, 3], rank=[2, 3, 2], data="generic", init="random", tol="loose", tol_value=1e-2)
        for alg in ("nn_tucker", "nn_tucker_hals"):
            for data in ("nonneg", "nn_lowrank", "signed"):
                kw = {}
                if alg == "nn_tucker_hals":
                    kw["algorithm"] = str(rng.choice(["fista", "active_set"]))
                add(alg, shape=[4, 5, 3], rank=[2, 2, 2], data=data, init=str(rng.choice(["svd", "random"])), normalize=bool(rng.rand() < 0.5),
                    tol=str(rng.choice(["zero", "loose"])), **kw)
            add(alg, shape=[5, 4], rank=[2, 2], data="nonneg", init="svd", tol="zero")
            add(alg, shape=[4, 5, 3], rank=[2, 2, 2], data="nonneg", init="svd", tol="loose", normalize=True, tol_value=1e-2)
        # ---- PARAFAC2
        for data in ("generic", "lowrank", "nonneg"):
            add("parafac2", shape=[3, 0, 4], rows=[4, 5, 4], rank=2, data=data, init=str(rng.choice(["svd", "random"])),
                normalize=bool(rng.rand() < 0.5), tol=str(rng.choice(["tiny", "loose"])))
        add("parafac2", shape=[3, 0, 4], rows=[5, 5, 5], rank=2, data="lowrank", init="random", tol="tiny", linesearch=True, caps=list(range(0, 13)))
        add("parafac2", shape=[3, 0, 4], rows=[4, 6, 5], rank=2, data="generic", init="svd", tol="tiny", linesearch=True, caps=list(range(0, 13)))
        add("parafac2", shape=[3, 0, 4], rows=[4, 5, 4], rank=2, data="nonneg", init="random", tol="tiny", nn_modes=[0, 2])
        add("parafac2", shape=[4, 0, 3], rows=[3, 4, 5, 3], rank=3, data="generic", init="svd", tol="loose", normalize=True)
        # ---- tensor ring ALS
        for data in ("generic", "lowrank", "integer"):
            add("tr_als", shape=[4, 3, 4], rank=[2, 2, 2, 2], data=data, init="random", tol=str(rng.choice(["zero", "loose"])), callback=True)
        add("tr_als", shape=[3, 4, 2, 3], rank=[2, 1, 2, 2, 2], data="generic", init="random", tol="zero", callback=True)
        add("tr_als", shape=[4, 3, 4], rank=[2, 2, 2, 2], data="generic", init="random", tol="zero", callback=True, ls_solve="normal_eq")
        add("tr_als", shape=[4, 3, 4], rank=[1, 2, 2, 1], data="generic", init="random", tol="zero", callback=True, sampled=True)
        # ---- randomised CP
        for data in ("generic", "lowrank"):
            add("rand_parafac", shape=[4, 5, 3], rank=2, data=data, init=str(rng.choice(["svd", "random"])), tol=str(rng.choice(["zero", "loose"])), callback=True)
        add("rand_parafac", shape=[5, 4], rank=2, data="generic", init="random", tol="zero", callback=False)
        # ---- CMTF
        for data in ("generic", "lowrank"):
            add("cmtf", shape=[4, 5, 3], rank=2, data=data, init=str(rng.choice(["svd", "random"])), normalize=bool(rng.rand() < 0.5),
                tol=str(rng.choice(["zero", "loose"])))
    # ---- every (algorithm with a normalisation option) x (tolerance kind) with normalize=True: both exit paths and the
    #      "no tolerance at all" path must leave the canonical form (C08)
    for alg, kw in (("parafac", {}), ("nn_parafac", {"data": "nonneg"}), ("nn_parafac_hals", {"data": "nonneg"}),
                    ("nn_tucker", {"data": "nonneg", "rank": [2, 2, 2]}), ("nn_tucker_hals", {"data": "nonneg", "rank": [2, 2, 2], "algorithm": "fista"}),
                    ("parafac2", {"rows": [4, 5, 4], "shape": [3, 0, 4]}), ("cmtf", {})):
        for tol in ("zero", "tiny", "loose"):
            if alg == "parafac2" and tol == "zero":
                continue
            base = dict(shape=[4, 5, 3], rank=2, data="generic", init=str(rng.choice(["svd", "random"])), normalize=True, tol=tol,
                        caps=[0, 1, 2, 3, 5, 8])
            base.update(kw)
            add(alg, **base)
    # ---- warm starts that carry non-unit weights (e.g. an earlier normalised result), normalisation OFF: after any sweep the
    #      scale sits in the factors and the weights are all ones (budget 1 is a path of its own)
    for wk in ("positive", "mixed"):
        for init_as in ("parafac2", "cp"):
            add("parafac2", shape=[3, 0, 4], rows=[5, 5, 5] if init_as == "cp" else [4, 5, 4], rank=2, data="generic", init="user", init_weights=wk,
                init_as=init_as, tol="tiny", normalize=False, caps=[0, 1, 2, 3])
        add("parafac", shape=[4, 5, 3], rank=2, data="generic", init="user", init_weights=wk, tol="zero", normalize=False, caps=[0, 1, 2, 3])
        add("nn_parafac_hals", shape=[4, 5, 3], rank=2, data="nonneg", init="user", init_kind="nonneg", init_weights="positive", tol="tiny", normalize=False, caps=[0, 1, 2, 3])
    # ---- alternative routes to the same guarantee: the einsum tenalg backend, read-only / strided inputs, `fit` + attribute
    for alg, kw in (("parafac", {"data": "generic", "normalize": True}), ("parafac", {"data": "generic", "linesearch": True, "caps": [0, 1, 2, 6, 7, 8, 9]}),
                    ("nn_parafac", {"data": "nonneg"}), ("nn_parafac_hals", {"data": "nonneg"}), ("tucker", {"data": "generic", "rank": [2, 2, 2]}),
                    ("nn_tucker", {"data": "nonneg", "rank": [2, 2, 2]}), ("nn_tucker_hals", {"data": "nonneg", "rank": [2, 2, 2], "algorithm": "fista"}),
                    ("parafac2", {"rows": [4, 5, 4], "shape": [3, 0, 4], "data": "generic"}), ("parafac2", {"rows": [4, 5, 4], "shape": [3, 0, 4], "data": "nonneg", "nn_modes": [0, 2]}),
                    ("constrained_parafac", {"data": "nonneg", "constraints": {"non_negative": True}}), ("cmtf", {"data": "generic"}),
                    ("rand_parafac", {"data": "generic", "max_stagnation": 0}), ("tr_als", {"data": "generic", "shape": [4, 3, 4], "rank": [2, 2, 2, 2], "ls_solve": "lstsq", "init": "random"})):
        base = dict(shape=[4, 5, 3], rank=2, init=str(rng.choice(["svd", "random"])), tol="tiny", caps=[0, 1, 2, 3, 5])
        base.update(kw)
        add(alg, **dict(base, tenalg="einsum"))
        add(alg, **dict(base, layout=str(rng.choice(["readonly", "strided"]))))
        if alg in WRAPPERS:
            add(alg, **dict(base, wrapper=True, wrapper_refit="fit", caps=[1, 3, 5]))
    # ---- three-way option interactions and paths that need many sweeps
    #  (a) missing entries x line search: an accepted jump replaces the imputed tensor AND its norm (line iterations are 6, 8, ...)
    for j in range(6 if thorough else 3):
        add("parafac", shape=[5, 6, 4], rank=3, data=["noisy_lowrank", "generic", "lowrank"][j % 3], init=["random", "svd"][j % 2], tol="zero", mask=True,
            linesearch=True, callback=j % 2 == 0, caps=list(range(0, 15)))
    #  (b) HALS: normalisation x the LAST mode fixed x an active stopping rule (the error shortcut pairs the MTTKRP with the last UPDATED mode)
    for fx in ([2], [0, 2], [1, 2]):
        for nrm in (True, False):
            add("nn_parafac_hals", shape=[4, 5, 3], rank=2, data="nonneg", init="user", init_kind="nonneg", init_weights=str(rng.choice(["none", "positive"])),
                normalize=nrm, fixed=fx, tol="tiny", caps=[0, 1, 2, 3, 5, 8])
    #  (c) randomised CP leaving through the stagnation rule (what is returned is the LAST iterate, whose error is the last entry)
    for j in range(8 if thorough else 4):
        add("rand_parafac", shape=[4, 5, 3], rank=2, data=["noisy_lowrank", "generic"][j % 2], init=["random", "svd"][j % 2], tol="zero", callback=j % 2 == 0,
            max_stagnation=[2, 3, 5][j % 3], n_samples=[8, 12, 20][j % 3], caps=[5, 10, 20, 40, 80])
    #  (d) HOOI with a randomised SVD selected (documented as the solver of the INITIALISATION), many sweeps on data with a flat spectrum
    add("tucker", shape=[20, 24, 18], rank=[5, 5, 5], data="generic", init="svd", tol="zero", svd="randomized_svd", caps=[1, 2, 3, 20, 21, 60, 61, 100, 101])
    add("tucker", shape=[30, 40, 50], rank=[6, 6, 6], data="generic", init="random", tol="zero", svd="randomized_svd", caps=[1, 2, 50, 51, 105, 106, 107])
    #  (e) a LARGE problem (rank x product of the other modes above 2^20): blocked / chunked code paths
    add("parafac", shape=[20, 250, 250], rank=20, data="noisy_lowrank", init="random", tol="zero", normalize=True, caps=[1, 2, 3])
    # ---- tensor-ring ALS through the normal equations on (near-)exact fits: the reported value is the residual of the iterate
    for j in range(4):
        add("tr_als", shape=[[4, 3, 4], [3, 4, 3]][j % 2], rank=[[1, 1, 1, 1], [1, 2, 1, 1], [2, 1, 1, 2], [2, 2, 2, 2]][j], data="tr_exact", init="random", tol="zero",
            callback=True, ls_solve="normal_eq", caps=[0, 1, 2, 3, 5, 8, 13, 21])
    # ---- legal inputs of unusual structure
    for data, shp in (("symmetric", [4, 4, 4]), ("constant", [4, 5, 3]), ("dominant", [4, 5, 3]), ("orthogonal", [4, 5, 3]), ("banded", [4, 5, 3])):
        nonneg = data in ("constant", "dominant", "banded")
        for alg, kw in (("parafac", {"normalize": bool(rng.rand() < 0.5), "linesearch": bool(rng.rand() < 0.5), "caps": [0, 1, 2, 3, 6, 7, 8, 9]}),
                        ("tucker", {"rank": [2, 2, 2]}), ("parafac", {"rank": 3, "callback": True}),
                        ("tr_als", {"rank": [2, 2, 2, 2], "ls_solve": "lstsq", "init": "random"}), ("cmtf", {}), ("rand_parafac", {"max_stagnation": 0})) \
                + ((("nn_parafac", {}), ("nn_parafac_hals", {}), ("nn_tucker", {"rank": [2, 2, 2]}), ("nn_tucker_hals", {"rank": [2, 2, 2], "algorithm": "active_set"}),
                    ("constrained_parafac", {"constraints": {"non_negative": True}})) if nonneg else ()):
            base = dict(shape=shp, rank=2, data=data, init=str(rng.choice(["svd", "random"])), tol="tiny", caps=[0, 1, 2, 3, 5, 8])
            base.update(kw)
            add(alg, **base)
    # ---- HOOI from a user start whose factors are not orthonormal, some modes kept at full rank
    for rk in ([4, 2, 2], [2, 5, 3], [4, 5, 3], [2, 2, 2]):
        add("tucker", shape=[4, 5, 3], rank=rk, data=str(rng.choice(["generic", "lowrank"])), init="user", init_kind="raw", tol="zero", raw_init=True,
            caps=[0, 1, 2, 3, 5, 8])
    # ---- fixed modes x normalisation x user start whose fixed factor is NOT normalised (the sweep must keep using the
    #      factors as they are after every normalisation, fixed ones included)
    for alg, kw in (("nn_parafac_hals", {"data": "nonneg", "init_kind": "nonneg"}), ("parafac", {"data": "generic"}),
                    ("nn_parafac", {"data": "nonneg", "init_kind": "nonneg"})):
        for fx in ([0], [1], [0, 1]):
            add(alg, shape=[4, 5, 3], rank=2, init="user", init_weights=str(rng.choice(["none", "positive"])), normalize=True, fixed=fx,
                tol="tiny", caps=[0, 1, 2, 3, 5, 8], **kw)
    # ---- VALUE regimes: tiny / huge overall magnitude (relative errors and structure are scale-free), float32 storage
    # (magnitudes whose 14th power leaves the double range are outside the domain: the NNDSVDa start of the non-negative
    #  Tucker routines has factors AND core proportional to the data scale -- a start of size scale^(2*order+1) for order 3,
    #  by design -- and every error computation squares it)
    for sc in (1e-20, 1e-12, 1e20):
        for alg, kw in (("parafac", {"data": "generic", "normalize": True}), ("parafac", {"data": "generic", "linesearch": True, "caps": [0, 1, 2, 6, 7, 8, 9]}),
                        ("nn_parafac", {"data": "nonneg"}), ("nn_parafac_hals", {"data": "nonneg"}),
                        ("tucker", {"data": "generic", "rank": [2, 2, 2]}), ("nn_tucker", {"data": "nonneg", "rank": [2, 2, 2]}),
                        ("parafac2", {"rows": [4, 5, 4], "shape": [3, 0, 4], "data": "generic"}),
                        ("tr_als", {"data": "generic", "shape": [4, 3, 4], "rank": [2, 2, 2, 2], "ls_solve": "lstsq", "init": "random"}),
                        ("constrained_parafac", {"data": "nonneg", "constraints": {"non_negative": True}}),
                        ("cmtf", {"data": "generic"}), ("rand_parafac", {"data": "generic", "max_stagnation": 0})):
            base = dict(shape=[4, 5, 3], rank=2, init=str(rng.choice(["svd", "random"])), tol="tiny", scale=sc, caps=[0, 1, 2, 3, 5], extreme=True)
            base.update(kw)
            add(alg, **base)
    # ... and the ladder in between: an absolute threshold (an epsilon, a jitter, a floor) inside a scale-free algorithm
    # shows only in a band of magnitudes -- too small to matter for ordinary data, swamped again at the extremes
    for sc in (1e-5, 1e-7, 1e-9, 1e-14):
        for alg, kw in (("parafac", {"data": "generic", "normalize": True}), ("parafac", {"data": "generic"}),
                        ("nn_parafac", {"data": "nonneg", "normalize": True}), ("nn_parafac_hals", {"data": "nonneg", "normalize": bool(rng.rand() < 0.5)}),
                        ("tucker", {"data": "generic", "rank": [2, 2, 2]}), ("nn_tucker_hals", {"data": "nonneg", "rank": [2, 2, 2], "algorithm": "active_set"}),
                        ("parafac2", {"rows": [4, 5, 4], "shape": [3, 0, 4], "data": "generic", "nn_modes": [0, 2], "init": "svd"}),
                        ("parafac2", {"rows": [4, 5, 4], "shape": [3, 0, 4], "data": "generic", "normalize": True}),
                        ("constrained_parafac", {"data": "nonneg", "constraints": {"non_negative": True}}),
                        ("tr_als", {"data": "generic", "shape": [4, 3, 4], "rank": [2, 2, 2, 2], "ls_solve": "lstsq", "init": "random"})):
            base = dict(shape=[4, 5, 3], rank=2, init=str(rng.choice(["svd", "random"])), tol="tiny", scale=sc, caps=[0, 1, 2, 3, 5], extreme=True)
            base.update(kw)
            add(alg, **base)
    for dt, sc in (("float32", None), ("float32", 1e-4), ("float32", 1e3)):
        for alg, kw in (("parafac", {"data": "generic"}), ("nn_parafac", {"data": "nonneg"}), ("nn_parafac_hals", {"data": "nonneg"}),
                        ("tucker", {"data": "generic", "rank": [2, 2, 2]}), ("nn_tucker", {"data": "nonneg", "rank": [2, 2, 2]})):
            base = dict(shape=[4, 5, 3], rank=2, init=str(rng.choice(["svd", "random"])), tol="tiny", scale=sc, data_dtype=dt, caps=[0, 1, 2, 3, 5], extreme=True)
            base.update(kw)
            add(alg, **base)
    # ---- complex-valued data (supported by CP-ALS and HOOI: conjugate transposes everywhere)
    for data in ("complex", "complex_lowrank"):
        for init in ("svd", "random"):
            add("parafac", shape=[4, 5, 3], rank=2, data=data, init=init, tol="zero", normalize=bool(rng.rand() < 0.5), callback=init == "svd")
            add("tucker", shape=[4, 5, 3], rank=[2, 3, 2], data=data, init=init, tol="zero")
        add("tucker", shape=[3, 4, 2, 3], rank=[2, 2, 2, 2], data=data, init="random", tol="zero")
    # ---- line search on data of small / large norm (the acceptance test compares relative errors)
    for sc in (1e-2, 1e-3, 50.0):
        add("parafac", shape=[6, 7, 8], rank=2, data="generic", init="random", tol="zero", linesearch=True, scale=sc, callback=True,
            caps=list(range(0, 15)))
        add("parafac2", shape=[3, 0, 4], rows=[5, 5, 5], rank=2, data="generic", init="random", tol="tiny", linesearch=True, scale=sc,
            caps=list(range(0, 13)))
    # ---- long line-search runs on noisy low-rank data (late jumps extrapolate 4-6x): one long run exposes the whole reported list
    LONG = [0, 1, 2, 6, 7, 8, 9, 12, 13, 20, 21, 30, 31, 40]
    for sc in (None, 1e-2):
        for rk in (2, 3):
            add("parafac", shape=[6, 7, 8], rank=rk, data="noisy_lowrank", init="random", tol="tiny", linesearch=True, scale=sc, caps=LONG,
                callback=bool(rng.rand() < 0.5))
        add("parafac2", shape=[4, 0, 5], rows=[6, 6, 6, 6], rank=2, data="generic", init="random", tol="tiny", linesearch=True, scale=sc, caps=LONG)
    # ---- many single long line-search runs (a wrongly accepted jump is rare: ~1 run in 16 even when the acceptance test is wrong)
    for j in range(400 if thorough else 64):
        add("parafac", shape=[6, 7, 8], rank=2 + j % 2, data="noisy_lowrank", init="random", tol="tiny", linesearch=True,
            scale=[1e-3, 1e-2, None, 1e-4][j % 4], caps=[40], callback=False)
    for j in range(40 if thorough else 12):
        add("parafac2", shape=[4, 0, 5], rows=[6, 6, 6, 6], rank=2, data="generic", init="random", tol="tiny", linesearch=True,
            scale=[1e-2, None][j % 2], caps=[30])
    # ---- PARAFAC2 with non-negative modes AND line search: accepted jumps are clipped; the recorded error must be that of the kept iterate
    for j in range(240 if thorough else 80):
        add("parafac2", shape=[4, 0, 6], rows=[[6, 6, 6, 6], [5, 7, 6, 8]][j % 2], rank=2 + j % 2, data="nn_sparse_noisy", init="random", tol="tiny",
            linesearch=True, nn_modes=[[0, 2], [0], [2]][j % 3], n_iter_parafac=[2, 5][j % 2], caps=[40])
    # ---- tensor ring with over-parameterised ranks: rank-deficient block least-squares problems
    for shape, rank in (([2, 5, 4], [3, 1, 2, 3]), ([3, 2, 4], [2, 3, 1, 2]), ([2, 3, 2], [3, 2, 3, 3])):
        add("tr_als", shape=shape, rank=rank, data="generic", init="random", tol=str(rng.choice(["zero", "loose"])), callback=True, ls_solve="lstsq")
    # ---- randomised CP watched through the callback only (no stopping rule active)
    add("rand_parafac", shape=[4, 5, 3], rank=2, data="generic", init="random", tol="zero", callback=True, max_stagnation=0)
    add("rand_parafac", shape=[4, 5, 3], rank=2, data="lowrank", init="svd", tol="loose", callback=True, max_stagnation=0)

    # ---- penalised variants: what is reported is still the relative reconstruction error of the iterate
    for sp in ([0.1, None, 0.1], [0.5, 0.5, 0.5], [None, 0.2, None]):
        add("nn_tucker_hals", shape=[4, 5, 3], rank=[2, 2, 2], data="nonneg", init=str(rng.choice(["svd", "random"])), tol="zero",
            algorithm=str(rng.choice(["fista", "active_set"])), sparsity_coefficients=sp, caps=[0, 1, 2, 3, 5])
        add("nn_parafac_hals", shape=[4, 5, 3], rank=2, data="nonneg", init=str(rng.choice(["svd", "random"])), tol="tiny", sparsity_coefficients=sp,
            nn_modes="all", caps=[0, 1, 2, 3, 5])
    add("nn_tucker_hals", shape=[4, 5, 3], rank=[2, 2, 2], data="nonneg", init="svd", tol="zero", algorithm="fista", core_sparsity=0.3, caps=[0, 1, 2, 3, 5])
    add("parafac", shape=[4, 5, 3], rank=2, data="generic", init="svd", tol="zero", l2_reg=0.5, callback=True)
    add("parafac", shape=[4, 5, 3], rank=2, data="generic", init="random", tol="loose", cvg_criterion="rec_error", normalize=True)

    # ---- the class wrappers expose the same lists as `errors_`
    for alg, kw in (("parafac", {"data": "generic", "normalize": True}), ("nn_parafac", {"data": "nonneg"}), ("nn_parafac_hals", {"data": "nonneg"}),
                    ("constrained_parafac", {"data": "nonneg", "constraints": {"non_negative": True}}),
                    ("nn_tucker", {"data": "nonneg", "rank": [2, 2, 2]}), ("nn_tucker_hals", {"data": "nonneg", "rank": [2, 2, 2], "algorithm": "fista"}),
                    ("parafac2", {"rows": [4, 5, 4], "shape": [3, 0, 4], "data": "generic"}), ("rand_parafac", {"data": "generic"})):
        base = dict(shape=[4, 5, 3], rank=2, init=str(rng.choice(["svd", "random"])), tol=str(rng.choice(["tiny", "loose"])), wrapper=True,
                    caps=[0, 1, 2, 3, 5, 8])
        base.update(kw)
        add(alg, **base)
        add(alg, **dict(base, wrapper_refit=True, caps=[1, 3, 8]))      # the same estimator object fitted on other data first

    # ---- random sweep over the whole option space of every algorithm (what the curated list above does not pin)
    nrand = 12 if thorough else 3
    ch = lambda xs: xs[int(rng.randint(0, len(xs)))]
    for _ in range(nrand):
        sc = ch([None, None, 1e-2, 30.0])
        add("parafac", shape=ch([[4, 5, 3], [3, 3, 4], [5, 4], [3, 4, 2, 3], [6, 1, 4]]), rank=ch([1, 2, 3]), data=ch(["generic", "lowrank", "integer"]),
            init=ch(["svd", "random"]), normalize=ch([False, True]), tol=ch(["zero", "tiny", "loose"]), callback=ch([False, True]),
            linesearch=ch([False, False, True]), tenalg=ch(["core", "einsum"]), scale=sc, caps=list(range(0, 13)),
            layout=ch([None, "F"]), np_ints=ch([False, True]))
        for alg in ("nn_parafac", "nn_parafac_hals"):
            kw = {}
            shp = ch([[4, 5, 3], [5, 4], [3, 4, 2, 3]])
            if alg == "nn_parafac_hals":
                kw["nn_modes"] = ch(["all", [0], [0, len(shp) - 1], [1]])      # only modes the tensor has
            add(alg, shape=shp, rank=ch([1, 2, 3]), data=ch(["nonneg", "nn_lowrank", "signed", "sparse"]),
                init=ch(["svd", "random"]), normalize=ch([False, True]), tol=ch(["zero", "tiny", "loose"]), scale=ch([None, 1e-2, 30.0]),
                layout=ch([None, "F"]), np_ints=ch([False, True]), **kw)
        add("tucker", shape=ch([[4, 5, 3], [5, 4], [3, 4, 2, 3], [4, 1, 3]]), rank=ch([[1, 1, 1, 1], [2, 2, 2, 2], [2, 1, 2, 1], [3, 2, 1, 2]]),
            data=ch(["generic", "lowrank", "integer"]), init=ch(["svd", "random"]), tol=ch(["zero", "loose"]), scale=sc,
            layout=ch([None, "F"]), np_ints=ch([False, True]))
        cfgs[-1]["rank"] = [min(r, s_) for r, s_ in zip(cfgs[-1]["rank"], cfgs[-1]["shape"])]
        for alg in ("nn_tucker", "nn_tucker_hals"):
            kw = {"algorithm": ch(["fista", "active_set"])} if alg == "nn_tucker_hals" else {}
            add(alg, shape=[4, 5, 3], rank=ch([[2, 2, 2], [1, 2, 1], [2, 3, 2]]), data=ch(["nonneg", "nn_lowrank", "sparse"]), init=ch(["svd", "random"]),
                normalize=ch([False, True]), tol=ch(["zero", "loose"]), caps=[0, 1, 2, 3, 5], **kw)
        add("parafac2", shape=[3, 0, 4], rows=ch([[4, 5, 4], [5, 5, 5], [3, 6, 4]]), rank=ch([1, 2, 3]), data=ch(["generic", "lowrank", "nonneg"]),
            init=ch(["svd", "random"]), normalize=ch([False, True]), tol=ch(["tiny", "loose"]), linesearch=ch([False, True]),
            nn_modes=ch([None, None, [0], [0, 2]]), scale=ch([None, 1e-2, 30.0]), caps=list(range(0, 11)))
        # tensor ring: also over-parameterised ranks (rank-deficient block problems)
        shape, rank = ch([([4, 3, 4], [2, 2, 2, 2]), ([2, 5, 4], [3, 1, 2, 3]), ([3, 2, 4], [2, 3, 1, 2]), ([3, 4, 2, 3], [2, 1, 2, 2, 2]), ([2, 3, 2], [3, 2, 3, 3])])
        add("tr_als", shape=shape, rank=rank, data=ch(["generic", "lowrank", "integer"]), init="random", tol=ch(["zero", "loose"]), callback=True,
            ls_solve="lstsq", scale=sc)
        add("rand_parafac", shape=ch([[4, 5, 3], [5, 4], [3, 4, 2, 3]]), rank=ch([1, 2]), data=ch(["generic", "lowrank"]), init=ch(["svd", "random"]),
            tol=ch(["zero", "loose"]), callback=ch([True, True, False]), max_stagnation=ch([0, 0, 20]), n_samples=ch([8, 12, 40]))
        add("cmtf", shape=ch([[4, 5, 3], [3, 3, 4]]), rank=ch([1, 2, 3]), data=ch(["generic", "lowrank"]), init=ch(["svd", "random"]),
            normalize=ch([False, True]), tol=ch(["zero", "loose"]), scale=sc)
        add("constrained_parafac", shape=ch([[4, 5, 3], [3, 4, 2, 3]]), rank=ch([1, 2]), data=ch(["nonneg", "generic", "signed"]), init=ch(["svd", "random"]),
            tol=ch(["zero", "loose"]), inner=ch([1, 2, 10]),
            constraints=ch([{"non_negative": True}, {"l1_reg": 0.05}, {"l2_square_reg": 0.1}, {"non_negative": {0: True}}, {"smoothness": 0.1},
                            {"monotonicity": True}, {"hard_sparsity": 3}]))
    if algs:
        cfgs = [c for c in cfgs if c["alg"] in algs]
    return cfgs


def warm_configs(tier, seed):
    """C14 domain: user initialisations with unit / positive / negative / mixed weights, every subset of fixed modes."""
    rng = _rng(seed + 303)
    cfgs = []

    def add(alg, **kw):
        c = {"alg": alg, "seed": int(rng.randint(0, 10**6)), "init": "user", "caps": [0, 1, 2, 3, 5]}
        c.update(kw)
        c["id"] = "w%s-%03d" % (alg, len([x for x in cfgs if x["alg"] == alg]))
        if len(cfgs) % 4 == 3 and not c.get("wrapper") and "call_form" not in c:
            c["call_form"] = "positional"
        cfgs.append(c)
    import itertools
    shape = [4, 5, 3]
    subsets = [list(s) for r in range(0, 4) for s in itertools.combinations(range(3), r)]
    # CP-ALS: all weight kinds, twin runs; integer inits make the zero-budget comparison exact
    for wk in ("none", "ones", "positive", "negative", "mixed", "int_mixed"):
        add("parafac", shape=shape, rank=2, data="generic", init_weights=wk, init_kind="int" if wk == "int_mixed" else "float",
            tol="zero", twin=wk not in ("none", "ones"), normalize=False)
        add("parafac", shape=[3, 4, 2, 3], rank=2, data="lowrank", init_weights=wk, tol="loose", twin=wk not in ("none", "ones"),
            init_as="object")
    for fx in subsets:
        add("parafac", shape=shape, rank=2, data="generic", init_weights=str(rng.choice(["none", "ones"])), tol="zero", fixed=fx)
    add("parafac", shape=[5, 4], rank=2, data="generic", init_weights="mixed", tol="zero", twin=True)
    # non-negative CP (both): non-negative user start, positive weights
    for alg in ("nn_parafac", "nn_parafac_hals"):
        for wk in ("none", "ones", "positive"):
            add(alg, shape=shape, rank=2, data="nonneg", init_kind="nonneg", init_weights=wk, tol="tiny", twin=wk == "positive")
        for fx in subsets[:7]:
            add(alg, shape=shape, rank=2, data="nonneg", init_kind="nonneg", init_weights="none", tol="tiny", fixed=fx)
    # constrained CP
    for wk in ("none", "positive", "mixed"):
        # no twin runs: a penalised / ADMM-split problem is not invariant to moving scale between factors
        add("constrained_parafac", shape=shape, rank=2, data="generic", init_weights=wk, tol="zero", constraints={"l2_square_reg": 0.01})
    add("constrained_parafac", shape=shape, rank=2, data="nonneg", init_kind="nonneg", init_weights="none", tol="zero",
        constraints={"non_negative": True})
    for fx in subsets[:7]:
        add("constrained_parafac", shape=shape, rank=2, data="nonneg", init_kind="nonneg", init_weights="none", tol="zero",
            constraints={"non_negative": True}, fixed=fx)
    # Tucker with fixed factors / plain user init
    add("tucker", shape=shape, rank=[2, 3, 2], data="generic", tol="zero")
    for fx in subsets[1:7]:
        add("tucker", shape=shape, rank=[2, 3, 2], data="generic", tol="zero", fixed=fx)
    # a fixed factor that is SQUARE (full rank of its mode): absorbing it into the core and projecting it out again is the identity
    for rk, fx in (([4, 3, 2], [0]), ([2, 5, 2], [1]), ([4, 5, 2], [0, 1]), ([2, 3, 3], [2])):
        add("tucker", shape=shape, rank=rk, data="generic", tol="zero", fixed=fx, caps=[0, 1, 2])
    # fixed modes given in arbitrary order, order-4 data
    for fx in ([1, 0], [2, 0], [2, 1], [2, 0, 1]):
        add("tucker", shape=shape, rank=[2, 3, 2], data="generic", tol="zero", fixed=fx)
    for fx in ([3, 1], [2, 0, 1], [1, 3, 0], [0, 2]):
        add("tucker", shape=[3, 4, 2, 3], rank=[2, 2, 2, 2], data="generic", tol="zero", fixed=fx)
    # fixed modes together with non-unit weights in the initialisation (the weights may only be pulled into a mode that is not fixed)
    for alg, kw in (("parafac", {"data": "generic"}), ("nn_parafac", {"data": "nonneg", "init_kind": "nonneg", "tol": "tiny"}),
                    ("nn_parafac_hals", {"data": "nonneg", "init_kind": "nonneg", "tol": "tiny"}),
                    ("constrained_parafac", {"data": "generic", "constraints": {"l2_square_reg": 0.01}}),
                    ("constrained_parafac", {"data": "nonneg", "init_kind": "nonneg", "constraints": {"non_negative": True}})):
        for fx in ([0], [1], [0, 1], [1, 0]):
            base = dict(shape=shape, rank=2, init_weights="positive", tol="zero", fixed=fx)
            base.update(kw)
            add(alg, **base)
        base = dict(shape=[3, 4, 2, 3], rank=2, init_weights="positive", tol="zero", fixed=[2, 0])
        base.update(kw)
        add(alg, **base)
    # the DATA held in another dtype than the (float64) user initialisation: float32 measurements, integer counts.
    # The start is still exactly the supplied tensor and fixed factors come back bit-identical (same dtype, same bytes).
    for alg, kw in (("parafac", {}), ("nn_parafac", {"init_kind": "nonneg", "tol": "tiny"}),
                    ("nn_parafac_hals", {"init_kind": "nonneg", "tol": "tiny"}),
                    ("constrained_parafac", {"init_kind": "nonneg", "constraints": {"non_negative": True}})):
        for dt, data in (("float32", "nonneg"), ("int64", "counts"), ("int32", "counts")):
            if alg == "nn_parafac" and dt != "float32":
                continue          # the multiplicative-update routine takes machine epsilon of the DATA dtype: integer arrays are refused
            for fx, wk in (([], "none"), ([0], "none"), ([1, 0], "positive")):
                base = dict(shape=shape, rank=2, data=data, data_dtype=dt, init_weights=wk, tol="zero", fixed=fx, caps=[0, 1, 2, 3])
                base.update(kw)
                add(alg, **base)
    for dt, data in (("float32", "generic"), ("int64", "counts")):
        for fx in ([], [0], [2, 1]):
            add("tucker", shape=shape, rank=[2, 3, 2], data=data, data_dtype=dt, tol="zero", fixed=fx, caps=[0, 1, 2, 3])
    # read-only initial arrays, and the einsum tenalg backend, for every routine
    for alg, kw in (("parafac", {"data": "generic"}), ("nn_parafac", {"data": "nonneg", "init_kind": "nonneg", "tol": "tiny"}),
                    ("nn_parafac_hals", {"data": "nonneg", "init_kind": "nonneg", "tol": "tiny"}),
                    ("constrained_parafac", {"data": "nonneg", "init_kind": "nonneg", "constraints": {"non_negative": True}})):
        for extra in ({"init_readonly": True}, {"tenalg": "einsum"}, {"init_readonly": True, "fixed": [0]}, {"tenalg": "einsum", "fixed": [1, 0]}):
            base = dict(shape=shape, rank=2, init_weights="positive", tol="zero", caps=[0, 1, 2, 3])
            base.update(kw)
            base.update(extra)
            add(alg, **base)
    add("tucker", shape=shape, rank=[2, 3, 2], data="generic", tol="zero", tenalg="einsum", caps=[0, 1, 2])
    add("tucker", shape=shape, rank=[2, 3, 2], data="generic", tol="zero", tenalg="einsum", fixed=[0], caps=[0, 1, 2])
    # weights that are ALMOST one (a tolerance in place of an exact test would drop them), all algorithms, twin runs
    for alg, kw in (("parafac", {"data": "generic"}), ("nn_parafac", {"data": "nonneg", "init_kind": "nonneg", "tol": "tiny"}),
                    ("nn_parafac_hals", {"data": "nonneg", "init_kind": "nonneg", "tol": "tiny"}),
                    ("constrained_parafac", {"data": "nonneg", "init_kind": "nonneg", "constraints": {"non_negative": True}})):
        base = dict(shape=shape, rank=2, init_weights="near_one", tol="zero", twin=alg != "constrained_parafac", caps=[0, 1, 2])
        base.update(kw)
        add(alg, **base)
        add(alg, **dict(base, data_dtype="float32", twin=False))
    # every mode fixed together with normalisation: still the initialisation, unchanged
    for nrm in (True, False):
        add("parafac", shape=shape, rank=2, data="generic", init_weights="none", tol="zero", fixed=[0, 1, 2], normalize=nrm, caps=[0, 2])
        add("nn_parafac_hals", shape=shape, rank=2, data="nonneg", init_kind="nonneg", init_weights="none", tol="tiny", fixed=[0, 1, 2], normalize=nrm, caps=[0, 2])
    # PARAFAC2 warm starts with a negative weight and a non-negative last mode: weighted and absorbed form agree
    for init_as in ("parafac2", "cp"):
        for nn in ([2], None, [0, 2], "all"):
            add("parafac2", shape=[3, 0, 4], rows=[5, 5, 5] if init_as == "cp" else [4, 5, 4], rank=2, data="nonneg", init_weights="mixed",
                init_as=init_as, tol="tiny", twin=True, nn_modes=nn, caps=[0, 1, 2, 3])
    # the same initialisation OBJECT handed to two consecutive calls (a retry, a sweep over options, a refit): the second
    # call starts from the same tensor as the first; and a symmetric start whose modes hold the SAME array object
    for alg, kw in (("parafac", {"data": "generic"}), ("nn_parafac", {"data": "nonneg", "init_kind": "nonneg", "tol": "tiny"}),
                    ("nn_parafac_hals", {"data": "nonneg", "init_kind": "nonneg", "tol": "tiny"}),
                    ("constrained_parafac", {"data": "nonneg", "init_kind": "nonneg", "constraints": {"non_negative": True}})):
        for wk in ("positive", "none", "mixed" if alg == "parafac" else "ones"):
            for init_as in ("tuple", "object"):
                base = dict(shape=shape, rank=2, init_weights=wk, tol="zero", init_reuse=True, init_as=init_as, caps=[0, 1, 2])
                base.update(kw)
                add(alg, **base)
        base = dict(shape=[4, 4, 4], rank=2, init_weights="positive", tol="zero", init_shared=True, caps=[0, 1, 2])
        base.update(kw)
        add(alg, **base)
        # (all modes fixed: unit weights -- the documentation excludes fixing the last mode, and with every mode fixed there
        #  is no free mode the non-unit weights could be folded into; see DESIGN.md section 12)
        add(alg, **dict(base, fixed=[0, 1, 2], caps=[0, 2], init_weights="none"))
    for init_as in ("tuple", "object"):
        add("tucker", shape=shape, rank=[2, 3, 2], data="generic", tol="zero", init_reuse=True, init_as=init_as, caps=[0, 1, 2])
    # missing entries (mask) with a user start: Tucker and CP
    for fx in ([], [0], [2, 1]):
        add("tucker", shape=shape, rank=[2, 2, 2], data="generic", tol="zero", mask=True, fixed=fx, caps=[0, 1, 2, 3])
    for wk in ("none", "positive", "mixed"):
        add("parafac", shape=shape, rank=2, data="generic", init_weights=wk, tol="zero", mask=True, caps=[0, 1, 2, 3])
    # fixed modes x line search: an accepted jump extrapolates EVERY factor; fixed ones must come out of it untouched
    # (the line search is active from the 7th sweep on; slowly converging noisy data makes the jumps accepted)
    for j, fx in enumerate(([0], [1], [2], [0, 2], [1, 0])):
        add("parafac", shape=[6, 7, 8], rank=3, data="noisy_lowrank", init_weights=["none", "positive", "mixed", "ones", "negative"][j], tol="tiny",
            linesearch=True, fixed=fx, caps=[0, 6, 7, 8, 9, 12, 13, 20])
    # NN Tucker HALS
    add("nn_tucker_hals", shape=shape, rank=[2, 2, 2], data="nonneg", tol="zero", algorithm="fista", caps=[0, 1, 2])
    for fx in ([0], [1], [0, 1], [2]):
        add("nn_tucker_hals", shape=shape, rank=[2, 2, 2], data="nonneg", tol="zero", algorithm="fista", fixed=fx, caps=[0, 1, 2])
    add("nn_tucker", shape=shape, rank=[2, 2, 2], data="nonneg", tol="zero", caps=[0, 1, 2])
    # the SPELLING of the fixed modes: any iterable of integers names the same set of modes (tuple, set, range, NumPy integers,
    # a dictionary view, an array -- and one-shot iterators: iter(...), map(int, ...), a generator expression, reversed(...),
    # which a routine may walk through exactly once), for every routine that takes fixed modes
    fixed_algs = (("parafac", {"data": "generic", "tol": "zero"}), ("nn_parafac", {"data": "nonneg", "init_kind": "nonneg", "tol": "tiny"}),
                  ("nn_parafac_hals", {"data": "nonneg", "init_kind": "nonneg", "tol": "tiny"}),
                  ("constrained_parafac", {"data": "nonneg", "init_kind": "nonneg", "tol": "zero", "constraints": {"non_negative": True}}))
    for j, form in enumerate(FIXED_FORMS[1:]):
        for a_i, (alg, kw) in enumerate(fixed_algs):
            fx = [[0, 1], [1], [0], [1, 2], [0, 2]][(j + a_i) % 5]
            add(alg, **dict(kw, shape=shape, rank=2, init_weights="none", fixed=fx, fixed_form=form, caps=[0, 1, 2, 3]))
        if form != "ndarray":       # ("int list": `if fixed_factors:` has no meaning for an array)
            add("tucker", shape=shape, rank=[2, 3, 2], data="generic", tol="zero", fixed=[[0, 1], [1], [2, 0]][j % 3], fixed_form=form, caps=[0, 1, 2])
        add("nn_tucker_hals", shape=shape, rank=[2, 2, 2], data="nonneg", tol="zero", algorithm="fista", fixed=[[0, 1], [1], [0]][j % 3],
            fixed_form=form, caps=[0, 1, 2])
    # a previous call with the same start object failed half-way and was caught by the caller; the start is used again
    for alg, kw in fixed_algs:
        for fx, wk in (([], "positive"), ([0], "none"), ([1, 0], "mixed" if alg == "parafac" else "positive")):
            add(alg, **dict(kw, shape=shape, rank=2, init_weights=wk, fixed=fx, prior_failed=True, caps=[0, 1, 2]))
    # ranks at and above a mode size (a factor wider than it is tall), and rank 1
    for alg, kw in fixed_algs:
        for rk in (1, 3, 5):
            add(alg, **dict(kw, shape=shape, rank=rk, init_weights="positive", fixed=[[], [0], [1]][rk % 3], caps=[0, 1, 2]))
    # a symmetric start: equal-sized modes hold the SAME array object, one of them fixed (an in-place update of the free one
    # would write through into the fixed one)
    for fx in ([0], [1], [2], [0, 2], []):
        add("nn_tucker_hals", shape=[4, 4, 3], rank=[2, 2, 2], data="nonneg", tol="zero", algorithm=["fista", "active_set"][len(fx) % 2], fixed=fx,
            init_shared=True, caps=[0, 1, 2, 3])
        if fx:
            add("tucker", shape=[4, 4, 3], rank=[2, 2, 2], data="generic", tol="zero", fixed=fx, init_shared=True, caps=[0, 1, 2])
        for alg, kw in fixed_algs:
            add(alg, **dict(kw, shape=[4, 4, 4], rank=2, init_weights="none", fixed=fx, init_shared=True, caps=[0, 1, 2]))
    add("nn_tucker", shape=[4, 4, 3], rank=[2, 2, 2], data="nonneg", tol="zero", init_shared=True, caps=[0, 1, 2])
    # the CLASS interface (CP, CP_NN, CP_NN_HALS, ConstrainedCP, Tucker, Tucker_NN, Tucker_NN_HALS, Parafac2) with the same budgets,
    # zero included: an estimator built with n_iter_max=0 evaluates the warm start and does not iterate
    for alg, kw in fixed_algs:
        for fx, wk in (([], "positive"), ([0], "none"), ([0, 1, 2], "none")):
            add(alg, **dict(kw, shape=shape, rank=2, init_weights=wk, fixed=fx, wrapper=True, caps=[0, 1, 2]))
    for fx in ([], [0], [1, 2]):
        add("tucker", shape=shape, rank=[2, 3, 2], data="generic", tol="zero", fixed=fx, wrapper=True, caps=[0, 1, 2])
        add("nn_tucker_hals", shape=shape, rank=[2, 2, 2], data="nonneg", tol="zero", algorithm="fista", fixed=fx, wrapper=True, caps=[0, 1, 2])
    add("nn_tucker", shape=shape, rank=[2, 2, 2], data="nonneg", tol="zero", wrapper=True, caps=[0, 1, 2])
    for wk in ("none", "positive"):
        add("parafac2", shape=[3, 0, 4], rows=[4, 5, 4], rank=2, data="generic", init_weights=wk, init_as="parafac2", tol="tiny", wrapper=True,
            caps=[0, 1, 2])
    # PARAFAC2 from a PARAFAC2 tensor and from a CP tensor
    for wk in ("none", "ones", "positive", "mixed"):
        for init_as in ("parafac2", "cp"):
            add("parafac2", shape=[3, 0, 4], rows=[5, 5, 5] if init_as == "cp" else [4, 5, 4], rank=2, data="generic", init_weights=wk,
                init_as=init_as, tol="tiny", twin=wk in ("positive", "mixed"))
    return cfgs


# ------------------------------------------------------------------------------------------------
# C07: objective sequences of the HALS NNLS solver and of the ridge regressors
# ------------------------------------------------------------------------------------------------
def objseq_cases(tier, seed):
    rng = _rng(seed + 505)
    n = 60 if tier == "thorough" else 14
    cases = []
    for k in range(n):
        cases.append({"id": "nnls-%03d" % k, "kind": "hals_nnls", "seed": int(rng.randint(0, 10**6)),
                      "r": int(rng.randint(1, 6)), "n": int(rng.randint(1, 5)), "m": int(rng.randint(5, 9)),
                      "sparsity": [None, 0.1, None, 0.5][k % 4], "ridge": [None, None, 0.2, 0.1][k % 4],
                      "start": ["none", "ones", "random"][k % 3], "signed": bool(k % 2)})
    for k in range(n // 2):
        cases.append({"id": "cpreg-%03d" % k, "kind": "cp_regressor", "seed": int(rng.randint(0, 10**6)),
                      "shape": [[4, 3], [3, 2, 3], [3, 4]][k % 3], "samples": int(rng.randint(8, 14)), "rank": int(rng.randint(1, 4)),
                      "reg": [0.1, 1.0, 10.0][k % 3]})
        cases.append({"id": "cpregm-%03d" % k, "kind": "cp_regressor", "seed": int(rng.randint(0, 10**6)),
                      "shape": [[4, 3], [3, 2, 3], [3]][k % 3], "samples": int(rng.randint(10, 40)), "rank": int(rng.randint(1, 4)),
                      "reg": [1.0, 50.0, 10.0][k % 3], "yshape": [[3, 2], [2], [2, 3]][k % 3]})
        cases.append({"id": "cpregh-%03d" % k, "kind": "cp_regressor", "seed": int(rng.randint(0, 10**6)),
                      "shape": [[3, 2], [4], [2, 2, 2]][k % 3], "samples": int(rng.randint(14, 40)), "rank": int(rng.randint(1, 4)),
                      "reg": [0.0, 1.0, 0.1][k % 3], "yshape": [[2, 3, 2], [3, 3, 3], [2, 2, 3, 2]][k % 3]})
        cases.append({"id": "tkreg-%03d" % k, "kind": "tucker_regressor", "seed": int(rng.randint(0, 10**6)),
                      "shape": [[4, 3], [3, 2, 3], [3, 4]][k % 3], "samples": int(rng.randint(8, 14)), "rank": int(rng.randint(1, 3)),
                      "reg": [0.1, 1.0, 10.0][k % 3]})
    # the ridge strength at its boundary: reg_W = 0 is plain least squares (the objective is then the residual alone);
    # well-posed problems (many more samples than unknowns), longer prefix runs
    for k in range(n if tier == "thorough" else 10):
        order = 2 + k % 2
        cases.append({"id": "tkreg0-%03d" % k, "kind": "tucker_regressor", "seed": int(rng.randint(0, 10**6)),
                      "shape": [int(v) for v in rng.randint(3, 6, size=order)], "samples": int(rng.randint(60, 120)), "rank": 2,
                      "reg": 0.0, "sweeps": 12, "noise": 0.1, "xscale": [1.0, 0.25, 0.0625][k % 3]})
        cases.append({"id": "cpreg0-%03d" % k, "kind": "cp_regressor", "seed": int(rng.randint(0, 10**6)),
                      "shape": [int(v) for v in rng.randint(3, 6, size=order)], "samples": int(rng.randint(60, 120)), "rank": 2,
                      "reg": 0.0, "sweeps": 12, "noise": 0.1, "xscale": [1.0, 0.25, 0.0625][k % 3]})
    return cases


def objseq_execute(c):
    import tensorly as tl
    rng = _rng(c["seed"])
    ev = {"id": c["id"], "tr": c["id"], "ev": "ObjSeq", "kind": c["kind"], "objs": [], "cond": 0}
    objs = []
    if c["kind"] == "hals_nnls":
        from tensorly.solvers.nnls import hals_nnls
        U = rng.random_sample((c["m"], c["r"])) + 0.1
        if c["signed"]:
            U = rng.standard_normal((c["m"], c["r"]))
        M = rng.standard_normal((c["m"], c["n"])) if c["signed"] else U @ (rng.random_sample((c["r"], c["n"]))) + 0.01 * rng.standard_normal((c["m"], c["n"]))
        G, B = U.T @ U, U.T @ M
        ls, lr = c["sparsity"], c["ridge"]

        def f(V):
            V = np.asarray(V)
            return 0.5 * np.sum(V * (G @ V)) - np.sum(B * V) + (ls or 0) * np.sum(V) + (lr or 0) * np.sum(V * V)
        V0 = {"none": None, "ones": np.ones((c["r"], c["n"])), "random": rng.random_sample((c["r"], c["n"]))}[c["start"]]
        its = []
        if V0 is not None:
            its.append(V0.copy())
        hals_nnls(B.copy(), G.copy(), None if V0 is None else V0.copy(), n_iter_max=30, tol=0, sparsity_coefficient=ls,
                  ridge_coefficient=lr, callback=lambda V, e: its.append(np.array(V)))
        objs = [f(V) for V in its]
        ev["cond"] = int(math.ceil(math.log10(max(1.0, np.linalg.cond(G)))))
    else:
        from tensorly.regression import CPRegressor, TuckerRegressor
        shape = tuple(c["shape"])
        X = rng.standard_normal((c["samples"],) + shape) * c.get("xscale", 1.0)     # (the units of the covariates: powers of two)
        Wtrue = rng.standard_normal(shape)
        yshape = tuple(c.get("yshape", []))
        if yshape:
            Wtrue = rng.standard_normal(shape + yshape)
            y = np.tensordot(X, Wtrue, axes=len(shape)) + 0.05 * rng.standard_normal((c["samples"],) + yshape)
        else:
            y = np.tensordot(X, Wtrue, axes=len(shape)) + c.get("noise", 0.05) * rng.standard_normal(c["samples"])
        for k in range(1, c.get("sweeps", 8) + 1):
            if c["kind"] == "cp_regressor":
                est = CPRegressor(weight_rank=c["rank"], tol=0, reg_W=c["reg"], n_iter_max=k, random_state=c["seed"], verbose=0)
                est.fit(X, y)
                w, fs = est.cp_weight_
                pen = sum(float(np.sum(np.asarray(f) ** 2)) for f in fs)
            else:
                ranks = [min(c["rank"], s) for s in shape]
                est = TuckerRegressor(weight_ranks=ranks, tol=0, reg_W=c["reg"], n_iter_max=k, random_state=c["seed"], verbose=0)
                est.fit(X, y)
                G_, fs = est.tucker_weight_
                pen = sum(float(np.sum(np.asarray(f) ** 2)) for f in fs) + float(np.sum(np.asarray(G_) ** 2))
            pred = np.tensordot(X, np.asarray(est.weight_tensor_), axes=len(shape))
            objs.append(float(np.sum((y - pred) ** 2)) + c["reg"] * pen)
    scale = max(1.0, abs(objs[0])) if objs else 1.0
    ev["objs"] = [qe(o / scale) for o in objs]
    return ev


def ext_configs(tier, seed):
    """X06: algorithms beyond the ones property C06 names (same error-ownership contract)."""
    rng = _rng(seed + 606)
    cfgs = []
    n = 12 if tier == "thorough" else 5
    for j in range(n):
        cfgs.append({"alg": "robust_pca", "seed": int(rng.randint(0, 10**6)), "id": "robust_pca-%03d" % j,
                     "shape": [[4, 5, 3], [5, 4], [3, 4, 2, 3]][j % 3], "rank": 1, "init": "svd",
                     "data": ["lowrank", "generic", "sparse", "integer"][j % 4], "tol": ["zero", "loose", "tiny"][j % 3],
                     "reg_E": [1.0, 0.3][j % 2], "reg_J": [1.0, 2.0][(j // 2) % 2], "mask": j % 4 == 3, "caps": [0, 1, 2, 3, 5, 8, 13, 21]})
    return cfgs
