"""Call environments shared by the C12 / C13 drivers: memory layouts of an input array and caller-side
floating-point-error / warning settings.  Pure input construction and measurement; nothing here judges a result."""
import contextlib
import warnings

import numpy as np

LAYOUTS = ("C", "F", "strided", "readonly")
ERRS = ("default", "ignore", "raise", "warnerr")


def lay(a, layout):
    """an array with the values (and dtype, shape) of `a` in the requested memory layout"""
    a = np.asarray(a)
    if layout == "C":
        return np.ascontiguousarray(a).copy()
    if layout == "F":
        return np.asfortranarray(a.copy())              # 1-D: unchanged; 2-D: column-major
    if layout == "strided":
        big = np.zeros(tuple(2 * d for d in a.shape), dtype=a.dtype)
        view = big[tuple(slice(None, None, 2) for _ in a.shape)]
        view[...] = a
        return view                                     # non-contiguous view of a larger buffer
    if layout == "readonly":
        b = np.ascontiguousarray(a).copy()
        b.flags.writeable = False
        return b
    raise ValueError(layout)


@contextlib.contextmanager
def callenv(err, which="all"):
    """caller-side settings: np.errstate(<which>=ignore|raise) or warnings turned into errors"""
    if err == "default":
        yield
    elif err in ("ignore", "raise"):
        kw = {"all": err} if which == "all" else {k: err for k in which}
        with np.errstate(**kw):
            yield
    elif err == "warnerr":
        with warnings.catch_warnings():
            warnings.simplefilter("error")
            yield
    else:
        raise ValueError(err)


def bits(a):
    """bytes of the values of an array (layout independent), to see whether a call modified its input"""
    a = np.asarray(a)
    return np.ascontiguousarray(a).tobytes() + str(a.dtype).encode() + str(a.shape).encode()
