"""Call environments shared by the C12 / C13 drivers: memory layouts of an input array and caller-side
floating-point-error / warning settings.  Pure input construction and measurement; nothing here judges a result."""
import contextlib
import warnings

import numpy as np

LAYOUTS = ("C", "F", "strided", "readonly")
ERRS = ("default", "ignore", "raise", "warnerr")


def lay(a, layout):
    """an array with the values (and dtype, shape) of `a` in the requested memory layout"""
    a = np.asarray(a)
    if layout == "C":
        return np.ascontiguousarray(a).copy()
    if layout == "F":
        return np.asfortranarray(a.copy())              # 1-D: unchanged; 2-D: column-major
    if layout == "strided":
        big = np.zeros(tuple(2 * d for d in a.shape), dtype=a.dtype)
        view = big[tuple(slice(None, None, 2) for _ in a.shape)]
        view[...] = a
        return view                                     # non-contiguous view of a larger buffer
    if layout == "readonly":
        b = np.ascontiguousarray(a).copy()
        b.flags.writeable = False
        return b
    raise ValueError(layout)


@contextlib.contextmanager
def callenv(err, which="all"):
    """caller-side settings: np.errstate(<which>=ignore|raise) or warnings turned into errors"""
    if err == "default":
        yield
    elif err in ("ignore", "raise"):
        kw = {"all": err} if which == "all" else {k: err for k in which}
        with np.errstate(**kw):
            yield
    elif err == "warnerr":
        with warnings.catch_warnings():
            warnings.simplefilter("error")
            yield
    else:
        raise ValueError(err)


def bits(a):
    """bytes of the values of an array (layout independent), to see whether a call modified its input"""
    a = np.asarray(a)
    return np.ascontiguousarray(a).tobytes() + str(a.dtype).encode() + str(a.shape).encode()


# ----------------------------------------------------------------------------- frozen signatures (call forms)
REQ = object()          # a required parameter
_PROX_KW = ["non_negative", "l1_reg", "l2_reg", "l2_square_reg", "unimodality", "normalize", "simplex", "normalized_sparsity",
            "soft_sparsity", "smoothness", "monotonicity", "hard_sparsity"]
# names, order and defaults of the public entry points as published in the pinned tree -- deliberately NOT read from the
# live signature: a parameter inserted in the middle, reordered or renamed must show up as a changed result / TypeError
SIG = {
    "soft_thresholding": [("tensor", REQ), ("threshold", REQ)],
    "l2_prox": [("tensor", REQ), ("regularizer", REQ)],
    "l2_square_prox": [("tensor", REQ), ("regularizer", REQ)],
    "smoothness_prox": [("tensor", REQ), ("regularizer", REQ)],
    "simplex_prox": [("tensor", REQ), ("parameter", REQ)],
    "soft_sparsity_prox": [("tensor", REQ), ("threshold", REQ)],
    "monotonicity_prox": [("tensor", REQ), ("decreasing", False)],
    "unimodality_prox": [("tensor", REQ)],
    "hard_thresholding": [("tensor", REQ), ("number_of_non_zero", REQ)],
    "normalized_sparsity_prox": [("tensor", REQ), ("threshold", REQ)],
    "svd_thresholding": [("matrix", REQ), ("threshold", REQ)],
    "procrustes": [("matrix", REQ)],
    "proximal_operator": [("tensor", REQ)] + [(k, None) for k in _PROX_KW] + [("n_const", 1), ("order", 0)],
    "hals_nnls": [("UtM", REQ), ("UtU", REQ), ("V", None), ("n_iter_max", 500), ("tol", 1e-8), ("sparsity_coefficient", None),
                  ("ridge_coefficient", None), ("nonzero_rows", False), ("exact", False), ("epsilon", 0.0), ("callback", None)],
    "fista": [("UtM", REQ), ("UtU", REQ), ("x", None), ("n_iter_max", 100), ("non_negative", True), ("sparsity_coef", 0),
              ("ridge_coef", 0), ("lr", None), ("tol", 1e-8), ("epsilon", 1e-8)],
    "active_set_nnls": [("Utm", REQ), ("UtU", REQ), ("x", None), ("n_iter_max", 100), ("tol", 10e-8)],
    "admm": [("UtM", REQ), ("UtU", REQ), ("x", REQ), ("dual_var", REQ), ("n_iter_max", 100), ("n_const", None), ("order", None)]
            + [(k, None) for k in _PROX_KW] + [("tol", 1e-4)],
}
FORMS = ("pos", "kw")


def invoke(func, name, values, form):
    """call `func` (published as `name`) with the given {parameter: value}: form "kw" = every argument by its published
    keyword, form "pos" = every argument positionally in the published order (skipped ones filled with their published
    defaults)."""
    sig = SIG[name]
    unknown = set(values) - {k for k, _ in sig}
    if unknown:
        raise KeyError("harness: %s has no published parameter %s" % (name, sorted(unknown)))
    if form == "kw":
        return func(**values)
    last = max(i for i, (k, _) in enumerate(sig) if k in values)
    args = []
    for k, d in sig[: last + 1]:
        if k in values:
            args.append(values[k])
        elif d is REQ:
            raise KeyError("harness: required parameter %s of %s missing" % (k, name))
        else:
            args.append(d)
    return func(*args)


def tweak_zeros(a, vals):
    """the same values with every zero entry written as -0.0 ("negzero") or as the subnormal +/-5e-324 ("subnormal")"""
    a = np.array(a, dtype=np.float64, copy=True)
    if vals == "plain":
        return a
    z = a == 0
    if vals == "negzero":
        a[z] = -0.0
    elif vals == "subnormal":
        flat = a.reshape(-1)
        idx = np.flatnonzero(z.reshape(-1))
        flat[idx] = np.where(idx % 2 == 0, 5e-324, -5e-324)
    else:
        raise ValueError(vals)
    return a
