"""Thin runner around TLC 1.8: starts the model checker, parses its output.

Nothing in here decides a property; it only reports what TLC said:
state counts, violated invariants / action properties, a false postcondition,
PrintT tuples (REJECT lines of the trace specifications), per-action coverage.
"""
import os
import re
import shutil
import subprocess
import tempfile
import time
import uuid
from concurrent.futures import ThreadPoolExecutor

VERIF = os.path.dirname(os.path.dirname(os.path.abspath(__file__)))
SPEC_DIR = os.path.join(VERIF, "spec")
WORK = os.path.join(VERIF, ".work")
JAR = "/opt/veriftools/tla/tla2tools.jar:/opt/veriftools/tla/CommunityModules-deps.jar"


class TLCError(RuntimeError):
    """Machinery failure (TLC crashed, parse error in a spec, ...)."""


class TLCResult:
    def __init__(self):
        self.rc = None
        self.out = ""
        self.generated = 0
        self.distinct = 0
        self.depth = 0
        self.violated = []          # names of violated invariants / properties
        self.postcondition_false = False
        self.deadlock = False
        self.printed = []           # parsed PrintT tuples (lists of str/int/bool)
        self.coverage = {}          # action name -> (distinct, total)
        self.wall = 0.0
        self.errors = []

    @property
    def ok(self):
        return self.rc == 0 and not self.violated and not self.postcondition_false

    def summary(self):
        return dict(rc=self.rc, generated=self.generated, distinct=self.distinct,
                    depth=self.depth, violated=self.violated,
                    postcondition_false=self.postcondition_false, wall=round(self.wall, 2))


_tok = re.compile(r'\s*(<<|>>|,|"(?:[^"\\]|\\.)*"|-?\d+|TRUE|FALSE|[A-Za-z_][A-Za-z0-9_]*)')


def parse_tla_value(s):
    """Parse a TLA+ tuple of strings / ints / booleans / nested tuples (what our PrintT emit)."""
    pos = 0

    def nxt():
        nonlocal pos
        m = _tok.match(s, pos)
        if not m:
            raise ValueError("cannot parse %r at %d" % (s, pos))
        pos = m.end()
        return m.group(1)

    def val(tok):
        if tok == "<<":
            items = []
            while True:
                t = nxt()
                if t == ">>":
                    return items
                if t == ",":
                    continue
                items.append(val(t))
        if tok.startswith('"'):
            return tok[1:-1].replace('\\"', '"').replace("\\\\", "\\")
        if tok == "TRUE":
            return True
        if tok == "FALSE":
            return False
        if re.fullmatch(r"-?\d+", tok):
            return int(tok)
        return tok

    return val(nxt())


def _parse(res):
    out = res.out
    m = None
    for m in re.finditer(r"(\d+) states generated, (\d+) distinct states found", out):
        pass
    if m:
        res.generated, res.distinct = int(m.group(1)), int(m.group(2))
    m = re.search(r"The depth of the complete state graph search is (\d+)", out)
    if m:
        res.depth = int(m.group(1))
    for m in re.finditer(r"Invariant (\S+) is violated", out):
        res.violated.append(m.group(1))
    for m in re.finditer(r"Action property (\S+) is violated", out):
        res.violated.append(m.group(1))
    if re.search(r"Temporal properties were violated", out):
        res.violated.append("<temporal>")
    if "Deadlock reached" in out:
        res.deadlock = True
    if re.search(r"Postcondition .* is false|The postcondition .* is violated|post condition.*false", out, re.I):
        res.postcondition_false = True
    # PrintT tuples: TLC pretty-prints long tuples over several lines (`<< "REJECT",\n   "id", ... >>`), so
    # find every `<<` that is followed (after optional whitespace) by a string and match brackets from there.
    for m in re.finditer(r'<<\s*"', out):
        j = m.start()
        if j > 0 and out[j - 1] == "<":      # inner part of a longer run of '<'
            continue
        depth, k = 0, j
        while k < len(out):
            if out.startswith("<<", k):
                depth += 1
                k += 2
                continue
            if out.startswith(">>", k):
                depth -= 1
                k += 2
                if depth == 0:
                    break
                continue
            if out[k] == '"':
                k += 1
                while k < len(out) and out[k] != '"':
                    k += 2 if out[k] == "\\" else 1
            k += 1
        chunk = out[j:k]
        try:
            v = parse_tla_value(chunk)
        except ValueError:
            continue
        if isinstance(v, list) and v and isinstance(v[0], str):
            res.printed.append(v)
    # coverage: lines like "<Sweep line 10, col 1 to line 12, col 20 of module Driver>: 12:40"
    for m in re.finditer(r"^<(\w+) line \d+, col \d+ to line \d+, col \d+ of module (\w+)(?: \([\d ]+\))?>: (\d+):(\d+)", out, re.M):
        name = m.group(1)
        d, t = int(m.group(3)), int(m.group(4))
        od, ot = res.coverage.get(name, (0, 0))
        res.coverage[name] = (od + d, ot + t)
    for m in re.finditer(r"^Error: (.*)$", out, re.M):
        res.errors.append(m.group(1))


def run(module, cfg=None, env=None, workers=1, timeout=3600, coverage=False, simulate=None,
        depth=None, dump=None, deadlock=False, extra=(), spec_dir=SPEC_DIR, seed=None,
        java_opts=("-Xmx4g",), keep=False, dfid=None):
    """Run TLC on spec_dir/<module>.tla with config <cfg> (default <module>.cfg)."""
    os.makedirs(WORK, exist_ok=True)
    meta = os.path.join(WORK, "meta-" + uuid.uuid4().hex[:10])
    cmd = ["java", "-XX:+UseParallelGC"] + list(java_opts) + ["-cp", JAR, "tlc2.TLC",
           "-workers", str(workers), "-metadir", meta, "-noGenerateSpecTE"]
    if cfg:
        cmd += ["-config", cfg]
    if not deadlock:
        cmd += ["-deadlock"]        # -deadlock switches deadlock checking OFF
    if coverage:
        cmd += ["-coverage", "1"]
    if simulate:
        cmd += ["-simulate", simulate]
    if depth is not None:
        cmd += ["-depth", str(depth)]
    if seed is not None:
        cmd += ["-seed", str(seed)]
    if dump:
        cmd += ["-dump", "dot,actionlabels", dump]
    cmd += list(extra)
    cmd += [module]
    e = dict(os.environ)
    e.pop("JAVA_TOOL_OPTIONS", None)
    if env:
        e.update({k: str(v) for k, v in env.items()})
    res = TLCResult()
    t0 = time.time()
    try:
        p = subprocess.run(cmd, cwd=spec_dir, env=e, stdout=subprocess.PIPE, stderr=subprocess.STDOUT,
                           timeout=timeout, text=True, errors="replace")
        res.rc = p.returncode
        res.out = p.stdout
    except subprocess.TimeoutExpired as ex:
        res.rc = -9
        res.out = (ex.stdout or b"").decode("utf8", "replace") if isinstance(ex.stdout, bytes) else (ex.stdout or "")
        res.errors.append("timeout")
    finally:
        if not keep:
            shutil.rmtree(meta, ignore_errors=True)
    res.wall = time.time() - t0
    _parse(res)
    # rc: 0 ok, 10 assumption/postcondition, 11 deadlock, 12 safety, 13 liveness; >= 150 or 1 = error
    if res.rc not in (0, 10, 11, 12, 13):
        raise TLCError("TLC failed on %s (rc=%s):\n%s" % (module, res.rc, res.out[-4000:]))
    if res.rc == 10 and not res.postcondition_false:
        # an ASSUME that is false is a spec-level failure (theorem about the specification)
        res.violated.append("<assumption>")
    return res


def run_many(jobs, parallel=16):
    """jobs: list of dicts of kwargs for run(); returns the list of results in order."""
    with ThreadPoolExecutor(max_workers=parallel) as ex:
        futs = [ex.submit(run, **j) for j in jobs]
        return [f.result() for f in futs]


def run_many_safe(jobs, parallel=16):
    """Like run_many, but a job that makes TLC fail yields the TLCError instead of raising."""
    def one(j):
        try:
            return run(**j)
        except TLCError as ex:
            return ex
    with ThreadPoolExecutor(max_workers=parallel) as ex:
        return list(ex.map(one, jobs))
