"""./check CLI: runs one property's driver, prints verdict lines, writes evidence."""
import argparse
import importlib
import json
import os
import sys
import traceback


def main():
    ap = argparse.ArgumentParser()
    ap.add_argument("pid")
    ap.add_argument("--tier", default=os.environ.get("VERIF_TIER", "quick"), choices=["quick", "thorough"])
    ap.add_argument("--seed", type=int, default=int(os.environ.get("VERIF_SEED", "0") or 0))
    ap.add_argument("--repo", default="/repo")
    ap.add_argument("--replay", default=None)
    ap.add_argument("--opt", action="append", default=[], help="driver specific key=value")
    a = ap.parse_args()
    repo = os.path.abspath(a.repo)
    sys.path.insert(0, repo)
    from .common import Check
    pid = a.pid.upper()
    try:
        drv = importlib.import_module("harness.drivers." + pid.lower())
    except ImportError:
        traceback.print_exc()
        print("no driver for", pid)
        sys.exit(2)
    chk = Check(pid, a.tier, a.seed, repo)
    opts = dict(o.split("=", 1) for o in a.opt)
    try:
        if a.replay:
            with open(a.replay) as fh:
                rec = json.load(fh)
            drv.replay(chk, rec, opts)
        else:
            drv.run(chk, opts)
    except Exception:
        chk.machinery.append("driver crashed:\n" + traceback.format_exc()[-3000:])
    sys.exit(chk.finish())


if __name__ == "__main__":
    main()
