"""Shared by the C03 / C04 drivers: building integer factorised tensors for a spec-exported
configuration, calling the tensorly views, and projecting results to JSON (integers only).

Nothing in here decides a property.  `ref_dense` is a definitional numpy reconstruction used only
to *measure* floating-point outputs of C04 transforms (the expected value always comes from TLC)."""
import numpy as np

from .common import ints, q

BACKENDS = ("core", "einsum")


# ----------------------------------------------------------------------------- projection helpers
def jt(a):
    """integer tensor -> {"shape", "data"} (data rounded; exactness reported separately)"""
    a = np.asarray(a)
    d, _ = ints(a)
    return {"shape": [int(x) for x in a.shape], "data": d}


def jt_exact(a):
    a = np.asarray(a)
    d, ex = ints(a)
    return {"shape": [int(x) for x in a.shape], "data": d}, ex


def qi(x, scale):
    """(rint(x*scale), True) or (0, False) when x is not finite / does not fit 31 bits.
    TLC cannot test `"nan" \\in Int` (it raises), so quantised values are always integers plus a flag."""
    v = q(x, scale)
    return (v, True) if isinstance(v, int) else (0, False)


def jq(a, scale):
    """float tensor -> {"shape", "q", "fin"} with q = rint(x*scale) and fin = every entry finite and in range"""
    a = np.asarray(a, dtype=float)
    vals = [qi(v, scale) for v in a.ravel().tolist()]
    return {"shape": [int(x) for x in a.shape], "q": [v for v, _ in vals], "fin": all(ok for _, ok in vals)}


EMPTY_T = {"shape": [0], "data": []}


def as_float(a):
    return np.array(a, dtype=np.float64)


# ----------------------------------------------------------------------------- inputs for a C03 configuration
def selection(rng, J, R):
    """J x R column-selection matrix with random signs (integer entries, orthonormal columns iff J >= R)"""
    P = np.zeros((J, R))
    rows = rng.permutation(J)[:R] if J >= R else rng.integers(0, J, R)
    for s, j in enumerate(rows):
        P[j, s] = rng.choice([-1.0, 1.0])
    return P


def draw_inputs(c, rng, lo=-2, hi=2):
    """Arrays (float64 holding integers in lo..hi) of exactly the shapes the exported configuration lists."""
    def arr(shape, den=1):
        return rng.integers(lo * den, hi * den + 1, size=tuple(shape)).astype(np.float64)
    mixed = c.get("mix", "none") != "none"
    dens = c["dens"] if mixed else [1] * len(c["fshapes"])
    # integer numerators; the arrays handed to tensorly are numerator / den in the listed storage type (see fresh)
    inp = {"fs": [arr(s, d) for s, d in zip(c["fshapes"], dens)]}
    op = c["op"]
    if mixed:
        inp.update(dens=list(dens), dtypes=list(c["dtypes"]), cden=int(c["cden"]), imk=int(c["imk"]))
        if c["imk"] > 0:
            inp["im"] = arr(c["fshapes"][c["imk"] - 1], dens[c["imk"] - 1])
    if op in ("cp", "p2"):
        inp["hasw"] = bool(c["hasw"])
        # one weight per component, shape (R,) -- or the (wrong) shape the configuration asks for: (R,1), (R,R), 0-d ...
        wsh = tuple(c.get("wshape", [c["wlen"]])) if c["hasw"] else (0,)
        inp["w"] = np.asarray(arr(wsh), dtype=np.float64).reshape(wsh)
    if op == "cp":
        # masks are applied ENTRYWISE (multiplication), whatever their values: weights 1/2, counts 2, signs -1, booleans
        kind = int(rng.integers(0, 4))
        msh = tuple(f[0] for f in c["fshapes"])
        if kind == 3:
            inp["mask"] = rng.integers(0, 2, size=msh).astype(np.float64)
            inp["maskbool"] = True
        else:
            inp["mask"] = rng.integers(-1, 3, size=msh).astype(np.float64)     # numerators
            inp["mden"] = 2 if kind == 2 else 1
    if op == "tucker":
        inp["core"] = arr(c["coreshape"], int(c["cden"]) if mixed else 1)
    if op == "p2":
        ps = []
        nfull = len(c["lens"])
        first = nfull - len(c["pshapes"])        # "nproj": the first projection is dropped
        for k, (J, R) in enumerate(c["pshapes"]):
            i = k + 1 + first                     # 1-based slice number
            P = selection(rng, J, R)
            if c["at"] == i and R >= 1:
                bad = c["bad"]
                if bad == "nonorth_double" and R >= 2:        # Gram off-diagonal +1
                    P[:, 1] = P[:, 0]
                elif bad == "nonorth_scaled":                 # Gram diagonal 4
                    P[:, 0] *= 2
                elif bad == "nonorth_skew" and R >= 2:        # Gram diagonal 2, off-diagonal +-1
                    P[:, 1] = P[:, 1] + P[:, 0]
                elif bad == "nonorth_zero":                   # Gram diagonal 0 (deviation -1)
                    P[:, rng.integers(R)] = 0.0
                elif bad == "nonorth_allzero":                # Gram = 0
                    P[:] = 0.0
                elif bad == "nonorth_negdup" and R >= 2:      # Gram off-diagonal -1, unit diagonal
                    P[:, 1] = -P[:, 0]
                # "nonorth_half": the numerators stay a selection matrix, the denominator is 2 (Gram = I/4)
            ps.append(P)
        inp["ps"] = ps                                        # integer numerators ...
        inp["pden"] = int(c.get("pden", 1))                   # ... over this common denominator
    if c.get("zero", "none") != "none":
        # an exactly-zero tensor: one whole part (a factor, the core, or the weights) is zero
        parts = ["f%d" % k for k in range(len(inp["fs"]))] + (["core"] if op == "tucker" else []) + (["w"] if inp.get("hasw") else [])
        which = parts[int(rng.integers(len(parts)))]
        if which == "core":
            inp["core"][...] = 0.0
        elif which == "w":
            inp["w"][...] = 0.0
        else:
            inp["fs"][int(which[1:])][...] = 0.0
    if c.get("tmag", 0):
        # TOTAL magnitude: one whole part times 2^tmag, nothing compensates: tensor, views and norm scale by exactly 2^tmag
        parts = ["f%d" % k for k in range(len(inp["fs"]))] + (["core"] if op == "tucker" else []) + (["w"] if inp.get("hasw") else [])
        inp["tmag"] = {"e": int(c["tmag"]), "part": parts[int(rng.integers(len(parts)))]}
    if c.get("alldtype", "float64") != "float64":
        inp["alldtype"] = c["alldtype"]
        inp.setdefault("dens", list(c["dens"])); inp.setdefault("dtypes", list(c["dtypes"])); inp.setdefault("cden", 1); inp.setdefault("imk", 0)
    if c.get("mag", 0):
        inp["mag"] = draw_mag(op, inp, int(c["mag"]), rng)
    if c.get("pnear", 0):
        inp["pnear"] = int(c["pnear"])
    inp["aliased"] = []
    if c.get("alias"):
        # ALIASING: two factor arguments that are the very same array object (where two factors have the same shape)
        shp = [f.shape for f in inp["fs"]]
        pairs = [(i, j) for i in range(len(shp)) for j in range(i + 1, len(shp)) if shp[i] == shp[j]]
        if pairs:
            i, j = pairs[int(rng.integers(len(pairs)))]
            inp["fs"][j] = inp["fs"][i].copy()
            inp["aliased"] = [i, j]
    if c.get("vals", "plain") != "plain":
        # VALUES: the zeros of one factor column are negative zeros (-0.0) or subnormal (5e-324); at least one is forced
        k = int(rng.integers(len(inp["fs"])))
        if inp["fs"][k].ndim == 2 and inp["fs"][k].size:
            rr = int(rng.integers(inp["fs"][k].shape[1]))
            inp["fs"][k][int(rng.integers(inp["fs"][k].shape[0])), rr] = 0.0
            if inp["aliased"] and k in inp["aliased"]:
                a, b = inp["aliased"]
                inp["fs"][b] = inp["fs"][a].copy() if k == a else inp["fs"][b]
                inp["fs"][a] = inp["fs"][b].copy() if k == b else inp["fs"][a]
            inp["zsub"] = {"k": k, "r": rr, "sub": c["vals"] == "subnormal"}
    if c.get("late"):
        # the valid configuration the wrapper object is built from before its parts are replaced
        b = {"op": op, "fshapes": c["bfshapes"], "hasw": c["hasw"], "wlen": c["bwlen"], "coreshape": c["bcoreshape"],
             "pshapes": c["bpshapes"], "lens": [p[0] for p in c["bpshapes"]], "bad": "none", "at": 0}
        inp["base"] = draw_inputs(b, rng, lo, hi)
        inp["late_style"] = int(rng.integers(0, 2))
    return inp


def draw_mag(op, inp, e, rng):
    """Which part is scaled by 2^e and which part carries the compensating 2^-e (all integers, for the log).
    ck: 0 = weight r, 1 = column r of factor k2, 2 = core slice (mode k, index r), 3 = whole core k2 (chain formats)."""
    n = len(inp["fs"])
    k = int(rng.integers(n))
    if op in ("cp", "p2"):
        r = int(rng.integers(inp["fs"][k].shape[1]))
        others = [j for j in range(n) if j != k]
        if inp.get("hasw") and rng.integers(2) == 0:
            return {"e": e, "k": k, "r": r, "ck": 0, "k2": 0}
        return {"e": e, "k": k, "r": r, "ck": 1, "k2": int(others[rng.integers(len(others))])}
    if op == "tucker":
        return {"e": e, "k": k, "r": int(rng.integers(inp["fs"][k].shape[1])), "ck": 2, "k2": 0}
    if n == 1:
        return {"e": 0, "k": 0, "r": 0, "ck": 3, "k2": 0}      # a single core has nothing to compensate with
    others = [j for j in range(n) if j != k]
    return {"e": e, "k": k, "r": 0, "ck": 3, "k2": int(others[rng.integers(len(others))])}


def apply_mag(op, m, fs, w, core):
    """Scale the parts in place by exact powers of two (value-preserving for the represented tensor)."""
    e, k, r = m["e"], m["k"], m["r"]
    if e == 0:
        return w, core
    up, down = np.ldexp(1.0, e), np.ldexp(1.0, -e)
    if m["ck"] == 3:
        fs[k] = fs[k] * up
        fs[m["k2"]] = fs[m["k2"]] * down
        return w, core
    fs[k] = fs[k].copy()
    fs[k][:, r] *= up
    if m["ck"] == 0:
        w = w.copy()
        w[r] *= down
    elif m["ck"] == 1:
        fs[m["k2"]] = fs[m["k2"]].copy()
        fs[m["k2"]][:, r] *= down
    elif m["ck"] == 2:
        core = core.copy()
        idx = [slice(None)] * core.ndim
        idx[k] = r
        core[tuple(idx)] *= down
    return w, core


def unscale(a, e):
    """Measurement normalisation for outputs that are exact copies of scaled integer parts: undo the known power of two."""
    a = np.asarray(a, dtype=float)
    if e == 0 or a.size == 0:
        return a
    def small_int(x):
        return bool(np.all(np.isfinite(x)) and np.all(x == np.rint(x)) and np.all(np.abs(x) < 2**20))
    if small_int(a):
        return a
    for f in (np.ldexp(1.0, -e), np.ldexp(1.0, e)):
        if small_int(a * f):
            return a * f
    return a


def inputs_json(c, inp):
    out = {"fs": [jt(f) for f in inp["fs"]]}
    if "im" in inp:
        out["im"] = jt(inp["im"])
    if "hasw" in inp:
        out["hasw"] = inp["hasw"]
        out["w"] = [int(x) for x in np.asarray(inp["w"]).ravel()]
        out["wshape"] = [int(x) for x in np.shape(inp["w"])] if inp["hasw"] else []
    if "mask" in inp:
        out["mask"] = jt(inp["mask"])
        out["mden"] = int(inp.get("mden", 1))
        out["maskbool"] = bool(inp.get("maskbool", False))
    if "core" in inp:
        out["core"] = jt(inp["core"])
    if "ps" in inp:
        out["ps"] = [jt(p) for p in inp["ps"]]
        out["pden"] = int(inp.get("pden", 1))
    if "tmag" in inp:
        out["tmag"] = {"e": int(inp["tmag"]["e"]), "part": inp["tmag"]["part"]}
    if "negzero" in inp:
        out["negzero"] = [int(x) for x in inp["negzero"]]
    if "aliased" in inp:
        out["aliased"] = [int(x) + 1 for x in inp["aliased"]]          # 1-based for the specification
    if "zsub" in inp:
        out["zsub"] = {"k": int(inp["zsub"]["k"]), "r": int(inp["zsub"]["r"]), "sub": bool(inp["zsub"]["sub"])}
    if "mag" in inp:
        out["mag"] = {k: int(v) for k, v in inp["mag"].items()}
    if "base" in inp:
        out["base"] = inputs_json(c, inp["base"])
        out["late_style"] = int(inp.get("late_style", 0))
    return out


def inputs_from_json(c, j):
    inp = {"fs": [as_float(f["data"]).reshape(f["shape"]) for f in j["fs"]]}
    if c.get("mix", "none") != "none":
        inp.update(dens=list(c["dens"]), dtypes=list(c["dtypes"]), cden=int(c["cden"]), imk=int(c["imk"]))
    if "im" in j:
        inp["im"] = as_float(j["im"]["data"]).reshape(j["im"]["shape"])
    if "hasw" in j:
        inp["hasw"] = j["hasw"]
        inp["w"] = as_float(j["w"]).reshape(tuple(j["wshape"])) if j["hasw"] and "wshape" in j else as_float(j["w"])
    if "mask" in j:
        inp["mask"] = as_float(j["mask"]["data"]).reshape(j["mask"]["shape"])
        inp["mden"] = int(j.get("mden", 1))
        inp["maskbool"] = bool(j.get("maskbool", False))
    if "core" in j:
        inp["core"] = as_float(j["core"]["data"]).reshape(j["core"]["shape"])
    if "ps" in j:
        inp["ps"] = [as_float(p["data"]).reshape(p["shape"]) for p in j["ps"]]
        inp["pden"] = int(j.get("pden", 1))
    if "tmag" in j:
        inp["tmag"] = dict(j["tmag"])
    if c.get("pnear", 0):
        inp["pnear"] = int(c["pnear"])
    if c.get("alldtype", "float64") != "float64":
        inp["alldtype"] = c["alldtype"]
    if "negzero" in j:
        inp["negzero"] = list(j["negzero"])
    if "aliased" in j:
        inp["aliased"] = [int(x) - 1 for x in j["aliased"]]
    if "zsub" in j:
        inp["zsub"] = dict(j["zsub"])
    if "mag" in j:
        inp["mag"] = dict(j["mag"])
    if "base" in j:
        inp["base"] = inputs_from_json({}, j["base"])
        inp["late_style"] = int(j.get("late_style", 0))
    return inp


def fresh(op, inp):
    """The (tuple-form) factorised tensor built from fresh copies of the arrays."""
    fs = [f.copy() for f in inp["fs"]]
    core = inp["core"].copy() if "core" in inp else None
    if "dens" in inp:                      # mixed storage types: value = numerator / den, stored in the listed dtype
        for k, (d, dt) in enumerate(zip(inp["dens"], inp["dtypes"])):
            v = fs[k] / d
            if inp.get("imk", 0) == k + 1:
                v = v + 1j * (inp["im"] / d)
            fs[k] = v.astype(dt)
        if core is not None:
            core = core / inp["cden"]
    w = inp["w"].copy() if inp.get("hasw") else None
    if "zsub" in inp:                      # the zeros of column r of factor k: -0.0, or the smallest subnormal
        k, r = inp["zsub"]["k"], inp["zsub"]["r"]
        col = fs[k][:, r]
        fs[k][:, r] = np.where(col == 0, 5e-324 if inp["zsub"]["sub"] else -0.0, col)
    if inp.get("aliased"):                 # the same array OBJECT in two positions
        a, b = inp["aliased"]
        fs[b] = fs[a]
    if "negzero" in inp:                   # the zeros of column r of factor k carry a sign bit (-0.0): still exactly zero
        k, r = inp["negzero"]
        col = fs[k][:, r]
        fs[k][:, r] = np.where(col == 0, -0.0, col)
    if "mag" in inp:
        w, core = apply_mag(op, inp["mag"], fs, w, core)
    if "tmag" in inp:
        f = np.ldexp(1.0, inp["tmag"]["e"])
        part = inp["tmag"]["part"]
        if part == "core":
            core = core * f
        elif part == "w":
            w = w * f
        else:
            fs[int(part[1:])] = fs[int(part[1:])] * f
    adt = inp.get("alldtype")
    if adt:
        w = None if w is None else w.astype(adt)
        core = None if core is None else core.astype(adt)
    if op == "cp":
        return (w, fs)
    if op == "tucker":
        return (core, fs)
    if op in ("tt", "tr", "ttm"):
        return fs
    if op == "p2":
        ps = [(p / float(inp.get("pden", 1))).astype(adt or "float64") for p in inp["ps"]]
        if inp.get("pnear", 0):
            ps = [p * (1.0 + inp["pnear"] * 2.0 ** -18) for p in ps]      # inside the validator's 1e-5 tolerance
        return (w, fs, ps)
    raise ValueError(op)


# ----------------------------------------------------------------------------- the views of one run
def _api(op):
    import tensorly as tl
    from tensorly import cp_tensor, tucker_tensor, tt_tensor, tr_tensor, tt_matrix, parafac2_tensor
    if op == "cp":
        return dict(validate=cp_tensor._validate_cp_tensor, cls=cp_tensor.CPTensor, to_tensor=tl.cp_to_tensor,
                    to_unfolded=tl.cp_to_unfolded, to_vec=tl.cp_to_vec, norm=cp_tensor.cp_norm)
    if op == "tucker":
        return dict(validate=tucker_tensor._validate_tucker_tensor, cls=tucker_tensor.TuckerTensor, to_tensor=tl.tucker_to_tensor,
                    to_unfolded=tl.tucker_to_unfolded, to_vec=tl.tucker_to_vec, norm=None)
    if op == "tt":
        return dict(validate=tt_tensor._validate_tt_tensor, cls=tt_tensor.TTTensor, to_tensor=tl.tt_to_tensor,
                    to_unfolded=tl.tt_to_unfolded, to_vec=tl.tt_to_vec, norm=None)
    if op == "tr":
        return dict(validate=tr_tensor._validate_tr_tensor, cls=tr_tensor.TRTensor, to_tensor=tl.tr_to_tensor,
                    to_unfolded=tl.tr_to_unfolded, to_vec=tl.tr_to_vec, norm=None)
    if op == "ttm":
        return dict(validate=tt_matrix._validate_tt_matrix, cls=tt_matrix.TTMatrix, to_tensor=tl.tt_matrix_to_tensor,
                    to_unfolded=tl.tt_matrix_to_unfolded, to_vec=tl.tt_matrix_to_vec, norm=None,
                    to_matrix=tl.tt_matrix_to_matrix)
    if op == "p2":
        return dict(validate=parafac2_tensor._validate_parafac2_tensor, cls=parafac2_tensor.Parafac2Tensor,
                    to_tensor=parafac2_tensor.parafac2_to_tensor, to_unfolded=parafac2_tensor.parafac2_to_unfolded,
                    to_vec=parafac2_tensor.parafac2_to_vec, norm=None, to_slices=parafac2_tensor.parafac2_to_slices,
                    to_slice=parafac2_tensor.parafac2_to_slice)
    raise ValueError(op)


def _shape_json(op, shape):
    if op == "p2":
        return [[int(x) for x in s] for s in shape]
    return [int(x) for x in shape]


def _rank_json(rank):
    if isinstance(rank, (int, np.integer)):
        return [int(rank)]
    return [int(x) for x in rank]


def _norm_json(v, unscale_by=1.0):
    """norm v (times the exact power of two that undoes a total-magnitude scaling): squared and quantised; iszero = exactly 0"""
    v = float(v)
    iszero = abs(v) < 1e-150
    v = v * unscale_by
    q3, ok3 = qi(v * v, 1000)
    q0, ok0 = qi(v * v, 1)
    q6, ok6 = qi(v * v, 10**6)
    return {"has": True, "fin0": ok0, "fin3": ok3, "fin6": ok6, "q3": q3, "q0": q0, "q6": q6, "iszero": bool(iszero)}


NO_NORM = {"has": False, "fin0": False, "fin3": False, "fin6": False, "q3": 0, "q0": 0, "q6": 0, "iszero": False}


def blank_run(op):
    r = {"rejected": False, "raised": False, "convert": False, "accepted": [], "exc": "", "exact": True, "dtype": "", "xnorms": [], "form": "list", "unfn": [], "dense2": EMPTY_T, "dense": EMPTY_T, "unf": [], "vec": EMPTY_T,
         "shape": [], "rank": [], "norm": NO_NORM}
    if op == "cp":
        r["masked"] = EMPTY_T
    if op == "ttm":
        r["matrix"] = EMPTY_T
    if op == "p2":
        r["slices"] = []
        r["slice1"] = []
        r["slices_nv"] = []
        r["slice1_nv"] = []
        r["slice1n"] = []
        r["projected"] = []
    return r


def run_tucker_options(inp, how, skip, tr, modes, callform="plain"):
    """Tucker view functions under their documented options (skip_factor, transpose_factors, modes), on the tuple
    or on a TuckerTensor passed to the same functions (the wrapper's own methods take no options)."""
    import tensorly as tl
    from tensorly import tucker_tensor as tk
    op = "tucker"
    r = blank_run(op)
    exact = [True]
    T = make_T(inp, exact, out_scale(inp, skip))

    def mk():
        return tk.TuckerTensor(fresh(op, inp)) if how == "object" else fresh(op, inp)
    sk = None if skip < 0 else int(skip)
    try:
        cf = callform
        if modes:
            dense = call(tl.tucker_to_tensor, "tucker_to_tensor", cf, mk(), skip_factor=sk, transpose_factors=tr, modes=[int(m) for m in modes])
            r["dense"] = T(dense)
        else:
            dense = call(tl.tucker_to_tensor, "tucker_to_tensor", cf, mk(), skip_factor=sk, transpose_factors=tr)
            r["dense"] = T(dense)
            nm = np.ndim(dense)
            r["unf"] = [T(call(tl.tucker_to_unfolded, "tucker_to_unfolded", cf, mk(), mode=idx(m, nm, False), skip_factor=sk, transpose_factors=tr)) for m in range(nm)]
            r["unfn"] = [T(call(tl.tucker_to_unfolded, "tucker_to_unfolded", cf, mk(), mode=idx(m, nm, True), skip_factor=sk, transpose_factors=tr)) for m in range(nm)]
            r["vec"] = T(call(tl.tucker_to_vec, "tucker_to_vec", cf, mk(), skip_factor=sk, transpose_factors=tr))
        r["dense2"] = r["dense"]
        r["dtype"] = str(np.asarray(dense).dtype)
        r["exact"] = exact[0]
    except Exception as ex:
        r2 = blank_run(op)
        r2["raised"] = True
        r2["exc"] = "%s: %s" % (type(ex).__name__, str(ex)[:120])
        return r2
    return r


def out_scale(inp, skip=-1):
    """What the results are multiplied by so that they are the integers the specification computes from the logged
    numerators: PROD of the denominators of the parts that enter the contraction, times 2^-tmag."""
    sc = 1.0
    for k, d in enumerate(inp.get("dens", [])):
        if k != skip:
            sc *= d
    sc *= inp.get("cden", 1)
    if "tmag" in inp:
        sc *= np.ldexp(1.0, -inp["tmag"]["e"])
    return sc


def make_T(inp, exact, scale):
    cplx = inp.get("imk", 0) > 0
    pdiv = 1.0 + inp.get("pnear", 0) * 2.0 ** -18

    def T(a):
        a = np.asarray(a)
        if a.dtype.kind in "fc":
            a = np.where(np.abs(a) < 1e-300, 0.0, a)       # what a subnormal input entry (5e-324) leaves behind is zero
        if cplx:
            j, ex = jt_exact(np.real(a) * scale)
            ji, exi = jt_exact(np.imag(a) * scale)
            j["im"] = ji["data"]
            ex = ex and exi
        else:
            if np.iscomplexobj(a):
                exact[0] = exact[0] and bool(np.all(np.imag(a) == 0))
                a = np.real(a)
            if pdiv != 1.0:
                a = a / pdiv          # (s * x) / s is exact for the small integers x and s = 1 +- 2^-18
            j, ex = jt_exact(a * scale if scale != 1 else a)
        exact[0] = exact[0] and ex
        return j
    return T


def late_object(op, inp):
    """A wrapper built from the valid base configuration whose parts are then ALL replaced, by item / attribute
    assignment, with the parts of `inp` (valid or not)."""
    api = _api(op)
    obj = api["cls"](fresh(op, inp["base"]))
    new = fresh(op, inp)
    style = inp.get("late_style", 0)
    if op in ("cp", "tucker"):
        a, fs = new
        if style == 0 or len(fs) != len(obj.factors):
            obj[0] = a
            obj[1] = fs
        else:
            if op == "cp":
                obj.weights = a
            else:
                obj.core = a
            for k, f in enumerate(fs):
                obj.factors[k] = f
    elif op in ("tt", "tr", "ttm"):
        if style == 0 and len(new) == len(obj.factors):
            for k, f in enumerate(new):
                obj[k] = f
        else:
            obj.factors = list(new)
    elif op == "p2":
        w, fs, ps = new
        obj.weights = w
        if style == 0:
            obj.factors = fs
            obj.projections = ps
        else:
            obj.factors = list(obj.factors)
            for k, f in enumerate(fs):
                obj.factors[k] = f
            obj.projections = list(ps)
    return obj


def run_late_invalid(op, inp):
    """Invalid parts assigned to a constructed wrapper: every conversion (method and function) must raise."""
    r = blank_run(op)
    accepted = []
    calls = [("obj.to_tensor", lambda o: o.to_tensor()), ("obj.to_vec", lambda o: o.to_vec()),
             ("obj.to_unfolded", lambda o: (o.to_unfolded if "to_unfolded" in type(o).__dict__ else o.to_unfolding)(0))]
    calls += [(n, f) for n, f in conversions(op)]
    for name, fn in calls:
        try:
            obj = late_object(op, inp)
        except Exception:
            continue                         # the assignment itself was refused
        try:
            fn(obj)
            accepted.append(name)
        except Exception:
            pass
    r["rejected"] = not accepted
    r["accepted"] = accepted
    return r


def run_tucker_options_invalid(inp, skip, tr, modes):
    """Invalid (core, factors) pair under view options: every conversion offered with these options, on the raw tuple."""
    import tensorly as tl
    r = blank_run("tucker")
    sk = None if skip < 0 else int(skip)
    calls = [("tucker_to_tensor", lambda t: tl.tucker_to_tensor(t, skip_factor=sk, transpose_factors=tr,
                                                                 modes=[int(m) for m in modes] if modes else None))]
    if not modes:
        calls += [("tucker_to_unfolded", lambda t: tl.tucker_to_unfolded(t, 0, skip_factor=sk, transpose_factors=tr)),
                  ("tucker_to_vec", lambda t: tl.tucker_to_vec(t, skip_factor=sk, transpose_factors=tr))]
    accepted = []
    for name, fn in calls:
        try:
            fn(fresh("tucker", inp))
            accepted.append(name)
        except Exception:
            pass
    r["convert"] = True
    r["rejected"] = not accepted
    r["accepted"] = accepted
    return r


# Published signatures of the pinned tree (names and order FROZEN here on purpose -- never read from the live functions:
# a parameter inserted in the middle of a signature, or renamed, must show up as a failing call).
# name -> [(parameter, default), ...]; a default of REQ marks a required parameter.
REQ = object()
SIG = {
    "cp_to_tensor": [("cp_tensor", REQ), ("mask", None)],
    "cp_to_unfolded": [("cp_tensor", REQ), ("mode", REQ)],
    "cp_to_vec": [("cp_tensor", REQ)],
    "cp_norm": [("cp_tensor", REQ)],
    "tucker_to_tensor": [("tucker_tensor", REQ), ("skip_factor", None), ("transpose_factors", False), ("modes", None)],
    "tucker_to_unfolded": [("tucker_tensor", REQ), ("mode", 0), ("skip_factor", None), ("transpose_factors", False)],
    "tucker_to_vec": [("tucker_tensor", REQ), ("skip_factor", None), ("transpose_factors", False)],
    "tt_to_tensor": [("factors", REQ)], "tt_to_unfolded": [("factors", REQ), ("mode", REQ)], "tt_to_vec": [("factors", REQ)],
    "tr_to_tensor": [("factors", REQ)], "tr_to_unfolded": [("factors", REQ), ("mode", REQ)], "tr_to_vec": [("factors", REQ)],
    "tt_matrix_to_tensor": [("tt_matrix", REQ)], "tt_matrix_to_matrix": [("tt_matrix", REQ)],
    "tt_matrix_to_unfolded": [("tt_matrix", REQ), ("mode", REQ)], "tt_matrix_to_vec": [("tt_matrix", REQ)],
    "parafac2_to_tensor": [("parafac2_tensor", REQ)],
    "parafac2_to_slices": [("parafac2_tensor", REQ), ("validate", True)],
    "parafac2_to_slice": [("parafac2_tensor", REQ), ("slice_idx", REQ), ("validate", True)],
    "parafac2_to_unfolded": [("parafac2_tensor", REQ), ("mode", REQ)],
    "parafac2_to_vec": [("parafac2_tensor", REQ)],
    "apply_parafac2_projections": [("parafac2_tensor", REQ)],
    # C04
    "cp_normalize": [("cp_tensor", REQ)], "tucker_normalize": [("tucker_tensor", REQ)], "parafac2_normalise": [("parafac2_tensor", REQ)],
    "cp_flip_sign": [("cp_tensor", REQ), ("mode", 0), ("func", None)],
    "cp_mode_dot": [("cp_tensor", REQ), ("matrix_or_vector", REQ), ("mode", REQ), ("keep_dim", False), ("copy", False)],
    "tucker_mode_dot": [("tucker_tensor", REQ), ("matrix_or_vector", REQ), ("mode", REQ), ("keep_dim", False), ("copy", False)],
    "CPTensor.mode_dot": [("matrix_or_vector", REQ), ("mode", REQ), ("keep_dim", False), ("copy", True)],
    "TuckerTensor.mode_dot": [("matrix_or_vector", REQ), ("mode", REQ), ("keep_dim", False), ("copy", False)],
    "cp_permute_factors": [("ref_cp_tensor", REQ), ("tensors_to_permute", REQ)],
    "pad_tt_rank": [("factor_list", REQ), ("n_padding", 1), ("pad_boundaries", False)],
    "svd_compress_tensor_slices": [("tensor_slices", REQ), ("compression_threshold", 0.0), ("max_rank", None), ("svd", "truncated_svd")],
    "svd_decompress_parafac2_tensor": [("parafac2_tensor", REQ), ("loading_matrices", REQ)],
    "from_CPTensor": [("cp_tensor", REQ), ("parafac2_tensor_ok", False)],
}
CALL_NAMES = {   # key of _api(op) -> published function name
    "cp": {"to_tensor": "cp_to_tensor", "to_unfolded": "cp_to_unfolded", "to_vec": "cp_to_vec", "norm": "cp_norm"},
    "tucker": {"to_tensor": "tucker_to_tensor", "to_unfolded": "tucker_to_unfolded", "to_vec": "tucker_to_vec"},
    "tt": {"to_tensor": "tt_to_tensor", "to_unfolded": "tt_to_unfolded", "to_vec": "tt_to_vec"},
    "tr": {"to_tensor": "tr_to_tensor", "to_unfolded": "tr_to_unfolded", "to_vec": "tr_to_vec"},
    "ttm": {"to_tensor": "tt_matrix_to_tensor", "to_unfolded": "tt_matrix_to_unfolded", "to_vec": "tt_matrix_to_vec", "to_matrix": "tt_matrix_to_matrix"},
    "p2": {"to_tensor": "parafac2_to_tensor", "to_unfolded": "parafac2_to_unfolded", "to_vec": "parafac2_to_vec", "to_slices": "parafac2_to_slices",
           "to_slice": "parafac2_to_slice"},
}


def spell(v, form):
    """Booleans spelled the way callers do: plain bool, NumPy bool (positional form), 0/1 (keyword form)."""
    if isinstance(v, (bool, np.bool_)):
        return bool(v) if form == "plain" else (np.bool_(v) if form == "pos" else int(v))
    return v


def call(fn, name, form, first, **kw):
    """Call the published function `name` with its first argument `first` and the given other arguments:
    form "plain": first positionally, the rest by keyword (the usual mixture);
    form "pos"  : EVERYTHING positionally in the published order (defaults from the frozen table fill the gaps);
    form "kw"   : EVERYTHING by its published keyword name."""
    params = SIG[name]
    kw = {k: spell(v, form) for k, v in kw.items()}
    unknown = [k for k in kw if k not in [p for p, _ in params[1:]]]
    if unknown:
        raise KeyError("harness: %s has no published parameter %s" % (name, unknown))
    if form == "kw":
        return fn(**{params[0][0]: first}, **kw)
    if form == "pos":
        last = max([i for i, (p, _) in enumerate(params) if p in kw] + [0])
        args = [first] + [kw[p] if p in kw else d for p, d in params[1:last + 1]]
        return fn(*args)
    return fn(first, **kw)


def reform(op, t, form):
    """The same parts in another container form: "tuple" = tuples all the way down, "list" = lists all the way down
    (fresh() gives the mixed form: an outer tuple holding lists)."""
    seq = tuple if form == "tuple" else list
    if form == "mixed":
        return t
    if op in ("cp", "tucker"):
        a, fs = t
        return seq([a, seq(fs)])
    if op == "p2":
        w, fs, ps = t
        return seq([w, seq(fs), seq(ps)])
    return seq(t)


def idx(i, n, negative):
    """An index spelled like callers do: Python int or NumPy integer (odd positions), counted from the back when `negative`."""
    v = i - n if negative else i
    return np.int64(v) if i % 2 == 1 else int(v)


def run_views(op, inp, how, shared=False, objfactory=None, form="mixed", callform="plain"):
    """how = "tuple": module-level functions on the tuple/list form; "object": the wrapper class and its methods.
    shared = every conversion is called, in sequence, on ONE tuple / ONE object (otherwise on a fresh copy each)."""
    api = _api(op)
    r = blank_run(op)
    exact = [True]
    scale = out_scale(inp)
    T = make_T(inp, exact, scale)
    nscale = np.ldexp(1.0, -inp["tmag"]["e"]) if "tmag" in inp else 1.0

    def F(key, first, **kw):           # a published conversion function, called in the configured call form
        return call(api[key], CALL_NAMES[op][key], callform, first, **kw)
    if inp.get("pnear", 0):
        nscale = 1.0 / (1.0 + inp["pnear"] * 2.0 ** -18)

    # 1. validation / construction
    try:
        r["form"] = form
        if objfactory is not None:
            ft = objfactory()
            shape, rank = ft.shape, ft.rank          # (stale: logged for information, not obliged)
        elif how == "tuple":
            ft = reform(op, fresh(op, inp), form)
            shape, rank = api["validate"](ft)
        else:
            ft = api["cls"](reform(op, fresh(op, inp), form))
            shape, rank = ft.shape, ft.rank
    except Exception as ex:
        r["rejected"] = True
        r["exc"] = type(ex).__name__
        return r
    # 2. views
    try:
        r["shape"] = _shape_json(op, shape)
        r["rank"] = _rank_json(rank)
        obj = how == "object"
        one = [None]

        def mk():
            if shared:
                if one[0] is None:
                    one[0] = objfactory() if objfactory else (api["cls"](reform(op, fresh(op, inp), form)) if obj else reform(op, fresh(op, inp), form))
                return one[0]
            if objfactory:
                return objfactory()
            return api["cls"](reform(op, fresh(op, inp), form)) if obj else reform(op, fresh(op, inp), form)
        if shared:
            # a PREVIOUS FAILED CALL on the very same tuple / object: the caller caught the exception and goes on
            try:
                (mk().to_unfolded if obj and "to_unfolded" in type(mk()).__dict__ else (mk().to_unfolding if obj else lambda m: F("to_unfolded", mk(), mode=m)))(97)
                r["exc"] = "prefail: mode 97 was accepted"
            except Exception:
                pass
        dense = mk().to_tensor() if obj else F("to_tensor", mk())
        r["dense"] = T(dense)
        r["dtype"] = str(np.asarray(dense).dtype)
        nmodes = np.ndim(dense)
        T2 = make_T(inp, [True], scale)        # for the views judged by their own clause: a wrong value there is not "inexact"

        def unfold_view(m, negative):
            # the mode as a Python int or a NumPy integer, from the front or (negative) from the back
            i = idx(m, nmodes, negative)
            TT = T2 if negative else T
            if obj:
                o = mk()
                # CP / Tucker / PARAFAC2 wrappers call the view to_unfolded, TT / TR / TT-matrix to_unfolding
                meth = o.to_unfolded if "to_unfolded" in type(o).__dict__ else o.to_unfolding
                return TT(meth(i))
            return TT(F("to_unfolded", mk(), mode=i))
        r["unf"] = [unfold_view(m, False) for m in range(nmodes)]
        try:
            r["unfn"] = [unfold_view(m, True) for m in range(nmodes)]
        except Exception as ex:                       # judged by its own clause (UnfoldedNeg)
            r["unfn"] = []
            r["exc"] = "unfn: %s: %s" % (type(ex).__name__, str(ex)[:80])
        r["vec"] = T(mk().to_vec() if obj else F("to_vec", mk()))
        if obj:
            r["norm"] = _norm_json(mk().norm(), nscale)
            # any other public, argument-free, norm-named method the wrapper exposes must agree with the dense norm, too
            for name in sorted(dir(mk())):
                if "norm" in name.lower() and not name.startswith("_") and name.lower() not in ("norm", "normalize", "normalise"):
                    meth = getattr(mk(), name)
                    if callable(meth):
                        try:
                            v = meth()
                            if np.ndim(v) == 0:
                                r["xnorms"].append(_norm_json(v, nscale))
                        except TypeError:
                            pass
        elif api["norm"] is not None:
            r["norm"] = _norm_json(F("norm", mk()), nscale)
        if op == "cp":
            mden = inp.get("mden", 1)
            mask = inp["mask"].astype(bool) if inp.get("maskbool") else inp["mask"] / mden
            try:
                r["masked"] = T(np.asarray(F("to_tensor", mk(), mask=mask)) * mden)
            except Exception as ex:                   # judged by its own clause (Masked)
                r["masked"] = EMPTY_T
                r["exc"] = "masked: %s: %s" % (type(ex).__name__, str(ex)[:80])
        if op == "ttm":
            r["matrix"] = T(mk().to_matrix() if obj else F("to_matrix", mk()))
        if op == "p2":
            r["slices"] = [T(s) for s in F("to_slices", mk())]
            from tensorly.parafac2_tensor import apply_parafac2_projections
            pw, (pA, pBs, pC) = call(apply_parafac2_projections, "apply_parafac2_projections", callform, mk())
            r["projected"] = [T2(b) for b in pBs]
            ns = len(inp["ps"])
            r["slice1"] = [T(F("to_slice", mk(), slice_idx=idx(i, ns, False))) for i in range(ns)]
            try:
                r["slice1n"] = [T2(F("to_slice", mk(), slice_idx=idx(i, ns, True))) for i in range(ns)]      # counted from the back
            except Exception as ex:                   # judged by its own clause (SliceNeg)
                r["slice1n"] = []
                r["exc"] = "slice1n: %s: %s" % (type(ex).__name__, str(ex)[:80])
            r["slices_nv"] = [T(s) for s in F("to_slices", mk(), validate=False)]
            r["slice1_nv"] = [T(F("to_slice", mk(), slice_idx=i, validate=False)) for i in range(len(inp["ps"]))]
        r["dense2"] = T(mk().to_tensor() if obj else F("to_tensor", mk()))
        r["exact"] = exact[0]
    except Exception as ex:
        r2 = blank_run(op)
        r2["raised"] = True
        r2["form"] = form
        r2["exc"] = "%s: %s" % (type(ex).__name__, str(ex)[:120])
        return r2
    return r


def conversions(op):
    """Every conversion function the property names, as (name, callable on the raw tuple/list form)."""
    import tensorly as tl
    from tensorly import cp_tensor, parafac2_tensor as p2
    if op == "cp":
        return [("cp_to_tensor", tl.cp_to_tensor), ("cp_to_unfolded", lambda t: tl.cp_to_unfolded(t, 0)),
                ("cp_to_vec", tl.cp_to_vec), ("cp_norm", cp_tensor.cp_norm)]
    if op == "tucker":
        return [("tucker_to_tensor", tl.tucker_to_tensor), ("tucker_to_unfolded", lambda t: tl.tucker_to_unfolded(t, 0)),
                ("tucker_to_vec", tl.tucker_to_vec)]
    if op == "tt":
        return [("tt_to_tensor", tl.tt_to_tensor), ("tt_to_unfolded", lambda t: tl.tt_to_unfolded(t, 0)), ("tt_to_vec", tl.tt_to_vec)]
    if op == "tr":
        return [("tr_to_tensor", tl.tr_to_tensor), ("tr_to_unfolded", lambda t: tl.tr_to_unfolded(t, 0)), ("tr_to_vec", tl.tr_to_vec)]
    if op == "ttm":
        return [("tt_matrix_to_tensor", tl.tt_matrix_to_tensor), ("tt_matrix_to_matrix", tl.tt_matrix_to_matrix),
                ("tt_matrix_to_unfolded", lambda t: tl.tt_matrix_to_unfolded(t, 0)), ("tt_matrix_to_vec", tl.tt_matrix_to_vec)]
    if op == "p2":
        return [("parafac2_to_tensor", p2.parafac2_to_tensor), ("parafac2_to_slices", p2.parafac2_to_slices),
                ("parafac2_to_slice", lambda t: p2.parafac2_to_slice(t, 0)),
                ("parafac2_to_unfolded", lambda t: p2.parafac2_to_unfolded(t, 0)), ("parafac2_to_vec", p2.parafac2_to_vec),
                ("apply_parafac2_projections", p2.apply_parafac2_projections)]
    raise ValueError(op)


def run_convert(op, inp):
    """Invalid family only: call every conversion function on the raw tuple; the run counts as `rejected`
    iff every one of them raised.  `accepted` lists those that returned a value (silent reconstruction)."""
    r = blank_run(op)
    accepted = []
    for name, fn in conversions(op):
        try:
            fn(fresh(op, inp))
            accepted.append(name)
        except Exception:
            pass
    r["convert"] = True
    r["rejected"] = not accepted
    r["accepted"] = accepted
    return r


def set_tenalg(name):
    import tensorly as tl
    tl.tenalg.set_backend(name)


# ----------------------------------------------------------------------------- definitional dense reconstructions (C04 measurements)
def _num(a):
    a = np.asarray(a)
    return a if np.iscomplexobj(a) else a.astype(float)


def ref_dense(op, ft):
    """numpy reconstruction of a (possibly floating point) factorised tensor; used to measure outputs."""
    L = "abcdefgh"
    if op == "cp":
        w, fs = ft
        fs = [_num(f) for f in fs]
        fs = [f.reshape(-1, 1) if f.ndim == 1 else f for f in fs]
        R = fs[0].shape[1]
        w = np.ones(R) if w is None else _num(w)
        eq = ",".join(L[k] + "z" for k in range(len(fs))) + ",z->" + L[:len(fs)]
        return np.einsum(eq, *fs, w)
    if op == "tucker":
        core, fs = ft
        core = _num(core)
        n = len(fs)
        U = "ijklmnop"
        eq = U[:core.ndim] + "," + ",".join(L[k] + U[k] for k in range(n)) + "->" + L[:n]
        return np.einsum(eq, core, *[_num(f) for f in fs])
    if op in ("tt", "tr"):
        fs = [_num(f) for f in ft]
        n = len(fs)
        U = "ijklmnop"
        eq = ",".join(U[k] + L[k] + U[(k + 1) % n if op == "tr" else k + 1] for k in range(n)) + "->" + L[:n]
        if op == "tt":
            return np.einsum(eq, *fs)
        return np.einsum(eq, *fs)
    if op == "p2":
        w, (A, B, C), ps = ft
        A, B, C = (_num(x) for x in (A, B, C))
        R = A.shape[1]
        w = np.ones(R) if w is None else _num(w)
        J = max(p.shape[0] for p in ps)
        out = np.zeros((A.shape[0], J, C.shape[0]))
        for i, P in enumerate(ps):
            Bi = _num(P) @ B
            out[i, :P.shape[0]] = (Bi * (w * A[i])) @ C.T
        return out
    raise ValueError(op)
