"""C04 helpers: integer inputs of the family a Transforms.tla configuration asks for, driving the real
transforms, and measuring what came back (definitional numpy measurements only; verdicts are TLC's)."""
import numpy as np

from .common import q
from . import lib_factorized as lf
from .lib_factorized import jt, jt_exact, jq, qi

DENSE_SCALE = 100000
NORM_SCALE = 10**8
SUMM_SCALE = 10**6

PYTH = {
    1: [(1,), (-1,), (2,), (-2,), (3,), (-4,)],
    2: [(3, 4), (4, 3), (-4, 3), (3, -4), (0, 1), (1, 0), (0, -2), (2, 0)],
    3: [(1, 2, 2), (2, -2, 1), (2, 1, -2), (-1, 2, -2), (0, 3, 4), (4, 0, -3), (0, 0, 1), (0, 2, 0), (-2, 0, 0)],
}
ZEROSUM = {2: [(1, -1), (-2, 2), (2, -2)], 3: [(1, -2, 1), (1, 0, -1), (2, -1, -1), (0, 2, -2), (-1, -1, 2)]}
ORTH = {1: [[(1,)], [(-2,)], [(3,)]],
        2: [[(3, 4), (-4, 3)], [(1, 0), (0, -2)], [(0, 1), (2, 0)], [(4, -3), (3, 4)]],
        3: [[(1, 2, 2), (2, -2, 1), (2, 1, -2)], [(0, 0, 1), (3, 4, 0), (-4, 3, 0)], [(2, 0, 0), (0, 0, -1), (0, 1, 0)]]}


def _ints(rng, shape, lo=-2, hi=2):
    return rng.integers(lo, hi + 1, size=tuple(shape)).astype(np.float64)


def _nonzero(rng, n):
    v = rng.integers(-2, 3, size=n).astype(np.float64)
    v[v == 0] = rng.choice([-2.0, -1.0, 1.0, 2.0], size=int((v == 0).sum()))
    return v


def _nonzero_col(rng, n):
    while True:
        v = rng.integers(-2, 3, size=n).astype(np.float64)
        if v.any():
            return v


def _pyth_matrix(rng, n, R):
    pool = PYTH[n]
    return np.array([pool[rng.integers(len(pool))] for _ in range(R)], dtype=np.float64).T.reshape(n, R)


def _parallel(a, b):
    return bool(np.all(np.outer(a, b) == np.outer(b, a)))


def draw(c, rng):
    """Integer input (dict of float64 arrays holding integers) for configuration c."""
    fam, kind, op = c["family"], c["kind"], c["op"]
    fsh = c["fshapes"]
    inp = {}
    if fam in ("pyth",) and kind in ("cp", "tucker"):
        fs = [_pyth_matrix(rng, s[0], s[1]) for s in fsh]
    else:
        fs = [_ints(rng, s) for s in fsh]
    R = c["rank"][0]
    if kind in ("cp", "p2"):
        inp["hasw"] = fam != "now"
        w = _nonzero(rng, R) if fam in ("pyth", "negw", "zeromean", "fullrank", "perm") else _ints(rng, [R])
        if fam == "negw":
            k = rng.integers(R)
            w[k] = -abs(w[k]) if w[k] != 0 else -1.0
        if fam == "zerow":
            w[rng.integers(R)] = 0.0
        inp["w"] = w if inp["hasw"] else np.zeros(0)
    if fam == "zerocol":
        k = rng.integers(len(fs))
        r0 = rng.integers(fs[k].shape[1])
        fs[k][:, r0] = 0.0
        if rng.integers(2) == 1:            # half of the zero columns are made of negative zeros
            inp["negzero"] = [int(k), int(r0)]
    if fam == "zeromean":
        ks = [k for k in range(len(fs)) if k != c["mode"] and fs[k].shape[0] >= 2]
        k = ks[rng.integers(len(ks))]
        r = rng.integers(fs[k].shape[1])
        pool = ZEROSUM[fs[k].shape[0]]
        fs[k][:, r] = pool[rng.integers(len(pool))]
        # make the component otherwise non-zero so that zeroing it is visible
        for kk in range(len(fs)):
            if kk != k and not fs[kk][:, r].any():
                fs[kk][:, r] = _nonzero(rng, fs[kk].shape[0])
    if fam == "orthb":
        J, Rr = fsh[1]
        basis = ORTH[J][rng.integers(len(ORTH[J]))]
        cols = [basis[i] for i in rng.permutation(J)[:Rr]]
        fs[1] = np.array(cols, dtype=np.float64).T.reshape(J, Rr)
    if kind == "tucker":
        inp["core"] = _ints(rng, c["coreshape"])
    if kind == "p2":
        inp["ps"] = [lf.selection(rng, J, Rr) for J, Rr in c["pshapes"]]
    if fam == "fullrank":
        # every slice has rank R: B invertible, C full column rank, w o A without zeros
        for _ in range(200):
            A = np.stack([_nonzero(rng, R) for _ in range(fsh[0][0])])
            B = _ints(rng, fsh[1])
            C = _ints(rng, fsh[2])
            if abs(np.linalg.det(B)) > 0.5 and np.linalg.matrix_rank(C) == R:
                break
        fs = [A, B, C]
    if fam == "perm":
        # reference with non-zero columns, no two components parallel in every mode; the tensor to permute has the same
        # components in another order, each column rescaled by a non-zero integer
        for _ in range(500):
            ref = [np.stack([_nonzero_col(rng, s[0]) for _ in range(R)], axis=1) for s in fsh]
            ok = all(any(not _parallel(f[:, a], f[:, b]) for f in ref) for a in range(R) for b in range(a + 1, R))
            if ok:
                break
        pi = rng.permutation(R)
        fs = []
        for f in ref:
            g = f[:, pi].copy()
            for r in range(R):
                sc = [1.0, -1.0, 2.0, -2.0][rng.integers(4)]
                if np.abs(g[:, r] * sc).max() <= 4:
                    g[:, r] *= sc
            fs.append(g)
        refw = rng.integers(0, 2) == 1
        inp["ref"] = {"hasw": bool(refw), "w": _nonzero(rng, R) if refw else np.zeros(0), "fs": ref}
        if c["listin"]:
            inp["other"] = [f[:, rng.permutation(R)].copy() for f in ref]
    inp["fs"] = fs
    inp["aliased"] = []
    if c.get("alias") and kind in ("cp", "tucker"):
        # ALIASING: two equal-shaped factors are the SAME array object (mode products / normalisations must not write through it)
        shp = [f.shape for f in fs]
        pairs = [(i, j) for i in range(len(shp)) for j in range(i + 1, len(shp)) if shp[i] == shp[j]]
        if pairs:
            i, j = pairs[int(rng.integers(len(pairs)))]
            fs[j] = fs[i].copy()
            inp["aliased"] = [i, j]
    if c.get("vals", "plain") != "plain" and kind in ("cp", "tucker") and not inp["aliased"]:
        k = int(rng.integers(len(fs)))
        rr = int(rng.integers(fs[k].shape[1]))
        fs[k][int(rng.integers(fs[k].shape[0])), rr] = 0.0
        inp["zsub"] = {"k": k, "r": rr, "sub": c["vals"] == "subnormal"}
    if c.get("mag", 0):
        inp["mag"] = lf.draw_mag(kind, inp, int(c["mag"]), rng)
    if kind == "slices":
        inp["rs"] = [_ints(rng, sh) for sh in c["rshapes"]]
        if fam == "tie":
            # signed, scaled permutation slices: singular values exactly 2^(rho-1), ..., 2, 1
            inp["fs"] = [lf.selection(rng, sh[0], sh[1]) for sh in c["fshapes"]]
            rs = []
            for rho, K in c["rshapes"]:
                Rm = np.zeros((rho, K))
                cols = rng.permutation(K)[:rho]
                for j in range(rho):
                    Rm[j, cols[j]] = rng.choice([-1.0, 1.0]) * 2.0 ** (rho - 1 - j)
                rs.append(Rm)
            inp["rs"] = rs
    if op in ("cp_mode_dot", "tucker_mode_dot"):
        I = c["shape"][c["mode"]]
        om = c.get("omix", "none")
        lo, hi = (-4, 4) if om in ("int_float", "f32_f64") else (-2, 2)      # numerators of half-integers
        if c["operand"] == "matrix":
            inp["m"] = _ints(rng, [c["odim"], I], lo, hi)
            if om == "real_cplx":
                inp["mim"] = _ints(rng, [c["odim"], I])
        else:
            inp["v"] = _ints(rng, [I], lo, hi)
            if om == "real_cplx":
                inp["vim"] = _ints(rng, [I])
    if op == "sequence":
        I = c["shape"][c["mode"]]
        rows = I if list(c["steps"]).count("M") > 1 else 2          # applied twice: the operand must fit its own output
        inp["m"] = _ints(rng, [rows, I])
    return inp


def to_json(c, inp):
    out = lf.inputs_json(c, inp)
    if "rs" in inp:
        out["rs"] = [jt(f) for f in inp["rs"]]
    for key in ("mim", "g"):
        if key in inp:
            out[key] = jt(inp[key])
    if "vim" in inp:
        out["vim"] = [int(x) for x in inp["vim"]]
    if "m" in inp:
        out["m"] = jt(inp["m"])
    if "v" in inp:
        out["v"] = [int(x) for x in inp["v"]]
    if "ref" in inp:
        out["ref"] = {"hasw": inp["ref"]["hasw"], "w": [int(x) for x in inp["ref"]["w"]], "fs": [jt(f) for f in inp["ref"]["fs"]]}
    if "other" in inp:
        out["other"] = [jt(f) for f in inp["other"]]
    return out


def from_json(c, j):
    inp = lf.inputs_from_json(c, j)
    arr = lambda t: lf.as_float(t["data"]).reshape(t["shape"])
    if "rs" in j:
        inp["rs"] = [arr(f) for f in j["rs"]]
    for key in ("mim", "g"):
        if key in j:
            inp[key] = arr(j[key])
    if "vim" in j:
        inp["vim"] = lf.as_float(j["vim"])
    if "m" in j:
        inp["m"] = arr(j["m"])
    if "v" in j:
        inp["v"] = lf.as_float(j["v"])
    if "ref" in j:
        inp["ref"] = {"hasw": j["ref"]["hasw"], "w": lf.as_float(j["ref"]["w"]), "fs": [arr(f) for f in j["ref"]["fs"]]}
    if "other" in j:
        inp["other"] = [arr(f) for f in j["other"]]
    return inp


def derived(c, inp):
    """Descriptive features of the input (used only to file known findings precisely)."""
    d = {}
    if c["op"] == "pad_tt_rank":
        d["ncores"] = len(c["fshapes"])
    if c["op"] == "cp_flip_sign":
        d["zero_summary"] = any(f[:, r].any() and f[:, r].sum() == 0
                                for k, f in enumerate(inp["fs"]) if k != c["mode"] for r in range(f.shape[1]))
    return d


# ----------------------------------------------------------------------------- measuring outputs
def blank_out():
    return {"raised": False, "exc": "", "malformed": False, "exact": True, "dense": {"shape": [0], "q": [], "fin": False},
            "cn": [], "cnfin": False, "wmin": 0, "summ": [], "sfin": False, "parts": {"hasw": False, "w": [], "fs": []},
            "perm": [], "orth": 0, "orthfin": False, "nproj": 0, "recon": [], "slices": [],
            "dense_im": {"shape": [0], "q": [], "fin": False}, "dtype": "", "steps": [], "recon_hi": [], "slices_lo": [], "pdtypes": [], "accepted": False, "nfac": 0, "objshape": []}


def _dense(out, kind, parts, mult=1.0):
    try:
        d = lf.ref_dense(kind, parts)
        if np.iscomplexobj(d):
            out["dense_im"] = jq(np.imag(d) * mult, DENSE_SCALE)
            d = np.real(d)
        else:
            out["dense_im"] = jq(np.zeros(np.shape(d)), DENSE_SCALE)
        out["dense"] = jq(d * mult, DENSE_SCALE)
    except Exception as ex:                    # the returned parts do not form a factorised tensor of that kind
        out["malformed"] = True
        out["exc"] = "measure: %s: %s" % (type(ex).__name__, str(ex)[:100])


def _colnorms(out, factors):
    cn, fin = [], True
    for f in factors:
        f = np.asarray(f, dtype=float)
        if f.ndim != 2:
            out["malformed"] = True
            return
        row = []
        for r in range(f.shape[1]):
            v, ok = qi(float(np.sum(f[:, r] ** 2)), NORM_SCALE)
            row.append(v)
            fin = fin and ok
        cn.append(row)
    out["cn"], out["cnfin"] = cn, fin


def _orth(out, projections):
    dev, fin = 0.0, True
    for P in projections:
        P = np.asarray(P, dtype=float)
        g = P.T @ P - np.eye(P.shape[1])
        dev = max(dev, float(np.max(np.abs(g)))) if g.size else dev
    out["orth"], out["orthfin"] = qi(dev, NORM_SCALE)
    out["nproj"] = len(projections)


def _cp_ok(w, fs):
    fs = list(fs)
    return (all(np.ndim(f) == 2 for f in fs) and len({np.shape(f)[1] for f in fs}) == 1
            and (w is None or np.shape(w) == (np.shape(fs[0])[1],)))


def execute(c, inp):
    import contextlib, io
    with contextlib.redirect_stdout(io.StringIO()):        # tucker_mode_dot prints "contracting mode"
        return _execute(c, inp)


def _execute(c, inp):
    import tensorly as tl
    # a negative spelling of the mode means the same mode
    tmode = c["mode"] - len(c["shape"]) if c.get("negmode") else c["mode"]
    cf = c.get("callform", "plain")

    def CALL(fn, name, first, **kw):          # a published transform, called in the configured call form (frozen signature table)
        return lf.call(fn, name, cf, first, **kw)
    from tensorly import cp_tensor, tucker_tensor, parafac2_tensor, tt_tensor, preprocessing
    op, kind, how = c["op"], c["kind"], c["how"]
    out = blank_out()
    try:
        if op == "normalize":
            ft = lf.fresh(kind, inp)
            if kind == "cp":
                if how == "method":
                    res = cp_tensor.CPTensor(ft)
                    res.normalize()
                else:
                    res = CALL(cp_tensor.cp_normalize, "cp_normalize", ft)
                w, fs = res
                _dense(out, "cp", (w, fs))
                _colnorms(out, fs)
            elif kind == "tucker":
                if how == "method":
                    res = tucker_tensor.TuckerTensor(ft)
                    res.normalize()
                else:
                    res = CALL(tucker_tensor.tucker_normalize, "tucker_normalize", ft)
                core, fs = res
                _dense(out, "tucker", (core, fs))
                _colnorms(out, fs)
            else:
                res = CALL(parafac2_tensor.parafac2_normalise, "parafac2_normalise", ft)
                w, fs, ps = res
                _dense(out, "p2", (w, fs, ps))
                _colnorms(out, fs)
        elif op == "cp_flip_sign":
            ft = lf.fresh("cp", inp)
            if how == "object":
                ft = cp_tensor.CPTensor(ft)
            w, fs = CALL(cp_tensor.cp_flip_sign, "cp_flip_sign", ft, mode=tmode)
            _dense(out, "cp", (w, fs))
            # signs only (sums of integers times one power of two are exact; a tiny negative value must not round to 0)
            wm, ok = qi(float(np.sign(np.min(w))), SUMM_SCALE)
            summ, fin = [], ok
            for f in fs:
                row = []
                for r in range(np.shape(f)[1]):
                    v, ok = qi(float(np.sign(np.mean(np.asarray(f)[:, r]))), SUMM_SCALE)
                    row.append(v)
                    fin = fin and ok
                summ.append(row)
            out["wmin"], out["summ"], out["sfin"] = wm, summ, fin
        elif op == "cp_permute_factors":
            ref = (inp["ref"]["w"].copy() if inp["ref"]["hasw"] else None, [f.copy() for f in inp["ref"]["fs"]])
            T = cp_tensor.CPTensor(lf.fresh("cp", inp))
            if c["listin"]:
                other = cp_tensor.CPTensor((np.ones(len(inp["w"])), [f.copy() for f in inp["other"]]))
                res, perms = CALL(cp_tensor.cp_permute_factors, "cp_permute_factors", ref, tensors_to_permute=[other, T])
                res, perm = res[1], perms[1]
            else:
                res, perms = CALL(cp_tensor.cp_permute_factors, "cp_permute_factors", cp_tensor.CPTensor(ref), tensors_to_permute=T)
                perm = perms[0]
            w, fs = res
            ex = True
            pj = []
            mg = inp.get("mag", {}).get("e", 0)
            for f in fs:
                j, e1 = jt_exact(np.stack([lf.unscale(np.asarray(f)[:, r], mg) for r in range(np.shape(f)[1])], axis=1) if mg else f)
                pj.append(j)
                ex = ex and e1
            wj, e2 = jt_exact(np.array([lf.unscale(np.asarray(x), mg) for x in np.asarray(w)]) if mg else w)
            out["parts"] = {"hasw": True, "w": wj["data"], "fs": pj}
            out["exact"] = bool(ex and e2)
            out["perm"] = [int(x) for x in np.asarray(perm).ravel()]
        elif op == "pad_tt_rank":
            cores = lf.fresh(kind, inp)
            if c.get("cmix", "none") != "none":          # cores of different storage types (a complex core gets an imaginary part)
                cores = [(g + 1j * g[::-1]).astype(dt) if dt == "complex128" else g.astype(dt) for g, dt in zip(cores, c["cdtypes"])]
            if how == "object" and kind == "tt":
                cores = tt_tensor.TTTensor(cores)
            res = CALL(tt_tensor.pad_tt_rank, "pad_tt_rank", cores, n_padding=c["npad"], pad_boundaries=c["padb"])
            ex, pj = True, []
            mg = inp.get("mag", {}).get("e", 0)
            out["pdtypes"] = [str(np.asarray(g).dtype) for g in res]
            for g in res:
                g = np.real(g) if np.iscomplexobj(g) else g
                j, e1 = jt_exact(lf.unscale(g, mg))
                pj.append(j)
                ex = ex and e1
            out["parts"] = {"hasw": False, "w": [], "fs": pj}
            out["exact"] = bool(ex)
        elif op in ("cp_mode_dot", "tucker_mode_dot"):
            k = "cp" if op == "cp_mode_dot" else "tucker"
            ft = lf.fresh(k, inp)
            cls = cp_tensor.CPTensor if k == "cp" else tucker_tensor.TuckerTensor
            fn = cp_tensor.cp_mode_dot if k == "cp" else tucker_tensor.tucker_mode_dot
            operand = (inp["m"] if c["operand"] == "matrix" else inp["v"]).copy()
            om = c.get("omix", "none")
            mult = 1.0
            if om != "none":
                # the decomposition in one storage type, the operand in a WIDER one
                fdt = {"int_float": np.int64, "real_cplx": np.float64, "f32_f64": np.float32}[om]
                a0, f0 = ft
                ft = (None if a0 is None else a0.astype(fdt), [f.astype(fdt) for f in f0])
                if om == "real_cplx":
                    operand = operand + 1j * (inp["mim"] if c["operand"] == "matrix" else inp["vim"])
                else:
                    operand = operand / 2.0
                    mult = 2.0
            if how == "tuple":
                res = CALL(fn, op, ft, matrix_or_vector=operand, mode=tmode, keep_dim=c["keep"], copy=c["copy"])
            elif how == "object":
                res = CALL(fn, op, cls(ft), matrix_or_vector=operand, mode=tmode, keep_dim=c["keep"], copy=c["copy"])
            else:
                res = CALL(cls(ft).mode_dot, cls.__name__ + ".mode_dot", operand, mode=tmode, keep_dim=c["keep"], copy=c["copy"])
            a, fs = res
            if k == "cp" and not _cp_ok(a, fs):
                out["malformed"] = True
                out["exc"] = "factors %s weights %s" % ([list(np.shape(f)) for f in fs], list(np.shape(a)))
            else:
                _dense(out, k, (a, fs), mult)
                out["dtype"] = str(np.result_type(*([np.asarray(a)] if a is not None else []), *[np.asarray(f) for f in fs]))
        elif op == "refused":
            k = c["kind"]
            ft = lf.fresh(k, inp)
            cls = cp_tensor.CPTensor if k == "cp" else tucker_tensor.TuckerTensor
            fn = cp_tensor.cp_mode_dot if k == "cp" else tucker_tensor.tucker_mode_dot
            name = "cp_mode_dot" if k == "cp" else "tucker_mode_dot"
            I = c["shape"][c["mode"]]
            bad = np.ones((2, I + 2)) if c["operand"] == "matrix" else np.ones(I + 2)       # does not fit the mode
            target = ft if c["how"] == "tuple" else cls(ft)
            kw = {"matrix_or_vector": bad, "mode": c["mode"], "keep_dim": c["keep"]}
            if c["copyopt"] != "default":                       # "default": the copy argument is not passed at all
                kw["copy"] = c["copyopt"] == "true"
            try:
                if c["how"] == "method":
                    first = kw.pop("matrix_or_vector")
                    CALL(target.mode_dot, cls.__name__ + ".mode_dot", first, **kw)
                else:
                    CALL(fn, name, target, **kw)
                out["accepted"] = True
                out["exc"] = "the misfit operand was accepted"
            except Exception:
                out["accepted"] = False
            # what the caller still holds
            a, fs = target
            out["nfac"] = len(fs)
            out["objshape"] = [int(x) for x in target.shape] if c["how"] != "tuple" else []
            if k == "cp" and not _cp_ok(a, fs):
                out["malformed"] = True
            else:
                _dense(out, k, (a, fs))
        elif op == "sequence":
            obj = cp_tensor.CPTensor(lf.fresh("cp", inp))
            steps = []
            for st in c["steps"]:
                rec = {"raised": False, "accepted": False, "exc": "", "dense": {"shape": [0], "q": [], "fin": False}, "cn": [], "cnfin": False}
                try:
                    if st == "N":
                        obj.normalize()
                    elif st == "M":
                        ret = cp_tensor.cp_mode_dot(obj, inp["m"].copy(), c["mode"], copy=False)
                        obj = ret if ret is not None else obj
                    elif st == "A":
                        am = (c["mode"] + 1) % len(c["shape"])
                        obj.factors[am] = 2.0 * np.asarray(obj.factors[am])     # a new array, not through cp[1] = ...
                    elif st == "F":
                        obj = cp_tensor.cp_flip_sign(obj)
                    elif st == "X":
                        # a FAILING call on the same object (operand of the wrong size): the caller catches it and goes on
                        try:
                            cp_tensor.cp_mode_dot(obj, np.ones((2, c["shape"][c["mode"]] + 3)), c["mode"], copy=False)
                            rec["exc"] = "X: the mismatched operand was accepted"
                            rec["accepted"] = True
                        except Exception:
                            rec["accepted"] = False
                    w, fs = obj
                    tmp = blank_out()
                    _dense(tmp, "cp", (w, fs))
                    _colnorms(tmp, fs)
                    rec["dense"], rec["cn"], rec["cnfin"] = tmp["dense"], tmp["cn"], tmp["cnfin"]
                    if tmp["malformed"]:
                        rec["raised"], rec["exc"] = True, tmp["exc"]
                except Exception as ex:
                    rec["raised"] = True
                    rec["exc"] = "%s: %s" % (type(ex).__name__, str(ex)[:100])
                steps.append(rec)
            out["steps"] = steps
        elif op == "cp_to_parafac2":
            ft = lf.fresh("cp", inp)
            if how == "object":
                ft = cp_tensor.CPTensor(ft)
            res = CALL(parafac2_tensor.Parafac2Tensor.from_CPTensor, "from_CPTensor", ft)
            w, fs, ps = res
            _dense(out, "p2", (w, fs, ps))
            _orth(out, ps)
        elif op == "svd_compress":
            gexp = int(c.get("grade", 0))
            lead, last = [], []
            for L, Rm in zip(inp["fs"], inp["rs"]):
                if gexp and L.shape[1] >= 2:         # the last inner component is scaled by 2^-grade
                    lead.append(L[:, :-1] @ Rm[:-1, :])
                    last.append(L[:, -1:] @ Rm[-1:, :])
                else:
                    lead.append(L @ Rm)
                    last.append(np.zeros((L.shape[0], Rm.shape[1])))
            slices = [a + np.ldexp(b, -gexp) for a, b in zip(lead, last)] if gexp else lead
            out["slices"] = [jt(x) for x in lead]
            out["slices_lo"] = [jt(x) for x in last]
            thr = {0: 0.0, 1: 1e-6, 2: 2.0 ** -(c["rank"][0] - 1)}[c["thr"]]      # 2: the smallest kept ratio, exactly
            mr = None if c["maxrank"] == 0 else int(c["maxrank"])
            scores, loadings = CALL(preprocessing.svd_compress_tensor_slices, "svd_compress_tensor_slices", [x.copy() for x in slices],
                                 compression_threshold=thr, max_rank=mr)
            rec = [np.asarray(S) if U is None else np.asarray(U) @ np.asarray(S) for S, U in zip(scores, loadings)]
            out["recon"] = [jq(x, DENSE_SCALE) for x in rec]
            if gexp:
                out["recon_hi"] = [jq(np.ldexp(x - a, gexp), DENSE_SCALE) for x, a in zip(rec, lead)]
        elif op == "svd_roundtrip":
            w, (A, B, C), ps = lf.fresh("p2", inp)
            slices = [(P @ B * ((w if w is not None else 1) * A[i])) @ C.T for i, P in enumerate(ps)]
            out["slices"] = [jt(s) for s in slices]
            thr = 0.0 if c["thr"] == 0 else 1e-6
            mr = None if c["maxrank"] == 0 else int(c["maxrank"])
            scores, loadings = CALL(preprocessing.svd_compress_tensor_slices, "svd_compress_tensor_slices", [s.copy() for s in slices],
                                 compression_threshold=thr, max_rank=mr)
            recon, cps = [], []
            for S, U, P in zip(scores, loadings, ps):
                recon.append(jq(S if U is None else np.asarray(U) @ np.asarray(S), DENSE_SCALE))
                cps.append(P if U is None else np.asarray(U).T @ P)
            out["recon"] = recon
            comp = parafac2_tensor.Parafac2Tensor((w, [A, B, C], cps))       # a decomposition of the compressed slices
            dec = CALL(preprocessing.svd_decompress_parafac2_tensor, "svd_decompress_parafac2_tensor", comp, loading_matrices=loadings)
            w2, fs2, ps2 = dec
            _dense(out, "p2", (w2, fs2, ps2))
            _orth(out, ps2)
        else:
            raise ValueError(op)
    except Exception as ex:
        o2 = blank_out()
        o2["slices"] = out["slices"]
        o2["raised"] = True
        o2["exc"] = "%s: %s" % (type(ex).__name__, str(ex)[:140])
        return o2
    return out
