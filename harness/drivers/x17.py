"""X17 (extension, not one of the listed properties): dispatch modes of the two backend managers.

BackendStack.tla (WithModes = TRUE) models use_static_dispatch() / use_dynamic_dispatch(): the manager's own names are
frozen to the backend current in the calling thread, for every thread, until dynamic dispatch is re-enabled, while names
other modules imported at import time (tensorly.shape, tensorly.cp_tensor.khatri_rao, ...) stay dynamic in both modes.
TLC checks StaticIsFrozen / ModeSwitchKeepsSelections / DynamicSurfacesAgree on the model; random 3-thread programs mixing
selections, contexts and mode switches are executed by real threads and validated by BackendStackTrace.tla.
"""
import json
import random

from .c17 import random_program, run_rigs, split
from ..common import NCPU


def program_with_modes(rng, threads, length):
    ops = random_program(rng, threads, length)
    out = []
    for op in ops:
        if rng.random() < 0.18:
            out.append({"ev": rng.choice(["Static", "Dynamic", "Static"]), "t": rng.choice(threads), "m": rng.choice(["be", "ta"])})
        out.append(op)
    return out


def run(chk, opts):
    rng = random.Random(chk.seed)
    r = chk.design("BackendStackMC", "BackendStackMC_modes.cfg", coverage=False, timeout=1800)
    chk.notes["design_run"] = r.summary()
    n = 1500 if chk.tier == "thorough" else 300
    progs = [program_with_modes(rng, ["t0", "t1", "t2"], rng.randint(4, 16)) for _ in range(n)]
    jobs = [{"kind": "programs", "prefix": "m%d_" % k, "threads": 3, "modes": True, "traces": part} for k, part in enumerate(split(progs, NCPU))]
    events = run_rigs(chk, jobs)
    for e in events:
        if e["ev"] != "Reset":
            chk.distinct.add(json.dumps([e["ev"], e["t"], e["m"], e.get("name"), e.get("loc"), e["out"], e["obs"]], sort_keys=True))
    for e in [x for x in events if x["ev"] == "Static"][:2]:
        chk.sample(e)
    by_id = {e["id"]: e for e in events}
    trace_of = {}
    for e in events:
        trace_of.setdefault(e["tr"], []).append(e)
    for rid, clause, _ in chk.validate("BackendStackTrace", events, stateful=True, group_key="tr"):
        e = by_id.get(rid, {})
        ops = [{k: x[k] for k in ("ev", "t", "m", "name", "loc", "how") if k in x} for x in trace_of.get(e.get("tr"), []) if x["ev"] != "Reset"]
        chk.violation(rid, clause, case={"kind": "programs", "ops": ops, "threads": 3, "modes": True}, event=e)
    chk.rule = "%d random 3-thread programs mixing selections, contexts and dispatch-mode switches" % n
    chk.exhaustive = False


def replay(chk, rec, opts):
    case = rec["case"]
    events = run_rigs(chk, [{"kind": "programs", "prefix": "replay", "threads": 3, "modes": True, "traces": [case["ops"]]}])
    by_id = {e["id"]: e for e in events}
    for rid, clause, _ in chk.validate("BackendStackTrace", events, stateful=True, group_key="tr"):
        chk.violation(rid, clause, case=case, event=by_id.get(rid))
