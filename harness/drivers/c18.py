"""C18 -- results stay in the numeric context (dtype) of the input.

1. TLC checks Dtype.tla: the promotion order given as a Hasse diagram and NumPy's promotion table
   agree, Join is a semilattice operation, the leak classification is total and consistent
   (every (type, type, type, kind) combination is a state).
2. numpy.promote_types itself is logged for all pairs and validated against Join (binds the lattice
   to the installed NumPy).
3. Every case of the shared registry runs with float32, float64 and (where supported) complex128
   inputs; every array reachable from the return value is logged by slot with its dtype name.
   DtypeTrace.tla decides every event and names the leak class of each failing slot.
"""
import itertools

import numpy as np

from .. import lib_entrypoints as L
from .. import lib_walk as W
from ..common import execute_cases

NP = {"bool": np.bool_, "int": np.int64, "float32": np.float32, "float64": np.float64,
      "complex64": np.complex64, "complex128": np.complex128}


def execute(case):
    e, c = L.build(case, case.get("seed", 0))
    in_dtypes = sorted({W.dtype_name(o.dtype) for p, k, o in W.walk_args(c.args, c.kwargs)
                        if k == "array" and o.dtype.kind in "fc"})
    if c.first_call_overrides:          # "previous failed call": the same objects are first used in a call that fails
        L.invoke(c, c.first_call_overrides)
    how, val = L.invoke(c)
    outs = []
    if how == "return":
        outs = [{"p": list(p), "k": k, "dt": dt} for p, k, dt in W.walk_out(val)]
    return {"id": case["id"], "ev": "Result", "entry": e.key, "kind": case["kind"], "dtype": case["dtype"],
            "opt": c.opt, "outcome": how, "exc": type(val).__name__ if how == "raise" else "none", "expect": c.expect,
            "in_dtypes": in_dtypes, "decl": [{"p": list(p), "k": k} for p, k in e.out], "outs": outs}


def promote_events():
    evs = []
    for a, b in itertools.product(sorted(NP), repeat=2):
        evs.append({"id": "promote/%s/%s" % (a, b), "ev": "Promote", "a": a, "b": b,
                    "r": W.dtype_name(np.promote_types(NP[a], NP[b]))})
    return evs


def validate(chk, events, cases_by_id):
    # short serial ids: TLC prints a short tuple on one line (long ones are wrapped and lost)
    for n, e in enumerate(events):
        if "ev" in e:
            e["name"], e["id"] = e["id"], "e%d" % (n + 1)
    by_id = {e["id"]: e for e in events if "ev" in e}
    for rid, clause, rest in chk.validate("DtypeTrace", events):
        ev = by_id.get(rid, {})
        name = ev.get("name", rid)
        case = cases_by_id.get(name)
        if rest and isinstance(rest[0], int) and ev.get("ev") == "Result":
            o = ev["outs"][rest[0] - 1]
            slot = ".".join(o["p"]) or "ret"
            rec = chk.violation("%s#%s" % (name, slot), clause, case=case, event={k: v for k, v in ev.items() if k != "outs"},
                                extra={"slot": o, "outs": ev["outs"]})
            rec["sig"] = {"entry": ev.get("entry"), "slot": slot, "slotpat": ".".join("N" if x.isdigit() else x for x in o["p"]) or "ret",
                          "in": ev.get("dtype"), "out": o["dt"]}
        else:
            rec = chk.violation(name, clause, case=case, event=ev)
            rec["sig"] = {"entry": ev.get("entry"), "slot": "none"}


def run(chk, opts):
    r = chk.design("Dtype", "DtypeMC_thorough.cfg" if chk.tier == "thorough" else "DtypeMC_quick.cfg", coverage=False, timeout=600)
    chk.notes["design_run"] = r.summary()
    cases = L.cases(L.ALLDT, entries=set(opts["entries"].split(",")) if "entries" in opts else None)
    seeds = [chk.seed] if chk.tier == "quick" else [chk.seed, chk.seed + 1, chk.seed + 2]
    allcases = []
    for s in seeds:
        for c in cases:
            c2 = dict(c, seed=s)
            if len(seeds) > 1:
                c2["id"] = "%s@s%d" % (c["id"], s)
            allcases.append(c2)
    chk.add_cases(allcases)
    events = execute_cases(execute, allcases, repo=chk.repo, chunksize=4)
    good = [e for e in events if "ev" in e]
    chk.rule = ("every case of the entry-point registry (%d entries x argument kinds x {float32, float64, complex128 where supported} "
                "= %d cases%s) + numpy.promote_types on all 36 type pairs; distinct = distinct (entry, kind, dtype)" % (
                    len({c["entry"] for c in cases}), len(cases), "" if len(seeds) == 1 else " x %d data seeds" % len(seeds)))
    for c in cases:
        chk.distinct.add((c["entry"], c["kind"], c["dtype"]))
    chk.notes["outcomes"] = {"return": sum(e["outcome"] == "return" for e in good), "raise": sum(e["outcome"] == "raise" for e in good)}
    chk.notes["unexpected_exit_kind"] = sorted({e["id"] for e in good if (e["outcome"] == "raise") != (e["expect"] == "raise")})[:40]
    chk.notes["arrays_logged"] = sum(1 for e in good for o in e["outs"] if o["k"] == "array")
    chk.notes["scalars_logged_not_obliged"] = sum(1 for e in good for o in e["outs"] if o["k"] == "scalar")
    bad_in = [e["id"] for e in good if any(d != e["dtype"] for d in e["in_dtypes"])]
    if bad_in:
        chk.machinery.append("registry built inputs of a dtype other than the case dtype: %s" % bad_in[:5])
    for e in good[:2]:
        chk.sample(e)
    validate(chk, promote_events() + events, {c["id"]: c for c in allcases})
    chk.exhaustive = not chk.machinery
    chk.assumptions += ["NumPy backend only", "only ndarray instances are obliged ('every array returned'); NumPy / Python scalars are logged, not obliged",
                        "complex128 inputs only for entry points whose docs/tests indicate complex support (tenalg, conversions, parafac, tucker, TT/TR SVD decompositions, SVD)",
                        "real-valued outputs (singular values, CP weights of cp_normalize) may be of the real counterpart type for complex input"]


def replay(chk, rec, opts):
    case = rec["case"]
    ev = execute(case)
    chk.sample(ev)
    validate(chk, [ev], {case["id"]: case})
