"""C02 -- multilinear products equal their textbook definitions under either tenalg backend.

Domain = the configurations Multilinear.tla enumerates as TLC states (exported from the design run
in which TLC also checks the cross identities ThmXxx of the specification).  Every configuration is
executed under BOTH tenalg backends on the same integer / Gaussian-integer operands (values in -3..3
drawn from VERIF_SEED); one event per (configuration, backend, draw).  MultilinearTrace.tla
recomputes the documented result with the index formulas and decides each event; Python only
draws operands, calls tensorly and projects the result to integers.
"""
import zlib

import numpy as np

from ..common import execute_cases, ints

BACKENDS = ("core", "einsum")


# ----------------------------------------------------------------------------- operand shapes
def _skip(seq, skip):
    return [x for k, x in enumerate(seq) if k != skip]


def in_shapes(c):
    """Operand shapes prescribed by a configuration (mirror of Multilinear.InShapes; the trace
    specification re-checks every logged operand shape against its own InShapes, clause `Inputs`)."""
    op = c["op"]
    if op == "mode_dot":
        i = c["shape"][c["mode"]] + (1 if c["bad"] else 0)
        m = [i] if c["vec"] else ([i, c["J"]] if c["tr"] else [c["J"], i])
        return [list(c["shape"]), m]
    if op == "multi_mode_dot":
        out = [list(c["shape"])]
        for mode, vec, j in zip(c["modes"], c["vecs"], c["js"]):
            i = c["shape"][mode]
            out.append([i] if vec else ([i, j] if c["tr"] else [j, i]))
        return out
    if op in ("kronecker", "outer", "batched_outer"):
        return [list(s) for s in c["shapes"]]
    if op == "khatri_rao":
        remaining = [k for k in range(len(c["rows"])) if k != c["skip"]]
        return [[r, c["R"] + (1 if c["bad"] and k == remaining[-1] else 0)] for k, r in enumerate(c["rows"])]
    if op in ("inner", "tensordot"):
        return [list(c["s1"]), list(c["s2"])]
    if op == "mttkrp":
        return [list(c["shape"])] + [[d, c["R"]] for d in c["shape"]]
    if op == "moment":
        return [list(c["shape"])]
    if op == "sampled_kr":
        return [[r, c["R"]] for r in c["rows"]]
    raise ValueError(op)


def derived(c):
    """Descriptive signature fields (used only to match known findings specifically)."""
    op = c["op"]
    d = {}
    if op == "khatri_rao":
        d["remaining"] = len(_skip(c["rows"], c["skip"]))
        d["weighted_or_masked"] = bool(c["w"] or c["mask"])
    elif op == "mttkrp":
        d["order"] = len(c["shape"])
    elif op == "multi_mode_dot":
        order = sorted(range(len(c["modes"])), key=lambda j: c["modes"][j])
        d["skip_moves"] = bool(c["skip"] >= 0 and order[c["skip"]] != c["skip"])
        d["vector_used"] = any(v for j, v in enumerate(c["vecs"]) if j != c["skip"])
    elif op == "moment":
        d["order_ge2"] = c["order"] >= 2
    elif op == "tensordot":
        nb1 = [m + len(c["s1"]) if m < 0 else m for m in c["b1"]]
        d["batch_unsorted"] = nb1 != sorted(nb1)
        d["orders_differ"] = len(c["s1"]) != len(c["s2"])
    return d


# ----------------------------------------------------------------------------- argument forms
INT_FORMS = {"int": int, "i64": np.int64, "i32": np.int32}       # cfg.ity: type of every integer-like argument
CONTAINERS = {"list": list, "tuple": tuple}                         # cfg.ct : container of the operand list
SCALES = {0: 1.0, 1: 0.5, 2: float(2**26 + 1)}                      # cfg.sc : per-operand scale codes (see Multilinear.tla)


def operand_types(dt, cplx, real_only=False):
    """(dtype of the first operand, dtype of every other operand) for cfg.dt and the kind of draw."""
    cplx = cplx and not real_only
    f, c = (np.complex128, np.complex128) if cplx else (np.float64, np.float64)
    if dt == "same":
        return f, f
    if dt == "int_f":
        return np.int64, f
    if dt == "f32_f64":
        return (np.complex64 if cplx else np.float32), f
    if real_only:
        raise ValueError("complex dtype combination for a real-only operation")
    if dt == "real_cplx":
        return np.float64, np.complex128
    if dt == "cplx_real":
        return np.complex128, np.float64
    raise ValueError(dt)


# ----------------------------------------------------------------------------- drawing / projection
def draw(rng, shape, dtype):
    """Integer values in -3..3 (Gaussian integers for a complex dtype), as float64 / complex128: the LOGGED values."""
    a = rng.randint(-3, 4, size=tuple(shape)).astype(np.float64)
    if np.issubdtype(dtype, np.complexfloating):
        a = a + 1j * rng.randint(-3, 4, size=tuple(shape))
    return a


def passed(a, dtype, code):
    """The operand actually handed to tensorly: logged values times the scale of its code, in its dtype."""
    wide = np.complex128 if np.iscomplexobj(a) else np.float64
    return (a * SCALES[code]).astype(wide).astype(dtype)


def enc(a):
    a = np.asarray(a)
    re, _ = ints(a.real)
    im, _ = ints(a.imag) if np.iscomplexobj(a) else ([0] * a.size, True)
    return {"shape": [int(x) for x in a.shape], "re": re, "im": im}


def _unscale(x, total):
    """x / total where total is a product of operand scales: exact iff the quotient is an integer array."""
    x = np.asarray(x, dtype=np.float64)
    if total == 1.0:
        return ints(x)
    if not np.all(np.isfinite(x)):
        return [0] * x.size, False
    q = np.rint(x / total)
    vals, ok = ints(q)
    return vals, bool(ok and np.all(q * total == x))


def proj(a, scale=1, total=1.0):
    """Result -> integers.  `scale`: multiply first (moments: n_samples); `total`: product of the operand
    scales the configuration prescribes, divided out exactly."""
    a = np.asarray(a)
    if a.dtype == object:
        raise TypeError("object array returned")
    if scale != 1:
        a = a * scale
    if np.iscomplexobj(a):
        re, e1 = _unscale(a.real, total)
        im, e2 = _unscale(a.imag, total)
    else:
        re, e1 = _unscale(a, total)
        im, e2 = [0] * a.size, True
    return {"kind": "value", "exc": "none", "exact": bool(e1 and e2), "shape": [int(x) for x in a.shape],
            "re": re, "im": im, "dtype": str(a.dtype)}


ABSENT = {"shape": [0], "re": [], "im": []}
RAISED = {"kind": "raised", "exact": True, "shape": [], "re": [], "im": [], "dtype": "none"}


# ----------------------------------------------------------------------------- one call
ONE_SHOT = ("iter", "gen", "map", "reversed")


def mode_iterable(form, values, I):
    """cfg.mf: the iterable that carries a sequence of modes (values as spelled, entries of the cfg.ity type)."""
    vals = [I(v) for v in values]
    if form == "list":
        return vals
    if form == "tuple":
        return tuple(vals)
    if form == "array":
        return np.array(values, dtype=np.int64 if I is int else I)
    if form == "dictkeys":
        return dict.fromkeys(vals).keys()
    if form == "iter":
        return iter(vals)
    if form == "gen":
        return (v for v in vals)
    if form == "map":
        return map(I, values)
    if form == "reversed":
        return reversed(vals[::-1])
    if form == "range":                      # only for arithmetic progressions (ModeForms); entries are Python ints
        if len(values) == 0:
            return range(0)
        step = values[1] - values[0] if len(values) > 1 else 1
        return range(values[0], values[0] + step * len(values), step)
    raise ValueError(form)


# Published signatures of the pinned tree, FROZEN here (never read from the live functions): parameter names in
# published order, and how many of them the "mixed" call form passes positionally.  cfg.cf = "pos" passes every
# parameter positionally in this order, "kw" passes every parameter by these names.
SIG = {
    "mode_dot": (["tensor", "matrix_or_vector", "mode", "transpose"], 3),
    "multi_mode_dot": (["tensor", "matrix_or_vec_list", "modes", "skip", "transpose"], 2),
    "kronecker": (["matrices", "skip_matrix", "reverse"], 1),
    "khatri_rao": (["matrices", "weights", "skip_matrix", "mask"], 1),
    "inner": (["tensor1", "tensor2", "n_modes"], 2),
    "outer": (["tensors"], 1),
    "batched_outer": (["tensors"], 1),
    "tensordot": (["tensor1", "tensor2", "modes", "batched_modes"], 3),
    "mttkrp": (["tensor", "cp_tensor", "mode"], 3),
    "moment": (["tensor", "order"], 2),
    "sampled_kr": (["matrices", "n_samples", "skip_matrix", "indices_list", "return_sampled_rows", "random_state"], 2),
}
FUNC = {"mttkrp": "unfolding_dot_khatri_rao", "moment": "higher_order_moment"}      # public names where they differ


def entry_point(c, backend):
    """cfg.ep: the dispatching attribute tensorly.tenalg.<fn>, or the function of the backend package itself."""
    import importlib
    from tensorly import tenalg
    op = c["op"]
    if op == "sampled_kr":
        from tensorly.decomposition._cp import sample_khatri_rao
        return sample_khatri_rao
    if op == "mttkrp" and c["variant"] == "memory":
        from tensorly.tenalg.core_tenalg.mttkrp import unfolding_dot_khatri_rao_memory
        return unfolding_dot_khatri_rao_memory
    name = FUNC.get(op, op)
    if c["ep"] == "direct":
        return getattr(importlib.import_module("tensorly.tenalg.%s_tenalg" % backend), name)
    return getattr(tenalg, name)


def bind(c, ts, w, mask, idx, rs):
    """{parameter name: value} of the call a configuration prescribes (every published parameter, defaults
    spelled out).  The argument OBJECTS are built once; execute() calls cfg.rep times on the very same objects."""
    op = c["op"]
    I = INT_FORMS[c["ity"]]                  # how integer-like arguments are passed
    C = CONTAINERS[c["ct"]]                  # how operand lists are passed
    none = lambda v: None if v < 0 else I(v)
    M = lambda values: mode_iterable(c["mf"], list(values), I)
    if op == "mode_dot":
        return dict(tensor=ts[0], matrix_or_vector=ts[1], mode=I(c["mode"]), transpose=c["tr"])
    if op == "multi_mode_dot":
        return dict(tensor=ts[0], matrix_or_vec_list=C(ts[1:]), modes=M(c["modes"]) if c["given"] else None,
                    skip=none(c["skip"]), transpose=c["tr"])
    if op == "kronecker":
        return dict(matrices=C(ts), skip_matrix=none(c["skip"]), reverse=c["reverse"])
    if op == "khatri_rao":
        return dict(matrices=C(ts), weights=w, skip_matrix=none(c["skip"]), mask=mask)
    if op == "inner":
        return dict(tensor1=ts[0], tensor2=ts[1], n_modes=none(c["n"]))
    if op in ("outer", "batched_outer"):
        return dict(tensors=C(ts))
    if op == "tensordot":
        # the configuration carries the mode numbers AS SPELLED (negative = counted from the end, cfg.neg
        # says which arguments); the specification normalises them
        modes = I(len(c["m1"])) if c["mint"] else (M(c["m1"]), M(c["m2"]))
        batched = I(c["b1"][0]) if c["bint"] else (M(c["b1"]), M(c["b2"]))
        return dict(tensor1=ts[0], tensor2=ts[1], modes=modes, batched_modes=batched)
    if op == "mttkrp":
        return dict(tensor=ts[0], cp_tensor=(w, C(ts[1:])), mode=I(c["mode"]))
    if op == "moment":
        return dict(tensor=ts[0], order=I(c["order"]))
    if op == "sampled_kr":
        return dict(matrices=C(ts), n_samples=I(c["ns"]), skip_matrix=none(c["skip"]), indices_list=idx,
                    return_sampled_rows=bool(c["rsr"]), random_state=rs)
    raise ValueError(op)


def invoke(f, c, vals):
    names, npos = SIG[c["op"]]
    assert set(names) == set(vals), (names, sorted(vals))
    if c["cf"] == "pos":
        return f(*[vals[n] for n in names])
    if c["cf"] == "kw":
        return f(**vals)
    return f(*[vals[n] for n in names[:npos]], **{n: vals[n] for n in names[npos:]})


def failing_variant(c, vals, ts):
    """cfg.pre = "failed": an earlier call with the SAME argument objects and one invalid option, whose
    exception the caller catches before making the real call(s)."""
    op = c["op"]
    I = INT_FORMS[c["ity"]]
    bad = dict(vals)
    if op == "mode_dot":
        bad["mode"] = I(len(c["shape"]) + 1)
    elif op == "multi_mode_dot":
        bad["modes"] = [I(len(c["shape"]) + 1)] * len(c["modes"])
    elif op == "khatri_rao":
        bad["weights"] = np.ones(c["R"] + 2)
    elif op == "inner":
        bad["n_modes"] = I(len(c["s1"]) + 1)
    elif op == "tensordot":
        bad["modes"] = ([I(len(c["s1"]) + 1)], [I(0)])
    elif op == "mttkrp":
        bad["mode"] = I(len(c["shape"]) + 1)
    elif op == "sampled_kr":
        bad["n_samples"] = I(-1)
    else:
        raise ValueError(op)
    return bad


IDX_FORMS = {"i16": np.int16, "i32": np.int32, "i64": np.int64}      # cfg.idt: caller-supplied sample indices


def neg_zero(a):
    """cfg.nz: every exact zero of a floating operand is passed as -0.0 (logged as 0)."""
    if a is None or a.dtype.kind not in "fc":
        return a
    a = a.copy()
    if a.dtype.kind == "c":
        a.real[a.real == 0] = -0.0
        a.imag[a.imag == 0] = -0.0
    else:
        a[a == 0] = -0.0
    return a


def alias_key(c, k, shape):
    """Operands with the same key are ONE object when cfg.alias (mirror of MultilinearTrace.AliasKey, which re-checks)."""
    return (tuple(shape), c["sc"][k], 1 if k == 0 and (c["dt"] != "same" or c["me"] != 0) else 0)


def execute(case):
    from tensorly import tenalg
    c = case["cfg"]
    op = c["op"]
    cplx = case["cplx"]
    rng = np.random.RandomState(zlib.crc32(("%d/%d/%d" % (case["seed"], case["k"], case["draw"])).encode()) & 0x7FFFFFFF)
    shapes = in_shapes(c)
    sc = list(c["sc"])                                       # scale codes: operands.., weights, mask
    t_first, t_other = operand_types(c["dt"], cplx, real_only=(op == "moment"))
    types = [t_first] + [t_other] * (len(shapes) - 1)
    logged = [draw(rng, s, t) for s, t in zip(shapes, types)]
    ts = [passed(a, t, code) for a, t, code in zip(logged, types, sc)]
    if c["me"]:                                              # magnitude regime: first operand times 2^me (exact)
        ts[0] = ts[0] * 2.0 ** c["me"]
    total = 2.0 ** c["e2"]                                   # ... which contributes 2^e2 to the result
    for code in sc:
        total *= SCALES[code]
    if c["nz"]:
        ts = [neg_zero(a) for a in ts]
    if c["alias"]:                                           # equal-keyed operands are the same OBJECT
        for k in range(1, len(ts)):
            for j in range(k):
                if alias_key(c, j, shapes[j]) == alias_key(c, k, shapes[k]):
                    ts[k], logged[k] = ts[j], logged[j]
                    break
    w = mask = idx = None
    # absent operands keep their type (TLC cannot compare a record / sequence with a string):
    # an absent tensor is the record with shape [0] and no entries, absent indices the empty list
    ein = {"ts": [enc(t) for t in logged], "w": ABSENT, "mask": ABSENT, "idx": []}
    if op in ("khatri_rao", "mttkrp") and c["w"]:
        t_w = t_other if op == "khatri_rao" else np.float64      # CP weights of an MTTKRP are real
        lw = draw(rng, [c["R"]], t_w)
        w = passed(lw, t_w, sc[len(shapes)])
        ein["w"] = enc(lw)
    if op == "khatri_rao" and c["mask"]:
        lm = draw(rng, _skip(c["rows"], c["skip"]), t_other)
        mask = passed(lm, t_other, sc[len(shapes) + 1])
        ein["mask"] = enc(lm)
    if c["nz"]:
        w, mask = neg_zero(w), neg_zero(mask)
    if op == "sampled_kr" and c["given"]:
        idx = [rng.randint(0, r, size=c["ns"]) for r in _skip(c["rows"], c["skip"])]
        ein["idx"] = [[int(v) for v in ix] for ix in idx]
        idx = [[int(v) for v in ix] if c["idt"] == "list" else ix.astype(IDX_FORMS[c["idt"]]) for ix in idx]
    rs = np.random.RandomState(rng.randint(0, 2**31 - 1))
    ev = {"id": case["id"], "op": op, "backend": case["backend"], "draw": case["draw"], "cplx": cplx, "cfg": c, "in": ein,
          "pre_raised": False}
    prev = tenalg.get_backend()
    outs = []
    try:
        tenalg.set_backend(case["backend"])
        try:
            f = entry_point(c, case["backend"])
            vals = bind(c, ts, w, mask, idx, rs)
        except Exception as ex:
            return {"id": case["id"], "harness_error": "bind: %s: %s" % (type(ex).__name__, ex)}

        def fresh(v):                                # a one-shot iterator is legitimately used up by a call
            if c["mf"] in ONE_SHOT:
                v2 = bind(c, ts, w, mask, idx, rs)
                for name in ("modes", "batched_modes"):
                    if name in v:
                        v = dict(v, **{name: v2[name]})
            return v

        if c["pre"] == "failed":                     # an earlier call on the same objects that (normally) fails
            try:
                invoke(f, c, failing_variant(c, vals, ts))
            except Exception:
                ev["pre_raised"] = True
            vals = fresh(vals)
        for call_no in range(c["rep"]):              # the SAME argument objects for every call
            if call_no:
                vals = fresh(vals)
            try:
                res = invoke(f, c, vals)
                if op == "sampled_kr":
                    if c["rsr"]:
                        kr, indices, rows = res
                    else:
                        (kr, indices), rows = res, []
                    out = proj(kr, total=total)
                    out["idx"] = [[int(v) for v in np.asarray(ix).ravel()] for ix in indices]
                    out["rows"] = [int(v) for v in np.asarray(rows).ravel()]
                elif op == "moment":
                    # the specification states  n_samples * moment = sum of outer products  (integers)
                    n = c["shape"][0]
                    out = proj(res, scale=n, total=total)
                    if not out["exact"]:      # fl(S / n) * n may be off by an ulp for n = 3: named tolerance 1e-9
                        a = np.asarray(res, dtype=np.float64) * n / total
                        if np.all(np.isfinite(a)) and np.all(np.abs(a - np.rint(a)) <= 1e-9):
                            out["exact"] = True
                else:
                    out = proj(res, total=total)
            except Exception as ex:                  # the outcome is data for the specification (clause Outcome)
                out = dict(RAISED, exc=type(ex).__name__, msg=str(ex)[:160])
            if op == "sampled_kr":
                out.setdefault("idx", [])
                out.setdefault("rows", [])
            outs.append(out)
    finally:
        tenalg.set_backend(prev)
    ev["outs"] = outs
    return ev


# ----------------------------------------------------------------------------- driver
def make_cases(cfgs, seed, draws, quick=False):
    cases = []
    for k, c in enumerate(cfgs):
        for d in range(draws):
            if quick and d == 0 and k % 2:       # quick tier: the real-valued draw for every second configuration only
                continue
            cplx = bool(d % 2) and c["op"] != "moment"      # moments: real data only (spec domain)
            for be in BACKENDS:
                cases.append({"id": "C02/%05d/%s/%d" % (k, be, d), "k": k, "cfg": c, "backend": be, "draw": d,
                              "cplx": cplx, "seed": seed, "derived": derived(c)})
    return cases


def _report(chk, events, rejects):
    by_id = {e.get("id"): e for e in events}
    for rid, clause, _ in rejects:
        ev = by_id.get(rid)
        slim = None
        if ev is not None:
            slim = {k: ev[k] for k in ("id", "op", "backend", "cplx", "in", "outs")}
        chk.violation(rid, clause, event=slim)


def run(chk, opts):
    thorough = chk.tier == "thorough"
    r, cfgs = chk.export_configs("Multilinear", "MultilinearMC_thorough.cfg" if thorough else "MultilinearMC_quick.cfg")
    chk.notes["design_run"] = r.summary()
    cfgs.sort(key=lambda c: (c["op"], str(sorted(c.items()))))
    if opts.get("op"):
        cfgs = [c for c in cfgs if c["op"] in opts["op"].split(",")]
    draws = int(opts.get("draws", 8 if thorough else 2))
    cases = make_cases(cfgs, chk.seed, draws, quick=not thorough)
    chk.add_cases(cases)
    events = execute_cases(execute, cases, repo=chk.repo, chunksize=32)
    per_op = {}
    for c in cfgs:
        per_op[c["op"]] = per_op.get(c["op"], 0) + 1
    chk.notes["configs_per_op"] = per_op
    chk.rule = ("all %d configurations enumerated by Multilinear.tla (%s tier: spec-defined thinning of the full product of operand "
                "shapes [order<=4, dims<=3, <=36 entries] x modes x options for 11 operations), each under both tenalg backends, "
                "%d draws of integer / Gaussian-integer operands in -3..3 per backend (quick: the Gaussian draw for every configuration, "
                "the real draw for every second one); one event per (configuration, backend, draw); "
                "distinct = distinct (configuration, backend) pairs" % (len(cfgs), chk.tier, draws))
    for e in events:
        if "cfg" in e:
            chk.distinct.add((str(e["cfg"]), e["backend"]))
    good = [e for e in events if "cfg" in e]
    for e in good[len(good) // 3: len(good) // 3 + 2] + good[-2:]:
        chk.sample(e)
    _report(chk, events, chk.validate("MultilinearTrace", events, chunks=16 if thorough else 8))
    # every enumerated configuration ran under both backends; NOT exhaustive over the bounded domain:
    # the enumeration is a thinning of the full product and operand values are sampled
    chk.notes["enumerated_domain_covered"] = len(chk.distinct) == 2 * len(cfgs) and not chk.machinery and not opts.get("op")
    if not chk.notes["enumerated_domain_covered"] and not opts.get("op"):
        chk.machinery.append("not every enumerated configuration produced an event under both backends")
    chk.exhaustive = False
    chk.assumptions += [
        "NumPy backend only; tenalg backends core and einsum",
        "operand values are random integers in -3..3 (float64 / complex128): a multilinear map that agrees with the formula on generic "
        "draws agrees everywhere with overwhelming probability, but this is sampling of VALUES (shapes/options are enumerated)",
        "both tiers enumerate a spec-defined thinning (polynomial hash) of the full shape x option product, not the full product",
        "negative mode numbers are covered for tensordot (modes / batched_modes, cfg.neg) only: the other operations do not promise them",
        "argument forms (cfg.ity / cfg.dt / cfg.ct: Python vs NumPy integers, operand dtype combinations, list vs tuple) are rotated over "
        "the configurations by the specification, one combination per configuration; excluded because the unchanged tree fails on them "
        "and the docstrings do not promise them: tensordot(modes=k / batched_modes=k) with k a NumPy integer (TypeError in both backends), "
        "einsum khatri_rao(tuple, weights=w) without skip_matrix (TypeError)",
        "cfg.cf: arguments in the mixed form, all positional in the published order, or all by published keyword (names/order frozen in the "
        "driver's SIG table); cfg.ep: dispatching attribute vs the backend package's own function; cfg.alias: equal-shaped operands are one "
        "object; cfg.pre: an earlier failing call on the same objects is caught first (its outcome is not judged); cfg.nz: zeros passed as "
        "-0.0; magnitude 2^-1074 makes the first operand subnormal; cfg.rsr: sample_khatri_rao with and without return_sampled_rows",
        "cfg.mf: sequences of modes (multi_mode_dot modes, tensordot mode lists) are passed as list / tuple / ndarray / dict keys / range / "
        "one-shot iterators (iter, generator, map, reversed)",
        "cfg.rep: the call is repeated 1-3 times on the same argument objects and every call must return the documented value; "
        "cfg.me: the first operand is scaled by 2^-600 / 2^500 (moments 2^-300 / 2^300), divided out exactly; sampled Khatri-Rao: caller-supplied "
        "indices as list / int16 / int32 / int64 and row-count products up to 2*10^5 (row numbers beyond int16; beyond int32 is outside TLC's integers)",
        "dtype combinations: values stay exact because float operands carry dyadic scales prescribed by the specification (cfg.sc); the "
        "result dtype itself is not checked here (C18)",
        "higher_order_moment on real data only; MTTKRP with real weights only; tensordot output mode order: two readings accepted",
    ]


def replay(chk, rec, opts):
    case = rec["case"]
    ev = execute(case)
    chk.add_cases([case])
    chk.sample(ev)
    _report(chk, [ev], chk.validate("MultilinearTrace", [ev]))
