"""C04 -- canonicalising and algebraic transforms preserve the represented tensor.

Domain = the configurations Transforms.tla enumerates as TLC states (operation x shape x rank x input family x
options; the quick tier keeps a deterministic 1-in-Thin subset of the large option products).  TLC checks on
the specification that exact integer reference transforms satisfy the contract; the state dump gives the
configurations to this driver, which builds an integer input of the requested family (VERIF_SEED), calls the
real transform and measures the output (dense reconstruction by a numpy contraction of the returned parts,
squared column norms, weights / column means, returned integer cores, permutation).  TransformsTrace.tla
decides each event: represented tensor preserved (exactly computed by the spec from the integer input, named
tolerance 2e-5 on the float output) and canonical form established.
"""
import time

import numpy as np

from ..common import execute_cases
from .. import lib_transforms as lt


def execute(case):
    c = case["cfg"]
    if "in" in case:
        inp = lt.from_json(c, case["in"])
    else:
        inp = lt.draw(c, np.random.default_rng([case["seed"], case["k"], case["draw"]]))
    out = lt.execute(c, inp)
    return {"id": case["id"], "cfg": c, "in": lt.to_json(c, inp), "out": out, "derived": lt.derived(c, inp)}


def run(chk, opts):
    thorough = chk.tier == "thorough"
    t0 = time.time()
    r, cfgs = chk.export_configs("Transforms", "TransformsMC_thorough.cfg" if thorough else "TransformsMC_quick.cfg",
                                 keep=lambda c: "family" in c)
    chk.notes["design_run"] = r.summary()
    t1 = time.time()
    cfgs.sort(key=lambda c: (c["op"], c["kind"], len(c["shape"]), c["shape"], c["rank"], str(c)))
    cases = []
    draws = 3 if thorough else 1
    for k, c in enumerate(cfgs):
        for d in range(draws):
            cases.append({"id": "C04/%s/%05d/%d" % (c["op"], k, d), "cfg": c, "seed": chk.seed, "k": k, "draw": d})
    events = execute_cases(execute, cases, repo=chk.repo)
    t2 = time.time()
    by_id = {e.get("id"): e for e in events}
    for cs in cases:
        e = by_id.get(cs["id"])
        if e is not None and "in" in e:
            cs["in"] = e["in"]
            cs.update(e.get("derived", {}))
    chk.add_cases(cases)
    ops = {}
    for c in cfgs:
        ops[c["op"]] = ops.get(c["op"], 0) + 1
    chk.notes["events_per_op"] = ops
    chk.rule = ("all %d configurations exported from TLC's design run of Transforms.tla (operation x shape of order 2-3 x rank x input family "
                "{generic, Pythagorean columns, zero column, zero-mean column, negative / zero / absent weights} x mode x operand x keep_dim x copy "
                "x tuple/object/method%s), one seeded integer input each; distinct = distinct configurations"
                % (len(cfgs), "" if thorough else "; quick tier = the spec's deterministic 1-in-6 thinning of the large option products"))
    for e in events:
        if "cfg" in e:
            chk.distinct.add(str(e["cfg"]))
    for e in events[len(events) // 3: len(events) // 3 + 2]:
        chk.sample(e)
    for rid, clause, rest in chk.validate("TransformsTrace", events):
        chk.violation(rid, clause, event=by_id.get(rid))
    chk.notes["phase_s"] = {"design+export": round(t1 - t0, 1), "execute": round(t2 - t1, 1), "validate": round(time.time() - t2, 1)}
    chk.exhaustive = len(chk.distinct) == len(cfgs) and not chk.machinery
    chk.trusted.append("numpy einsum contraction used to measure the tensor represented by a floating-point output "
                       "(tensorly's own *_to_tensor are bound to the same contraction by C03)")
    chk.assumptions += ["NumPy backend only", "one seeded integer input per configuration (three in the thorough tier)",
                        "float outputs compared with the exact integer expectation within 2e-5 (dense), 1e-6 (unit norms, orthonormality, signs)"]


def replay(chk, rec, opts):
    case = rec["case"]
    ev = execute(case)
    chk.sample(ev)
    for rid, clause, rest in chk.validate("TransformsTrace", [ev]):
        chk.violation(rid, clause, case=case, event=ev)
