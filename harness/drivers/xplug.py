"""XPLUG (extension, not one of the listed properties): tensorly.plugins over per-thread backend selection.

PluginEinsum.tla models use_opt_einsum() / use_default_einsum(): `einsum` is an attribute of the backend class, the saved
original is ONE module global, the current backend is per thread.  TLC shows (witness run, PrevScope = "global") that the
documented "revert to the original einsum for the current backend" does not hold for the code as found -- a backend can end up
running another backend's einsum, or lose its original for good -- and that keeping one saved einsum per backend
(PrevScope = "per_backend") satisfies every promise.  The real code is bound to the as-found model: every transition of the
model's state graph (2 threads, 3 backends, <= 3 operations) and random 3-thread programs are executed by real threads and
every operation's observations are validated by PluginEinsumTrace.tla.
"""
import json
import os
import random
import subprocess
import sys

from .. import tlc
from ..common import NCPU
from .c17 import parse_dot, edge_cover, split

NAMES = ["numpy", "jax", "cupy"]
EXPECTED_BROKEN = {"RevertIsOriginal", "NoForeignEinsum", "SavedIsAnOriginal"}
EXPECTED_BROKEN_MODES = EXPECTED_BROKEN | {"OptTakesEffectOnManagerAttribute"}


def label_to_op(lab):
    import re
    m = re.match(r'(\w+)\((.*)\)$', lab)
    name, args = m.group(1), [a.strip().strip('"') for a in m.group(2).split(",")]
    if name == "Select":
        return {"ev": "Select", "t": args[0], "name": args[1], "loc": args[2] == "TRUE"}
    return {"ev": {"UseOpt": "Opt", "UseDefault": "Default"}[name], "t": args[0]}


def random_program(rng, threads, length):
    ops = []
    for _ in range(length):
        t = rng.choice(threads)
        r = rng.random()
        if r < 0.35:
            ops.append({"ev": "Select", "t": t, "name": rng.choice(NAMES), "loc": rng.random() < 0.5})
        elif r < 0.62:
            ops.append({"ev": "Opt", "t": t})
        elif r < 0.8:
            ops.append({"ev": "Default", "t": t})
        elif r < 0.9:
            ops.append({"ev": rng.choice(["Static", "Dynamic", "Static"]), "t": t})
        else:
            ops.append({"ev": "Call", "t": t})
    return ops


def run_rigs(chk, jobs):
    procs = []
    for k, job in enumerate(jobs):
        jf = os.path.join(chk.work, "pjob%d.json" % k)
        of = os.path.join(chk.work, "prig%d.ndjson" % k)
        with open(jf, "w") as fh:
            json.dump(job, fh)
        p = subprocess.Popen([sys.executable, "-m", "harness.drivers.xplug_rig", chk.repo, jf, of],
                             cwd=tlc.VERIF, stdout=subprocess.PIPE, stderr=subprocess.PIPE, text=True)
        procs.append((p, of))
    events = []
    for p, of in procs:
        try:
            so, se = p.communicate(timeout=1800)
        except subprocess.TimeoutExpired:
            p.kill()
            chk.machinery.append("XPLUG rig timed out")
            continue
        if p.returncode != 0:
            chk.machinery.append("XPLUG rig failed rc=%s: %s" % (p.returncode, se[-2000:]))
            continue
        with open(of) as fh:
            events += [json.loads(l) for l in fh]
    return events


def run(chk, opts):
    thorough = chk.tier == "thorough"
    rng = random.Random(chk.seed)
    # 1. design: the repaired scope satisfies every promise; the as-found scope violates exactly the expected ones
    r = chk.design("PluginEinsumMC", "PluginEinsumMC_repaired.cfg", coverage=False, timeout=900)
    chk.notes["design_run_repaired"] = r.summary()
    w = tlc.run("PluginEinsumMC", "PluginEinsumMC_asfound.cfg", workers=NCPU, timeout=900, extra=("-continue",))
    chk.states += w.distinct
    chk.transitions += w.generated
    broken = sorted(set(w.violated))
    chk.notes["asfound_violates"] = broken
    if set(broken) != EXPECTED_BROKEN:
        chk.machinery.append("as-found model violates %s, expected %s" % (broken, sorted(EXPECTED_BROKEN)))
    print("EXTENSION-FINDING: plugins.use_default_einsum() restores ONE saved einsum into whatever backend is current: "
          "model PrevScope=global violates %s (shortest witness: select jax; use_opt_einsum; [other thread / other backend] "
          "use_default_einsum -> numpy runs jax's einsum); the real code conforms to that model" % ", ".join(broken))
    wm = tlc.run("PluginEinsumMC", "PluginEinsumMC_modes.cfg", workers=NCPU, timeout=900, extra=("-continue",))
    chk.states += wm.distinct
    chk.transitions += wm.generated
    chk.notes["asfound_with_dispatch_modes_violates"] = sorted(set(wm.violated))
    if set(wm.violated) != EXPECTED_BROKEN_MODES:
        chk.machinery.append("as-found model with dispatch modes violates %s, expected %s" % (sorted(set(wm.violated)), sorted(EXPECTED_BROKEN_MODES)))
    print("EXTENSION-FINDING: after use_static_dispatch() the manager's own attribute tl.backend.einsum is frozen: a later use_opt_einsum() "
          "does not reach it (OptTakesEffectOnManagerAttribute violated), while tl.einsum (import-time wrapper) does see the plugin")
    # 1b. unbounded: Apalache discharges an inductive invariant of the repaired scope (behaviours of any length)
    apa = {}
    for name, args in (("init", ["--init=Init", "--inv=IndInv", "--length=0"]), ("step", ["--init=IndInv", "--inv=IndInv", "--length=1"]),
                       ("implies", ["--init=IndInv", "--inv=Promises", "--length=0"])):
        try:
            r2 = subprocess.run(["apalache-mc", "check"] + args + ["--out-dir=" + os.path.join(chk.work, "apa"), "PluginEinsumInd.tla"],
                                cwd=os.path.join(tlc.SPEC_DIR, "apalache"), capture_output=True, text=True, timeout=900)
            apa[name] = "EXITCODE: OK" in r2.stdout
        except Exception as ex:          # noqa
            apa[name] = False
        if not apa[name]:
            chk.machinery.append("Apalache obligation %s of PluginEinsumInd not discharged" % name)
    chk.notes["apalache_inductive"] = apa
    chk.checker_cmds.append("apalache-mc check --init=IndInv --inv=IndInv --length=1 PluginEinsumInd.tla (+ init, implies)")
    # 2. spec -> code: every transition of the as-found model's state graph
    dot = os.path.join(chk.work, "pgraph.dot")
    g = tlc.run("PluginEinsumMC", "PluginEinsumGraph_thorough.cfg" if thorough else "PluginEinsumGraph.cfg", workers=4, dump=dot, timeout=900)
    chk.states += g.distinct
    chk.transitions += g.generated
    init, edges = parse_dot(dot)
    os.remove(dot)
    paths = edge_cover(init, edges, rng)
    progs = [[label_to_op(l) for l in p] for p in paths]
    chk.notes["graph"] = {"states": len(edges), "edges": sum(len(v) for v in edges.values()), "covering_paths": len(paths)}
    jobs = [{"prefix": "g%d_" % k, "threads": 2, "traces": part} for k, part in enumerate(split(progs, NCPU // 2))]
    # 3. random 3-thread programs
    n = 3000 if thorough else 400
    rprogs = [random_program(rng, ["t0", "t1", "t2"], rng.randint(3, 16)) for _ in range(n)]
    jobs += [{"prefix": "r%d_" % k, "threads": 3, "traces": part} for k, part in enumerate(split(rprogs, NCPU // 2))]
    events = run_rigs(chk, jobs)
    for e in events:
        chk.distinct.add(json.dumps([e["ev"], e["t"], e["name"], e["loc"], e["out"], e["obs"]], sort_keys=True))
    for e in [x for x in events if x["ev"] == "Default"][:2]:
        chk.sample(e)
    by_id = {e["id"]: e for e in events}
    trace_of = {}
    for e in events:
        trace_of.setdefault(e["tr"], []).append(e)
    for rid, clause, _ in chk.validate("PluginEinsumTrace", events, stateful=True, group_key="tr"):
        e = by_id.get(rid, {})
        ops = [{k: x[k] for k in ("ev", "t", "name", "loc")} for x in trace_of.get(e.get("tr"), []) if x["ev"] != "Reset"]
        chk.violation(rid, clause, case={"ops": ops, "threads": 2 if str(e.get("tr", "")).startswith("g") else 3}, event=e)
    chk.rule = ("every edge of the as-found model's state graph (2 threads, 3 backends, <= %d operations) and %d random 3-thread programs "
                "executed by real threads" % (4 if thorough else 3, n))
    chk.exhaustive = False
    chk.assumptions += ["opt_einsum is a stand-in module (only contract_expression is used by the plugin)",
                        "'jax' and 'cupy' are NumPy-derived stand-in backends with their own tagged einsum"]


def replay(chk, rec, opts):
    case = rec["case"]
    events = run_rigs(chk, [{"prefix": "replay", "threads": case.get("threads", 3), "traces": [case["ops"]]}])
    by_id = {e["id"]: e for e in events}
    for rid, clause, _ in chk.validate("PluginEinsumTrace", events, stateful=True, group_key="tr"):
        chk.violation(rid, clause, case=case, event=by_id.get(rid))
