"""C08 -- decomposition outputs honour requested structure and canonical form.

Two bindings: (1) the Driver traces (iterative decompositions, both exit paths, DriverTrace.tla);
(2) Struct.tla / StructTrace.tla for the SVD-based decompositions and the rank validators.
"""
from .. import lib_struct as S
from ..common import execute_cases
from ..lib_drvcheck import run_driver_check, replay_driver_check

PROP = "C08"


def struct_part(chk, cases):
    chk.add_cases(cases)
    events = execute_cases(S.execute, cases, repo=chk.repo)
    for e in events[:2]:
        chk.sample(e, limit=6)
    by_id = {e.get("id"): e for e in events}
    for rid, clause, _ in chk.validate("StructTrace", events):
        rec = chk.violation(rid, clause, event=by_id.get(rid))
        rec["fam"] = by_id.get(rid, {}).get("fam")
    chk.notes["struct_events"] = len(events)
    chk.notes["struct_raised"] = sum(e.get("out") == "raised" for e in events)


def run(chk, opts):
    r = chk.design("Struct", "StructMC.cfg", coverage=False, workers=8)
    chk.notes["struct_design_run"] = r.summary()
    if "only" not in opts:
        struct_part(chk, S.struct_cases(chk.tier, chk.seed))
    run_driver_check(chk, PROP, opts)


def replay(chk, rec, opts):
    case = rec["case"]
    if "fam" in case:
        struct_part(chk, [case])
    else:
        replay_driver_check(chk, PROP, rec, opts)
