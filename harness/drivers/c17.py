"""C17 -- backend selection is a per-thread stack over a shared default.

1. TLC checks the six clauses on BackendStack.tla (fine grain: the two writes of set_backend are
   separate steps), exhaustively for small constants, plus a witness run: the as-found exit flavour
   must violate LocalNoInterference (the property is not vacuous).
2. spec -> code: the labelled state graph of the operation-grain config is walked so that every
   transition is executed by real threads; 3. random operation programs (3 threads, 3 backends);
   4. free-running concurrent threads.  All recorded traces are validated by BackendStackTrace.tla.
"""
import json
import os
import random
import re
import subprocess
import sys

from .. import tlc
from ..common import NCPU

BE = ["numpy", "jax", "cupy"]
TA = ["core", "einsum"]
# selections by backend INSTANCE (a second, unregistered instance of the same class), used by the random / free programs
BE_ALT = BE + ["numpy_alt", "jax_alt"]
TA_ALT = TA + ["einsum_alt"]
# unselectable names: unknown ones, a known-but-not-installed one, and the names of the OTHER manager
BAD = {"be": ["nope", "pytorch", "einsum", "core"], "ta": ["nope", "numpy", "jax"]}


def parse_dot(path):
    init = None
    edges = {}
    node_re = re.compile(r'^(-?\d+) \[label=')
    edge_re = re.compile(r'^(-?\d+) -> (-?\d+) \[label="((?:[^"\\]|\\.)*)"')
    with open(path) as fh:
        for line in fh:
            m = edge_re.match(line)
            if m:
                u, v, lab = m.group(1), m.group(2), m.group(3).replace('\\"', '"')
                edges.setdefault(u, []).append((lab, v))
                continue
            m = node_re.match(line)
            if m and "style = filled" in line and init is None:
                init = m.group(1)
    return init, edges


def label_to_op(lab):
    m = re.match(r'(\w+)\((.*)\)$', lab)
    name, args = m.group(1), [a.strip().strip('"') for a in m.group(2).split(",")]
    if name in ("Set1", "SetBad"):
        return {"ev": "Set", "t": args[0], "m": args[1], "name": args[2], "loc": args[3] == "TRUE"}
    if name in ("Enter", "EnterBad"):
        return {"ev": "Enter", "t": args[0], "m": args[1], "name": args[2], "loc": args[3] == "TRUE"}
    if name == "Exit":
        return {"ev": "Exit", "t": args[0], "how": args[1], "m": "?"}
    raise ValueError(lab)


def edge_cover(init, edges, rng):
    """Paths from init that together traverse every edge (shortest prefix + greedy extension)."""
    # BFS tree
    parent = {init: None}
    order = [init]
    for u in order:
        for lab, v in edges.get(u, []):
            if v not in parent:
                parent[v] = (u, lab)
                order.append(v)
    def path_to(u):
        p = []
        while parent[u] is not None:
            pu, lab = parent[u]
            p.append(lab)
            u = pu
        return p[::-1]
    uncovered = {(u, lab, v) for u in edges for lab, v in edges[u]}
    paths = []
    for u in order:
        for lab, v in edges.get(u, []):
            if (u, lab, v) not in uncovered:
                continue
            p = path_to(u)
            cur = u
            e = (u, lab, v)
            while True:
                uncovered.discard(e)
                p.append(e[1])
                cur = e[2]
                nxt = [(cur, l2, v2) for l2, v2 in edges.get(cur, []) if (cur, l2, v2) in uncovered]
                if not nxt:
                    break
                e = nxt[0]
            paths.append(p)
    return paths


def fix_exit_mgr(ops):
    """Exit labels carry no manager: derive it from the schedule (LIFO per thread)."""
    st = {}
    out = []
    for op in ops:
        op = dict(op)
        if op["ev"] == "Enter" and op["name"] not in BAD[op["m"]]:
            st.setdefault(op["t"], []).append(op["m"])
        elif op["ev"] == "Exit":
            s = st.get(op["t"], [])
            if not s:
                continue
            op["m"] = s.pop()
        out.append(op)
    return out


def random_program(rng, threads, length, maxdepth=3):
    depth = {t: [] for t in threads}
    ops = []
    for _ in range(length):
        t = rng.choice(threads)
        m = rng.choice(["be", "be", "ta"])
        names = BE_ALT if m == "be" else TA_ALT
        r = rng.random()
        if r < 0.12:
            ops.append({"ev": "Set", "t": t, "m": m, "name": rng.choice(BAD[m]), "loc": rng.random() < 0.5})
        elif r < 0.45:
            ops.append({"ev": "Set", "t": t, "m": m, "name": rng.choice(names), "loc": rng.random() < 0.5, "pos": rng.random() < 0.3})
        elif r < 0.50 and len(depth[t]) < maxdepth:
            ops.append({"ev": "Enter", "t": t, "m": m, "name": rng.choice(BAD[m]), "loc": rng.random() < 0.5,
                        "form": rng.choice(["with", "deco"])})
        elif r < 0.75 and len(depth[t]) < maxdepth:
            ops.append({"ev": "Enter", "t": t, "m": m, "name": rng.choice(names), "loc": rng.random() < 0.5,
                        "form": rng.choice(["with", "deco"]), "pos": rng.random() < 0.3})
            depth[t].append(m)
        elif depth[t]:
            ops.append({"ev": "Exit", "t": t, "m": depth[t].pop(), "how": rng.choice(["normal", "exception", "base_exception"])})
        else:
            ops.append({"ev": "Query", "t": t, "m": m})
    return ops


def free_programs(rng, threads, length):
    progs = {}
    for t in threads:
        ops = [o for o in random_program(rng, [t], length) ]
        # close what is still open so that the whole run is logged
        openm = []
        for o in ops:
            if o["ev"] == "Enter" and o["name"] not in BAD[o["m"]]:
                openm.append(o["m"])
            elif o["ev"] == "Exit":
                openm.pop()
        while openm:
            ops.append({"ev": "Exit", "t": t, "m": openm.pop(), "how": "normal"})
        progs[t] = ops
    return progs


def run_rigs(chk, jobs):
    procs = []
    for k, job in enumerate(jobs):
        jf = os.path.join(chk.work, "job%d.json" % k)
        of = os.path.join(chk.work, "rig%d.ndjson" % k)
        with open(jf, "w") as fh:
            json.dump(job, fh)
        p = subprocess.Popen([sys.executable, "-m", "harness.drivers.c17_rig", chk.repo, jf, of],
                             cwd=tlc.VERIF, stdout=subprocess.PIPE, stderr=subprocess.PIPE, text=True)
        procs.append((p, of))
    events = []
    for p, of in procs:
        try:
            so, se = p.communicate(timeout=1800)
        except subprocess.TimeoutExpired:
            p.kill()
            chk.machinery.append("C17 rig timed out")
            continue
        if p.returncode != 0:
            chk.machinery.append("C17 rig failed rc=%s: %s" % (p.returncode, se[-2000:]))
            continue
        with open(of) as fh:
            events += [json.loads(l) for l in fh]
    return events


def split(lst, n):
    n = max(1, min(n, len(lst)))
    return [lst[i::n] for i in range(n)]


def run(chk, opts):
    thorough = chk.tier == "thorough"
    rng = random.Random(chk.seed)
    # 1. design: exhaustive model checking of the fine-grain model
    cfg = "BackendStackMC_thorough.cfg" if thorough else "BackendStackMC_quick.cfg"
    r = chk.design("BackendStackMC", cfg, coverage=False, timeout=3000)
    chk.notes["design_run"] = r.summary()
    # witness: the as-found exit flavour must violate LocalNoInterference
    w = tlc.run("BackendStackMC", "BackendStackMC_asfound.cfg", workers=NCPU, timeout=900)
    chk.states += w.distinct
    chk.transitions += w.generated
    chk.notes["witness_asfound_violates"] = w.violated
    if "LocalNoInterference" not in w.violated:
        chk.machinery.append("witness run: the as-found exit flavour no longer violates LocalNoInterference (vacuous model?)")
    # 2. spec -> code: walk the operation-grain state graph
    dot = os.path.join(chk.work, "graph.dot")
    g = tlc.run("BackendStackMC", "BackendStackGraph_thorough.cfg" if thorough else "BackendStackGraph.cfg",
                workers=4, dump=dot, timeout=1200)
    chk.states += g.distinct
    chk.transitions += g.generated
    init, edges = parse_dot(dot)
    nedges = sum(len(v) for v in edges.values())
    paths = edge_cover(init, edges, rng)
    progs = [fix_exit_mgr([label_to_op(l) for l in p]) for p in paths]
    for k, p in enumerate(progs):          # every other covering path uses its contexts as decorators
        if k % 2:
            for o in p:
                if o["ev"] == "Enter":
                    o["form"] = "deco"
    chk.notes["graph"] = {"states": len(edges), "edges": nedges, "covering_paths": len(paths)}
    os.remove(dot)
    jobs = [{"kind": "programs", "prefix": "g%d_" % k, "threads": 2, "traces": part}
            for k, part in enumerate(split(progs, NCPU))]
    # 3. random operation programs on the 3-thread / 3-backend configuration
    nprog = 4000 if thorough else 400
    rprogs = [random_program(rng, ["t0", "t1", "t2"], rng.randint(4, 24 if thorough else 14)) for _ in range(nprog)]
    jobs += [{"kind": "programs", "prefix": "r%d_" % k, "threads": 3, "traces": part}
             for k, part in enumerate(split(rprogs, NCPU))]
    # 4. free-running concurrent threads
    nfree = 1500 if thorough else 150
    fprogs = [free_programs(rng, ["t0", "t1", "t2"], rng.randint(3, 10)) for _ in range(nfree)]
    jobs += [{"kind": "free", "prefix": "f%d_" % k, "threads": 3, "traces": part}
             for k, part in enumerate(split(fprogs, NCPU))]
    events = run_rigs(chk, jobs)
    chk.rule = ("every edge of the operation-grain state graph (2 threads, 2+2 backends, depth<=2, <=%d ops) executed by real "
                "threads; %d random 3-thread programs; %d free-running concurrent runs; a case is one operation with the "
                "observations of every thread; distinct = distinct (op, args, observation) tuples" % (4 if thorough else 3, nprog, nfree))
    for e in events:
        if e["ev"] != "Reset":
            chk.distinct.add(json.dumps([e["ev"], e["t"], e["m"], e["name"], e["loc"], e["out"], e["obs"]], sort_keys=True))
    for e in events[1:4]:
        chk.sample(e)
    by_id = {e["id"]: e for e in events}
    rej = chk.validate("BackendStackTrace", events, stateful=True, group_key="tr")
    trace_of = {}
    for e in events:
        trace_of.setdefault(e["tr"], []).append(e)
    for rid, clause, _ in rej:
        e = by_id.get(rid, {})
        tr = trace_of.get(e.get("tr"), [])
        ops = [{k: x[k] for k in ("ev", "t", "m", "name", "loc", "how", "form", "pos") if k in x} for x in tr if x["ev"] != "Reset"]
        kind = "free" if str(e.get("tr", "")).startswith("f") else "programs"
        rec = chk.violation(rid, clause, case={"kind": kind, "ops": ops, "threads": 3 if not str(e.get("tr", "")).startswith("g") else 2},
                            event=e)
        rec["sig"] = {"ev": e.get("ev"), "m": e.get("m"), "loc": e.get("loc")}
    chk.exhaustive = not chk.machinery
    chk.assumptions += ["operation-level schedules (the two writes of set_backend interleave only in the model)",
                        "only NumPy is installed: 'jax' and 'cupy' are NumPy-derived stand-in backend classes registered by the harness",
                        "backend cache pre-warmed; Load races are explored in the model only"]


def replay(chk, rec, opts):
    case = rec["case"]
    if case["kind"] == "programs":
        jobs = [{"kind": "programs", "prefix": "replay", "threads": case.get("threads", 3), "traces": [case["ops"]]}]
    else:
        progs = {}
        for op in case["ops"]:
            progs.setdefault(op["t"], []).append(op)
        jobs = [{"kind": "free", "prefix": "replay", "threads": 3, "traces": [progs]}]
    events = run_rigs(chk, jobs)
    by_id = {e["id"]: e for e in events}
    for rid, clause, _ in chk.validate("BackendStackTrace", events, stateful=True, group_key="tr"):
        chk.violation(rid, clause, case=case, event=by_id.get(rid))
    for e in events[:3]:
        chk.sample(e)
