"""C07 -- see DESIGN.md section 5, C07 (Driver.tla / DriverTrace.tla)."""
from ..lib_drvcheck import run_driver_check, replay_driver_check

PROP = "C07"


def run(chk, opts):
    run_driver_check(chk, PROP, opts)


def replay(chk, rec, opts):
    replay_driver_check(chk, PROP, rec, opts)
