"""C16 -- seeded calls are reproducible and independent of the global RNG state.

1. TLC checks the clauses of C16 on RngStreams.tla for every interleaving of <= 6 (thorough: 7, and 6 with seeded deterministic routines)
   operations (2 entry classes, 2 seeds, twin generators), plus non-vacuity runs: the two as-found
   variants ("ignore_seed" = F-16a, "leak" = F-16b) must violate the properties, and the witness
   config must find histories in which the implications have a true antecedent.
2. spec -> code: TLC dumps the labelled state graph of the small config; the harness covers every
   transition with walks from the initial state and adds random longer histories (VERIF_SEED).  Every
   history is replayed once per *real* seed-accepting entry point of tensorly (harness/lib_seeded.py)
   with per-trace random real seeds; after every step the digests of numpy's global state, of every
   generator and of the returned arrays are logged.
3. code -> spec: RngStreamsTrace.tla (which reuses the design's state functions) accepts or rejects
   every logged step.
"""
import json
import os
import random
import re

from .. import tlc
from ..common import NCPU, execute_cases

GENSEED = {"g1": 1, "g2": 1}       # must equal MCTwins of RngStreamsMC.tla (checked by the trace spec at Reset)
OBJSEED = {"o1": 1}                # must equal MCObjSeed: the estimator object of a class entry is built with model seed 1


def label_to_op(lab):
    m = re.match(r'(\w+)(?:\((.*)\))?$', lab)
    name = m.group(1)
    args = [a.strip().strip('"') for a in m.group(2).split(",")] if m.group(2) else []
    if name == "Perturb":
        return {"op": "Perturb"}
    if name == "Reseed":
        return {"op": "Reseed", "s": int(args[0])}
    if name == "CallNone":
        return {"op": "CallNone", "e": args[0]}
    if name == "CallInt":
        return {"op": "CallInt", "e": args[0], "s": int(args[1])}
    if name == "CallGen":
        return {"op": "CallGen", "e": args[0], "g": args[1]}
    if name in ("FitObj", "CloneFit"):
        return {"op": name, "e": args[0], "o": args[1]}
    if name == "SwitchBackend":
        return {"op": "SwitchBackend", "b": args[0]}
    raise ValueError(lab)


def random_history(rng, length, with_obj=False):
    ops = []
    for _ in range(length):
        r = rng.random()
        if rng.random() < 0.06:
            ops.append({"op": "SwitchBackend"})       # tenalg.set_backend(the other one): target filled in per trace
        elif with_obj and rng.random() < 0.3:
            ops.append({"op": rng.choice(["FitObj", "FitObj", "CloneFit"]), "e": "rand", "o": "o1"})
        elif r < 0.15:
            ops.append({"op": "Perturb"})
        elif r < 0.24:
            ops.append({"op": "Reseed", "s": rng.choice([1, 2])})
        elif r < 0.36:
            ops.append({"op": "CallNone", "e": rng.choice(["rand"] * 4 + ["alt"])})
        elif r < 0.44:
            ops.append({"op": "CallNone", "e": "det"})
        elif r < 0.74:      # mostly the seeds 1, 2 (repeats), sometimes one of the other ten; sometimes the float32 twin
            ops.append({"op": "CallInt", "e": rng.choice(["rand"] * 4 + ["alt"]),
                        "s": rng.choice([1, 1, 1, 2, 2, rng.randint(3, NSEEDS)])})
        else:
            ops.append({"op": "CallGen", "e": rng.choice(["rand"] * 4 + ["alt"]), "g": rng.choice(["g1", "g2"])})
    return ops


NSEEDS = 12          # model seeds 1..12 (MCSeeds12 of the trace configuration); the walks of the design graph use 1, 2
OUT_OF_RANGE = [-1, 2**32, 2**40, -2**31]     # NumPy takes seeds in [0, 2**32-1]; the clean tree refuses these with ValueError


def real_seeds(rng, out_of_range=False):
    """distinct real seeds for the model seeds (all seed values: random 32-bit, small, 0 and the largest legal seed);
    with out_of_range one of the seeds 1, 2 is an integer NumPy refuses: the call must fail the same way every time
    and -- like every integer-seeded call -- leave the global stream alone"""
    pool = [rng.randrange(0, 2**32), rng.randrange(0, 2**32), rng.randrange(0, 100), 0, 2**32 - 1, 1, 42]
    a = rng.choice(pool)              # seed 0 and the largest legal seed 2**32-1 each in about 1/7 of the traces
    b = a
    while b == a:
        b = rng.choice(pool)
    seeds = {"1": a, "2": b}
    if out_of_range:
        seeds[rng.choice(["1", "1", "2"])] = rng.choice(OUT_OF_RANGE)
    used = set(seeds.values())
    for k in range(3, NSEEDS + 1):
        v = rng.randrange(0, 2**32)
        while v in used:
            v = rng.randrange(0, 2**32)
        used.add(v)
        seeds[str(k)] = v
    return seeds


def cache_histories():
    """"same seed, same inputs => same result" wherever in the history the call sits: the same integer seed on the entry
    and on its float32 twin ("alt"), in both orders, separated by a block of calls with 10 other seeds (enough to push
    anything out of a small per-process memo), then both again."""
    def churn(e):
        return [{"op": "CallInt", "e": e, "s": k} for k in range(3, NSEEDS + 1)]
    r1, a1 = {"op": "CallInt", "e": "rand", "s": 1}, {"op": "CallInt", "e": "alt", "s": 1}
    return [[a1, r1] + churn("rand") + [r1, a1] + churn("alt") + [a1, r1],
            [r1, a1] + churn("alt") + [a1, r1] + churn("rand") + [r1, a1]]


def det_histories(rng):
    """histories for the routines WITHOUT random choices (tensor algebra, functions on factorised tensors): the call
    repeated on the same argument objects, across uses of the global stream and across tenalg.set_backend away and back"""
    d, sw, r1 = {"op": "CallNone", "e": "det"}, {"op": "SwitchBackend"}, {"op": "CallInt", "e": "rand", "s": 1}
    hs = [[d, {"op": "Perturb"}, d, sw, d, d, sw, d, r1, d],
          [d, d, {"op": "Reseed", "s": 1}, d, sw, d, {"op": "CallNone", "e": "rand"}, sw, d]]
    for _ in range(2):
        h = []
        for _ in range(rng.randint(6, 10)):
            h.append(rng.choice([d, d, d, sw, {"op": "Perturb"}, r1, {"op": "CallGen", "e": "rand", "g": "g1"}]))
        hs.append(h)
    return hs


def fill_switches(ops, start):
    """give every SwitchBackend its target: the implementation that is not selected at that point"""
    cur, out = start, []
    for op in ops:
        if op["op"] == "SwitchBackend":
            cur = "einsum" if cur == "core" else "core"
            op = dict(op, b=cur)
        out.append(op)
    return out


def complex_history():
    """the entry and its COMPLEX twin (a complex tensor of the same shape built from the same arguments), same seed"""
    r1, a1 = {"op": "CallInt", "e": "rand", "s": 1}, {"op": "CallInt", "e": "alt", "s": 1}
    return [a1, r1, {"op": "Perturb"}, a1, {"op": "CallGen", "e": "alt", "g": "g1"}, {"op": "CallGen", "e": "alt", "g": "g2"},
            {"op": "CallNone", "e": "alt"}, r1, a1]


def execute(case):
    from .. import lib_seeded
    return {"id": case["id"], "events": lib_seeded.run_trace(case)}


def build_cases(chk, walks, thorough, only=None, obj_walks=None):
    from .. import lib_seeded
    rng = random.Random(chk.seed)
    keys = lib_seeded.entry_keys()
    reg = lib_seeded.registry()
    if only:
        keys = [k for k in keys if k in only]
    nrand = 60 if thorough else 6
    cases = []
    index = {k: n for n, k in enumerate(lib_seeded.entry_keys())}
    for ek in keys:
        slow = reg[ek]["slow"]
        isobj = "obj" in reg[ek] and obj_walks is not None
        detonly = reg[ek].get("detonly", False)
        if detonly:
            if obj_walks is None:
                continue
            for hk, h in enumerate(det_histories(rng)):
                start = ["core", "einsum"][hk % 2]
                tr = "e%03d/d%03d" % (index[ek], hk)
                cases.append({"id": "C16/" + tr, "tr": tr, "entry": ek, "fn": reg[ek]["fn"], "opt": reg[ek]["opt"],
                              "ops": fill_switches(h, start), "tenalg": start, "seeds": real_seeds(rng), "genseed": GENSEED,
                              "objseed": OBJSEED, "start": rng.randrange(0, 2**32), "flavour": rng.randrange(0, 4),
                              "altkind": "float32", "prefit": "none", "seedform": "int", "genform": "RandomState"})
            continue
        hist = [("w%03d" % k, w) for k, w in enumerate(obj_walks if isobj else walks)]
        if not thorough:      # quick: rotate the walks over the entries (every edge still on half / a quarter of the entries)
            step = 4 if slow else 2
            hist = hist[index[ek] % step::step]
        for k in range(nrand if not slow else max(2, nrand // 3)):
            hist.append(("r%03d" % k, random_history(rng, rng.randint(6, 20 if thorough else 14), with_obj=isobj)))
        ncache = 0
        if obj_walks is not None:                 # (not in --replay of a single case)
            for k, h in enumerate(cache_histories()[:1 if (slow and not thorough) else 2]):
                hist.append(("c%03d" % k, h))
                ncache += 1
            hist.append(("k000", complex_history()))
        for hid, ops in hist:
            plain = hid[0] in "ck"            # the memo / complex-twin histories: ordinary in-range Python int seeds
            oor = (not plain) and rng.random() < 0.1
            if isobj and reg[ek]["obj"]["clone"] is None:
                # the class offers no get_params(): a "clone" cannot be built, re-fit the object instead (FitObj is
                # enabled wherever CloneFit is and has the same effect in the model)
                ops = [dict(op, op="FitObj") if op["op"] == "CloneFit" else op for op in ops]
            tenalg_start = rng.choice(["core", "core", "einsum"])        # the tensor-algebra implementation selected at trace start
            ops = fill_switches(ops, tenalg_start)
            tr = "e%03d/%s" % (index[ek], hid)     # short ids: TLC wraps long PrintT tuples over several lines
            cases.append({"id": "C16/" + tr, "tr": tr, "entry": ek, "fn": reg[ek]["fn"], "opt": reg[ek]["opt"], "ops": ops, "tenalg": tenalg_start,
                          "seeds": real_seeds(rng, oor), "genseed": GENSEED, "objseed": OBJSEED, "start": rng.randrange(0, 2**32),
                          "flavour": rng.randrange(0, 4),
                          # what the "alt" entry of this trace is: the routine on the float32 / on a complex twin of the arguments
                          "altkind": "complex128" if hid.startswith("k") else "float32" if plain else rng.choice(["float32", "complex128", "special"]),
                          # the FORM in which the seed / the generator is handed over (see lib_seeded.SEEDFORMS / GENFORMS)
                          "prefit": rng.choice(["none", "none", "other", "failing"]),     # class entries: the object's past
                          "seedform": "int" if plain else rng.choice(["int"] * 5 + ["np.int64"]) if oor else
                                      rng.choice(["int"] * 17 + ["np.int64", "np.int64", "np.uint32"]),
                          "genform": rng.choice(["RandomState"] * 15 + ["subclass"] * 4 + ["Generator"])})
    return cases


INT_FIELDS = ("s", "res", "glob", "inp")
STR_FIELDS = ("id", "tr", "ev", "entry", "e", "g", "o", "b", "out")


def well_typed(e):
    """TLC aborts on comparisons across types, so every field of a trace event has ONE type, always
    (numbers are non-negative ints < 2^31, absent numbers are 0, absent names are "none")."""
    def isint(v):
        return isinstance(v, int) and not isinstance(v, bool) and 0 <= v < 2**31
    return (all(isint(e.get(k)) for k in INT_FIELDS) and all(isinstance(e.get(k), str) for k in STR_FIELDS)
            and isinstance(e.get("gens"), dict) and all(isinstance(k, str) and isint(v) for k, v in e["gens"].items())
            and ("genseed" not in e or (isinstance(e["genseed"], dict) and all(isint(v) for v in e["genseed"].values()))))


def corrupt(results, what):
    """--opt corrupt=res|glob|gen|twin : change one logged digest in the first suitable healthy trace."""
    for r in results:
        evs = r.get("events", [])
        seen = {}
        for k, e in enumerate(evs):
            if what == "res" and e["ev"] == "CallInt":
                if e["s"] in seen and evs[seen[e["s"]]]["res"] == e["res"]:
                    e["res"] += 1000
                    return e["id"]
                seen[e["s"]] = k
            if what == "glob" and e["ev"] == "CallInt" and k > 1 and e["glob"] == evs[k - 1]["glob"]:
                e["glob"] += 1000
                return e["id"]
            if what == "gen" and e["ev"] == "CallInt" and k > 1:
                e["gens"]["g2"] += 1000
                return e["id"]
            if what == "twin" and e["ev"] == "CallGen":
                if e["g"] != seen.get("g", e["g"]) and evs[seen["k"]]["res"] == e["res"]:
                    e["gens"][e["g"]] += 1000         # the twin ends in a different state
                    return e["id"]
                if "g" not in seen and all(x["ev"] != "CallGen" for x in evs[:k]):
                    seen = {"g": e["g"], "k": k}
    return None


def validate_and_report(chk, cases, results):
    events = []
    for r in results:
        if "harness_error" in r:
            events.append(r)
        else:
            bad = [e for e in r["events"] if not well_typed(e)]
            if bad:
                events.append({"id": r["id"], "harness_error": "ill-typed trace event (recorder bug): %r" % (bad[0],)})
            else:
                events += r["events"]
    by_id = {e["id"]: e for e in events if "id" in e}
    case_of = {c["tr"]: c for c in cases}
    by_tr = {}
    for x in events:
        if "tr" in x:
            by_tr.setdefault(x["tr"], []).append(x)
    rej = chk.validate("RngStreamsTrace", events, stateful=True, group_key="tr")
    for rid, clause, _ in rej:
        e = by_id.get(rid, {})
        case = case_of.get(e.get("tr"))
        step = int(str(rid).rsplit("/", 1)[-1]) if "/" in str(rid) else 0
        extra = None
        if case is not None:
            extra = {"failing_step": step, "op": case["ops"][step - 1] if 0 < step <= len(case["ops"]) else "Reset",
                     "events_up_to_failure": by_tr.get(case["tr"], [])[:step + 1]}
        chk.violation(rid, clause, case=case, event=e, extra=extra)
    return events, rej


def run(chk, opts):
    import time
    t0 = time.time()
    phases = {}
    thorough = chk.tier == "thorough"
    # 1. design: exhaustive model checking (runs in the background while the histories are replayed)
    from concurrent.futures import ThreadPoolExecutor
    pool = ThreadPoolExecutor(max_workers=8)
    cfg = "RngStreamsMC_thorough.cfg" if thorough else "RngStreamsMC_quick.cfg"
    f_design = pool.submit(tlc.run, "RngStreamsMC", cfg, workers=NCPU if thorough else 8, coverage=not thorough, timeout=3000)
    f_design2 = pool.submit(tlc.run, "RngStreamsMC", "RngStreamsMC_thorough_all.cfg", workers=NCPU, timeout=3000) if thorough else None
    f_wit = {v: pool.submit(tlc.run, "RngStreamsMC", "RngStreamsMC_%s.cfg" % v, workers=2, timeout=900, extra=["-continue"])
             for v in ("asfound", "leak", "witness", "objstream")}
    f_design3 = pool.submit(tlc.run, "RngStreamsMC", "RngStreamsMC_quick3.cfg", workers=2, timeout=900)   # 3 entry classes
    f_designb = pool.submit(tlc.run, "RngStreamsMC", "RngStreamsMC_quick_backends.cfg", workers=2, coverage=True, timeout=900)  # SwitchBackend
    objcfg = "RngStreamsMC_thorough_obj.cfg" if thorough else "RngStreamsMC_quick_obj.cfg"
    f_designobj = pool.submit(tlc.run, "RngStreamsMC", objcfg, workers=NCPU if thorough else 4, coverage=True, timeout=3000)
    # 2. spec -> code: transition cover of the labelled state graph + random histories
    from .c17 import parse_dot, edge_cover
    probe = {"op": "CallInt", "e": "rand", "s": 1}
    fit, clone = {"op": "FitObj", "e": "rand", "o": "o1"}, {"op": "CloneFit", "e": "rand", "o": "o1"}

    def cover(cfgname, tag, pre, post):
        dot = os.path.join(chk.work, "rng_graph_%s.dot" % tag)
        g = tlc.run("RngStreamsMC", cfgname, workers=1, dump=dot, timeout=1200)
        init, edges = parse_dot(dot)
        os.remove(dot)
        paths = edge_cover(init, edges, random.Random(chk.seed))
        # every walk is bracketed by calls with the same integer seed: whatever the walk did to the streams in
        # between, the results must agree (the walk itself is TLC's; the bracket consists of self-loops of the graph)
        ws = [pre + [label_to_op(l) for l in p] + post for p in paths]
        note = {"states": len(edges), "edges": sum(len(v) for v in edges.values()),
                "edge_labels": len({lab for v in edges.values() for lab, _ in v}), "covering_walks": len(ws),
                "walk_ops": sum(len(w) for w in ws)}
        return g, ws, note
    sfx = "_thorough.cfg" if thorough else ".cfg"
    # class-type entries (one estimator object per trace, constructed with the integer seed 1): graph with FitObj / CloneFit;
    # every walk also re-fits the object at its start and end and fits a get_params() clone
    f_objgraph = pool.submit(cover, "RngStreamsGraphObj" + sfx, "obj", [probe, fit], [fit, clone, probe])
    g, walks, gnote = cover("RngStreamsGraph" + sfx, "fn", [probe], [probe])
    g2, obj_walks, gnote2 = f_objgraph.result()
    nedges, nstates = gnote["edges"], gnote["states"]
    chk.notes["graph"] = gnote
    chk.notes["graph_objects"] = gnote2
    only = set(opts["entry"].split(";")) if "entry" in opts else None
    phases["graph_s"] = round(time.time() - t0, 1)
    cases = build_cases(chk, walks, thorough, only, obj_walks)
    chk.add_cases(cases)
    results = execute_cases(execute, cases, repo=chk.repo, chunksize=2)
    if "corrupt" in opts:          # self-test of the binding: falsify ONE recorded observation, the trace spec must reject it
        chk.notes["corrupted"] = corrupt(results, opts["corrupt"])
    phases["replay_done_s"] = round(time.time() - t0, 1)
    # join the design-level runs
    try:
        r = f_design.result()
    except tlc.TLCError as ex:
        chk.machinery.append(str(ex)[:300] + " ... " + str(ex)[-2500:])
        return
    chk.checker_cmds.append("tlc -config %s RngStreamsMC" % cfg)
    chk.states += r.distinct + g.distinct + g2.distinct
    chk.transitions += r.generated + g.generated + g2.generated
    ro = f_designobj.result()        # the "object holding a seed" refinement: FitObj / CloneFit
    chk.checker_cmds.append("tlc -config %s RngStreamsMC" % objcfg)
    chk.states += ro.distinct
    chk.transitions += ro.generated
    chk.notes["design_run_objects"] = ro.summary()
    for a_, (d_, t_) in ro.coverage.items():
        if a_ in ("FitObj", "CloneFit"):
            chk.actions["RngStreamsMC." + a_] = (d_, t_)
    if not ro.ok:
        chk.machinery.append("design spec RngStreamsMC/%s does not satisfy its own properties: %s" % (objcfg, ro.violated or ro.summary()))
    for a_ in ("FitObj", "CloneFit"):
        if ro.coverage.get(a_, (0, 0))[1] == 0:
            chk.machinery.append("vacuous: action %s of RngStreamsMC never taken" % a_)
    r3 = f_design3.result()
    chk.states += r3.distinct
    chk.transitions += r3.generated
    chk.notes["design_run_three_entry_classes"] = r3.summary()
    if not r3.ok:
        chk.machinery.append("design spec RngStreamsMC/RngStreamsMC_quick3.cfg does not satisfy its own properties: %s" % (r3.violated or r3.summary()))
    rb = f_designb.result()
    chk.states += rb.distinct
    chk.transitions += rb.generated
    chk.notes["design_run_two_tenalg_backends"] = rb.summary()
    if "SwitchBackend" in rb.coverage:
        chk.actions["RngStreamsMC.SwitchBackend"] = rb.coverage["SwitchBackend"]
    if not rb.ok or rb.coverage.get("SwitchBackend", (0, 0))[1] == 0:
        chk.machinery.append("design spec RngStreamsMC/RngStreamsMC_quick_backends.cfg: %s (SwitchBackend taken %s)" % (rb.violated or rb.summary(), rb.coverage.get("SwitchBackend")))
    w = f_wit["objstream"].result()
    chk.states += w.distinct
    chk.transitions += w.generated
    chk.notes["witness_objstream_violates"] = sorted(set(w.violated))
    if not {"SameSeedSameResult", "ObjectHoldsSeed"} <= set(w.violated):
        chk.machinery.append("non-vacuity: variant obj_holds_stream violates only %s" % sorted(set(w.violated)))
    chk.notes["design_run"] = r.summary()
    for a_, (d_, t_) in r.coverage.items():
        chk.actions["RngStreamsMC." + a_] = (d_, t_)
    if f_design2 is not None:       # thorough: also a deterministic routine that accepts (and must ignore) a seed
        r2 = f_design2.result()
        chk.checker_cmds.append("tlc -config RngStreamsMC_thorough_all.cfg RngStreamsMC")
        chk.states += r2.distinct
        chk.transitions += r2.generated
        chk.notes["design_run_all_seedable"] = r2.summary()
        if not r2.ok:
            chk.machinery.append("design spec RngStreamsMC/RngStreamsMC_thorough_all.cfg does not satisfy its own properties: %s" % (r2.violated or r2.summary()))
    if not r.ok:
        chk.machinery.append("design spec RngStreamsMC/%s does not satisfy its own properties: %s\n%s" % (cfg, r.violated or r.summary(), r.out[-3000:]))
    if not thorough:
        for a_ in ("Perturb", "Reseed", "CallNone", "CallInt", "CallGen"):
            if r.coverage.get(a_, (0, 0))[1] == 0:
                chk.machinery.append("vacuous: action %s of RngStreamsMC never taken" % a_)
    need = {"SameSeedSameResult", "TwinGeneratorsAgree", "IntSeedLeavesGlobal", "GenCallOwnStreamOnly"}
    for variant in ("asfound", "leak"):
        w = f_wit[variant].result()
        chk.states += w.distinct
        chk.transitions += w.generated
        chk.notes["witness_%s_violates" % variant] = sorted(set(w.violated))
        if not need <= set(w.violated):
            chk.machinery.append("non-vacuity: variant %s violates only %s, expected %s" % (variant, sorted(set(w.violated)), sorted(need)))
    w = f_wit["witness"].result()
    chk.states += w.distinct
    chk.transitions += w.generated
    if not {"NoWitnessInt", "NoWitnessTwins", "NoWitnessObj", "NoWitnessSwitch"} <= set(w.violated):
        chk.machinery.append("non-vacuity: witness histories not found: %s" % sorted(set(w.violated)))
    chk.notes["witness_histories_found"] = sorted(set(w.violated))
    pool.shutdown()
    phases["design_joined_s"] = round(time.time() - t0, 1)
    events, rej = validate_and_report(chk, cases, results)
    phases["validated_s"] = round(time.time() - t0, 1)
    chk.notes["phases"] = phases
    nent = len({c["entry"] for c in cases})
    chk.rule = ("every edge of the labelled state graph of RngStreams (%d states, %d transitions, <=%d ops; %d covering walks) plus 2 memo histories (entry and its float32 twin, same seed, both orders, separated by 10 other seeds) and "
                "%d random histories per entry point (seed %d; 12 seeds, ~10%% of the traces with an out-of-range integer seed, ~15%% with NumPy integer seeds), each replayed on each of %d seed-accepting entry point variants "
                "(%d public functions/classes) with per-trace random real seeds; class-type entries (%d variants) additionally keep ONE estimator object per trace, constructed with the integer seed, that is re-fitted (FitObj) and cloned from get_params() (CloneFit) along the walks of the graph with those actions (%d transitions); every trace starts under tensorly.tenalg 'core' or 'einsum' and random histories switch it (SwitchBackend); %d routines without random choices (tensor algebra, factorised-tensor functions, option forms) are replayed on their own histories (repeated unseeded calls on the same argument objects across stream use and backend switches); a case = one trace; distinct = distinct (entry, op, "
                "seeding) steps observed" % (nstates, nedges, 4 if thorough else 3, len(walks), 60 if thorough else 6, chk.seed,
                                             nent, len({c["fn"] for c in cases}),
                                             len({c["entry"] for c in cases if any(o["op"] in ("FitObj", "CloneFit") for o in c["ops"])}), gnote2["edges"], len({c["entry"] for c in cases if "/d0" in c["tr"]})))
    for e in events:
        if "ev" in e and e["ev"] != "Reset":
            chk.distinct.add((e["entry"], e["ev"], e["e"], e["s"], e["g"], e["o"]))
    chk.notes["entries"] = sorted({c["entry"] for c in cases})
    # vacuity guard (not a verdict): an entry whose calls mostly raise exercises nothing
    ncall, nraise = {}, {}
    for e in events:
        if e.get("ev", "").startswith("Call") and e.get("e") == "rand":
            ncall[e["entry"]] = ncall.get(e["entry"], 0) + 1
            nraise[e["entry"]] = nraise.get(e["entry"], 0) + (e["out"] != "ok")
    chk.notes["raised_calls"] = {k: v for k, v in nraise.items() if v}
    # which entries refuse (raise on) the complex twin of their arguments -- for those the complex histories only check
    # that the refusal reproduces and leaves the streams alone
    kind = {c["tr"]: c.get("altkind") for c in cases}
    calt, ralt = {}, {}
    for e in events:
        if e.get("e") == "alt" and kind.get(e.get("tr")) == "complex128":
            calt[e["entry"]] = calt.get(e["entry"], 0) + 1
            ralt[e["entry"]] = ralt.get(e["entry"], 0) + (e["out"] != "ok")
    chk.notes["complex_twin_refused_by"] = sorted(k for k in calt if ralt[k] == calt[k])
    chk.notes["complex_twin_accepted_by"] = len([k for k in calt if ralt[k] < calt[k]])
    for k, n in ncall.items():
        if nraise[k] * 2 > n:
            chk.machinery.append("vacuous: %d of %d calls of %s raised (%s)" % (nraise[k], n, k, next(
                (e.get("exc") for e in events if e.get("entry") == k and e.get("out") == "raised"), "?")))
    chk.notes["events"] = len(events)
    for e in events[1:4]:
        chk.sample(e)
    chk.exhaustive = (not chk.machinery) and only is None
    chk.assumptions += ["NumPy backend only; single BLAS thread; bit identity via sha-256 of dtype/shape/bytes of every returned array",
                        "inputs of every entry point are fixed per entry and copied for every call",
                        "routines that make random choices but accept no random_state (parafac_power_iteration, symmetric_parafac_power_iteration) are outside the quantifier",
                        "equality between int-seeded, generator-seeded and unseeded results is not required (separate memo keys)",
                        "a generator-seeded call / deterministic call that moves the global stream is tolerated (Drift), the property text only obliges integer seeds"]


def replay(chk, rec, opts):
    case = rec["case"]
    res = execute_cases(execute, [case], repo=chk.repo, procs=1)
    events, rej = validate_and_report(chk, [case], res)
    for e in events[:4]:
        chk.sample(e)
